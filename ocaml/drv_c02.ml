(* Driver for Model/CloseProto.v.  usage: modelrun_c02 < cases > results
   case: "<top-level ops> ; <beh 0> | <beh 1> | ..."   (tokens: see checks/c02.py) *)
let ty_of = function
  | 'm' -> TSimple | 's' -> TStream | 'u' -> TUdp | 'g' -> TSignal | 'f' -> TFsPoll
  | _ -> failwith "type"
let ty_ch = function
  | TSimple -> 'm' | TStream -> 's' | TUdp -> 'u' | TSignal -> 'g' | TFsPoll -> 'f'

let parse_op (tok : string) : cop =
  let arg = String.sub tok 1 (String.length tok - 1) in
  let parts = String.split_on_char ',' arg in
  let nat_ s = nat_of_int (int_of_string s) in
  match tok.[0], parts with
  | 'I', [t] -> OInit (ty_of t.[0])
  | 'B', [h; r] -> OAcquire (nat_ h, nat_ r)
  | 'E', [h; r] -> ORelease (nat_ h, nat_ r)
  | 'S', [h; r; k] -> OSubmit (nat_ h, nat_ r, nat_ k)
  | 'y', [r; st] -> ODone (nat_ r, z_of_string st)
  | 'q', [r; st] -> OReqCb (nat_ r, z_of_string st)
  | 'h', [h] -> OHCb (nat_ h)
  | 'b', [h] -> OBatch (nat_ h)
  | 'g', [h; n] -> OSigPending (nat_ h, z_of_string n)
  | 'F', [h] -> OFpStart (nat_ h)
  | 'T', [h] -> OFpStop (nat_ h)
  | 'D', [h] -> OFpStat (nat_ h)
  | 'C', [h] -> OClose (nat_ h)
  | 'K', _ -> OPhase
  | _ -> failwith ("bad op " ^ tok)

let i = int_of_nat

let show_op = function
  | OInit t -> Printf.sprintf "I%c" (ty_ch t)
  | OAcquire (h, r) -> Printf.sprintf "B%d,%d" (i h) (i r)
  | ORelease (h, r) -> Printf.sprintf "E%d,%d" (i h) (i r)
  | OSubmit (h, r, k) -> Printf.sprintf "S%d,%d,%d" (i h) (i r) (i k)
  | ODone (r, st) -> Printf.sprintf "y%d,%s" (i r) (string_of_z st)
  | OReqCb (r, st) -> Printf.sprintf "q%d,%s" (i r) (string_of_z st)
  | OHCb h -> Printf.sprintf "h%d" (i h)
  | OBatch h -> Printf.sprintf "b%d" (i h)
  | OSigPending (h, n) -> Printf.sprintf "g%d,%s" (i h) (string_of_z n)
  | OFpStart h -> Printf.sprintf "F%d" (i h)
  | OFpStop h -> Printf.sprintf "T%d" (i h)
  | OFpStat h -> Printf.sprintf "D%d" (i h)
  | OClose h -> Printf.sprintf "C%d" (i h)
  | OPhase -> "K"

let case (line : string) : string =
  match String.split_on_char ';' line with
  | [ops; behs] ->
      let ops = List.map parse_op (split_on ' ' ops) in
      let beha = Array.of_list (List.map (fun b -> List.map parse_op (split_on ' ' b))
                                  (String.split_on_char '|' behs)) in
      let beh k = let k = int_of_nat k in if k < Array.length beha then beha.(k) else [] in
      let evs = ctrace ops beh in
      let buf = Buffer.create 512 in
      List.iter (fun e ->
        let s = match e with
          | EIn o -> show_op o
          | EReqCb (r, st, cl) -> Printf.sprintf "%c%d,%s" (if cl then 'x' else 'q') (i r) (string_of_z st)
          | EHCb h -> Printf.sprintf "h%d" (i h)
          | ECloseCb h -> Printf.sprintf "c%d" (i h)
          | ELeak (h, r) -> Printf.sprintf "L%d,%d" (i h) (i r)
          | ETouch _ -> "" in
        if s <> "" then (Buffer.add_string buf s; Buffer.add_char buf ' ')) evs;
      Buffer.contents buf
  | _ -> failwith "bad case"

let () = iter_lines (fun l ->
  (try print_string (case l) with Failure m -> print_string ("ERROR " ^ m));
  print_newline ())
