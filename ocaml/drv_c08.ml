(* Driver for the C08 model (Model/ThreadPool.v).
   case:  <nthreads> ; <script of loop 0> | <script of loop 1> ... ; <r>:<ops> <r>:<ops> ... ; t,a t,a ...
   ops:   c f s r  = submit CPU work / fast I/O (fs) / slow I/O (getaddrinfo) / uv_random (CPU kind)
          x<r>     = uv_cancel(request r), R = uv_run(NOWAIT), T = uv_stop; "-" = empty script
   the third field gives the operations executed inside the completion callback of request r.
   output: one record per choice, "t:-" (not enabled) or "t:ev.ev.ev", then "v<verdict>". *)
let zs = string_of_z
let parse_ops (w : string) : op list =
  if w = "-" then [] else begin
    let n = String.length w in
    let rec go i acc =
      if i >= n then List.rev acc else
      match w.[i] with
      | 'c' | 'r' -> go (i + 1) (OSubmit KCpu :: acc)
      | 'f' -> go (i + 1) (OSubmit KFast :: acc)
      | 's' -> go (i + 1) (OSubmit KSlow :: acc)
      | 'R' -> go (i + 1) (ORun :: acc)
      | 'T' -> go (i + 1) (OStop :: acc)
      | 'x' ->
          let j = ref (i + 1) in
          while !j < n && w.[!j] >= '0' && w.[!j] <= '9' do incr j done;
          go !j (OCancel (nat_of_int (int_of_string (String.sub w (i + 1) (!j - i - 1)))) :: acc)
      | _ -> failwith ("bad op in " ^ w) in
    go 0 [] end

let sync_str = function
  | SLock -> "L" | SUnlock -> "U"
  | SLockQ l -> "l" ^ string_of_int (int_of_nat l) | SUnlockQ l -> "u" ^ string_of_int (int_of_nat l)
  | SWait -> "W" | SWake -> "K" | SSignal -> "S" | SPoll -> "P" | SNop -> "N" | SStop -> "T"
let ev_str = function
  | ESync (_, o) -> sync_str o
  | ESubmit (r, _, k) -> "+" ^ string_of_int (int_of_nat r) ^ (match k with KCpu -> "c" | KFast -> "f" | KSlow -> "s")
  | EWork (r, _) -> "w" ^ string_of_int (int_of_nat r)
  | EDone (r, _, st) -> "d" ^ string_of_int (int_of_nat r) ^ "," ^ zs st
  | ECancel (r, _, code) -> "c" ^ string_of_int (int_of_nat r) ^ "," ^ zs code
  | EAlive (_, b) -> if b then "a1" else "a0"

let case line =
  match String.split_on_char ';' line with
  | [n; progs; behs; sched] ->
      let n = int_of_string (String.trim n) in
      let progs = List.map (fun p -> parse_ops (String.trim p)) (String.split_on_char '|' progs) in
      let tbl = Hashtbl.create 16 in
      List.iter (fun b -> match String.split_on_char ':' b with
                          | [r; ops] -> Hashtbl.replace tbl (int_of_string r) (parse_ops ops)
                          | _ -> failwith "bad beh") (split_on ' ' behs);
      let beh r = try Hashtbl.find tbl (int_of_nat r) with Not_found -> [] in
      let c = { c_n = nat_of_int n; c_loops = nat_of_int (List.length progs); c_beh = beh } in
      let sched = List.map (fun p -> match String.split_on_char ',' p with
                                     | [t; a] -> (nat_of_int (int_of_string t), nat_of_int (int_of_string a))
                                     | _ -> failwith "bad choice") (split_on ' ' sched) in
      let (log, fin) = run_log c (init c progs) sched in
      let buf = Buffer.create 1024 in
      List.iter (fun (t, evs) ->
        Buffer.add_string buf (string_of_int (int_of_nat t));
        Buffer.add_char buf ':';
        (match evs with
         | None -> Buffer.add_char buf '-'
         | Some evs -> Buffer.add_string buf (String.concat "." (List.map ev_str evs)));
        Buffer.add_char buf ' ') log;
      Buffer.add_string buf ("v" ^ zs (verdict c fin));
      Buffer.contents buf
  | _ -> failwith ("bad case " ^ line)

(* enumeration of all maximal schedules (aux = 0 only, choices among enabled threads) of a
   configuration "<n> ; <scripts> ; <behaviours>", depth first, at most [limit] of them; every
   schedule is printed as a complete case line *)
let enum limit line =
  match String.split_on_char ';' line with
  | n :: progs :: behs :: _ ->
      let nn = int_of_string (String.trim n) in
      let ps = List.map (fun p -> parse_ops (String.trim p)) (String.split_on_char '|' progs) in
      let tbl = Hashtbl.create 16 in
      List.iter (fun b -> match String.split_on_char ':' b with
                          | [r; ops] -> Hashtbl.replace tbl (int_of_string r) (parse_ops ops)
                          | _ -> failwith "bad beh") (split_on ' ' behs);
      let beh r = try Hashtbl.find tbl (int_of_nat r) with Not_found -> [] in
      let c = { c_n = nat_of_int nn; c_loops = nat_of_int (List.length ps); c_beh = beh } in
      let nt = List.length ps + nn in
      let count = ref 0 in
      let head = String.trim n ^ " ; " ^ String.trim progs ^ " ; " ^ String.trim behs ^ " ;" in
      let rec dfs s acc depth =
        if !count < limit then begin
          let any = ref false in
          if depth < 400 then
            for t = 0 to nt - 1 do
              match step c s (nat_of_int t) O with
              | Some s' -> any := true; dfs s' (t :: acc) (depth + 1)
              | None -> ()
            done;
          if not !any then begin
            incr count;
            print_string head;
            List.iter (fun t -> Printf.printf " %d,0" t) (List.rev acc);
            print_newline ()
          end
        end in
      dfs (init c ps) [] 0
  | _ -> failwith "bad config"

(* kind table.  case: "work" | "rnd" | "fs <index> <name>" | "gai <0|1> ..." | "gni <flags> ..."
   output: "<kind> <queue>"; kind = c/f/s as handed to uv__work_submit ("?" for uv_queue_work, whose
   call of uv__work_submit is inside threadpool.c and cannot be intercepted), queue = slow|wq *)
let kinds line =
  let kc = function KCpu -> "c" | KFast -> "f" | KSlow -> "s" in
  let out a hidden =
    (if hidden then "?" else kc (api_kind a)) ^ " " ^ (if api_kind a = KSlow then "slow" else "wq") in
  match split_on ' ' line with
  | "work" :: _ -> out AQueueWork true
  | "rnd" :: _ -> out ARandom false
  | "fs" :: i :: _ -> out (AFs (nat_of_int (int_of_string i))) false
  | "gai" :: n :: _ -> out (AGetaddrinfo (n = "1")) false
  | "gni" :: f :: _ -> out (AGetnameinfo (z_of_string f)) false
  | _ -> failwith ("bad kinds case " ^ line)

(* completion wrappers.  case: "<api> <fill byte> <run|cancel|busy> <work result>"
   output: "cbs=<0|1> st=<status|-> unreg=<n>" *)
let api_case line =
  match split_on ' ' line with
  | api :: fill :: fate :: wres :: _ ->
      let a = match api with
        | "work" -> CWork true | "work0" -> CWork false | "rnd" -> CRandom
        | "gai" -> CGetaddrinfo | "gni" -> CGetnameinfo
        | s when String.length s > 3 && String.sub s 0 3 = "fs_" -> CFs
        | _ -> failwith "api" in
      let b = int_of_string fill in
      (* the int the field would hold if nobody initialised it: four copies of the fill byte *)
      let g = let v = b lor (b lsl 8) lor (b lsl 16) lor (b lsl 24) in
              if v >= 0x80000000 then v - 0x100000000 else v in
      let f = match fate with "run" -> FRun | "cancel" -> FCancelled | "busy" -> FBusy | _ -> failwith "fate" in
      let (n, st) = complete_api a (z_of_int g) (z_of_string wres) f in
      Printf.sprintf "cbs=%d st=%s unreg=%d" (match st with None -> 0 | Some _ -> 1)
        (match st with None -> "-" | Some z -> zs z) (int_of_nat n)
  | _ -> failwith ("bad api case " ^ line)

(* fork.  case: "<nthreads> <k>": parent with k slow requests submitted, workers take what the cap
   allows; fork; the child submits one slow and one CPU request on a fresh loop and runs until
   nobody can move.  output: "slow=<0|1> cpu=<0|1> v<verdict>" *)
let fork_case fixed line =
  match split_on ' ' line with
  | [n; k] ->
      let n = int_of_string n and k = int_of_string k in
      let c = { c_n = nat_of_int n; c_loops = nat_of_int 1; c_beh = (fun _ -> []) } in
      let pprog = [List.init k (fun _ -> OSubmit KSlow)] in
      let psched = List.init k (fun _ -> (nat_of_int 0, O)) @
                   List.init n (fun w -> (nat_of_int (1 + w), O)) in
      let (_, parent) = run_log c (init c pprog) psched in
      let cprog = [[OSubmit KSlow; OSubmit KCpu]] in
      let child0 = if fixed then fork_child_fixed c parent cprog else fork_child c parent cprog in
      let rounds = List.concat (List.init 12 (fun _ -> List.init (n + 1) (fun t -> (nat_of_int t, O)))) in
      let (log, fin) = run_log c child0 rounds in
      let dones = List.concat (List.map (fun (_, e) -> match e with
                    | Some evs -> List.filter_map (function EDone (r, _, _) -> Some (int_of_nat r) | _ -> None) evs
                    | None -> []) log) in
      Printf.sprintf "slow=%d cpu=%d v%s" (if List.mem 0 dones then 1 else 0) (if List.mem 1 dones then 1 else 0)
        (zs (verdict c fin))
  | _ -> failwith ("bad fork case " ^ line)

(* threshold.  case: "<from> <to>"; output "n:threshold n" for every n of the range *)
let threshold_case line =
  match split_on ' ' line with
  | [a; b] ->
      let a = int_of_string a and b = int_of_string b in
      String.concat " " (List.init (b - a + 1) (fun i ->
        Printf.sprintf "%d:%d" (a + i) (int_of_nat (threshold (nat_of_int (a + i))))))
  | _ -> failwith "bad threshold case"

let () =
  if Array.length Sys.argv > 1 && Sys.argv.(1) = "threshold" then
    iter_lines (fun l -> print_string (try threshold_case l with Failure m -> "bad " ^ m); print_newline ())
  else
  if Array.length Sys.argv > 1 && (Sys.argv.(1) = "api" || Sys.argv.(1) = "fork" || Sys.argv.(1) = "forkfix") then begin
    let f = match Sys.argv.(1) with "api" -> api_case | "fork" -> fork_case false | _ -> fork_case true in
    iter_lines (fun l -> print_string (try f l with Failure m -> "bad " ^ m); print_newline ())
  end else
  if Array.length Sys.argv > 1 && Sys.argv.(1) = "kinds" then
    iter_lines (fun l -> print_string (try kinds l with Failure m -> "bad " ^ m); print_newline ())
  else
  if Array.length Sys.argv > 2 && Sys.argv.(1) = "enum" then
    iter_lines (fun l -> if String.trim l <> "" then enum (int_of_string Sys.argv.(2)) l)
  else
  iter_lines (fun l -> print_string (try case l with Failure m -> "bad " ^ m); print_newline ())
