(* Driver for the C17 models.  usage: modelrun_c17 fspoll|fspoll-fixed|fsevent < cases > results
   fs_poll case: "<t0> <npaths> ; ops ; beh0 | beh1 | ..." where every K and Z token is followed by
   the oracle tokens q<p>=<status>/<15 fields separated by ':'> (see harness/c17_fspoll.c and
   checks/c17.py, which canonicalises the statbufs). *)
let nat_ s = nat_of_int (int_of_string s)

let parse_sb (s : string) : statbuf =
  match List.map z_of_string (String.split_on_char ':' s) with
  | [a; b; c; d; e; f; g; h; i; j; k; l; m; n; o] ->
      { sb_ctim_ns = a; sb_mtim_ns = b; sb_btim_ns = c; sb_ctim_s = d; sb_mtim_s = e; sb_btim_s = f;
        sb_size = g; sb_mode = h; sb_uid = i; sb_gid = j; sb_ino = k; sb_dev = l; sb_flags = m;
        sb_gen = n; sb_rest = o }
  | [_] -> zero_sb
  | _ -> failwith ("bad statbuf " ^ s)

let sb_str (b : statbuf) : string =
  String.concat ":" (List.map string_of_z
    [b.sb_ctim_ns; b.sb_mtim_ns; b.sb_btim_ns; b.sb_ctim_s; b.sb_mtim_s; b.sb_btim_s; b.sb_size;
     b.sb_mode; b.sb_uid; b.sb_gid; b.sb_ino; b.sb_dev; b.sb_flags; b.sb_gen; b.sb_rest])

(* q<p>=<st>/<sb> *)
let parse_q (tok : string) : int * (z * statbuf) =
  let body = String.sub tok 1 (String.length tok - 1) in
  match String.split_on_char '=' body with
  | [p; rhs] ->
      (match String.split_on_char '/' rhs with
       | [st; sb] -> (int_of_string p, (z_of_string st, parse_sb sb))
       | _ -> failwith "bad q")
  | _ -> failwith "bad q"

let res_fun (qs : (int * (z * statbuf)) list) : nat -> (z * statbuf) =
  fun p -> let p = int_of_nat p in
           (try List.assoc p qs with Not_found -> (z_of_int (-2), zero_sb))

let rec parse_ops (toks : string list) : op list =
  match toks with
  | [] -> []
  | tok :: rest ->
      let arg = String.sub tok 1 (String.length tok - 1) in
      let parts = String.split_on_char ',' arg in
      let take_q rest =
        let rec go acc = function
          | t :: r when String.length t > 0 && t.[0] = 'q' -> go (parse_q t :: acc) r
          | r -> (List.rev acc, r) in
        go [] rest in
      (match tok.[0], parts with
       | 'I', _ -> OInit :: parse_ops rest
       | 'S', [h; cb; p; iv; f] ->
           OStart (nat_ h, nat_ cb, nat_ p, z_of_string iv, nat_ f) :: parse_ops rest
       | 'T', [h] -> OStop (nat_ h) :: parse_ops rest
       | 'C', [h] -> OClose (nat_ h) :: parse_ops rest
       | 'O', _ -> OObs :: parse_ops rest
       | 'W', _ -> OWalk :: parse_ops rest
       | 'K', _ -> let (qs, r) = take_q rest in ORelease (res_fun qs) :: parse_ops r
       | 'Z', _ -> let (qs, r) = take_q rest in ODrain (res_fun qs) :: parse_ops r
       | 'A', [d] -> OAdvance (z_of_string d) :: parse_ops rest
       | 'U', [id; d] -> OTimer (nat_ id, z_of_string d) :: parse_ops rest
       | 'R', _ -> ORun :: parse_ops rest
       | 'F', _ -> parse_ops rest
       | _ -> failwith ("bad fs_poll op " ^ tok))

let fspoll_case (fx : bool) (line : string) : string =
  match String.split_on_char ';' line with
  | [hd; ops; behs] ->
      let t0 = match split_on ' ' hd with t :: _ -> z_of_string t | [] -> z_of_int 0 in
      let ops = parse_ops (split_on ' ' ops) in
      let behl = List.map (fun b -> parse_ops (split_on ' ' b)) (String.split_on_char '|' behs) in
      let beha = Array.of_list behl in
      let beh k = let k = int_of_nat k in if k < Array.length beha then beha.(k) else [] in
      let (_, evs) = run fx (init t0) ops beh O in
      let buf = Buffer.create 1024 in
      List.iter (fun e ->
        (match e with
         | ERet c -> Buffer.add_string buf ("r" ^ string_of_z c)
         | EPoll (h, cb, _, st, prev, curr) ->
             Buffer.add_string buf (Printf.sprintf "p%d,%d,%s,%s,%s" (int_of_nat h) (int_of_nat cb)
                                      (string_of_z st) (sb_str prev) (sb_str curr))
         | EClosed (h, _) -> Buffer.add_string buf (Printf.sprintf "x%d" (int_of_nat h))
         | EStat p -> Buffer.add_string buf (Printf.sprintf "s%d" (int_of_nat p))
         | EIter -> Buffer.add_char buf 'g'
         | EUser id -> Buffer.add_string buf (Printf.sprintf "u%d" (int_of_nat id))
         | EWalk l -> Buffer.add_string buf ("v" ^ String.concat "," (List.map (fun h -> string_of_int (int_of_nat h)) l))
         | EObs l ->
             Buffer.add_char buf 'o';
             List.iter (fun ((a, c), p) ->
               Buffer.add_string buf (Printf.sprintf "%d%d%s," (if a then 1 else 0) (if c then 1 else 0)
                 (match p with Some p -> string_of_int (int_of_nat p) | None -> "-"))) l
         | EFinal (rc, live) ->
             Buffer.add_string buf (Printf.sprintf "z%s,%d" (string_of_z rc) (int_of_nat live)));
        Buffer.add_char buf ' ') evs;
      Buffer.contents buf
  | _ -> failwith "bad fs_poll case"

(* fs_event case: "ops ; beh0 | beh1 | ..." with S<h>,<cb>,<base>,<wd> and D followed by the events
   e<wd>,<mask>,<name token or -> read in that iteration *)
let rec parse_iops (toks : string list) : iop list =
  match toks with
  | [] -> []
  | tok :: rest ->
      let arg = String.sub tok 1 (String.length tok - 1) in
      let parts = String.split_on_char ',' arg in
      (match tok.[0], parts with
       | 'I', _ -> IInit :: parse_iops rest
       | 'S', [h; cb; base; wd] -> IStart (nat_ h, nat_ cb, nat_ base, z_of_string wd) :: parse_iops rest
       | 'T', [h] -> IStop (nat_ h) :: parse_iops rest
       | 'C', [h] -> IClose (nat_ h) :: parse_iops rest
       | 'O', _ -> IObs :: parse_iops rest
       | 'P', _ -> IChildEnd :: parse_iops rest
       | 'Y', _ -> IFork (List.map z_of_string (List.filter (fun x -> x <> "") parts)) :: parse_iops rest
       | 'D', _ ->
           let rec go acc = function
             | t :: r when String.length t > 0 && t.[0] = 'e' ->
                 (match String.split_on_char ',' (String.sub t 1 (String.length t - 1)) with
                  | [wd; mask; nm] ->
                      go (((z_of_string wd, z_of_string mask),
                           (if nm = "-" then None else Some (nat_ nm))) :: acc) r
                  | _ -> failwith ("bad event " ^ t))
             | r -> (List.rev acc, r) in
           let (evs, r) = go [] rest in
           IDispatch evs :: parse_iops r
       | _ -> failwith ("bad fs_event op " ^ tok))

let fsevent_case (line : string) : string =
  match String.split_on_char ';' line with
  | ops :: behs :: more ->
      let ops = parse_iops (split_on ' ' ops) in
      let mk b = Array.of_list (List.map (fun b -> parse_iops (split_on ' ' b)) (String.split_on_char '|' b)) in
      let beha = mk behs in
      let behc = match more with c :: _ -> mk c | [] -> [||] in       (* the child's callbacks: 1000 + k *)
      let beh k = let k = int_of_nat k in
                  if k >= 1000 then (if k - 1000 < Array.length behc then behc.(k - 1000) else [])
                  else if k < Array.length beha then beha.(k) else [] in
      let (_, evs) = irun iinit ops beh O in
      let buf = Buffer.create 1024 in
      List.iter (fun e ->
        (match e with
         | IRet c -> Buffer.add_string buf ("r" ^ string_of_z c)
         | ICb (h, cb, nm, bits, _) ->
             Buffer.add_string buf (Printf.sprintf "c%d,%d,%d,%s" (int_of_nat h) (int_of_nat cb)
                                      (int_of_nat nm) (string_of_z bits))
         | IRm wd -> Buffer.add_string buf ("m" ^ string_of_z wd)
         | IClosed h -> Buffer.add_string buf (Printf.sprintf "x%d" (int_of_nat h))
         | IChildExit -> Buffer.add_char buf 'P'
         | IObsE l ->
             Buffer.add_char buf 'o';
             List.iter (fun (a, b) ->
               Buffer.add_string buf (Printf.sprintf "%d:%s," (if a then 1 else 0)
                 (match b with Some n -> string_of_int (int_of_nat n) | None -> "-"))) l);
        Buffer.add_char buf ' ') evs;
      Buffer.contents buf
  | _ -> failwith "bad fs_event case"

let () =
  let f = match Sys.argv.(1) with
    | "fsevent" -> fsevent_case
    | "fspoll" -> fspoll_case false
    | "fspoll-fixed" -> fspoll_case true
    | _ -> failwith "mode" in
  iter_lines (fun l -> print_string (try f l with Failure m -> "ERROR " ^ m); print_newline ())
