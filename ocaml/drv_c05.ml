(* Driver for the C05 model (Model/StreamWrite.v).
   case:  <blk> <shutans> [<conn>] ; ops ; beh0 | beh1 | ... ; oracle ; pollw
   conn:  "-" (opened connected) or t:<cres>:<so,so,...> / u:<cres>:<so,...> (right after
          uv_tcp_connect / uv_pipe_connect; cres = connect(2) result 0 or -errno; so = SO_ERROR answers)
   ops:   W<lens> T<lens> S C R     lens: comma separated, "a*k" = k buffers of length a
   oracle: n<k> (write returned k)  e<errno> (write failed)
   prints the canonical trace (see harness/c05_stream.c). *)
let parse_lens (s : string) : n list =
  List.concat_map (fun tok ->
    match String.split_on_char '*' tok with
    | [a] -> [n_of_string a]
    | [a; k] -> List.init (int_of_string k) (fun _ -> n_of_string a)
    | _ -> failwith "bad lens") (split_on ',' s)

let parse_op (tok : string) : op =
  let arg = String.sub tok 1 (String.length tok - 1) in
  match tok.[0] with
  | 'W' -> OWrite (parse_lens arg)
  | 'T' -> OTry (parse_lens arg)
  | 'S' -> OShutdown
  | 'C' -> OClose
  | 'R' -> ORun
  | _ -> failwith ("bad op " ^ tok)

let parse_answer (tok : string) : answer =
  let arg = String.sub tok 1 (String.length tok - 1) in
  match tok.[0] with
  | 'n' -> AWrote (n_of_string arg)
  | 'e' -> AErr (pos_of_bz (BZ.of_string arg))
  | _ -> failwith ("bad answer " ^ tok)

let case (line : string) : string =
  match String.split_on_char ';' line with
  | [hd; ops; behs; orc; pw] ->
      let parse_conn c =
        if c = "-" then None else
        match String.split_on_char ':' c with
        | [k; cres; so] -> Some ((k = "t", z_of_string cres), List.map z_of_string (split_on ',' so))
        | [k; cres] -> Some ((k = "t", z_of_string cres), [])
        | _ -> failwith "bad conn" in
      let blk, sa, conn = match split_on ' ' hd with
        | [b; a] -> (b = "1", z_of_string a, None)
        | [b; a; c] -> (b = "1", z_of_string a, parse_conn c)
        | _ -> failwith "bad header" in
      let ops = List.map parse_op (split_on ' ' ops) in
      let beha = Array.of_list (List.map (fun b -> List.map parse_op (split_on ' ' b))
                                  (String.split_on_char '|' behs)) in
      let beh k = let k = int_of_nat k in if k < Array.length beha then beha.(k) else [] in
      let o = List.map parse_answer (split_on ' ' orc) in
      let pw = List.map (fun t -> t <> "0") (split_on ' ' pw) in
      let s = exec beh (init blk o sa pw conn) ops in
      let buf = Buffer.create 1024 in
      let add = Buffer.add_string buf in
      let total = ref BZ.zero in
      List.iter (fun e ->
        match e with
        | EWrite (id, t) -> add (Printf.sprintf "w%d,%s " (int_of_nat id) (string_of_n t))
        | ERet (id, c) -> add (Printf.sprintf "r%d:%s " (int_of_nat id) (string_of_z c))
        | ETry (id, t) -> add (Printf.sprintf "t%d,%s " (int_of_nat id) (string_of_n t))
        | ETryRet (id, c) -> add (Printf.sprintf "u%d:%s " (int_of_nat id) (string_of_z c))
        | EChunk (id, off, len) ->
            if len <> N0 then begin
              total := BZ.add !total (bz_of_n len);
              add (Printf.sprintf "c%d,%s,%s " (int_of_nat id) (string_of_n off) (string_of_n len))
            end
        | ECb (id, st, q) -> add (Printf.sprintf "b%d:%s:%s " (int_of_nat id) (string_of_z st) (string_of_n q))
        | EShut c -> add (Printf.sprintf "s:%s " (string_of_z c))
        | ESysShut a -> add (Printf.sprintf "Y:%s " (string_of_z a))
        | EShutCb c -> add (Printf.sprintf "B:%s " (string_of_z c))
        | ECloseCb -> add "x "
        | EQ q -> add (Printf.sprintf "q%s " (string_of_n q))
        | EConnCb c -> add (Printf.sprintf "k:%s " (string_of_z c))) (trace s);
      add (Printf.sprintf "e%s,%d,1" (BZ.to_string !total) (if s.shut || not s.fdopen then 1 else 0));
      Buffer.contents buf
  | _ -> failwith "bad case"

let () = iter_lines (fun l -> print_string (case l); print_newline ())
