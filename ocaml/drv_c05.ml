(* Driver for the C05 model (Model/StreamWrite.v).
   case:  <blk> <shutans> [<conn> [<ipc>]] ; ops ; beh0 | beh1 | ... ; oracle ; pollw
   conn:  "-" (opened connected) or t:<cres>:<so,so,...> / u:<cres>:<so,...> (right after
          uv_tcp_connect / uv_pipe_connect; cres = connect(2) result 0 or -errno; so = SO_ERROR answers)
   ops:   W<lens> T<lens> S C R V<lens> (uv_write2 with the send handle) X (close the send handle)     lens: comma separated, "a*k" = k buffers of length a
   oracle: n<k> (write returned k)  e<errno> (write failed)
   prints the canonical trace (see harness/c05_stream.c). *)
let parse_lens (s : string) : n list =
  List.concat_map (fun tok ->
    match String.split_on_char '*' tok with
    | [a] -> [n_of_string a]
    | [a; k] -> List.init (int_of_string k) (fun _ -> n_of_string a)
    | _ -> failwith "bad lens") (split_on ',' s)

let parse_op (tok : string) : op =
  let arg = String.sub tok 1 (String.length tok - 1) in
  match tok.[0] with
  | 'W' -> OWrite (parse_lens arg)
  | 'T' -> OTry (parse_lens arg)
  | 'S' -> OShutdown
  | 'C' -> OClose
  | 'R' -> ORun
  | 'V' -> OWrite2 (parse_lens arg)
  | 'X' -> OCloseSend
  | 'K' -> OConnect
  | 'Z' -> OCloseReset
  | 'N' -> OWriteNomem (parse_lens arg)       (* uv_write while uv__malloc fails *)
  | 'M' -> OWrite2Nomem (parse_lens arg)      (* uv_write2 (send handle) while uv__malloc fails *)
  | _ -> failwith ("bad op " ^ tok)

let parse_answer (tok : string) : answer =
  let arg = String.sub tok 1 (String.length tok - 1) in
  match tok.[0] with
  | 'n' -> AWrote (n_of_string arg)
  | 'e' -> AErr (pos_of_bz (BZ.of_string arg))
  | _ -> failwith ("bad answer " ^ tok)

let case (line : string) : string =
  match String.split_on_char ';' line with
  | [hd; ops; behs; orc; pw] ->
      let cres_of (t : string) : positive option =      (* connect(2): 0 or -errno *)
        let v = BZ.of_string t in
        if BZ.sign v = 0 then None else Some (pos_of_bz (BZ.abs v)) in
      let parse_conn c =
        if c = "-" then None else
        match String.split_on_char ':' c with
        | [k; cres; so; cr] ->
            Some (((k = "t", cres_of cres), List.map z_of_string (split_on ',' so)), List.map cres_of (split_on ',' cr))
        | [k; cres; so] -> Some (((k = "t", cres_of cres), List.map z_of_string (split_on ',' so)), [])
        | [k; cres] -> Some (((k = "t", cres_of cres), []), [])
        | _ -> failwith "bad conn" in
      let blk, sa, conn, ipc = match split_on ' ' hd with
        | [b; a] -> (b = "1", z_of_string a, None, false)
        | [b; a; c] -> (b = "1", z_of_string a, parse_conn c, false)
        | [b; a; c; i] -> (b = "1", z_of_string a, parse_conn c, i = "1")
        | _ -> failwith "bad header" in
      let ops = List.map parse_op (split_on ' ' ops) in
      let beha = Array.of_list (List.map (fun b -> List.map parse_op (split_on ' ' b))
                                  (String.split_on_char '|' behs)) in
      let beh k = let k = int_of_nat k in if k < Array.length beha then beha.(k) else [] in
      let o = List.map parse_answer (split_on ' ' orc) in
      let pw = List.map (fun t -> t <> "0") (split_on ' ' pw) in
      let s = exec beh (init blk o sa pw conn ipc) ops in
      let buf = Buffer.create 1024 in
      let add = Buffer.add_string buf in
      let total = ref BZ.zero in
      let fds = Hashtbl.create 8 in
      let fd_pending = ref (-1) in     (* an EFd whose chunk follows *)
      List.iter (fun e ->
        match e with
        | EWrite (id, t) -> add (Printf.sprintf "w%d,%s " (int_of_nat id) (string_of_n t))
        | ERet (id, c) -> add (Printf.sprintf "r%d:%s " (int_of_nat id) (string_of_z c))
        | ETry (id, t) -> add (Printf.sprintf "t%d,%s " (int_of_nat id) (string_of_n t))
        | ETryRet (id, c) -> add (Printf.sprintf "u%d:%s " (int_of_nat id) (string_of_z c))
        | EChunk (id, off, len) ->
            (* the kernel hands a descriptor over only with at least one byte of a stream *)
            if !fd_pending = int_of_nat id && len <> N0 then
              Hashtbl.replace fds !fd_pending (1 + (try Hashtbl.find fds !fd_pending with Not_found -> 0));
            fd_pending := -1;
            if len <> N0 then begin
              total := BZ.add !total (bz_of_n len);
              add (Printf.sprintf "c%d,%s,%s " (int_of_nat id) (string_of_n off) (string_of_n len))
            end
        | ECb (id, st, q) -> add (Printf.sprintf "b%d:%s:%s " (int_of_nat id) (string_of_z st) (string_of_n q))
        | EShut c -> add (Printf.sprintf "s:%s " (string_of_z c))
        | ESysShut a -> add (Printf.sprintf "Y:%s " (string_of_z a))
        | EShutCb c -> add (Printf.sprintf "B:%s " (string_of_z c))
        | ECloseCb -> add "x "
        | EQ q -> add (Printf.sprintf "q%s " (string_of_n q))
        | EConnCb c -> add (Printf.sprintf "k:%s " (string_of_z c))
        | EWrite2 id -> add (Printf.sprintf "m%d " (int_of_nat id))
        | EFd id ->
            let i = int_of_nat id in
            fd_pending := i;
            add (Printf.sprintf "f%d " i)
        | EFdFail id -> add (Printf.sprintf "g%d " (int_of_nat id))
        | EConnect c -> add (Printf.sprintf "K:%s " (string_of_z c))
        | EReset c ->                     (* refused: nothing changed, SO_LINGER is still off (the harness reads it back) *)
            add (Printf.sprintf "z:%s " (string_of_z c));
            if string_of_z c <> "0" then add "l:0 "
        | EReopen -> ()                   (* ghost: nothing the implementation shows *)
        | EOrphan ids ->                  (* the harness reads write_completed_queue after an accepted connect *)
            add ("o" ^ String.concat "," (List.map (fun i -> string_of_int (int_of_nat i)) ids) ^ " ")) (trace s);
      add (Printf.sprintf "e%s,%d,1" (BZ.to_string !total) (if s.shut || not s.fdopen then 1 else 0));
      (* descriptors the peer receives, per request: one per accepted sendmsg that carried one *)
      List.iter (fun (i, k) -> add (Printf.sprintf " p%d:%d" i k))
        (List.sort compare (Hashtbl.fold (fun i k l -> (i, k) :: l) fds []));
      Buffer.contents buf
  | _ -> failwith "bad case"

let () = iter_lines (fun l -> print_string (case l); print_newline ())
