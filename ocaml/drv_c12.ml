(* Driver for the C12 model.  usage: modelrun_c12 run|decode < cases > results

   run: one case per line, operations separated by " | ":
     S <h> <pid> <cb> <fresh> <spf|-> <pipefail> <forkfail> <execerr|-> <mask> <uid r.e.s> <gid r.e.s> <setuid|-> <setgid|-> ; <stdio> ; <table> ; <answers>
        mask    hex, bit (sig-1) set = signal sig blocked on entry
        stdio   comma list of i | p | h<fd> | b        ("-" = none)
        table   comma list of <fd>=<file>/<cx>         ("-" = empty)
        answers blank separated E | 0 | C | P<status> | O   (may be empty)
     W <answers>
     C <h>
   decode: one status word per line -> "<exit_status> <term_signal>" *)
let nat_ s = nat_of_int (int_of_string s)
let parse_ans (s : string) : wans =
  match s.[0] with
  | 'E' -> WEintr | '0' -> WZero | 'C' -> WEchild | 'O' -> WOther
  | 'P' -> WPid (z_of_string (String.sub s 1 (String.length s - 1)))
  | _ -> failwith ("bad answer " ^ s)
let parse_answers s = List.map parse_ans (split_on ' ' s)
let str_ans = function
  | WEintr -> "E" | WZero -> "0" | WEchild -> "C" | WOther -> "O"
  | WPid st -> "P" ^ string_of_z st

let parse_stdio (s : string) : stdio list =
  let s = String.trim s in
  if s = "-" || s = "" then [] else
  List.map (fun x -> match x.[0] with
    | 'i' -> SIgnore | 'p' -> SPipe | 'b' -> SBad
    | 'h' -> SFd (nat_ (String.sub x 1 (String.length x - 1)))
    | _ -> failwith ("bad stdio " ^ x)) (split_on ',' s)

let parse_table (s : string) : entry option list =
  let s = String.trim s in
  if s = "-" || s = "" then [] else begin
    let ents = List.map (fun x ->
      match String.split_on_char '=' x with
      | [fd; rest] -> (match String.split_on_char '/' rest with
          | file :: cx :: _ -> (int_of_string fd, (nat_ file, cx = "1"))
          | _ -> failwith ("bad entry " ^ x))
      | _ -> failwith ("bad entry " ^ x)) (split_on ',' s) in
    let mx = List.fold_left (fun m (fd, _) -> max m fd) (-1) ents in
    let a = Array.make (mx + 1) None in
    List.iter (fun (fd, (f, c)) -> a.(fd) <- Some { e_file = f; e_cx = c }) ents;
    Array.to_list a
  end

let str_table (t : entry option list) : string =
  let l = dump t in
  if l = [] then "-" else
  String.concat "," (List.map (fun (fd, e) ->
    Printf.sprintf "%d=%d/%d" (int_of_nat fd) (int_of_nat e.e_file) (if e.e_cx then 1 else 0)) l)

let mask_of_hex (h : string) : bool list =
  let v = BZ.of_string ("0x" ^ h) in
  List.init 65 (fun i -> i >= 1 && BZ.testbit v (i - 1))
let hex_of_mask (m : bool list) : string =
  let v = ref BZ.zero in
  List.iteri (fun i b -> if b && i >= 1 then v := BZ.logor !v (BZ.shift_left BZ.one (i - 1))) m;
  BZ.format "%x" !v

let parse_op (s : string) : op =
  let s = String.trim s in
  match s.[0] with
  | 'S' ->
      (match String.split_on_char ';' (String.sub s 1 (String.length s - 1)) with
       | [hd; st; tb; an] ->
           (match split_on ' ' hd with
            | [h; pid; cb; fresh; spf; pf; ff; ee; mk; uc; gc; su; sg] ->
                let creds_ x = (match String.split_on_char '.' x with
                  | [a; b; c] -> { c_r = nat_ a; c_e = nat_ b; c_s = nat_ c }
                  | _ -> failwith ("bad creds " ^ x)) in
                let optn x = if x = "-" then None else Some (nat_ x) in
                let sp = { s_tbl = parse_table tb; s_stdio = parse_stdio st;
                           s_cb = (cb = "1"); s_pid = nat_ pid; s_fresh = nat_ fresh;
                           s_sp_fail = (if spf = "-" then None else Some (nat_ spf));
                           s_pipe_fail = (pf = "1"); s_fork_fail = (ff = "1");
                           s_exec_err = (if ee = "-" then None else Some (z_of_string ee));
                           s_mask = mask_of_hex mk; s_uid = creds_ uc; s_gid = creds_ gc;
                           s_setuid = optn su; s_setgid = optn sg } in
                OSpawn (nat_ h, sp, parse_answers an)
            | _ -> failwith ("bad spawn head " ^ hd))
       | _ -> failwith ("bad spawn " ^ s))
  | 'W' -> OScan (parse_answers (String.sub s 1 (String.length s - 1)))
  | 'C' -> OClose (nat_ (String.trim (String.sub s 1 (String.length s - 1))))
  | _ -> failwith ("bad op " ^ s)

let str_event (e : event) : string =
  match e with
  | ESpawn (h, r) ->
      let h = int_of_nat h in
      let child = match r.r_child with
        | None -> "-"
        | Some (CExec t) -> "X:" ^ str_table t
        | Some (CFail (_, _, err)) ->
            "F:" ^ string_of_z err ^ ":" ^
            (match r.r_wrote with
             | Some (Some f, _) -> string_of_int (int_of_nat f)
             | Some (None, _) -> "ebadf" | None -> "-") in
      let streams = String.concat ";" (List.map (fun (i, fd) ->
        Printf.sprintf "%d=%d" (int_of_nat i) (int_of_nat fd)) r.r_streams) in
      let reaped = match r.r_reaped with
        | None -> "" | Some None -> Printf.sprintf " b%d:short" h
        | Some (Some a) -> Printf.sprintf " b%d:%s" h (str_ans a) in
      let sc c = Printf.sprintf "%d.%d.%d" (int_of_nat c.c_r) (int_of_nat c.c_e) (int_of_nat c.c_s) in
      let creds = match r.r_creds with
        | None -> "-" | Some (u, g) -> sc u ^ "/" ^ sc g in
      Printf.sprintf "s%d:%s:%d q%d:%s c%d:%s t%d:%s M%d:%s i%d:%s a%d:%d%s" h (string_of_z r.r_ret)
        (if r.r_active then 1 else 0) h (str_table r.r_ptbl) h child h streams
        h (hex_of_mask r.r_mask) h creds h (if r.r_trip then 1 else 0) reaped
  | EWait (h, a) -> Printf.sprintf "w%d:%s" (int_of_nat h) (str_ans a)
  | EReap (_, _, _) -> ""
  | EStop h -> Printf.sprintf "stop%d" (int_of_nat h)
  | EExit (h, es, ts) -> Printf.sprintf "x%d:%s:%s" (int_of_nat h) (string_of_z es) (string_of_z ts)
  | EShort -> "short" | EExtra -> "extra" | EAbort -> "abort"

let run_case (line : string) : string =
  let parts = List.filter (fun x -> String.trim x <> "") (String.split_on_char '|' line) in
  let ops = List.map parse_op parts in
  let (_, evs) = run linit ops in
  String.concat " " (List.filter (fun x -> x <> "") (List.map str_event evs))

let decode_case (line : string) : string =
  let (es, ts) = decode (z_of_string (String.trim line)) in
  string_of_z es ^ " " ^ string_of_z ts

(* disable: one descriptor table per line -> the table after uv_disable_stdio_inheritance() *)
let disable_case (line : string) : string =
  str_table (disable_stdio_inheritance (parse_table line))

(* kill: "<p|k> <pid> <sig> <answer of kill(2): 0 or errno>" -> "<pid> <sig> <return value>"
   (p: uv_kill, k: uv_process_kill of a handle with that pid) *)
let kill_case (line : string) : string =
  match split_on ' ' line with
  | [form; pid; sg; ans] ->
      let a = if ans = "0" then KOk else KErr (z_of_string ans) in
      let f = if form = "k" then uv_process_kill else uv_kill in
      let ((p, s), r) = f (z_of_string pid) (z_of_string sg) a in
      string_of_z p ^ " " ^ string_of_z s ^ " " ^ string_of_z r
  | _ -> failwith "bad kill case"

let () =
  let f = match Sys.argv.(1) with
    | "run" -> run_case | "decode" -> decode_case | "disable" -> disable_case | "kill" -> kill_case
    | _ -> failwith "mode" in
  iter_lines (fun l -> print_string (try f l with Failure m -> "ERROR " ^ m); print_newline ())
