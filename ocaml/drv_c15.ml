(* Driver for the C15 descriptor ledger.
   input line:  <fixed> ; <fd>:<cx>,... ; <op> <op> ... ; <oracle letters a|e|o>
   output line: one token per trace event, then "T" and the final table. *)
let nat_ s = nat_of_int (int_of_string s)
let bool_ s = (s = "1")
let kind_of = function
  | "epoll" -> KEpoll | "uring" -> KUring | "pipe2" -> KPipe2 | "eventfd" -> KEventfd
  | "socket" -> KSocket | "socketpair" -> KSocketpair | "accept" -> KAccept | "open" -> KOpen
  | "inotify" -> KInotify | "cmsg" -> KCmsg | "mkostemp" -> KMkostemp | "ringopen" -> KRingOpen
  | s -> failwith ("kind " ^ s)
let kind_name = function
  | KEpoll -> "epoll" | KUring -> "uring" | KPipe2 -> "pipe2" | KEventfd -> "eventfd"
  | KSocket -> "socket" | KSocketpair -> "socketpair" | KAccept -> "accept" | KOpen -> "open"
  | KInotify -> "inotify" | KCmsg -> "cmsg" | KMkostemp -> "mkostemp" | KRingOpen -> "ringopen"
let htype_of = function "t" -> TTcp | "p" -> TPipe | "u" -> TUdp | _ -> TOther
let src_of s =
  let rest = String.sub s 1 (String.length s - 1) in
  if s.[0] = 'g' then SrcGiven (nat_ rest) else SrcFd (nat_ rest)
let sd_of s =
  if s = "i" then SdIgnore
  else if s = "b" then SdBadPipe
  else if s.[0] = 'p' then SdPipe (nat_ (String.sub s 1 (String.length s - 1)))
  else SdInherit

let parse_op (tok : string) : op =
  match String.split_on_char ':' tok with
  | ["Li"; n; u] -> OLoopInit (nat_ n, bool_ u)
  | ["Lc"] -> OLoopClose
  | ["Lq"] -> OSqpoll
  | ["Lz"; u] -> OIouLazy (bool_ u)
  | ["hi"; h; t; w] -> OHInit (nat_ h, htype_of t, bool_ w)
  | ["en"; h; ok] -> OEnsure (nat_ h, bool_ ok)
  | ["pb"; h; ok] -> OPipeBind (nat_ h, bool_ ok)
  | ["op"; h; s; ok] -> OOpen (nat_ h, src_of s, bool_ ok)
  | ["sv"; h; f] -> OSrvIo (nat_ h, nat_ f)
  | ["ac"; s; c; ok] -> OAccept (nat_ s, nat_ c, bool_ ok)
  | ["rf"; h; n] -> ORecvFds (nat_ h, nat_ n, nat_ n)
  | ["rf"; h; n; k] -> ORecvFds (nat_ h, nat_ n, nat_ k)
  | ["cl"; h] -> OClose (nat_ h)
  | ["ru"] -> ORun
  | ["fe"; h] -> OFsEventStart (nat_ h)
  | ["g1"; k; g] -> OGive1 (kind_of k, nat_ g)
  | ["g2"; k; a; b] -> OGive2 (kind_of k, nat_ a, nat_ b)
  | ["uc"; g] -> OUserClose (nat_ g)
  | ["uf"; fd] -> OUserCloseFd (nat_ fd)
  | ["ua"; fd; cx] -> OUserAdd (nat_ fd, bool_ cx)
  | ["sl"] -> OSlurp
  | ["sp"; h; sd; ok] ->
      let l = if sd = "-" then [] else List.map sd_of (String.split_on_char ',' sd) in
      OSpawn (nat_ h, l, bool_ ok)
  | _ -> failwith ("bad op " ^ tok)

let owner_class = function
  | OUser -> "U" | OGiven _ -> "G" | OLoop _ -> "L" | OHandle _ -> "H" | OProc _ -> "P" | OTemp _ -> "T"
let owner_full = function
  | OUser -> "U" | OGiven g -> "G" ^ string_of_int (int_of_nat g)
  | OLoop (l, s) -> "L" ^ string_of_int (int_of_nat l) ^
      (match s with SBackend -> "backend" | SCtl -> "ctl" | SIou -> "iou" | SAsync -> "async"
                  | SSigR -> "sigr" | SSigW -> "sigw" | SEmfile -> "emfile" | SInotify -> "inotify")
  | OHandle (h, s) -> "H" ^ string_of_int (int_of_nat h) ^
      (match s with HIo -> "io" | HAcc -> "acc" | HQ k -> "q" ^ string_of_int (int_of_nat k))
  | OProc w -> if w then "Pw" else "Pr"
  | OTemp k -> "T" ^ string_of_int (int_of_nat k)

let case (line : string) : string =
  match String.split_on_char ';' line with
  | [fx; fds; ops; orc] ->
      let fds = List.map (fun t -> match String.split_on_char ':' t with
                            | [a; b] -> (nat_ a, bool_ b) | _ -> failwith "fd") (split_on ',' (String.trim fds)) in
      let ops = List.map parse_op (split_on ' ' ops) in
      let orc = List.filter_map (function 'a' -> Some AOk | 'e' -> Some AEmfile | 'o' -> Some AOther | _ -> None)
                  (List.of_seq (String.to_seq orc)) in
      let (_, s) = run (String.trim fx = "1") fds ops orc in
      let b = Buffer.create 512 in
      let bi n = string_of_int (int_of_nat n) in
      List.iter (fun e ->
        (match e with
         | ECreate (k, cx, fs, os) ->
             List.iter2 (fun fd o -> Buffer.add_string b
               (Printf.sprintf "+%s.%d=%s/%s " (kind_name k) (if cx then 1 else 0) (bi fd) (owner_full o))) fs os
         | EFail (k, cx, a) ->
             Buffer.add_string b (Printf.sprintf "-%s.%d.%s " (kind_name k) (if cx then 1 else 0)
                                    (match a with AEmfile -> "e" | _ -> "o"))
         | EClose (fd, _) -> Buffer.add_string b ("x" ^ bi fd ^ " ")
         | EKeep (fd, _) -> Buffer.add_string b ("k" ^ bi fd ^ " ")
         | ERawClose (fd, o) ->
             (match o with
              | Some ow when is_lib ow -> Buffer.add_string b ("x" ^ bi fd ^ " ")
              | Some _ -> Buffer.add_string b ("xforeign" ^ bi fd ^ " ")
              | None -> Buffer.add_string b ("xbad" ^ bi fd ^ " "))
         | EUserClose (fd, _) -> Buffer.add_string b ("c" ^ bi fd ^ " ")
         | EAdopt (fd, _, _) -> Buffer.add_string b ("a" ^ bi fd ^ " ")
         | ERet rc -> Buffer.add_string b ("r" ^ bi rc ^ " "))) (List.rev s.i_tr);
      Buffer.add_string b "T ";
      let tab = List.sort compare (List.map (fun (fd, e) -> (int_of_nat fd, e)) s.i_led) in
      List.iter (fun (fd, e) ->
        Buffer.add_string b (Printf.sprintf "%d:%s:%d " fd (owner_class e.e_owner) (if e.e_cx then 1 else 0))) tab;
      Buffer.contents b
  | _ -> failwith "bad case"

let () = iter_lines (fun l -> if String.trim l = "" then print_endline "" else
  print_endline (try case l with Failure m -> "MODEL-ERROR " ^ m | Invalid_argument m -> "MODEL-ERROR " ^ m))
