(* Driver for the C04 models.  usage: modelrun_c04 heap|timer < cases > results *)
let ident_of (_, i) = nat_of_int i
let klt (a, _) (b, _) = (a : int) < b

let heap_case (line : string) : string =
  let toks = split_on ' ' line in
  let buf = Buffer.create 256 in
  let h = ref heap_init in
  List.iter (fun tok ->
    let arg = String.sub tok 1 (String.length tok - 1) in
    (match tok.[0] with
     | 'i' -> (match String.split_on_char ',' arg with
               | [k; i] -> h := heap_insert klt !h (int_of_string k, int_of_string i)
               | _ -> failwith "bad insert")
     | 'r' -> h := heap_remove klt ident_of !h (nat_of_int (int_of_string arg))
     | 'q' -> h := heap_dequeue klt ident_of !h
     | _ -> failwith "bad heap op");
    Buffer.add_string buf (string_of_int (int_of_n (!h).h_n));
    Buffer.add_char buf ':';
    (match heap_min !h with
     | Some (_, i) -> Buffer.add_string buf (string_of_int i)
     | None -> Buffer.add_char buf '-');
    Buffer.add_char buf ':';
    List.iter (fun o ->
      (match o with
       | Some (_, i) -> Buffer.add_string buf (string_of_int i)
       | None -> Buffer.add_char buf '-');
      Buffer.add_char buf ',') (dump !h);
    Buffer.add_char buf ' ') toks;
  Buffer.contents buf

let parse_op (tok : string) : op =
  let arg = String.sub tok 1 (String.length tok - 1) in
  let parts = String.split_on_char ',' arg in
  let nat_ s = nat_of_int (int_of_string s) in
  match tok.[0], parts with
  | 'I', _ -> OInit
  | 'S', [i; cb; t; r] ->
      let c = int_of_string cb in
      OStart (nat_ i, (if c = 0 then None else Some (nat_of_int c)), z_of_string t, z_of_string r)
  | 'T', [i] -> OStop (nat_ i)
  | 'G', [i] -> OAgain (nat_ i)
  | 'P', [i; r] -> OSetRepeat (nat_ i, z_of_string r)
  | 'C', [i] -> OClose (nat_ i)
  | 'D', [i] -> ODueIn (nat_ i)
  | 'N', _ -> ONext
  | 'A', [d] -> OAdvance (z_of_string d)
  | 'J', _ -> OAdvance (z_of_string "0")   (* start-counter jump in the implementation: order of ids unchanged *)
  | 'R', _ -> ORun
  | _ -> failwith ("bad timer op " ^ tok)

let timer_case (line : string) : string =
  (* <t0> ; ops ; beh0 | beh1 | ... *)
  match String.split_on_char ';' line with
  | [t0; ops; behs] ->
      let ops = List.map parse_op (split_on ' ' ops) in
      let behl = List.map (fun b -> List.map parse_op (split_on ' ' b))
                   (String.split_on_char '|' behs) in
      let beha = Array.of_list behl in
      let beh k = let k = int_of_nat k in
                  if k < Array.length beha then beha.(k) else [] in
      let (_, evs) = run (tinit (z_of_string (String.trim t0))) ops beh O in
      let buf = Buffer.create 256 in
      List.iter (fun e ->
        (match e with
         | ERet c -> Buffer.add_string buf ("r" ^ string_of_z c)
         | EDue v -> Buffer.add_string buf ("d" ^ string_of_z v)
         | ENext v -> Buffer.add_string buf ("n" ^ string_of_z v)
         | EFire (i, cb, nw, due, sid, at, req) ->
             Buffer.add_string buf
               (Printf.sprintf "f%d,%d,%s,%s,%s,%s,%s" (int_of_nat i) (int_of_nat cb)
                  (string_of_z nw) (string_of_z due) (string_of_z sid) (string_of_z at) (string_of_z req))
         | EPass c -> Buffer.add_string buf ("p" ^ string_of_z c)
         | EEntry (r, d, a, c) -> Buffer.add_string buf (Printf.sprintf "e%s,%s,%s,%d,%d" (string_of_z r) (string_of_z r) (string_of_z d) (if a then 1 else 0) (if c then 1 else 0))
         | EActive l ->
             Buffer.add_char buf 'a';
             List.iter (fun b -> Buffer.add_char buf (if b then '1' else '0')) l);
        Buffer.add_char buf ' ') evs;
      Buffer.contents buf
  | _ -> failwith "bad timer case"

let () =
  let f = match Sys.argv.(1) with
    | "heap" -> heap_case | "timer" -> timer_case
    | _ -> failwith "mode" in
  iter_lines (fun l -> print_string (f l); print_newline ())
