(* Driver for the C13 model.  usage: modelrun_c13 [fixed] [stalefix] [restartfix] < cases > results
   fixed = flag fix (fx), stalefix = one-shot stop only after the callback (fs),
   restartfix = ... and only if the handle still watches the message's signal (fr)
   case:  <cap> ; op op ... ; beh0 | beh1 | ...
   ops:   I<l>  S<h>,<sig>  O<h>,<sig>  T<h>  C<h>  K<sig>  R<l>  U<l> (uv_stop)  J<h> (re-init a closed slot)
   fork family:  fork <cap> ; prefix ops ; p:op c:op ... ; beh0 | ...
     the process forks after the prefix, the child calls uv_loop_fork(loop 0); p:/c: ops belong to
     the parent / the child.  Result: parent trace "||" child trace (from the fork on): the model
     runs the two processes as two independent runs. *)
let nat_ s = nat_of_int (int_of_string s)

let parse_op (tok : string) : op =
  let arg = String.sub tok 1 (String.length tok - 1) in
  match tok.[0], String.split_on_char ',' arg with
  | 'I', [l] -> OInit (nat_ l)
  | 'S', [h; s] -> OStart (nat_ h, nat_ s)
  | 'O', [h; s] -> OStartOneshot (nat_ h, nat_ s)
  | 'T', [h] -> OStop (nat_ h)
  | 'C', [h] -> OClose (nat_ h)
  | 'K', s :: _ -> ORaise (nat_ s)      (* K<sig>[,<thread>[,<mode>]]: the thread does not matter to the model *)
  | 'R', [l] -> ORun (nat_ l)
  | 'U', [l] -> OUvStop (nat_ l)
  | 'J', [h] -> OReinit (nat_ h)
  | 'F', [l] -> OFork (nat_ l)
  | _ -> failwith ("bad op " ^ tok)

let disp_char = function Default -> 'D' | Handler false -> 'H' | Handler true -> 'R'

let print_event buf e =
  let add = Buffer.add_string buf in
  match e with EDrop (_, _) -> () | _ ->     (* ghost event: not observable *)
  (match e with
   | EOp (OInit _, _) -> add "i"
   | EOp (ORaise _, r) -> add ("d" ^ string_of_z r)
   | EOp (OClose _, _) -> add "k"
   | EOp (_, r) -> add ("r" ^ string_of_z r)
   | ESkip _ -> add "x"
   | ECb (h, s) -> add (Printf.sprintf "c%d,%d" (int_of_nat h) (int_of_nat s))
   | ECbEnd h -> add (Printf.sprintf "e%d" (int_of_nat h))
   | ECloseCb h -> add (Printf.sprintf "z%d" (int_of_nat h))
   | ERunBegin l -> add (Printf.sprintf "(%d" (int_of_nat l))
   | ERunEnd l -> add (Printf.sprintf ")%d" (int_of_nat l))
   | EFork (_, _) -> add "f0"
   | EDrop (_, _) -> ()
   | ESnap (d, a) ->
       add "[";
       List.iter (fun x -> Buffer.add_char buf (disp_char x)) d;
       add "|";
       List.iter (fun b -> Buffer.add_char buf (if b then '1' else '0')) a;
       add "]");
  Buffer.add_char buf ' '

let render evs =
  let buf = Buffer.create 1024 in
  List.iter (print_event buf) evs;
  Buffer.contents buf

let parse_behs behs =
  let beha = Array.of_list (List.map (fun b -> List.map parse_op (split_on ' ' b))
                              (String.split_on_char '|' behs)) in
  fun k -> let k = int_of_nat k in if k < Array.length beha then beha.(k) else []

let rec drop n l = if n <= 0 then l else match l with [] -> [] | _ :: t -> drop (n - 1) t

let fork_case fx fs fr (line : string) : string =
  match String.split_on_char ';' line with
  | [cap; prefix; tagged; behs] ->
      let prefix = List.map parse_op (split_on ' ' prefix) in
      let tagged = split_on ' ' tagged in
      let mine c = List.filter_map (fun t ->
          if String.length t > 2 && t.[0] = c && t.[1] = ':'
          then Some (parse_op (String.sub t 2 (String.length t - 2))) else None) tagged in
      let beh = parse_behs behs in
      let go ops = trace_of (run fx fs fr beh (nat_of_int 100000) (init (nat_ (String.trim cap))) ops) in
      let tp = go prefix in
      let n = List.length tp in
      let parent = go (prefix @ mine 'p') and child = go (prefix @ [OFork O] @ mine 'c') in
      render tp ^ "fp " ^ render (drop n parent) ^ "lk0 || " ^ render (drop n child) ^ "lk0 "
  | _ -> "badcase"

let case (fx : bool) (fs : bool) (fr : bool) (line : string) : string =
  if String.length line > 5 && String.sub line 0 5 = "fork " then
    fork_case fx fs fr (String.sub line 5 (String.length line - 5))
  else
  match String.split_on_char ';' line with
  | [cap; ops; behs] ->
      let ops = List.map parse_op (split_on ' ' ops) in
      let beh = parse_behs behs in
      let s = run fx fs fr beh (nat_of_int 100000) (init (nat_ (String.trim cap))) ops in
      render (trace_of s) ^ "lk0 "     (* the signal lock is only touched with all signals blocked *)
  | _ -> "badcase"

let () =
  let args = Array.to_list Sys.argv in
  let fx = List.mem "fixed" args and fs = List.mem "stalefix" args and fr = List.mem "restartfix" args in
  iter_lines (fun l -> print_string (case fx fs fr l); print_newline ())
