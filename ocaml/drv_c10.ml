(* Driver for the C10 model (Model/Udp.v).  One case per line:
     fam conn mm ; allocs ; splan ; rplan ; ops ; behs ; rbehs ; send answers ; recv answers
   (splan/rplan/fam steer the harness only).  Output: the trace, one token per event,
   then W<handed seqs> and A<monitor verdict>. *)
let fx = match Sys.getenv_opt "C10_MODEL_FIXED" with
  | Some "1" -> true | Some "0" -> false | _ -> sendmsgv_fixed

let nat_ s = nat_of_int (int_of_string s)
let rest tok = String.sub tok 1 (String.length tok - 1)
let commas s = List.filter (fun x -> x <> "") (String.split_on_char ',' s)

(* number of buffers of a datagram when the case does not say: 1 + len mod 6 (as the harness) *)
let dflt_nb (l : string) = n_of_int (1 + int_of_string l mod 6)

let parse_op (tok : string) : op list =
  let a = rest tok in
  match tok.[0] with
  | 's' -> (match commas a with
            | [l; ad] -> [OSend (n_of_string l, nat_ ad, dflt_nb l)]
            | [l; ad; nb] -> [OSend (n_of_string l, nat_ ad, n_of_string nb)]
            | _ -> failwith tok)
  | 't' -> (match commas a with
            | [l; ad] -> [OTry (n_of_string l, nat_ ad, dflt_nb l)]
            | [l; ad; nb] -> [OTry (n_of_string l, nat_ ad, n_of_string nb)]
            | _ -> failwith tok)
  | 'u' -> (match commas a with
            | f :: ad :: ls ->
                let one x = match String.split_on_char ':' x with
                  | [l] -> (n_of_string l, dflt_nb l)
                  | [l; nb] -> (n_of_string l, n_of_string nb)
                  | _ -> failwith tok in
                [OTry2 (List.map one ls, z_of_string f, nat_ ad)]
            | _ -> failwith tok)
  | 'c' -> [OConnect (nat_ a)]
  | 'd' -> [ODisconnect]
  | 'g' -> [OGet]
  | 'p' -> [ORecvStart]
  | 'q' -> [ORecvStop]
  | 'x' -> [OClose]
  | 'R' -> [ORun (a.[0] = '1', a.[1] = '1')]
  | 'i' -> []
  | _ -> failwith ("bad op " ^ tok)

let parse_ops s = List.concat_map parse_op (split_on ' ' s)

let parse_sans (tok : string) : sans =
  if tok.[0] = 'E' then SErr (pos_of_bz (BZ.of_string (rest tok))) else SRet (n_of_string tok)

let parse_rans (tok : string) : rans =
  if tok.[0] = 'E' then RErr (z_of_string (rest tok))
  else if tok = "0" then RMsgs []
  else RMsgs (List.map (fun m ->
    match String.split_on_char ':' m with
    | [i; l; t] -> { m_id = nat_ i; m_len = z_of_string l; m_trunc = (t = "1") }
    | _ -> failwith ("bad msg " ^ m)) (split_on '/' tok))

let str_sans = function SRet r -> string_of_n r | SErr e -> "E" ^ BZ.to_string (bz_of_pos e)
let str_rans = function
  | RErr e -> "E" ^ string_of_z e
  | RMsgs [] -> "0"
  | RMsgs l -> String.concat "/" (List.map (fun m ->
      Printf.sprintf "%d:%s:%d" (int_of_nat m.m_id) (string_of_z m.m_len) (if m.m_trunc then 1 else 0)) l)
let b01 b = if b then "1" else "0"
let seqs l = String.concat "." (List.map (fun s -> string_of_int (int_of_nat s)) l)

(* msg_name of each datagram as of the latest EName events (seq -> address) *)
let names : (int, int * string) Hashtbl.t = Hashtbl.create 64
let nm s = string_of_int (int_of_nat s) ^ "@" ^
  (match Hashtbl.find_opt names (int_of_nat s) with
   | Some (a, nb) -> string_of_int a ^ "#" ^ nb | None -> "?")

let str_event (e : event) : string =
  match e with
  | EName l -> List.iter (fun ((s, a), nb) -> Hashtbl.replace names (int_of_nat s) (int_of_nat a, string_of_n nb)) l; ""
  | EConnect (d, r) -> Printf.sprintf "C%d=%s" (int_of_nat d) (string_of_z r)
  | EDisconnect r -> "D=" ^ string_of_z r
  | ESend (id, seq, len, ret) ->
      Printf.sprintf "S%d,%d,%s=%s" (int_of_nat id) (int_of_nat seq) (string_of_z len) (string_of_z ret)
  | ETry (seq, len, ret) -> Printf.sprintf "T%d,%s=%s" (int_of_nat seq) (string_of_z len) (string_of_z ret)
  | ETry2 (seq0, cnt, ret) -> Printf.sprintf "U%d,%d=%s" (int_of_nat seq0) (int_of_nat cnt) (string_of_z ret)
  | ESys1 (seq, a) -> Printf.sprintf "m%s=%s" (nm seq) (str_sans a)
  | ESysN (l, a) -> Printf.sprintf "M%s=%s" (String.concat "." (List.map nm l)) (str_sans a)
  | ECb (id, st) -> Printf.sprintf "c%d,%s" (int_of_nat id) (string_of_z st)
  | EGet (sz, cnt, act) -> Printf.sprintf "g%s,%s,%s" (string_of_z sz) (string_of_z cnt) (b01 act)
  | ERecvStart r -> "P" ^ string_of_z r
  | ERecvStop r -> "Q" ^ string_of_z r
  | EAlloc (b, len) -> Printf.sprintf "a%d,%s" (int_of_nat b) (string_of_z len)
  | ERSys (mm, vlen, a) ->
      if mm then Printf.sprintf "V%s=%s" (string_of_z vlen) (str_rans a) else "v=" ^ str_rans a
  | ERecv (b, p, nread, msg, flags) ->
      Printf.sprintf "r%d,%s,%s,%s,%s,%s,1" (int_of_nat b)
        (match p with Whole -> "w" | Chunk k -> string_of_int (int_of_nat k))
        (string_of_z nread)
        (match msg with Some i -> string_of_int (int_of_nat i) | None -> "-")
        (string_of_z flags)
        (match msg with Some _ -> "p" | None -> "-")
  | EClose -> "X"
  | EClosed -> "Z"
  | ERun (a, b) -> "R" ^ b01 a ^ b01 b

let behs_of (s : string) : op list array =
  Array.of_list (List.map parse_ops (String.split_on_char '|' s))

let case (line : string) : string =
  match List.map String.trim (String.split_on_char ';' line) with
  | [cfg; allocs; _; _; ops; behs; rbehs; sa; ra] ->
      let conn, mm = (match split_on ' ' cfg with
        | [_; c; m] | [_; c; m; _] -> (c = "1", m = "1") | _ -> failwith "cfg") in
      let al = List.map z_of_string (split_on ' ' allocs) in
      let ba = behs_of behs and rba = behs_of rbehs in
      let beh k = let k = int_of_nat k in if k < Array.length ba then ba.(k) else [] in
      let rbeh k _ = let k = int_of_nat k in if k < Array.length rba then rba.(k) else [] in
      let s0 = init conn mm (List.map parse_sans (split_on ' ' sa))
                 (List.map parse_rans (split_on ' ' ra)) al in
      let (_, tr) = run fx beh rbeh s0 (parse_ops ops) in
      let buf = Buffer.create 1024 in
      Hashtbl.reset names;
      List.iter (fun e -> let t = str_event e in
                          if t <> "" then (Buffer.add_string buf t; Buffer.add_char buf ' ')) tr;
      let dl = delivered (if conn then nat_of_int 1 else O) [] tr in
      let got w = List.filter_map (fun (s, who) -> if int_of_nat who = w then Some s else None) dl in
      Buffer.add_string buf ("W" ^ seqs (got 1) ^ " Y" ^ seqs (got 2));
      Buffer.add_string buf (if accepts tr then " A1" else " A0");
      Buffer.contents buf
  | l -> failwith (Printf.sprintf "bad case (%d fields)" (List.length l))

let () = iter_lines (fun l -> print_string (try case l with Failure m -> "ERROR " ^ m); print_newline ())
