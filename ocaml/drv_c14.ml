(* Driver for Model/IoWatch.v.  usage: modelrun_c14 < cases > results
   case:  <ring> <strict> ; ops ; beh0 | beh1 | ... ; fd answers ; batch / batch / ...
   (a batch is "fd:events,fd:events"; events in the POLL encoding) *)
(* the integer encodings are the model's own tables (Model/IoWatch.v mask_of_uv, uv_of_mask,
   mask_of_poll, poll_of_mask); here only int <-> Z *)
let mask_of_poll (v : int) : mask = M_c14.mask_of_poll (z_of_int v)
let poll_of_mask (m : mask) : int = int_of_z (M_c14.poll_of_mask m)
let mask_of_uv (v : int) : mask = M_c14.mask_of_uv (z_of_int v)
let uv_of_mask (m : mask) : int = int_of_z (M_c14.uv_of_mask m)

let parse_op (tok : string) : op =
  let arg = String.sub tok 1 (String.length tok - 1) in
  let parts = String.split_on_char ',' arg in
  let nat_ s = nat_of_int (int_of_string s) in
  match tok.[0], parts with
  | 'O', sl :: _ -> OOpen (nat_ sl)
  | 'U', [a; b] -> ODup (nat_ a, nat_ b)
  | 'X', [sl] -> OCloseFd (nat_ sl)
  | ('K' | 'D' | 'H' | 'G' | 'L' | 'B' | 'W'), _ -> OEnv
  | 'I', [sl] -> OInit (nat_ sl)
  | 'J', [sl] -> ORawInit (nat_ sl)
  | 'V', [sl] -> ORawInit (nat_ sl)          (* uv_udp_t opened on the descriptor: a bare watcher *)
  | 'S', [h; m] -> OStart (nat_ h, mask_of_uv (int_of_string m))
  | 'T', [h; m] -> OStop (nat_ h, mask_of_uv (int_of_string m))
  | 'C', [h] -> OClose (nat_ h)
  | 'F', [h] -> OFeed (nat_ h)
  | 'A', [h] -> OActive (nat_ h)
  | 'Y', [k; sl] -> OForeign (nat_ k, nat_ sl)
  | 'R', _ -> ORun
  | _ -> failwith ("bad op " ^ tok)

(* 'Q<h>,<sl>' = uv_close of a uv_udp_t, which owns its descriptor: uv__io_close, then close(fd) *)
let parse_ops (tok : string) : op list =
  if tok.[0] = 'Q' then
    (match String.split_on_char ',' (String.sub tok 1 (String.length tok - 1)) with
     | [h; sl] -> [OClose (nat_of_int (int_of_string h)); OCloseFd (nat_of_int (int_of_string sl))]
     | _ -> failwith "bad Q")
  else [parse_op tok]

let case (line : string) : string =
  match String.split_on_char ';' line with
  | [hd; ops; behs; fds; pws] ->
      let (rng, strct) = match split_on ' ' hd with
        | [a; b] -> (int_of_string a <> 0, int_of_string b <> 0)
        | _ -> failwith "head" in
      let ops = List.concat_map parse_ops (split_on ' ' ops) in
      let beha = Array.of_list (List.map (fun b -> List.concat_map parse_ops (split_on ' ' b))
                                  (String.split_on_char '|' behs)) in
      let beh k = let k = int_of_nat k in if k < Array.length beha then beha.(k) else [] in
      let fda = Array.of_list (List.map int_of_string (split_on ' ' fds)) in
      let fdo k = let k = int_of_nat k in z_of_int (if k < Array.length fda then fda.(k) else -1) in
      let pwa = Array.of_list (List.map (fun b ->
                  List.map (fun e -> match String.split_on_char ':' e with
                              | [f; v] -> (z_of_int (int_of_string f), mask_of_poll (int_of_string v))
                              | _ -> failwith "batch") (split_on ',' (String.trim b)))
                  (String.split_on_char '/' pws)) in
      let pw k = let k = int_of_nat k in if k < Array.length pwa then pwa.(k) else [] in
      let (_, evs) = run fdo pw beh (sinit rng strct) ops in
      let buf = Buffer.create 512 in
      let add = Buffer.add_string buf in
      List.iter (fun e ->
        (match e with
         | EOpen (sl, fd) -> add (Printf.sprintf "o%d=%d" (int_of_nat sl) (int_of_z fd))
         | ECloseFd fd -> add (Printf.sprintf "x%d" (int_of_z fd))
         | ESkip -> add "-"
         | EInit (h, k, c, fd) ->
             add (Printf.sprintf "%s%d=%d@%d" (match k with KPoll -> "i" | KRaw -> "j") (int_of_nat h) (int_of_z c) (int_of_z fd))
         | EStart (h, m, c) -> add (Printf.sprintf "s%d,%d=%d" (int_of_nat h) (uv_of_mask m) (int_of_z c))
         | EStop (h, m) -> add (Printf.sprintf "t%d,%d" (int_of_nat h) (uv_of_mask m))
         | EClose h -> add (Printf.sprintf "z%d" (int_of_nat h))
         | EFeed h -> add (Printf.sprintf "f%d" (int_of_nat h))
         | EForeign (k, fd, r) -> add (Printf.sprintf "y%d@%d=%s" (int_of_nat k) (int_of_z fd) (if r then "E" else "."))
         | EAct (h, b) -> add (Printf.sprintf "a%d=%d" (int_of_nat h) (if b then 1 else 0))
         | ECb (h, st, ev, _, _, _, _, _, _) ->
             add (Printf.sprintf "c%d,%d,%d" (int_of_nat h) (int_of_z st) (uv_of_mask ev))
         | ERawCb (h, ev) -> add (Printf.sprintf "w%d,%d" (int_of_nat h) (poll_of_mask ev))
         | EPwait (s, ans) ->
             let w = List.map (fun ((h, fd), m) -> (int_of_z fd, int_of_nat h, poll_of_mask m)) (watched s) in
             let w = List.sort compare w in
             let k = List.map (fun ((fd, _), m) -> (int_of_z fd, poll_of_mask m)) (kernel_set s) in
             let k = List.sort compare k in
             add "P[";
             add (String.concat "," (List.map (fun (fd, h, m) -> Printf.sprintf "%d.%d.%d" h fd m) w));
             add "|";
             add (String.concat "," (List.map (fun (fd, m) -> Printf.sprintf "%d.%d" fd m) k));
             add "|";
             add (String.concat "," (List.map (fun (fd, m) -> Printf.sprintf "%d.%d" (int_of_z fd) (poll_of_mask m)) ans));
             add "]"
         | EAbort -> add "ABORT");
        Buffer.add_char buf ' ') evs;
      Buffer.contents buf
  | _ -> failwith "bad case"

let () = iter_lines (fun l -> print_string (case l); print_newline ())
