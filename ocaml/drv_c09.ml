(* Driver for the C09 model (coq/Model/Async.v).
   usage: modelrun_c09 run   < cases     one result line per case
          modelrun_c09 enum  < specs     all schedules with a bounded number of preemptions
          modelrun_c09 accepts < cases   trace inclusion: is the observable trace a model trace?

   case (run):  hooks ; df ; n ; e0 ; lscript ; senders ; beh ; sig ; tids
     hooks    1 = every program counter is a schedule point, 0 = system calls only
     df       1 = the code as it is (drain, then scan), 0 = the scan-before-drain variant
     n        number of async handles, optionally ":<bitmask of the handles created with a NULL callback>"
     e0       initial eventfd counter
     lscript  R (uv_run ONCE) | D (uv_run DEFAULT) | N (uv_run NOWAIT) | C<h> (uv_close) | S (uv_stop)
     senders  scripts separated by '|', each a list of handle numbers
     beh      '|'-separated: what the k-th callback does: <h> = uv_close(h), s = uv_stop()
     sig      '-' or "<tid of the signal sender>,<tid of the interrupted thread>"
     tids     the thread ids the harness actually ran, in order
   The result line has the same format as the harness output (harness/c09_async.c). *)

let nat_list s = List.map (fun t -> nat_of_int (int_of_string t)) (split_on ' ' s)

let cb_list s =
  List.map (fun t -> if t = "s" then CbStop else CbClose (nat_of_int (int_of_string t))) (split_on ' ' s)

let parse_lscript s =
  List.map (fun t ->
    match t.[0] with
    | 'R' -> OpRun false
    | 'D' -> OpRun true
    | 'N' -> OpNowait
    | 'S' -> OpStop
    | 'C' -> OpClose (nat_of_int (int_of_string (String.sub t 1 (String.length t - 1))))
    | _ -> failwith ("bad loop op " ^ t)) (split_on ' ' s)

type case = { hooks : bool; df : bool; n : int; st0 : state; nsend : int;
              sigt : (int * int) option; tids : int list }

let parse_case (line : string) : case =
  match List.map String.trim (String.split_on_char ';' line) with
  | hooks :: df :: n :: e0 :: lscript :: senders :: beh :: sg :: rest ->
    let (n, nullmask) = match String.split_on_char ':' n with
      | [a; b] -> (int_of_string a, int_of_string b)
      | _ -> (int_of_string n, 0) in
    let hascb k = let k = int_of_nat k in k >= 30 || (nullmask lsr k) land 1 = 0 in
    let scripts = List.map nat_list (String.split_on_char '|' senders) in
    let beha = Array.of_list (List.map cb_list (String.split_on_char '|' beh)) in
    let behf k = let k = int_of_nat k in if k < Array.length beha then beha.(k) else [] in
    let sigt = if sg = "-" || sg = "" then None else
      (match String.split_on_char ',' sg with
       | [a; b] -> Some (int_of_string a, int_of_string b)
       | _ -> failwith "bad sig") in
    let tids = match rest with
      | t :: _ -> List.map int_of_string (split_on ' ' t)
      | [] -> [] in
    { hooks = hooks = "1"; df = df <> "0"; n;
      st0 = init hascb (nat_of_int n) (z_of_string e0) (parse_lscript lscript) behf scripts;
      nsend = List.length scripts; sigt; tids }
  | _ -> failwith "bad case"

let sender_pc (s : state) (i : int) : spc =
  (List.nth s.snd i).s_pc

let label (c : case) (s : state) (tid : int) : string =
  if tid = 0 then
    (match s.lp.l_pc with
     | LTop -> "T" | LPoll true -> "p" | LPoll false -> "P" | LDrain -> "R"
     | LScan -> "5" | LCall _ -> "6" | LInCb -> "c" | LSpin0 _ -> "4"
     | LSpin _ -> if c.hooks then "4" else "Y" | LDone -> "E")
  else
    (match sender_pc s (tid - 1) with
     | SIdle -> "A" | SPub _ -> "B" | SLoaded _ -> "1" | SBusy _ -> "2"
     | SWrite _ -> "W" | SDec _ -> "3")

(* threads the harness may schedule: enabled in the model, minus the thread a running
   signal handler has interrupted *)
let mask (c : case) (s : state) : int =
  let m = ref 0 in
  for t = 0 to c.nsend do
    if enabled c.df s (nat_of_int t) then m := !m lor (1 lsl t)
  done;
  (match c.sigt with
   | Some (st, target) ->
     (match sender_pc s (st - 1) with
      | SIdle -> ()
      | _ -> m := !m land (lnot (1 lsl target)))
   | None -> ());
  !m

let spinning (s : state) : bool =
  match s.lp.l_pc with
  | LSpin0 h | LSpin h -> int_of_z (s.hs h).busy <> 0
  | _ -> false

let obs (c : case) (s : state) : string =
  String.concat ","
    (List.init c.n (fun i ->
       let h = s.hs (nat_of_int i) in
       (if h.pending then "1" else "0") ^ string_of_z h.busy))

let ev_str = function
  | ECb (h, v) -> Printf.sprintf "c%d=%s" (int_of_nat h) (string_of_z v)
  | ECloseRet (h, b) -> Printf.sprintf "k%d=%s" (int_of_nat h) (string_of_z b)
  | ECloseCb h -> Printf.sprintf "x%d" (int_of_nat h)
  | EWrite ok -> if ok then "w1" else "w0"
  | EAck (h, v) -> Printf.sprintf "a%d=%s" (int_of_nat h) (string_of_z v)

let new_events (before : state) (after : state) : string =
  let k = List.length after.out - List.length before.out in
  let rec take k l = if k <= 0 then [] else match l with [] -> [] | x :: r -> x :: take (k - 1) r in
  let evs = List.rev (take k after.out) in
  let is_ack = function EAck _ -> true | _ -> false in
  let main = List.filter (fun e -> not (is_ack e)) evs in
  let acks = List.sort compare (List.map ev_str (List.filter is_ack evs)) in
  (if main = [] then "-" else String.concat "+" (List.map ev_str main)) ^ "." ^
  (if acks = [] then "-" else String.concat "+" acks)

let verdict (c : case) (s : state) : string =
  let m = mask c s in
  if m = 1 && spinning s then "spin"
  else if m <> 0 then "run"
  else match s.lp.l_pc with
    | LDone -> "done"
    | LPoll false -> "blocked"
    | _ -> "stuck"

let summary (c : case) (s : state) : string =
  String.concat " "
    (List.init c.n (fun i ->
       let h = s.hs (nat_of_int i) in
       Printf.sprintf "h%d=%s/%s/%s/%s/%s" i (string_of_z h.published) (string_of_z h.seen)
         (string_of_z h.cb_count) (string_of_z h.sends_begun)
         (if List.mem (nat_of_int i) s.lp.l_closed then "x"
          else match h.hst with Open -> "o" | Closing -> "g")))

let record (c : case) (before : state) (after : state) (tid : int) : string =
  Printf.sprintf "%d.%s.%x.%s.%s.%s" tid (label c after tid) (mask c after) (obs c after)
    (string_of_z after.efd) (new_events before after)

let run_case (line : string) : string =
  let c = parse_case line in
  let buf = Buffer.create 1024 in
  Buffer.add_string buf (Printf.sprintf "I.%x.%s.%s" (mask c c.st0) (obs c c.st0) (string_of_z c.st0.efd));
  let s = ref c.st0 in
  let stop = ref false in
  List.iter (fun tid ->
    if not !stop then begin
      if (mask c !s) land (1 lsl tid) = 0 then begin
        Buffer.add_string buf (Printf.sprintf " %d.!disabled" tid); stop := true
      end else
        match mstep c.df c.hooks !s (nat_of_int tid) with
        | None -> Buffer.add_string buf (Printf.sprintf " %d.!disabled" tid); stop := true
        | Some s' ->
          Buffer.add_char buf ' ';
          Buffer.add_string buf (record c !s s' tid);
          s := s'
    end) c.tids;
  Buffer.add_string buf (Printf.sprintf " Q.%s %s" (verdict c !s) (summary c !s));
  Buffer.contents buf

(* ---------------------------------------------------------------------- *)
(* enum: every maximal schedule (list of tids) with at most k preemptions.
   A preemption is a switch away from a thread that is still enabled.
   spec: same as a case without tids, followed by "; k ; limit".           *)
(* ---------------------------------------------------------------------- *)
let enum_case (line : string) : unit =
  match List.rev (List.map String.trim (String.split_on_char ';' line)) with
  | limit :: k :: rest ->
    let c = parse_case (String.concat ";" (List.rev rest)) in
    let k = int_of_string k and limit = int_of_string limit in
    let count = ref 0 in
    let rec go (s : state) (last : int) (budget : int) (acc : int list) (depth : int) =
      if !count < limit then begin
        let m = mask c s in
        if m = 0 || (m = 1 && spinning s) || depth > 400 then begin
          incr count;
          print_endline (String.concat " " (List.rev_map string_of_int acc))
        end else begin
          let last_enabled = last >= 0 && m land (1 lsl last) <> 0
                             && not (last = 0 && spinning s) in
          for t = 0 to c.nsend do
            if m land (1 lsl t) <> 0 then begin
              let cost = if last_enabled && t <> last then 1 else 0 in
              if cost <= budget && not (t = 0 && spinning s && m <> 1) then
                match mstep c.df c.hooks s (nat_of_int t) with
                | Some s' -> go s' t (budget - cost) (t :: acc) (depth + 1)
                | None -> ()
            end
          done
        end
      end in
    go c.st0 (-1) k [] 0;
    print_endline "."
  | _ -> failwith "bad enum spec"

(* ---------------------------------------------------------------------- *)
(* accepts: trace inclusion.  Input: a case whose last field is, instead of tids,
   the implementation's observable trace: tokens
     b<t>:<h>   thread t began a send on h (published)
     r<t>       the send of thread t returned
     c<h>=<v>   callback, k<h> uv_close returned, x<h> close_cb, q<verdict> the end.
   The model is run as a non-deterministic acceptor (subset construction over
   micro-steps); prints "accept" or "reject@<index of the first token not matched>". *)
(* ---------------------------------------------------------------------- *)
type key = { kh : (bool * string * int * bool * string * string * string * string) list;
             ks : (spc * nat list) list; kl : lpc * lop list * nat list * cbop list * bool * bool * nat * nat list * bool;
             klst : nat list; kefd : string }

let key_of (c : case) (s : state) : key =
  { kh = List.init c.n (fun i -> let h = s.hs (nat_of_int i) in
        (h.pending, string_of_z h.busy, (match h.hst with Open -> 0 | Closing -> 1), h.unl,
         string_of_z h.published, string_of_z h.seen, string_of_z h.sends_begun, string_of_z h.cb_count));
    ks = List.map (fun x -> (x.s_pc, x.s_script)) s.snd;
    kl = (s.lp.l_pc, s.lp.l_script, s.lp.l_queue, s.lp.l_cbops, s.lp.l_incb, s.lp.l_mode, s.lp.l_cbk, s.lp.l_closing, s.lp.l_stop);
    klst = s.lst; kefd = string_of_z s.efd }

(* observable tokens produced by one micro-step of tid from s to s' *)
let step_tokens (s : state) (s' : state) (tid : int) : string list =
  let evs =
    let k = List.length s'.out - List.length s.out in
    let rec take k l = if k <= 0 then [] else match l with [] -> [] | x :: r -> x :: take (k - 1) r in
    List.rev (take k s'.out) in
  let of_ev = function
    | ECb (h, v) -> [Printf.sprintf "c%d=%s" (int_of_nat h) (string_of_z v)]
    | ECloseRet (h, _) -> [Printf.sprintf "k%d" (int_of_nat h)]
    | ECloseCb h -> [Printf.sprintf "x%d" (int_of_nat h)]
    | EWrite _ -> []
    | EAck _ -> [] in
  let send_tok =
    if tid = 0 then [] else
      match sender_pc s (tid - 1), sender_pc s' (tid - 1) with
      | SIdle, SPub h -> [Printf.sprintf "b%d:%d" tid (int_of_nat h)]
      | SIdle, _ -> []
      | _, SIdle -> [Printf.sprintf "r%d" tid]
      | _, _ -> [] in
  send_tok @ List.concat_map of_ev evs

let accepts_case (line : string) : string =
  let fields = List.map String.trim (String.split_on_char ';' line) in
  let nf = List.length fields in
  let obs_tokens = split_on ' ' (List.nth fields (nf - 1)) in
  let c = parse_case (String.concat ";" (List.filteri (fun i _ -> i < nf - 1) fields)) in
  let module H = Hashtbl in
  (* a configuration: model state + tokens it still owes from a multi-token step *)
  let closure (front : (state * string list) list) : (state * string list) list =
    let seen = H.create 64 in
    let out = ref [] in
    let rec visit (s, owed) =
      let k = (key_of c s, owed) in
      if not (H.mem seen k) then begin
        H.add seen k ();
        out := (s, owed) :: !out;
        if owed = [] then
          for t = 0 to c.nsend do
            match step_gen c.df s (nat_of_int t) with
            | Some s' -> if step_tokens s s' t = [] then visit (s', [])
            | None -> ()
          done
      end in
    List.iter visit front; !out in
  let advance (set : (state * string list) list) (tok : string) : (state * string list) list =
    List.concat_map (fun (s, owed) ->
      match owed with
      | o :: rest -> if o = tok then [(s, rest)] else []
      | [] ->
        let r = ref [] in
        for t = 0 to c.nsend do
          match step_gen c.df s (nat_of_int t) with
          | Some s' ->
            (match step_tokens s s' t with
             | o :: rest when o = tok -> r := (s', rest) :: !r
             | _ -> ())
          | None -> ()
        done; !r) set in
  let set = ref (closure [(c.st0, [])]) in
  let idx = ref 0 and rej = ref (-1) in
  List.iter (fun tok ->
    if !rej < 0 then begin
      if tok.[0] = 'q' then begin
        let v = String.sub tok 1 (String.length tok - 1) in
        let ok = List.exists (fun (s, owed) -> owed = [] &&
          (let m = ref 0 in
           for t = 0 to c.nsend do if enabled c.df s (nat_of_int t) then m := !m lor (1 lsl t) done;
           (if !m = 1 && spinning s then "spin" else if !m <> 0 then "run" else
              match s.lp.l_pc with LDone -> "done" | LPoll false -> "blocked" | _ -> "stuck") = v)) !set in
        if not ok then rej := !idx
      end else begin
        let nxt = closure (advance !set tok) in
        if nxt = [] then rej := !idx else set := nxt
      end;
      incr idx
    end) obs_tokens;
  if !rej < 0 then "accept" else Printf.sprintf "reject@%d" !rej


(* ---------------------------------------------------------------------- *)
(* fork family (harness/c09_fork.c):  case  "n ; ops"                       *)
(* ---------------------------------------------------------------------- *)
let fork_case (line : string) : string =
  match String.split_on_char ';' line with
  | [n; ops] ->
    let n = int_of_string (String.trim n) in
    let ops = split_on ' ' ops in
    let hnum t = nat_of_int (int_of_string (String.sub t 2 (String.length t - 2))) in
    let rec split_at_f acc = function
      | [] -> (List.rev acc, None)
      | "F" :: r -> (List.rev acc, Some r)
      | x :: r -> split_at_f (x :: acc) r in
    let (pre, post) = split_at_f [] ops in
    let all_post = match post with Some r -> r | None -> [] in
    let scripts who l =
      let pick c = List.filter_map (fun t -> if t.[0] = who && t.[1] = c then Some (hnum t) else None) l in
      [pick 's'; pick 't'] in
    let runs who l = List.filter_map (fun t -> if t.[0] = who && t.[1] = 'r' then Some OpNowait else None) l in
    let nobeh _ = [] in
    let p0 = init (fun _ -> true) (nat_of_int n) Z0 (runs 'p' (pre @ all_post)) nobeh (scripts 'p' (pre @ all_post)) in
    let obs (s : state) (counter : z) =
      String.concat "," (List.init n (fun i -> let h = s.hs (nat_of_int i) in
                           (if h.pending then "1" else "0") ^ string_of_z h.busy))
      ^ ":" ^ (if int_of_z counter > 0 then "r" else "-") in
    let cbs_since (before : state) (after : state) =
      let k = List.length after.out - List.length before.out in
      let rec take k l = if k <= 0 then [] else match l with [] -> [] | x :: r -> x :: take (k - 1) r in
      let evs = List.filter_map (function ECb (h, v) -> Some (Printf.sprintf "c%d=%s" (int_of_nat h) (string_of_z v)) | _ -> None)
                  (List.rev (take k after.out)) in
      if evs = [] then "-" else String.concat "+" evs in
    let buf = Buffer.create 256 in
    let add s = (if Buffer.length buf > 0 then Buffer.add_char buf ' '); Buffer.add_string buf s in
    (* a process is stepped through [stp : state -> nat -> state option] *)
    let send stp (s : state) tid =
      let rec go s k = if k = 0 then failwith "send does not return" else
        match stp s (nat_of_int tid) with
        | None -> failwith "sender disabled"
        | Some s' -> (match (List.nth s'.snd (tid - 1)).s_pc with SIdle -> s' | _ -> go s' (k - 1)) in
      go s 10 in
    let runloop stp (s : state) =
      let rec go s k = if k = 0 then failwith "run does not return" else
        match stp s O with
        | None -> failwith "loop disabled"
        | Some s' -> (match s'.lp.l_pc with LTop -> s' | _ -> go s' (k - 1)) in
      go s 200 in
    let single_step s t = step_gen true s t in
    let par = ref p0 in
    List.iter (fun t ->
      match t.[1] with
      | 's' | 't' ->
        let tid = if t.[1] = 's' then 1 else 2 in
        par := send single_step !par tid;
        add (Printf.sprintf "p%c%d:%s" t.[1] (int_of_nat (hnum t)) (obs !par (!par).efd))
      | 'r' ->
        let b = !par in par := runloop single_step !par;
        add (Printf.sprintf "pr:%s:%s" (cbs_since b !par) (obs !par (!par).efd))
      | _ -> failwith "op") pre;
    (match post with
     | None ->
       add "fresh=-";
       add ("P" ^ String.concat "" (List.init n (fun i -> let h = (!par).hs (nat_of_int i) in
             Printf.sprintf " h%d=%s/%s/%s" i (string_of_z h.published) (string_of_z h.seen) (string_of_z h.cb_count))))
     | Some post ->
       let y = ref (fork_sys true !par (runs 'c' post) nobeh (scripts 'c' post)) in
       let counter child = if child then (!y).ctr (!y).ch_chi else (!y).ctr (!y).ch_par in
       let st child = if child then (!y).chi else (!y).par in
       (* stepping a process inside the system: returns the process's new state, updates y *)
       let sys_stp child (_ : state) t =
         match sys_step !y child t with
         | None -> None
         | Some y' -> y := y'; Some (if child then y'.chi else y'.par) in
       add (Printf.sprintf "F:0:%s" (obs (st true) (counter true)));
       List.iter (fun t ->
         let child = t.[0] = 'c' in
         let who = t.[0] in
         match t.[1] with
         | 's' | 't' ->
           let tid = if t.[1] = 's' then 1 else 2 in
           ignore (send (sys_stp child) (st child) tid);
           add (Printf.sprintf "%c%c%d:%s" who t.[1] (int_of_nat (hnum t)) (obs (st child) (counter child)))
         | 'r' ->
           let b = st child in
           ignore (runloop (sys_stp child) (st child));
           add (Printf.sprintf "%cr:%s:%s" who (cbs_since b (st child)) (obs (st child) (counter child)))
         | _ -> failwith "op") post;
       add (Printf.sprintf "fresh=%d" (if (!y).ch_chi <> (!y).ch_par then 1 else 0));
       let summ (s : state) = String.concat "" (List.init n (fun i -> let h = s.hs (nat_of_int i) in
             Printf.sprintf " h%d=%s/%s/%s" i (string_of_z h.published) (string_of_z h.seen) (string_of_z h.cb_count))) in
       add ("P" ^ summ (!y).par);
       add ("C" ^ summ (!y).chi));
    Buffer.contents buf
  | _ -> failwith "bad fork case"

let () =
  match Sys.argv.(1) with
  | "run" -> iter_lines (fun l -> print_string (run_case l); print_newline ())
  | "enum" -> iter_lines enum_case
  | "fork" -> iter_lines (fun l -> print_string (try fork_case l with Failure m -> "MODEL-ERR " ^ m); print_newline ())
  | "accepts" -> iter_lines (fun l -> print_string (accepts_case l); print_newline ())
  | _ -> failwith "mode"
