(* Driver for the C16 fault models.  One case per line:
     <fn> <int args...> ; <alloc answers as 0/1 string or -> ; <sys answers o|i|ERRNO,...>
   prints   rc=.. dr=.. dh=.. dq=.. dm=.. df=.. dw=.. dd=.. cb=.. pts=a,b,c          *)
let errno_name = function
  | EAGAIN -> "EAGAIN" | ENOBUFS -> "ENOBUFS" | EMFILE -> "EMFILE" | ENFILE -> "ENFILE"
  | ENOMEM -> "ENOMEM" | ENOSPC -> "ENOSPC"
let errno_of = function
  | "EAGAIN" -> EAGAIN | "ENOBUFS" -> ENOBUFS | "EMFILE" -> EMFILE | "ENFILE" -> ENFILE
  | "ENOMEM" -> ENOMEM | "ENOSPC" -> ENOSPC | s -> failwith ("errno " ^ s)
let ans_of = function "o" -> Ok | "i" -> Intr | s -> Fail (errno_of s)
let pt_name = function
  | PMalloc -> "malloc" | PCalloc -> "calloc" | PRealloc -> "realloc" | PSocket -> "socket"
  | PSocketpair -> "socketpair" | PPipe2 -> "pipe2" | PEventfd -> "eventfd"
  | PEpollCreate -> "epoll_create1" | PFork -> "fork" | PWaitpid -> "waitpid" | PRead -> "read"
  | PWrite -> "write" | PWritev -> "writev" | PSendmsg -> "sendmsg" | PClose -> "close"
  | PIoctl -> "ioctl" | PAccept4 -> "accept4" | PInotifyInit -> "inotify_init1"
  | PInotifyAdd -> "inotify_add_watch" | PPthreadCreate -> "pthread_create" | POpen -> "open"
  | PIouSetup -> "iou_setup" | PMmap -> "mmap"
let site_name = function
  | SMaybeResize -> "maybe_resize" | SPollerRegister -> "poller_register" | SFsPollRearm -> "fs_poll_rearm"
  | SInotifyFork -> "inotify_fork" | SThreadPoolStart -> "threadpool_start"
  | SSignalGlobalInit -> "signal_global_init" | SSignalLock -> "signal_lock" | SAsyncSend -> "async_send"
  | SAsyncIo -> "async_io" | SSignalEvent -> "signal_event" | SSpawnClose -> "spawn_close"
  | SSpawnRead -> "spawn_read"
let rc_name = function
  | RcOk -> "0" | RcErr e -> errno_name e | RcIntr -> "EINTR" | RcOther z -> "#" ^ string_of_z z
let res_name = function
  | Ret r -> rc_name r
  | Abort s -> "ABORT:" ^ site_name s ^ (if permitted s then ":permitted" else ":unpermitted")
let pts l = String.concat "," (List.rev_map pt_name l)
let zi z = string_of_z z
let delta (a : ledger) (b : ledger) =
  let d f = BZ.to_string (BZ.sub (bz_of_z (f b)) (bz_of_z (f a))) in
  Printf.sprintf "dr=%s dh=%s dq=%s dm=%s df=%s dw=%s dd=%s"
    (d (fun l -> l.l_reqs)) (d (fun l -> l.l_handles)) (d (fun l -> l.l_hq)) (d (fun l -> l.l_mem))
    (d (fun l -> l.l_fds)) (d (fun l -> l.l_watch)) (d (fun l -> l.l_dangling))
let show_out (o : out) =
  Printf.sprintf "rc=%s %s cb=%s pts=%s" (res_name o.o_res) (delta l0 o.o_led)
    (match o.o_cb with None -> "-" | Some r -> rc_name r) (pts o.o_w.w_log)
let b s = int_of_string s <> 0
let case (line : string) : string =
  match String.split_on_char ';' line with
  | [hd; al; sy] ->
    let toks = split_on ' ' hd in
    let al = String.trim al and sy = String.trim sy in
    let allocs = if al = "-" || al = "" then [] else List.init (String.length al) (fun i -> al.[i] = '1') in
    let syss = if sy = "-" || sy = "" || (match toks with "io_poll" :: _ -> true | _ -> false) then []
               else List.map ans_of (split_on ',' sy) in
    let w = { w_alloc = allocs; w_sys = syss; w_log = [] } in
    (match toks with
     | ["write2"; n; c; e] -> show_out (uv_write2 (nat_of_int (int_of_string n)) (b c) (b e) l0 w)
     | ["udp_send"; n; e; p; a] -> show_out (uv_udp_send (nat_of_int (int_of_string n)) (b e) (b p) (b a) l0 w)
     | ["fs_poll_start"; a; p] -> show_out (uv_fs_poll_start (b a) (b p) l0 w)
     | ["fs_stat"; p] -> show_out (uv_fs_stat_async (b p) l0 w)
     | ["fs_rename"; p] -> show_out (uv_fs_rename_async (b p) l0 w)
     | "os_environ" :: env -> show_out (uv_os_environ (List.map b env) l0 w)
     | ["fs_event_start"; i; k; r] -> show_out (uv_fs_event_start (b i) (b k) (b r) l0 w)
     | ["getaddrinfo"; p] -> show_out (uv_getaddrinfo None (b p) l0 w)
     | "spawn" :: f :: stdio -> show_out (uv_spawn (List.map b stdio) (b f) l0 w)
     | ["accept"] -> show_out (uv_accept_fd l0 w)
     | ["async_send"] -> show_out (uv_async_send l0 w)
     | ["loop_init"; f] -> show_out (uv_loop_init (b f) l0 w)
     | ["close"] ->
       let ((r, l), w') = uv_close_fd l0 w in
       show_out { o_res = Ret r; o_led = l; o_cb = None; o_w = w' }
     | ["async_io"] ->
       let ((r, _), lg) = uv_async_io syss [] in
       Printf.sprintf "rc=%s pts=%s" (res_name r) (pts lg)
     | ["signal_event"] ->
       let (((r, d), _), lg) = uv_signal_event syss [] in
       Printf.sprintf "rc=%s dispatched=%b pts=%s" (res_name r) d (pts lg)
     | ["io_poll"; m; t] ->
       (* answers: i<e> | t | e<e> | f<e> *)
       let pa tok =
         let v () = z_of_string (String.sub tok 1 (String.length tok - 1)) in
         match tok.[0] with 'i' -> PIntr (v ()) | 'e' -> PEvents (v ()) | 'f' -> PFull (v ()) | _ -> PTimeout in
       let o = if sy = "-" || sy = "" then [] else List.map pa (split_on ',' sy) in
       let r = io_poll (b m) (z_of_string t) o in
       Printf.sprintf "P%s calls=%s Q%s end=%s ok=%b" t
         (String.concat "," (List.rev_map (fun (a, n) -> "w" ^ string_of_z a ^ "@" ^ string_of_z n) r.r_calls))
         (string_of_z r.r_blocked)
         (match r.r_end with PeTimeout -> "timeout" | PeEvents -> "events" | PeBreak -> "break" | PeStuck -> "stuck")
         r.r_ok
     | ["read_step"] ->
       let (r, w') = uv_read_step w in
       Printf.sprintf "rd=%s pts=%s"
         (match r with RdData -> "data" | RdAgain -> "again" | RdError e -> errno_name e | RdIntr -> "EINTR")
         (pts w'.w_log)
     | _ -> "BADCASE")
  | _ -> "BADCASE"
let () = iter_lines (fun l -> print_endline (try case l with e -> "EXC " ^ Printexc.to_string e))
