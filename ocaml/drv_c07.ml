(* Driver for the C07 models.  usage: modelrun_c07 acc|con|w < cases > results
   acc: <ipc 0|1> <accept re-arm variant 0|1> ; ops ; beh0 | beh1 ... ; accept4 answers ; alloc answers ; open answers ; kinds
        ops: Af Ab At C N T R<0|1> V<msg>/<msg>... (msg = ids separated by commas, - = none)
   con: <tcp 0|1> <pipe-fix variant 0|1> ; ops ; behs ; socket answers ; connect answers ; SO_ERROR answers ; event bits
        ops: T B b W H G P<namelen> Q<flags>,<namelen>,<nul 0|1> C R
   w:   <stream><state><handle><api> ; <syscall answer>
   The output uses the trace tokens of harness/c07_accept.c and harness/c07_connect.c. *)
let zi = z_of_int
let iz = int_of_z

let parse_msg (s : string) : z list =
  if s = "-" then [] else List.map (fun x -> zi (int_of_string x)) (split_on ',' s)

let parse_aop (tok : string) : op =
  let arg = String.sub tok 1 (String.length tok - 1) in
  match tok.[0] with
  | 'A' -> OAccept (match arg with "f" -> ClFresh | "b" -> ClBusy | _ -> ClBadType)
  | 'C' -> OClose
  | 'N' -> OCount
  | 'T' -> OType
  | 'R' -> ORun (arg = "1")
  | 'V' -> ORecv (List.map parse_msg (split_on '/' arg))
  | _ -> failwith ("bad accept op " ^ tok)

let parse_acc (tok : string) : acc =
  let v = int_of_string (String.sub tok 1 (String.length tok - 1)) in
  match tok.[0] with
  | 'f' -> AFd (zi v)
  | 'e' -> (match v with 11 -> AAgain | 4 -> AIntr | 24 -> AEmfile | 23 -> AEnfile | e -> AErr (zi (- e)))
  | _ -> failwith "bad accept answer"

let behs_of (parse : string -> 'a) (s : string) : nat -> 'a list =
  let arr = Array.of_list (List.map (fun b -> List.map parse (split_on ' ' b))
                             (String.split_on_char '|' s)) in
  fun k -> let k = int_of_nat k in if k < Array.length arr then arr.(k) else []

let acc_case (line : string) : string =
  match List.map String.trim (String.split_on_char ';' line) with
  | [ipc; ops; behs; ao; al; oo; kinds] ->
      let (ipc, rearm) = match split_on ' ' ipc with
        | [i; r] -> (i = "1", r = "1") | [i] -> (i = "1", false) | _ -> failwith "bad acc head" in
      let ops = List.map parse_aop (split_on ' ' ops) in
      let beh = behs_of parse_aop behs in
      let bools s = List.map (fun x -> x = "1") (split_on ' ' s) in
      let karr = Array.of_list (List.map int_of_string (split_on ' ' kinds)) in
      let kind f = let i = iz f in if i >= 0 && i < Array.length karr then zi karr.(i) else zi 0 in
      let x0 = init_v rearm ipc (List.map parse_acc (split_on ' ' ao)) (bools al) (bools oo) in
      let (_, evs) = run kind x0 ops beh in
      let buf = Buffer.create 256 in
      let later = ref [] in
      let add s = Buffer.add_string buf s; Buffer.add_char buf ' ' in
      let flush () = List.iter (fun f -> add ("x" ^ string_of_z f)) (List.rev !later); later := [] in
      List.iter (fun e ->
        match e with
        | EKeep f -> add ("h" ^ string_of_z f)
        | EShed f -> add ("h" ^ string_of_z f);
                     if ipc then later := f :: !later else add ("x" ^ string_of_z f)
        | ECb -> add "c"
        | EClaim f -> add ("g" ^ string_of_z f)
        | EDrop f -> add ("x" ^ string_of_z f)
        | EShutC f -> add ("x" ^ string_of_z f)
        | ERet c -> add ("a" ^ string_of_z c)
        | ECount n -> add ("n" ^ string_of_z n)
        | EType k -> add ("t" ^ string_of_z k)
        | ERead c -> flush (); add ("r" ^ string_of_z c)) evs;
      flush ();
      Buffer.contents buf
  | _ -> failwith "bad acc case"

let parse_cop (tok : string) : cop =
  let arg = String.sub tok 1 (String.length tok - 1) in
  match tok.[0] with
  | 'T' -> CTcp
  | 'B' -> CBindBusy
  | 'b' -> CBind
  | 'P' -> CPipe (nat_of_int (int_of_string arg))
  | 'Q' -> (match String.split_on_char ',' arg with
            | [f; n; z] -> CPipe2 (zi (int_of_string f), nat_of_int (int_of_string n), z = "1")
            | _ -> failwith "bad Q")
  | 'W' -> CWrite
  | 'H' -> CShut
  | 'G' -> CRead
  | 't' -> CTryWrite
  | 'C' -> CClose
  | 'R' -> CRun
  | _ -> failwith ("bad connect op " ^ tok)

let con_case (line : string) : string =
  match List.map String.trim (String.split_on_char ';' line) with
  | [tcp; ops; behs; so; cn; ge; rd] ->
      let zs s = List.map (fun x -> zi (int_of_string x)) (split_on ' ' s) in
      let o = { o_sock = zs so; o_conn = zs cn; o_so = zs ge;
                o_ready = List.map (fun x -> x = "1") (split_on ' ' rd) } in
      let ops = List.map parse_cop (split_on ' ' ops) in
      let beh = behs_of parse_cop behs in
      let (tcp, pfix) = match split_on ' ' tcp with
        | [t; f] -> (t = "1", f = "1") | [t] -> (t = "1", false) | _ -> failwith "bad con head" in
      let (x_end, evs) = crun (cinit pfix tcp o) ops beh in
      let buf = Buffer.create 256 in
      let add s = Buffer.add_string buf s; Buffer.add_char buf ' ' in
      List.iter (fun e ->
        match e with
        | CRet (r, c) -> add (Printf.sprintf "u%d:%s" (int_of_nat r) (string_of_z c))
        | CCb (r, st, _) -> add (Printf.sprintf "k%d:%s" (int_of_nat r) (string_of_z st))
        | CLost _ -> ()
        | CUsable _ -> ()
        | CWcb -> add "v"
        | CScb -> add "y"
        | CTry c -> add ("t" ^ string_of_z c)
        | CClosed -> add "x"
        | CReg n -> add (Printf.sprintf "q%d" (int_of_nat n))) evs;
      (* the harness then closes every handle and lets the loop finish (callbacks do nothing):
         uv_loop_alive() and uv_loop_close() are determined by what is still registered *)
      let (xf, _) = crun x_end [CClose; CRun; CRun] (fun _ -> []) in
      let left = int_of_nat xf.creg in
      add (Printf.sprintf "z%d,%d" (if left > 0 then 1 else 0) (if left > 0 then (-16) else 0));
      Buffer.contents buf
  | _ -> failwith "bad con case"

let w_case (line : string) : string =
  match List.map String.trim (String.split_on_char ';' line) with
  | [spec; sys] ->
      let st = spec.[0] and sta = spec.[1] and hk = spec.[2] and api = spec.[3] in
      let s = { w_fd = zi (if sta = 'n' then (-1) else 5); w_writable = (sta <> 's');
                w_pipe = (st <> 'T'); w_ipc = (st = 'I'); w_connecting = false;
                w_wqs = zi (if sta = 'q' then 1 else 0) } in
      let sh = match hk with
        | '-' -> None
        | 't' | 'u' | 'p' -> Some { h_fd = zi 7; h_closing = false }
        | 'c' -> Some { h_fd = zi (-1); h_closing = true }
        | _ -> Some { h_fd = zi (-1); h_closing = false } in
      let sys = if sys = "" then zi 0 else zi (int_of_string sys) in
      if api = '2' then Printf.sprintf "w%s" (string_of_z (write2 s sh))
      else Printf.sprintf "w%s H%s" (string_of_z (try_write2 true s sh sys))
             (string_of_z (try_write2 false s sh sys))   (* H = before c5357ca, not compared *)
  | _ -> failwith "bad w case"

let () =
  let f = match Sys.argv.(1) with
    | "acc" -> acc_case | "con" -> con_case | "w" -> w_case
    | _ -> failwith "mode" in
  iter_lines (fun l -> print_string (f l); print_newline ())
