(* Driver for the C18 address-codec model (coq/Model/Inet.v).
   usage: modelrun_c18 < cases > results       one case per line:
     p4 HEX | p6 HEX | px HEX        uv_inet_pton(AF_INET / AF_INET6 / 99, str)
     a4 HEX PORT | a6 HEX PORT      uv_ip4_addr / uv_ip6_addr
     n4 HEX | n6 HEX | nx HEX        uv_inet_ntop + uv_ip4/6_name + uv_ip_name, sizes 0..50
     sc HEX                          uv__strscpy(d, str, n) for n = 0 .. len+2
   HEX = the bytes in memory ("-" = none); a NUL is appended by the harness.
   Output format: see harness/c18_inet.c (the part before " | "). *)
let bytes_of_hex (h : string) : n list =
  if h = "-" then [] else
  let l = String.length h / 2 in
  List.init l (fun i -> n_of_int (int_of_string ("0x" ^ String.sub h (2 * i) 2)))

let hex_of (l : n list) : string =
  String.concat "" (List.map (fun b -> Printf.sprintf "%02x" (int_of_n b land 255)) l)

let pad (l : n list) (k : int) : string =
  let h = hex_of l in
  h ^ String.concat "" (List.init (max 0 (k - List.length l)) (fun _ -> "aa"))

let maxsize = 50

(* run-length encoded "size:rc/written" table *)
let rle (f : int -> string) (lo : int) (hi : int) : string =
  let buf = Buffer.create 128 in
  let start = ref lo and cur = ref (f lo) in
  let flush e = Buffer.add_string buf (Printf.sprintf "%d-%d:%s " !start e !cur) in
  for s = lo + 1 to hi do
    let t = f s in
    if t <> !cur then (flush (s - 1); start := s; cur := t)
  done;
  flush hi; Buffer.contents buf

let tok (rc, w) = string_of_z rc ^ "/" ^ hex_of w

let case (line : string) : string =
  match split_on ' ' line with
  | [ "p4"; h ] -> let (rc, b) = uv_inet_pton (z_of_int 2) (bytes_of_hex h) in
                   string_of_z rc ^ " " ^ pad b 4
  | [ "p6"; h ] -> let (rc, b) = uv_inet_pton (z_of_int 10) (bytes_of_hex h) in
                   string_of_z rc ^ " " ^ pad b 16
  | [ "px"; h ] -> let (rc, b) = uv_inet_pton (z_of_int 99) (bytes_of_hex h) in
                   string_of_z rc ^ " " ^ pad b 16
  | [ "a4"; h; port ] ->
      let (rc, (p, a)) = uv_ip4_addr (bytes_of_hex h) (z_of_string port) in
      string_of_z rc ^ " " ^ hex_of p ^ " " ^ hex_of a
  | [ "a6"; h; port ] ->
      let (rc, (p, a)) = uv_ip6_addr (bytes_of_hex h) (z_of_string port) in
      string_of_z rc ^ " " ^ hex_of p ^ " " ^ hex_of a
  | [ ("n4" | "n6" | "nx") as m; h ] ->
      let a = bytes_of_hex h in
      let af = z_of_int (match m with "n4" -> 2 | "n6" -> 10 | _ -> 99) in
      let f1 s = tok (uv_inet_ntop af a (n_of_int s)) in
      let f2 s = tok (match m with
                      | "n4" -> uv_ip4_name a (n_of_int s)
                      | "n6" -> uv_ip6_name a (n_of_int s)
                      | _ -> uv_ip_name af a (n_of_int s)) in
      let f3 s = tok (uv_ip_name af a (n_of_int s)) in
      rle f1 0 maxsize ^ "; " ^ rle f2 0 maxsize ^ "; " ^ rle f3 0 maxsize
  | [ "sc"; h ] ->
      let s = bytes_of_hex h in
      let rec clen = function [] -> 0 | b :: t -> if int_of_n b = 0 then 0 else 1 + clen t in
      let len = clen s in
      String.concat " " (List.init (len + 3) (fun n ->
        Printf.sprintf "%d:%s" n (tok (uv_strscpy s (n_of_int n)))))
  | _ -> "bad-case"

let () = iter_lines (fun l -> print_string (case l); print_newline ())
