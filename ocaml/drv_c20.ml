(* Driver for the C20 models.  usage: modelrun_c20 codes|stack|timed|timedfix|bar|sem < cases *)
let zs = string_of_z
let opt_code = function Some c -> zs c | None -> "abort"
let pairs toks =
  List.map (fun p -> match String.split_on_char ',' p with
                     | [r; e] -> (z_of_string r, z_of_string e)
                     | _ -> failwith "bad pair") toks

let codes_case line =
  match split_on ' ' line with
  | ("mt" | "rr" | "rw") :: [e] -> opt_code (uv_trylock_code (z_of_string e))
  | "bw" :: [e] -> opt_code (uv_barrier_wait_code (z_of_string e))
  | "tc" :: [e] -> opt_code (uv_cond_timedwait_code (z_of_string e))
  | "st" :: ps ->
      let os = pairs ps in
      (match uv_sem_trywait_code os with
       | (Some c, rest) -> zs c ^ " " ^ string_of_int (List.length os - List.length rest)
       | (None, _) -> "abort")
  | "sw" :: ps ->
      let os = pairs ps in
      (match uv_sem_wait_code os with
       | (Some c, rest) -> zs c ^ " " ^ string_of_int (List.length os - List.length rest)
       | (None, _) -> "abort")
  | "ci" :: [a; b; c; d] ->
      let (r, calls) = uv_cond_init_model (z_of_string a) (z_of_string b) (z_of_string c) (z_of_string d) in
      zs r ^ " " ^ String.concat "," (List.map zs calls)
  | _ -> failwith ("bad codes case " ^ line)

let rl_of s = if s = "F" then RlFail else RlCur (z_of_string s)

let stack_case line =
  match split_on ' ' line with
  | ["st"; page; psm; rl; flag; req] ->
      (match stack_size_applied (z_of_string page) (z_of_string psm) (rl_of rl) (flag = "1") (z_of_string req) with
       | Some r -> zs r
       | None -> "einval")
  | ["tc"; page; psm; rl] ->      (* uv_thread_create = uv_thread_create_ex without UV_THREAD_HAS_STACK_SIZE *)
      (match stack_size_applied (z_of_string page) (z_of_string psm) (rl_of rl) false (z_of_string "0") with
       | Some r -> zs r
       | None -> "einval")
  | ["ts"; page; psm; rl] ->
      zs (thread_stack_size (z_of_string page) (z_of_string psm) (rl_of rl))
  | _ -> failwith ("bad stack case " ^ line)

(* <sec> <nsec> <timeout> <mode>; mode T: nobody signals (the wait ends at the deadline or at
   once when it is not in the future), S: signalled at once, E<code>: pthread returns code *)
let timed_case add line =
  match split_on ' ' line with
  | [sec; nsec; timeout; mode] ->
      let hr = hrtime_of (z_of_string sec) (z_of_string nsec) in
      let after = ref hr in
      let wait ts =
        match mode.[0] with
        | 'T' -> let d = bz_of_z (ts_ns ts) in
                 if BZ.gt d (bz_of_z hr) then after := z_of_bz d;
                 z_of_string "110"
        | 'S' -> z_of_string "0"
        | _ -> z_of_string (String.sub mode 1 (String.length mode - 1)) in
      let (res, (s, ns)) = uv_cond_timedwait_model add (z_of_string timeout) hr wait in
      (match res with
       | None -> "abort"
       | Some c -> Printf.sprintf "%s %s %s %s" (zs s) (zs ns) (zs c)
                     (BZ.to_string (BZ.sub (bz_of_z !after) (bz_of_z hr))))
  | _ -> failwith ("bad timed case " ^ line)

let op_char = function
  | OpLock -> "L" | OpTry -> "T" | OpUnlock -> "U" | OpWait -> "W" | OpWake -> "K"
  | OpSignal -> "S" | OpBcast -> "B"
let parse_sched s =
  List.map (fun p -> match String.split_on_char ',' p with
                     | [t; a] -> { who = nat_of_int (int_of_string t); aux = nat_of_int (int_of_string a) }
                     | _ -> failwith "bad choice") (split_on ' ' s)

(* <threshold> <rounds of thread 0> <rounds of thread 1> ... ; t,a t,a ... *)
let bar_case line =
  match String.split_on_char ';' line with
  | [hd; sched] ->
      (match split_on ' ' hd with
       | thr :: rems ->
           let s0 = binit (z_of_string thr) (List.map (fun r -> nat_of_int (int_of_string r)) rems) in
           let (log, fin) = brun_log s0 (parse_sched sched) in
           let buf = Buffer.create 256 in
           List.iter (fun ((((t, op), i), o), r) ->
             (match op with
              | None -> Buffer.add_string buf (Printf.sprintf "%d:- " (int_of_nat t))
              | Some op ->
                  Buffer.add_string buf (Printf.sprintf "%d:%s:%s,%s%s " (int_of_nat t) (op_char op) (zs i) (zs o)
                    (match r with None -> "" | Some b -> if b then ":r1" else ":r0")))) log;
           Buffer.add_string buf ("v" ^ zs (bverdict fin));
           Buffer.contents buf
       | _ -> failwith "bad bar head")
  | _ -> failwith "bad bar case"

(* <value> ; PWT PPW ... (one word per thread, - = empty) ; sched *)
let sem_case line =
  match String.split_on_char ';' line with
  | [v; progs; sched] ->
      let prog w = if w = "-" then [] else
        List.init (String.length w) (fun i -> match w.[i] with
          | 'P' -> SPost | 'W' -> SWait | 'T' -> STry | _ -> failwith "bad semop") in
      let s0 = sinit (z_of_string (String.trim v)) (List.map prog (split_on ' ' progs)) in
      let (log, fin) = srun_log s0 (parse_sched sched) in
      let buf = Buffer.create 256 in
      List.iter (fun ((t, op), r) ->
        (match op with
         | None -> Buffer.add_string buf (Printf.sprintf "%d:- " (int_of_nat t))
         | Some op ->
             Buffer.add_string buf (Printf.sprintf "%d:%s%s " (int_of_nat t) (op_char op)
               (match r with None -> "" | Some c -> ":r" ^ zs c)))) log;
      Buffer.add_string buf ("v" ^ zs (sverdict fin));
      Buffer.contents buf
  | _ -> failwith "bad sem case"

(* names of the table entries (trusted glue): uv wrapper <-> constructor, pthread call -> name *)
let uv_names = [
  "uv_mutex_init", UvMutexInit; "uv_mutex_init_recursive", UvMutexInitRecursive; "uv_mutex_destroy", UvMutexDestroy; "uv_mutex_lock", UvMutexLock;
  "uv_mutex_trylock", UvMutexTrylock; "uv_mutex_unlock", UvMutexUnlock;
  "uv_rwlock_init", UvRwlockInit; "uv_rwlock_destroy", UvRwlockDestroy; "uv_rwlock_rdlock", UvRwlockRdlock;
  "uv_rwlock_tryrdlock", UvRwlockTryrdlock; "uv_rwlock_rdunlock", UvRwlockRdunlock;
  "uv_rwlock_wrlock", UvRwlockWrlock; "uv_rwlock_trywrlock", UvRwlockTrywrlock; "uv_rwlock_wrunlock", UvRwlockWrunlock;
  "uv_sem_init", UvSemInit; "uv_sem_destroy", UvSemDestroy; "uv_sem_post", UvSemPost; "uv_sem_wait", UvSemWait;
  "uv_sem_trywait", UvSemTrywait;
  "uv_cond_init", UvCondInit; "uv_cond_destroy", UvCondDestroy; "uv_cond_signal", UvCondSignal; "uv_cond_broadcast", UvCondBroadcast;
  "uv_cond_wait", UvCondWait; "uv_cond_timedwait", UvCondTimedwait;
  "uv_once", UvOnce; "uv_key_create", UvKeyCreate; "uv_key_delete", UvKeyDelete; "uv_key_get", UvKeyGet;
  "uv_key_set", UvKeySet; "uv_thread_join", UvThreadJoin;
  "uv_barrier_init", UvBarrierInit; "uv_barrier_wait", UvBarrierWait; "uv_barrier_destroy", UvBarrierDestroy ]
let p_name = function
  | PMutexInit -> "pthread_mutex_init" | PMutexDestroy -> "pthread_mutex_destroy" | PMutexLock -> "pthread_mutex_lock"
  | PMutexTrylock -> "pthread_mutex_trylock" | PMutexUnlock -> "pthread_mutex_unlock"
  | PRwInit -> "pthread_rwlock_init" | PRwDestroy -> "pthread_rwlock_destroy" | PRwRdlock -> "pthread_rwlock_rdlock"
  | PRwTryrdlock -> "pthread_rwlock_tryrdlock" | PRwWrlock -> "pthread_rwlock_wrlock"
  | PRwTrywrlock -> "pthread_rwlock_trywrlock" | PRwUnlock -> "pthread_rwlock_unlock"
  | PSemInit -> "sem_init" | PSemDestroy -> "sem_destroy" | PSemPost -> "sem_post" | PSemWait -> "sem_wait"
  | PSemTrywait -> "sem_trywait"
  | PCondInit -> "pthread_cond_init" | PCondDestroy -> "pthread_cond_destroy" | PCondSignal -> "pthread_cond_signal"
  | PCondBroadcast -> "pthread_cond_broadcast" | PCondWait -> "pthread_cond_wait"
  | PCondTimedwait -> "pthread_cond_timedwait"
  | POnce -> "pthread_once" | PKeyCreate -> "pthread_key_create" | PKeyDelete -> "pthread_key_delete"
  | PGetspecific -> "pthread_getspecific" | PSetspecific -> "pthread_setspecific" | PJoin -> "pthread_join"
  | PBarrierInit -> "pthread_barrier_init" | PBarrierWait -> "pthread_barrier_wait"
  | PBarrierDestroy -> "pthread_barrier_destroy"
(* what an init call asks for; process-shared is never requested (constant in the format) *)
let req_string = function
  | IMutex t -> ":type=" ^ zs t ^ ",pshared=0"
  | IRwlock k -> ":kind=" ^ zs k ^ ",pshared=0"
  | ICond c -> ":clock=" ^ zs c ^ ",pshared=0"
  | ISem (p, v) -> ":pshared=" ^ zs p ^ ",value=" ^ zs v
  | IBarrier n -> ":count=" ^ zs n ^ ",pshared=0"
  | INotInit -> ""
let pass_case debug line =
  let name, arg = match split_on ' ' line with
    | [n] -> n, "1" | [n; a] -> n, a | _ -> "", "1" in
  if name = "?" then   (* list the wrappers of the table, in table order *)
    String.concat " " (List.map (fun f -> fst (List.find (fun (_, g) -> g = f) uv_names)) all_uvfn)
  else if name = "uv_once_racing" then   (* two uv_once calls on one guard, one while the init runs: both are pthread_once *)
    let c = p_name (passthrough UvOnce) ^ ":1" in c ^ " " ^ c
  else match List.assoc_opt name uv_names with
    | Some f -> String.concat " " (List.map (fun p -> p_name p ^ ":0") (passthrough_pre f)
                                   @ [p_name (passthrough f) ^ ":1" ^ req_string (init_request debug f (z_of_string arg))])
    | None -> "unknown"

let () =
  let f = match Sys.argv.(1) with
    (* pass: NDEBUG build, or PTHREAD_MUTEX_ERRORCHECK not a macro (glibc); passdbg: assert-enabled
       build on a libc where it is a macro *)
    | "pass" -> pass_case false | "passdbg" -> pass_case true
    | "codes" -> codes_case | "stack" -> stack_case
    | "timed" -> timed_case add_wrap | "timedfix" -> timed_case add_sat
    | "bar" -> bar_case | "sem" -> sem_case
    | _ -> failwith "mode" in
  iter_lines (fun l -> print_string (f l); print_newline ())
