(* Included textually after "module BZ = Z  open <extracted module>".
   Conversions between decimal text / OCaml ints and the extracted Coq
   numbers (positive, z, n, nat) -- trusted glue. *)
let rec pos_of_bz (v : BZ.t) : positive =
  if BZ.equal v BZ.one then XH
  else let h = pos_of_bz (BZ.shift_right v 1) in
       if BZ.testbit v 0 then XI h else XO h
let rec bz_of_pos (p : positive) : BZ.t =
  match p with
  | XH -> BZ.one
  | XO q -> BZ.shift_left (bz_of_pos q) 1
  | XI q -> BZ.succ (BZ.shift_left (bz_of_pos q) 1)
let z_of_bz (v : BZ.t) : z =
  let s = BZ.sign v in
  if s = 0 then Z0 else if s > 0 then Zpos (pos_of_bz v) else Zneg (pos_of_bz (BZ.neg v))
let bz_of_z (v : z) : BZ.t =
  match v with Z0 -> BZ.zero | Zpos p -> bz_of_pos p | Zneg p -> BZ.neg (bz_of_pos p)
let z_of_string (s : string) : z = z_of_bz (BZ.of_string s)
let string_of_z (v : z) : string = BZ.to_string (bz_of_z v)
let z_of_int (i : int) : z = z_of_bz (BZ.of_int i)
let int_of_z (v : z) : int = BZ.to_int (bz_of_z v)
let n_of_bz (v : BZ.t) : n = if BZ.sign v = 0 then N0 else Npos (pos_of_bz v)
let bz_of_n (v : n) : BZ.t = match v with N0 -> BZ.zero | Npos p -> bz_of_pos p
let n_of_int (i : int) : n = n_of_bz (BZ.of_int i)
let int_of_n (v : n) : int = BZ.to_int (bz_of_n v)
let n_of_string (s : string) : n = n_of_bz (BZ.of_string s)
let string_of_n (v : n) : string = BZ.to_string (bz_of_n v)
let rec nat_of_int (i : int) : nat = if i <= 0 then O else S (nat_of_int (i - 1))
let int_of_nat (v : nat) : int =
  let rec go acc = function O -> acc | S m -> go (acc + 1) m in go 0 v
let split_on (c : char) (s : string) : string list =
  List.filter (fun x -> x <> "") (String.split_on_char c s)
let iter_lines (f : string -> unit) : unit =
  (try while true do f (input_line stdin) done with End_of_file -> ())
