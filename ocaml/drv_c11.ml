(* Driver for the C11 models (Model/Fs.v).
   usage: modelrun_c11 bufs|routes < cases > results
   bufs   : "<case of harness/c11_bufs.c> | <answers the wrappers gave, comma separated>"
   routes : "<kv> <ring 0|1> ; <op> # <resS> <resP> <resR> | <op> # ..."  (harness/c11_routes.c) *)
let iovmax_i = 1024
let fnv (l : int list) : int =
  List.fold_left (fun h b -> ((h lxor b) * 16777619) land 0xFFFFFFFF) 2166136261 l
let pat_buf g = (g * 31 + 7) mod 251
let pat_file i = (i * 13 + 5) mod 253
let pat_fill g = 200 + g mod 50

let parse_lens (s : string) : int list =
  if s = "-" then [] else
  List.concat_map (fun tok ->
    if tok.[0] = 'r' then
      match String.split_on_char 'x' (String.sub tok 1 (String.length tok - 1)) with
      | [c; l] -> List.init (int_of_string c) (fun _ -> int_of_string l)
      | _ -> failwith "bad run"
    else [int_of_string tok]) (split_on ',' s)

let mk_bufs (lens : int list) (pat : int -> int) : int list list =
  let g = ref 0 in
  List.map (fun l -> let b = List.init l (fun j -> pat (!g + j)) in g := !g + l; b) lens

let answer_of_string (s : string) : answer =
  let v = int_of_string s in
  if v < 0 then AErr (z_of_int (- v)) else AOk (nat_of_int v)
let string_of_answer = function
  | AErr e -> "-" ^ string_of_z e
  | AOk n -> string_of_int (int_of_nat n)
let string_of_rres = function
  | RErr e -> string_of_z (result_of (RErr e))
  | ROk n -> string_of_int (int_of_nat n)

let kind_letter (is_read : bool) = function
  | KPlain -> if is_read then 'r' else 'w'
  | KVec -> if is_read then 'V' else 'v'
  | KPos -> if is_read then 'P' else 'p'
  | KPosVec -> if is_read then 'Q' else 'q'

let call_text is_read (c : int rwcall) (a : answer) : string =
  let data = List.concat c.riov in
  Printf.sprintf "%c:%d:%d:%s:%d:%s" (kind_letter is_read c.rk) (List.length c.riov)
    (List.length data) (string_of_z c.roff) (if is_read then 0 else fnv data) (string_of_answer a)

let bufs_case (line : string) : string =
  let case, answers =
    match String.index_opt line '|' with
    | Some i -> String.sub line 0 i, String.trim (String.sub line (i + 1) (String.length line - i - 1))
    | None -> line, "" in
  let case = match String.index_opt case ';' with Some i -> String.sub case 0 i | None -> case in
  match split_on ' ' case with
  | mode :: off :: pos0 :: filelen :: rest ->
      let lens = match rest with l :: _ -> parse_lens l | [] -> [] in
      let is_read = mode = "R" in
      let off = z_of_string off and pos0 = int_of_string pos0 and filelen = int_of_string filelen in
      let ans = List.map answer_of_string (split_on ',' answers) in
      let file0 = List.init filelen pat_file in
      let total = List.fold_left (+) 0 lens in
      if lens = [] then
        Printf.sprintf "r=-22 calls= file=%d:%d bufs=%d pos=%d" filelen (fnv file0) (fnv []) pos0
      else if not is_read then begin
        let bufs = mk_bufs lens pat_buf in
        let ((w, log), _) =
          write_all sys_list (nat_of_int (List.length ans)) (nat_of_int iovmax_i) ans bufs off in
        let r = match w with WDone r -> string_of_rres r | WFuel -> "FUEL" in
        let (f', p') = apply_log 0 log file0 (nat_of_int pos0) in
        Printf.sprintf "r=%s calls=%s file=%d:%d bufs=%d pos=%d" r
          (String.concat "," (List.map (fun (c, a) -> call_text false c a) log))
          (List.length f') (fnv f') (fnv (List.init total pat_buf)) (int_of_nat p')
      end else begin
        let bufs = mk_bufs lens pat_fill in
        let a = match ans with a :: _ -> a | [] -> AOk O in
        let ((r, bufs'), p') = fs_read (nat_of_int iovmax_i) bufs off file0 (nat_of_int pos0) a in
        let calls = match fs_read_call (nat_of_int iovmax_i) bufs off with
          | Some c -> call_text true c a | None -> "" in
        Printf.sprintf "r=%s calls=%s file=%d:%d bufs=%d pos=%d" (string_of_rres r) calls
          filelen (fnv file0) (fnv (List.concat bufs')) (int_of_nat p')
      end
  | _ -> "bad case"

(* ---------------- routes ---------------- *)
(* the long-string macros of harness/c11_routes.c (expand) *)
let expand (a : string) : string =
  let b = Buffer.create 256 in
  let n = String.length a in
  let num i = let j = ref i in
    while !j < n && a.[!j] >= '0' && a.[!j] <= '9' do incr j done;
    ((if !j > i then int_of_string (String.sub a i (!j - i)) else 0), !j) in
  let letters k = for i = 0 to k - 1 do Buffer.add_char b (Char.chr (97 + i mod 26)) done in
  let i = ref 0 in
  while !i < n do
    let c = a.[!i] in
    if c = '+' then incr i
    else if c <> '@' then (Buffer.add_char b c; incr i)
    else begin
      let k = a.[!i + 1] in
      let is_hex ch = (ch >= '0' && ch <= '9') || (ch >= 'a' && ch <= 'f') || (ch >= 'A' && ch <= 'F') in
      if k = 'x' then begin
        i := !i + 2;
        while !i + 1 < n && is_hex a.[!i] && is_hex a.[!i + 1] do
          Buffer.add_char b (Char.chr (int_of_string ("0x" ^ String.sub a !i 2))); i := !i + 2
        done
      end else
      let (v, j) = num (!i + 2) in
      i := j;
      (match k with
       | 't' -> for q = 0 to v - 1 do
                  Buffer.add_char b (if q mod 200 = 199 && q <> v - 1 then '/' else Char.chr (97 + q mod 26)) done
       | 'n' -> letters v
       | 'd' ->
           let len = if !i < n && a.[!i] = 'x' then (let (l, j2) = num (!i + 1) in i := j2; l) else 0 in
           for q = 0 to v - 1 do (if q > 0 then Buffer.add_char b '/'); letters len done
       | 'p' ->
           if !i < n && a.[!i] = ':' then incr i;
           let st = !i in
           while !i < n && a.[!i] <> '+' do incr i done;
           let leaf = String.sub a st (!i - st) in
           let fill = ref (v - String.length leaf) in
           if !fill >= 3 && !fill land 1 = 1 then (Buffer.add_string b ".//"; fill := !fill - 3);
           while !fill >= 2 do Buffer.add_string b "./"; fill := !fill - 2 done;
           Buffer.add_string b leaf
       | _ -> ())
    end
  done;
  Buffer.contents b

let shown (s : string) : string =
  let l = String.length s in
  if l > 200 then Printf.sprintf "<%d:%d>" l (fnv (List.init l (fun i -> Char.code s.[i])))
  else begin
    let b = Buffer.create (l + 8) in
    String.iter (fun c ->
      if (c >= 'a' && c <= 'z') || (c >= 'A' && c <= 'Z') || (c >= '0' && c <= '9')
         || c = '.' || c = '_' || c = '/' || c = '-'
      then Buffer.add_char b c else Buffer.add_string b (Printf.sprintf "%%%02X" (Char.code c))) s;
    Buffer.contents b
  end

let path_of (s0 : string) : n list =
  let s = expand s0 in List.init (String.length s) (fun i -> n_of_int (Char.code s.[i]))
let string_of_path (p : n list) : string =
  String.concat "" (List.map (fun c -> String.make 1 (Char.chr (int_of_n c))) p)
let oct s = int_of_string ("0o" ^ s)
let slot s = if s.[0] = 's' then int_of_string (String.sub s 1 (String.length s - 1)) else int_of_string s
let zi = z_of_int

type opinfo = { op : fsop option; kind : fskind; big : bool; lim : int }

let parse_op (toks : string list) : opinfo =
  let a i = try List.nth toks i with _ -> "0" in
  let mk ?(big = false) ?(lim = 0) op kind = { op = Some op; kind; big; lim } in
  match a 0 with
  | "open" -> mk (OOpen (path_of (a 2), zi (int_of_string (a 3)), zi (oct (a 4)))) KPath1
  | "close" -> mk (OClose (zi (slot (a 1)))) KFd
  | "read" ->
      let lens = parse_lens (a 3) in
      mk ~big:(List.length lens > 4)
        (ORead (zi (slot (a 1)), List.map nat_of_int lens, z_of_string (a 2))) KRead
  | "write" ->
      let lens = parse_lens (a 3) in
      mk ~big:(List.length lens > 4)
        (OWrite (zi (slot (a 1)), List.map (fun l -> List.init l (fun _ -> N0)) lens, z_of_string (a 2))) KWrite
  | "stat" -> mk (OStat (path_of (a 1))) KStat
  | "lstat" -> mk (OLstat (path_of (a 1))) KStat
  | "fstat" -> mk (OFstat (zi (slot (a 1)))) KFstat
  | "mkdir" -> mk (OMkdir (path_of (a 1), zi (oct (a 2)))) KPath1
  | "chmod" -> mk (OChmod (path_of (a 1), zi (oct (a 2)))) KPath1
  | "access" -> mk (OAccess (path_of (a 1), zi (int_of_string (a 2)))) KPath1
  | "rmdir" -> mk (ORmdir (path_of (a 1))) KPath1
  | "unlink" -> mk (OUnlink (path_of (a 1))) KPath1
  | "rename" -> mk (ORename (path_of (a 1), path_of (a 2))) KPath2
  | "link" -> mk (OLink (path_of (a 1), path_of (a 2))) KPath2
  | "symlink" -> mk (OSymlink (path_of (a 1), path_of (a 2), Z0)) KPath2
  | "readlink" -> mk (OReadlink (path_of (a 1))) KStr
  | "realpath" -> mk (ORealpath (path_of (a 1))) KStr
  | "statfs" -> mk (OStatfs (path_of (a 1))) KStr
  | "ftruncate" -> mk (OFtruncate (zi (slot (a 1)), z_of_string (a 2))) KFd
  | "fsync" -> mk (OFsync (zi (slot (a 1)))) KFd
  | "fdatasync" -> mk (OFdatasync (zi (slot (a 1)))) KFd
  | "fchmod" -> mk (OFchmod (zi (slot (a 1)), zi (oct (a 2)))) KFd
  | "utime" -> mk (OUtime (path_of (a 1), Z0, Z0)) KPath1
  | "lutime" -> mk (OLutime (path_of (a 1), Z0, Z0)) KPath1
  | "futime" -> mk (OFutime (zi (slot (a 1)), Z0, Z0)) KFd
  | "chown" -> mk (OChown (path_of (a 1), zi (int_of_string (a 2)), zi (int_of_string (a 3)))) KPath1
  | "lchown" -> mk (OLchown (path_of (a 1), zi (int_of_string (a 2)), zi (int_of_string (a 3)))) KPath1
  | "fchown" -> mk (OFchown (zi (slot (a 1)), zi (int_of_string (a 2)), zi (int_of_string (a 3)))) KFd
  | "mkdtemp" -> mk (OMkdtemp (path_of (a 1))) KTemp
  | "mkstemp" -> mk (OMkstemp (path_of (a 2))) KTemp
  | "readdir" -> mk (OOpendir (path_of (a 1))) KOpendir
  | "scandir" -> mk ~lim:(int_of_string (a 2)) (OScandir (path_of (a 1), Z0)) KScandir
  | "copyfile" -> mk (OCopyfile (path_of (a 1), path_of (a 2), zi (int_of_string (a 3)))) KPath2
  | "sendfile" -> mk (OSendfile (zi (slot (a 1)), zi (slot (a 2)), z_of_string (a 3), z_of_string (a 4))) KFd
  | "statx95" -> mk (OStat (path_of (a 1))) KStat
  | "burst" -> { op = None; kind = KPath1; big = false; lim = -1 }
  | "mkdirp" -> { op = None; kind = KPath1; big = false; lim = -2 }
  | "cancel" ->
      let kind, big = match a 1 with
        | "stat" -> KStat, false | "read" -> KRead, true | "write" -> KWrite, true
        | "rename" -> KPath2, false | "scandir" -> KScandir, false | "mkdtemp" -> KTemp, false
        | _ -> KStr, false in
      { op = None; kind; big; lim = 0 }
  | _ -> failwith ("bad op " ^ a 0)

let sqe_text (s : sqe) : string =
  let opc = int_of_z s.s_opcode in
  let fd = if int_of_z s.s_fd = -100 then "-100" else "s" ^ string_of_z s.s_fd in
  let a1 = match s.s_addr with
    | ARIov lens -> Printf.sprintf "I:%d:%d" (List.length lens) (List.fold_left (fun x l -> x + int_of_nat l) 0 lens)
    | AWIov ds -> Printf.sprintf "I:%d:%d" (List.length ds) (List.fold_left (fun x d -> x + List.length d) 0 ds)
    | AStr p -> "S:" ^ shown (string_of_path p)
    | ANull -> "0"
    | AStatxBuf -> "X" in
  let a2 = match s.s_addr2 with
    | AStr p -> "S:" ^ shown (string_of_path p) | AStatxBuf -> "X" | ANull -> "0" | _ -> "?" in
  let off = if List.mem opc [35; 38; 39; 21] then "0" else string_of_z s.s_off in
  Printf.sprintf "%d,%s,%s,%s,%s,%s,%s" opc fd off a1 a2 (string_of_z s.s_len) (string_of_z s.s_flags)

type rt = Sync | Pool | Ring | Cancel

let h_empty = { live = []; bad_free = false }
let count h = int_of_nat (uv_live h)

let tuple ?(uns = false) (kind : fskind) (r : rt) ~(big : bool) ~(early : bool) ~(ok : bool) ~(n : int) ~(lim : int) : string =
  let h0 = match kind with KReaddir | KClosedir -> alloc BkDir h_empty | _ -> h_empty in
  let c0 = count h0 in
  let cb = r <> Sync in
  (* the count only matters for the entry lists of scandir/readdir *)
  let nn = nat_of_int (if kind = KScandir || kind = KReaddir then n else 0) in
  let (hs, (q2, h2)) =
    if early then (h0, (req_early kind cb, h0))
    else begin
      let (q1, h1) = req_init kind cb big h0 in
      match r with
      | Sync -> let (q, h) = work_effect q1 ok nn h1 in (h, (q, h))
      | Pool -> (h1, work_effect q1 ok nn h1)
      | Ring -> let (qs, hs) = ring_submit q1 h1 in (hs, ring_finish qs ok uns nn hs)
      | Cancel -> (h1, (q1, h1))
    end in
  let k = if ok && kind = KScandir then (if lim = 0 || lim > n then n + 1 else lim) else 0 in
  let (q3, h3) = iter_next (nat_of_int k) q2 h2 in
  let (q4, h4) = req_cleanup q3 h3 in
  let (_, h5) = req_cleanup q4 h4 in
  (* on the pool route the worker may or may not have run when uv_fs_* returns: the
     first figure is not compared there *)
  Printf.sprintf "%s,%d,%d,%d%s" (if r = Pool then "*" else string_of_int (count hs - c0))
    (count h2 - c0) (count h4 - c0) (count h5 - c0)
    (if h5.bad_free then ",BADFREE" else "")

let okn (res : string) : bool * int =
  if res = "fd" then (true, 0)
  else match int_of_string_opt res with
    | Some v when v >= 0 -> (true, v)
    | _ -> (false, 0)

let routes_case (line : string) : string =
  match String.index_opt line ';' with
  | None -> "bad case"
  | Some i ->
    let hd = split_on ' ' (String.sub line 0 i) in
    let kv = z_of_string (List.nth hd 0) and ring_ok = List.nth hd 1 = "1" in
    let body = String.sub line (i + 1) (String.length line - i - 1) in
    let ops = List.filter (fun s -> String.trim s <> "") (String.split_on_char '|' body) in
    let buf = Buffer.create 1024 in
    List.iteri (fun idx o ->
      let optxt, restxt = match String.index_opt o '#' with
        | Some j -> String.sub o 0 j, String.sub o (j + 1) (String.length o - j - 1)
        | None -> o, "" in
      let toks = split_on ' ' optxt in
      let info = parse_op toks in
      let res = Array.of_list (split_on ' ' restxt) in
      let r i = if i < Array.length res then res.(i) else "-" in
      let name = List.hd toks in
      Buffer.add_string buf (Printf.sprintf "%d:%s" idx name);
      (match info.op with
       | None when info.lim = -2 ->
           Buffer.add_string buf " via=- sqe=- mS=- mP=- mR=-"
       | None when info.lim = -1 ->
           (* a burst: how many requests find room in the ring depends on the kernel thread *)
           Buffer.add_string buf " via=b sqe=- mS=- mP=- mR=-"
       | None ->
           Buffer.add_string buf (Printf.sprintf " via=- sqe=- mS=- mP=%s mR=-"
             (tuple info.kind Cancel ~big:info.big ~early:false ~ok:false ~n:0 ~lim:0))
       | Some op ->
         if name = "statx95" then begin
           (* ring statx whose completion carries -EOPNOTSUPP: re-posted to the pool *)
           let ring = takes_ring ring_ok kv op in
           let sq = if ring then (match sqe_of kv op with Some s -> sqe_text s | None -> "-") else "-" in
           let (ok, n) = okn (r 2) in
           Buffer.add_string buf (Printf.sprintf " via=%s sqe=%s mS=- mP=- mR=%s"
             (if ring then "r" else "-") sq
             (if ring then tuple ~uns:true info.kind Ring ~big:false ~early:false ~ok ~n ~lim:0 else "-"))
         end else if r 0 = "alias" then
           Buffer.add_string buf " via=- sqe=- mS=- mP=- mR=-"
         else if name = "readdir" then begin
           (* opendir / readdir / closedir, each "a/b/c" in the result columns *)
           let part col k = match String.split_on_char '/' (r col) with
             | l when List.length l > k -> Some (List.nth l k) | _ -> None in
           let steps = [KOpendir; KReaddir; KClosedir] in
           let col_of rt = match rt with Sync -> 0 | Pool -> 1 | _ -> 2 in
           let m rt = String.concat "/" (List.filter_map (fun (k, kind) ->
             match part (col_of rt) k with
             | None -> None
             | Some res -> let (ok, n) = okn res in
                 Some (tuple kind rt ~big:false ~early:false ~ok ~n ~lim:0))
             (List.mapi (fun k kind -> (k, kind)) steps)) in
           Buffer.add_string buf (Printf.sprintf " via=p sqe=- mS=%s mP=%s mR=%s" (m Sync) (m Pool) (m Pool))
         end else begin
           let early = api_check op <> None in
           let ring = (not early) && takes_ring ring_ok kv op in
           let sq = if ring then (match sqe_of kv op with Some s -> sqe_text s | None -> "-") else "-" in
           let m rt col = let (ok, n) = okn (r col) in
             tuple info.kind rt ~big:info.big ~early ~ok ~n ~lim:info.lim in
           Buffer.add_string buf (Printf.sprintf " via=%s sqe=%s mS=%s mP=%s mR=%s"
             (if early then "-" else if ring then "r" else "p") sq
             (m Sync 0) (m Pool 1) (m (if ring then Ring else Pool) 2));
           (* readlink <path> <pathconf answer>: the buffer size offered to readlink(2) *)
           if name = "readlink" && List.length toks >= 3 then
             Buffer.add_string buf (" bs=" ^ string_of_z (pathmax_size (z_of_string (List.nth toks 2))))
         end);
      Buffer.add_string buf " ; ") ops;
    Buffer.contents buf

(* ---------------- pool size ---------------- *)
let pool_case (line : string) : string =
  match split_on ' ' line with
  | value :: _ ->
      let v =
        if value = "unset" then None
        else begin
          let hex = String.sub value 1 (String.length value - 1) in
          Some (List.init (String.length hex / 2)
                  (fun i -> n_of_int (int_of_string ("0x" ^ String.sub hex (2 * i) 2))))
        end in
      "n=" ^ string_of_z (pool_size v)
  | [] -> "bad case"

(* ---------------- submission ring ---------------- *)
let sqring_case (line : string) : string =
  match String.index_opt line ';' with
  | None -> "bad case"
  | Some i ->
    (match split_on ' ' (String.sub line 0 i) with
     | [h; t] ->
       let ops = List.map (fun tok ->
           if tok = "s" then SqSubmit
           else SqConsume (z_of_string (String.sub tok 1 (String.length tok - 1))))
           (split_on ' ' (String.sub line (i + 1) (String.length line - i - 1))) in
       let (gs, r) = sq_run (z_of_int 63) ops { sq_head = z_of_string h; sq_tail = z_of_string t } in
       String.concat "" (List.map (function Some s -> "g" ^ string_of_z s ^ " " | None -> "f ") gs)
       ^ Printf.sprintf "h=%s t=%s" (string_of_z r.sq_head) (string_of_z r.sq_tail)
     | _ -> "bad case")

(* ---------------- scandir filter ---------------- *)
let filter_case (line : string) : string =
  let hex = String.trim line in
  let name = if hex = "-" then [] else
      List.init (String.length hex / 2) (fun i -> n_of_int (int_of_string ("0x" ^ String.sub hex (2 * i) 2))) in
  if scandir_keeps name then "1" else "0"

let () =
  let f = match Sys.argv.(1) with
    | "bufs" -> bufs_case | "routes" -> routes_case | "pool" -> pool_case | "sqring" -> sqring_case | "filter" -> filter_case
    | _ -> failwith "mode" in
  iter_lines (fun l -> print_string (try f l with e -> "model-error " ^ Printexc.to_string e); print_newline ())
