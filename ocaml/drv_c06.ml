(* Driver for the C06 model (Model/StreamRead.v).
   case:   <pipe> <ipc> ; ops ; beh0 | beh1 | ... ; allocs ; oracle   (pipe: uv_pipe_t, else tcp)
   ops:    S<tok> (uv_read_start)  T (uv_read_stop)  C (uv_close)  R<raw>,<wout> (one
           uv_run(UV_RUN_NOWAIT) during which epoll reported <raw> for the descriptor while
           POLLOUT was <wout> = 0/1 requested)  I<ev> (uv__stream_io entered with <ev>)
           X (a uv_write from our side, any outcome)
   beh:    what the k-th read callback does: S<tok> T C
   allocs: what the k-th alloc callback returns, cyclically: <len> | n<len> (base NULL) | k (buf left untouched)
   oracle: answers of read/recvmsg in order: d<n> a z e<errno> i
   prints the canonical trace (see harness/c06_read.c). *)
let parse_cop (tok : string) : cop =
  match tok.[0] with
  | 'S' -> CStart (nat_of_int (int_of_string (String.sub tok 1 (String.length tok - 1))))
  | 'T' -> CStop
  | 'C' -> CClose
  | _ -> failwith ("bad callback op " ^ tok)

let parse_op (tok : string) : op =
  let arg = String.sub tok 1 (String.length tok - 1) in
  match tok.[0] with
  | 'S' -> OStart (nat_of_int (int_of_string arg))
  | 'T' -> OStop
  | 'C' -> OClose
  | 'R' -> (match String.split_on_char ',' arg with
            | [raw; w] -> ORun (z_of_string raw, w = "1")
            | [raw] -> ORun (z_of_string raw, false)
            | _ -> failwith ("bad op " ^ tok))
  | 'I' -> OIo (z_of_string arg)
  | 'X' -> OWrite
  | _ -> failwith ("bad op " ^ tok)

let parse_ans (tok : string) : ans =
  let arg = String.sub tok 1 (String.length tok - 1) in
  match tok.[0] with
  | 'd' -> Data (z_of_string arg)
  | 'a' -> Again
  | 'z' -> Eof
  | 'i' -> Intr
  | 'e' -> Err (pos_of_bz (BZ.of_string arg))
  | _ -> failwith ("bad answer " ^ tok)

let parse_alloc (tok : string) : abuf =
  if tok = "k" then { b_base = false; b_len = z_of_int 0 } else   (* untouched buf = what libuv zeroed *)
  if tok.[0] = 'n' then { b_base = false; b_len = z_of_string (String.sub tok 1 (String.length tok - 1)) }
  else { b_base = true; b_len = z_of_string tok }

let ans_str (a : ans) : string =
  match a with
  | Intr -> "i" | Again -> "a" | Eof -> "z"
  | Err e -> "e" ^ BZ.to_string (bz_of_pos e)
  | Data n -> "d" ^ string_of_z n

let case (line : string) : string =
  match String.split_on_char ';' line with
  | [hd; ops; behs; als; orc] ->
      let (pipe, is_ipc) = match split_on ' ' hd with
        | [p; i] -> (p = "1", i = "1")
        | _ -> failwith "bad header" in
      let ops = List.map parse_op (split_on ' ' ops) in
      let beha = Array.of_list (List.map (fun b -> List.map parse_cop (split_on ' ' b))
                                  (String.split_on_char '|' behs)) in
      let behf k = let k = int_of_nat k in if k < Array.length beha then beha.(k) else [] in
      let ala = Array.of_list (List.map parse_alloc (split_on ' ' als)) in
      let alf k = if Array.length ala = 0 then { b_base = true; b_len = z_of_int 65536 }
                  else ala.(int_of_nat k mod Array.length ala) in
      let o = List.map parse_ans (split_on ' ' orc) in
      let (_, evs) = exec { allocs = alf; beh = behf } (init pipe is_ipc o) ops in
      let buf = Buffer.create 1024 in
      let add = Buffer.add_string buf in
      let b01 b = if b then "1" else "0" in
      List.iter (fun e ->
        match e with
        | EPoll raw -> add (Printf.sprintf "P%s " (string_of_z raw))
        | EAlloc (id, sug, b) ->
            add (Printf.sprintf "A%d,%s,%s,%s " (int_of_nat id) (string_of_z sug) (b01 b.b_base) (string_of_z b.b_len))
        | ESys (len, a, off) -> add (Printf.sprintf "k%s:%s@%s " (string_of_z len) (ans_str a) (string_of_z off))
        | ERead (tok, nread, b, off, len) ->
            add (Printf.sprintf "r%d:%s:%s:%s,%s " (int_of_nat tok) (string_of_z nread)
                   (match b with Some i -> string_of_int (int_of_nat i) | None -> "-")
                   (string_of_z off) (string_of_z len))
        | ERet (w, c) ->
            add (Printf.sprintf "%s%s " (match int_of_nat w with 0 -> "s" | 1 -> "t" | _ -> "c") (string_of_z c))
        | ECloseCb -> add "x "
        | EFlags (r, a, c) -> add (Printf.sprintf "f%s%s%s " (b01 r) (b01 a) (b01 c))
        | ECrash -> add "! ") evs;
      Buffer.contents buf
  | _ -> failwith "bad case"

(* mode "mon": a trace in the canonical format (the implementation's own, harness-only
   upper-case tokens W G H Q U K M B V Y O D Z E N J skipped) is parsed back into events and judged by the
   extracted checker Spec/StreamReadSpec.v [monitor]; prints four 0/1 digits:
   exact stream, alloc paired, silent until restart, no NULL call *)
let parse_event (tok : string) : event option =
  let arg = String.sub tok 1 (String.length tok - 1) in
  let nat_ s = nat_of_int (int_of_string s) in
  match tok.[0] with
  | 'W' | 'G' | 'H' | 'Q' | 'U' | 'K' | 'M' | 'B' | 'V' | 'Y' | 'O' | 'D' | 'Z' | 'E' | 'N' | 'J' -> None
  | 'P' -> Some (EPoll (z_of_string arg))
  | 'A' ->
      let arg = if String.length arg > 0 && arg.[0] = '!' then String.sub arg 2 (String.length arg - 2) else arg in
      if arg = "?" then Some (EAlloc (nat_of_int 60001, z_of_int 0, { b_base = true; b_len = z_of_int 1 }))
      else (match String.split_on_char ',' arg with
            | [id; sug; base; len] ->
                Some (EAlloc (nat_ id, z_of_string sug, { b_base = (base = "1"); b_len = z_of_string len }))
            | _ -> failwith ("bad alloc token " ^ tok))
  | 'k' ->
      (match String.split_on_char ':' arg with
       | [len; rest] ->
           (match String.split_on_char '@' rest with
            | [a; off] -> Some (ESys (z_of_string len, parse_ans a, z_of_string off))
            | _ -> failwith ("bad syscall token " ^ tok))
       | _ -> failwith ("bad syscall token " ^ tok))
  | 'r' ->
      (match String.split_on_char ':' arg with
       | [t; nread; b; ch] ->
           let bufo = if b = "-" then None else if b = "?" then Some (nat_of_int 60002) else Some (nat_ b) in
           (match String.split_on_char ',' ch with
            | [off; len] -> Some (ERead (nat_ t, z_of_string nread, bufo, z_of_string off, z_of_string len))
            | _ -> failwith ("bad read token " ^ tok))
       | _ -> failwith ("bad read token " ^ tok))
  | 's' -> Some (ERet (nat_of_int 0, z_of_string arg))
  | 't' -> Some (ERet (nat_of_int 1, z_of_string arg))
  | 'c' -> Some (ERet (nat_of_int 2, z_of_string arg))
  | 'x' -> Some ECloseCb
  | 'f' -> Some (EFlags (arg.[0] = '1', arg.[1] = '1', arg.[2] = '1'))
  | '!' -> Some ECrash
  | _ -> failwith ("bad trace token " ^ tok)

let mon (line : string) : string =
  let tr = List.filter_map parse_event (split_on ' ' line) in
  let (((e, p), s), c) = monitor tr in
  let d b = if b then "1" else "0" in
  d e ^ d p ^ d s ^ d c

let () =
  let f = if Array.length Sys.argv > 1 && Sys.argv.(1) = "mon" then mon else case in
  iter_lines (fun l -> print_string (try f l with Failure m -> "MODEL-ERROR " ^ m | Not_found -> "MODEL-ERROR parse"
                                                | Invalid_argument m -> "MODEL-ERROR " ^ m); print_newline ())
