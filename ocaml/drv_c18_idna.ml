(* Driver for the idna.c part of C18 (Model/Idna.v, Model/Wtf8.v).
   usage: modelrun_c18_idna u8|u8blk|idna|idnablk|w16|w8 < cases > results
   Line formats: see harness/c18_idna.c (the two print the same text). *)

let rec pos_of_int (i : int) : positive =
  if i = 1 then XH
  else if i land 1 = 1 then XI (pos_of_int (i lsr 1)) else XO (pos_of_int (i lsr 1))
let nn (i : int) : n = if i = 0 then N0 else Npos (pos_of_int i)
let rec int_of_pos = function XH -> 1 | XO p -> 2 * int_of_pos p | XI p -> 2 * int_of_pos p + 1
let ni (v : n) : int = match v with N0 -> 0 | Npos p -> int_of_pos p
let zi (v : z) : int = match v with Z0 -> 0 | Zpos p -> int_of_pos p | Zneg p -> - (int_of_pos p)
let zz (i : int) : z = if i = 0 then Z0 else if i > 0 then Zpos (pos_of_int i) else Zneg (pos_of_int (-i))

let byte_n = Array.init 256 nn

let hexval c = match c with
  | '0'..'9' -> Char.code c - 48 | 'a'..'f' -> Char.code c - 87 | 'A'..'F' -> Char.code c - 55
  | _ -> -1

let parse_hex (s : string) : int list =
  if s = "" || s.[0] = '-' then [] else begin
    let n = String.length s / 2 in
    List.init n (fun i -> hexval s.[2 * i] * 16 + hexval s.[2 * i + 1])
  end

let parse_units (s : string) : int list =
  if s = "" || s.[0] = '-' then [] else begin
    let n = String.length s / 4 in
    List.init n (fun i ->
      (hexval s.[4 * i] lsl 12) lor (hexval s.[4 * i + 1] lsl 8)
      lor (hexval s.[4 * i + 2] lsl 4) lor hexval s.[4 * i + 3])
  end

let bytes_n (l : int list) : n list = List.map (fun b -> byte_n.(b)) l

let h1 = ref 0 and h2 = ref 0
let hreset () = h1 := 0; h2 := 0
let hadd x =
  h1 := (!h1 * 31 + x + 1) mod 1000000007;
  h2 := (!h2 * 131 + x + 7) mod 998244353

let hex_of (l : int list) : string =
  if l = [] then "-" else String.concat "" (List.map (Printf.sprintf "%02x") l)
let hex4_of (l : int list) : string =
  if l = [] then "-" else String.concat "" (List.map (Printf.sprintf "%04x") l)

(* ---- UTF-8 ---- *)
let u8 (bytes : int list) : int * int =
  let (code, rest) = utf8_decode1 (bytes_n bytes) in
  (ni code, List.length bytes - List.length rest)

let mode_u8 line =
  let (c, u) = u8 (parse_hex line) in Printf.sprintf "%d %d" c u

let mode_u8blk line =
  match split_on ' ' line with
  | [pre; k; alpha] ->
      let pre = parse_hex pre and k = int_of_string k in
      let a = Array.of_list (if alpha = "*" then List.init 256 (fun i -> i) else parse_hex alpha) in
      let na = Array.length a in
      let idx = Array.make (max k 1) 0 in
      let nacc = ref 0 in
      hreset ();
      let continue = ref true in
      while !continue do
        let suffix = List.init k (fun i -> a.(idx.(i))) in
        let (c, u) = u8 (pre @ suffix) in
        hadd c; hadd u;
        if c <> 4294967295 then incr nacc;
        let i = ref (k - 1) in
        let carry = ref true in
        while !carry && !i >= 0 do
          idx.(!i) <- idx.(!i) + 1;
          if idx.(!i) < na then carry := false else (idx.(!i) <- 0; decr i)
        done;
        if !carry then continue := false
      done;
      Printf.sprintf "%d %d %d" !h1 !h2 !nacc
  | _ -> "bad"

(* ---- IDNA ---- *)
let fill = 0xAA

let run_idna (bytes : int list) (cap : int) : int * int list =
  let (rc, w) = idna_toascii (bytes_n bytes) (nn cap) in
  let buf = Array.make cap fill in
  let (_, log) = w in
  (* stores, latest first: replay oldest first *)
  List.iter (fun (i, c) -> let i = ni i in if i < cap then buf.(i) <- ni c else failwith "store past de")
    (List.rev log);
  let m = ref cap in
  while !m > 0 && buf.(!m - 1) = fill do decr m done;
  (zi rc, Array.to_list (Array.sub buf 0 !m))

let mode_idna line =
  match String.index_opt line ' ' with
  | Some i ->
      let cap = int_of_string (String.sub line 0 i) in
      let hex = String.trim (String.sub line i (String.length line - i)) in
      let (rc, d) = run_idna (parse_hex hex) cap in
      Printf.sprintf "%d %s g0" rc (hex_of d)
  | None -> "bad"

let utf8_enc cp =
  if cp < 0x80 then [cp]
  else if cp < 0x800 then [0xC0 lor (cp lsr 6); 0x80 lor (cp land 63)]
  else if cp < 0x10000 then [0xE0 lor (cp lsr 12); 0x80 lor ((cp lsr 6) land 63); 0x80 lor (cp land 63)]
  else [0xF0 lor (cp lsr 18); 0x80 lor ((cp lsr 12) land 63); 0x80 lor ((cp lsr 6) land 63); 0x80 lor (cp land 63)]

let mode_idnablk line =
  match split_on ' ' line with
  | [lo; hi; cap; pre; suf] ->
      let lo = int_of_string lo and hi = int_of_string hi and cap = int_of_string cap in
      let pre = parse_hex pre and suf = parse_hex suf in
      let nok = ref 0 in
      hreset ();
      for cp = lo to hi - 1 do
        if not (cp >= 0xD800 && cp <= 0xDFFF) then begin
          let (rc, d) = run_idna (pre @ utf8_enc cp @ suf) cap in
          hadd (rc + 1000);
          List.iter hadd d;
          hadd 256;
          if rc >= 0 then incr nok
        end
      done;
      Printf.sprintf "%d %d %d" !h1 !h2 !nok
  | _ -> "bad"

(* ---- UTF-16 / WTF-8 ---- *)
let back_of (t : int list) : string =
  (* t: bytes stored by the allocation route, NUL included; C-string semantics *)
  let rec upto0 = function [] -> [] | 0 :: _ -> [] | x :: r -> x :: upto0 r in
  let s = bytes_n (upto0 t) in
  match wtf8_length_as_utf16 s with
  | None -> "-1,-,g0"
  | Some wl ->
      let (units, _) = wtf8_to_utf16 s in
      Printf.sprintf "%d,%s,g0" (ni wl) (hex4_of (List.map ni units))

let mode_w16 line =
  match split_on ' ' line with
  | [mode; cap; units] ->
      let cap = int_of_string cap in
      let us = parse_units units in
      let w = List.map nn us in
      let len = if mode = "Z" then zz (-1) else zz (List.length us) in
      let l = ni (utf16_length_as_wtf8 w len) in
      let ((rc_a, out_a), tl_a) = utf16_to_wtf8 w len (TAlloc true) in
      let out_a = List.map ni out_a in
      let ((rc_b, out_b), tl_b) = utf16_to_wtf8 w len (TBuf (nn cap)) in
      let buf = Array.make (cap + 1) fill in
      List.iteri (fun i c -> if i <= cap then buf.(i) <- ni c else failwith "store past buffer") out_b;
      let ((rc_n, _), tl_n) = utf16_to_wtf8 w len TNull in
      Printf.sprintf "len=%d alloc=%d,%d,%s buf=%d,%d,%s,g0 null=%d,%d back=%s"
        l (zi rc_a) (ni tl_a) (if zi rc_a = 0 then hex_of out_a else "-")
        (zi rc_b) (ni tl_b) (hex_of (Array.to_list buf))
        (zi rc_n) (ni tl_n) (back_of out_a)
  | _ -> "bad"

let mode_w8 line =
  let s = bytes_n (parse_hex line) in
  match wtf8_length_as_utf16 s with
  | None -> "-1 - g0"
  | Some wl ->
      let (units, _) = wtf8_to_utf16 s in
      Printf.sprintf "%d %s g0" (ni wl) (hex4_of (List.map ni units))

(* does an assert of uv_wtf8_to_utf16 fail on this (accepted) input? *)
let mode_w8assert line =
  let s = bytes_n (parse_hex line) in
  let (_, ok) = wtf8_to_utf16 s in
  if ok then "ok" else "assert"

let () =
  let f = match Sys.argv.(1) with
    | "u8" -> mode_u8 | "u8blk" -> mode_u8blk | "idna" -> mode_idna | "idnablk" -> mode_idnablk
    | "w16" -> mode_w16 | "w8" -> mode_w8 | "w8assert" -> mode_w8assert
    | _ -> failwith "mode" in
  iter_lines (fun l -> print_string (f l); print_newline ())
