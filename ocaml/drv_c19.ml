(* Driver for the C19 getter models.
   stdin:  <getter> <arg> ... | <cap> <cap> ...
           args: x<hex> = a byte string, - = absent, 0/1 = flag
   stdout: one line per case, one token per cap:
           cap:rc:size:bufhex[>rc2:size2:bufhex2]
           (the part after > is the retry with cap := size after UV_ENOBUFS, for
           getters that have a size out-parameter).  The buffer handed to the
           model is the canary pattern 0x80|(i&0x7f), four bytes longer than cap;
           a change in those four bytes is printed as a trailing '!'.
           uv_cwd: only buf[0..size] on success, '-' otherwise (getcwd may leave
           unspecified bytes elsewhere). *)
let ntab = Array.init 256 (fun i -> n_of_int i)
let hexv c = match c with
  | '0'..'9' -> Char.code c - 48
  | 'a'..'f' -> Char.code c - 87
  | 'A'..'F' -> Char.code c - 55
  | _ -> failwith "hex"
let bytes_of_arg (s : string) : n list =
  if String.length s = 0 || s.[0] <> 'x' then failwith ("bad byte string " ^ s);
  let n = (String.length s - 1) / 2 in
  List.init n (fun i -> ntab.(hexv s.[1 + 2 * i] * 16 + hexv s.[2 + 2 * i]))
let opt_of_arg s = if s = "-" then None else Some (bytes_of_arg s)
let hexdigits = "0123456789abcdef"
let hex_of (l : n list) (count : int) : string =
  let b = Buffer.create (2 * count + 2) in
  let rec go l k = if k > 0 then match l with
    | [] -> ()
    | x :: r -> let v = int_of_n x in
                Buffer.add_char b hexdigits.[(v lsr 4) land 15];
                Buffer.add_char b hexdigits.[v land 15];
                go r (k - 1) in
  go l count; Buffer.contents b
let canary len = List.init len (fun i -> ntab.(0x80 lor (i land 0x7f)))
let rec drop k l = if k <= 0 then l else match l with [] -> [] | _ :: r -> drop (k - 1) r

let enobufs = -105

let () =
  iter_lines (fun line ->
    match String.split_on_char '|' line with
    | [lhs; rhs] ->
      let args = split_on ' ' lhs in
      let caps = List.map int_of_string (split_on ' ' rhs) in
      let name = List.hd args and a = Array.of_list (List.tl args) in
      let has_size = not (List.mem name ["title"; "thread"; "errname"; "strerror"]) in
      let f : nat -> n list -> (z * nat) * n list =
        match name with
        | "getenv" -> let v = bytes_of_arg a.(0) in uv_os_getenv v
        | "homedir" -> let h = opt_of_arg a.(0) and pw = bytes_of_arg a.(1) in uv_os_homedir h pw
        | "tmpdir" -> let l = List.map opt_of_arg [a.(0); a.(1); a.(2); a.(3)] in uv_os_tmpdir l
        | "hostname" -> let v = bytes_of_arg a.(0) in uv_os_gethostname v
        | "cwd" -> let v = bytes_of_arg a.(0) in uv_cwd v []
        | "fsevent" -> let v = bytes_of_arg a.(1) in uv_fs_event_getpath (a.(0) = "1") v
        | "fspoll" -> let v = bytes_of_arg a.(1) in uv_fs_poll_getpath (a.(0) = "1") v
        | "ifname" -> let v = bytes_of_arg a.(0) in uv_if_indextoname v
        | "sockname" | "peername" -> let v = bytes_of_arg a.(0) in uv_pipe_getname v
        | "exepath" -> let v = bytes_of_arg a.(0) in uv_exepath v
        | "title" -> let v = bytes_of_arg a.(0) in uv_get_process_title v
        | "thread" -> let v = bytes_of_arg a.(0) in uv_thread_getname v
        | "errname" -> let v = bytes_of_arg a.(1) in uv_err_name_r (a.(0) = "1") v
        | "strerror" -> let v = bytes_of_arg a.(0) in uv_strerror_r v
        | _ -> failwith ("unknown getter " ^ name) in
      let one cap =
        let buf = canary (cap + 4) in
        let ((rc, size), b') = f (nat_of_int cap) buf in
        let rc = int_of_z rc and size = int_of_nat size in
        let shown =
          if name = "cwd" then (if rc = 0 then hex_of b' (size + 1) else "-")
          else hex_of b' cap in
        let tail = if drop cap b' = drop cap buf then "" else "!" in
        Printf.sprintf "%d:%d:%s%s" rc size shown tail in
      let out = Buffer.create 1024 in
      List.iter (fun cap ->
        let ((rc, size), _) = f (nat_of_int cap) (canary (cap + 4)) in
        Buffer.add_string out (Printf.sprintf "%d:%s" cap (one cap));
        if has_size && int_of_z rc = enobufs then begin
          let cap2 = int_of_nat size in
          Buffer.add_char out '>';
          Buffer.add_string out (one cap2)
        end;
        Buffer.add_char out ' ') caps;
      print_string (Buffer.contents out); print_newline ()
    | _ -> failwith ("bad case line: " ^ line))
