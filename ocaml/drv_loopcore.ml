(* Driver for Model/LoopCore.v.  usage: modelrun_loopcore < cases > results *)
let kind_of = function
  | 't' -> KTimer | 'i' -> KIdle | 'p' -> KPrepare | 'c' -> KCheck | 'a' -> KAsync
  | _ -> failwith "kind"

let parse_op (tok : string) : lop =
  let arg = String.sub tok 1 (String.length tok - 1) in
  let parts = String.split_on_char ',' arg in
  let nat_ s = nat_of_int (int_of_string s) in
  let b_ s = int_of_string s <> 0 in
  match tok.[0], parts with
  | 'I', [k; c] -> LInit (kind_of k.[0], b_ c)
  | 'S', [i; cb; t; r] ->
      let c = int_of_string cb in
      LTStart (nat_ i, (if c = 0 then None else Some (nat_of_int c)), z_of_string t, z_of_string r)
  | 'G', [i] -> LTAgain (nat_ i)
  | 'P', [i; r] -> LTSetRepeat (nat_ i, z_of_string r)
  | 'W', [i; c] -> LStart (nat_ i, b_ c)
  | 'T', [i] -> LStop (nat_ i)
  | 'F', [i] -> LRef (nat_ i)
  | 'U', [i] -> LUnref (nat_ i)
  | 'C', [i] -> LClose (nat_ i)
  | 'E', [i] -> LSend (nat_ i)
  | 'Q', [a] -> LWork (b_ a)
  | 'X', _ -> LStopLoop
  | 'A', [d] -> LAdv (z_of_string d)
  | 'V', _ -> LAdv (z_of_string "0")   (* uv_update_time() issued only when loop time is current: no effect *)
  | 'L', _ -> LAlive
  | 'O', _ -> LObs
  | 'B', _ -> LBackendTimeout
  | 'R', [m] -> LRun (nat_ m)
  | 'Z', _ -> LLoopClose
  | _ -> failwith ("bad op " ^ tok)

let bit b = if b then "1" else "0"

let case (line : string) : string =
  match String.split_on_char ';' line with
  | [hd; ops; behs] ->
      let (t0, m) = match split_on ' ' hd with
        | [a; b] -> (z_of_string a, int_of_string b <> 0)
        | _ -> failwith "head" in
      let ops = List.map parse_op (split_on ' ' ops) in
      let beha = Array.of_list (List.map (fun b -> List.map parse_op (split_on ' ' b))
                                  (String.split_on_char '|' behs)) in
      let beh k = let k = int_of_nat k in if k < Array.length beha then beha.(k) else [] in
      let (_, evs) = lrun (linit t0 m) ops beh in
      let buf = Buffer.create 512 in
      let closed = ref false in
      List.iter (fun e ->
        if not !closed then begin
        (match e with
         | VRet c -> Buffer.add_string buf ("r" ^ string_of_z c)
         | VCb (tag, i, nw) ->
             Buffer.add_string buf (Printf.sprintf "c%d,%d,%s" (int_of_nat tag) (int_of_nat i) (string_of_z nw))
         | VPoll (t, i, c, st, a) -> Buffer.add_string buf ("w" ^ string_of_z t ^ ":" ^ bit i ^ bit c ^ bit st ^ bit a)
         | VHang -> Buffer.add_string buf "H"
         | VAlive b -> Buffer.add_string buf ("l" ^ bit b)
         | VObs (a, r, fl) ->
             Buffer.add_string buf (Printf.sprintf "o%s,%s," (string_of_z a) (string_of_z r));
             List.iter (fun (((x, y), z), w) -> Buffer.add_string buf (bit x ^ bit y ^ bit z ^ bit w ^ ",")) fl
         | VBt t -> Buffer.add_string buf ("b" ^ string_of_z t)
         | VRunStart (m, a) -> Buffer.add_string buf (Printf.sprintf "g%d,%s" (int_of_nat m) (bit a))
         | VStopReq -> Buffer.add_string buf "x"
         | VRun r -> Buffer.add_string buf ("u" ^ bit r)
         | VLoopClose c ->
             Buffer.add_string buf ("z" ^ string_of_z c);
             if string_of_z c = "0" then closed := true);
        Buffer.add_char buf ' ' end) evs;
      Buffer.contents buf
  | _ -> failwith "bad case"

let () = iter_lines (fun l -> print_string (case l); print_newline ())
