"""Shared machinery of the /verif checks (python3 stdlib only).

  * rebuilds libuv from /repo's working tree into a scratch directory
  * compiles C harnesses against it (optionally with --wrap'ed symbols)
  * re-checks the Coq property files and collects the proof obligations
  * runs harness and extracted model on the same cases and diffs them
  * known findings, replay files, evidence files, VIOLATION lines
"""
import argparse, concurrent.futures, hashlib, json, os, random, re, shutil
import subprocess, sys, tempfile, time

import signal as _signal

# Signal dispositions and the signal mask are inherited from whoever runs the check (nohup ignores
# SIGHUP, a supervisor may block or ignore others); the harnesses observe dispositions (C13), reap
# children (C12) and deliver signals to threads (C09), so every check starts from the defaults.
for _s in (_signal.SIGHUP, _signal.SIGUSR1, _signal.SIGUSR2, _signal.SIGWINCH, _signal.SIGCHLD,
           _signal.SIGALRM, _signal.SIGCONT, _signal.SIGTSTP, _signal.SIGTTIN, _signal.SIGTTOU):
    try:
        _signal.signal(_s, _signal.SIG_DFL)
    except (OSError, ValueError):
        pass
try:
    _signal.pthread_sigmask(_signal.SIG_SETMASK, [])
except (OSError, ValueError):
    pass

VERIF = os.path.dirname(os.path.dirname(os.path.abspath(__file__)))
REPO = os.environ.get("VERIF_REPO", "/repo")   # VERIF_REPO: test a scratch worktree instead
COQ = os.path.join(VERIF, "coq")
BUILD = os.path.join(VERIF, "build")
GUARD = "UV_VERIF"
JOBS = int(os.environ.get("VERIF_JOBS", "16"))

BASE_CFLAGS = ["-std=gnu11", "-g", "-D_GNU_SOURCE", "-D_POSIX_C_SOURCE=200112",
               "-D_FILE_OFFSET_BITS=64", "-D_LARGEFILE_SOURCE", "-fno-strict-aliasing",
               "-D" + GUARD, "-I" + REPO + "/include", "-I" + REPO + "/src", "-w"]
FLAVOURS = {
    "ndebug": ["-O1", "-DNDEBUG"],
    "debug": ["-O1"],
    "asan": ["-O1", "-fsanitize=address,undefined", "-fno-sanitize-recover=undefined",
             "-fno-omit-frame-pointer"],
}


def sh(cmd, **kw):
    kw.setdefault("stdout", subprocess.PIPE)
    kw.setdefault("stderr", subprocess.STDOUT)
    kw.setdefault("text", True)
    return subprocess.run(cmd, **kw)


# --------------------------------------------------------------------------
# libuv sources / build
# --------------------------------------------------------------------------
def uv_sources():
    """The translation units CMake builds on Linux, read from CMakeLists.txt."""
    txt = open(os.path.join(REPO, "CMakeLists.txt")).read()
    srcs = []

    def block(pattern):
        m = re.search(pattern, txt, re.S)
        if m:
            srcs.extend(re.findall(r"src/[\w\-/]+\.c", m.group(1)))
    block(r"set\(uv_sources(.*?)\)")
    # generic unix block (the else() branch of if(WIN32))
    m = re.search(r"else\(\)\s*\n\s*list\(APPEND uv_defines _FILE_OFFSET_BITS=64.*?"
                  r"list\(APPEND uv_sources(.*?)\)", txt, re.S)
    if m:
        srcs.extend(re.findall(r"src/[\w\-/]+\.c", m.group(1)))
    m = re.search(r'if\(CMAKE_SYSTEM_NAME STREQUAL "Linux"\)(.*?)endif\(\)', txt, re.S)
    if m:
        srcs.extend(re.findall(r"src/[\w\-/]+\.c", m.group(1)))
    m = re.search(r'if\(APPLE OR CMAKE_SYSTEM_NAME MATCHES "Android\|Linux"\)(.*?)endif\(\)',
                  txt, re.S)
    if m:
        srcs.extend(re.findall(r"src/[\w\-/]+\.c", m.group(1)))
    seen, out = set(), []
    for s in srcs:
        if s not in seen and os.path.exists(os.path.join(REPO, s)):
            seen.add(s)
            out.append(s)
    return out


class Scratch:
    """A scratch directory outside /repo and /verif, removed on exit."""

    def __init__(self):
        base = os.environ.get("TMPDIR", "/tmp")
        self.dir = tempfile.mkdtemp(prefix="uvverif.", dir=base)

    def cleanup(self):
        shutil.rmtree(self.dir, ignore_errors=True)


def build_libuv(scratch, flavour="ndebug", extra=()):
    """Compile /repo's current sources into <scratch>/<flavour>/libuv.a."""
    out = os.path.join(scratch.dir, "lib_" + flavour)
    os.makedirs(out, exist_ok=True)
    flags = BASE_CFLAGS + FLAVOURS[flavour] + list(extra)
    srcs = uv_sources()
    objs = []

    def cc(src):
        obj = os.path.join(out, src.replace("/", "_")[:-2] + ".o")
        r = sh(["gcc"] + flags + ["-c", os.path.join(REPO, src), "-o", obj])
        return (src, obj, r.returncode, r.stdout)
    with concurrent.futures.ThreadPoolExecutor(JOBS) as ex:
        res = list(ex.map(cc, srcs))
    for src, obj, rc, outp in res:
        if rc != 0:
            raise BuildError("libuv does not compile: %s\n%s" % (src, outp))
        objs.append(obj)
    lib = os.path.join(out, "libuv.a")
    r = sh(["ar", "rcs", lib] + objs)
    if r.returncode != 0:
        raise BuildError(r.stdout)
    return lib


class BuildError(Exception):
    pass


def cc_harness(scratch, name, sources, lib=None, flavour="ndebug", wraps=(), extra=(),
               libs=("-lpthread", "-ldl", "-lrt")):
    """Compile harness sources (paths relative to /verif/harness) into an executable."""
    exe = os.path.join(scratch.dir, name)
    flags = BASE_CFLAGS + FLAVOURS[flavour] + ["-I" + os.path.join(VERIF, "harness")] + list(extra)
    srcs = [s if os.path.isabs(s) else os.path.join(VERIF, "harness", s) for s in sources]
    cmd = ["gcc"] + flags + srcs
    if lib:
        cmd.append(lib)
    if wraps:
        cmd.append("-Wl," + ",".join("--wrap=" + w for w in wraps))
    cmd += list(libs) + ["-o", exe]
    r = sh(cmd)
    if r.returncode != 0:
        raise BuildError("harness %s does not compile:\n%s" % (name, r.stdout[-4000:]))
    return exe


# --------------------------------------------------------------------------
# Coq side
# --------------------------------------------------------------------------
FORBIDDEN = re.compile(r"\b(Admitted|admit|Axiom|Parameter|Conjecture|Admit Obligations|"
                       r"bypass_check|Unset Guard Checking|Unset Positivity Checking|"
                       r"Unset Universe Checking|type-in-type|impredicative-set)\b")


def coq_scan_forbidden(only=None):
    """Forbidden tokens in the development; with [only] (paths relative to /verif/coq)
    restricted to those files (the dependency closure of a property's theorems)."""
    bad = []
    for root, _, files in os.walk(COQ):
        for f in files:
            if f.endswith(".v"):
                p = os.path.join(root, f)
                if only is not None and os.path.relpath(p, COQ) not in only:
                    continue
                txt = re.sub(r"\(\*.*?\*\)", "", open(p).read(), flags=re.S)
                for m in FORBIDDEN.finditer(txt):
                    bad.append("%s: %s" % (os.path.relpath(p, VERIF), m.group(0)))
    return bad


def _coq_files():
    out = []
    for root, _, files in os.walk(COQ):
        if os.path.basename(root) == "Extract":
            continue
        for f in files:
            if f.endswith(".v"):
                out.append(os.path.relpath(os.path.join(root, f), COQ))
    return sorted(out)


import contextlib, fcntl


@contextlib.contextmanager
def locked(name, shared=False):
    """Advisory lock under /verif/build: checks of different properties may run at the same time and share
    the compiled Coq files and model runners.  'coq' is taken shared by whoever reads .vo files and
    exclusive by whoever rewrites the shared ones."""
    os.makedirs(BUILD, exist_ok=True)
    f = open(os.path.join(BUILD, ".%s.lock" % name), "w")
    try:
        fcntl.flock(f, fcntl.LOCK_SH if shared else fcntl.LOCK_EX)
        yield
    finally:
        fcntl.flock(f, fcntl.LOCK_UN)
        f.close()


def coq_build(target_v):
    """See _coq_build; serialised against other checks."""
    with locked("coq"):
        return _coq_build(target_v)


def _coq_build(target_v):
    """Compile [target_v] (path relative to /verif/coq) and everything it depends on,
    re-compiling whatever is stale.  Independent of _CoqProject/Makefile so that it
    always reflects the .v files on disk.  Returns (ok, log)."""
    files = _coq_files()
    r = sh(["coqdep", "-Q", ".", "UV"] + files, cwd=COQ, stderr=subprocess.DEVNULL)
    deps = {}
    for line in r.stdout.splitlines():
        m = re.match(r"^(\S+)\.vo.*?:\s*(.*)$", line)
        if not m or ".vio" in line.split(":")[0]:
            continue
        deps[m.group(1) + ".v"] = [d[:-1] for d in m.group(2).split() if d.endswith(".vo")]
    order, seen = [], set()

    def visit(v):
        if v in seen:
            return
        seen.add(v)
        for d in deps.get(v, []):
            visit(d)
        order.append(v)
    visit(target_v)
    coq_build.closure = getattr(coq_build, "closure", set()) | set(order)
    log = ""
    rebuilt = set()
    # cold start (fresh restore: no .vo files): build the dependency closure with a parallel make first
    missing = [v for v in order if v != target_v and not os.path.exists(os.path.join(COQ, v + "o"))]
    if len(missing) >= 6:
        mkname = "MkClosure%d" % os.getpid()      # coq_makefile wants its output in the cwd
        mk = os.path.join(COQ, mkname)
        proj = mk + ".project"
        # (everything but the property statement files, so that the checks of the other properties, which
        # may be waiting for the lock, find their dependencies built)
        allv = [v for v in files if not v.startswith("Properties/") and not v.startswith("Extract/")]
        open(proj, "w").write("-Q . UV\n" + "\n".join(allv) + "\n")
        sh(["coq_makefile", "-f", mkname + ".project", "-o", mkname], cwd=COQ)   # (relative paths only)
        sh(["timeout", "3000", "make", "-f", mkname, "-k", "-j16", "COQC=timeout 1800 coqc"], cwd=COQ)
        for f in (mk, mk + ".conf", proj, os.path.join(COQ, "." + mkname + ".d")):
            if os.path.exists(f):
                os.remove(f)
    for v in order:
        vo = os.path.join(COQ, v + "o")
        src = os.path.join(COQ, v)
        stale = (not os.path.exists(vo)) or os.path.getmtime(vo) < os.path.getmtime(src) or \
            any(d in rebuilt or (os.path.exists(os.path.join(COQ, d + "o")) and
                                 os.path.getmtime(os.path.join(COQ, d + "o")) > os.path.getmtime(vo))
                for d in deps.get(v, []))
        if stale and v != target_v:
            c = sh(["timeout", "1800", "coqc", "-Q", ".", "UV", v], cwd=COQ)
            log += c.stdout[-2000:]
            if c.returncode != 0:
                return False, log
            rebuilt.add(v)
    return True, log


def coq_obligations(prop):
    """Re-check Properties_<prop>.v and Properties_<prop>_*.v (after bringing their
    dependencies up to date); return (obligations, discharged, details, checker_cmd)."""
    import glob
    rels = sorted(os.path.relpath(p, COQ) for p in
                  glob.glob(os.path.join(COQ, "Properties", "Properties_%s.v" % prop)) +
                  glob.glob(os.path.join(COQ, "Properties", "Properties_%s_*.v" % prop)))
    total, done, cmds = 0, 0, []
    details = {"files": {}}
    for rel in rels:
        src = os.path.join(COQ, rel)
        ok_deps, log = coq_build(rel)
        names = re.findall(r"^\s*(?:Theorem|Lemma|Corollary|Example)\s+(\w+)", open(src).read(), re.M)
        cmds.append("coqc -Q . UV %s" % rel)
        out, ok = "", False
        if ok_deps:
            with locked("prop_" + os.path.basename(rel)), locked("coq", shared=True):
                r = sh(["timeout", "1800", "coqc", "-Q", ".", "UV", rel], cwd=COQ)
            ok = r.returncode == 0
            out = r.stdout
        chunks = re.split(r"(?=Closed under the global context|Axioms:)", out)
        assumptions = []
        for c in chunks[1:]:
            c = c.strip()
            assumptions.append("closed" if c.startswith("Closed under") else c[:2000])
        d = {"theorems": names, "assumptions": assumptions, "coqc_ok": ok}
        if not ok:
            d["log"] = log[-3000:] + out[-3000:]
        details["files"][rel] = d
        total += len(names)
        done += len(names) if ok else 0
    forb = coq_scan_forbidden(getattr(coq_build, "closure", set()))
    details["forbidden_tokens"] = forb
    details["files_scanned"] = sorted(getattr(coq_build, "closure", set()))
    if forb:
        done = 0
    return total, done, details, "cd /verif/coq && " + " && ".join(cmds) + \
        "  (dependencies rebuilt first by lib/vf.py coq_build)"


def model_bin(prop):
    """Path of the extracted model runner, rebuilt when its inputs are newer."""
    pid = prop.lower()
    exe = os.path.join(BUILD, "modelrun_" + pid)
    deps = [os.path.join(VERIF, "ocaml", "drv_%s.ml" % pid), os.path.join(VERIF, "ocaml", "zutil.ml"),
            os.path.join(COQ, "Extract", "Extract_%s.v" % prop)]
    for root, _, files in os.walk(os.path.join(COQ, "Model")):
        deps += [os.path.join(root, f) for f in files if f.endswith(".v")]
    def is_stale():
        return not os.path.exists(exe) or any(
            os.path.exists(d) and os.path.getmtime(d) > os.path.getmtime(exe) for d in deps)
    if is_stale():
        with locked("model_" + pid):
            if is_stale():      # another check may have built it while we waited
                r = sh([os.path.join(VERIF, "bin", "build_model"), pid])
                if r.returncode != 0:
                    raise BuildError("model runner for %s does not build:\n%s" % (prop, r.stdout[-3000:]))
    return exe


# --------------------------------------------------------------------------
# running cases
# --------------------------------------------------------------------------
def run_lines(cmd, lines, timeout=600, env=None, shards=1):
    """Feed [lines] to cmd on stdin, return the output lines (one per input line).
    With shards > 1 the input is split and run in parallel."""
    if shards <= 1 or len(lines) < 2 * shards:
        # One process for all lines.  When it hangs or dies before having answered every line, the case
        # it was working on gets the marker "!timeout" / "!died:<rc>" (after whatever it had printed for
        # it) and a fresh process continues with the cases after it, so that one hang or crash is a
        # located disagreement (see diff_cases) instead of an exception or a line-count mismatch.
        out, rest, rc_all, err_all, restarts, tmo = [], list(lines), 0, "", 0, timeout
        if not rest:    # a command that needs no input lines: run it once
            p = sh(cmd, input="\n", timeout=timeout, env=env, stderr=subprocess.PIPE)
            o = p.stdout.split("\n")
            if o and o[-1] == "":
                o.pop()
            return o, p.returncode, p.stderr
        while rest:
            try:
                p = sh(cmd, input="\n".join(rest) + "\n", timeout=tmo, env=env, stderr=subprocess.PIPE)
                txt, rc, status = p.stdout, p.returncode, "exit"
                err_all += p.stderr or ""
            except subprocess.TimeoutExpired as e:
                txt = e.stdout or ""
                if isinstance(txt, bytes):
                    txt = txt.decode("utf-8", "replace")
                rc, status, tmo = -9, "timeout", min(timeout, 60)
            rc_all = rc_all or rc
            o = txt.split("\n")
            partial = o.pop() if o else ""
            if status == "exit" and (len(o) >= len(rest) or rc == 0):
                if partial and len(o) == len(rest) and o:
                    # output after the last case's newline (printed while the harness cleaned up after it):
                    # it belongs to the last case
                    o[-1] = o[-1] + " !trailing: " + partial
                    partial = ""
                out += o + ([partial] if partial else [])
                break
            o = o[:len(rest)]
            out += o
            if len(o) < len(rest):
                out.append((partial + " " if partial else "") + ("!timeout" if status == "timeout" else "!died:%d" % rc))
            rest = rest[len(o) + 1:]
            restarts += 1
            if restarts > 6 and rest:
                out += ["!notrun"] * len(rest)
                break
        return out, rc_all, err_all
    n = (len(lines) + shards - 1) // shards
    parts = [lines[i:i + n] for i in range(0, len(lines), n)]
    with concurrent.futures.ThreadPoolExecutor(shards) as ex:
        res = list(ex.map(lambda part: run_lines(cmd, part, timeout, env, 1), parts))
    out, rc, err = [], 0, ""
    for o, r, e in res:
        out += o
        rc = rc or r
        err += e or ""
    return out, rc, err


def canon(s):
    return " ".join(s.split())


# --------------------------------------------------------------------------
# known findings / replays / evidence
# --------------------------------------------------------------------------
def load_known(prop):
    p = os.path.join(VERIF, "known_findings.json")
    if not os.path.exists(p):
        return []
    data = json.load(open(p))
    return [f for f in data.get("findings", []) if f["property"] == prop and f.get("status") == "known"]


class Check:
    def __init__(self, prop, argv=None):
        ap = argparse.ArgumentParser()
        ap.add_argument("--tier", default=os.environ.get("VERIF_TIER", "quick"))
        ap.add_argument("--replay", default=None)
        a = ap.parse_args(argv)
        self.prop = prop
        self.tier = a.tier if a.tier in ("quick", "thorough") else "quick"
        self.replay = a.replay
        try:
            self.seed = int(os.environ.get("VERIF_SEED", "1"))
        except ValueError:
            self.seed = 1
        self.rng = random.Random(self.seed * 1000003 + sum(map(ord, prop)))
        self.t0 = time.time()
        self.scratch = Scratch()
        self.violations = []       # (what, replay_path)
        self.known_hits = []
        self.known = load_known(prop)
        self.cov = {"evaluations": 0, "distinct_nontrivial": 0, "samples": [],
                    "traces_validated_against_impl": 0, "disagreements_checked": 0,
                    "correspondence": {}}
        self._distinct = set()
        self.assumptions = []
        self.obl = (0, 0, {}, "")

    # -- proof obligations -------------------------------------------------
    def prove(self):
        n, d, details, cmd = coq_obligations(self.prop)
        self.obl = (n, d, details, cmd)
        if d != n or n == 0:
            self.violation("proof obligations of Properties_%s.v no longer check (%d of %d)"
                           % (self.prop, d, n),
                           {"kind": "proof", "theorem_file": "coq/Properties/Properties_%s.v" % self.prop,
                            "details": details}, found_input=False)
        return d == n and n > 0

    # -- bookkeeping ---------------------------------------------------------
    def count(self, key, trace, nontrivial=True):
        self.cov["evaluations"] += 1
        if nontrivial:
            h = hashlib.blake2b(trace.encode(), digest_size=8).digest()
            self._distinct.add(h)

    def sample(self, s, limit=6):
        if len(self.cov["samples"]) < limit:
            self.cov["samples"].append(s)

    def corr(self, name, n):
        self.cov["correspondence"][name] = self.cov["correspondence"].get(name, 0) + n
        self.cov["traces_validated_against_impl"] += n

    def match_known(self, key):
        for f in self.known:
            if f["key"] == key:
                return f
        return None

    def known_hit(self, f):
        if f["key"] not in [k["key"] for k in self.known_hits]:
            self.known_hits.append(f)

    def violation(self, what, replay, found_input=True):
        d = os.path.join(VERIF, "replays")
        os.makedirs(d, exist_ok=True)
        path = os.path.join(d, "%s_%d_%d.json" % (self.prop, int(time.time()), len(self.violations)))
        replay = dict(replay)
        replay["property"] = self.prop
        replay["what"] = what
        replay["failing_input_found"] = found_input
        json.dump(replay, open(path, "w"), indent=1)
        self.violations.append((what, path, found_input))

    # -- finish ------------------------------------------------------------
    def finish(self, level="proof", rule="", trusted=None, explanation=""):
        n, d, details, cmd = self.obl
        self.cov["distinct_nontrivial"] = len(self._distinct)
        self.cov["rule"] = rule
        self.cov["obligations"] = n
        self.cov["discharged"] = d
        self.cov["checker_cmd"] = cmd
        self.cov["proof_details"] = details
        self.cov["trusted_base"] = trusted or []
        self.cov["known_findings_reproduced"] = [f["key"] for f in self.known_hits]
        if explanation:
            self.cov["explanation"] = explanation
        ev = {"property_id": self.prop, "tier": self.tier, "seed": self.seed, "level": level,
              "coverage": self.cov, "assumptions": self.assumptions,
              "wall_s": round(time.time() - self.t0, 2), "violations": len(self.violations)}
        # evidence describes runs against /repo only; runs against another tree (VERIF_REPO, used for
        # seeded changes and mutations) leave /verif/evidence alone
        evdir = os.path.join(VERIF, "evidence") if "VERIF_REPO" not in os.environ else \
            os.path.join(os.environ.get("TMPDIR", "/tmp"), "verif_evidence_other_tree")
        os.makedirs(evdir, exist_ok=True)
        json.dump(ev, open(os.path.join(evdir, self.prop + ".json"), "w"), indent=1)
        self.scratch.cleanup()
        for f in self.known_hits:
            print("KNOWN-FINDING: property=%s %s" % (self.prop, f["what"]))
        for f in self.known:
            if f["key"] not in [k["key"] for k in self.known_hits]:
                print("note: known finding %s not reproduced in this run" % f["key"])
        for what, path, found in self.violations:
            print("VIOLATION property=%s replay=%s %s%s" %
                  (self.prop, path, what, "" if found else " no-failing-input-found"))
        sys.stdout.flush()
        sys.exit(1 if self.violations else 0)


def diff_cases(chk, name, cases, impl_out, model_out, monitor=None, max_report=3):
    """Compare implementation and model line by line.  [monitor(case, impl_line)] returns
    None when the implementation's own trace satisfies the property, else a reason."""
    if len(impl_out) != len(cases) or len(model_out) != len(cases):
        chk.violation("%s: harness/model produced %d/%d lines for %d cases"
                      % (name, len(impl_out), len(model_out), len(cases)),
                      {"kind": "correspondence", "obligation": name}, found_input=False)
        return 1
    bad = []       # (has_reason, kind, case, impl, model, reason)
    for c, a, b in zip(cases, impl_out, model_out):
        chk.count(name, c + "=>" + a)
        if a.endswith("!timeout") or re.search(r"!died:-?\d+$", a):
            reason = ("the implementation %s on this case (harness %s)"
                      % (("hangs", "gave no further output within the time limit") if a.endswith("!timeout")
                         else ("crashes or aborts", "process ended with status " + a.rsplit(":", 1)[1])))
        elif a == "!notrun":
            reason = None
        else:
            reason = monitor(c, a) if monitor else None
        if reason and reason.startswith("KNOWN:"):
            f = chk.match_known(reason[6:])
            if f is not None:
                chk.known_hit(f)
                reason = None
            else:
                reason = "unlisted finding " + reason[6:]
        if canon(a) != canon(b):
            chk.cov["disagreements_checked"] += 1
            bad.append((reason is not None, "correspondence", c, a, b, reason))
        elif reason:
            bad.append((True, "monitor", c, a, b, reason))
    nbad = len(bad)
    # report the shortest cases, those with a failing input (monitor verdict) first
    bad.sort(key=lambda t: (not t[0], len(t[2])))
    for has, kind, c, a, b, reason in bad[:max_report]:
        if kind == "correspondence":
            chk.violation("%s: implementation and model disagree%s"
                          % (name, (": " + reason) if reason else ""),
                          {"kind": "correspondence", "obligation": name, "case": c,
                           "impl": a, "model": b, "monitor": reason},
                          found_input=reason is not None)
        else:
            chk.violation("%s: trace violates the property: %s" % (name, reason),
                          {"kind": "monitor", "obligation": name, "case": c, "impl": a},
                          found_input=True)
    chk.corr(name, len(cases))
    return nbad


def _cli():
    # python3 lib/vf.py build-deps coq/Extract/Extract_X.v : bring the models it imports up to date
    if len(sys.argv) == 3 and sys.argv[1] == "build-deps":
        txt = open(sys.argv[2]).read()
        mods = []
        for m in re.finditer(r"From UV Require Import ([^.]*(?:\.[A-Za-z_][\w.]*)*)\.", txt):
            pass
        for line in txt.splitlines():
            mm = re.match(r"\s*From UV Require (?:Import|Export)\s+(.*)\.\s*$", line)
            if mm:
                mods += mm.group(1).split()
        for mod in mods:
            rel = mod.replace(".", "/") + ".v"
            ok, log = coq_build(rel)
            if ok:
                with locked("coq"):
                    r = sh(["timeout", "1800", "coqc", "-Q", ".", "UV", rel], cwd=COQ) \
                        if (not os.path.exists(os.path.join(COQ, rel + "o")) or
                            os.path.getmtime(os.path.join(COQ, rel + "o")) < os.path.getmtime(os.path.join(COQ, rel))) else None
                if r is not None and r.returncode != 0:
                    print(r.stdout[-2000:])
                    sys.exit(1)
            else:
                print(log)
                sys.exit(1)
        sys.exit(0)


if __name__ == "__main__":
    _cli()
