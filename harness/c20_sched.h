/* C20 serialising scheduler (shared by c20_barrier.c and c20_sem.c).
 *
 * All worker threads are real pthreads, but exactly one of them runs at any
 * time: the one the controller (main thread) granted the run token to.
 * Schedule points are the pthread calls underneath uv_mutex_lock/trylock/
 * unlock and uv_cond_wait/signal/broadcast, intercepted with -Wl,--wrap (the
 * uv_* functions themselves live in the same object file as the custom
 * semaphore, so they cannot be wrapped at link time; wrapping one level down
 * also keeps the uv_* wrappers inside the tested code).  The blocking
 * primitives are re-implemented on top of the token, so the controller knows
 * exactly who is runnable: "nobody enabled" is a deadlock verdict, not a
 * time-out.
 *
 * One step of worker t = perform the operation t is parked at and run up to
 * the next schedule point (or the end of the thread).  This is exactly the
 * atomic step of Model/Thread.v part E.  A schedule is a list of "t,aux"
 * choices; a choice naming a thread that is not enabled is recorded as a skip
 * ("t:-").  aux = 1 on a thread inside pthread_cond_wait = spurious wake-up;
 * on pthread_cond_signal aux selects the waiter (index among the not yet
 * signalled waiters in thread order, modulo their number). */
#ifndef C20_SCHED_H
#define C20_SCHED_H
#include <stdio.h>
#include <stdlib.h>
#include <string.h>
#include <errno.h>
#include <pthread.h>
#include <signal.h>
#include <unistd.h>
#include <sys/wait.h>
#include <sys/resource.h>

enum { OP_NONE, OP_LOCK, OP_TRY, OP_UNLOCK, OP_WAIT, OP_WAKE, OP_SIGNAL, OP_BCAST };
static const char ds_opch[] = "?LTUWKSB";
enum { W_RUNNING, W_PARKED, W_DONE };

#define DS_MAXW 16
typedef struct {
  int state, op, granted, aux;
  void* obj;                 /* mutex or cond the operation is on */
  int waiting;               /* 0 no, 1 in cond_wait not signalled, 2 signalled */
  pthread_cond_t* wc; pthread_mutex_t* wm;
  pthread_cond_t cv;
  int ret_pending, ret_val;  /* set by the worker when an API call returned during this step */
  pthread_t th;
} ds_worker;

static ds_worker ds_w[DS_MAXW];
static int ds_n;
static pthread_mutex_t ds_G = PTHREAD_MUTEX_INITIALIZER;
static pthread_cond_t ds_ctl = PTHREAD_COND_INITIALIZER;
static __thread int ds_me = -1;
static int ds_err;             /* protocol errors seen by the wrappers (unlock by non-owner, ...) */

/* model of the mutexes handled by the scheduler */
static struct { pthread_mutex_t* m; int owner; } ds_mx[8];
static int ds_nmx;
static int* ds_owner(pthread_mutex_t* m) {
  int i;
  for (i = 0; i < ds_nmx; i++) if (ds_mx[i].m == m) return &ds_mx[i].owner;
  if (ds_nmx == 8) { ds_err = 1; return &ds_mx[0].owner; }
  ds_mx[ds_nmx].m = m; ds_mx[ds_nmx].owner = -1;
  return &ds_mx[ds_nmx++].owner;
}

int __real_pthread_mutex_lock(pthread_mutex_t*);
int __real_pthread_mutex_trylock(pthread_mutex_t*);
int __real_pthread_mutex_unlock(pthread_mutex_t*);
int __real_pthread_cond_wait(pthread_cond_t*, pthread_mutex_t*);
int __real_pthread_cond_signal(pthread_cond_t*);
int __real_pthread_cond_broadcast(pthread_cond_t*);

/* park at a schedule point; returns the aux value of the grant */
static int ds_park(int op, void* obj) {
  ds_worker* w = &ds_w[ds_me];
  int aux;
  __real_pthread_mutex_lock(&ds_G);
  w->op = op; w->obj = obj; w->state = W_PARKED;
  __real_pthread_cond_signal(&ds_ctl);
  while (!w->granted) __real_pthread_cond_wait(&w->cv, &ds_G);
  w->granted = 0;
  aux = w->aux;
  __real_pthread_mutex_unlock(&ds_G);
  return aux;
}

int __wrap_pthread_mutex_lock(pthread_mutex_t* m) {
  if (ds_me < 0) return __real_pthread_mutex_lock(m);
  ds_park(OP_LOCK, m);                  /* granted only when m is free */
  if (*ds_owner(m) != -1) ds_err = 2;
  *ds_owner(m) = ds_me;
  return 0;
}
int __wrap_pthread_mutex_trylock(pthread_mutex_t* m) {
  if (ds_me < 0) return __real_pthread_mutex_trylock(m);
  ds_park(OP_TRY, m);
  if (*ds_owner(m) != -1) return EBUSY;
  *ds_owner(m) = ds_me;
  return 0;
}
int __wrap_pthread_mutex_unlock(pthread_mutex_t* m) {
  if (ds_me < 0) return __real_pthread_mutex_unlock(m);
  ds_park(OP_UNLOCK, m);
  if (*ds_owner(m) != ds_me) ds_err = 3;
  *ds_owner(m) = -1;
  return 0;
}
int __wrap_pthread_cond_wait(pthread_cond_t* c, pthread_mutex_t* m) {
  ds_worker* w;
  if (ds_me < 0) return __real_pthread_cond_wait(c, m);
  w = &ds_w[ds_me];
  ds_park(OP_WAIT, c);
  if (*ds_owner(m) != ds_me) ds_err = 4;
  *ds_owner(m) = -1;
  w->waiting = 1; w->wc = c; w->wm = m;
  ds_park(OP_WAKE, c);                  /* granted only when (signalled or aux==1) and m free */
  w->waiting = 0;
  if (*ds_owner(m) != -1) ds_err = 5;
  *ds_owner(m) = ds_me;
  return 0;
}
int __wrap_pthread_cond_signal(pthread_cond_t* c) {
  int aux, i, n = 0;
  if (ds_me < 0) return __real_pthread_cond_signal(c);
  aux = ds_park(OP_SIGNAL, c);
  for (i = 0; i < ds_n; i++) if (ds_w[i].waiting == 1 && ds_w[i].wc == c) n++;
  if (n > 0) {
    int k = aux % n;
    for (i = 0; i < ds_n; i++)
      if (ds_w[i].waiting == 1 && ds_w[i].wc == c) { if (k-- == 0) { ds_w[i].waiting = 2; break; } }
  }
  return 0;
}
int __wrap_pthread_cond_broadcast(pthread_cond_t* c) {
  int i;
  if (ds_me < 0) return __real_pthread_cond_broadcast(c);
  ds_park(OP_BCAST, c);
  for (i = 0; i < ds_n; i++) if (ds_w[i].waiting == 1 && ds_w[i].wc == c) ds_w[i].waiting = 2;
  return 0;
}

/* called by a worker (holding the token) when an API call returned */
static void ds_returned(int v) { ds_w[ds_me].ret_pending = 1; ds_w[ds_me].ret_val = v; }

static void ds_worker_begin(int id) { ds_me = id; }
static void ds_worker_end(void) {
  ds_worker* w = &ds_w[ds_me];
  int me = ds_me;
  ds_me = -1;
  __real_pthread_mutex_lock(&ds_G);
  w->state = W_DONE; (void) me;
  __real_pthread_cond_signal(&ds_ctl);
  __real_pthread_mutex_unlock(&ds_G);
}

static int ds_enabled(ds_worker* w, int aux) {
  if (w->state != W_PARKED) return 0;
  if (w->op == OP_LOCK) return *ds_owner((pthread_mutex_t*) w->obj) == -1;
  if (w->op == OP_WAKE) return (w->waiting == 2 || aux == 1) && *ds_owner(w->wm) == -1;
  return 1;
}

/* controller side: wait until nobody runs */
static void ds_settle(void) {
  int i;
  __real_pthread_mutex_lock(&ds_G);
  for (;;) {
    int busy = 0;
    for (i = 0; i < ds_n; i++) if (ds_w[i].state == W_RUNNING) busy = 1;
    if (!busy) break;
    __real_pthread_cond_wait(&ds_ctl, &ds_G);
  }
  __real_pthread_mutex_unlock(&ds_G);
}

/* grant one step to worker t; returns the op performed or OP_NONE for a skip */
static int ds_step(int t, int aux) {
  ds_worker* w;
  int op;
  if (t < 0 || t >= ds_n) return OP_NONE;
  w = &ds_w[t];
  if (!ds_enabled(w, aux)) return OP_NONE;
  op = w->op;
  __real_pthread_mutex_lock(&ds_G);
  w->ret_pending = 0;
  w->aux = aux; w->granted = 1; w->state = W_RUNNING;
  __real_pthread_cond_signal(&w->cv);
  __real_pthread_mutex_unlock(&ds_G);
  ds_settle();
  return op;
}

static void ds_start(int n, void* (*fn)(void*)) {
  int i;
  ds_n = n;
  for (i = 0; i < n; i++) {
    memset(&ds_w[i], 0, sizeof ds_w[i]);
    pthread_cond_init(&ds_w[i].cv, NULL);
    ds_w[i].state = W_RUNNING;
  }
  for (i = 0; i < n; i++) pthread_create(&ds_w[i].th, NULL, fn, (void*) (long) i);
  ds_settle();                         /* everybody parked at its first operation (or done) */
}

/* 0 all done, 1 somebody enabled, 2 deadlock */
static int ds_verdict(void) {
  int i, done = 1, en = 0;
  for (i = 0; i < ds_n; i++) {
    if (ds_w[i].state != W_DONE) done = 0;
    if (ds_enabled(&ds_w[i], 0)) en = 1;
  }
  return done ? 0 : en ? 1 : 2;
}

/* run every stdin line as one case in a forked child */
static int ds_main(void (*run_case)(char*)) {
  static char line[1 << 18];
  struct rlimit core = {0, 0};
  setrlimit(RLIMIT_CORE, &core);
  while (fgets(line, sizeof line, stdin)) {
    pid_t pid; int st;
    fflush(stdout);
    pid = fork();
    if (pid == 0) { alarm(10); run_case(line); fflush(stdout); _exit(0); }
    if (pid < 0 || waitpid(pid, &st, 0) < 0) { printf("forkfail\n"); continue; }
    if (WIFSIGNALED(st)) printf(" %s\n", WTERMSIG(st) == SIGABRT ? "abort" : WTERMSIG(st) == SIGALRM ? "hang" : "crash");
  }
  return 0;
}
#endif
