/* C11 (d): the thread-pool route for every kind of UV_THREADPOOL_SIZE value.
 * One case per line:   <value> <op>
 *   value  "unset" or "x<hex bytes of the string>" ("x" = the empty string)
 *   op     stat | read | write | scandir
 * For each case a fresh child process sets the variable, runs the operation
 * synchronously and through the thread pool of a new loop and prints
 *   n=<worker threads started> S{res out} P{res out cb=<n>}
 * n = entries of /proc/self/task after the asynchronous request minus before the loop
 * existed.  A watchdog (SIGALRM after 3 s) turns a request that never completes into
 *   n=<threads> S{..} P{hang cb=0}
 */
#define _GNU_SOURCE
#include <stdio.h>
#include <stdlib.h>
#include <string.h>
#include <stdarg.h>
#include <errno.h>
#include <fcntl.h>
#include <unistd.h>
#include <dirent.h>
#include <signal.h>
#include <sys/stat.h>
#include <sys/wait.h>
#include "uv.h"

static char obuf[8192]; static size_t olen;
static void out(const char* fmt, ...) {
  va_list ap; int n;
  va_start(ap, fmt); n = vsnprintf(obuf + olen, sizeof(obuf) - olen, fmt, ap); va_end(ap);
  if (n > 0 && olen + (size_t) n < sizeof(obuf)) olen += (size_t) n;
}
static int count_tasks(void) {
  DIR* d = opendir("/proc/self/task"); struct dirent* e; int n = 0;
  if (!d) return -1;
  while ((e = readdir(d))) if (e->d_name[0] != '.') n++;
  closedir(d);
  return n;
}
static unsigned fnv(const unsigned char* p, size_t n) {
  unsigned h = 2166136261u; size_t j; for (j = 0; j < n; j++) { h ^= p[j]; h *= 16777619u; } return h;
}

static int base_tasks, ncb, wfd = -1;
static void on_alarm(int sig) {
  char b[256]; int n;
  (void) sig;
  n = snprintf(b, sizeof b, "%s P{hang cb=%d}\n", obuf, ncb);
  /* obuf already starts with "n=?": patch the thread count in */
  if (write(wfd, b, (size_t) n) < 0) {}
  _exit(0);
}
static void on_fs(uv_fs_t* r) { (void) r; ncb++; }

static void describe(const char* op, uv_fs_t* req, long res, unsigned char* mem, size_t total, const char* wname) {
  out("res=%ld", res);
  if (!strcmp(op, "stat") && res == 0) out(" out=%o:%ld", (unsigned) req->statbuf.st_mode, (long) req->statbuf.st_size);
  if (!strcmp(op, "read")) out(" out=%u", fnv(mem, total));
  if (!strcmp(op, "write")) { struct stat st; if (stat(wname, &st) == 0) out(" out=%ld", (long) st.st_size); }
  if (!strcmp(op, "scandir") && res >= 0) { uv_dirent_t e; out(" out="); while (uv_fs_scandir_next(req, &e) == 0) out("%s:%d,", e.name, (int) e.type); }
}

static void child(const char* value, const char* op, const char* dir) {
  uv_loop_t loop; uv_fs_t req; uv_buf_t b[3]; unsigned char mem[64]; int fd = -1, rc, i; long res; char placeholder[16];
  size_t npos;
  if (!strcmp(value, "unset")) unsetenv("UV_THREADPOOL_SIZE");
  else {
    char s[256]; size_t n = (strlen(value) - 1) / 2, k;
    for (k = 0; k < n && k < sizeof(s) - 1; k++) { unsigned v; sscanf(value + 1 + 2 * k, "%2x", &v); s[k] = (char) v; }
    s[k] = 0; setenv("UV_THREADPOOL_SIZE", s, 1);
  }
  unsetenv("UV_USE_IO_URING");
  mkdir(dir, 0755);
  if (chdir(dir) != 0) _exit(2);
  { int f = open("a.txt", O_WRONLY | O_CREAT | O_TRUNC, 0644); for (i = 0; i < 10; i++) if (write(f, "0123456789", 10) < 0) _exit(2); close(f); }
  mkdir("d", 0755); close(open("d/x", O_WRONLY | O_CREAT, 0644)); close(open("d/y", O_WRONLY | O_CREAT, 0644));
  base_tasks = count_tasks();
  npos = olen; out("n=%-6s", "?"); (void) placeholder;
  for (i = 0; i < 3; i++) b[i] = uv_buf_init((char*) mem + i * 7, 7);

  /* sync */
  memset(mem, 0xEE, sizeof mem);
  if (!strcmp(op, "read")) fd = open("a.txt", O_RDONLY);
  if (!strcmp(op, "write")) { fd = open("w1", O_WRONLY | O_CREAT | O_TRUNC, 0644); for (i = 0; i < 21; i++) mem[i] = (unsigned char) ('a' + i); }
  rc = !strcmp(op, "stat") ? uv_fs_stat(NULL, &req, "a.txt", NULL)
     : !strcmp(op, "read") ? uv_fs_read(NULL, &req, fd, b, 3, 2, NULL)
     : !strcmp(op, "write") ? uv_fs_write(NULL, &req, fd, b, 3, 5, NULL)
     : uv_fs_scandir(NULL, &req, "d", 0, NULL);
  out(" S{"); describe(op, &req, rc, mem, 21, "w1"); out("}");
  uv_fs_req_cleanup(&req); if (fd >= 0) close(fd); fd = -1;

  /* thread pool, under the watchdog */
  uv_loop_init(&loop);
  memset(mem, 0xEE, sizeof mem);
  if (!strcmp(op, "read")) fd = open("a.txt", O_RDONLY);
  if (!strcmp(op, "write")) { fd = open("w2", O_WRONLY | O_CREAT | O_TRUNC, 0644); for (i = 0; i < 21; i++) mem[i] = (unsigned char) ('a' + i); }
  signal(SIGALRM, on_alarm); alarm(3);
  rc = !strcmp(op, "stat") ? uv_fs_stat(&loop, &req, "a.txt", on_fs)
     : !strcmp(op, "read") ? uv_fs_read(&loop, &req, fd, b, 3, 2, on_fs)
     : !strcmp(op, "write") ? uv_fs_write(&loop, &req, fd, b, 3, 5, on_fs)
     : uv_fs_scandir(&loop, &req, "d", 0, on_fs);
  { char t[8]; int n = count_tasks() - base_tasks; snprintf(t, sizeof t, "%-6d", n); memcpy(obuf + npos + 2, t, 6); }
  if (rc == 0) uv_run(&loop, UV_RUN_DEFAULT);
  alarm(0);
  res = rc == 0 ? (long) req.result : rc;
  out(" P{"); describe(op, &req, res, mem, 21, "w2"); out(" cb=%d}", ncb);
  uv_fs_req_cleanup(&req); if (fd >= 0) close(fd);
  uv_loop_close(&loop);
  out("\n");
  if (write(wfd, obuf, olen) < 0) {}
  unlink("a.txt"); unlink("d/x"); unlink("d/y"); rmdir("d"); unlink("w1"); unlink("w2");
  if (chdir("/") == 0) rmdir(dir);
  _exit(0);
}

int main(int argc, char** argv) {
  char* line = NULL; size_t cap = 0; ssize_t k; long caseno = 0;
  if (argc < 2) { fprintf(stderr, "usage: c11_pool <scratch dir>\n"); return 2; }
  while ((k = getline(&line, &cap, stdin)) > 0) {
    char value[600], op[32], dir[4096], buf[8192]; int p[2]; pid_t pid; ssize_t n, got = 0; int st;
    if (sscanf(line, "%599s %31s", value, op) != 2) { printf("bad case\n"); continue; }
    snprintf(dir, sizeof dir, "%s/p%d_%ld", argv[1], (int) getpid(), caseno++);
    if (pipe(p) != 0) return 2;
    fflush(stdout);
    pid = fork();
    if (pid == 0) { close(p[0]); wfd = p[1]; child(value, op, dir); }
    close(p[1]);
    while ((n = read(p[0], buf + got, sizeof(buf) - 1 - (size_t) got)) > 0) got += n;
    close(p[0]);
    waitpid(pid, &st, 0);
    buf[got] = 0;
    if (got == 0) printf("crash status=%d\n", st);
    else fputs(buf, stdout);
    fflush(stdout);
  }
  free(line);
  return 0;
}
