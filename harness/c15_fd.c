/* C15: descriptor hygiene of the freshly built libuv, observed through --wrap'ed
 * descriptor-creating calls, close, and descriptor-table scans.
 *
 * Parent mode:  c15_fd <scratchdir>     one case per stdin line, one result line each;
 *               every case runs in a forked worker (a fresh "process" for libuv's
 *               once-per-process state, with descriptors 0,1,2 as given by the caller).
 * Child mode:   c15_fd --child          spawned through uv_spawn: reports the descriptors it
 *               inherited on descriptor 3 and exits.
 *
 * Output line: "I<fd>:<cx>,..." (table before anything), then per operation
 *     { <events> }<model-op>=<rc>
 * events:  +<kind>.<cx>=<fd>   a descriptor was created inside libuv (cx: CLOEXEC flag in the call,
 *                              or, for kind "late", FD_CLOEXEC when libuv returned)
 *          -<kind>.<cx>.<e|o>  creation failed (e: EMFILE/ENFILE, o: other); injected or natural
 *          x<fd>               libuv closed a descriptor it created
 *          xforeign<fd>        libuv closed a descriptor it did not create
 *          xbad<fd>            libuv closed a number that is not open
 *          xlost<fd>           a libuv-created descriptor vanished without a close being seen
 *          c<fd>               close requested by the caller (uv_fs_close / close())
 *          K<h> / M<h>         the following accept / cmsg descriptors belong to handle h
 *          C<list>             descriptors a spawned child found open
 *          !nocx<fd>           a libuv-created descriptor is open without FD_CLOEXEC
 *          !<text>             harness anomaly
 * and finally "T<fd>:<cx> ..." (table at the end).
 *
 * Script tokens: see run_token().  */
#include <stdio.h>
#include <stdlib.h>
#include <string.h>
#include <stdarg.h>
#include <errno.h>
#include <fcntl.h>
#include <unistd.h>
#include <dirent.h>
#include <signal.h>
#include <pthread.h>
#include <sys/stat.h>
#include <sys/wait.h>
#include <sys/socket.h>
#include <sys/un.h>
#include <sys/syscall.h>
#include <sys/eventfd.h>
#include <sys/epoll.h>
#include <sys/inotify.h>
#include <netinet/in.h>
#include <arpa/inet.h>
#include "uv.h"
#include "uv-common.h"
#include "unix/internal.h"

#define MAXFD 256
#define PRIV 200          /* the harness keeps its private descriptors at >= PRIV */
#define USERBASE 100      /* descriptors the "user" opens itself live at >= USERBASE */
#define NH 16

int __real_socket(int, int, int);
int __real_socketpair(int, int, int, int[2]);
int __real_accept4(int, struct sockaddr*, socklen_t*, int);
int __real_pipe2(int[2], int);
int __real_eventfd(unsigned, int);
int __real_epoll_create1(int);
int __real_open64(const char*, int, ...);
int __real_dup2(int, int);
int __real_dup3(int, int, int);
int __real_fcntl64(int, int, ...);
int __real_inotify_init1(int);
ssize_t __real_recvmsg(int, struct msghdr*, int);
long __real_syscall(long, ...);
int __real_fclose(FILE*);
int __real_closedir(DIR*);
int __real_mkstemp64(char*);
int __real_pthread_mutex_init(pthread_mutex_t*, const pthread_mutexattr_t*);
int __real_pthread_rwlock_init(pthread_rwlock_t*, const pthread_rwlockattr_t*);

/* ------------------------------------------------------------------ */
/* log                                                                  */
/* ------------------------------------------------------------------ */
static char out[1 << 16];
static size_t outn;
static volatile int out_lock;
static void lock(void) { while (__atomic_exchange_n(&out_lock, 1, __ATOMIC_ACQUIRE)) ; }
static void unlock(void) { __atomic_store_n(&out_lock, 0, __ATOMIC_RELEASE); }
static void OUT(const char* fmt, ...) {
  va_list ap;
  lock();
  va_start(ap, fmt);
  if (outn < sizeof out - 256) outn += vsnprintf(out + outn, sizeof out - outn - 1, fmt, ap);
  va_end(ap);
  unlock();
}

/* descriptor table as the harness knows it */
enum { ST_NONE = 0, ST_USER = 1, ST_LIBUV = 2, ST_PRIV = 3 };
static unsigned char tab[MAXFD];
/* which open file a tracked descriptor number refers to (st_dev, st_ino): a descriptor that is
 * closed behind its owner's back and whose number is reused shows up as a different file */
static dev_t id_dev[MAXFD];
static ino_t id_ino[MAXFD];
static void remember(int fd) {
  struct stat st;
  if (fd < 0 || fd >= MAXFD) return;
  if (fstat(fd, &st) == 0) { id_dev[fd] = st.st_dev; id_ino[fd] = st.st_ino; }
}
static int same_file(int fd) {
  struct stat st;
  if (fstat(fd, &st) != 0) return 0;
  return st.st_dev == id_dev[fd] && st.st_ino == id_ino[fd];
}
static volatile int g_in_uv;        /* > 0 while a libuv API call is running */
static pthread_t g_main;            /* every other thread of the worker is libuv's (thread pool) */
#define IN_UV (g_in_uv || !pthread_equal(pthread_self(), g_main))
static int g_ncreate;               /* creation attempts inside libuv so far */
static int g_fail_at, g_fail_errno = EMFILE;
static volatile int g_open_calls;   /* open() calls made inside libuv (pool route of uv_fs_open) */
static int g_user_close = -1;       /* descriptor the caller asked libuv to close */
static int g_in_loop_init, g_nofd, g_mutex_n, g_rwlock_n, g_calloc_n;
static int g_uring_fd = -1, g_uring_closed, g_uring_at;

static uv_loop_t loop;
static int loop_live;
static uv_handle_t* hs[NH];
static char hkind[NH];              /* 't' 'p' 'u' 'o'(poll) 'a' 's' 'm' 'e' 'f' 'i' 'P' */
static int midx[NH];                /* index of the handle in the model */
static int nmodel;
static int given[NH];
static const char* g_dir;

static int handle_of_fd(int fd) {
  int i;
  for (i = 0; i < NH; i++)
    if (hs[i] != NULL && (hkind[i] == 't' || hkind[i] == 'p') &&
        ((uv_stream_t*) hs[i])->io_watcher.fd == fd)
      return midx[i];
  return -1;
}

static int g_shed_fd = -1;
static void connection_shed(int listen_fd);

static pid_t g_pid;                 /* the worker; a forked child of uv_spawn is not instrumented */
static int want_fail(const char* kind, int cx) {
  if (getpid() != g_pid) return 0;
  g_ncreate++;
  if (g_fail_at == g_ncreate) {
    OUT("-%s.%d.%s ", kind, cx, (g_fail_errno == EMFILE || g_fail_errno == ENFILE) ? "e" : "o");
    errno = g_fail_errno;
    return 1;
  }
  return 0;
}
static void created(const char* kind, int cx, int fd) {
  if (fd < 0) {
    OUT("-%s.%d.%s ", kind, cx, (errno == EMFILE || errno == ENFILE) ? "e" : "o");
    return;
  }
  OUT("+%s.%d=%d ", kind, cx, fd);
  if (fd < MAXFD) { tab[fd] = ST_LIBUV; remember(fd); }
}
static void closed(int fd, int rc) {
  if (fd == g_user_close) { OUT(rc == 0 ? "c%d " : "cbad%d ", fd); if (fd >= 0 && fd < MAXFD) tab[fd] = ST_NONE; return; }
  if (fd < 0 || fd >= MAXFD || tab[fd] == ST_NONE || rc != 0) { OUT("xbad%d ", fd); return; }
  if (tab[fd] == ST_LIBUV) OUT("x%d ", fd); else OUT("xforeign%d ", fd);
  if (fd == g_uring_fd && g_ncreate == g_uring_at) g_uring_closed = 1;  /* inside uv__iou_init */
  tab[fd] = ST_NONE;
}

/* ------------------------------------------------------------------ */
/* wrappers                                                             */
/* ------------------------------------------------------------------ */
int __wrap_socket(int d, int t, int p) {
  int fd;
  if (!IN_UV) return __real_socket(d, t, p);
  if (want_fail("socket", !!(t & SOCK_CLOEXEC))) return -1;
  fd = __real_socket(d, t, p);
  created("socket", !!(t & SOCK_CLOEXEC), fd);
  return fd;
}
int __wrap_socketpair(int d, int t, int p, int sv[2]) {
  int r;
  if (!IN_UV) return __real_socketpair(d, t, p, sv);
  if (want_fail("socketpair", !!(t & SOCK_CLOEXEC))) return -1;
  r = __real_socketpair(d, t, p, sv);
  if (r == 0) { created("socketpair", !!(t & SOCK_CLOEXEC), sv[0]); created("socketpair", !!(t & SOCK_CLOEXEC), sv[1]); }
  else created("socketpair", !!(t & SOCK_CLOEXEC), -1);
  return r;
}
int __wrap_accept4(int s, struct sockaddr* a, socklen_t* l, int fl) {
  int fd;
  if (!IN_UV) return __real_accept4(s, a, l, fl);
  OUT("K%d ", handle_of_fd(s));
  if (want_fail("accept", !!(fl & SOCK_CLOEXEC))) {
    if (errno == EMFILE || errno == ENFILE) g_shed_fd = s;   /* uv__emfile_trick follows */
    return -1;
  }
  fd = __real_accept4(s, a, l, fl);
  created("accept", !!(fl & SOCK_CLOEXEC), fd);
  if (g_shed_fd == s) {
    if (fd >= 0) connection_shed(s); else g_shed_fd = -1;
  }
  return fd;
}
int __wrap_pipe2(int p[2], int fl) {
  int r;
  if (!IN_UV) return __real_pipe2(p, fl);
  if (want_fail("pipe2", !!(fl & O_CLOEXEC))) return -1;
  r = __real_pipe2(p, fl);
  if (r == 0) { created("pipe2", !!(fl & O_CLOEXEC), p[0]); created("pipe2", !!(fl & O_CLOEXEC), p[1]); }
  else created("pipe2", !!(fl & O_CLOEXEC), -1);
  return r;
}
int __wrap_eventfd(unsigned v, int fl) {
  int fd;
  if (!IN_UV) return __real_eventfd(v, fl);
  if (want_fail("eventfd", !!(fl & EFD_CLOEXEC))) return -1;
  fd = __real_eventfd(v, fl);
  created("eventfd", !!(fl & EFD_CLOEXEC), fd);
  return fd;
}
int __wrap_epoll_create1(int fl) {
  int fd;
  if (!IN_UV) return __real_epoll_create1(fl);
  if (want_fail("epoll", !!(fl & EPOLL_CLOEXEC))) return -1;
  fd = __real_epoll_create1(fl);
  created("epoll", !!(fl & EPOLL_CLOEXEC), fd);
  return fd;
}
int __wrap_open64(const char* path, int fl, ...) {
  int fd;
  mode_t mode = 0;
  va_list ap;
  va_start(ap, fl);
  if (fl & (O_CREAT | O_TMPFILE)) mode = va_arg(ap, mode_t);
  va_end(ap);
  if (!IN_UV) return __real_open64(path, fl, mode);
  g_open_calls++;
  if (want_fail("open", !!(fl & O_CLOEXEC))) return -1;
  fd = __real_open64(path, fl, mode);
  created("open", !!(fl & O_CLOEXEC), fd);
  return fd;
}
int __wrap_dup2(int a, int b) {
  int r;
  if (!IN_UV) return __real_dup2(a, b);
  if (want_fail("dup2", 0)) return -1;
  if (b >= 0 && b < MAXFD && tab[b] != ST_NONE && a != b) closed(b, 0);
  r = __real_dup2(a, b);
  created("dup2", 0, r);
  return r;
}
int __wrap_dup3(int a, int b, int fl) {
  int r;
  if (!IN_UV) return __real_dup3(a, b, fl);
  if (want_fail("dup3", !!(fl & O_CLOEXEC))) return -1;
  if (b >= 0 && b < MAXFD && tab[b] != ST_NONE && a != b) closed(b, 0);
  r = __real_dup3(a, b, fl);
  created("dup3", !!(fl & O_CLOEXEC), r);
  return r;
}
int __wrap_fcntl64(int fd, int cmd, ...) {
  long arg;
  int r;
  va_list ap;
  va_start(ap, cmd);
  arg = va_arg(ap, long);
  va_end(ap);
  if (!IN_UV || (cmd != F_DUPFD && cmd != F_DUPFD_CLOEXEC)) return __real_fcntl64(fd, cmd, arg);
  if (want_fail("dupfd", cmd == F_DUPFD_CLOEXEC)) return -1;
  r = __real_fcntl64(fd, cmd, arg);
  created("dupfd", cmd == F_DUPFD_CLOEXEC, r);
  return r;
}
int __wrap_inotify_init1(int fl) {
  int fd;
  if (!IN_UV) return __real_inotify_init1(fl);
  if (want_fail("inotify", !!(fl & IN_CLOEXEC))) return -1;
  fd = __real_inotify_init1(fl);
  created("inotify", !!(fl & IN_CLOEXEC), fd);
  return fd;
}
ssize_t __wrap_recvmsg(int s, struct msghdr* msg, int fl) {
  ssize_t r = __real_recvmsg(s, msg, fl);
  struct cmsghdr* c;
  if (!IN_UV || r < 0 || msg->msg_controllen == 0) return r;
  for (c = CMSG_FIRSTHDR(msg); c != NULL; c = CMSG_NXTHDR(msg, c)) {
    if (c->cmsg_level == SOL_SOCKET && c->cmsg_type == SCM_RIGHTS) {
      size_t n = (c->cmsg_len - CMSG_LEN(0)) / sizeof(int), i;
      OUT("M%d ", handle_of_fd(s));
      for (i = 0; i < n; i++) {
        int fd;
        memcpy(&fd, CMSG_DATA(c) + i * sizeof(int), sizeof fd);
        created("cmsg", !!(fl & MSG_CMSG_CLOEXEC), fd);
      }
    }
  }
  return r;
}
long __wrap_syscall(long nr, ...) {
  long a[6], r;
  int i;
  va_list ap;
  va_start(ap, nr);
  for (i = 0; i < 6; i++) a[i] = va_arg(ap, long);
  va_end(ap);
  if (IN_UV && nr == SYS_close) {
    int fd = (int) a[0], e;
    r = __real_syscall(nr, a[0]);
    e = errno;
    closed(fd, (int) r);
    errno = e;
    return r;
  }
  if (IN_UV && nr == 425 /* io_uring_setup */) {
    if (want_fail("uring", 1)) return -1;
    r = __real_syscall(nr, a[0], a[1]);
    i = errno;
    if (r >= 0) {
      int fl = __real_fcntl64((int) r, F_GETFD, 0);
      created("uring", !!(fl & FD_CLOEXEC), (int) r);
      g_uring_fd = (int) r; g_uring_closed = 0; g_uring_at = g_ncreate;
    } else created("uring", 1, -1);
    errno = i;
    return r;
  }
  return __real_syscall(nr, a[0], a[1], a[2], a[3], a[4], a[5]);
}
int __wrap_fclose(FILE* f) {
  int fd = fileno(f), r;
  r = __real_fclose(f);
  if (IN_UV) closed(fd, r);
  return r;
}
int __wrap_closedir(DIR* d) {
  int fd = dirfd(d), r;
  r = __real_closedir(d);
  if (IN_UV) closed(fd, r);
  return r;
}
int __wrap_mkstemp64(char* t) {
  int fd;
  if (!IN_UV) return __real_mkstemp64(t);
  if (want_fail("mkstemp", 0)) return -1;
  fd = __real_mkstemp64(t);
  created("mkstemp", 0, fd);
  return fd;
}
int __wrap_pthread_mutex_init(pthread_mutex_t* m, const pthread_mutexattr_t* a) {
  if (g_in_loop_init) {
    g_mutex_n++;
    if ((g_nofd == 2 && g_mutex_n == 1) || (g_nofd == 4 && g_mutex_n == 2)) return ENOMEM;
  }
  return __real_pthread_mutex_init(m, a);
}
int __wrap_pthread_rwlock_init(pthread_rwlock_t* m, const pthread_rwlockattr_t* a) {
  if (g_in_loop_init) {
    g_rwlock_n++;
    if (g_nofd == 3 && g_rwlock_n == 1) return ENOMEM;
  }
  return __real_pthread_rwlock_init(m, a);
}
static int g_alloc_fail_at, g_alloc_n;      /* O<k>: the k-th allocation inside libuv from now on fails */
static int alloc_fails(void) {
  if (!IN_UV || g_alloc_fail_at == 0 || getpid() != g_pid) return 0;
  if (++g_alloc_n != g_alloc_fail_at) return 0;
  g_alloc_fail_at = 0;
  OUT("Q ");
  return 1;
}
static void* my_malloc(size_t n) { return alloc_fails() ? NULL : malloc(n); }
static void* my_realloc(void* p, size_t n) { return alloc_fails() ? NULL : realloc(p, n); }
static void* my_calloc(size_t n, size_t s) {
  if (g_in_loop_init) {
    g_calloc_n++;
    if (g_nofd == 1 && g_calloc_n == 1) return NULL;
  }
  return alloc_fails() ? NULL : calloc(n, s);
}

/* ------------------------------------------------------------------ */
/* table scans                                                          */
/* ------------------------------------------------------------------ */
static void reconcile(void) {
  int fd;
  for (fd = 0; fd < PRIV; fd++) {
    int fl = __real_fcntl64(fd, F_GETFD, 0);
    if (fl < 0) {
      if (tab[fd] == ST_LIBUV) OUT("xlost%d ", fd);
      else if (tab[fd] == ST_USER) OUT("xforeign%d ", fd);
      tab[fd] = ST_NONE;
      continue;
    }
    if (tab[fd] == ST_NONE) {
      OUT("+late.%d=%d ", !!(fl & FD_CLOEXEC), fd);
      tab[fd] = ST_LIBUV;
      remember(fd);
    } else if (!same_file(fd)) {
      OUT("!changed%d ", fd);      /* same number, different file */
      remember(fd);
    }
    if (tab[fd] == ST_LIBUV && !(fl & FD_CLOEXEC)) OUT("!nocx%d ", fd);
  }
}
static void print_table(const char* tag) {
  int fd, n = 0;
  OUT("%s", tag);
  for (fd = 0; fd < PRIV; fd++) {
    int fl = __real_fcntl64(fd, F_GETFD, 0);
    if (fl < 0) continue;
    OUT("%s%d:%d", n++ ? "," : "", fd, !!(fl & FD_CLOEXEC));
  }
  OUT(" ");
}

static int g_bracket;               /* inside "{ ... }" */
static const char* g_cur_token = "-";
static int g_resfd = -1;
#define BEGIN() do { OUT("{ "); g_bracket = 1; g_in_uv++; } while (0)
#define END(...) do { g_in_uv--; reconcile(); OUT("}"); g_bracket = 0; OUT(__VA_ARGS__); OUT(" "); } while (0)

/* libuv terminated the process (abort(), a fault) or the case hung: flush what was logged so far
 * and say in which script step it happened */
static void died(int sig) {
  size_t off = 0;
  if (getpid() != g_pid) _exit(97);
  if (outn > sizeof out - 512) outn = sizeof out - 512;
  outn += snprintf(out + outn, 400, "%s!died%d:%s }DIED=-1 T\n", g_bracket ? "" : "{ ", sig, g_cur_token);
  while (off < outn) { ssize_t w = write(g_resfd, out + off, outn - off); if (w <= 0) break; off += w; }
  _exit(0);
}

/* the "user" opens a descriptor of its own (close-on-exec, at >= USERBASE) */
static int user_fd(int fd) {
  int hi;
  if (fd < 0) return fd;
  hi = __real_fcntl64(fd, F_DUPFD_CLOEXEC, USERBASE);
  close(fd);
  if (hi >= 0 && hi < MAXFD) { tab[hi] = ST_USER; remember(hi); }
  OUT("{ }ua:%d:1=0 ", hi);
  return hi;
}

/* ------------------------------------------------------------------ */
/* callbacks: only count                                                 */
/* ------------------------------------------------------------------ */
static int pending;          /* callbacks the script still waits for */
static int conn_expected[NH];
static uv_connect_t creq[NH];
static uv_write_t wreq[NH];
static uv_fs_t fsreq;
static uv_timer_t watchdog;
static int watchdog_fired;

static int slot_of(void* h) { int i; for (i = 0; i < NH; i++) if ((void*) hs[i] == h) return i; return -1; }
static void close_cb(uv_handle_t* h) { pending--; }
static void conn_cb(uv_stream_t* s, int status) {
  int i = slot_of(s);
  if (i >= 0 && conn_expected[i] > 0) { conn_expected[i]--; pending--; }
}
static void connection_shed(int listen_fd) {      /* accepted and closed by the EMFILE trick */
  int i;
  for (i = 0; i < NH; i++)
    if (hs[i] != NULL && (hkind[i] == 't' || hkind[i] == 'p') &&
        ((uv_stream_t*) hs[i])->io_watcher.fd == listen_fd && conn_expected[i] > 0) {
      conn_expected[i]--; pending--;
    }
}
static void connect_cb(uv_connect_t* r, int status) {
  int srv = (int) (long) r->data;
  pending--;
  if (status != 0 && srv >= 0 && conn_expected[srv] > 0) { conn_expected[srv]--; pending--; }
}
static void write_cb(uv_write_t* r, int status) { pending--; }
static void alloc_cb(uv_handle_t* h, size_t n, uv_buf_t* b) { static char buf[256]; *b = uv_buf_init(buf, sizeof buf); }
static int read_expected[NH], writes_ok;
static void read_cb(uv_stream_t* s, ssize_t n, const uv_buf_t* b) {
  int i = slot_of(s);
  if (i >= 0 && read_expected[i] > 0) { read_expected[i]--; pending--; }
  if (n < 0) uv_read_stop(s);
}
static void exit_cb(uv_process_t* p, int64_t st, int sig) { pending--; }
static void fs_cb(uv_fs_t* r) { pending--; uv_fs_req_cleanup(r); }
/* asynchronous uv_fs_open: on an SQPOLL loop the kernel creates the descriptor from an SQE, no libc
 * call is involved; the callback is the first moment the caller can observe it */
static uv_fs_t areq[NH];
static int areq_opens[NH], areq_done[NH], areq_ring[NH];
static void afs_cb(uv_fs_t* r) {
  int g = (int) (long) r->data, fd = (int) r->result;
  areq_ring[g] = g_open_calls == areq_opens[g];
  if (areq_ring[g]) {                               /* ring route */
    if (fd >= 0) {
      int fl = __real_fcntl64(fd, F_GETFD, 0);
      OUT("+ringopen.%d=%d ", !!(fl & FD_CLOEXEC), fd);
      if (fd < MAXFD) { tab[fd] = ST_LIBUV; remember(fd); }
    } else OUT("-ringopen.1.o ");
  }
  given[g] = fd;
  areq_done[g] = 1;
  uv_fs_req_cleanup(r);
}
static void timer_cb(uv_timer_t* t) { pending--; }
static void watchdog_cb(uv_timer_t* t) { watchdog_fired = 1; }
static void nop_signal_cb(uv_signal_t* h, int s) { }
static void nop_poll_cb(uv_poll_t* h, int st, int ev) { }
static void nop_async_cb(uv_async_t* h) { }
static void nop_fsevent_cb(uv_fs_event_t* h, const char* f, int e, int s) { }
static void nop_fspoll_cb(uv_fs_poll_t* h, int s, const uv_stat_t* a, const uv_stat_t* b) { }
static void nop_idle_cb(uv_idle_t* h) { }

/* ------------------------------------------------------------------ */
/* script                                                               */
/* ------------------------------------------------------------------ */
static struct sockaddr_in loopback(int port) {
  struct sockaddr_in a;
  memset(&a, 0, sizeof a);
  a.sin_family = AF_INET;
  a.sin_port = htons(port);
  a.sin_addr.s_addr = htonl(INADDR_LOOPBACK);
  return a;
}

static int new_handle(int h, char kind, size_t size) {
  if (h < 0 || h >= NH || hs[h] != NULL) return -1;
  hs[h] = calloc(1, size);
  hkind[h] = kind;
  return 0;
}
static void registered(int h) { midx[h] = nmodel++; }

/* source descriptor of an open/poll operation: f<fd> | g<slot> | ns (socket) | nu (udp) | np (pipe read end) */
static int source_fd(const char* s, char* desc, size_t cap) {
  int fd = -1;
  if (s[0] == 'f') { fd = atoi(s + 1); snprintf(desc, cap, "f%d", fd); }
  else if (s[0] == 'g') { int g = atoi(s + 1); fd = (g >= 0 && g < NH) ? given[g] : -1; snprintf(desc, cap, "g%d", g); }
  else if (s[0] == 'n') {
    if (s[1] == 's') fd = user_fd(__real_socket(AF_INET, SOCK_STREAM | SOCK_CLOEXEC, 0));
    else if (s[1] == 'u') fd = user_fd(__real_socket(AF_INET, SOCK_DGRAM | SOCK_CLOEXEC, 0));
    else if (s[1] == 'x') fd = user_fd(__real_socket(AF_UNIX, SOCK_STREAM | SOCK_CLOEXEC, 0));
    else { int p[2]; if (__real_pipe2(p, O_CLOEXEC) == 0) { close(p[1]); fd = user_fd(p[0]); } }
    snprintf(desc, cap, "f%d", fd);
  }
  else if (s[0] == 'w') {      /* the descriptor another handle of this loop already watches */
    int k = atoi(s + 1);
    if (k >= 0 && k < NH && hs[k] != NULL && strchr("tpu", hkind[k]))
      fd = hkind[k] == 'u' ? ((uv_udp_t*) hs[k])->io_watcher.fd : ((uv_stream_t*) hs[k])->io_watcher.fd;
    snprintf(desc, cap, "f%d", fd);
  }
  return fd;
}

static int stream_fd_of(int h) { return ((uv_stream_t*) hs[h])->io_watcher.fd; }

static void run_token(const char* t) {
  int h = -1, a = -1, b = -1, rc;
  char arg[64] = "", desc[32];
  const char* colon = strchr(t, ':');

  if (t[0] == 'F') { g_fail_at = atoi(t + 1);
    { char c = t[strlen(t) - 1]; g_fail_errno = c == 'n' ? ENFILE : c == 'm' ? ENOMEM : EMFILE; } return; }
  if (t[0] == 'N') { g_nofd = atoi(t + 1); return; }
  if (t[0] == 'O') { g_alloc_fail_at = atoi(t + 1); g_alloc_n = 0; return; }
  if (t[0] == 'D') {            /* D<fd>: the caller replaces descriptor fd by a UDP socket of its own */
    int fd = atoi(t + 1), sk = __real_socket(AF_INET, SOCK_DGRAM, 0);
    close(fd); if (fd < MAXFD) tab[fd] = ST_NONE; OUT("{ c%d }uf:%d=0 ", fd, fd);
    if (sk >= 0 && sk != fd) { __real_dup2(sk, fd); close(sk); }
    if (fd < MAXFD) { tab[fd] = ST_USER; remember(fd); }
    OUT("{ }ua:%d:0=0 ", fd);
    return;
  }
  if (t[0] == 'Z') { int fd = atoi(t + 1); close(fd); if (fd < MAXFD) tab[fd] = ST_NONE; OUT("{ c%d }uf:%d=0 ", fd, fd); return; }

  if (!strcmp(t, "Li")) {
    int nofd = g_nofd;
    g_mutex_n = g_rwlock_n = g_calloc_n = 0; g_uring_fd = -1; g_uring_closed = 0;
    BEGIN(); g_in_loop_init = 1;
    rc = uv_loop_init(&loop);
    g_in_loop_init = 0; g_nofd = 0;
    END("Li:%d:%d=%d", nofd, !g_uring_closed, rc);
    loop_live = rc == 0;
    if (loop_live) { int i; for (i = 0; i < NH; i++) { hs[i] = NULL; } nmodel = 0; }
    return;
  }
  if (!loop_live && strcmp(t, "tm") && strcmp(t, "tf") && t[0] != 'g') { OUT("{ }-=skip "); return; }
  if (!strcmp(t, "Lc")) {
    BEGIN(); rc = uv_loop_close(&loop); END("Lc=%d", rc);
    if (rc == 0) loop_live = 0;
    return;
  }
  if (!strcmp(t, "Lq")) {
    BEGIN(); rc = uv_loop_configure(&loop, UV_LOOP_USE_IO_URING_SQPOLL); END("Lq=%d", rc);
    return;
  }
  if (!strcmp(t, "Lz")) {     /* first uv_fs_* request: the SQPOLL ring is created lazily */
    char p[512];
    snprintf(p, sizeof p, "%s", g_dir);
    g_uring_fd = -1; g_uring_closed = 0;
    BEGIN(); rc = uv_fs_stat(&loop, &fsreq, p, fs_cb); END("Lz:%d=%d", !g_uring_closed, 0);
    if (rc == 0) pending++;
    return;
  }
  if (!strcmp(t, "R")) {
    int spins = 0;
    BEGIN();
    watchdog_fired = 0;
    uv_timer_init(&loop, &watchdog);
    uv_timer_start(&watchdog, watchdog_cb, 5000, 0);
    uv_unref((uv_handle_t*) &watchdog);
    while (pending > 0 && !watchdog_fired && spins++ < 100000)
      uv_run(&loop, UV_RUN_ONCE);
    uv_run(&loop, UV_RUN_NOWAIT);
    uv_close((uv_handle_t*) &watchdog, NULL);
    uv_run(&loop, UV_RUN_NOWAIT);
    if (pending > 0) OUT("!timeout%d ", pending);
    pending = 0;
    END("ru=0");
    return;
  }
  if (!strcmp(t, "tm")) { double up; BEGIN(); rc = uv_uptime(&up); END("sl=%d", rc); return; }
  if (!strcmp(t, "tf")) {
    uv_cpu_info_t* ci; int n;
    BEGIN(); rc = uv_cpu_info(&ci, &n); if (rc == 0) uv_free_cpu_info(ci, n); END("-=%d", rc);
    return;
  }

  /* tokens with a handle or slot number: two letters, number, optional :arg */
  if (strlen(t) < 2) { OUT("!badtoken "); return; }
  {
    const char* p = t + (t[0] == 'A' || t[0] == 'X' ? 1 : 2);
    h = atoi(p);
    if (colon) snprintf(arg, sizeof arg, "%s", colon + 1);
  }
  if (h < 0 || h >= NH) { OUT("!badslot "); return; }

  /* ---- descriptors handed to the caller ---- */
  if (t[0] == 'g') {
    uv_fs_t r;
    char p[512];
    if (t[1] == 'o' || t[1] == 'x') {
      snprintf(p, sizeof p, "%s/%sf%d", g_dir, t[1] == 'x' ? "nonexistent/" : "", h);
      BEGIN(); rc = uv_fs_open(NULL, &r, p, O_CREAT | O_RDWR, 0600, NULL); uv_fs_req_cleanup(&r);
      END("g1:open:%d=%d", h, rc < 0 ? rc : 0);
      given[h] = rc;
    } else if (t[1] == 'a') {            /* ga<g>:<c|p|d|P>  asynchronous uv_fs_open */
      int fl;
      if (!loop_live) { OUT("{ }-=skip "); return; }
      if (arg[0] == 'c') { snprintf(p, sizeof p, "%s/af%d", g_dir, h); fl = O_CREAT | O_RDWR; }
      else if (arg[0] == 'p') {
        int k;
        snprintf(p, sizeof p, "%s/plain", g_dir);
        k = __real_open64(p, O_CREAT | O_WRONLY | O_CLOEXEC, 0600); if (k >= 0) close(k);
        fl = O_RDONLY;
      }
      else if (arg[0] == 'd') { snprintf(p, sizeof p, "%s", g_dir); fl = O_RDONLY | O_DIRECTORY; }
      else { snprintf(p, sizeof p, "%s", g_dir); fl = O_PATH; }
      areq[h].data = (void*) (long) h;
      areq_opens[h] = g_open_calls;
      g_uring_fd = -1; g_uring_closed = 0;
      areq_done[h] = 0;
      BEGIN();
      rc = uv_fs_open(&loop, &areq[h], p, fl, 0600, afs_cb);
      OUT("Z%d ", !g_uring_closed);               /* the first request creates the SQPOLL ring (linux.c:769-781) */
      if (rc == 0) {
        int spins = 0;
        while (!areq_done[h] && spins++ < 100000) uv_run(&loop, UV_RUN_ONCE);
        END("g1:%s:%d=%d", areq_ring[h] ? "ringopen" : "open", h, given[h] < 0 ? given[h] : 0);
      } else END("-=%d", rc);
    } else if (t[1] == 'm') {
      snprintf(p, sizeof p, "%s/tmpXXXXXX", g_dir);
      BEGIN(); rc = uv_fs_mkstemp(NULL, &r, p, NULL); uv_fs_req_cleanup(&r);
      END("g1:mkostemp:%d=%d", h, rc < 0 ? rc : 0);
      given[h] = rc;
    } else if (t[1] == 'c') {
      if (given[h] < 0) { OUT("{ }-=skip "); return; }
      g_user_close = given[h];
      BEGIN(); rc = uv_fs_close(NULL, &r, given[h], NULL); uv_fs_req_cleanup(&r); END("uc:%d=%d", h, rc);
      g_user_close = -1; given[h] = -1;
    } else if (t[1] == 'u') {
      if (given[h] < 0) { OUT("{ }-=skip "); return; }
      OUT(close(given[h]) == 0 ? "{ c%d " : "{ cbad%d ", given[h]); tab[given[h]] = ST_NONE; OUT("}uc:%d=0 ", h); given[h] = -1;
    } else if (t[0] == 'g' && t[1] == 'w') {       /* gw<g>:<n>  the caller sends n descriptors in one message */
      struct msghdr msg; struct iovec iov; char c = 'x';
      union { char buf[CMSG_SPACE(64 * sizeof(int))]; struct cmsghdr align; } u;
      struct cmsghdr* cm; int nfd = atoi(arg), k, src;
      ssize_t r;
      if (given[h] < 0 || nfd < 1 || nfd > 60) { OUT("{ }-=skip "); return; }
      k = __real_open64("/dev/null", O_RDONLY | O_CLOEXEC, 0);
      src = __real_fcntl64(k, F_DUPFD_CLOEXEC, PRIV);
      close(k);
      memset(&msg, 0, sizeof msg); memset(&u, 0, sizeof u);
      iov.iov_base = &c; iov.iov_len = 1; msg.msg_iov = &iov; msg.msg_iovlen = 1;
      msg.msg_control = u.buf; msg.msg_controllen = CMSG_SPACE(nfd * sizeof(int));
      cm = CMSG_FIRSTHDR(&msg); cm->cmsg_level = SOL_SOCKET; cm->cmsg_type = SCM_RIGHTS;
      cm->cmsg_len = CMSG_LEN(nfd * sizeof(int));
      for (k = 0; k < nfd; k++) memcpy(CMSG_DATA(cm) + k * sizeof(int), &src, sizeof src);
      r = sendmsg(given[h], &msg, 0);
      close(src);
      OUT("{ }-=%d ", r == 1 ? 0 : -1);
      if (r == 1) writes_ok++;
    } else if (t[1] == 'p' || t[1] == 's') {
      uv_file fds[2] = { -1, -1 };
      b = atoi(arg);
      BEGIN();
      if (t[1] == 'p') rc = uv_pipe(fds, UV_NONBLOCK_PIPE, UV_NONBLOCK_PIPE);
      else rc = uv_socketpair(SOCK_STREAM, 0, fds, UV_NONBLOCK_PIPE, UV_NONBLOCK_PIPE);
      END("g2:%s:%d:%d=%d", t[1] == 'p' ? "pipe2" : "socketpair", h, b, rc);
      given[h] = fds[0]; given[b] = fds[1];
    } else OUT("!badtoken ");
    return;
  }

  /* ---- handle creation ---- */
  if (t[1] == 'i' && strchr("tpuoasmefi", t[0])) {
    int dom = atoi(arg);
    int af = dom == 4 ? AF_INET : dom == 6 ? AF_INET6 : AF_UNSPEC;
    if (t[0] == 'o') {
      int fd;
      if (new_handle(h, 'o', sizeof(uv_poll_t))) { OUT("!slot "); return; }
      fd = source_fd(arg, desc, sizeof desc);
      BEGIN(); rc = uv_poll_init(&loop, (uv_poll_t*) hs[h], fd);
      if (rc == 0) { registered(h); END("hi:%d:o:0=%d", midx[h], rc); }
      else { END("-=%d", rc); free(hs[h]); hs[h] = NULL; }
      return;
    }
    switch (t[0]) {
    case 't': if (new_handle(h, 't', sizeof(uv_tcp_t))) goto bad;
      BEGIN(); rc = uv_tcp_init_ex(&loop, (uv_tcp_t*) hs[h], af); registered(h);
      END("hi:%d:t:%d=%d", midx[h], af != AF_UNSPEC, rc); break;
    case 'p': if (new_handle(h, 'p', sizeof(uv_pipe_t))) goto bad;
      BEGIN(); rc = uv_pipe_init(&loop, (uv_pipe_t*) hs[h], dom); registered(h);
      END("hi:%d:p:0=%d", midx[h], rc); break;
    case 'u': if (new_handle(h, 'u', sizeof(uv_udp_t))) goto bad;
      BEGIN(); rc = uv_udp_init_ex(&loop, (uv_udp_t*) hs[h], af); registered(h);
      END("hi:%d:u:%d=%d", midx[h], af != AF_UNSPEC, rc); break;
    case 'a': if (new_handle(h, 'a', sizeof(uv_async_t))) goto bad;
      BEGIN(); rc = uv_async_init(&loop, (uv_async_t*) hs[h], nop_async_cb); registered(h);
      END("hi:%d:o:0=%d", midx[h], rc); break;
    case 's': if (new_handle(h, 's', sizeof(uv_signal_t))) goto bad;
      BEGIN(); rc = uv_signal_init(&loop, (uv_signal_t*) hs[h]); registered(h);
      END("hi:%d:o:0=%d", midx[h], rc); break;
    case 'm': if (new_handle(h, 'm', sizeof(uv_timer_t))) goto bad;
      BEGIN(); rc = uv_timer_init(&loop, (uv_timer_t*) hs[h]); registered(h);
      END("hi:%d:o:0=%d", midx[h], rc); break;
    case 'e': if (new_handle(h, 'e', sizeof(uv_fs_event_t))) goto bad;
      BEGIN(); rc = uv_fs_event_init(&loop, (uv_fs_event_t*) hs[h]); registered(h);
      END("hi:%d:o:0=%d", midx[h], rc); break;
    case 'f': if (new_handle(h, 'f', sizeof(uv_fs_poll_t))) goto bad;
      BEGIN(); rc = uv_fs_poll_init(&loop, (uv_fs_poll_t*) hs[h]); registered(h);
      END("hi:%d:o:0=%d", midx[h], rc); break;
    case 'i': if (new_handle(h, 'i', sizeof(uv_idle_t))) goto bad;
      BEGIN(); rc = uv_idle_init(&loop, (uv_idle_t*) hs[h]); registered(h);
      END("hi:%d:o:0=%d", midx[h], rc); break;
    }
    if (rc != 0) { free(hs[h]); hs[h] = NULL; }     /* never registered with the loop */
    return;
  bad:
    OUT("!slot ");
    return;
  }

  if (t[0] == 's' && t[1] == 'p') {                 /* sp<h>:<p<k>|i|h>,...:<ok|ne> */
    uv_process_options_t o;
    uv_stdio_container_t sc[12];
    char expect[128] = "";
    char* args[4];
    char rslot[16];
    char exe[512], sd[128] = "", spec[64], *mode, *q, *sv2 = NULL;
    int n = 0, rep[2] = { -1, -1 }, streams[12], ns = 0, i;
    ssize_t len;
    if (new_handle(h, 'P', sizeof(uv_process_t))) { OUT("!slot "); return; }
    snprintf(spec, sizeof spec, "%s", arg);
    mode = strchr(spec, ':');
    if (mode) *mode++ = 0; else mode = "ok";
    for (q = strtok_r(spec, ",", &sv2); q != NULL && n < 10; q = strtok_r(NULL, ",", &sv2), n++) {
      if (q[0] == 'p') {
        int sh = atoi(q + 1);
        if (sh < 0 || sh >= NH || hs[sh] == NULL || hkind[sh] != 'p') { OUT("{ }-=skip "); free(hs[h]); hs[h] = NULL; return; }
        sc[n].flags = UV_CREATE_PIPE | UV_READABLE_PIPE | UV_WRITABLE_PIPE;
        sc[n].data.stream = (uv_stream_t*) hs[sh];
        streams[ns++] = sh;
        snprintf(sd + strlen(sd), sizeof sd - strlen(sd), "%sp%d", n ? "," : "", midx[sh]);
      } else if (q[0] == 's' || q[0] == 't') {
        int sh = atoi(q + 1);
        if (sh < 0 || sh >= NH || hs[sh] == NULL || (hkind[sh] != 'p' && hkind[sh] != 't')) { OUT("{ }-=skip "); free(hs[h]); hs[h] = NULL; return; }
        sc[n].flags = q[0] == 's' ? UV_INHERIT_STREAM : (UV_CREATE_PIPE | UV_READABLE_PIPE | UV_WRITABLE_PIPE);
        sc[n].data.stream = (uv_stream_t*) hs[sh];
        snprintf(sd + strlen(sd), sizeof sd - strlen(sd), "%s%s", n ? "," : "",
                 (q[0] == 's' && ((uv_stream_t*) hs[sh])->io_watcher.fd >= 0) ? "h" : "b");   /* b: UV_EINVAL */
      } else if (q[0] == 'h') {
        sc[n].flags = UV_INHERIT_FD; sc[n].data.fd = q[1] ? atoi(q + 1) : (n < 3 ? n : 2);
        snprintf(sd + strlen(sd), sizeof sd - strlen(sd), "%sh", n ? "," : "");
      } else {
        sc[n].flags = UV_IGNORE;
        snprintf(sd + strlen(sd), sizeof sd - strlen(sd), "%si", n ? "," : "");
      }
    }
    while (n < 3) { sc[n].flags = UV_IGNORE; snprintf(sd + strlen(sd), sizeof sd - strlen(sd), "%si", n ? "," : ""); n++; }
    /* descriptor 3 of the child: the report pipe (the user's own, inheritable on purpose) */
    {
      int lo[2];
      if (__real_pipe2(lo, O_CLOEXEC) != 0) { OUT("!pipe "); return; }
      rep[0] = __real_fcntl64(lo[0], F_DUPFD_CLOEXEC, PRIV); rep[1] = __real_fcntl64(lo[1], F_DUPFD_CLOEXEC, PRIV);
      close(lo[0]); close(lo[1]);
    }
    sc[n].flags = UV_INHERIT_FD; sc[n].data.fd = rep[1];
    snprintf(sd + strlen(sd), sizeof sd - strlen(sd), ",h");
    n++;
    /* what the child must find open: 0-2 always, a higher slot unless ignored, the report pipe */
    for (i = 0; i < n; i++)
      if (i < 3 || sc[i].flags != UV_IGNORE)
        snprintf(expect + strlen(expect), sizeof expect - strlen(expect), "%s%d", i ? "," : "", i);
    len = readlink("/proc/self/exe", exe, sizeof exe - 1);
    exe[len > 0 ? len : 0] = 0;
    memset(&o, 0, sizeof o);
    o.file = !strcmp(mode, "ne") ? "/nonexistent/c15_child" : exe;
    snprintf(rslot, sizeof rslot, "%d", n - 1);
    args[0] = (char*) o.file; args[1] = "--child"; args[2] = rslot; args[3] = NULL;
    o.args = args; o.exit_cb = exit_cb; o.stdio = sc; o.stdio_count = n;
    BEGIN(); rc = uv_spawn(&loop, (uv_process_t*) hs[h], &o); registered(h);
    /* descriptors that were only lent to uv_spawn must still be open and the same files */
    for (i = 0; i < n; i++) {
      int lent = -1;
      if (sc[i].flags & UV_INHERIT_STREAM) lent = sc[i].data.stream->io_watcher.fd;
      else if ((sc[i].flags & UV_INHERIT_FD) && sc[i].data.fd < PRIV) lent = sc[i].data.fd;
      if (lent >= 0 && lent < MAXFD && (__real_fcntl64(lent, F_GETFD, 0) < 0 || !same_file(lent)))
        OUT("!stolen%d ", lent);
    }
    END("sp:%d:%s:%d=%d", midx[h], sd, rc == 0, rc);
    close(rep[1]);
    if (rc == 0) {
      char buf[1024]; size_t got = 0; ssize_t r;
      pending++;
      while ((r = read(rep[0], buf + got, sizeof buf - 1 - got)) > 0) got += r;
    (void) streams;
      buf[got] = 0;
      OUT("{ C%s/%s }-=0 ", got ? buf : "-", expect);
    }
    close(rep[0]);
    return;
  }

  if (hs[h] == NULL && t[0] != 'A') { OUT("{ }-=skip "); return; }

  if (t[0] == 'X') {
    BEGIN(); uv_close(hs[h], close_cb); END("cl:%d=0", midx[h]);
    pending++;
    hs[h] = NULL;   /* memory intentionally not reused: freed by the OS at worker exit */
    return;
  }
  if (t[0] == 'A') {                               /* A<srv>:<cli> */
    int c = atoi(arg);
    if (hs[h] == NULL || c < 0 || c >= NH || hs[c] == NULL) { OUT("{ }-=skip "); return; }
    BEGIN(); rc = uv_accept((uv_stream_t*) hs[h], (uv_stream_t*) hs[c]); END("ac:%d:%d:%d=%d", midx[h], midx[c], rc == 0, rc);
    return;
  }

  switch (t[0]) {
  case 't':
    if (hkind[h] != 't') break;
    if (t[1] == 'b') {
      struct sockaddr_in sa = loopback(0);
      if (t[2] == 'x' || (colon && arg[0] == 'x')) inet_pton(AF_INET, "1.2.3.4", &sa.sin_addr);
      BEGIN(); rc = uv_tcp_bind((uv_tcp_t*) hs[h], (struct sockaddr*) &sa, 0); END("en:%d:%d=%d", midx[h], rc == 0, rc);
      return;
    }
    if (t[1] == 'l') {
      BEGIN(); rc = uv_listen((uv_stream_t*) hs[h], 16, conn_cb); END("en:%d:%d=%d", midx[h], rc == 0, rc);
      return;
    }
    if (t[1] == 'c') {                              /* tc<h>:<srv> | tc<h>:x */
      struct sockaddr_in sa = loopback(1);
      int srv = -1;
      if (arg[0] != 'x') {
        struct sockaddr_in me; int len = sizeof me;
        srv = atoi(arg);
        if (srv < 0 || srv >= NH || hs[srv] == NULL || hkind[srv] != 't' ||
            uv_tcp_getsockname((uv_tcp_t*) hs[srv], (struct sockaddr*) &me, &len) != 0) srv = -1;
        else sa = loopback(ntohs(me.sin_port));
      }
      creq[h].data = (void*) (long) srv;
      BEGIN(); rc = uv_tcp_connect(&creq[h], (uv_tcp_t*) hs[h], (struct sockaddr*) &sa, connect_cb);
      END("en:%d:%d=%d", midx[h], rc == 0, rc);
      if (rc == 0) {
        pending++;
        if (srv >= 0 && ((uv_stream_t*) hs[srv])->connection_cb != NULL) { conn_expected[srv]++; pending++; }
      }
      return;
    }
    if (t[1] == 'o') {
      int fd = source_fd(arg, desc, sizeof desc);
      if (fd < 0) { OUT("{ }-=skip "); return; }
      /* the descriptor belongs to the handle only if the call returns 0; otherwise it stays the caller's */
      BEGIN(); rc = uv_tcp_open((uv_tcp_t*) hs[h], fd); END("op:%d:%s:%d=%d", midx[h], desc, rc == 0, rc);
      if (rc == 0 && arg[0] == 'g') given[atoi(arg + 1)] = -1;
      if (rc == 0 && fd > 2 && fd < MAXFD) tab[fd] = ST_LIBUV;
      return;
    }
    if (t[1] == 'n') {          /* remembered until the handle gets a socket */
      BEGIN(); rc = uv_tcp_nodelay((uv_tcp_t*) hs[h], 1); END("-=%d", rc);
      return;
    }
    if (t[1] == 'k') {
      BEGIN(); rc = uv_tcp_keepalive((uv_tcp_t*) hs[h], 1, 60); END("-=%d", rc);
      return;
    }
    break;
  case 'p':
    if (hkind[h] != 'p') break;
    if (t[1] == 'b') {
      char p[512];
      snprintf(p, sizeof p, "%s/%sp%d", g_dir, (t[2] == 'x' || arg[0] == 'x') ? "nonexistent/" : "", h);
      BEGIN(); rc = uv_pipe_bind((uv_pipe_t*) hs[h], p); END("pb:%d:%d=%d", midx[h], rc == 0, rc);
      return;
    }
    if (t[1] == 'l') {
      BEGIN(); rc = uv_listen((uv_stream_t*) hs[h], 16, conn_cb); END("-=%d", rc);
      return;
    }
    if (t[1] == 'c') {                              /* pc<h>:<srv> | pc<h>:x */
      char p[512];
      int srv = arg[0] == 'x' ? -1 : atoi(arg);
      snprintf(p, sizeof p, "%s/p%d", g_dir, srv < 0 ? 99 : srv);
      creq[h].data = (void*) (long) ((srv >= 0 && srv < NH && hs[srv] != NULL) ? srv : -1);
      BEGIN(); uv_pipe_connect(&creq[h], (uv_pipe_t*) hs[h], p, connect_cb);
      rc = stream_fd_of(h) >= 0 ? 0 : -1;
      END("en:%d:1=%d", midx[h], rc);
      pending++;
      srv = (int) (long) creq[h].data;
      if (rc == 0 && srv >= 0 && ((uv_stream_t*) hs[srv])->connection_cb != NULL &&
          ((uv_stream_t*) hs[srv])->io_watcher.fd >= 0) { conn_expected[srv]++; pending++; }
      return;
    }
    if (t[1] == 'o') {
      int fd = source_fd(arg, desc, sizeof desc);
      if (fd < 0) { OUT("{ }-=skip "); return; }
      BEGIN(); rc = uv_pipe_open((uv_pipe_t*) hs[h], fd); END("op:%d:%s:%d=%d", midx[h], desc, rc == 0, rc);
      if (rc == 0 && arg[0] == 'g') given[atoi(arg + 1)] = -1;
      if (rc == 0 && fd > 2 && fd < MAXFD) tab[fd] = ST_LIBUV;
      return;
    }
    break;
  case 'u':
    if (hkind[h] != 'u') break;
    if (t[1] == 'b') {
      struct sockaddr_in sa = loopback(0);
      if (arg[0] == 'x') inet_pton(AF_INET, "1.2.3.4", &sa.sin_addr);
      BEGIN(); rc = uv_udp_bind((uv_udp_t*) hs[h], (struct sockaddr*) &sa, 0); END("en:%d:%d=%d", midx[h], rc == 0, rc);
      return;
    }
    if (t[1] == 'c') {
      struct sockaddr_in sa = loopback(9);
      BEGIN(); rc = uv_udp_connect((uv_udp_t*) hs[h], (struct sockaddr*) &sa); END("en:%d:%d=%d", midx[h], rc == 0, rc);
      return;
    }
    if (t[1] == 's') {
      struct sockaddr_in sa = loopback(9);
      uv_buf_t bf = uv_buf_init("x", 1);
      BEGIN(); rc = uv_udp_try_send((uv_udp_t*) hs[h], &bf, 1, (struct sockaddr*) &sa);
      END("en:%d:%d=%d", midx[h], rc >= 0, rc >= 0 ? 0 : rc);
      return;
    }
    if (t[1] == 'o') {
      int fd = source_fd(arg, desc, sizeof desc);
      if (fd < 0) { OUT("{ }-=skip "); return; }
      BEGIN(); rc = uv_udp_open((uv_udp_t*) hs[h], fd); END("op:%d:%s:%d=%d", midx[h], desc, rc == 0, rc);
      if (rc == 0 && arg[0] == 'g') given[atoi(arg + 1)] = -1;
      if (rc == 0 && fd > 2 && fd < MAXFD) tab[fd] = ST_LIBUV;    /* 0-2 stay the caller's */
      return;
    }
    break;
  case 'o':
    if (t[1] == 's' && hkind[h] == 'o') { BEGIN(); rc = uv_poll_start((uv_poll_t*) hs[h], UV_READABLE, nop_poll_cb); END("-=%d", rc); return; }
    break;
  case 's':
    if (t[1] == 's' && hkind[h] == 's') { BEGIN(); rc = uv_signal_start((uv_signal_t*) hs[h], nop_signal_cb, SIGUSR2); END("-=%d", rc); return; }
    break;
  case 'm':
    if (t[1] == 's' && hkind[h] == 'm') { BEGIN(); rc = uv_timer_start((uv_timer_t*) hs[h], timer_cb, 0, 0); END("-=%d", rc); if (rc == 0) pending++; return; }
    break;
  case 'e':
    if (t[1] == 's' && hkind[h] == 'e') { BEGIN(); rc = uv_fs_event_start((uv_fs_event_t*) hs[h], nop_fsevent_cb, g_dir, 0); END("fe:%d=%d", midx[h], rc); return; }
    break;
  case 'f':
    if (t[1] == 's' && hkind[h] == 'f') { BEGIN(); rc = uv_fs_poll_start((uv_fs_poll_t*) hs[h], nop_fspoll_cb, g_dir, 100000); END("-=%d", rc); return; }
    break;
  case 'i':
    if (t[1] == 's' && hkind[h] == 'i') { BEGIN(); rc = uv_idle_start((uv_idle_t*) hs[h], nop_idle_cb); END("-=%d", rc); return; }
    break;
  case 'w':                                         /* w2<h>:<send> */
    if (t[1] == '2' && hkind[h] == 'p') {
      int s = atoi(arg);
      uv_buf_t bf = uv_buf_init("x", 1);
      if (s < 0 || s >= NH || hs[s] == NULL) { OUT("{ }-=skip "); return; }
      BEGIN(); rc = uv_write2(&wreq[h], (uv_stream_t*) hs[h], &bf, 1, (uv_stream_t*) hs[s], write_cb); END("-=%d", rc);
      if (rc == 0) { pending++; writes_ok++; }
      return;
    }
    break;
  case 'r':                                         /* rs<h>[:n]  read, expecting n callbacks */
    if (t[1] == 's' && (hkind[h] == 'p' || hkind[h] == 't')) {
      BEGIN(); rc = uv_read_start((uv_stream_t*) hs[h], alloc_cb, read_cb); END("-=%d", rc);
      if (rc == 0 && arg[0] && writes_ok > 0) { read_expected[h] += atoi(arg); pending += atoi(arg); writes_ok--; }
      return;
    }
    break;
  }
  OUT("!badtoken:%s ", t);
}

static int worker(char* line, int resfd) {
  char* tok;
  char* sv = NULL;
  int fd, i;
  for (fd = 0; fd < MAXFD; fd++)
    if (__real_fcntl64(fd, F_GETFD, 0) >= 0) { tab[fd] = fd >= PRIV ? ST_PRIV : ST_USER; remember(fd); }
  for (i = 0; i < NH; i++) given[i] = -1;
  g_pid = getpid();
  g_main = pthread_self();
  uv_replace_allocator(my_malloc, my_realloc, my_calloc, free);
  g_resfd = resfd;
  signal(SIGABRT, died); signal(SIGSEGV, died); signal(SIGBUS, died); signal(SIGFPE, died);
  signal(SIGILL, died); signal(SIGALRM, died);
  alarm(60);
  print_table("I");
  for (tok = strtok_r(line, " \t\r\n", &sv); tok != NULL; tok = strtok_r(NULL, " \t\r\n", &sv)) {
    g_cur_token = tok;
    run_token(tok);
  }
  reconcile();
  print_table("T");
  out[outn++] = '\n';
  { size_t off = 0; while (off < outn) { ssize_t w = write(resfd, out + off, outn - off); if (w <= 0) break; off += w; } }
  return 0;
}

static int child_main(int rfd) {
  char buf[1024];
  int fd, n = 0;
  for (fd = 0; fd < MAXFD; fd++)
    if (fcntl(fd, F_GETFD) >= 0) n += snprintf(buf + n, sizeof buf - n, "%s%d", n ? "," : "", fd);
  { ssize_t w = write(rfd, buf, n); (void) w; }
  return 0;
}

int main(int argc, char** argv) {
  static char line[1 << 14];
  int resfd;
  g_main = pthread_self();
  if (argc >= 2 && !strcmp(argv[1], "--child")) return child_main(argc >= 3 ? atoi(argv[2]) : 3);
  if (argc < 2) return 2;
  g_dir = argv[1];
  resfd = fcntl(1, F_DUPFD_CLOEXEC, PRIV + 50);
  if (resfd < 0) return 2;
  while (fgets(line, sizeof line, stdin) != NULL) {
    pid_t pid;
    int st;
    fflush(stdout);
    pid = fork();
    if (pid == 0) _exit(worker(line, resfd));
    if (pid < 0) return 2;
    while (waitpid(pid, &st, 0) < 0 && errno == EINTR) ;
    if (!WIFEXITED(st) || WEXITSTATUS(st) != 0) {
      char msg[64];
      int n = snprintf(msg, sizeof msg, "CRASH %d\n", WIFSIGNALED(st) ? WTERMSIG(st) : -WEXITSTATUS(st));
      ssize_t w = write(resfd, msg, n); (void) w;
    }
  }
  return 0;
}
