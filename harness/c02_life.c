/* C02 lifecycle harness: runs a scripted program against the freshly built
 * libuv (asan flavour).  Every libuv handle and every request is its own
 * malloc block, freed inside its close / request callback, so that any later
 * access by libuv is an AddressSanitizer report.  Every user callback goes
 * through the lifecycle monitor (cb_enter).  One case per stdin line, one
 * result line per case; each case runs in a forked child so that an abort is
 * attributed to its case ("ABORT:<why>" ends the line).
 *
 * Link with -Wl,--wrap=write,--wrap=writev,--wrap=sendmsg,--wrap=sendmmsg,--wrap=socket
 * env: C02_SCRATCH = directory for socket files / watched files / stderr capture.
 *
 * case   := ops ';' binding ('|' binding)*
 * binding:= ('H'|'Q'|'K') id '=' ops      (first handle callback / request callback / close callback)
 * Tokens printed: see checks/c02.py (those starting with '.' or '!' are harness-only).
 */
#define _GNU_SOURCE
#include <stdio.h>
#include <stdlib.h>
#include <string.h>
#include <stdarg.h>
#include <errno.h>
#include <unistd.h>
#include <fcntl.h>
#include <signal.h>
#include <dirent.h>
#include <semaphore.h>
#include <sys/socket.h>
#include <sys/uio.h>
#include <sys/un.h>
#include <sys/wait.h>
#include <sys/eventfd.h>
#include <sys/stat.h>
#include <termios.h>
#include <pty.h>
#include <netinet/in.h>
#include <arpa/inet.h>
#include "uv.h"
#include "uv-common.h"   /* UV_HANDLE_INTERNAL, uv__queue_empty: observation mode only */

#define MAXH 48
#define MAXR 96
#define MAXFD 4096
#define BIGBUF (16u << 20)

struct H {
  int id; char kind; int inited, closing, closed, beh_done;
  uv_handle_t* uv;                 /* own block; freed in close_cb (pointer value kept for look-up) */
  int fd; char link[80];           /* res 0: descriptor libuv owns for this handle */
  int afd; char alink[80];         /* res 1: accepted_fd */
  int efd;                         /* poll: the harness's eventfd */
  char path[300]; int bound;       /* res 3: the socket file the bind created (as found in the directory); also the watched path */
  int watch, epoll, sigact;        /* res 4, 5, 6 */
  int signum, port, pid, listening, fp_started;
  int blocked;                     /* udp: sendmsg/sendmmsg on this handle answer EAGAIN */
  int rawfd;                       /* pipe: the harness's raw end of a socketpair; tty: the pty master */
  int tmode;                       /* tty: 0 normal, 1 raw (uv_tty_set_mode succeeded) */
  int wreq[MAXR]; size_t wsize[MAXR]; int wn, whead; size_t acc;  /* writes/sends not yet finished at the syscall */
};
struct R { int id, hid, done; char kind; void* uv; };

static struct H HT[MAXH]; static int nh;
static struct R RT[MAXR]; static int nr;
static char* behH[MAXH]; static char* behK[MAXH]; static char* behQ[1024];
static uv_loop_t* loop;
static uv_check_t mark_check; static uv_prepare_t mark_prepare;
static char* bigbuf; static char rdbuf[65536];
static const char* scratch;
static int fd2h[MAXFD];
static int udp_block, quiet, depth, in_close_call, pool_blocked, fp_unfenced, poll_ended;
static int obs_mode, in_close_batch, loop_closed;   /* C02_OBS=1: liveness observations for C01 */
static int closing_phase;   /* between the marker check callback and the next ordinary callback / prepare / uv_run return */
static sem_t blocker_sem;
static int rawl_fd = -1, rawl_port, rawl_fill[4];
static int tty_holder = -1;   /* the tty handle registered for uv_tty_reset_mode(): the first that went raw */

/* ---------------------------------------------------------------- output */
static char ypend[64][40]; static int nyp;
static void flush_y(void) { int i; for (i = 0; i < nyp; i++) fputs(ypend[i], stdout); nyp = 0; }
static void tok(const char* fmt, ...) {
  va_list ap;
  if (quiet && fmt[0] != '!') return;
  flush_y();
  va_start(ap, fmt); vprintf(fmt, ap); va_end(ap); putchar(' ');
  if (fmt[0] == '!') fflush(stdout);     /* a verdict of the lifecycle monitor survives a later abort */
}
static void tok_then_y(const char* fmt, ...) {   /* the echo of a submit, then what its syscall finished */
  va_list ap;
  if (quiet) { nyp = 0; return; }
  va_start(ap, fmt); vprintf(fmt, ap); va_end(ap); putchar(' ');
  flush_y();
}
static void ylog(int r, long st) {
  if (quiet) return;
  if (nyp < 64) snprintf(ypend[nyp++], 40, "y%d,%ld ", r, st);
}

/* ---------------------------------------------------------------- observation mode (C01)
 * o<active_handles>,<active_reqs>,<uv_loop_alive>,<pending_queue non-empty>,<inside a close callback>,
 *  <loop->closing_handles non-NULL>;<kind><active><ref><closing><closed>...   one group per handle the
 * harness knows, in creation order; a handle whose close callback ran (its memory is gone) or whose init
 * failed is printed as <kind>0011. */
static void emit_obs(void);

/* ---------------------------------------------------------------- descriptors */
static int fd_link(int fd, char* out, size_t n) {
  char p[64]; ssize_t k;
  snprintf(p, sizeof p, "/proc/self/fd/%d", fd);
  k = readlink(p, out, n - 1);
  if (k < 0) { out[0] = 0; return -1; }
  out[k] = 0; return 0;
}
/* is an object with this identity still open under any number? */
static int link_open(const char* link) {
  DIR* d = opendir("/proc/self/fd"); struct dirent* e; char l[80]; int found = 0;
  if (!d || !link[0]) { if (d) closedir(d); return 0; }
  while ((e = readdir(d))) {
    if (e->d_name[0] == '.') continue;
    if (fd_link(atoi(e->d_name), l, sizeof l) == 0 && strcmp(l, link) == 0) found = 1;
  }
  closedir(d); return found;
}
static int count_fds(void) {
  DIR* d = opendir("/proc/self/fd"); struct dirent* e; int n = 0;
  while ((e = readdir(d))) if (e->d_name[0] != '.') n++;
  closedir(d); return n - 1;
}
/* does /proc/self/fdinfo/<fd> contain a line starting with [prefix]? (count) */
static int fdinfo_count(int fd, const char* prefix) {
  char p[64], line[512]; FILE* f; int n = 0;
  snprintf(p, sizeof p, "/proc/self/fdinfo/%d", fd);
  f = fopen(p, "r"); if (!f) return 0;
  while (fgets(line, sizeof line, f)) if (strncmp(line, prefix, strlen(prefix)) == 0) n++;
  fclose(f); return n;
}
/* is there an entry of this name in the case's working directory? (scan, not stat) */
static int dir_has(const char* name) {
  DIR* d = opendir("."); struct dirent* e; int found = 0;
  if (!d) return 0;
  while ((e = readdir(d))) if (strcmp(e->d_name, name) == 0) found = 1;
  closedir(d); return found;
}
/* the names in the working directory, '\n'-separated */
static void dir_list(char* out, size_t n) {
  DIR* d = opendir("."); struct dirent* e; size_t k = 0;
  out[0] = 0; if (!d) return;
  while ((e = readdir(d))) {
    size_t l = strlen(e->d_name);
    if (e->d_name[0] == '.' && (l == 1 || (l == 2 && e->d_name[1] == '.'))) continue;
    if (k + l + 2 >= n) break;
    memcpy(out + k, e->d_name, l); k += l; out[k++] = '\n'; out[k] = 0;
  }
  closedir(d);
}
/* the entry that is in the directory now but not in the listing [before] */
static int dir_new(const char* before, char* out, size_t n) {
  static char now[1 << 15]; char* p; char* save = NULL; int cnt = 0;
  dir_list(now, sizeof now);
  for (p = strtok_r(now, "\n", &save); p; p = strtok_r(NULL, "\n", &save)) {
    const char* q = before; size_t l = strlen(p); int seen = 0;
    while (*q) {
      const char* e = strchr(q, '\n'); size_t m = e ? (size_t) (e - q) : strlen(q);
      if (m == l && memcmp(q, p, l) == 0) { seen = 1; break; }
      q = e ? e + 1 : q + m;
    }
    if (!seen) { if (cnt == 0) snprintf(out, n, "%s", p); cnt++; }
  }
  return cnt;
}
static int inotify_watches(void) {
  DIR* d = opendir("/proc/self/fd"); struct dirent* e; char l[80]; int n = 0;
  while ((e = readdir(d))) {
    if (e->d_name[0] == '.') continue;
    if (fd_link(atoi(e->d_name), l, sizeof l) == 0 && strcmp(l, "anon_inode:inotify") == 0)
      n += fdinfo_count(atoi(e->d_name), "inotify wd:");
  }
  closedir(d); return n;
}
static int epoll_has(int fd) {
  char pre[32]; snprintf(pre, sizeof pre, "tfd: %8d ", fd);
  return fdinfo_count(loop->backend_fd, pre) > 0;
}

static void note_fd(struct H* h) {
  uv_os_fd_t fd;
  if (h->fd >= 0 || h->closing) return;
  if (uv_fileno(h->uv, &fd) != 0 || fd < 0) return;
  h->fd = fd; fd_link(fd, h->link, sizeof h->link);
  if (fd < MAXFD) fd2h[fd] = h->id;
  tok("B%d,0", h->id);
}

/* ---------------------------------------------------------------- syscall wrappers */
ssize_t __real_write(int, const void*, size_t);
ssize_t __real_writev(int, const struct iovec*, int);
ssize_t __real_sendmsg(int, const struct msghdr*, int);
int __real_sendmmsg(int, struct mmsghdr*, unsigned, int);
int __real_socket(int, int, int);
static int fail_socket;   /* the next socket() calls fail with EMFILE */
int __wrap_socket(int d, int t, int p) {
  if (fail_socket > 0) { fail_socket--; errno = EMFILE; return -1; }
  return __real_socket(d, t, p);
}

static void wrote(int fd, ssize_t r, int err) {
  struct H* h;
  if (fd < 0 || fd >= MAXFD || fd2h[fd] < 0) return;
  h = &HT[fd2h[fd]];
  if (h->closing || h->fd != fd || (h->kind != 'T' && h->kind != 'P' && h->kind != 'Y')) return;
  if (r > 0) {
    h->acc += (size_t) r;
    while (h->whead < h->wn && h->acc >= h->wsize[h->whead]) {
      h->acc -= h->wsize[h->whead]; ylog(h->wreq[h->whead], 0); h->whead++;
    }
  } else if (r < 0 && err != EAGAIN && err != EWOULDBLOCK && err != ENOBUFS && err != EINTR) {
    if (h->whead < h->wn) { h->acc = 0; ylog(h->wreq[h->whead], -err); h->whead++; }
  }
}
ssize_t __wrap_write(int fd, const void* b, size_t n) {
  ssize_t r = __real_write(fd, b, n); int e = errno;
  if (fd >= 0 && fd < MAXFD && fd2h[fd] >= 0) wrote(fd, r, e);
  errno = e; return r;
}
ssize_t __wrap_writev(int fd, const struct iovec* v, int n) {
  ssize_t r = __real_writev(fd, v, n); int e = errno;
  if (fd >= 0 && fd < MAXFD && fd2h[fd] >= 0) wrote(fd, r, e);
  errno = e; return r;
}
static struct H* udp_of(int fd) {
  struct H* h;
  if (fd < 0 || fd >= MAXFD || fd2h[fd] < 0) return NULL;
  h = &HT[fd2h[fd]];
  return (h->kind == 'U' && h->fd == fd && !h->closing) ? h : NULL;
}
static void sent(struct H* h, int n, int err) {
  if (n > 0) while (n-- > 0 && h->whead < h->wn) { ylog(h->wreq[h->whead], (long) h->wsize[h->whead]); h->whead++; }
  else if (n < 0 && err != EAGAIN && err != EWOULDBLOCK && err != ENOBUFS && err != EINTR)
    if (h->whead < h->wn) { ylog(h->wreq[h->whead], -err); h->whead++; }
}
ssize_t __wrap_sendmsg(int fd, const struct msghdr* m, int fl) {
  struct H* h = udp_of(fd); ssize_t r; int e;
  if (h && (udp_block || h->blocked)) { errno = EAGAIN; return -1; }
  r = __real_sendmsg(fd, m, fl); e = errno;
  if (h) sent(h, r >= 0 ? 1 : -1, e);
  errno = e; return r;
}
int __wrap_sendmmsg(int fd, struct mmsghdr* m, unsigned n, int fl) {
  struct H* h = udp_of(fd); int r, e;
  if (h && (udp_block || h->blocked)) { errno = EAGAIN; return -1; }
  r = __real_sendmmsg(fd, m, n, fl); e = errno;
  if (h) sent(h, r, e);
  errno = e; return r;
}

static void emit_obs(void) {
  static char buf[4096]; int i, k;
  if (!obs_mode || quiet || loop_closed) return;
  k = snprintf(buf, sizeof buf, "o%u,%u,%d,%d,%d,%d;", loop->active_handles, loop->active_reqs.count,
               uv_loop_alive(loop) ? 1 : 0, uv__queue_empty(&loop->pending_queue) ? 0 : 1,
               in_close_batch ? 1 : 0, loop->closing_handles != NULL ? 1 : 0);
  for (i = 0; i < nh && k < (int) sizeof buf - 8; i++) {
    struct H* h = &HT[i];
    if (h->closed || !h->inited)
      k += snprintf(buf + k, sizeof buf - k, "%c0011", h->kind);
    else
      k += snprintf(buf + k, sizeof buf - k, "%c%d%d%d0", h->kind, uv_is_active(h->uv) ? 1 : 0,
                    uv_has_ref(h->uv) ? 1 : 0, uv_is_closing(h->uv) ? 1 : 0);
  }
  tok("%s", buf);
}

/* ---------------------------------------------------------------- lifecycle monitor */
static void do_ops(const char* ops, int in_cb);
struct H; static void tty_after_close(struct H* h);

static struct H* find_h(void* p) {
  int i; struct H* late = NULL;
  for (i = 0; i < nh; i++) if (HT[i].uv == p) { if (!HT[i].closed) return &HT[i]; late = &HT[i]; }
  return late;
}
static struct R* find_r(void* p) {
  int i; struct R* late = NULL;
  for (i = 0; i < nr; i++) if (RT[i].uv == p) { if (!RT[i].done) return &RT[i]; late = &RT[i]; }
  return late;
}
static void cb_enter(void) {
  if (in_close_call) tok("!reentrant-callback-inside-uv_close");
  if (depth > 0) tok("!nested-callback");
  depth++;
}
static void cb_leave(void) { depth--; }
static void run_beh(char** slot) {
  if (*slot && !quiet) { char* b = *slot; *slot = NULL; do_ops(b, 1); }
}

/* a normal callback of handle [p] */
static void handle_cb(void* p) {
  struct H* h = find_h(p);
  cb_enter();
  if (!h) tok("!callback-for-unknown-handle");
  else if (h->closed) tok("!late%d", h->id);   /* after close_cb */
  else {
    closing_phase = 0;
    tok("h%d", h->id); emit_obs(); tok("{");
    run_beh(&behH[h->id]);
    tok("}");
  }
  cb_leave();
}
/* alloc callbacks are monitored but not part of the trace */
static void alloc_cb(uv_handle_t* p, size_t sz, uv_buf_t* buf) {
  struct H* h = find_h(p);
  if (h && h->closed) tok("!late%d", h->id);
  (void) sz; *buf = uv_buf_init(rdbuf, sizeof rdbuf);
}
static void req_cb(void* p, int status) {
  struct R* r = find_r(p); struct H* h;
  cb_enter();
  if (!r) tok("!callback-for-unknown-request");
  else if (r->done) tok("!twice%d", r->id);
  else {
    h = &HT[r->hid];
    r->done = 1;
    if (h->closed) tok("!reqlate%d", r->id);
    tok("%c%d,%d", h->closing ? 'x' : 'q', r->id, status);
    free(r->uv);                                 /* the request block dies inside its callback */
    /* a callback run by uv__finish_close (uv__stream_destroy / uv__udp_finish_close) is inside the close batch too */
    if (h->closing && closing_phase) in_close_batch++;
    emit_obs();
    if (h->closing && closing_phase) in_close_batch--;
    tok("{");
    if (r->id < 1024) run_beh(&behQ[r->id]);
    tok("}");
  }
  cb_leave();
}
static void on_close(uv_handle_t* p) {
  struct H* h = find_h(p); int i;
  cb_enter();
  if (!h) tok("!close_cb-for-unknown-handle");
  else if (h->closed) tok("!closetwice%d", h->id);
  else if (!h->closing) tok("!close_cb-without-uv_close%d", h->id);
  else {
    /* resources: gone by now? */
    if (h->kind == 'Y' && h->efd >= 0) { close(h->efd); h->efd = -1; }   /* the harness's own slave fd has the same identity */
    if (h->fd >= 0 && h->kind != 'o' && link_open(h->link)) tok("L%d,0", h->id);
    if (h->kind == 'Y') tty_after_close(h);
    if (h->afd >= 0 && link_open(h->alink)) tok("L%d,1", h->id);
    if (h->bound && dir_has(h->path)) tok("L%d,3", h->id);
    if (h->watch) {
      int others = 0;
      for (i = 0; i < nh; i++) if (i != h->id && HT[i].watch && !HT[i].closing) others++;
      if (inotify_watches() != others) tok("L%d,4", h->id);
    }
    if (h->epoll && epoll_has(h->efd)) tok("L%d,5", h->id);
    if (h->sigact) {
      int others = 0; struct sigaction sa;
      for (i = 0; i < nh; i++) if (i != h->id && HT[i].sigact && !HT[i].closing && HT[i].signum == h->signum) others++;
      sigaction(h->signum, NULL, &sa);
      if (!others && sa.sa_handler != SIG_DFL) tok("L%d,6", h->id);
    }
    for (i = 0; i < nr; i++)
      if (RT[i].hid == h->id && !RT[i].done) tok("!owed%d", RT[i].id);   /* request callback still owed */
    h->closed = 1;
    tok("c%d", h->id);
    if (h->kind == 'o') close(h->efd);
    free(h->uv);                                 /* the handle block dies inside close_cb */
    in_close_batch++;
    emit_obs();
    tok("{");
    run_beh(&behK[h->id]);
    tok("}");
    in_close_batch--;
  }
  cb_leave();
}

/* after the close callback of a tty handle, when no live tty handle is registered for uv_tty_reset_mode():
 * libuv must not remember the closed handle's descriptor.  A fresh pty (made raw by the harness) is put on
 * the old descriptor number; uv_tty_reset_mode() must return 0 and leave its termios alone; with the number
 * free again it must still return 0.  Trace: .tr<rc with the number reused>,<termios unchanged>,<rc afterwards>;
 * a failure is resource 7 of the handle (the process-wide reset registration). */
static void tty_after_close(struct H* h) {
  int m = -1, sl = -1, rc1 = 0, rc2, same = 1, placed = 0;
  struct termios t0, t1;
  if (tty_holder == h->id) tty_holder = -1;
  if (tty_holder != -1) return;            /* a live handle holds the registration: resetting would disturb it */
  if (h->fd >= 0 && fcntl(h->fd, F_GETFD) == -1 && openpty(&m, &sl, NULL, NULL, NULL) == 0) {
    if (sl != h->fd) { if (dup2(sl, h->fd) == h->fd) { close(sl); sl = h->fd; } }
    if (sl == h->fd) {
      placed = 1;
      tcgetattr(sl, &t0); cfmakeraw(&t0); t0.c_cc[VMIN] = 3; tcsetattr(sl, TCSANOW, &t0);
      tcgetattr(sl, &t0);
      rc1 = uv_tty_reset_mode();
      tcgetattr(sl, &t1);
      same = t0.c_iflag == t1.c_iflag && t0.c_oflag == t1.c_oflag && t0.c_cflag == t1.c_cflag &&
             t0.c_lflag == t1.c_lflag && memcmp(t0.c_cc, t1.c_cc, sizeof t0.c_cc) == 0;
    }
    close(sl); close(m);
  }
  rc2 = uv_tty_reset_mode();
  tok(".tr%d,%d,%d,%d", placed, rc1, same, rc2);
  if (rc1 != 0 || rc2 != 0 || !same) tok("L%d,7", h->id);
}

static void timer_cb(uv_timer_t* t) { handle_cb(t); }
static void idle_cb(uv_idle_t* t) { handle_cb(t); }
static void prepare_cb(uv_prepare_t* t) { handle_cb(t); }
/* the first check callback of an iteration: the poll phase is over */
static void poll_end(void) { if (!poll_ended) { poll_ended = 1; tok(".E"); } }
static void check_cb(uv_check_t* t) { poll_end(); handle_cb(t); }
static void async_cb(uv_async_t* t) { handle_cb(t); }
static void poll_cb(uv_poll_t* t, int st, int ev) { (void) st; (void) ev; handle_cb(t); }
static void signal_cb(uv_signal_t* t, int n) { (void) n; handle_cb(t); }
static void conn_cb(uv_stream_t* t, int st) {
  struct H* h = find_h(t);
  (void) st;
  if (h && !h->closed && h->afd < 0) {
    int a = ((uv_stream_t*) h->uv)->accepted_fd;
    if (a >= 0) { h->afd = a; fd_link(a, h->alink, sizeof h->alink); tok("B%d,1", h->id); }
  }
  handle_cb(t);
}
static void read_cb(uv_stream_t* t, ssize_t n, const uv_buf_t* b) { (void) b; if (n != 0) handle_cb(t); }
static void recv_cb(uv_udp_t* t, ssize_t n, const uv_buf_t* b, const struct sockaddr* a, unsigned f) {
  (void) b; (void) f; if (n != 0 || a != NULL) handle_cb(t);
}
static void exit_cb(uv_process_t* t, int64_t st, int sig) { (void) st; (void) sig; handle_cb(t); }
static void fsev_cb(uv_fs_event_t* t, const char* f, int ev, int st) { (void) f; (void) ev; (void) st; handle_cb(t); }
static void fspoll_cb(uv_fs_poll_t* t, int st, const uv_stat_t* a, const uv_stat_t* b) {
  (void) st; (void) a; (void) b; handle_cb(t);
}
static void connect_cb(uv_connect_t* r, int st) { req_cb(r, st); }
static void write_cb(uv_write_t* r, int st) { req_cb(r, st); }
static void shutdown_cb(uv_shutdown_t* r, int st) { req_cb(r, st); }
static void send_cb(uv_udp_send_t* r, int st) { req_cb(r, st); }

/* markers: prepare = the poll phase is next, check = the closing phase is next */
static void mark_prepare_cb(uv_prepare_t* p) { (void) p; poll_ended = 0; closing_phase = 0; tok(".P"); }
static void mark_check_cb(uv_check_t* p) {
  int i; (void) p;
  poll_end();
  for (i = 0; i < nh; i++)
    if (HT[i].kind == 'g' && HT[i].closing && !HT[i].closed) {
      uv_signal_t* s = (uv_signal_t*) HT[i].uv;
      tok("g%d,%d", i, (int) (s->caught_signals - s->dispatched_signals));
    }
  tok("K");
  closing_phase = 1;
}

/* ---------------------------------------------------------------- pool control */
static void blocker_work(uv_work_t* w) { (void) w; while (sem_wait(&blocker_sem) != 0) {} }
static void fence_work(uv_work_t* w) { (void) w; }
static void free_work(uv_work_t* w, int st) { (void) st; free(w); }
static void pool_fence(void) {
  uv_work_t* w = malloc(sizeof *w);
  if (pool_blocked) { sem_post(&blocker_sem); pool_blocked = 0; }
  uv_queue_work(loop, w, fence_work, free_work);
  for (;;) {
    int done;
    uv_mutex_lock(&loop->wq_mutex);
    done = (w->work_req.work == NULL);
    uv_mutex_unlock(&loop->wq_mutex);
    if (done) break;
    sched_yield();
  }
  fp_unfenced = 0;
  tok(".W");
}

/* ---------------------------------------------------------------- raw listener that never accepts */
static void rawl_make(void) {
  struct sockaddr_in a; socklen_t l = sizeof a; int i;
  if (rawl_fd >= 0) return;
  rawl_fd = socket(AF_INET, SOCK_STREAM | SOCK_CLOEXEC, 0);
  memset(&a, 0, sizeof a); a.sin_family = AF_INET; a.sin_addr.s_addr = htonl(INADDR_LOOPBACK);
  bind(rawl_fd, (struct sockaddr*) &a, sizeof a); listen(rawl_fd, 0);
  getsockname(rawl_fd, (struct sockaddr*) &a, &l); rawl_port = ntohs(a.sin_port);
  for (i = 0; i < 4; i++) {       /* fill the accept queue so that further SYNs are dropped */
    rawl_fill[i] = socket(AF_INET, SOCK_STREAM | SOCK_NONBLOCK | SOCK_CLOEXEC, 0);
    connect(rawl_fill[i], (struct sockaddr*) &a, sizeof a);
  }
}

/* ---------------------------------------------------------------- operations */
static size_t handle_size(char k) {
  switch (k) {
  case 't': return sizeof(uv_timer_t); case 'i': return sizeof(uv_idle_t);
  case 'p': return sizeof(uv_prepare_t); case 'c': return sizeof(uv_check_t);
  case 'a': return sizeof(uv_async_t); case 'o': return sizeof(uv_poll_t);
  case 'g': return sizeof(uv_signal_t); case 'T': return sizeof(uv_tcp_t);
  case 'P': return sizeof(uv_pipe_t); case 'U': return sizeof(uv_udp_t);
  case 'x': return sizeof(uv_process_t); case 'e': return sizeof(uv_fs_event_t);
  case 'f': return sizeof(uv_fs_poll_t);
  case 'Y': return sizeof(uv_tty_t);
  }
  return 0;
}
static char model_type(char k) {
  switch (k) { case 'T': case 'P': case 'Y': return 's'; case 'U': return 'u'; case 'g': return 'g'; case 'f': return 'f'; }
  return 'm';
}
static int live(int i) { return i >= 0 && i < nh && HT[i].inited && !HT[i].closing; }
static struct R* new_req(int id, int hid, char kind, size_t sz) {
  struct R* r; int i;
  if (nr >= MAXR || id < 0) return NULL;
  for (i = 0; i < nr; i++) if (RT[i].id == id) return NULL;
  r = &RT[nr++]; r->id = id; r->hid = hid; r->kind = kind; r->done = 0; r->uv = calloc(1, sz);
  return r;
}
static void drop_req(struct R* r) { free(r->uv); r->uv = NULL; nr--; }

static void wait_child_exit(int pid) {
  siginfo_t si;
  while (waitid(P_PID, pid, &si, WEXITED | WNOWAIT) != 0 && errno == EINTR) {}
}

static void op_init(char k, int variant) {
  struct H* h; int rc = 0;
  if (nh >= MAXH || handle_size(k) == 0) return;
  h = &HT[nh]; memset(h, 0, sizeof *h);
  h->id = nh; h->kind = k; h->fd = h->afd = h->efd = h->rawfd = -1;
  h->uv = calloc(1, handle_size(k));
  switch (k) {
  case 't': rc = uv_timer_init(loop, (uv_timer_t*) h->uv); break;
  case 'i': rc = uv_idle_init(loop, (uv_idle_t*) h->uv); break;
  case 'p': rc = uv_prepare_init(loop, (uv_prepare_t*) h->uv); break;
  case 'c': rc = uv_check_init(loop, (uv_check_t*) h->uv); break;
  case 'a': rc = uv_async_init(loop, (uv_async_t*) h->uv, async_cb); break;
  case 'o': h->efd = eventfd(0, EFD_NONBLOCK | EFD_CLOEXEC); rc = uv_poll_init(loop, (uv_poll_t*) h->uv, h->efd); break;
  case 'g': rc = uv_signal_init(loop, (uv_signal_t*) h->uv); break;
  case 'T': rc = uv_tcp_init(loop, (uv_tcp_t*) h->uv); break;
  case 'P': rc = uv_pipe_init(loop, (uv_pipe_t*) h->uv, 0); break;
  case 'U': rc = uv_udp_init(loop, (uv_udp_t*) h->uv); break;
  case 'e': snprintf(h->path, sizeof h->path, "%s/e%d_%d", scratch, (int) getpid(), nh);
            close(open(h->path, O_CREAT | O_WRONLY, 0600));
            rc = uv_fs_event_init(loop, (uv_fs_event_t*) h->uv); break;
  case 'f': snprintf(h->path, sizeof h->path, "%s/f%d_%d", scratch, (int) getpid(), nh);
            rc = uv_fs_poll_init(loop, (uv_fs_poll_t*) h->uv); break;
  case 'Y': {   /* a tty handle on the slave of a fresh pty; the harness keeps the master and its own slave fd */
    int m, sl;
    if (openpty(&m, &sl, NULL, NULL, NULL) != 0) { tok(".nopty"); rc = UV_ENOENT; break; }
    fcntl(m, F_SETFD, FD_CLOEXEC); fcntl(sl, F_SETFD, FD_CLOEXEC); fcntl(m, F_SETFL, O_NONBLOCK);
    h->rawfd = m; h->efd = sl;
    rc = uv_tty_init(loop, (uv_tty_t*) h->uv, sl, 0);
    if (rc) { close(m); close(sl); h->rawfd = h->efd = -1; }
    break; }
  case 'x': {
    uv_process_options_t o; char* args[3]; char self[512]; ssize_t n;
    n = readlink("/proc/self/exe", self, sizeof self - 1); self[n > 0 ? n : 0] = 0;
    memset(&o, 0, sizeof o);
    args[0] = self; args[1] = variant ? "--child-exit" : "--child-wait"; args[2] = NULL;
    o.file = self; o.args = args; o.exit_cb = exit_cb;
    rc = uv_spawn(loop, (uv_process_t*) h->uv, &o);
    if (rc == 0) { h->pid = ((uv_process_t*) h->uv)->pid; if (variant) wait_child_exit(h->pid); }
    break; }
  }
  nh++;
  if (rc != 0) { tok(".init%d", rc); free(h->uv); h->uv = NULL; h->inited = 0; h->closing = h->closed = 1; tok("Im"); return; }
  h->inited = 1;
  tok("I%c", model_type(k));
  if (k == 'Y') note_fd(h);
}

static void op_start(int i, int arg) {
  struct H* h; int rc = 0;
  if (!live(i)) return;
  h = &HT[i];
  switch (h->kind) {
  case 't': rc = uv_timer_start((uv_timer_t*) h->uv, timer_cb, arg ? 100000000 : 0, 0); break;
  case 'i': rc = uv_idle_start((uv_idle_t*) h->uv, idle_cb); break;
  case 'p': rc = uv_prepare_start((uv_prepare_t*) h->uv, prepare_cb); break;
  case 'c': rc = uv_check_start((uv_check_t*) h->uv, check_cb); break;
  case 'a': rc = uv_async_send((uv_async_t*) h->uv); break;
  case 'o': rc = uv_poll_start((uv_poll_t*) h->uv, UV_READABLE, poll_cb);
            if (rc == 0 && !h->epoll) { h->epoll = 1; tok("B%d,5", i); } break;
  case 'g': if (h->sigact) break;
            h->signum = arg == 2 ? SIGUSR2 : SIGUSR1;
            rc = uv_signal_start((uv_signal_t*) h->uv, signal_cb, h->signum);
            if (rc == 0) { h->sigact = 1; tok("B%d,6", i); } break;
  case 'e': if (h->watch) break;
            if (arg == 9) {   /* a path that does not exist: the start fails, the handle stays usable */
              rc = uv_fs_event_start((uv_fs_event_t*) h->uv, fsev_cb, "no-such-dir/no-such-file", 0); break;
            }
            rc = uv_fs_event_start((uv_fs_event_t*) h->uv, fsev_cb, h->path, 0);
            if (rc == 0) { h->watch = 1; tok("B%d,4", i); } break;
  case 'f': if (arg) close(open(h->path, O_CREAT | O_WRONLY, 0600));
            rc = uv_fs_poll_start((uv_fs_poll_t*) h->uv, fspoll_cb, h->path, 100000000);
            if (rc == 0) { tok("F%d", i); if (pool_blocked) fp_unfenced = 1; else pool_fence(); }
            break;
  case 'T': case 'P': case 'Y': rc = uv_read_start((uv_stream_t*) h->uv, alloc_cb, read_cb); break;
  case 'U': rc = uv_udp_recv_start((uv_udp_t*) h->uv, alloc_cb, recv_cb); note_fd(h); break;
  }
  if (rc) tok(".s%d", rc);
}

static void op_stop(int i) {
  struct H* h;
  if (!live(i)) return;
  h = &HT[i];
  switch (h->kind) {
  case 't': uv_timer_stop((uv_timer_t*) h->uv); break;
  case 'i': uv_idle_stop((uv_idle_t*) h->uv); break;
  case 'p': uv_prepare_stop((uv_prepare_t*) h->uv); break;
  case 'c': uv_check_stop((uv_check_t*) h->uv); break;
  case 'o': uv_poll_stop((uv_poll_t*) h->uv); if (h->epoll) { h->epoll = 0; tok("E%d,5", i); } break;
  case 'g': uv_signal_stop((uv_signal_t*) h->uv); if (h->sigact) { h->sigact = 0; tok("E%d,6", i); } break;
  case 'e': uv_fs_event_stop((uv_fs_event_t*) h->uv); if (h->watch) { h->watch = 0; tok("E%d,4", i); } break;
  case 'f': uv_fs_poll_stop((uv_fs_poll_t*) h->uv); tok("T%d", i); break;
  case 'T': case 'P': case 'Y': uv_read_stop((uv_stream_t*) h->uv); break;
  case 'U': uv_udp_recv_stop((uv_udp_t*) h->uv); break;
  }
}

static int sig_watched(int signum) {
  int i;
  for (i = 0; i < nh; i++) if (HT[i].kind == 'g' && HT[i].sigact && !HT[i].closing && HT[i].signum == signum) return 1;
  return 0;
}

static void op_poke(int i) {
  struct H* h; uint64_t one = 1;
  if (!live(i)) return;
  h = &HT[i];
  switch (h->kind) {
  case 'o': __real_write(h->efd, &one, sizeof one); break;
  case 'e': { int fd = open(h->path, O_WRONLY | O_APPEND); if (fd >= 0) { __real_write(fd, "x", 1); close(fd); } break; }
  case 'a': uv_async_send((uv_async_t*) h->uv); break;
  case 'g': if (h->sigact && sig_watched(h->signum)) raise(h->signum); break;
  }
}

static void op_listen(int i) {
  struct H* h; int rc;
  if (!live(i)) return;
  h = &HT[i];
  if (h->listening || h->fd >= 0) return;
  if (h->kind == 'T') {
    struct sockaddr_in a; int l = sizeof a;
    uv_ip4_addr("127.0.0.1", 0, &a);
    rc = uv_tcp_bind((uv_tcp_t*) h->uv, (struct sockaddr*) &a, 0);
    if (rc) { tok(".bind%d", rc); return; }
    note_fd(h);
    uv_tcp_getsockname((uv_tcp_t*) h->uv, (struct sockaddr*) &a, &l); h->port = ntohs(a.sin_port);
    rc = uv_listen((uv_stream_t*) h->uv, 8, conn_cb);
  } else if (h->kind == 'P') {
    { static char before[1 << 15]; char name[64];
      snprintf(name, sizeof name, "p%d.sock", i);
      dir_list(before, sizeof before);
      rc = uv_pipe_bind((uv_pipe_t*) h->uv, name);
      if (rc) { tok(".bind%d", rc); return; }
      note_fd(h);
      if (dir_new(before, h->path, sizeof h->path) > 0) { h->bound = 1; tok("B%d,3", i); } }
    rc = uv_listen((uv_stream_t*) h->uv, 8, conn_cb);
  } else return;
  if (rc) tok(".listen%d", rc); else h->listening = 1;
}

/* uv_pipe_bind2 with a name of [len] bytes (relative to the case's directory), optionally listen */
static void op_bind_long(int i, int len, int nt, int lst) {
  struct H* h; static char before[1 << 15]; char name[512]; int rc, k;
  if (!live(i)) return;
  h = &HT[i];
  if (h->kind != 'P' || h->listening || h->fd >= 0 || len < 8 || len > 400) return;
  k = snprintf(name, sizeof name, "s%d_", i);
  memset(name + k, 'a' + i % 26, (size_t) (len - k)); name[len] = 0;
  dir_list(before, sizeof before);
  rc = uv_pipe_bind2((uv_pipe_t*) h->uv, name, (size_t) len, nt ? UV_PIPE_NO_TRUNCATE : 0);
  if (rc) { tok(".bind%d", rc); return; }
  note_fd(h);
  /* what the bind really created is the ledger entry, not the name that was passed */
  if (dir_new(before, h->path, sizeof h->path) > 0) { h->bound = 1; tok("B%d,3", i); }
  if (lst) {
    rc = uv_listen((uv_stream_t*) h->uv, 8, conn_cb);
    if (rc) tok(".listen%d", rc); else h->listening = 1;
  }
}

/* a pipe handle on one end of a socketpair whose other end the harness keeps */
static void op_rawpair(int i) {
  int sv[2];
  if (!live(i) || HT[i].kind != 'P' || HT[i].fd >= 0) return;
  if (socketpair(AF_UNIX, SOCK_STREAM | SOCK_CLOEXEC | SOCK_NONBLOCK, 0, sv)) return;
  if (uv_pipe_open((uv_pipe_t*) HT[i].uv, sv[0])) { close(sv[0]); close(sv[1]); return; }
  HT[i].rawfd = sv[1];
  note_fd(&HT[i]);
}
static void op_rawdrain(int i) {     /* the peer reads everything there is: the handle becomes writable */
  static char sink[1 << 16];
  if (i < 0 || i >= nh || HT[i].rawfd < 0) return;
  while (read(HT[i].rawfd, sink, sizeof sink) > 0) {}
}
static void op_rawsend(int i) {      /* the peer writes a byte: the handle becomes readable */
  if (i < 0 || i >= nh || HT[i].rawfd < 0) return;
  if (HT[i].kind == 'Y') __real_write(HT[i].rawfd, "x\n", 2);   /* a whole line: readable in canonical mode too */
  else __real_write(HT[i].rawfd, "x", 1);
}

static void op_connect(int i, int srv, int rid) {
  struct H* h; struct R* r; int rc = 0;
  if (!live(i)) return;
  h = &HT[i];
  if (h->fd >= 0 || (h->kind != 'T' && h->kind != 'P')) return;
  if (h->kind == 'T') {
    struct sockaddr_in a; int port;
    if (srv < 0) { rawl_make(); port = rawl_port; }
    else { if (srv >= nh || HT[srv].kind != 'T' || !HT[srv].listening) return; port = HT[srv].port; }
    r = new_req(rid, i, 'c', sizeof(uv_connect_t)); if (!r) return;
    uv_ip4_addr("127.0.0.1", port, &a);
    rc = uv_tcp_connect((uv_connect_t*) r->uv, (uv_tcp_t*) h->uv, (struct sockaddr*) &a, connect_cb);
  } else {
    if (srv < 0 || srv >= nh || HT[srv].kind != 'P' || !HT[srv].bound) return;
    r = new_req(rid, i, 'c', sizeof(uv_connect_t)); if (!r) return;
    uv_pipe_connect((uv_connect_t*) r->uv, (uv_pipe_t*) h->uv, HT[srv].path, connect_cb);
  }
  if (rc) { tok(".connect%d", rc); drop_req(r); return; }
  tok("S%d,%d,0", i, rid);
  note_fd(h);
}

/* uv_pipe_connect that fails before a socket exists: empty name (EINVAL from uv_pipe_connect2) or
 * socket() failing with EMFILE; the error is deferred: the watcher (fd -1) is fed to the pending queue */
static void op_connect_bad(int i, int rid, int mode) {
  struct H* h; struct R* r;
  if (!live(i)) return;
  h = &HT[i];
  if (h->kind != 'P' || h->fd >= 0) return;
  if (((uv_stream_t*) h->uv)->connect_req != NULL) return;
  r = new_req(rid, i, 'c', sizeof(uv_connect_t)); if (!r) return;
  if (mode == 1) fail_socket = 1;
  uv_pipe_connect((uv_connect_t*) r->uv, (uv_pipe_t*) h->uv, mode == 1 ? "no-such-listener" : "", connect_cb);
  fail_socket = 0;
  tok("S%d,%d,0", i, rid);
  note_fd(h);
}

/* uv_tcp_connect with a delayed error: the handle is first bound to the (in use) port of listener srv */
static void op_connect_delayed(int i, int srv, int rid) {
  struct H* h; struct R* r; struct sockaddr_in a; int rc;
  if (!live(i)) return;
  h = &HT[i];
  if (h->kind != 'T' || h->fd >= 0) return;
  if (srv < 0 || srv >= nh || HT[srv].kind != 'T' || !HT[srv].port) return;
  uv_ip4_addr("127.0.0.1", HT[srv].port, &a);
  rc = uv_tcp_bind((uv_tcp_t*) h->uv, (struct sockaddr*) &a, 0);   /* EADDRINUSE is remembered, not returned */
  if (rc) { tok(".bind%d", rc); return; }
  note_fd(h);
  r = new_req(rid, i, 'c', sizeof(uv_connect_t)); if (!r) return;
  rc = uv_tcp_connect((uv_connect_t*) r->uv, (uv_tcp_t*) h->uv, (struct sockaddr*) &a, connect_cb);
  if (rc) { tok(".connect%d", rc); drop_req(r); return; }
  tok("S%d,%d,0", i, rid);
}

static void op_accept(int srv, int i) {
  struct H *s, *h; int rc;
  if (!live(srv) || !live(i)) return;
  s = &HT[srv]; h = &HT[i];
  if (s->kind != h->kind || h->fd >= 0 || s->afd < 0) return;
  rc = uv_accept((uv_stream_t*) s->uv, (uv_stream_t*) h->uv);
  if (rc) { tok(".accept%d", rc); return; }
  tok("E%d,1", srv);
  h->fd = s->afd; memcpy(h->link, s->alink, sizeof h->link); s->afd = -1;
  if (h->fd < MAXFD) fd2h[h->fd] = i;
  tok("B%d,0", i);
  /* the next pending connection, if the kernel already had one */
  { int a = ((uv_stream_t*) s->uv)->accepted_fd;
    if (a >= 0) { s->afd = a; fd_link(a, s->alink, sizeof s->alink); tok("B%d,1", srv); } }
}

static void op_pair(int i, int j) {
  int sv[2];
  if (!live(i) || !live(j) || i == j) return;
  if (HT[i].kind != 'P' || HT[j].kind != 'P' || HT[i].fd >= 0 || HT[j].fd >= 0) return;
  if (socketpair(AF_UNIX, SOCK_STREAM | SOCK_CLOEXEC, 0, sv)) return;
  if (uv_pipe_open((uv_pipe_t*) HT[i].uv, sv[0])) { close(sv[0]); close(sv[1]); return; }
  note_fd(&HT[i]);
  if (uv_pipe_open((uv_pipe_t*) HT[j].uv, sv[1])) { close(sv[1]); return; }
  note_fd(&HT[j]);
}

static void op_write(int i, int rid, int kb) {
  struct H* h; struct R* r; uv_buf_t b; int rc;
  if (!live(i)) return;
  h = &HT[i];
  if ((h->kind != 'T' && h->kind != 'P' && h->kind != 'Y') || h->wn >= MAXR) return;
  if (kb < 1) kb = 1;
  if ((size_t) kb * 1024 > BIGBUF) kb = BIGBUF / 1024;
  r = new_req(rid, i, 'w', sizeof(uv_write_t)); if (!r) return;
  b = uv_buf_init(bigbuf, (unsigned) kb * 1024);
  /* the accounting entry must exist before the call: uv_write may write at once */
  h->wreq[h->wn] = rid; h->wsize[h->wn] = (size_t) kb * 1024; h->wn++;
  rc = uv_write((uv_write_t*) r->uv, (uv_stream_t*) h->uv, &b, 1, write_cb);
  if (rc) { h->wn--; nyp = 0; tok(".write%d", rc); drop_req(r); return; }
  tok_then_y("S%d,%d,1", i, rid);
}

static void op_shutdown(int i, int rid) {
  struct H* h; struct R* r; int rc;
  if (!live(i)) return;
  h = &HT[i];
  if (h->kind != 'T' && h->kind != 'P') return;
  r = new_req(rid, i, 's', sizeof(uv_shutdown_t)); if (!r) return;
  rc = uv_shutdown((uv_shutdown_t*) r->uv, (uv_stream_t*) h->uv, shutdown_cb);
  if (rc) { tok(".shutdown%d", rc); drop_req(r); return; }
  tok("S%d,%d,2", i, rid);
}

static void op_udp_bind(int i) {
  struct H* h; struct sockaddr_in a; int l = sizeof a, rc;
  if (!live(i)) return;
  h = &HT[i];
  if (h->kind != 'U' || h->fd >= 0) return;
  uv_ip4_addr("127.0.0.1", 0, &a);
  rc = uv_udp_bind((uv_udp_t*) h->uv, (struct sockaddr*) &a, 0);
  if (rc) { tok(".bind%d", rc); return; }
  note_fd(h);
  uv_udp_getsockname((uv_udp_t*) h->uv, (struct sockaddr*) &a, &l); h->port = ntohs(a.sin_port);
}

static void op_udp_send(int i, int rid, int dst) {
  struct H* h; struct R* r; struct sockaddr_in a; uv_buf_t b; int rc, port = 9;
  if (!live(i)) return;
  h = &HT[i];
  if (h->kind != 'U' || h->wn >= MAXR) return;
  if (dst >= 0 && dst < nh && HT[dst].kind == 'U' && HT[dst].port) port = HT[dst].port;
  r = new_req(rid, i, 'u', sizeof(uv_udp_send_t)); if (!r) return;
  uv_ip4_addr("127.0.0.1", port, &a);
  b = uv_buf_init(bigbuf, 100);
  h->wreq[h->wn] = rid; h->wsize[h->wn] = 100; h->wn++;
  if (h->fd < 0) {
    /* the deferred bind creates the socket inside uv_udp_send: learn the number first */
    struct sockaddr_in any; uv_ip4_addr("0.0.0.0", 0, &any);
    if (uv_udp_bind((uv_udp_t*) h->uv, (struct sockaddr*) &any, 0) == 0) note_fd(h);
  }
  rc = uv_udp_send((uv_udp_send_t*) r->uv, (uv_udp_t*) h->uv, &b, 1, (struct sockaddr*) &a, send_cb);
  if (rc) { h->wn--; nyp = 0; tok(".send%d", rc); drop_req(r); return; }
  tok_then_y("S%d,%d,3", i, rid);
}

static void op_close(int i) {
  struct H* h;
  if (!live(i)) return;
  h = &HT[i];
  tok("C%d", i);
  h->closing = 1;
  in_close_call++;
  uv_close(h->uv, on_close);
  in_close_call--;
}

/* ---------------------------------------------------------------- failed initialisations
 * i<code>: an initialisation that must fail.  The handle block is not entered into the handle table (it
 * never became a handle); under AddressSanitizer it is freed right after the failed call, so any later touch
 * by libuv is a report; without ASan it is kept until the end of the case so that a block that stayed linked
 * shows up deterministically in the census and in uv_loop_close().  After each such call, and before the
 * final uv_loop_close(), the census checks that the loop's handle queue holds exactly the live handles. */
#if defined(__SANITIZE_ADDRESS__)
#define FAILED_BLOCK_FREE(p) free(p)
#else
#define FAILED_BLOCK_FREE(p) ((void) (p))
#endif
static struct { char* p; size_t n; char code[4]; } FB[64]; static int nfb;
struct census { int visited, unknown; int seen[MAXH]; };
static void walk_cb(uv_handle_t* h, void* arg) {
  struct census* c = arg; int i;
  c->visited++;
  if (h == (uv_handle_t*) &mark_prepare || h == (uv_handle_t*) &mark_check) return;
  for (i = 0; i < nh; i++) if (HT[i].inited && !HT[i].closed && HT[i].uv == h) { c->seen[i] = 1; return; }
  c->unknown++;
}
static void census(void) {
  struct uv__queue* q; struct census c; int i, k, missing = 0;
  /* first by hand, comparing addresses only: is a block of a failed init still linked? */
  for (q = loop->handle_queue.next; q != &loop->handle_queue; q = q->next) {
    char* a = (char*) q;
    for (k = 0; k < nfb; k++)
      if (a >= FB[k].p && a < FB[k].p + FB[k].n) { tok("!failed-init-linked%s", FB[k].code); return; }
  }
  memset(&c, 0, sizeof c);
  uv_walk(loop, walk_cb, &c);
  for (i = 0; i < nh; i++) if (HT[i].inited && !HT[i].closed && !c.seen[i]) missing++;
  if (c.unknown) tok("!walk-unknown%d", c.unknown);
  if (missing) tok("!walk-missing%d", missing);
  tok(".w%d", c.visited);
}
static void op_fail_init(const char* code) {
  size_t n = 0; char* p; int rc = 0, fd;
  if (nfb >= 64) return;
  if (code[0] == 'T') n = sizeof(uv_tcp_t); else if (code[0] == 'U') n = sizeof(uv_udp_t);
  else if (code[0] == 'o') n = sizeof(uv_poll_t); else if (code[0] == 'y') n = sizeof(uv_tty_t);
  else return;
  p = calloc(1, n);
  if (!strcmp(code, "T4")) { fail_socket = 1; rc = uv_tcp_init_ex(loop, (uv_tcp_t*) p, AF_INET); }
  else if (!strcmp(code, "T6")) { fail_socket = 1; rc = uv_tcp_init_ex(loop, (uv_tcp_t*) p, AF_INET6); }
  else if (!strcmp(code, "Tf")) rc = uv_tcp_init_ex(loop, (uv_tcp_t*) p, AF_INET | 0x100);
  else if (!strcmp(code, "Td")) rc = uv_tcp_init_ex(loop, (uv_tcp_t*) p, AF_UNIX);
  else if (!strcmp(code, "U4")) { fail_socket = 1; rc = uv_udp_init_ex(loop, (uv_udp_t*) p, AF_INET); }
  else if (!strcmp(code, "Uf")) rc = uv_udp_init_ex(loop, (uv_udp_t*) p, AF_INET | 0x1000);
  else if (!strcmp(code, "oc")) { fd = open("/dev/null", O_RDONLY); close(fd); rc = uv_poll_init(loop, (uv_poll_t*) p, fd); }
  else if (!strcmp(code, "or")) { fd = open("/dev/null", O_RDONLY); rc = uv_poll_init(loop, (uv_poll_t*) p, fd); close(fd); }
  else if (!strcmp(code, "oe")) rc = uv_poll_init(loop, (uv_poll_t*) p, loop->signal_pipefd[0]);
  else if (!strcmp(code, "yc")) { fd = open("/dev/null", O_RDONLY); close(fd); rc = uv_tty_init(loop, (uv_tty_t*) p, fd, 0); }
  else if (!strcmp(code, "yf")) { fd = open("/dev/null", O_RDONLY); rc = uv_tty_init(loop, (uv_tty_t*) p, fd, 0); close(fd); }
  else { free(p); return; }
  fail_socket = 0;
  if (rc == 0) {               /* it did not fail: harness problem, keep the block (it is a live handle now) */
    tok("!init-did-not-fail-%s", code); return;
  }
  tok(".fi%s:%d", code, rc);
  FB[nfb].p = p; FB[nfb].n = n; snprintf(FB[nfb].code, sizeof FB[nfb].code, "%s", code); nfb++;
  FAILED_BLOCK_FREE(p);
  census();
}
/* uv_tcp_open / uv_pipe_open / uv_udp_open with a closed descriptor: fails, the handle stays a live handle */
static void op_open_bad(int i) {
  struct H* h; int fd, rc = 0;
  if (!live(i)) return;
  h = &HT[i];
  if (h->fd >= 0) return;
  fd = open("/dev/null", O_RDONLY); close(fd);
  if (h->kind == 'T') rc = uv_tcp_open((uv_tcp_t*) h->uv, fd);
  else if (h->kind == 'P') rc = uv_pipe_open((uv_pipe_t*) h->uv, fd);
  else if (h->kind == 'U') rc = uv_udp_open((uv_udp_t*) h->uv, fd);
  else return;
  if (rc == 0) tok("!open-did-not-fail%d", i); else tok(".open%d", rc);
  census();
}

/* uv_tty_set_mode: 0 NORMAL, 1 RAW, 2 IO */
static void op_tty_mode(int i, int mode) {
  struct H* h; int rc, raw;
  if (!live(i)) return;
  h = &HT[i];
  if (h->kind != 'Y' || mode < 0 || mode > 2) return;
  rc = uv_tty_set_mode((uv_tty_t*) h->uv, mode == 0 ? UV_TTY_MODE_NORMAL : mode == 1 ? UV_TTY_MODE_RAW : UV_TTY_MODE_IO);
  tok(".M%d", rc);
  if (rc) return;
  raw = mode != 0;
  if (raw && !h->tmode && tty_holder == -1) { tty_holder = i; tok("B%d,7", i); }   /* registered for uv_tty_reset_mode() */
  h->tmode = raw;
}

static void op_kill(int i) {
  struct H* h;
  if (i < 0 || i >= nh) return;
  h = &HT[i];
  if (h->kind != 'x' || !h->pid) return;
  kill(h->pid, SIGKILL); wait_child_exit(h->pid);
}

static void do_ops(const char* ops, int in_cb) {
  char* copy = strdup(ops); char* save = NULL; char* t;
  for (t = strtok_r(copy, " \n", &save); t; t = strtok_r(NULL, " \n", &save)) {
    int a = -1, b = -1, c = -1, d4 = -1;
    sscanf(t + 1, "%d,%d,%d,%d", &a, &b, &c, &d4);
    switch (t[0]) {
    case 'I': op_init(t[1] == 'y' ? 'x' : t[1], t[1] == 'y'); break;
    case 's': op_start(a, b < 0 ? 0 : b); break;
    case 't': op_stop(a); break;
    case 'n': op_poke(a); break;
    case 'G': { int s = a == 2 ? SIGUSR2 : SIGUSR1; if (sig_watched(s)) raise(s); break; }
    case 'l': op_listen(a); break;
    case 'k': op_connect(a, b, c); break;
    case 'j': op_connect(a, -1, b); break;
    case 'm': op_connect_bad(a, b, c > 0); break;
    case 'K': op_connect_delayed(a, b, c); break;
    case 'a': op_accept(a, b); break;
    case 'O': op_pair(a, b); break;
    case 'L': op_bind_long(a, b, c > 0, d4 > 0); break;
    case 'o': op_rawpair(a); break;
    case 'e': op_rawdrain(a); break;
    case 'v': op_rawsend(a); break;
    case 'z': if (a >= 0 && a < nh) HT[a].blocked = b > 0; break;
    case 'i': op_fail_init(t + 1); break;
    case 'p': op_open_bad(a); break;
    case 'M': op_tty_mode(a, b); break;
    case 'f': if (live(a) || (a >= 0 && a < nh && HT[a].inited && !HT[a].closed)) uv_ref(HT[a].uv); break;
    case 'g': if (live(a) || (a >= 0 && a < nh && HT[a].inited && !HT[a].closed)) uv_unref(HT[a].uv); break;
    case 'Q':
      if (!in_cb) {
        int rc = uv_loop_close(loop);
        tok("z%d", rc);
        if (rc == 0) { loop_closed = 1; free(copy); return; }
      }
      break;
    case 'r': op_start(a, 0); break;
    case 'w': op_write(a, b, c); break;
    case 'd': op_shutdown(a, b); break;
    case 'b': op_udp_bind(a); break;
    case 'u': op_udp_send(a, b, c); break;
    case 'Z': udp_block = a > 0; break;
    case 'C': op_close(a); break;
    case 'X': op_kill(a); break;
    case 'W':
      if (t[1] == 'b') {
        if (!pool_blocked) {
          uv_work_t* w = malloc(sizeof *w);
          pool_blocked = 1; uv_queue_work(loop, w, blocker_work, free_work);
        }
      } else if (!in_cb) pool_fence();
      break;
    case 'R':
      if (!in_cb) { int r = uv_run(loop, a == 1 ? UV_RUN_ONCE : UV_RUN_NOWAIT); closing_phase = 0;
                    tok(obs_mode ? "u%d" : ".u%d", r ? 1 : 0); }
      break;
    case 'Y':
      if (!in_cb) {
        int n = 0, r = 1;
        if (pool_blocked || fp_unfenced) pool_fence();
        while (n++ < 200 && (r = uv_run(loop, UV_RUN_NOWAIT)) != 0)
          if (obs_mode) { closing_phase = 0; tok("u1"); emit_obs(); }
        closing_phase = 0;
        if (obs_mode) tok("u%d", r ? 1 : 0);
        tok(".Y%d", r ? 1 : 0);
      }
      break;
    }
    if (!in_cb) emit_obs();
  }
  free(copy);
}

/* ---------------------------------------------------------------- one case */
static void alarm_handler(int s) { (void) s; _exit(97); }

static int run_case(char* line) {
  static uv_loop_t the_loop;
  char *p1, *s; int i, base_fds, rc;
  signal(SIGPIPE, SIG_IGN);
  signal(SIGALRM, alarm_handler); alarm(30);
  for (i = 0; i < MAXFD; i++) fd2h[i] = -1;
  sem_init(&blocker_sem, 0, 0);
  bigbuf = calloc(1, BIGBUF);
  /* warm-up so that process-wide descriptors (signal lock pipe, pool) exist before the base line */
  { uv_loop_t w; uv_work_t* q = malloc(sizeof *q); uv_loop_init(&w); uv_queue_work(&w, q, fence_work, free_work);
    uv_run(&w, UV_RUN_DEFAULT); uv_loop_close(&w); }
  { static char casedir[300];
    snprintf(casedir, sizeof casedir, "%s/c%d", scratch, (int) getpid());
    mkdir(casedir, 0700);
    if (chdir(casedir)) { printf("!chdir\n"); return 0; } }
  base_fds = count_fds();
  loop = &the_loop; uv_loop_init(loop);
  uv_prepare_init(loop, &mark_prepare); uv_prepare_start(&mark_prepare, mark_prepare_cb); uv_unref((uv_handle_t*) &mark_prepare);
  uv_check_init(loop, &mark_check); uv_check_start(&mark_check, mark_check_cb); uv_unref((uv_handle_t*) &mark_check);
  obs_mode = getenv("C02_OBS") != NULL && getenv("C02_OBS")[0] == '1';
  if (obs_mode) {   /* the two marker handles must not make uv_loop_close() busy */
    mark_prepare.flags |= UV_HANDLE_INTERNAL; mark_check.flags |= UV_HANDLE_INTERNAL;
  }
  p1 = strchr(line, ';');
  if (p1) {
    *p1++ = 0;
    for (s = p1; s && *s; ) {
      char* e = strchr(s, '|'); char* eq; int id;
      if (e) *e = 0;
      while (*s == ' ') s++;
      eq = strchr(s, '=');
      if (eq && sscanf(s + 1, "%d", &id) == 1 && id >= 0) {
        if (s[0] == 'H' && id < MAXH) behH[id] = eq + 1;
        else if (s[0] == 'K' && id < MAXH) behK[id] = eq + 1;
        else if (s[0] == 'Q' && id < 1024) behQ[id] = eq + 1;
      }
      s = e ? e + 1 : NULL;
    }
  }
  do_ops(line, 0);
  flush_y();
  if (loop_closed) { printf("\n"); fflush(stdout); return 0; }
  /* wind down quietly: everything still open is closed, the loop must drain and close */
  quiet = 1; udp_block = 0;
  for (i = 0; i < nh; i++) HT[i].blocked = 0;
  for (i = 0; i < nh; i++) if (HT[i].kind == 'x' && HT[i].pid) kill(HT[i].pid, SIGKILL);
  for (i = 0; i < nh; i++) if (live(i)) op_close(i);
  if (pool_blocked || fp_unfenced) pool_fence();
  uv_close((uv_handle_t*) &mark_prepare, NULL); uv_close((uv_handle_t*) &mark_check, NULL);
  for (i = 0; i < 400 && uv_run(loop, UV_RUN_NOWAIT); i++) {}
  for (i = 0; i < nh; i++)
    if (HT[i].inited && !HT[i].closed) tok("!never-closed%d", i);
  for (i = 0; i < nr; i++) if (!RT[i].done) tok("!never-called%d", RT[i].id);
  census();                                              /* quiet: only a verdict is printed */
  if (obs_mode) { quiet = 0; emit_obs(); quiet = 1; }   /* the state uv_loop_close() is about to see */
  rc = uv_loop_close(loop);
  if (rc) tok("!loop_close%d", rc);
  if (obs_mode) printf("z%d ", rc);
  if (rawl_fd >= 0) { close(rawl_fd); for (i = 0; i < 4; i++) close(rawl_fill[i]); }
  for (i = 0; i < nh; i++) if (HT[i].rawfd >= 0) close(HT[i].rawfd);
  if (rc == 0 && count_fds() != base_fds) tok("!fdleak%d", count_fds() - base_fds);
  { static char left[1 << 15]; char* q; char* sv = NULL; char cwd[300]; int nleft = 0;
    /* every pipe handle is closed: no socket file created by a bind may be left in the directory */
    dir_list(left, sizeof left);
    for (q = left; *q; q++) if (*q == '\n') nleft++;
    if (nleft) tok("!sockleft%d", nleft);
    for (i = 0; i < nh; i++) { if (HT[i].path[0]) unlink(HT[i].path); }
    for (q = strtok_r(left, "\n", &sv); q; q = strtok_r(NULL, "\n", &sv)) unlink(q);
    if (getcwd(cwd, sizeof cwd) && chdir("..") == 0) rmdir(cwd); }
  printf("\n"); fflush(stdout);
  return 0;
}

int main(int argc, char** argv) {
  static char line[1 << 16];
  char errpath[256];
  if (argc > 1 && strcmp(argv[1], "--child-exit") == 0) return 0;
  if (argc > 1 && strcmp(argv[1], "--child-wait") == 0) { for (;;) pause(); }
  scratch = getenv("C02_SCRATCH"); if (!scratch) scratch = "/tmp";
  setenv("UV_THREADPOOL_SIZE", "1", 1);
  setenv("UV_USE_IO_URING", "0", 1);
  snprintf(errpath, sizeof errpath, "%s/err.%d", scratch, (int) getpid());
  while (fgets(line, sizeof line, stdin)) {
    pid_t pid; int st;
    fflush(stdout);
    pid = fork();
    if (pid == 0) {
      int efd = open(errpath, O_CREAT | O_TRUNC | O_WRONLY, 0600);
      if (efd >= 0) { dup2(efd, 2); close(efd); }
      run_case(line);
      fflush(stdout);
      _exit(0);
    }
    while (waitpid(pid, &st, 0) < 0 && errno == EINTR) {}
    if (!(WIFEXITED(st) && WEXITSTATUS(st) == 0)) {
      /* the child died: say why (first line of the sanitizer / assert report) */
      char why[200] = ""; FILE* f = fopen(errpath, "r"); char l[512];
      if (f) {
        while (fgets(l, sizeof l, f)) {
          char* p;
          if ((p = strstr(l, "AddressSanitizer:")) || (p = strstr(l, "runtime error:")) ||
              (p = strstr(l, "Assertion")) || (p = strstr(l, "LeakSanitizer:"))) {
            size_t k; snprintf(why, sizeof why, "%s", p);
            for (k = 0; why[k]; k++) if (why[k] == ' ' || why[k] == '\n') why[k] = '_';
            break;
          }
        }
        fclose(f);
      }
      if (WIFEXITED(st) && WEXITSTATUS(st) == 97) snprintf(why, sizeof why, "timeout");
      printf(" ABORT:%s:%s\n", WIFSIGNALED(st) ? "signal" : "exit", why[0] ? why : "?");
    }
    fflush(stdout);
  }
  unlink(errpath);
  return 0;
}
