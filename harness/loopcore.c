/* Loop-core harness (C01, C03): runs scripted programs against the freshly
 * built libuv with a virtual clock.  Link with
 *   -Wl,--wrap=clock_gettime,--wrap=epoll_pwait
 * Case: "<t0> <metrics> ; ops ; beh0 | beh1 | ..."  (see ocaml/drv_loopcore.ml)
 */
#include <stdio.h>
#include <stdlib.h>
#include <string.h>
#include <inttypes.h>
#include <time.h>
#include <sys/epoll.h>
#include "uv.h"
#include "uv-common.h"

#define MAXH 128
#define MAXB 512
#define CAP 80

static uint64_t vclock_ms;
static uv_loop_t* g_loop;
static int quiet;
static int npolls;
static int drain_hang;
#define MAXPOLLS 4000

int __real_clock_gettime(clockid_t id, struct timespec* ts);
int __wrap_clock_gettime(clockid_t id, struct timespec* ts) {
  if (id == CLOCK_MONOTONIC || id == CLOCK_MONOTONIC_COARSE) {
    ts->tv_sec = vclock_ms / 1000;
    ts->tv_nsec = (vclock_ms % 1000) * 1000000 + 400000;   /* x.4 ms: truncation and rounding differ */
    return 0;
  }
  return __real_clock_gettime(id, ts);
}

int __real_epoll_pwait(int epfd, struct epoll_event* ev, int max, int timeout, const sigset_t* ss);
int __wrap_epoll_pwait(int epfd, struct epoll_event* ev, int max, int timeout, const sigset_t* ss) {
  int n;
  if (g_loop == NULL || epfd != g_loop->backend_fd)
    return __real_epoll_pwait(epfd, ev, max, timeout, ss);
  if (quiet && ++npolls > MAXPOLLS) {
    /* final drain (every handle closed by the harness) does not come to an end */
    drain_hang = 1;
    g_loop->stop_flag = 1;
    if (timeout > 0) vclock_ms += (uint64_t) timeout;
    return 0;
  }
  if (!quiet && ++npolls > MAXPOLLS) {
    /* the loop is spinning (or crawling) without running callbacks: say so once and break out */
    if (npolls == MAXPOLLS + 1) printf("!spin ");
    g_loop->stop_flag = 1;
    if (timeout > 0) vclock_ms += (uint64_t) timeout;
    return 0;
  }
  if (!quiet) {
    extern int poll_flags(void);
    extern void end_run_ext(void);
    end_run_ext();
    { extern void settle_ext(void); settle_ext(); }
    { extern void pass_ext(void); pass_ext(); }
    { extern void poll_entry_ext(void); poll_entry_ext(); }
    int f = poll_flags();
    printf("w%d:%d%d%d%d ", timeout, (f >> 3) & 1, (f >> 2) & 1, (f >> 1) & 1, f & 1);
  }
  n = __real_epoll_pwait(epfd, ev, max, 0, ss);
  if (n == 0 && timeout > 0) vclock_ms += (uint64_t) timeout;
  if (n == 0 && timeout < 0) {
    /* would block for ever: report it and break the block */
    if (!quiet) printf("H ");
    g_loop->stop_flag = 1;
  }
  if (!quiet) { extern void poll_exit_ext(void); poll_exit_ext(); }
  return n;
}

struct hnd {
  union { uv_handle_t h; uv_timer_t t; uv_idle_t i; uv_prepare_t p; uv_check_t c; uv_async_t a; } u;
  char kind; int closed; int closing; int nullcb;
};
static struct hnd* H[MAXH];
static int nh;
struct wk { uv_work_t req; int id; };
static struct wk* W[MAXH];
static int nw;
static char* beh[MAXB];
static int nbeh, cbcount;
static uv_loop_t loop;

static void do_ops(char* ops, int in_cb);
/* a handle closed with a NULL callback (op K) has no close_cb to tell us: libuv's CLOSED flag says when it is done */
static int is_closed(int j) {
  return H[j]->closed || (H[j]->nullcb && (H[j]->u.h.flags & UV_HANDLE_CLOSED) != 0);
}
static int usable(int i) { return i >= 0 && i < nh && !is_closed(i); }

/* what the blocking rules of the property depend on, from API-level observations */
int poll_flags(void) {
  int j, idle = 0, closing = 0, work = loop.active_reqs.count > 0;
  for (j = 0; j < nh; j++) {
    uv_handle_t* h = &H[j]->u.h;
    if (H[j]->kind == 'i' && uv_is_active(h)) idle = 1;
    if (H[j]->closing && !is_closed(j)) closing = 1;
    if (uv_is_active(h) && uv_has_ref(h) && !uv_is_closing(h)) work = 1;
  }
  return (idle << 3) | (closing << 2) | ((loop.stop_flag ? 1 : 0) << 1) | work;
}

/* Phase completeness, from API-level observations only: a phase is a maximal run of consecutive
 * callbacks of one of the kinds idle/prepare/check.  Every handle of that kind that is active when
 * the run's first callback is entered and that no start/stop/close touches during the run must be
 * called in it ("every handle that stays active for the whole of its phase is called exactly once").
 */
/* Timer passes, from API-level observations: a pass boundary is the start of a uv_run or a poll.  A timer
 * (re)started by the program from inside a timer callback must not fire before the next boundary, and no
 * timer fires twice between two boundaries ("a timer that becomes due during a pass waits for the next
 * iteration"). */
/* "then due timers": loop->time is refreshed after the check and close callbacks of an iteration, so every
 * timer that was armed before the last of those callbacks ended and is due by then fires in the timer phase
 * of that same iteration.  t_mark is the clock at the last such moment (or at the end of the poll). */
static uint64_t t_mark, last_now;
static int mark_id, polls_in_run, cb_since_poll, arm_mark[MAXH];
static void set_mark(void) { t_mark = vclock_ms; mark_id++; }
static void chk_now(void) {
  uint64_t n = uv_now(&loop);
  if (n < last_now) printf("!nowdec%" PRIu64 ",%" PRIu64 " ", last_now, n);
  last_now = n;
}
static int pass_id, cur_tag = -1;
static int arm_pass[MAXH], fired_pass[MAXH];
static int run_kind = -1;
static unsigned char snap[MAXH], touched[MAXH], called[MAXH];
static void end_run(void) {
  int j;
  if (run_kind < 0) return;
  for (j = 0; j < nh; j++)
    if (snap[j] && !touched[j] && !called[j]) printf("!skipped%d,%d ", run_kind, j);
  run_kind = -1;
}
void end_run_ext(void) { end_run(); }
static void touch(int i) { if (i >= 0 && i < MAXH) touched[i] = 1; }

static void on_cb(int tag, int id) {
  int k;
  if (quiet) return;
  if (tag >= 1 && tag <= 3) {
    if (run_kind != tag) {
      int j;
      end_run();
      run_kind = tag;
      for (j = 0; j < nh; j++) {
        snap[j] = H[j]->kind == "-ipc"[tag] && !H[j]->closing && uv_is_active(&H[j]->u.h);
        touched[j] = called[j] = 0;
      }
    }
    if (id >= 0 && id < MAXH) called[id] = 1;
  } else {
    end_run();
  }
  printf("c%d,%d,%" PRIu64 " l%d ", tag, id, uv_now(&loop), uv_loop_alive(&loop) ? 1 : 0);
  cb_since_poll = 1;
  chk_now();
  if (tag == 0 && id >= 0 && id < MAXH) {
    if (arm_pass[id] == pass_id) printf("!samepass%d ", id);
    if (fired_pass[id] == pass_id) printf("!twice%d ", id);
    fired_pass[id] = pass_id; arm_pass[id] = -1;
  }
  k = cbcount++;
  if (k == CAP) {
    int j;
    uv_stop(&loop); printf("x ");
    for (j = 0; j < nh; j++) touch(j);
    for (j = 0; j < nh; j++)
      if (usable(j) && !H[j]->closing) {
        extern void close_cb(uv_handle_t*);
        H[j]->closing = 1; uv_close(&H[j]->u.h, close_cb);
      }
  } else if (k < CAP && k < nbeh) {
    int prev = cur_tag;
    char* copy = strdup(beh[k]);
    cur_tag = tag; do_ops(copy, 1); cur_tag = prev;
    free(copy);
  }
  if (tag >= 3 && tag <= 6) set_mark();
}

static int idx(void* h) { return (int) (intptr_t) ((uv_handle_t*) h)->data; }
static void timer_cb(uv_timer_t* h) { on_cb(0, idx(h)); }
static void idle_cb(uv_idle_t* h) { on_cb(1, idx(h)); }
static void prepare_cb(uv_prepare_t* h) { on_cb(2, idx(h)); }
static void check_cb(uv_check_t* h) { on_cb(3, idx(h)); }
static void async_cb(uv_async_t* h) { on_cb(4, idx(h)); }
/* Outstanding requests, counted by the harness itself (not read from the loop): requests with a
 * completion callback are outstanding until that callback; requests without one are outstanding from
 * the submission at most until the end of the first poll phase that began after the work had finished
 * and been posted to the loop (Q waits for that), because uv__work_done runs in that phase. */
static int cbw_out, qn_null, seen_null, settled_null;
static void after_cb(uv_work_t* r, int st) { (void) st; cbw_out--; on_cb(5, ((struct wk*) r)->id); }
void close_cb(uv_handle_t* h) { H[idx(h)]->closed = 1; on_cb(6, idx(h)); }
static void work_cb(uv_work_t* r) { (void) r; }
void settle_ext(void) { settled_null = seen_null; seen_null = qn_null; }
void pass_ext(void) { pass_id++; }
static void chk_overdue(void) {
  int j;
  for (j = 0; j < nh; j++)
    if (H[j]->kind == 't' && !H[j]->closing && uv_is_active(&H[j]->u.h) &&
        H[j]->u.t.timeout <= t_mark && arm_mark[j] < mark_id)
      printf("!overdue%d ", j);
}
void poll_entry_ext(void) {
  /* a poll that follows callbacks closes an iteration whose timer phase has run */
  if (polls_in_run > 0 && cb_since_poll) chk_overdue();
  polls_in_run++; cb_since_poll = 0;
}
void poll_exit_ext(void) { set_mark(); }

static void do_ops(char* ops, int in_cb) {
  char* save = NULL; char* tok;
  for (tok = strtok_r(ops, " \n", &save); tok; tok = strtok_r(NULL, " \n", &save)) {
    int i = -1, c = 0; uint64_t a = 0, b = 0; char k = 0;
    switch (tok[0]) {
    case 'I': {
      struct hnd* h;
      if (sscanf(tok + 1, "%c,%d", &k, &c) != 2 || nh >= MAXH) break;
      h = calloc(1, sizeof *h); h->kind = k; H[nh] = h;
      switch (k) {
      case 't': uv_timer_init(&loop, &h->u.t); break;
      case 'i': uv_idle_init(&loop, &h->u.i); break;
      case 'p': uv_prepare_init(&loop, &h->u.p); break;
      case 'c': uv_check_init(&loop, &h->u.c); break;
      case 'a': uv_async_init(&loop, &h->u.a, c ? async_cb : NULL); break;
      }
      h->u.h.data = (void*) (intptr_t) nh; nh++;
      break; }
    case 'S':
      if (sscanf(tok + 1, "%d,%d,%" SCNu64 ",%" SCNu64, &i, &c, &a, &b) == 4 && usable(i) && H[i]->kind == 't')
        { int rr = uv_timer_start(&H[i]->u.t, c ? timer_cb : NULL, a, b);
          if (rr == 0 && i < MAXH) { arm_pass[i] = (cur_tag == 0) ? pass_id : -1; arm_mark[i] = mark_id; }
          printf("r%d ", rr); }
      break;
    case 'V':
      /* uv_update_time() when the loop's time is current already: changes nothing, and uv_now() never decreases */
      if (vclock_ms == uv_now(&loop)) { uv_update_time(&loop); chk_now(); }
      break;
    case 'G':
      if (sscanf(tok + 1, "%d", &i) == 1 && usable(i) && H[i]->kind == 't')
        { int rr = uv_timer_again(&H[i]->u.t);
          if (rr == 0 && i < MAXH && uv_is_active(&H[i]->u.h)) { arm_pass[i] = (cur_tag == 0) ? pass_id : -1; arm_mark[i] = mark_id; }
          printf("r%d ", rr); }
      break;
    case 'P':
      if (sscanf(tok + 1, "%d,%" SCNu64, &i, &a) == 2 && usable(i) && H[i]->kind == 't')
        uv_timer_set_repeat(&H[i]->u.t, a);
      break;
    case 'W':
      if (sscanf(tok + 1, "%d,%d", &i, &c) == 2 && usable(i) && !H[i]->closing) {
        /* a start on a handle that is active leaves it active: not a disturbance */
        if (!uv_is_active(&H[i]->u.h)) touch(i);
        if (H[i]->kind == 'i') printf("r%d ", uv_idle_start(&H[i]->u.i, c ? idle_cb : NULL));
        else if (H[i]->kind == 'p') printf("r%d ", uv_prepare_start(&H[i]->u.p, c ? prepare_cb : NULL));
        else if (H[i]->kind == 'c') printf("r%d ", uv_check_start(&H[i]->u.c, c ? check_cb : NULL));
      }
      break;
    case 'T':
      if (sscanf(tok + 1, "%d", &i) == 1 && usable(i)) {
        touch(i);
        if (H[i]->kind == 't') printf("r%d ", uv_timer_stop(&H[i]->u.t));
        else if (H[i]->kind == 'i') printf("r%d ", uv_idle_stop(&H[i]->u.i));
        else if (H[i]->kind == 'p') printf("r%d ", uv_prepare_stop(&H[i]->u.p));
        else if (H[i]->kind == 'c') printf("r%d ", uv_check_stop(&H[i]->u.c));
      }
      break;
    case 'F': if (sscanf(tok + 1, "%d", &i) == 1 && usable(i)) uv_ref(&H[i]->u.h); break;
    case 'U': if (sscanf(tok + 1, "%d", &i) == 1 && usable(i)) uv_unref(&H[i]->u.h); break;
    case 'C':
      if (sscanf(tok + 1, "%d", &i) == 1 && usable(i) && !H[i]->closing) {
        touch(i);
        H[i]->closing = 1; uv_close(&H[i]->u.h, close_cb);
      }
      break;
    case 'K':   /* uv_close with a NULL callback (monitor-only cases: the model always has a close callback) */
      if (sscanf(tok + 1, "%d", &i) == 1 && usable(i) && !H[i]->closing) {
        touch(i);
        H[i]->closing = 1; H[i]->nullcb = 1; uv_close(&H[i]->u.h, NULL);
      }
      break;
    case 'E':
      if (sscanf(tok + 1, "%d", &i) == 1 && usable(i) && H[i]->kind == 'a')
        printf("r%d ", uv_async_send(&H[i]->u.a));
      break;
    case 'Q':
      if (sscanf(tok + 1, "%d", &c) == 1 && nw < MAXH) {
        struct wk* w = calloc(1, sizeof *w); int r;
        w->id = nw; W[nw++] = w;
        r = uv_queue_work(&loop, &w->req, work_cb, c ? after_cb : NULL);
        /* wait until the pool has finished it and posted it to loop->wq */
        for (;;) {
          int done;
          uv_mutex_lock(&loop.wq_mutex);
          done = (w->req.work_req.work == NULL);
          uv_mutex_unlock(&loop.wq_mutex);
          if (done) break;
          sched_yield();
        }
        printf("r%d ", r);
        if (r == 0) { if (c) cbw_out++; else qn_null++; }
      }
      break;
    case 'X': uv_stop(&loop); printf("x "); break;
    case 'A': if (sscanf(tok + 1, "%" SCNu64, &a) == 1) vclock_ms += a; break;
    case 'L': printf("l%d ", uv_loop_alive(&loop) ? 1 : 0); break;
    case 'O': {
      int j;
      printf("o%u,%u,", loop.active_handles, loop.active_reqs.count);
      for (j = 0; j < nh; j++)
        printf("%d%d%d%d,", uv_is_active(&H[j]->u.h) ? 1 : 0, uv_has_ref(&H[j]->u.h) ? 1 : 0,
               uv_is_closing(&H[j]->u.h) ? 1 : 0, is_closed(j));
      printf(" ");
      if ((int) loop.active_reqs.count < cbw_out || (int) loop.active_reqs.count > cbw_out + (qn_null - settled_null))
        printf("!reqs%u,%d,%d ", loop.active_reqs.count, cbw_out, cbw_out + (qn_null - settled_null));
      break; }
    case 'B': {
      int bt = uv_backend_timeout(&loop);
      printf("b%d ", bt);
      /* descriptor registrations not yet handed to the kernel: an embedder must not sleep on uv_backend_fd() */
      if (bt != 0 && !uv__queue_empty(&loop.watcher_queue)) printf("!btq%d ", bt);
      break; }
    case 'R':
      if (!in_cb && sscanf(tok + 1, "%d", &c) == 1 && ++pass_id && printf("g%d,%d ", c, uv_loop_alive(&loop) ? 1 : 0))
        { polls_in_run = 0; cb_since_poll = 0; }
      if (!in_cb && sscanf(tok + 1, "%d", &c) == 1)
        { int rr = uv_run(&loop, c == 0 ? UV_RUN_DEFAULT : c == 1 ? UV_RUN_ONCE : UV_RUN_NOWAIT); end_run(); settled_null = seen_null; if (polls_in_run > 0) chk_overdue(); chk_now(); printf("u%d ", rr ? 1 : 0); }
      break;
    case 'Z':
      if (!in_cb) {
        int r = uv_loop_close(&loop);
        printf("z%d ", r);
        if (r == 0) { g_loop = NULL; return; }
      }
      break;
    }
    if (g_loop == NULL) return;
  }
}

int main(void) {
  static char line[1 << 16];
  setenv("UV_THREADPOOL_SIZE", "1", 1);
  while (fgets(line, sizeof line, stdin)) {
    char *p1, *p2; int k, metrics = 0; unsigned long long t0 = 0;
    p1 = strchr(line, ';'); if (!p1) { printf("\n"); continue; }
    *p1++ = 0; p2 = strchr(p1, ';'); if (!p2) { printf("\n"); continue; }
    *p2++ = 0;
    sscanf(line, "%llu %d", &t0, &metrics);
    vclock_ms = t0; quiet = 0; npolls = 0; run_kind = -1; t_mark = 0; last_now = 0; mark_id = 1; polls_in_run = 0; cb_since_poll = 0; memset(arm_mark, 0, sizeof arm_mark); pass_id = 1; cur_tag = -1; memset(arm_pass, 0xff, sizeof arm_pass); memset(fired_pass, 0xff, sizeof fired_pass); cbw_out = qn_null = seen_null = settled_null = 0; nh = nw = nbeh = cbcount = 0;
    uv_loop_init(&loop);
    g_loop = &loop;
    if (metrics) uv_loop_configure(&loop, UV_METRICS_IDLE_TIME);
    {
      char* s = p2;
      for (;;) {
        char* e = strchr(s, '|');
        if (e) *e = 0;
        if (nbeh < MAXB) beh[nbeh++] = s;
        if (!e) break;
        s = e + 1;
      }
    }
    do_ops(p1, 0);
    fflush(stdout);
    if (g_loop != NULL) {
      quiet = 1; npolls = 0; drain_hang = 0;
      for (k = 0; k < nh; k++)
        if (!is_closed(k) && !H[k]->closing) { H[k]->closing = 1; uv_close(&H[k]->u.h, close_cb); }
      uv_run(&loop, UV_RUN_DEFAULT);
      if (drain_hang) printf("!drainhang ");
      uv_loop_close(&loop);
      g_loop = NULL;
    }
    printf("\n");
    fflush(stdout);
    for (k = 0; k < nh; k++) free(H[k]);
    for (k = 0; k < nw; k++) free(W[k]);
  }
  return 0;
}
