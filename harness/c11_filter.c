/* C11 (g): uv__fs_scandir_filter (static in src/unix/fs.c, included textually) called
 * directly.  One name per line in hex ("-" = the empty name); prints 1 (kept) or 0 (dropped). */
#include "unix/fs.c"
#include <stdio.h>

int main(void) {
  char* line = NULL; size_t cap = 0; ssize_t k;
  while ((k = getline(&line, &cap, stdin)) > 0) {
    uv__dirent_t d; size_t n = 0; const char* p = line;
    memset(&d, 0, sizeof d);
    if (line[0] != '-')
      while (isxdigit((unsigned char) p[0]) && isxdigit((unsigned char) p[1]) && n < sizeof(d.d_name) - 1) {
        unsigned v; sscanf(p, "%2x", &v); d.d_name[n++] = (char) v; p += 2;
      }
    d.d_name[n] = 0;
    printf("%d\n", uv__fs_scandir_filter(&d) ? 1 : 0);
  }
  free(line);
  return 0;
}
