/* C19: the string getters of the freshly built libuv, called with the buffer
 * ending at an inaccessible page.
 *
 * stdin : one case per line   <getter> <setup args> | <cap> <cap> ...
 * stdout: one line per case   <getter> <oracle args for the model> | <tok> <tok> ...
 *         tok = cap:rc:size:bufhex[U][>rc2:size2:bufhex2[U]]
 *         (after '>' the retry with cap := size following UV_ENOBUFS; U = bytes
 *         in front of the buffer were changed).  The text before '|' is what the
 *         operating system / libc really answered (the model's oracle).
 *         A case that cannot be set up here prints "SKIP <why>".
 * The buffer is pre-filled with 0x80|(i&0x7f); it is followed by a PROT_NONE
 * page, so a write beyond cap is a SIGSEGV: the line ends with DIED:<sig>:<cap>:<size>
 * and the process exits 3 (checks/c19.py then isolates the case and goes on).
 * See ocaml/drv_c19.ml for the model side of the same format. */
#include <stdio.h>
#include <stdlib.h>
#include <string.h>
#include <errno.h>
#include <signal.h>
#include <unistd.h>
#include <fcntl.h>
#include <limits.h>
#include <pwd.h>
#include <pthread.h>
#include <net/if.h>
#include <sys/mman.h>
#include <sys/stat.h>
#include <sys/socket.h>
#include <sys/un.h>
#include <sys/wait.h>
#include <sched.h>
#include "uv.h"

#define REGION_PAGES 64
static long pg;
static unsigned char* region;      /* REGION_PAGES accessible pages + 1 guard page */
static unsigned char* guard;
#define PRE 64                     /* bytes checked in front of the buffer */

static void die(const char* m) { fprintf(stderr, "c19_getters: %s (%s)\n", m, strerror(errno)); exit(2); }

/* ---- scripted libc answers (linked with -Wl,--wrap=...) ------------------- */
static const char* s_pwdir;  static int s_pw_on;
static const char* s_host;   static size_t s_host_len; static int s_host_on;
static const char* s_ifn;    static size_t s_ifn_len;  static int s_ifn_on;
static const char* s_exe;    static size_t s_exe_len;  static int s_exe_on;

int __real_getpwuid_r(uid_t, struct passwd*, char*, size_t, struct passwd**);
int __wrap_getpwuid_r(uid_t uid, struct passwd* pw, char* buf, size_t n, struct passwd** res) {
  size_t l;
  if (!s_pw_on) return __real_getpwuid_r(uid, pw, buf, n, res);
  l = strlen(s_pwdir);
  if (n < l + 16) { *res = NULL; return ERANGE; }
  memcpy(buf, "u\0\0/bin/sh\0", 11);
  memcpy(buf + 12, s_pwdir, l + 1);
  pw->pw_name = buf; pw->pw_passwd = buf + 1; pw->pw_gecos = buf + 1;
  pw->pw_shell = buf + 3; pw->pw_dir = buf + 12; pw->pw_uid = uid; pw->pw_gid = 0;
  *res = pw;
  return 0;
}

int __real_gethostname(char*, size_t);
int __wrap_gethostname(char* name, size_t n) {
  if (!s_host_on) return __real_gethostname(name, n);
  if (s_host_len + 1 <= n) { memcpy(name, s_host, s_host_len + 1); return 0; }
  memcpy(name, s_host, n);                   /* truncated, no terminator */
  if (s_host_len <= 64) { errno = ENAMETOOLONG; return -1; }   /* glibc, for a name the kernel can hold */
  return 0;                                  /* longer (not Linux): a libc that truncates silently */
}

char* __real_if_indextoname(unsigned int, char*);
char* __wrap_if_indextoname(unsigned int idx, char* ifname) {
  if (!s_ifn_on) return __real_if_indextoname(idx, ifname);
  if (s_ifn_len < 17) memcpy(ifname, s_ifn, s_ifn_len + 1);
  else memcpy(ifname, s_ifn, 17);            /* fills all of ifname_buf[17] */
  return ifname;
}

ssize_t __real_readlink(const char*, char*, size_t);
ssize_t __wrap_readlink(const char* path, char* buf, size_t n) {
  size_t k;
  if (!s_exe_on || strcmp(path, "/proc/self/exe") != 0) return __real_readlink(path, buf, n);
  k = s_exe_len < n ? s_exe_len : n;
  memcpy(buf, s_exe, k);
  return (ssize_t) k;
}

/* ---- helpers ---------------------------------------------------------------- */
static int hexv(int c) { return c <= '9' ? c - '0' : (c | 32) - 'a' + 10; }
/* "x4142" -> malloc'd bytes (NUL appended), length in *len */
static char* unhex(const char* s, size_t* len) {
  size_t n = (strlen(s) - 1) / 2, i;
  char* b = malloc(n + 1);
  for (i = 0; i < n; i++) b[i] = (char) (hexv(s[1 + 2 * i]) * 16 + hexv(s[2 + 2 * i]));
  b[n] = 0; *len = n;
  return b;
}
static void puthex(const void* p, size_t n) {
  static const char d[] = "0123456789abcdef";
  const unsigned char* b = p; size_t i;
  for (i = 0; i < n; i++) { putchar(d[b[i] >> 4]); putchar(d[b[i] & 15]); }
}
static void putx(const void* p, size_t n) { putchar('x'); puthex(p, n); }

/* ---- the getter under test ---------------------------------------------------- */
enum { G_GETENV, G_HOMEDIR, G_TMPDIR, G_HOSTNAME, G_CWD, G_FSEVENT, G_FSPOLL, G_IFNAME,
       G_SOCKNAME, G_PEERNAME, G_EXEPATH, G_TITLE, G_THREAD, G_ERRNAME, G_STRERROR };
static const char* gnames[] = { "getenv", "homedir", "tmpdir", "hostname", "cwd", "fsevent", "fspoll",
  "ifname", "sockname", "peername", "exepath", "title", "thread", "errname", "strerror", NULL };
static int has_size(int g) { return !(g == G_TITLE || g == G_THREAD || g == G_ERRNAME || g == G_STRERROR); }

static uv_fs_event_t* h_ev; static uv_fs_poll_t* h_poll; static uv_pipe_t* h_pipe;
static unsigned int c_ifidx; static int c_err; static uv_thread_t c_tid;

static int call(int g, char* buf, size_t* size) {
  switch (g) {
  case G_GETENV: return uv_os_getenv("UVC19_VAR", buf, size);
  case G_HOMEDIR: return uv_os_homedir(buf, size);
  case G_TMPDIR: return uv_os_tmpdir(buf, size);
  case G_HOSTNAME: return uv_os_gethostname(buf, size);
  case G_CWD: return uv_cwd(buf, size);
  case G_FSEVENT: return uv_fs_event_getpath(h_ev, buf, size);
  case G_FSPOLL: return uv_fs_poll_getpath(h_poll, buf, size);
  case G_IFNAME: return uv_if_indextoname(c_ifidx, buf, size);
  case G_SOCKNAME: return uv_pipe_getsockname(h_pipe, buf, size);
  case G_PEERNAME: return uv_pipe_getpeername(h_pipe, buf, size);
  case G_EXEPATH: return uv_exepath(buf, size);
  case G_TITLE: return uv_get_process_title(buf, *size);
  case G_THREAD: return uv_thread_getname(&c_tid, buf, *size);
  case G_ERRNAME: return uv_err_name_r(c_err, buf, *size) == buf ? 0 : -1;
  case G_STRERROR: return uv_strerror_r(c_err, buf, *size) == buf ? 0 : -1;
  }
  return -9999;
}

static volatile size_t cur_cap, cur_tok_cap;
/* death inside a getter (guard page fault, abort, ...): finish the line with
 * DIED:<signal>:<cap token of the case>:<size handed to the failing call> and leave */
static void on_fatal(int sig) {
  printf(" DIED:%d:%zu:%zu\n", sig, (size_t) cur_tok_cap, (size_t) cur_cap);
  fflush(stdout);
  _exit(3);
}

/* one guarded call; prints rc:size:bufhex[U]; returns rc, *out_size */
static int guarded(int g, size_t cap, size_t* out_size) {
  unsigned char* buf = guard - cap;
  size_t i, size = cap, show;
  int rc, under = 0;
  memset(buf - PRE, 0x5a, PRE);
  for (i = 0; i < cap; i++) buf[i] = (unsigned char) (0x80 | (i & 0x7f));
  cur_cap = cap;
  rc = call(g, (char*) buf, &size);
  for (i = 0; i < PRE; i++) if (buf[i - PRE] != 0x5a) under = 1;
  printf("%d:%zu:", rc, size);
  if (g == G_CWD) {
    if (rc == 0) { show = size + 1 < cap ? size + 1 : cap; puthex(buf, show); }
    else putchar('-');
  } else puthex(buf, cap);
  if (under) putchar('U');
  *out_size = size;
  return rc;
}

static void sweep(int g, char* caps) {
  char* save = NULL; char* t;
  for (t = strtok_r(caps, " \n", &save); t; t = strtok_r(NULL, " \n", &save)) {
    size_t cap = (size_t) strtoul(t, NULL, 10), size;
    int rc;
    if (cap == 0 || cap > (size_t) (REGION_PAGES * pg - PRE)) continue;
    printf("%zu:", cap);
    cur_tok_cap = cap;
    rc = guarded(g, cap, &size);
    if (rc == UV_ENOBUFS && has_size(g) && size >= 1 && size <= (size_t) (REGION_PAGES * pg - PRE)) {
      size_t s2;
      putchar('>');
      guarded(g, size, &s2);
    }
    putchar(' ');
  }
  putchar('\n');
}

/* ---- set-up of each kind of case -------------------------------------------------- */
static int base_fd; static char base_path[PATH_MAX];
static char** orig_argv;

static void setenv_opt(const char* name, const char* arg) {
  size_t l;
  if (arg[0] == '-') unsetenv(name);
  else { char* v = unhex(arg, &l); setenv(name, v, 1); free(v); }
}
static void put_env_opt(const char* name) {
  const char* v = getenv(name);
  if (v == NULL) printf("- "); else { putx(v, strlen(v)); putchar(' '); }
}
static void noop_ev(uv_fs_event_t* h, const char* f, int e, int s) { (void) h; (void) f; (void) e; (void) s; }
static void noop_poll(uv_fs_poll_t* h, int s, const uv_stat_t* a, const uv_stat_t* b) { (void) h; (void) s; (void) a; (void) b; }
static int ev_fired, poll_fired;
static void count_ev(uv_fs_event_t* h, const char* f, int e, int s) { (void) h; (void) f; (void) e; (void) s; ev_fired++; }
static void count_poll(uv_fs_poll_t* h, int s, const uv_stat_t* a, const uv_stat_t* b) { (void) h; (void) s; (void) a; (void) b; poll_fired++; }
static void noop_close(uv_handle_t* h) { (void) h; }
static void noop_conn(uv_stream_t* s, int st) { (void) s; (void) st; }
static int connected;
static void on_connect(uv_connect_t* r, int st) { (void) r; connected = st == 0 ? 1 : -1; }

/* Cases that change process-wide state which cannot be undone (chroot, UTS namespace) run in a
 * forked child writing to the same stdout.  If the child dies the parent dies the same way, so that
 * checks/c19.py sees one dead harness (DIED line or unfinished line), as for any other case. */
static pid_t enter_child(void) {
  pid_t pid;
  fflush(stdout);
  pid = fork();
  if (pid < 0) die("fork");
  return pid;
}
static void leave_child(void) { fflush(stdout); _exit(0); }
static void wait_child(pid_t pid) {
  int st = 0;
  while (waitpid(pid, &st, 0) < 0 && errno == EINTR) {}
  if (WIFEXITED(st) && WEXITSTATUS(st) == 0) return;
  if (WIFSIGNALED(st)) { signal(WTERMSIG(st), SIG_DFL); raise(WTERMSIG(st)); }
  _exit(WIFEXITED(st) ? WEXITSTATUS(st) : 4);
}

/* mkdir -p + chdir along the components of [path] (".", ".." and empty ones are walked, not made) */
static int make_along(const char* path) {
  char tmp[4096]; char* sv = NULL; char* c;
  if (strlen(path) >= sizeof(tmp)) return -1;
  strcpy(tmp, path);
  if (tmp[0] == '/' && chdir("/") != 0) return -1;
  for (c = strtok_r(tmp, "/", &sv); c; c = strtok_r(NULL, "/", &sv)) {
    if (strcmp(c, ".") == 0) continue;
    if (strcmp(c, "..") != 0 && mkdir(c, 0700) != 0 && errno != EEXIST) return -1;
    if (chdir(c) != 0) return -1;
  }
  return 0;
}

#define NEXT() strtok_r(NULL, " \n", &save)

static void run_case(char* line) {
  char* bar = strchr(line, '|');
  char* caps; char* save = NULL; char* name; int g; size_t l;
  uv_loop_t* loop = uv_default_loop();
  if (bar == NULL) { printf("SKIP no-bar\n"); return; }
  *bar = 0; caps = bar + 1;
  name = strtok_r(line, " \n", &save);
  if (name == NULL) { printf("SKIP empty\n"); return; }
  for (g = 0; gnames[g] && strcmp(gnames[g], name); g++) {}
  if (!gnames[g]) { printf("SKIP unknown-getter\n"); return; }

  switch (g) {
  case G_GETENV: {
    setenv_opt("UVC19_VAR", NEXT());
    printf("getenv "); put_env_opt("UVC19_VAR"); printf("| ");
    sweep(g, caps);
    break; }
  case G_HOMEDIR: {
    char* home = NEXT(); char* pw = NEXT(); char* pwv = NULL;
    struct passwd p, *res = NULL; char tmp[8192];
    setenv_opt("HOME", home);
    if (pw[0] == 'x') { pwv = unhex(pw, &l); s_pwdir = pwv; s_pw_on = 1; } else s_pw_on = 0;
    if (__wrap_getpwuid_r(geteuid(), &p, tmp, sizeof(tmp), &res) != 0 || res == NULL) {
      if (getenv("HOME") == NULL) { printf("SKIP no-passwd-entry\n"); s_pw_on = 0; free(pwv); return; }
      p.pw_dir = "";                           /* not consulted when HOME is set */
    }
    printf("homedir "); put_env_opt("HOME"); putx(p.pw_dir, strlen(p.pw_dir)); printf(" | ");
    sweep(g, caps);
    s_pw_on = 0; free(pwv);
    break; }
  case G_TMPDIR: {
    static const char* v[] = { "TMPDIR", "TMP", "TEMP", "TEMPDIR" }; int i;
    for (i = 0; i < 4; i++) setenv_opt(v[i], NEXT());
    printf("tmpdir "); for (i = 0; i < 4; i++) put_env_opt(v[i]); printf("| ");
    sweep(g, caps);
    break; }
  case G_HOSTNAME: {
    char* a = NEXT(); char* hv = NULL; char real[512];
    if (a[0] == 'u') {                          /* the kernel's own name, set in a private UTS namespace */
      pid_t pid = enter_child();
      if (pid == 0) {
        a[0] = 'x'; hv = unhex(a, &l); s_host_on = 0;
        if (unshare(CLONE_NEWUTS) != 0) { printf("SKIP unshare-not-permitted errno=%d\n", errno); leave_child(); }
        if (sethostname(hv, l) != 0) { printf("SKIP sethostname errno=%d\n", errno); leave_child(); }
        memset(real, 0, sizeof(real));
        if (__real_gethostname(real, sizeof(real) - 1) != 0) { printf("SKIP gethostname\n"); leave_child(); }
        printf("hostname "); putx(real, strlen(real)); printf(" | ");
        sweep(g, caps);
        leave_child();
      }
      wait_child(pid);
      break;
    }
    if (a[0] == 'x') { hv = unhex(a, &l); s_host = hv; s_host_len = l; s_host_on = 1;
      printf("hostname "); putx(hv, l); }
    else { s_host_on = 0; memset(real, 0, sizeof(real));
      if (__real_gethostname(real, sizeof(real) - 1) != 0) { printf("SKIP gethostname\n"); return; }
      printf("hostname "); putx(real, strlen(real)); }
    printf(" | ");
    sweep(g, caps);
    s_host_on = 0; free(hv);
    break; }
  case G_CWD: {
    /* components: lengths of nested directories below the start directory */
    static char path[70000]; char comp[300]; char* a; size_t pl;
    if (fchdir(base_fd) != 0) die("fchdir");
    a = NEXT();
    if (a != NULL && (*a == '=' || *a == '^' || *a == '~')) {
      /* =<abs path>  chdir there as written (nothing is created)
       * ^<abs path>  chroot into the start directory first, create the path, chdir there as written
       * ~<rel path>  create below the start directory, chdir there as written
       * the true value is what getcwd(3) says afterwards, in the child */
      pid_t pid = enter_child();
      if (pid == 0) {
        const char* pth = a + 1;
        if (*a == '^') {
          if (chroot(".") != 0) { printf("SKIP chroot-not-permitted errno=%d\n", errno); leave_child(); }
          if (chdir("/") != 0) { printf("SKIP chdir-root\n"); leave_child(); }
        }
        if (*a != '=') {
          if (make_along(pth) != 0) { printf("SKIP mkdir-along errno=%d\n", errno); leave_child(); }
          if (*a == '~') { if (fchdir(base_fd) != 0) die("fchdir"); }
        }
        if (chdir(pth) != 0) { printf("SKIP chdir errno=%d\n", errno); leave_child(); }
        if (getcwd(path, sizeof(path)) == NULL) { printf("SKIP getcwd errno=%d\n", errno); leave_child(); }
        printf("cwd "); putx(path, strlen(path)); printf(" | ");
        sweep(g, caps);
        leave_child();
      }
      wait_child(pid);
      break;
    }
    strcpy(path, base_path); pl = strlen(path);
    for (; a != NULL; a = NEXT()) {
      size_t n = (size_t) atoi(a);
      if (n < 1 || n > 255 || pl + n + 2 > sizeof(path)) continue;
      memset(comp, 'd', n); comp[n] = 0;
      if (mkdir(comp, 0700) != 0 && errno != EEXIST) die("mkdir");
      if (chdir(comp) != 0) die("chdir");
      if (pl > 1) path[pl++] = '/';
      memcpy(path + pl, comp, n + 1); pl += n;
    }
    printf("cwd "); putx(path, pl); printf(" | ");
    sweep(g, caps);
    if (fchdir(base_fd) != 0) die("fchdir back");
    break; }
  case G_FSEVENT: {
    char* a = NEXT(); char* p = NULL; int r;
    h_ev = calloc(1, sizeof(*h_ev));
    uv_fs_event_init(loop, h_ev);
    if (a[0] == 'e' || a[0] == 'E') {
      /* e<hex>: a directory path as spelled (trailing slashes, dots), relative to the start directory;
       * E<hex>: the same made absolute.  After start an event on the watched directory itself
       * (chmod -> IN_ATTRIB without a name) is dispatched to the callback, then the sweep.
       * The true value is the string handed to uv_fs_event_start, byte for byte. */
      int abs = a[0] == 'E', spins; char* rel;
      a[0] = 'x'; rel = unhex(a, &l);
      if (make_along(rel) != 0 || fchdir(base_fd) != 0) { printf("SKIP mkdir-along errno=%d\n", errno); if (fchdir(base_fd)) {} free(rel); free(h_ev); return; }
      if (abs) { p = malloc(strlen(base_path) + l + 2); sprintf(p, "%s/%s", base_path, rel); free(rel); l = strlen(p); }
      else p = rel;
      ev_fired = 0;
      r = uv_fs_event_start(h_ev, count_ev, p, 0);
      if (r != 0) { printf("SKIP fs_event_start=%d\n", r); uv_close((uv_handle_t*) h_ev, noop_close); uv_run(loop, UV_RUN_DEFAULT); free(h_ev); free(p); return; }
      for (spins = 0; spins < 200 && ev_fired == 0; spins++) {
        if (chmod(p, (spins & 1) ? 0700 : 0750) != 0) break;
        uv_run(loop, UV_RUN_NOWAIT);
        if (ev_fired == 0 && spins > 3) usleep(2000);
      }
      if (ev_fired == 0) { printf("SKIP no-event-dispatched\n"); uv_close((uv_handle_t*) h_ev, noop_close); uv_run(loop, UV_RUN_DEFAULT); free(h_ev); free(p); return; }
      printf("fsevent 1 "); putx(p, l);
    } else if (a[0] == 'x') {
      int fd;
      p = unhex(a, &l);
      fd = open(p, O_CREAT | O_RDWR, 0600); if (fd >= 0) close(fd);
      r = uv_fs_event_start(h_ev, noop_ev, p, 0);
      if (r != 0) { printf("SKIP fs_event_start=%d\n", r); uv_close((uv_handle_t*) h_ev, noop_close); uv_run(loop, UV_RUN_DEFAULT); free(h_ev); free(p); return; }
      printf("fsevent 1 "); putx(p, l);
    } else printf("fsevent 0 x");
    printf(" | ");
    sweep(g, caps);
    uv_close((uv_handle_t*) h_ev, noop_close); uv_run(loop, UV_RUN_DEFAULT); free(h_ev); free(p);
    break; }
  case G_FSPOLL: {
    char* a = NEXT(); char* p = NULL; int r;
    h_poll = calloc(1, sizeof(*h_poll));
    uv_fs_poll_init(loop, h_poll);
    if (a[0] == 'e' || a[0] == 'E') {
      /* as for fsevent: a directory path as spelled; the sweep happens after a poll callback
       * (the directory's mode is changed between two polls, interval 5 ms) */
      int abs = a[0] == 'E', spins; char* rel;
      a[0] = 'x'; rel = unhex(a, &l);
      if (make_along(rel) != 0 || fchdir(base_fd) != 0) { printf("SKIP mkdir-along errno=%d\n", errno); if (fchdir(base_fd)) {} free(rel); free(h_poll); return; }
      if (abs) { p = malloc(strlen(base_path) + l + 2); sprintf(p, "%s/%s", base_path, rel); free(rel); l = strlen(p); }
      else p = rel;
      poll_fired = 0;
      r = uv_fs_poll_start(h_poll, count_poll, p, 5);
      if (r != 0) { printf("SKIP fs_poll_start=%d\n", r); uv_close((uv_handle_t*) h_poll, noop_close); uv_run(loop, UV_RUN_DEFAULT); free(h_poll); free(p); return; }
      for (spins = 0; spins < 600 && poll_fired == 0; spins++) {
        if (chmod(p, (spins & 1) ? 0700 : 0750) != 0) break;
        uv_run(loop, UV_RUN_ONCE);
      }
      if (poll_fired == 0) { printf("SKIP no-poll-callback\n"); uv_close((uv_handle_t*) h_poll, noop_close); uv_run(loop, UV_RUN_DEFAULT); free(h_poll); free(p); return; }
      printf("fspoll 1 "); putx(p, l);
    } else if (a[0] == 'x') {
      p = unhex(a, &l);
      r = uv_fs_poll_start(h_poll, noop_poll, p, 3600000);
      if (r != 0) { printf("SKIP fs_poll_start=%d\n", r); uv_close((uv_handle_t*) h_poll, noop_close); uv_run(loop, UV_RUN_DEFAULT); free(h_poll); free(p); return; }
      printf("fspoll 1 "); putx(p, l);
    } else printf("fspoll 0 x");
    printf(" | ");
    sweep(g, caps);
    uv_close((uv_handle_t*) h_poll, noop_close); uv_run(loop, UV_RUN_DEFAULT); free(h_poll); free(p);
    break; }
  case G_IFNAME: {
    char* a = NEXT(); char* v = NULL; char real[64];
    if (a[0] == 'x') { v = unhex(a, &l); s_ifn = v; s_ifn_len = l; s_ifn_on = 1; c_ifidx = 1;
      printf("ifname "); putx(v, l); }
    else { s_ifn_on = 0; c_ifidx = (unsigned) atoi(a + 1);       /* r<index> */
      memset(real, 0, sizeof(real));
      if (__real_if_indextoname(c_ifidx, real) == NULL) { printf("SKIP no-such-interface\n"); return; }
      printf("ifname "); putx(real, strlen(real)); }
    printf(" | ");
    sweep(g, caps);
    s_ifn_on = 0; free(v);
    break; }
  case G_SOCKNAME: case G_PEERNAME: {
    char* a = NEXT(); char* nm = NULL; int r, fd = -1; uv_pipe_t* srv = NULL; uv_pipe_t* cli = NULL;
    uv_connect_t creq;
    struct { struct sockaddr_un sa; char extra[16]; } k; socklen_t kl = sizeof(k);
    size_t vlen;
    if (a[0] == 'x') {
      nm = unhex(a, &l);
      srv = calloc(1, sizeof(*srv)); uv_pipe_init(loop, srv, 0);
      if (l > 0 && nm[0] != 0) unlink(nm);
      r = uv_pipe_bind2(srv, nm, l, UV_PIPE_NO_TRUNCATE);
      if (r != 0) { printf("SKIP bind=%d\n", r); uv_close((uv_handle_t*) srv, noop_close); uv_run(loop, UV_RUN_DEFAULT); free(srv); free(nm); return; }
      h_pipe = srv;
      if (g == G_PEERNAME) {
        r = uv_listen((uv_stream_t*) srv, 4, noop_conn);
        cli = calloc(1, sizeof(*cli)); uv_pipe_init(loop, cli, 0);
        connected = 0;
        if (r == 0) r = uv_pipe_connect2(&creq, cli, nm, l, UV_PIPE_NO_TRUNCATE, on_connect);
        if (r == 0) { int spins = 0; while (!connected && spins++ < 1000) uv_run(loop, UV_RUN_NOWAIT); }
        if (r != 0 || connected != 1) {
          printf("SKIP connect=%d/%d\n", r, connected);
          uv_close((uv_handle_t*) cli, noop_close); uv_close((uv_handle_t*) srv, noop_close);
          uv_run(loop, UV_RUN_DEFAULT); free(cli); free(srv); free(nm); return; }
        h_pipe = cli;
      }
    } else {                                   /* an open, unbound socket */
      fd = socket(AF_UNIX, SOCK_STREAM, 0);
      srv = calloc(1, sizeof(*srv)); uv_pipe_init(loop, srv, 0);
      if (fd < 0 || uv_pipe_open(srv, fd) != 0) { printf("SKIP pipe_open\n"); return; }
      h_pipe = srv;
    }
    uv_fileno((uv_handle_t*) h_pipe, &fd);
    memset(&k, 0, sizeof(k));
    if ((g == G_PEERNAME ? getpeername : getsockname)(fd, (struct sockaddr*) &k, &kl) != 0) die("getsockname");
    vlen = kl > offsetof(struct sockaddr_un, sun_path) ? kl - offsetof(struct sockaddr_un, sun_path) : 0;
    if (vlen > 0 && k.sa.sun_path[0] != 0) {   /* path socket: the kernel counts the terminator */
      if (vlen > sizeof(k.sa.sun_path)) vlen = sizeof(k.sa.sun_path);
      vlen = strnlen(k.sa.sun_path, vlen);
    }
    printf("%s ", gnames[g]); putx(k.sa.sun_path, vlen); printf(" | ");
    sweep(g, caps);
    if (cli) uv_close((uv_handle_t*) cli, noop_close);
    uv_close((uv_handle_t*) srv, noop_close);
    uv_run(loop, UV_RUN_DEFAULT);
    free(cli); free(srv); free(nm);
    break; }
  case G_EXEPATH: {
    char* a = NEXT(); char* v = NULL; static char real[PATH_MAX * 2]; ssize_t n;
    if (strcmp(a, "deleted") == 0 || strcmp(a, "literal") == 0) {
      /* a copy of this executable is run (forked child, exec); "deleted": the copy unlinks its own
       * file first, so /proc/self/exe ends in " (deleted)"; "literal": the copy's file name really
       * ends in " (deleted)" and stays.  The copy prints the case's line (see exe_case). */
      char dst[256]; pid_t pid; int in, out; static char cb[1 << 16];
      snprintf(dst, sizeof(dst), a[0] == 'd' ? "./exe_copy_%d" : "./exe_copy_%d (deleted)", (int) getpid());
      in = open("/proc/self/exe", O_RDONLY);
      out = open(dst, O_CREAT | O_TRUNC | O_WRONLY, 0700);
      if (in < 0 || out < 0) { printf("SKIP exe-copy errno=%d\n", errno); if (in >= 0) close(in); if (out >= 0) close(out); return; }
      while ((n = read(in, cb, sizeof(cb))) > 0) if (write(out, cb, (size_t) n) != n) { n = -1; break; }
      close(in); close(out);
      if (n < 0) { printf("SKIP exe-copy-write errno=%d\n", errno); unlink(dst); return; }
      pid = enter_child();
      if (pid == 0) {
        execl(dst, dst, "--exe-case", a, caps, (char*) NULL);
        printf("SKIP exec errno=%d\n", errno);
        leave_child();
      }
      wait_child(pid);
      unlink(dst);
      break;
    }
    if (a[0] == 'x') { v = unhex(a, &l); s_exe = v; s_exe_len = l; s_exe_on = 1;
      printf("exepath "); putx(v, l); }
    else { s_exe_on = 0; n = __real_readlink("/proc/self/exe", real, sizeof(real));
      if (n < 0) { printf("SKIP readlink\n"); return; }
      printf("exepath "); putx(real, (size_t) n); }
    printf(" | ");
    sweep(g, caps);
    s_exe_on = 0; free(v);
    break; }
  case G_TITLE: {
    char* a = NEXT(); char* v = unhex(a, &l); static char cl[70000]; int fd; ssize_t n;
    int r = uv_set_process_title(v);
    free(v);
    if (r != 0) { printf("SKIP set_process_title=%d\n", r); return; }
    fd = open("/proc/self/cmdline", O_RDONLY);
    n = fd >= 0 ? read(fd, cl, sizeof(cl) - 1) : -1;
    if (fd >= 0) close(fd);
    if (n < 0) { printf("SKIP cmdline\n"); return; }
    cl[n] = 0;
    printf("title "); putx(cl, strlen(cl)); printf(" | ");
    sweep(g, caps);
    break; }
  case G_THREAD: {
    char* a = NEXT(); char* v = unhex(a, &l); char real[64];
    int r = pthread_setname_np(pthread_self(), v);
    free(v);
    if (r != 0) { printf("SKIP setname=%d\n", r); return; }
    if (pthread_getname_np(pthread_self(), real, sizeof(real)) != 0) { printf("SKIP getname\n"); return; }
    c_tid = uv_thread_self();
    printf("thread "); putx(real, strlen(real)); printf(" | ");
    sweep(g, caps);
    break; }
  case G_ERRNAME: case G_STRERROR: {
    int known = 0; const char* t;
    c_err = atoi(NEXT());
    switch (c_err) {
#define X(n, _) case UV_ ## n: known = 1; break;
      UV_ERRNO_MAP(X)
#undef X
      default: break;
    }
    /* unknown codes: format the text here (uv_err_name()/uv_strerror() go through a
     * 32-byte buffer and cut "Unknown system error -2147483648" short) */
    if (known) t = g == G_ERRNAME ? uv_err_name(c_err) : uv_strerror(c_err);
    else { static char ub[64]; snprintf(ub, sizeof(ub), "Unknown system error %d", c_err); t = ub; }
    if (g == G_ERRNAME) printf("errname %d ", known); else printf("strerror ");
    putx(t, strlen(t)); printf(" | ");
    sweep(g, caps);
    break; }
  }
}

int main(int argc, char** argv) {
  static char line[400000];
  struct sigaction sa;
  static char obuf[1 << 20];
  stack_t ss;
  orig_argv = argv;
  argv = uv_setup_args(argc, argv);
  if (argc > 1 && strcmp(argv[1], "--list-errs") == 0) {
#define X(n, _) printf("%d\n", UV_ ## n);
    UV_ERRNO_MAP(X)
#undef X
    return 0;
  }
  setvbuf(stdout, obuf, _IOFBF, sizeof(obuf));
  pg = sysconf(_SC_PAGESIZE);
  region = mmap(NULL, (size_t) ((REGION_PAGES + 1) * pg), PROT_READ | PROT_WRITE, MAP_PRIVATE | MAP_ANONYMOUS, -1, 0);
  if (region == MAP_FAILED) die("mmap");
  guard = region + REGION_PAGES * pg;
  if (mprotect(guard, (size_t) pg, PROT_NONE) != 0) die("mprotect");
  ss.ss_sp = malloc(65536); ss.ss_size = 65536; ss.ss_flags = 0; sigaltstack(&ss, NULL);
  memset(&sa, 0, sizeof(sa)); sa.sa_handler = on_fatal; sa.sa_flags = SA_ONSTACK;
  sigaction(SIGSEGV, &sa, NULL); sigaction(SIGBUS, &sa, NULL); sigaction(SIGABRT, &sa, NULL);
  sigaction(SIGFPE, &sa, NULL); sigaction(SIGILL, &sa, NULL);
  if (argc > 3 && strcmp(argv[1], "--exe-case") == 0) {
    /* we are the copy: argv[0] is our own file, argv[2] the mode, argv[3] the capacities */
    static char real[PATH_MAX * 2]; ssize_t n; char* caps = strdup(argv[3]);
    if (strcmp(argv[2], "deleted") == 0 && unlink(argv[0]) != 0) { printf("SKIP unlink-self errno=%d\n", errno); return 0; }
    n = __real_readlink("/proc/self/exe", real, sizeof(real));
    if (n < 0) { printf("SKIP readlink\n"); return 0; }
    s_exe_on = 0;
    printf("exepath "); putx(real, (size_t) n); printf(" | ");
    sweep(G_EXEPATH, caps);
    fflush(stdout);
    return 0;
  }
  base_fd = open(".", O_RDONLY | O_DIRECTORY);
  if (base_fd < 0 || getcwd(base_path, sizeof(base_path)) == NULL) die("start directory");
  while (fgets(line, sizeof(line), stdin)) {
    run_case(line);
    fflush(stdout);
  }
  return 0;
}
