/* C12: the status decoding of uv__wait_children (process.c:166-172) with the
 * C library's own macros, for every 16-bit status word. */
#include <stdio.h>
#include <sys/wait.h>
int main(void) {
  int s;
  for (s = 0; s < 65536; s++) {
    int exit_status = 0, term_signal = 0;
    if (WIFEXITED(s)) exit_status = WEXITSTATUS(s);
    if (WIFSIGNALED(s)) term_signal = WTERMSIG(s);
    printf("%d %d\n", exit_status, term_signal);
  }
  return 0;
}
