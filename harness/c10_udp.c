/* C10: the UDP send and receive paths of the freshly built libuv, driven over real
 * loopback sockets.  Linked with --wrap=sendmsg,sendmmsg,recvmsg,recvmmsg: the
 * wrappers follow the plan of the case (pass, truncate a batch, fail with an errno,
 * EINTR), perform the real call on the part they let through, and log the answer
 * they gave; that log is the oracle of the model (Model/Udp.v).
 *
 * Case (one line):
 *   fam conn mm [pat] ; allocs ; splan ; rplan ; ops ; behs ; rbehs
 * fam 4|6, conn 0|1 (uv_udp_connect to plain socket 1), mm 0|1 (UV_UDP_RECVMMSG), pat 0|1|2:
 * every uv_udp_send_t is pre-filled with 0x00 / 0x5A / 0xFF and request structures are
 * reused (last finished first) without being cleared;
 * two plain sockets: destination 1 (R) and destination 2 (X); addr in s/t/u: 0 = NULL;
 * c<dst> uv_udp_connect(dst), d uv_udp_connect(NULL);
 * system-call tokens carry the msg_name libuv passed: <seq>@<0 NULL|1|2|9 other>;
 * A<seq>,<n>,<addr> (what the application asked for) is an annotation for the monitor;
 * allocs: sizes alloc_cb hands out; splan/rplan: what the k-th wrapped send/receive
 * call on the handle's descriptor does: p | t<j> | e<errno>;
 * ops: s<len>,<addr> t<len>,<addr> u<flags>,<len>,... g p q x R i<len>,...
 * behs / rbehs: '|'-separated op lists run inside the k-th send / receive callback.
 * Output: one token per event (see ocaml/drv_c10.ml), then W<datagrams the plain
 * socket received>. */
#include <stdio.h>
#include <stdlib.h>
#include <string.h>
#include <stdarg.h>
#include <errno.h>
#include <poll.h>
#include <signal.h>
#include <unistd.h>
#include <sys/socket.h>
#include <netinet/in.h>
#include <arpa/inet.h>
#include "uv.h"

ssize_t __real_sendmsg(int, const struct msghdr*, int);
int __real_sendmmsg(int, struct mmsghdr*, unsigned int, int);
ssize_t __real_recvmsg(int, struct msghdr*, int);
int __real_recvmmsg(int, struct mmsghdr*, unsigned int, int, struct timespec*);

#define MAXD 8192
#define MAXB 512
#define MAXP 512
#define BIG 70000

static uv_loop_t loop;
static uv_udp_t H;
static uv_prepare_t keep;
static int R = -1, X2 = -1, hfd = -1, fam, conn, mm, pat, cur_peer;
static struct sockaddr_storage Raddr, Xaddr, Haddr;
static socklen_t alen;
static int closing_called, quiet;

/* output */
static char* obuf; static size_t olen, ocap;
static void out(const char* fmt, ...) {
  va_list ap; int n;
  if (quiet) return;
  if (ocap - olen < 4096) { ocap = ocap * 2 + 8192; obuf = realloc(obuf, ocap); }
  va_start(ap, fmt); n = vsnprintf(obuf + olen, ocap - olen, fmt, ap); va_end(ap);
  if (n > 0) olen += (size_t) n;
}
/* a long list: make room first */
static void out_room(size_t n) {
  if (ocap - olen < n + 4096) { ocap = ocap * 2 + n + 8192; obuf = realloc(obuf, ocap); }
}

/* datagrams submitted on the handle */
static char* dg_ptr[MAXD]; static int dg_len[MAXD]; static int next_seq, next_id;
static int handed_log[MAXD], handed_to[MAXD], nhanded;
static void* reqs[MAXD]; static int nreqs;        /* every request structure of the case */
static void* freereq[MAXD]; static int nfree;     /* finished ones, reused last-in first-out */
static int matched[MAXD];

static uv_udp_send_t* get_req(void) {
  static const int fill[3] = { 0x00, 0x5A, 0xFF };
  uv_udp_send_t* r;
  if (nfree > 0) return freereq[--nfree];         /* as it was left: not cleared */
  r = malloc(sizeof *r);
  memset(r, fill[pat % 3], sizeof *r);
  if (nreqs < MAXD) reqs[nreqs++] = r;
  return r;
}
static void put_req(uv_udp_send_t* r) { if (nfree < MAXD) freereq[nfree++] = r; }

static char* mk_payload(int seq, int len) {
  char* p = malloc(len > 0 ? len : 1); int i;
  for (i = 0; i < len; i++) {
    unsigned char c;
    switch (i) {
    case 0: c = 0xC1; break; case 1: c = 0x0A; break;
    case 2: c = seq >> 24; break; case 3: c = seq >> 16; break;
    case 4: c = seq >> 8; break; case 5: c = seq; break;
    default: c = (unsigned char) (seq * 31 + i * 7);
    }
    p[i] = (char) c;
  }
  return p;
}
static int new_dgram(int len) {
  int s = next_seq++;
  if (s >= MAXD) { fprintf(stderr, "too many datagrams\n"); exit(2); }
  dg_ptr[s] = mk_payload(s, len); dg_len[s] = len;
  return s;
}
static int seq_of_ptr(const void* p) {
  int i;
  for (i = next_seq - 1; i >= 0; i--) if (dg_ptr[i] == p) return i;
  return -1;
}
/* split a datagram into nb buffers */
/* split a datagram into nb buffers (nbreq <= 0: 1 + len % 6, as ocaml/drv_c10.ml); len / nb
 * bytes each, the remainder one byte each in the LAST buffers, so with nb > len the leading
 * buffers are empty and a datagram cut to its first buffers loses bytes */
static uv_buf_t* split(int seq, long nbreq, unsigned* nbp) {
  int len = dg_len[seq]; unsigned nb = nbreq > 0 ? (unsigned) nbreq : 1 + (unsigned) len % 6, k; int off = 0;
  int base = len / (int) nb, rem = len % (int) nb;
  uv_buf_t* b = malloc(nb * sizeof *b);
  for (k = 0; k < nb; k++) {
    int piece = base + (k >= nb - (unsigned) rem ? 1 : 0);
    b[k] = uv_buf_init(dg_ptr[seq] + off, piece); off += piece;
  }
  *nbp = nb;
  return b;
}

/* injected datagrams (plain socket -> handle) */
static int inj_len[MAXD], ninj, rx_count;
static unsigned char inj_byte(int j, int i) {
  switch (i) { case 0: return 0xD7; case 1: return 0x0A; case 2: return j >> 8; case 3: return j;
  default: return (unsigned char) (j * 17 + i * 3); }
}

/* what the plain sockets received */
static int rcv_seq[2][MAXD], rcv_bad[2][MAXD], nrcv[2];   /* rcv_bad: length received when it is not the datagram's bytes */
static void drain1(int w, int fd) {
  static char buf[BIG];
  for (;;) {
    ssize_t n = recv(fd, buf, sizeof buf, MSG_DONTWAIT); int s = -1, k;
    if (n < 0) break;
    if (n >= 6 && (unsigned char) buf[0] == 0xC1) {
      s = ((unsigned char) buf[2] << 24) | ((unsigned char) buf[3] << 16) |
          ((unsigned char) buf[4] << 8) | (unsigned char) buf[5];
    } else {
      /* too short to carry its number: the earliest handed datagram with this content */
      int pass;
      for (pass = 0; pass < 2 && s < 0; pass++)      /* first among those addressed to this socket */
        for (k = 0; k < nhanded; k++) {
          int h = handed_log[k];
          if (!matched[k] && h >= 0 && (pass || handed_to[k] == w + 1) && dg_len[h] == n &&
              memcmp(buf, dg_ptr[h], n) == 0) { s = h; matched[k] = 1; break; }
        }
    }
    if (s < 0 || s >= next_seq) s = -1;
    if (nrcv[w] < MAXD) {
      rcv_bad[w][nrcv[w]] = (s >= 0 && (dg_len[s] != n || memcmp(buf, dg_ptr[s], n) != 0)) ? (int) n : -1;
      rcv_seq[w][nrcv[w]++] = s;
    }
  }
}
static void drain(void) { drain1(0, R); drain1(1, X2); }

static int same_addr(const struct sockaddr* a, const struct sockaddr_storage* b0) {
  const struct sockaddr* b = (const struct sockaddr*) b0;
  if (a->sa_family != b->sa_family) return 0;
  if (a->sa_family == AF_INET) {
    const struct sockaddr_in *x = (const void*) a, *y = (const void*) b;
    return x->sin_port == y->sin_port && x->sin_addr.s_addr == y->sin_addr.s_addr;
  } else if (a->sa_family == AF_INET6) {
    const struct sockaddr_in6 *x = (const void*) a, *y = (const void*) b;
    return x->sin6_port == y->sin6_port && memcmp(&x->sin6_addr, &y->sin6_addr, 16) == 0;
  }
  return 0;
}
/* the msg_name libuv passed: 0 NULL, 1 / 2 the plain sockets, 9 anything else */
static int name_of(const struct msghdr* h) {
  if (h->msg_name == NULL) return 0;
  if (same_addr(h->msg_name, &Raddr)) return 1;
  if (same_addr(h->msg_name, &Xaddr)) return 2;
  return 9;
}

/* plans */
static char* splan[MAXP]; static int nsplan, isplan;
static char* rplan[MAXP]; static int nrplan, irplan;
static const char* next_plan(char** plan, int n, int* i) { return *i < n ? plan[(*i)++] : "p"; }

ssize_t __wrap_sendmsg(int fd, const struct msghdr* h, int flags) {
  const char* p; int seq; ssize_t r;
  if (fd != hfd || hfd < 0 || quiet) return __real_sendmsg(fd, h, flags);
  seq = h->msg_iovlen > 0 ? seq_of_ptr(h->msg_iov[0].iov_base) : -1;
  p = next_plan(splan, nsplan, &isplan);
  if (p[0] == 'e') { errno = atoi(p + 1); out("m%d@%d#%zu=E%d ", seq, name_of(h), (size_t) h->msg_iovlen, errno); return -1; }
  r = __real_sendmsg(fd, h, flags);
  if (r < 0) { int e = errno; out("m%d@%d#%zu=E%d ", seq, name_of(h), (size_t) h->msg_iovlen, e); errno = e; return -1; }
  if (nhanded < MAXD) { handed_to[nhanded] = name_of(h) ? name_of(h) : cur_peer; handed_log[nhanded++] = seq; }
  out("m%d@%d#%zu=%zd ", seq, name_of(h), (size_t) h->msg_iovlen, r);
  return r;
}

int __wrap_sendmmsg(int fd, struct mmsghdr* v, unsigned int vlen, int flags) {
  const char* p; unsigned k, n = vlen; int r;
  if (fd != hfd || hfd < 0 || quiet) return __real_sendmmsg(fd, v, vlen, flags);
  p = next_plan(splan, nsplan, &isplan);
  out_room(vlen * 20);
  out("M");
  for (k = 0; k < vlen; k++)
    out("%s%d@%d#%zu", k ? "." : "", v[k].msg_hdr.msg_iovlen > 0 ? seq_of_ptr(v[k].msg_hdr.msg_iov[0].iov_base) : -1,
        name_of(&v[k].msg_hdr), (size_t) v[k].msg_hdr.msg_iovlen);
  if (p[0] == 'e') { errno = atoi(p + 1); out("=E%d ", errno); return -1; }
  if (p[0] == 't') { n = (unsigned) atoi(p + 1); if (n > vlen) n = vlen; }
  if (n == 0) { out("=0 "); return 0; }
  r = __real_sendmmsg(fd, v, n, flags);
  if (r < 0) { int e = errno; out("=E%d ", e); errno = e; return -1; }
  for (k = 0; k < (unsigned) r; k++)
    if (nhanded < MAXD) {
      handed_to[nhanded] = name_of(&v[k].msg_hdr) ? name_of(&v[k].msg_hdr) : cur_peer;
      handed_log[nhanded++] = seq_of_ptr(v[k].msg_hdr.msg_iov[0].iov_base);
    }
  out("=%d ", r);
  return r;
}

static int last_ids[64];

ssize_t __wrap_recvmsg(int fd, struct msghdr* h, int flags) {
  const char* p; ssize_t r;
  if (fd != hfd || hfd < 0 || quiet) return __real_recvmsg(fd, h, flags);
  p = next_plan(rplan, nrplan, &irplan);
  if (p[0] == 'e') { errno = atoi(p + 1); out("v=E%d ", errno); return -1; }
  r = __real_recvmsg(fd, h, flags);
  if (r < 0) { int e = errno; out("v=E%d ", e); errno = e; return -1; }
  last_ids[0] = rx_count++;
  out("v=%d:%zd:%d ", last_ids[0], r, (h->msg_flags & MSG_TRUNC) ? 1 : 0);
  return r;
}

int __wrap_recvmmsg(int fd, struct mmsghdr* v, unsigned int vlen, int flags, struct timespec* t) {
  const char* p; unsigned n = vlen; int r, k;
  if (fd != hfd || hfd < 0 || quiet) return __real_recvmmsg(fd, v, vlen, flags, t);
  p = next_plan(rplan, nrplan, &irplan);
  if (p[0] == 'e') { errno = atoi(p + 1); out("V%u=E%d ", vlen, errno); return -1; }
  if (p[0] == 't') { n = (unsigned) atoi(p + 1); if (n > vlen) n = vlen; if (n == 0 && vlen > 0) n = 1; }
  r = __real_recvmmsg(fd, v, n, flags, t);
  if (r < 0) { int e = errno; out("V%u=E%d ", vlen, e); errno = e; return -1; }
  out("V%u=", vlen);
  if (r == 0) out("0");
  for (k = 0; k < r; k++) {
    last_ids[k] = rx_count++;
    out("%s%d:%u:%d", k ? "/" : "", last_ids[k], v[k].msg_len, (v[k].msg_hdr.msg_flags & MSG_TRUNC) ? 1 : 0);
  }
  out(" ");
  return r;
}

/* callbacks */
static char* beh[MAXB]; static int nbeh, ncb;
static char* rbeh[MAXB]; static int nrbeh, nrcb;
static long allocs[MAXP]; static int nallocs, ialloc;
static int cur_b = -1, next_b; static char* cur_base; static size_t cur_len;

static void do_ops(char* ops, int in_cb);
static void run_beh(char** tab, int n, int k) {
  if (k < n) { char* c = strdup(tab[k]); do_ops(c, 1); free(c); }
}

static void send_cb(uv_udp_send_t* req, int status) {
  out("c%d,%d ", (int) (intptr_t) req->data, status);
  put_req(req);
  run_beh(beh, nbeh, ncb++);
}

static void alloc_cb(uv_handle_t* h, size_t suggested, uv_buf_t* buf) {
  long len = ialloc < nallocs ? allocs[ialloc++] : 0;
  (void) h; (void) suggested;
  cur_b = next_b++;
  if (len <= 0) { cur_base = NULL; cur_len = 0; *buf = uv_buf_init(NULL, 0); len = 0; }
  else { cur_base = malloc((size_t) len); cur_len = (size_t) len; *buf = uv_buf_init(cur_base, (unsigned) len); }
  out("a%d,%ld ", cur_b, len);
}

static int inj_src[MAXD];
static int addr_is_src(const struct sockaddr* a, int msg) {
  if (msg < 0 || msg >= ninj) return 0;
  return same_addr(a, inj_src[msg] == 2 ? &Xaddr : &Raddr);
}

static void recv_cb(uv_udp_t* h, ssize_t nread, const uv_buf_t* buf, const struct sockaddr* addr, unsigned flags) {
  char part[16]; int msg = -1, ok = 1; long ck = -1;
  (void) h;
  if (flags & UV_UDP_MMSG_CHUNK) {
    if (cur_base != NULL && buf->base >= cur_base && buf->base < cur_base + cur_len &&
        (buf->base - cur_base) % 65536 == 0) ck = (buf->base - cur_base) / 65536;
    if (ck >= 0) snprintf(part, sizeof part, "%ld", ck); else strcpy(part, "?");
  } else {
    strcpy(part, (buf->base == cur_base) ? "w" : "?");
  }
  if (addr != NULL) {
    msg = (flags & UV_UDP_MMSG_CHUNK) ? (ck >= 0 && ck < 64 ? last_ids[ck] : -1) : last_ids[0];
    if (msg >= 0 && msg < ninj && nread >= 0) {
      ssize_t i;
      if (nread > inj_len[msg]) ok = 0;
      for (i = 0; ok && i < nread; i++) if ((unsigned char) buf->base[i] != inj_byte(msg, (int) i)) ok = 0;
    } else ok = 0;
  }
  out("r%d,%s,%zd,", cur_b, part, nread);
  if (msg >= 0) out("%d", msg); else out("-");
  out(",%u,%s,%d ", flags, addr == NULL ? "-" : (addr_is_src(addr, msg) ? "p" : "x"), ok);
  if (!(flags & UV_UDP_MMSG_CHUNK) && strcmp(part, "w") == 0) {   /* handed back */
    free(cur_base); cur_base = NULL; cur_len = 0;
  }
  run_beh(rbeh, nrbeh, nrcb++);
}

static void close_cb(uv_handle_t* h) { if ((void*) h == (void*) &H) out("Z "); }
static void prep_cb(uv_prepare_t* p) { (void) p; }

/* "len:nb" items: the part after ':' goes to vb (0 when absent) */
static long vb[MAXP];
static int parse_list(char* s, long* v, int max) {
  int n = 0; char* save = NULL; char* t;
  for (t = strtok_r(s, ",", &save); t && n < max; t = strtok_r(NULL, ",", &save)) {
    char* c = strchr(t, ':');
    vb[n] = c ? atol(c + 1) : 0;
    v[n++] = atol(t);
  }
  return n;
}

static struct sockaddr* dest(long a) {
  return a == 1 ? (struct sockaddr*) &Raddr : a == 2 ? (struct sockaddr*) &Xaddr : NULL;
}

static void do_ops(char* ops, int in_cb) {
  char* save = NULL; char* tok;
  for (tok = strtok_r(ops, " \n", &save); tok; tok = strtok_r(NULL, " \n", &save)) {
    static long v[MAXP]; int n, r;
    if (closing_called && tok[0] != 'g' && tok[0] != 'R') continue;
    switch (tok[0]) {
    case 's': {
      uv_buf_t* b; unsigned nb; int seq, id; uv_udp_send_t* req;
      n = parse_list(tok + 1, v, 3); if (n != 2 && n != 3) break;
      seq = new_dgram((int) v[0]); id = next_id++;
      req = get_req(); req->data = (void*) (intptr_t) id;
      b = split(seq, n == 3 ? v[2] : 0, &nb);
      out("A%d,1,%ld ", seq, v[1]);
      {
        /* the S token goes in front of the system calls the call makes */
        size_t mark = olen; char tmp[96]; int tn; long len0 = v[0];
        r = uv_udp_send(req, &H, b, nb, dest(v[1]), send_cb);
        if (r != 0) put_req(req);
        tn = snprintf(tmp, sizeof tmp, "S%d,%d,%ld=%d ", id, seq, len0, r);
        out_room((size_t) tn);
        if (!quiet) memmove(obuf + mark + tn, obuf + mark, olen - mark);
        if (!quiet) { memcpy(obuf + mark, tmp, (size_t) tn); olen += (size_t) tn; }
      }
      free(b);
      break;
    }
    case 't': {
      uv_buf_t* b; unsigned nb; int seq;
      n = parse_list(tok + 1, v, 3); if (n != 2 && n != 3) break;
      seq = new_dgram((int) v[0]);
      b = split(seq, n == 3 ? v[2] : 0, &nb);
      out("A%d,1,%ld ", seq, v[1]);
      r = uv_udp_try_send(&H, b, nb, dest(v[1]));
      out("T%d,%ld=%d ", seq, v[0], r);
      free(b);
      break;
    }
    case 'u': {
      int cnt, k, seq0 = next_seq; uv_buf_t** bufs; unsigned* nbufs; struct sockaddr** addrs;
      n = parse_list(tok + 1, v, MAXP); if (n < 2) break;
      cnt = n - 2;
      out("A%d,%d,%ld ", seq0, cnt, v[1]);
      bufs = calloc(cnt + 1, sizeof *bufs);
      nbufs = calloc(cnt + 1, sizeof *nbufs); addrs = calloc(cnt + 1, sizeof *addrs);
      for (k = 0; k < cnt; k++) {
        int seq = new_dgram((int) v[k + 2]);
        bufs[k] = split(seq, vb[k + 2], &nbufs[k]);
        addrs[k] = dest(v[1] == 3 ? 1 + seq % 2 : v[1]);
      }
      r = uv_udp_try_send2(&H, (unsigned) cnt, bufs, nbufs, addrs, (unsigned) v[0]);
      out("U%d,%d=%d ", seq0, cnt, r);
      for (k = 0; k < cnt; k++) free(bufs[k]);
      free(bufs); free(nbufs); free(addrs);
      break;
    }
    case 'g':
      out("g%zu,%zu,%d ", uv_udp_get_send_queue_size(&H), uv_udp_get_send_queue_count(&H),
          uv_is_active((uv_handle_t*) &H) ? 1 : 0);
      break;
    case 'c':
      n = atoi(tok + 1);
      r = uv_udp_connect(&H, dest(n));
      if (r == 0) cur_peer = n;
      out("C%d=%d ", n, r);
      break;
    case 'd':
      r = uv_udp_connect(&H, NULL);
      if (r == 0) cur_peer = 0;
      out("D=%d ", r);
      break;
    case 'p': out("P%d ", uv_udp_recv_start(&H, alloc_cb, recv_cb)); break;
    case 'q': out("Q%d ", uv_udp_recv_stop(&H)); break;
    case 'x': closing_called = 1; uv_close((uv_handle_t*) &H, close_cb); out("X "); break;
    case 'R':
      if (!in_cb) {
        int kin = 0, kout = 0;
        if (!closing_called) {
          struct pollfd pf; pf.fd = hfd; pf.events = POLLIN | POLLOUT; pf.revents = 0;
          if (poll(&pf, 1, 0) > 0) { kin = !!(pf.revents & POLLIN); kout = !!(pf.revents & POLLOUT); }
        }
        out("R%d%d ", kin, kout);
        uv_run(&loop, UV_RUN_NOWAIT);
      }
      break;
    case 'i':
      if (!in_cb) {
        static unsigned char pl[BIG]; int k, i;
        n = parse_list(tok + 1, v, MAXP);
        for (k = 0; k < n && ninj < MAXD; k++) {
          int len = (int) v[k]; if (len > BIG - 8) len = BIG - 8;
          for (i = 0; i < len; i++) pl[i] = inj_byte(ninj, i);
          /* a connected handle only hears its peer */
          if (sendto(cur_peer == 2 ? X2 : R, pl, (size_t) len, 0, (struct sockaddr*) &Haddr, alen) == len) {
            inj_src[ninj] = cur_peer == 2 ? 2 : 1; inj_len[ninj++] = len;
          }
          else { fprintf(stderr, "inject failed: %s\n", strerror(errno)); exit(2); }
        }
      }
      break;
    }
    if (!in_cb) drain();
  }
}

static int split_bar(char* s, char** tab, int max) {
  int n = 0;
  for (;;) { char* e = strchr(s, '|'); if (e) *e = 0; if (n < max) tab[n++] = s; if (!e) break; s = e + 1; }
  return n;
}
static int split_sp(char* s, char** tab, int max) {
  int n = 0; char* save = NULL; char* t;
  for (t = strtok_r(s, " \n", &save); t && n < max; t = strtok_r(NULL, " \n", &save)) tab[n++] = t;
  return n;
}

static void loopback(struct sockaddr_storage* a, int port) {
  memset(a, 0, sizeof *a);
  if (fam == 4) { struct sockaddr_in* x = (void*) a; x->sin_family = AF_INET; x->sin_port = htons(port);
                  x->sin_addr.s_addr = htonl(INADDR_LOOPBACK); alen = sizeof *x; }
  else { struct sockaddr_in6* x = (void*) a; x->sin6_family = AF_INET6; x->sin6_port = htons(port);
         x->sin6_addr = in6addr_loopback; alen = sizeof *x; }
}

/* safety net only: a case that does not come back (e.g. libuv retrying forever) */
static void on_alarm(int sig) {
  (void) sig;
  if (obuf) { ssize_t w = write(1, obuf, olen); (void) w; }
  { ssize_t w = write(1, " HANG", 5); (void) w; }
  _exit(3);
}

static void die(const char* what, int r) { fprintf(stderr, "c10 harness: %s: %d %s\n", what, r, strerror(errno)); exit(2); }

int main(void) {
  static char line[1 << 20];
  while (fgets(line, sizeof line, stdin)) {
    char* f[7]; int nf = 0, k, big = 4 << 20, r, namelen; char* s = line; char* cfgt[4]; char* at[MAXP];
    socklen_t sl;
    for (;;) { char* e = strchr(s, ';'); if (e) *e = 0; if (nf < 7) f[nf++] = s; if (!e) break; s = e + 1; }
    if (nf < 7) { printf("BADCASE\n"); continue; }
    k = split_sp(f[0], cfgt, 4);
    if (k != 3 && k != 4) { printf("BADCASE\n"); continue; }
    fam = atoi(cfgt[0]); conn = atoi(cfgt[1]); mm = atoi(cfgt[2]); pat = k == 4 ? atoi(cfgt[3]) : 0;
    signal(SIGALRM, on_alarm); alarm(5);
    nallocs = split_sp(f[1], at, MAXP); for (k = 0; k < nallocs; k++) allocs[k] = atol(at[k]);
    nsplan = split_sp(f[2], splan, MAXP); nrplan = split_sp(f[3], rplan, MAXP);
    nbeh = split_bar(f[5], beh, MAXB); nrbeh = split_bar(f[6], rbeh, MAXB);
    isplan = irplan = ialloc = 0; ncb = nrcb = 0; next_seq = next_id = 0; nhanded = 0; nreqs = 0;
    nfree = 0; memset(matched, 0, sizeof matched); cur_peer = 0;
    ninj = rx_count = 0; nrcv[0] = nrcv[1] = 0; cur_b = -1; next_b = 0; cur_base = NULL; cur_len = 0;
    closing_called = 0; quiet = 0; olen = 0;

    R = socket(fam == 4 ? AF_INET : AF_INET6, SOCK_DGRAM, 0); if (R < 0) die("socket", R);
    setsockopt(R, SOL_SOCKET, SO_RCVBUF, &big, sizeof big);
    loopback(&Raddr, 0);
    if (bind(R, (struct sockaddr*) &Raddr, alen)) die("bind", -1);
    sl = sizeof Raddr; getsockname(R, (struct sockaddr*) &Raddr, &sl);
    X2 = socket(fam == 4 ? AF_INET : AF_INET6, SOCK_DGRAM, 0); if (X2 < 0) die("socket", X2);
    setsockopt(X2, SOL_SOCKET, SO_RCVBUF, &big, sizeof big);
    loopback(&Xaddr, 0);
    if (bind(X2, (struct sockaddr*) &Xaddr, alen)) die("bind", -1);
    sl = sizeof Xaddr; getsockname(X2, (struct sockaddr*) &Xaddr, &sl);

    if ((r = uv_loop_init(&loop))) die("uv_loop_init", r);
    uv_prepare_init(&loop, &keep); uv_prepare_start(&keep, prep_cb);
    if ((r = uv_udp_init_ex(&loop, &H, (fam == 4 ? AF_INET : AF_INET6) | (mm ? UV_UDP_RECVMMSG : 0)))) die("uv_udp_init_ex", r);
    loopback(&Haddr, 0);
    if ((r = uv_udp_bind(&H, (struct sockaddr*) &Haddr, 0))) die("uv_udp_bind", r);
    namelen = sizeof Haddr; uv_udp_getsockname(&H, (struct sockaddr*) &Haddr, &namelen);
    uv_fileno((uv_handle_t*) &H, &hfd);
    setsockopt(hfd, SOL_SOCKET, SO_RCVBUF, &big, sizeof big);
    if (conn && (r = uv_udp_connect(&H, (struct sockaddr*) &Raddr))) die("uv_udp_connect", r);
    if (conn) cur_peer = 1;

    do_ops(f[4], 0);
    drain();
    out_room((size_t) (nrcv[0] + nrcv[1]) * 20);
    for (r = 0; r < 2; r++) {
      out(r ? " Y" : "W");
      for (k = 0; k < nrcv[r]; k++) {
        if (rcv_seq[r][k] < 0) out("%s?", k ? "." : "");
        else if (rcv_bad[r][k] >= 0) out("%s%d/%d", k ? "." : "", rcv_seq[r][k], rcv_bad[r][k]);   /* seq/bytes received */
        else out("%s%d", k ? "." : "", rcv_seq[r][k]);
      }
    }
    alarm(0);
    fwrite(obuf, 1, olen, stdout); putchar('\n'); fflush(stdout);

    /* tear down */
    quiet = 1;
    if (!closing_called) { closing_called = 1; uv_close((uv_handle_t*) &H, close_cb); }
    uv_close((uv_handle_t*) &keep, NULL);
    for (k = 0; k < 100 && uv_run(&loop, UV_RUN_NOWAIT); k++) ;
    if (uv_loop_close(&loop)) { fprintf(stderr, "c10 harness: loop busy at the end of a case\n"); exit(2); }
    hfd = -1; close(R); R = -1; close(X2); X2 = -1;
    if (cur_base) { free(cur_base); cur_base = NULL; }
    for (k = 0; k < next_seq; k++) { free(dg_ptr[k]); dg_ptr[k] = NULL; }
    for (k = 0; k < nreqs; k++) free(reqs[k]);
  }
  return 0;
}
