/* C16 fault-injection core: counting allocator + --wrap'ed system calls.
 *
 * Every allocation made through libuv's allocator and every wrapped system
 * call is a *fault point* named  <class>.<name>  (class M = the thread that
 * runs the loop, W = any other thread) and numbered per (class, name).
 * A fault plan says what a point answers:
 *    at:M.socket#2=EMFILE        occurrence 2 of socket() on the loop thread fails once
 *    at:M.read#0=I3              occurrences 0,1,2 of read() fail with EINTR, then pass
 *    at:...;at:...               several of them
 *    seq:o,ENOMEM,i,o            the points reached inside the *armed region* of a
 *                                unit scenario consume these answers in order
 *                                (o = pass through, i = EINTR once, an errno name = fail)
 *    at:M.write#1=EAGAIN!        forced: skips the applicability test (used for the write inside
 *                                libuv's signal handler: a full signal pipe)
 *    at:M.accept4#0=LIMIT        the process is at its descriptor limit from that call on: the call
 *                                fails with EMFILE, and so does every later descriptor-creating call
 *                                for as long as at least as many descriptors are open as at that moment
 *    clobber;at:...              the allocator's free() sets errno to EBADF after freeing (libuv must not let
 *                                that change the error code it reports)
 * In record mode (plan "-") nothing fails and every point is logged.
 * A run that passes more than FI_SPIN fault points is cut off (status SPIN).
 */
#ifndef C16_FAULT_H
#define C16_FAULT_H
#include <errno.h>
#include <fcntl.h>
#include <pthread.h>
#include <stdarg.h>
#include <stdint.h>
#include <stdio.h>
#include <stdlib.h>
#include <string.h>
#include <unistd.h>
#include <sys/types.h>
#include <sys/socket.h>
#include <sys/stat.h>
#include <sys/syscall.h>
#include <sys/epoll.h>
#include <sys/uio.h>
#include <sys/mman.h>
#include <sys/wait.h>
#include <dirent.h>
#include <ifaddrs.h>
#include <poll.h>
#include <time.h>

#define MAXNAMES 64
#define MAXFAULTS 4
#define MAXSEQ 64

struct errn { const char* n; int v; };
static const struct errn errtab[] = {
  {"EINTR", EINTR}, {"EAGAIN", EAGAIN}, {"ENOBUFS", ENOBUFS}, {"EMFILE", EMFILE},
  {"ENFILE", ENFILE}, {"ENOMEM", ENOMEM}, {"ENOSPC", ENOSPC}, {NULL, 0}};

static int err_of_name(const char* s) {
  int i;
  for (i = 0; errtab[i].n; i++) if (!strcmp(errtab[i].n, s)) return errtab[i].v;
  return 0;
}
static const char* name_of_err(int e) {
  int i;
  for (i = 0; errtab[i].n; i++) if (errtab[i].v == e) return errtab[i].n;
  return "E?";
}

struct fault { int cls, id, idx, err, k, force, limit; };   /* k > 0: EINTR storm of k */
#define FI_SPIN 60000

static pthread_t fi_main;
static pthread_mutex_t fi_mu = PTHREAD_MUTEX_INITIALIZER;
static const char* fi_names[MAXNAMES];
static int fi_nnames;
static int fi_cnt[2][MAXNAMES];
static struct fault fi_faults[MAXFAULTS];
static int fi_nfaults;
static int fi_seq[MAXSEQ], fi_nseq, fi_seqpos, fi_useseq;
static volatile int fi_on;          /* injection + counting window */
static volatile int fi_armed;       /* armed region of a unit scenario */
static const char* volatile fi_only; /* armed region: only points of this name consume answers */
static int fi_record;
static int fi_clobber;              /* plan token "clobber": an application allocator whose free() modifies errno */
static int fi_fired;                /* number of injected answers */
static char fi_last[64];            /* last injected point */
static const char* volatile fi_api = "-";  /* API call in progress (loop thread) */

/* event / point logs */
static char* ev_buf; static size_t ev_len, ev_cap;
static char* pt_buf; static size_t pt_len, pt_cap;
static void buf_add(char** b, size_t* len, size_t* cap, const char* s) {
  size_t n = strlen(s);
  if (*len + n + 2 > *cap) {
    *cap = (*cap ? *cap * 2 : 1 << 16) + n;
    *b = realloc(*b, *cap);        /* libc realloc: not a fault point */
  }
  memcpy(*b + *len, s, n + 1);
  *len += n;
}
/* libuv's signal handler makes wrapped calls too: no signal may arrive while fi_mu is held */
static void fi_lock(sigset_t* old) {
  sigset_t all;
  sigfillset(&all);
  pthread_sigmask(SIG_BLOCK, &all, old);
  pthread_mutex_lock(&fi_mu);
}
static void fi_unlock(const sigset_t* old) {
  pthread_mutex_unlock(&fi_mu);
  pthread_sigmask(SIG_SETMASK, old, NULL);
}
static void ev(const char* fmt, ...) {
  char t[512];
  sigset_t old;
  va_list ap;
  va_start(ap, fmt);
  vsnprintf(t, sizeof t, fmt, ap);
  va_end(ap);
  fi_lock(&old);
  buf_add(&ev_buf, &ev_len, &ev_cap, t);
  buf_add(&ev_buf, &ev_len, &ev_cap, " ");
  fi_unlock(&old);
}

static int fi_name_id(const char* name) {
  int i;
  for (i = 0; i < fi_nnames; i++)
    if (fi_names[i] == name || !strcmp(fi_names[i], name)) return i;
  if (fi_nnames < MAXNAMES) { fi_names[fi_nnames] = name; return fi_nnames++; }
  return 0;
}

static int fi_is_wakeup(int fd);    /* eventfd / signal pipes of the loop: defined by the harness */
static int fi_is_sigpipe(int fd);   /* write end of the loop's signal pipe */
static int fi_count_fds(void);
static void fi_flush_and_exit(int code);
static long fi_hits; static int fi_fdlimit;
/* n = non-blocking, s = socket, w = internal wake-up channel */
static int fi_creates_fd(const char* name) {
  static const char* const c[] = {"accept4", "socket", "socketpair", "pipe2", "eventfd", "epoll_create1", "open",
                                  "inotify_init1", "opendir", "iou_setup", NULL};
  int i;
  for (i = 0; c[i]; i++) if (!strcmp(c[i], name)) return 1 + (!strcmp(name, "socketpair") || !strcmp(name, "pipe2"));
  return 0;
}
static void fd_attr(int fd, char* a) {
  struct stat st; int fl, n = 0;
  if (fd >= 0) {
    fl = fcntl(fd, F_GETFL);
    if (fl != -1 && (fl & O_NONBLOCK)) a[n++] = 'n';
    if (fstat(fd, &st) == 0 && S_ISSOCK(st.st_mode)) a[n++] = 's';
    if (fi_is_wakeup(fd)) a[n++] = 'w';
    if (fi_is_sigpipe(fd)) a[n++] = 'g';
  }
  a[n] = 0;
}
/* can this call return this errno on this descriptor?  EAGAIN needs a non-blocking descriptor
   (and on the loop's own wake-up channels a would-block write means "a wake-up is already
   pending", which an injected answer cannot emulate); ENOBUFS needs a socket */
static int fi_applicable(const char* name, int e, const char* attr, int fd) {
  if (fd < 0) return 1;
  if (e == EAGAIN) {
    if (!strchr(attr, 'n')) return 0;
    if (strchr(attr, 'w') && !strncmp(name, "write", 5)) return 0;
  }
  if (e == ENOBUFS && !strncmp(name, "write", 5) && !strchr(attr, 's')) return 0;
  return 1;
}

/* attr: string of flags for the record ("n" non-blocking fd, "s" socket) */
/* An interrupted call that is issued again must carry the same arguments.  [ident] identifies the
   object of the call (descriptor, buffer, path), [rest] the other arguments (length, flags, offset);
   ident == 0: not tracked.  Checked when the very next fault point of that thread class is the same
   call on the same object right after an injected EINTR. */
ssize_t __real_write(int, const void*, size_t);
static struct { int pending, id; unsigned long ident, rest; long seq; } fi_intr[2];
static long fi_seq_cls[2];
static int fi_hit_args(const char* name, int fd, unsigned long ident, unsigned long rest);
static int fi_hit(const char* name, int fd) { return fi_hit_args(name, fd, 0, 0); }
static int fi_hit_args(const char* name, int fd, unsigned long ident, unsigned long rest) {
  int cls, id, idx, e = 0, i;
  char attr[8] = "";
  int force = 0, creates;
  sigset_t old;
  if (!fi_on) return 0;
  cls = pthread_equal(pthread_self(), fi_main) ? 0 : 1;
  fi_lock(&old);
  id = fi_name_id(name);
  idx = fi_cnt[cls][id]++;
  fi_seq_cls[cls]++;
  if (fi_intr[cls].pending && fi_intr[cls].id == id && fi_intr[cls].seq + 1 == fi_seq_cls[cls] &&
      ident != 0 && fi_intr[cls].ident == ident && fi_intr[cls].rest != rest) {
    char t[160];
    snprintf(t, sizeof t, "RETRYARGS:%s:%lx->%lx ", name, fi_intr[cls].rest, rest);
    buf_add(&ev_buf, &ev_len, &ev_cap, t);
    /* also on stderr at once: the retried call may well destroy the process */
    if (__real_write(2, t, strlen(t)) < 0 || __real_write(2, "\n", 1) < 0) {}
  }
  fi_intr[cls].pending = 0;
  for (i = 0; i < fi_nfaults; i++) {
    struct fault* f = &fi_faults[i];
    if (f->cls != cls || f->id != id) continue;
    if (f->k > 0) { if (idx >= f->idx && idx < f->idx + f->k) e = EINTR; }
    else if (idx == f->idx) {
      e = f->err; force = f->force;
      if (f->limit) { fi_fdlimit = fi_count_fds(); force = 1; }
    }
  }
  creates = fi_creates_fd(name);
  if (!e && fi_fdlimit > 0 && creates && fi_count_fds() + creates - 1 >= fi_fdlimit) { e = EMFILE; force = 1; }
  if (e || fi_record) {
    fd_attr(fd, attr);
    if (e && !force && !fi_applicable(name, e, attr, fd)) e = 0;
  }
  if (++fi_hits > FI_SPIN) {
    /* a loop that keeps making system calls without getting anywhere */
    fi_on = 0;
    fi_unlock(&old);
    ev("SPIN:%s:api=%s", name, fi_api);
    fi_flush_and_exit(79);
  }
  if (fi_useseq && fi_armed && cls == 0 && (!fi_only || !strcmp(fi_only, name))) {
    e = fi_seqpos < fi_nseq ? fi_seq[fi_seqpos] : 0;
    fi_seqpos++;
    i = -1;
  }
  if (fi_record || i == -1) {
    char t[160];
    snprintf(t, sizeof t, "%c.%s%s%s@%s%s%s ", cls ? 'W' : 'M', name, attr[0] ? ":" : "", attr,
             cls ? "-" : fi_api, e ? "=" : "", e ? name_of_err(e) : "");
    buf_add(&pt_buf, &pt_len, &pt_cap, t);
  }
  if (e == EINTR) { fi_intr[cls].pending = 1; fi_intr[cls].id = id; fi_intr[cls].ident = ident; fi_intr[cls].rest = rest; fi_intr[cls].seq = fi_seq_cls[cls]; }
  if (e) { fi_fired++; snprintf(fi_last, sizeof fi_last, "%c.%s#%d=%s", cls ? 'W' : 'M', name, idx, name_of_err(e)); }
  fi_unlock(&old);
  return e;
}

static int fi_parse(const char* plan) {
  char* copy; char* tok; char* save = NULL;
  if (!strcmp(plan, "-")) { fi_record = 1; return 0; }
  if (!strncmp(plan, "seq:", 4)) {
    fi_useseq = 1;
    copy = strdup(plan + 4);
    for (tok = strtok_r(copy, ",", &save); tok; tok = strtok_r(NULL, ",", &save)) {
      int e = 0;
      if (tok[0] == 'o') e = 0;
      else if (tok[0] == 'i') e = EINTR;
      else if (tok[0] == 'E') e = err_of_name(tok);
      if (fi_nseq < MAXSEQ) fi_seq[fi_nseq++] = e;
    }
    free(copy);
    return 0;
  }
  copy = strdup(plan);
  for (tok = strtok_r(copy, ";", &save); tok; tok = strtok_r(NULL, ";", &save)) {
    char cls, name[64], kind[32]; int idx;
    struct fault* f;
    if (!strcmp(tok, "clobber")) { fi_clobber = 1; continue; }
    if (!strcmp(tok, "record")) { fi_record = 1; continue; }
    if (sscanf(tok, "at:%c.%63[^#]#%d=%31s", &cls, name, &idx, kind) != 4) return -1;
    if (fi_nfaults >= MAXFAULTS) return -1;
    f = &fi_faults[fi_nfaults++];
    {
      int j, known = -1;
      for (j = 0; j < fi_nnames; j++) if (!strcmp(fi_names[j], name)) known = j;
      f->id = known >= 0 ? known : fi_name_id(strdup(name));
    }
    f->cls = cls == 'W'; f->idx = idx; f->k = 0; f->err = 0; f->force = 0; f->limit = 0;
    if (kind[0] && kind[strlen(kind) - 1] == '!') { f->force = 1; kind[strlen(kind) - 1] = 0; }
    if (!strcmp(kind, "LIMIT")) { f->limit = 1; f->err = EMFILE; }
    else if (kind[0] == 'I') f->k = atoi(kind + 1); else f->err = err_of_name(kind);
    if (f->k == 0 && f->err == 0) return -1;
  }
  free(copy);
  return 0;
}

/* ---- allocator ------------------------------------------------------- */
static _Atomic long fi_live;
static void* fi_malloc(size_t n) {
  void* p;
  if (fi_hit("malloc", -1)) { errno = ENOMEM; return NULL; }
  p = malloc(n);
  if (p) fi_live++;
  return p;
}
static void* fi_calloc(size_t a, size_t b) {
  void* p;
  if (fi_hit("calloc", -1)) { errno = ENOMEM; return NULL; }
  p = calloc(a, b);
  if (p) fi_live++;
  return p;
}
static void* fi_realloc(void* q, size_t n) {
  void* p;
  if (fi_hit("realloc", -1)) { errno = ENOMEM; return NULL; }
  p = realloc(q, n);
  if (p && !q) fi_live++;
  return p;
}
static void fi_free(void* p) {
  if (p) fi_live--;
  free(p);
  if (fi_clobber) errno = EBADF;
}

/* ---- wrapped calls ------------------------------------------------------ */
#define FAIL_IF(name, fd, failret) do { int e_ = fi_hit(name, fd); if (e_) { errno = e_; return failret; } } while (0)
#define FAIL_IFA(name, fd, ident, rest, failret) do { int e_ = fi_hit_args(name, fd, (unsigned long) (ident), (unsigned long) (rest)); if (e_) { errno = e_; return failret; } } while (0)
#define ID2(a, b) ((((unsigned long) (a) + 1) * 0x9e3779b97f4a7c15UL) ^ (unsigned long) (b) ^ 1UL)

int __real_socket(int, int, int);
int __wrap_socket(int a, int b, int c) { FAIL_IF("socket", -1, -1); return __real_socket(a, b, c); }
int __real_socketpair(int, int, int, int*);
int __wrap_socketpair(int a, int b, int c, int* d) { FAIL_IF("socketpair", -1, -1); return __real_socketpair(a, b, c, d); }
int __real_accept4(int, struct sockaddr*, socklen_t*, int);
int __wrap_accept4(int a, struct sockaddr* b, socklen_t* c, int d) { FAIL_IFA("accept4", a, ID2(a, 7), d, -1); return __real_accept4(a, b, c, d); }
int __real_connect(int, const struct sockaddr*, socklen_t);
int __wrap_connect(int a, const struct sockaddr* b, socklen_t c) { FAIL_IFA("connect", a, ID2(a, b), c, -1); return __real_connect(a, b, c); }
int __real_pipe2(int*, int);
int __wrap_pipe2(int* a, int b) { FAIL_IF("pipe2", -1, -1); return __real_pipe2(a, b); }
int __real_eventfd(unsigned, int);
int __wrap_eventfd(unsigned a, int b) { FAIL_IF("eventfd", -1, -1); return __real_eventfd(a, b); }
int __real_epoll_create1(int);
int __wrap_epoll_create1(int a) { FAIL_IF("epoll_create1", -1, -1); return __real_epoll_create1(a); }
int __real_epoll_ctl(int, int, int, struct epoll_event*);
int __wrap_epoll_ctl(int a, int b, int c, struct epoll_event* d) {
  FAIL_IF(b == EPOLL_CTL_ADD ? "epoll_ctl_add" : b == EPOLL_CTL_MOD ? "epoll_ctl_mod" : "epoll_ctl_del", -1, -1);
  return __real_epoll_ctl(a, b, c, d);
}
int __real_epoll_pwait(int, struct epoll_event*, int, int, const sigset_t*);
int __wrap_epoll_pwait(int a, struct epoll_event* b, int c, int d, const sigset_t* e) {
  FAIL_IF("epoll_pwait", -1, -1);
  return __real_epoll_pwait(a, b, c, d, e);
}
int __real_open64(const char*, int, ...);
int __wrap_open64(const char* p, int fl, ...) {
  mode_t m = 0;
  if (fl & (O_CREAT | O_TMPFILE)) { va_list ap; va_start(ap, fl); m = va_arg(ap, mode_t); va_end(ap); }
  FAIL_IFA("open", -1, ID2(p, 3), (unsigned long) fl ^ ((unsigned long) m << 32), -1);
  return __real_open64(p, fl, m);
}
int __real_dup2(int, int);
int __wrap_dup2(int a, int b) { FAIL_IF("dup2", -1, -1); return __real_dup2(a, b); }
int __real_dup3(int, int, int);
int __wrap_dup3(int a, int b, int c) { FAIL_IF("dup3", -1, -1); return __real_dup3(a, b, c); }
int __real_inotify_init1(int);
int __wrap_inotify_init1(int a) { FAIL_IF("inotify_init1", -1, -1); return __real_inotify_init1(a); }
int __real_inotify_add_watch(int, const char*, uint32_t);
int __wrap_inotify_add_watch(int a, const char* b, uint32_t c) { FAIL_IF("inotify_add_watch", -1, -1); return __real_inotify_add_watch(a, b, c); }
ssize_t __real_read(int, void*, size_t);
ssize_t __wrap_read(int a, void* b, size_t c) { FAIL_IFA("read", a, ID2(a, b), c, -1); return __real_read(a, b, c); }
ssize_t __real_readv(int, const struct iovec*, int);
ssize_t __wrap_readv(int a, const struct iovec* b, int c) { FAIL_IFA("readv", a, ID2(a, b), c, -1); return __real_readv(a, b, c); }
ssize_t __real_write(int, const void*, size_t);
ssize_t __wrap_write(int a, const void* b, size_t c) { FAIL_IFA("write", a, ID2(a, b), c, -1); return __real_write(a, b, c); }
ssize_t __real_writev(int, const struct iovec*, int);
ssize_t __wrap_writev(int a, const struct iovec* b, int c) { FAIL_IFA("writev", a, ID2(a, b), c, -1); return __real_writev(a, b, c); }
ssize_t __real_sendmsg(int, const struct msghdr*, int);
ssize_t __wrap_sendmsg(int a, const struct msghdr* b, int c) { FAIL_IFA("sendmsg", a, ID2(a, b), c, -1); return __real_sendmsg(a, b, c); }
ssize_t __real_recvmsg(int, struct msghdr*, int);
ssize_t __wrap_recvmsg(int a, struct msghdr* b, int c) { FAIL_IFA("recvmsg", a, ID2(a, b), c, -1); return __real_recvmsg(a, b, c); }
int __real_sendmmsg(int, struct mmsghdr*, unsigned, int);
int __wrap_sendmmsg(int a, struct mmsghdr* b, unsigned c, int d) { FAIL_IF("sendmmsg", a, -1); return __real_sendmmsg(a, b, c, d); }
int __real_recvmmsg(int, struct mmsghdr*, unsigned, int, struct timespec*);
int __wrap_recvmmsg(int a, struct mmsghdr* b, unsigned c, int d, struct timespec* e) { FAIL_IF("recvmmsg", a, -1); return __real_recvmmsg(a, b, c, d, e); }
ssize_t __real_pread64(int, void*, size_t, off_t);
ssize_t __wrap_pread64(int a, void* b, size_t c, off_t d) { FAIL_IFA("pread", -1, ID2(a, b), (unsigned long) c ^ ((unsigned long) d * 31), -1); return __real_pread64(a, b, c, d); }
ssize_t __real_pwrite64(int, const void*, size_t, off_t);
ssize_t __wrap_pwrite64(int a, const void* b, size_t c, off_t d) { FAIL_IFA("pwrite", -1, ID2(a, b), (unsigned long) c ^ ((unsigned long) d * 31), -1); return __real_pwrite64(a, b, c, d); }
pid_t __real_fork(void);
pid_t __wrap_fork(void) {
  pid_t p;
  FAIL_IF("fork", -1, -1);
  p = __real_fork();
  if (p == 0) fi_on = 0;   /* the grandchild must not touch the injection state */
  return p;
}
pid_t __real_waitpid(pid_t, int*, int);
pid_t __wrap_waitpid(pid_t a, int* b, int c) { FAIL_IFA("waitpid", -1, ID2(a, b), c, -1); return __real_waitpid(a, b, c); }
int __real_ioctl(int, unsigned long, ...);
int __wrap_ioctl(int a, unsigned long b, ...) {
  void* p; va_list ap; va_start(ap, b); p = va_arg(ap, void*); va_end(ap);
  FAIL_IFA("ioctl", -1, ID2(a, 5), b, -1);
  return __real_ioctl(a, b, p);
}
void* __real_mmap64(void*, size_t, int, int, int, off_t);
void* __wrap_mmap64(void* a, size_t b, int c, int d, int e, off_t f) { FAIL_IF("mmap", -1, MAP_FAILED); return __real_mmap64(a, b, c, d, e, f); }
DIR* __real_opendir(const char*);
DIR* __wrap_opendir(const char* a) { FAIL_IF("opendir", -1, NULL); return __real_opendir(a); }
int __real_scandir64(const char*, struct dirent64***, int (*)(const struct dirent64*), int (*)(const struct dirent64**, const struct dirent64**));
int __wrap_scandir64(const char* a, struct dirent64*** b, int (*c)(const struct dirent64*), int (*d)(const struct dirent64**, const struct dirent64**)) {
  FAIL_IF("scandir", -1, -1); return __real_scandir64(a, b, c, d);
}
int __real_getifaddrs(struct ifaddrs**);
int __wrap_getifaddrs(struct ifaddrs** a) { FAIL_IF("getifaddrs", -1, -1); return __real_getifaddrs(a); }
FILE* __real_fdopen(int, const char*);
FILE* __wrap_fdopen(int a, const char* b) { FAIL_IF("fdopen", -1, NULL); return __real_fdopen(a, b); }
int __real_nanosleep(const struct timespec*, struct timespec*);
int __wrap_nanosleep(const struct timespec* a, struct timespec* b) {
  int e = fi_hit("nanosleep", -1);
  if (e) { if (b) *b = *a; errno = e; return -1; }
  return __real_nanosleep(a, b);
}
int __real_poll(struct pollfd*, nfds_t, int);
int __wrap_poll(struct pollfd* a, nfds_t b, int c) { FAIL_IF("poll", -1, -1); return __real_poll(a, b, c); }
ssize_t __real_sendfile64(int, int, off_t*, size_t);
ssize_t __wrap_sendfile64(int a, int b, off_t* c, size_t d) { FAIL_IF("sendfile", -1, -1); return __real_sendfile64(a, b, c, d); }
int __real_pthread_create(pthread_t*, const pthread_attr_t*, void* (*)(void*), void*);
int __wrap_pthread_create(pthread_t* a, const pthread_attr_t* b, void* (*c)(void*), void* d) {
  int e = fi_hit("pthread_create", -1);
  if (e) return e;
  return __real_pthread_create(a, b, c, d);
}

long __real_syscall(long, ...);
long __wrap_syscall(long nr, ...) {
  long a[6]; int i, e; va_list ap;
  const char* name = NULL;
  va_start(ap, nr);
  for (i = 0; i < 6; i++) a[i] = va_arg(ap, long);
  va_end(ap);
  switch (nr) {
  case SYS_close: name = "close"; break;
  case SYS_statx: name = "statx"; break;
  case SYS_io_uring_setup: name = "iou_setup"; break;
  case SYS_io_uring_enter: name = "iou_enter"; break;
  case SYS_io_uring_register: name = "iou_register"; break;
  case SYS_getrandom: name = "getrandom"; break;
  case SYS_copy_file_range: name = "copy_file_range"; break;
  default: break;
  }
  if (name) {
    e = fi_hit_args(name, -1, nr == SYS_getrandom ? ID2(a[0], nr) : 0,
                    (unsigned long) a[1] ^ ((unsigned long) a[2] << 20));
    if (e) {
      /* Linux: close() interrupted by a signal has still closed the descriptor */
      if (nr == SYS_close) __real_syscall(nr, a[0]);
      errno = e;
      return -1;
    }
  }
  return __real_syscall(nr, a[0], a[1], a[2], a[3], a[4], a[5]);
}

/* ---- abort ------------------------------------------------------------- */
void __wrap_abort(void) {
  fi_on = 0;
  /* abort() does not return: the return address may already belong to the next function */
  ev("ABORT:pc=%p:api=%s:last=%s", (char*) __builtin_return_address(0) - 1, fi_api, fi_last[0] ? fi_last : "-");
  fi_flush_and_exit(77);
}
#endif
