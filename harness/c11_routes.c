/* C11 (a)+(c): every operation of a script is executed on four routes, each on
 * its own fresh copy of a small tree:
 *   sync   uv_fs_*(NULL, &req, ..., NULL)
 *   pool   uv_fs_*(&pool_loop, ..., cb)      loop without the SQPOLL option
 *   ring   uv_fs_*(&ring_loop, ..., cb)      loop configured with UV_LOOP_USE_IO_URING_SQPOLL,
 *                                            UV_USE_IO_URING=1 in the environment
 *   posix  hand-written POSIX calls (the specification side)
 * For the ring loop the route really taken is observed (iou.in_flight moved, the
 * SQE that was filled in is read back from the submission ring) and, through
 * --wrap=syscall, how often io_uring_setup/io_uring_enter were entered.  Memory is
 * counted through uv_replace_allocator: live uv__malloc blocks after the call
 * returned, after completion, after uv_fs_req_cleanup and after a second cleanup.
 *
 * Case (one line):  ops separated by " | " (see run_op for the vocabulary).
 * Output (one line): for every op  "<i>:<name> S{..} P{..} R{..} X{..}" and finally
 * "tree S=.. P=.. R=.. X=.."  "sys setup=.. enter=..".
 * Inside the braces: res=<result or fd> [out=<...>] [cb=<n>] [via=r|p] [sqe=<...>] [m=a,b,c,d] */
#define _GNU_SOURCE
#include <stdio.h>
#include <stdlib.h>
#include <string.h>
#include <stdarg.h>
#include <stdint.h>
#include <errno.h>
#include <fcntl.h>
#include <unistd.h>
#include <dirent.h>
#include <ctype.h>
#include <ftw.h>
#include <limits.h>
#include <semaphore.h>
#include <signal.h>
#include <sys/stat.h>
#include <sys/statfs.h>
#include <sys/uio.h>
#include <sys/ioctl.h>
#include <linux/fs.h>
#include <sys/syscall.h>
#include "uv.h"
#include "uv-common.h"

unsigned uv__kernel_version(void);

/* kernel ABI (linux/io_uring.h), as mirrored in src/unix/linux.c */
struct sqe_abi {
  uint8_t opcode; uint8_t flags; uint16_t ioprio; int32_t fd;
  uint64_t off_or_addr2; uint64_t addr; uint32_t len; uint32_t op_flags;
  uint64_t user_data; uint64_t pad[3];
};

enum { R_SYNC, R_POOL, R_RING, R_POSIX, NROUTES };
static const char RN[NROUTES] = { 'S', 'P', 'R', 'X' };
#define NSLOT 6
#define MAXOPS 64

static uv_loop_t pool_loop, ring_loop;
static int route;
static uv_loop_t* L; static uv_fs_cb CB;
static int slots[NSLOT];
static char cwd_root[PATH_MAX];
static int nthreads = 4;

/* ---- syscall counting ---- */
long __real_syscall(long n, long a, long b, long c, long d, long e, long f);
static long n_setup, n_setup_sqpoll, n_enter;
long __wrap_syscall(long n, ...) {
  va_list ap; long a, b, c, d, e, f;
  va_start(ap, n);
  a = va_arg(ap, long); b = va_arg(ap, long); c = va_arg(ap, long);
  d = va_arg(ap, long); e = va_arg(ap, long); f = va_arg(ap, long);
  va_end(ap);
  if (n == SYS_io_uring_setup) { n_setup++; if (b && (((uint32_t*) b)[2] & 2u)) n_setup_sqpoll++; }
  if (n == SYS_io_uring_enter) n_enter++;
  return __real_syscall(n, a, b, c, d, e, f);
}

/* ---- allocator counting ---- */
static long live;
static void* c_malloc(size_t n) { void* p = malloc(n); if (p) __atomic_add_fetch(&live, 1, __ATOMIC_SEQ_CST); return p; }
static void* c_calloc(size_t a, size_t b) { void* p = calloc(a, b); if (p) __atomic_add_fetch(&live, 1, __ATOMIC_SEQ_CST); return p; }
static void* c_realloc(void* q, size_t n) {
  void* p = realloc(q, n);
  if (q == NULL && p != NULL) __atomic_add_fetch(&live, 1, __ATOMIC_SEQ_CST);
  if (q != NULL && n == 0) __atomic_sub_fetch(&live, 1, __ATOMIC_SEQ_CST);
  return p;
}
/* C11_CLOBBER=1: an application allocator whose free() leaves junk in errno */
static int clobber;
static void c_free(void* p) { if (p) __atomic_sub_fetch(&live, 1, __ATOMIC_SEQ_CST); free(p); if (clobber) errno = 9999; }

/* ---- output ---- */
static char* obuf; static size_t olen, ocap;
static void out(const char* fmt, ...) {
  va_list ap; int n;
  if (ocap - olen < 8192) { ocap = ocap * 2 + 16384; obuf = realloc(obuf, ocap); }
  va_start(ap, fmt); n = vsnprintf(obuf + olen, ocap - olen, fmt, ap); va_end(ap);
  if (n > 0) olen += (size_t) n;
}
/* per route, per op result text */
static char* rtext[NROUTES][MAXOPS];
static char tbuf[1 << 16]; static size_t tlen;
static void t(const char* fmt, ...) {
  va_list ap; int n;
  va_start(ap, fmt); n = vsnprintf(tbuf + tlen, sizeof(tbuf) - tlen, fmt, ap); va_end(ap);
  if (n > 0 && tlen + (size_t) n < sizeof(tbuf)) tlen += (size_t) n;
}

static unsigned fnv(const unsigned char* p, size_t n, unsigned h) {
  size_t j; for (j = 0; j < n; j++) { h ^= p[j]; h *= 16777619u; } return h;
}

/* ---- tree ---- */
static void wfile(const char* p, const char* s, int rep, mode_t m) {
  int fd = open(p, O_WRONLY | O_CREAT | O_TRUNC, 0644); int i;
  for (i = 0; i < rep; i++) if (write(fd, s, strlen(s)) < 0) exit(2);
  fchmod(fd, m); close(fd);
}
static char xdev_dir[PATH_MAX]; static int xdev_ok;
static void rm_tree_fn(const char* root);
static void make_tree(const char* root) {
  char p[PATH_MAX];
  mkdir(root, 0755);
  if (chdir(root) != 0) { perror("chdir"); exit(2); }
  wfile("a.txt", "hello world 0123456789\n", 40, 0644);
  wfile("b.txt", "bbbb", 1, 0600);
  wfile("e.txt", "", 0, 0644);
  wfile("ro.txt", "read only\n", 3, 0444);
  mkdir("d1", 0755); wfile("d1/x", "xx", 1, 0644); wfile("d1/y", "yyy", 1, 0644); mkdir("d1/sub", 0700);
  mkdir("d2", 0755);
  if (symlink("a.txt", "ln") || symlink("nope", "dang") || symlink("d1", "lnd")) exit(2);
  /* a second file system: xdev -> a fresh directory on /dev/shm (tmpfs) */
  rm_tree_fn(xdev_dir);
  if (xdev_ok && mkdir(xdev_dir, 0755) == 0) { if (symlink(xdev_dir, "xdev")) exit(2); }
  else mkdir("xdev", 0755);
  wfile("xdev/t.txt", "tmpfs side\n", 7, 0644);
  /* awkward entry names: dots only, leading/trailing dots, blanks, newline, UTF-8, 0xFF,
   * 255 bytes, case twins, leading dash - as files, directories and symlinks */
  mkdir("odd", 0755);
  wfile("odd/...", "3", 1, 0644); mkdir("odd/....", 0755); if (symlink("../a.txt", "odd/.....")) exit(2);
  wfile("odd/..a", "", 0, 0644); mkdir("odd/.a", 0755); wfile("odd/a.", "", 0, 0644);
  wfile("odd/ ", "", 0, 0644); mkdir("odd/a b", 0755); wfile("odd/new\nline", "", 0, 0644);
  wfile("odd/\xc3\xa9t\xc3\xa9", "", 0, 0644); if (symlink("x", "odd/\xff\xfe")) exit(2);
  wfile("odd/Case", "", 0, 0644); wfile("odd/case", "", 0, 0644); mkdir("odd/-rf", 0755); wfile("odd/--", "", 0, 0644);
  { char nm[300]; int i; strcpy(nm, "odd/"); for (i = 0; i < 255; i++) nm[4 + i] = (char) ('a' + i % 26); nm[259] = 0; wfile(nm, "", 0, 0644); }
  (void) p;
}
static int rm_cb(const char* p, const struct stat* s, int f, struct FTW* w) { (void) s; (void) f; (void) w; return remove(p); }
static void rm_tree(const char* root) { nftw(root, rm_cb, 16, FTW_DEPTH | FTW_PHYS); }
static void rm_tree_fn(const char* root) { if (root[0]) rm_tree(root); }

static int cmpstr(const void* a, const void* b) { return strcmp(*(char* const*) a, *(char* const*) b); }

static unsigned dig_h; static long dig_n;
static void digest_dir(const char* dir) {
  DIR* d = opendir(dir); struct dirent* e; char** names; int n = 0, cap = 256, i;
  if (!d) return;
  names = malloc(sizeof(char*) * (size_t) cap);
  while ((e = readdir(d)))
    if (strcmp(e->d_name, ".") && strcmp(e->d_name, "..")) {
      if (n == cap) { cap *= 2; names = realloc(names, sizeof(char*) * (size_t) cap); }
      names[n++] = strdup(e->d_name);
    }
  closedir(d);
  qsort(names, n, sizeof(names[0]), cmpstr);
  for (i = 0; i < n; i++) {
    char p[PATH_MAX]; struct stat st; char line[PATH_MAX + 256]; int k;
    snprintf(p, sizeof p, "%s/%s", dir, names[i]);
    if (lstat(p, &st)) { free(names[i]); continue; }
    k = snprintf(line, sizeof line, "%s|%o|%ld|", p, (unsigned) st.st_mode, S_ISDIR(st.st_mode) ? 0L : (long) st.st_size);
    if (!S_ISDIR(st.st_mode)) k += snprintf(line + k, sizeof line - k, "n%ld|", (long) st.st_nlink);
    if (st.st_mtime < 1000000000L) k += snprintf(line + k, sizeof line - k, "t%ld.%ld|", (long) st.st_mtime, (long) st.st_mtim.tv_nsec);
    /* access times are not part of the digest (relatime makes them depend on reads);
     * the utime operations report them themselves */
    k += snprintf(line + k, sizeof line - k, "u%d.%d|", (int) st.st_uid, (int) st.st_gid);
    dig_h = fnv((unsigned char*) line, (size_t) k, dig_h); dig_n++;
    if (S_ISLNK(st.st_mode) && !strcmp(p, "./xdev")) digest_dir(p);   /* the other file system */
    else if (S_ISLNK(st.st_mode)) {
      char b[PATH_MAX]; ssize_t r = readlink(p, b, sizeof b); if (r > 0) dig_h = fnv((unsigned char*) b, (size_t) r, dig_h);
    } else if (S_ISREG(st.st_mode)) {
      int fd = open(p, O_RDONLY); unsigned char b[8192]; ssize_t r;
      if (fd >= 0) { while ((r = read(fd, b, sizeof b)) > 0) dig_h = fnv(b, (size_t) r, dig_h); close(fd); }
    } else if (S_ISDIR(st.st_mode)) digest_dir(p);
    free(names[i]);
  }
  free(names);
}

/* ---- async plumbing ---- */
static int ncb;
static void on_fs(uv_fs_t* r) { (void) r; ncb++; }
static long m0, m1, m2, m3, m4;
static uint32_t inflight0;
static char via; static char sqe_txt[1024];
static int cur_slot;   /* slot the current op names (for printing the SQE's fd) */

static const char* shown(const char* str);
static struct uv__iou* ring_iou(void) { return &uv__get_internal_fields((&ring_loop))->iou; }

static void begin(void) {
  ncb = 0; via = '-'; sqe_txt[0] = 0;
  m0 = live;
  if (route == R_RING) inflight0 = ring_iou()->ringfd >= 0 || ring_iou()->ringfd == -2 ? ring_iou()->in_flight : 0;
}

static void dump_sqe(uv_fs_t* req) {
  struct uv__iou* iou = ring_iou();
  uint32_t slot = (*iou->sqtail - 1) & iou->sqmask;
  struct sqe_abi* s = &((struct sqe_abi*) iou->sqe)[slot];
  char fdtxt[32], a1[300], a2[300];
  int k = 0;
  if (s->user_data != (uint64_t) (uintptr_t) req) { snprintf(sqe_txt, sizeof sqe_txt, "not-mine"); return; }
  if (s->fd == -100) snprintf(fdtxt, sizeof fdtxt, "-100");
  else if (cur_slot >= 0 && s->fd == slots[cur_slot]) snprintf(fdtxt, sizeof fdtxt, "s%d", cur_slot);
  else snprintf(fdtxt, sizeof fdtxt, "?%d", s->fd);
  /* addr */
  switch (s->opcode) {
  case 1: case 2: {  /* READV WRITEV: iovec array */
    const struct iovec* v = (const struct iovec*) (uintptr_t) s->addr; size_t sum = 0; uint32_t i;
    for (i = 0; i < s->len; i++) sum += v[i].iov_len;
    snprintf(a1, sizeof a1, "I:%u:%zu%s", s->len, sum, (void*) v == (void*) req->bufs ? "" : ":foreign");
    break; }
  case 18: case 21: case 35: case 36: case 37: case 38: case 39:
    snprintf(a1, sizeof a1, "S:%s", shown((const char*) (uintptr_t) s->addr)); break;
  default:
    if (s->addr == 0) snprintf(a1, sizeof a1, "0"); else snprintf(a1, sizeof a1, "?"); break;
  }
  /* off / addr2 */
  switch (s->opcode) {
  case 35: case 38: case 39:
    snprintf(a2, sizeof a2, "S:%s", shown((const char*) (uintptr_t) s->off_or_addr2)); k = 1; break;
  case 21:
    snprintf(a2, sizeof a2, "%s", (void*) (uintptr_t) s->off_or_addr2 == req->ptr ? "X" : "?"); k = 1; break;
  default:
    snprintf(a2, sizeof a2, "0"); break;
  }
  snprintf(sqe_txt, sizeof sqe_txt, "%u,%s,%lld,%s,%s,%u,%u", s->opcode, fdtxt,
           k ? 0LL : (long long) s->off_or_addr2, a1, a2, s->len, s->op_flags);
  if (s->flags || s->ioprio || s->pad[0] || s->pad[1] || s->pad[2]) strcat(sqe_txt, ",dirty");
}

/* after uv_fs_*() returned rc: run to completion, return the request's outcome */
static long complete(uv_fs_t* req, int rc) {
  long res;
  m1 = live - m0;
  if (CB != NULL) {
    via = 'p';
    if (route == R_RING && rc == 0 && ring_iou()->ringfd >= 0 && ring_iou()->in_flight != inflight0) {
      via = 'r'; dump_sqe(req);
    }
    if (rc == 0) uv_run(L, UV_RUN_DEFAULT);
    res = rc == 0 ? (long) req->result : rc;
  } else {
    res = rc;
    if (rc != req->result && !(req->result == 0 && rc < 0)) t("SYNC-RESULT-MISMATCH(%d,%ld) ", rc, (long) req->result);
  }
  m2 = live - m0;
  return res;
}
static void finish(uv_fs_t* req) {
  uv_fs_req_cleanup(req); m3 = live - m0;
  uv_fs_req_cleanup(req); m4 = live - m0;
  if (req->path != NULL || req->new_path != NULL || req->ptr != NULL || req->bufs != NULL) t("CLEANUP-LEFT-POINTER ");
}
static void tail(int early) {
  if (CB != NULL) {
    t(" cb=%d", ncb);
    if (!early) { t(" via=%c", via); if (via == 'r') t(" sqe=%s", sqe_txt); }
  }
  t(" m=%ld,%ld,%ld,%ld", m1, m2, m3, m4);
}

/* ---- helpers for the POSIX side ---- */
#define NEG(call) ((call) == -1 ? -(long) errno : 0L)
static struct timespec to_ts(double v) {
  struct timespec ts; ts.tv_sec = (time_t) v; ts.tv_nsec = (long) ((v - ts.tv_sec) * 1e9);
  ts.tv_nsec -= ts.tv_nsec % 1000;
  if (ts.tv_nsec < 0) { ts.tv_nsec += 1000000000L; ts.tv_sec -= 1; }
  return ts;
}
static int dtype_uv(unsigned char d) {
  switch (d) { case DT_REG: return UV_DIRENT_FILE; case DT_DIR: return UV_DIRENT_DIR; case DT_LNK: return UV_DIRENT_LINK;
    case DT_FIFO: return UV_DIRENT_FIFO; case DT_SOCK: return UV_DIRENT_SOCKET; case DT_CHR: return UV_DIRENT_CHAR;
    case DT_BLK: return UV_DIRENT_BLOCK; default: return UV_DIRENT_UNKNOWN; }
}
static void t_stat_posix(const struct stat* s) {
  t(" out=%o:%ld:%d:%d:%ld", (unsigned) s->st_mode, (long) s->st_nlink, (int) s->st_uid, (int) s->st_gid, (long) s->st_size);
}
static void t_stat_uv(const uv_fs_t* r) {
  const uv_stat_t* s = &r->statbuf;
  if (r->ptr != (void*) &r->statbuf) t(" PTR-NOT-STATBUF");
  t(" out=%o:%ld:%d:%d:%ld", (unsigned) s->st_mode, (long) s->st_nlink, (int) s->st_uid, (int) s->st_gid, (long) s->st_size);
}
static const char* strip_root(const char* p) {
  size_t n = strlen(cwd_root);
  if (strncmp(p, cwd_root, n) == 0) return p[n] ? p + n : "/";
  return p;
}

/* buffer lists: "3,0,r1100x2" */
static size_t parse_lens(const char* s0, size_t** out_lens) {
  char* s = strdup(s0); size_t cap = 64, n = 0; size_t* l = malloc(cap * sizeof(*l)); char* tok; char* save;
  if (strcmp(s, "-") != 0)
    for (tok = strtok_r(s, ",", &save); tok; tok = strtok_r(NULL, ",", &save)) {
      size_t cnt = 1, len;
      if (tok[0] == 'r') { char* x = strchr(tok, 'x'); cnt = (size_t) atol(tok + 1); len = (size_t) atol(x + 1); }
      else len = (size_t) atol(tok);
      while (cnt--) { if (n == cap) { cap *= 2; l = realloc(l, cap * sizeof(*l)); } l[n++] = len; }
    }
  free(s); *out_lens = l; return n;
}
static int iovmax(void) { return IOV_MAX; }

static long posix_read(int fd, uv_buf_t* b, size_t n, long long off) {
  ssize_t r; struct iovec* v = (struct iovec*) b;
  if (n > (size_t) iovmax()) n = (size_t) iovmax();
  if (off < 0) r = n == 1 ? read(fd, v->iov_base, v->iov_len) : readv(fd, v, (int) n);
  else r = n == 1 ? pread(fd, v->iov_base, v->iov_len, off) : preadv(fd, v, (int) n, off);
  return r < 0 ? -(long) errno : (long) r;
}
/* the specification of uv_fs_write: every byte of the list, in order, unless an error */
static long posix_write(int fd, uv_buf_t* b, size_t n, long long off) {
  size_t i; long total = 0;
  for (i = 0; i < n; i++) {
    size_t done = 0;
    while (done < b[i].len) {
      ssize_t r = off < 0 ? write(fd, b[i].base + done, b[i].len - done)
                          : pwrite(fd, b[i].base + done, b[i].len - done, off);
      if (r < 0) { if (errno == EINTR) continue; return total > 0 ? total : -(long) errno; }
      if (r == 0) return total;
      done += (size_t) r; total += r; if (off >= 0) off += r;
    }
  }
  if (n > 0 && total == 0) {   /* nothing to write: still an access check, as write(fd, "", 0) */
    ssize_t r = off < 0 ? write(fd, "", 0) : pwrite(fd, "", 0, off);
    if (r < 0) return -(long) errno;
  }
  return total;
}
static long posix_copyfile(const char* src, const char* dst, int flags) {
  int s, d; struct stat ss, ds; long res = 0; struct timespec tm[2]; char buf[8192]; off_t left, off = 0;
  s = open(src, O_RDONLY | O_CLOEXEC);
  if (s < 0) return -(long) errno;
  if (fstat(s, &ss)) { res = -(long) errno; close(s); return res; }
  d = open(dst, O_WRONLY | O_CREAT | O_CLOEXEC | ((flags & UV_FS_COPYFILE_EXCL) ? O_EXCL : 0), ss.st_mode);
  if (d < 0) { res = -(long) errno; close(s); return res; }
  if (!(flags & UV_FS_COPYFILE_EXCL)) {
    if (fstat(d, &ds)) { res = -(long) errno; goto done; }
    if (ss.st_dev == ds.st_dev && ss.st_ino == ds.st_ino) goto done;
    if (ftruncate(d, 0)) { res = -(long) errno; goto done; }
  }
  tm[0] = ss.st_atim; tm[1] = ss.st_mtim;
  if (futimens(d, tm)) { res = -(long) errno; goto done; }
  if (fchown(d, ss.st_uid, ss.st_gid)) {}
  if (fchmod(d, ss.st_mode)) { res = -(long) errno; goto done; }
  if (flags & (UV_FS_COPYFILE_FICLONE | UV_FS_COPYFILE_FICLONE_FORCE)) {
    if (ioctl(d, FICLONE, s) == 0) goto done;
    if (flags & UV_FS_COPYFILE_FICLONE_FORCE) { res = -(long) errno; goto done; }
  }
  for (left = ss.st_size; left > 0; ) {
    ssize_t r = pread(s, buf, left < (off_t) sizeof buf ? (size_t) left : sizeof buf, off), w;
    if (r < 0) { res = -(long) errno; break; }
    if (r == 0) break;
    w = write(d, buf, (size_t) r);
    if (w < 0) { res = -(long) errno; break; }
    left -= w; off += w;
  }
done:
  close(s); close(d);
  if (res != 0) unlink(dst);
  return res;
}
/* uv_fs_sendfile is specified here as "len bytes from in_fd at off to out_fd's
 * position", with the descriptor checks of copy_file_range(2) made first (both must
 * be valid, in readable, out writable and not O_APPEND). */
static long posix_sendfile(int out_fd, int in_fd, long long off, size_t len) {
  char buf[8192]; long total = 0; int fo, fi;
  fi = fcntl(in_fd, F_GETFL); fo = fcntl(out_fd, F_GETFL);
  if (fi < 0 || fo < 0) return -(long) EBADF;
  { struct stat x, y; if (fstat(in_fd, &x) == 0 && fstat(out_fd, &y) == 0 && (S_ISDIR(x.st_mode) || S_ISDIR(y.st_mode))) return -(long) EISDIR; }
  if ((fi & O_ACCMODE) == O_WRONLY || (fo & O_ACCMODE) == O_RDONLY || (fo & O_APPEND)) return -(long) EBADF;
  while ((size_t) total < len) {
    size_t want = len - (size_t) total; ssize_t r, w;
    if (want > sizeof buf) want = sizeof buf;
    r = pread(in_fd, buf, want, off);
    if (r < 0) return total > 0 ? total : -(long) errno;
    if (r == 0) break;
    w = write(out_fd, buf, (size_t) r);
    if (w < 0) return -(long) errno;
    total += w; off += w;
    if (w < r) break;
  }
  return total;
}
static int same_file(int a, int b) {
  struct stat x, y;
  return fstat(a, &x) == 0 && fstat(b, &y) == 0 && x.st_dev == y.st_dev && x.st_ino == y.st_ino;
}

static void on_burst(uv_fs_t* r) { (*(int*) r->data)++; }
static void on_alarm(int sig) {
  static const char msg[] = "\nhang: asynchronous requests never completed (uv_run did not return)\n";
  (void) sig;
  if (write(2, msg, sizeof msg - 1) < 0) {}
  _exit(3);
}
static sem_t gate_sem;
static void blk(uv_work_t* w) { (void) w; sem_wait(&gate_sem); }
static void blk_done(uv_work_t* w, int s) { (void) w; (void) s; }

/* ---- long strings: "+"-joined pieces, literal or
 *   @t<n>        symlink target of n characters ('/' every 200)
 *   @n<n>        a name of n characters
 *   @p<n>:<leaf> a path of exactly n characters that resolves to <leaf> ("./" and "/" padding)
 *   @d<k>x<n>    k nested names of n characters joined by '/'
 *   @x<hex>      raw bytes                                                              ---- */
static char* expand(const char* a) {
  size_t cap = 8 * PATH_MAX, n = 0; char* o = malloc(cap + 1); const char* p = a; long i;
  while (*p && n < cap - PATH_MAX) {
    if (*p == '+') { p++; continue; }
    if (*p != '@') { o[n++] = *p++; continue; }
    {
      char k = p[1]; char* e; long v;
      if (k == 'x') {                     /* @x<hex>: raw bytes */
        p += 2;
        while (isxdigit((unsigned char) p[0]) && isxdigit((unsigned char) p[1])) {
          unsigned bv; sscanf(p, "%2x", &bv); o[n++] = (char) bv; p += 2;
        }
        continue;
      }
      v = strtol(p + 2, &e, 10); p = e;
      if (v < 0) v = 0; if ((size_t) v > cap - n - PATH_MAX) v = (long) (cap - n - PATH_MAX);
      if (k == 't') { for (i = 0; i < v; i++) o[n++] = (i % 200 == 199 && i != v - 1) ? '/' : (char) ('a' + i % 26); }
      else if (k == 'n') { for (i = 0; i < v; i++) o[n++] = (char) ('a' + i % 26); }
      else if (k == 'd') {
        long len = 0, j; if (*p == 'x') len = strtol(p + 1, &e, 10), p = e;
        for (j = 0; j < v && n + (size_t) len + 2 < cap; j++) { if (j) o[n++] = '/'; for (i = 0; i < len; i++) o[n++] = (char) ('a' + i % 26); }
      } else if (k == 'p') {
        char leaf[256]; size_t l = 0; long fill;
        if (*p == ':') p++;
        while (*p && *p != '+' && l < sizeof(leaf) - 1) leaf[l++] = *p++;
        leaf[l] = 0; fill = v - (long) l;
        if (fill >= 3 && (fill & 1)) { o[n++] = '.'; o[n++] = '/'; o[n++] = '/'; fill -= 3; }
        for (; fill >= 2; fill -= 2) { o[n++] = '.'; o[n++] = '/'; }
        memcpy(o + n, leaf, l); n += l;
      }
    }
  }
  o[n] = 0;
  return o;
}
/* strings are printed with every byte outside [A-Za-z0-9._/-] as %XX, those longer than 200
 * bytes as <length:hash> */
static const char* shown(const char* str) {
  static char b[8][1024]; static int k; size_t l = strlen(str), i, n = 0; char* o;
  k = (k + 1) & 7; o = b[k];
  if (l > 200) { snprintf(o, sizeof b[k], "<%zu:%u>", l, fnv((const unsigned char*) str, l, 2166136261u)); return o; }
  for (i = 0; i < l; i++) {
    unsigned char c = (unsigned char) str[i];
    if ((c >= 'a' && c <= 'z') || (c >= 'A' && c <= 'Z') || (c >= '0' && c <= '9') || c == '.' || c == '_' || c == '/' || c == '-') o[n++] = (char) c;
    else n += (size_t) sprintf(o + n, "%%%02X", c);
  }
  o[n] = 0;
  return o;
}
ssize_t __real_readlink(const char*, char*, size_t);
static volatile long readlink_bufsiz = -1; static volatile int readlink_armed;
ssize_t __wrap_readlink(const char* p, char* b, size_t n) {
  if (readlink_armed) readlink_bufsiz = (long) n;
  return __real_readlink(p, b, n);
}

/* ---- one operation on the current route ---- */
static int opno;
static int slot_of(const char* s) { int k = atoi(s + (s[0] == 's')); return k >= 0 && k < NSLOT ? k : 0; }

static void print_res_fd(long res) { if (res >= 0) t("res=fd"); else t("res=%ld", res); }

static void run_op(char** a, int na) {
  const char* op = a[0]; uv_fs_t req; int rc; long res; int uvr = route != R_POSIX;
  cur_slot = -1;
  memset(&req, 0, sizeof req);
#define ARG(i) ((i) < na ? a[i] : "0")
#define BEGIN() begin()
#define END(early) do { finish(&req); tail(early); } while (0)

  if (!strcmp(op, "open")) {
    int k = slot_of(ARG(1)); int flags = atoi(ARG(3)), mode = (int) strtol(ARG(4), NULL, 8);
    if (slots[k] >= 0) { close(slots[k]); slots[k] = -1; }
    if (uvr) { BEGIN(); rc = uv_fs_open(L, &req, ARG(2), flags, mode, CB); res = complete(&req, rc); print_res_fd(res); END(0); }
    else { res = open(ARG(2), flags | O_CLOEXEC, mode); if (res < 0) res = -(long) errno; print_res_fd(res); }
    if (res >= 0) { slots[k] = (int) res; if (!(fcntl((int) res, F_GETFD) & FD_CLOEXEC)) { /* every route promises O_CLOEXEC */
        char* x = strdup(tbuf); tlen = 0; t("NOT-CLOEXEC %s", x); free(x); } }
  } else if (!strcmp(op, "close")) {
    int k = slot_of(ARG(1)); cur_slot = k;
    if (uvr) { BEGIN(); rc = uv_fs_close(L, &req, slots[k], CB); res = complete(&req, rc); t("res=%ld", res); END(0); }
    else { res = NEG(close(slots[k])); t("res=%ld", res); }
    slots[k] = -1;
  } else if (!strcmp(op, "read") || !strcmp(op, "write")) {
    int k = slot_of(ARG(1)); long long off = atoll(ARG(2)); size_t* lens; size_t n = parse_lens(ARG(3), &lens), i, g, total = 0;
    int is_read = op[0] == 'r'; uv_buf_t* b; unsigned char* mem;
    cur_slot = k;
    for (i = 0; i < n; i++) total += lens[i];
    mem = malloc(total + 1); b = malloc(sizeof(*b) * (n + 1));
    for (i = 0, g = 0; i < n; i++) { b[i] = uv_buf_init((char*) mem + g, (unsigned) lens[i]); g += lens[i]; }
    for (g = 0; g < total; g++) mem[g] = is_read ? (unsigned char) 0xEE : (unsigned char) ((g * 31 + 7 + (size_t) opno) % 251);
    if (uvr) {
      BEGIN();
      rc = is_read ? uv_fs_read(L, &req, slots[k], b, (unsigned) n, off, CB) : uv_fs_write(L, &req, slots[k], b, (unsigned) n, off, CB);
      res = complete(&req, rc); t("res=%ld", res);
      if (is_read) t(" out=%u", fnv(mem, total, 2166136261u));
      END(n == 0);
    } else {
      if (n == 0) res = UV_EINVAL;
      else res = is_read ? posix_read(slots[k], b, n, off) : posix_write(slots[k], b, n, off);
      t("res=%ld", res);
      if (is_read) t(" out=%u", fnv(mem, total, 2166136261u));
    }
    free(mem); free(b); free(lens);
  } else if (!strcmp(op, "stat") || !strcmp(op, "lstat") || !strcmp(op, "fstat")) {
    int k = slot_of(ARG(1)); struct stat st;
    if (op[0] == 'f') cur_slot = k;
    if (uvr) {
      BEGIN();
      rc = op[0] == 's' ? uv_fs_stat(L, &req, ARG(1), CB) : op[0] == 'l' ? uv_fs_lstat(L, &req, ARG(1), CB) : uv_fs_fstat(L, &req, slots[k], CB);
      res = complete(&req, rc); t("res=%ld", res);
      if (res == 0) t_stat_uv(&req); else if (req.ptr != NULL && via != 'r') t(" PTR-SET-ON-ERROR");
      END(0);
    } else {
      res = op[0] == 's' ? NEG(stat(ARG(1), &st)) : op[0] == 'l' ? NEG(lstat(ARG(1), &st)) : NEG(fstat(slots[k], &st));
      t("res=%ld", res); if (res == 0) t_stat_posix(&st);
    }
  } else if (!strcmp(op, "mkdir") || !strcmp(op, "chmod") || !strcmp(op, "access")) {
    int m = op[0] == 'a' ? atoi(ARG(2)) : (int) strtol(ARG(2), NULL, 8);
    if (uvr) {
      BEGIN();
      rc = op[0] == 'm' ? uv_fs_mkdir(L, &req, ARG(1), m, CB) : op[0] == 'c' ? uv_fs_chmod(L, &req, ARG(1), m, CB) : uv_fs_access(L, &req, ARG(1), m, CB);
      res = complete(&req, rc); t("res=%ld", res); END(0);
    } else { res = op[0] == 'm' ? NEG(mkdir(ARG(1), m)) : op[0] == 'c' ? NEG(chmod(ARG(1), m)) : NEG(access(ARG(1), m)); t("res=%ld", res); }
  } else if (!strcmp(op, "rmdir") || !strcmp(op, "unlink")) {
    if (uvr) {
      BEGIN(); rc = op[0] == 'r' ? uv_fs_rmdir(L, &req, ARG(1), CB) : uv_fs_unlink(L, &req, ARG(1), CB);
      res = complete(&req, rc); t("res=%ld", res); END(0);
    } else { res = op[0] == 'r' ? NEG(rmdir(ARG(1))) : NEG(unlink(ARG(1))); t("res=%ld", res); }
  } else if (!strcmp(op, "rename") || !strcmp(op, "link") || !strcmp(op, "symlink")) {
    if (uvr) {
      BEGIN();
      rc = op[0] == 'r' ? uv_fs_rename(L, &req, ARG(1), ARG(2), CB) : op[0] == 'l' ? uv_fs_link(L, &req, ARG(1), ARG(2), CB)
                        : uv_fs_symlink(L, &req, ARG(1), ARG(2), 0, CB);
      res = complete(&req, rc); t("res=%ld", res); END(0);
    } else {
      res = op[0] == 'r' ? NEG(rename(ARG(1), ARG(2))) : op[0] == 'l' ? NEG(link(ARG(1), ARG(2))) : NEG(symlink(ARG(1), ARG(2)));
      t("res=%ld", res);
    }
  } else if (!strcmp(op, "readlink") || !strcmp(op, "realpath")) {
    if (uvr) {
      readlink_bufsiz = -1; readlink_armed = route == R_SYNC && op[4] == 'l';
      BEGIN(); rc = op[4] == 'l' ? uv_fs_readlink(L, &req, ARG(1), CB) : uv_fs_realpath(L, &req, ARG(1), CB);
      res = complete(&req, rc); t("res=%ld", res);
      readlink_armed = 0;
      if (res == 0) t(" out=%s", req.ptr ? shown(strip_root((const char*) req.ptr)) : "(null)"); else if (req.ptr) t(" PTR-SET-ON-ERROR");
      if (route == R_SYNC && op[4] == 'l') t(" bs=%ld pc=%ld", (long) readlink_bufsiz, (long) pathconf(ARG(1), _PC_PATH_MAX));
      END(0);
    } else {
      char b[2 * PATH_MAX];
      if (op[4] == 'l') { ssize_t r = readlink(ARG(1), b, sizeof b - 1); res = r < 0 ? -(long) errno : 0; if (r >= 0) b[r] = 0; }
      else res = realpath(ARG(1), b) ? 0 : -(long) errno;
      t("res=%ld", res); if (res == 0) t(" out=%s", shown(strip_root(b)));
    }
  } else if (!strcmp(op, "mkdirp")) {
    /* set-up, the same plain calls on every route: <depth> nested directories named <name> */
    char p[2 * PATH_MAX]; size_t n = 0; int depth = atoi(ARG(2)), d; long made = 0;
    for (d = 0; d < depth && n + strlen(ARG(1)) + 2 < sizeof p; d++) {
      if (d) p[n++] = '/';
      memcpy(p + n, ARG(1), strlen(ARG(1))); n += strlen(ARG(1)); p[n] = 0;
      if (mkdir(p, 0755) == 0) made++;
    }
    t("res=%ld", made);
  } else if (!strcmp(op, "ftruncate") || !strcmp(op, "fsync") || !strcmp(op, "fdatasync") || !strcmp(op, "fchmod")) {
    int k = slot_of(ARG(1)); cur_slot = k;
    if (uvr) {
      BEGIN();
      rc = !strcmp(op, "ftruncate") ? uv_fs_ftruncate(L, &req, slots[k], atoll(ARG(2)), CB)
         : !strcmp(op, "fsync") ? uv_fs_fsync(L, &req, slots[k], CB)
         : !strcmp(op, "fdatasync") ? uv_fs_fdatasync(L, &req, slots[k], CB)
         : uv_fs_fchmod(L, &req, slots[k], (int) strtol(ARG(2), NULL, 8), CB);
      res = complete(&req, rc); t("res=%ld", res); END(0);
    } else {
      res = !strcmp(op, "ftruncate") ? NEG(ftruncate(slots[k], atoll(ARG(2)))) : !strcmp(op, "fsync") ? NEG(fsync(slots[k]))
          : !strcmp(op, "fdatasync") ? NEG(fdatasync(slots[k])) : NEG(fchmod(slots[k], (mode_t) strtol(ARG(2), NULL, 8)));
      t("res=%ld", res);
    }
  } else if (!strcmp(op, "utime") || !strcmp(op, "lutime") || !strcmp(op, "futime")) {
    int k = slot_of(ARG(1)); double at = atof(ARG(2)), mt = atof(ARG(3));
    if (op[0] == 'f') cur_slot = k;
    if (uvr) {
      BEGIN();
      rc = op[0] == 'u' ? uv_fs_utime(L, &req, ARG(1), at, mt, CB) : op[0] == 'l' ? uv_fs_lutime(L, &req, ARG(1), at, mt, CB)
                        : uv_fs_futime(L, &req, slots[k], at, mt, CB);
      res = complete(&req, rc); t("res=%ld", res);
    } else {
      struct timespec ts[2]; ts[0] = to_ts(at); ts[1] = to_ts(mt);
      res = op[0] == 'u' ? NEG(utimensat(AT_FDCWD, ARG(1), ts, 0)) : op[0] == 'l' ? NEG(utimensat(AT_FDCWD, ARG(1), ts, AT_SYMLINK_NOFOLLOW))
                         : NEG(futimens(slots[k], ts));
      t("res=%ld", res);
    }
    if (res == 0) {
      struct stat st; int e = op[0] == 'u' ? stat(ARG(1), &st) : op[0] == 'l' ? lstat(ARG(1), &st) : fstat(slots[k], &st);
      if (e == 0) t(" out=a%ld.%09ld:m%ld.%09ld", (long) st.st_atime, (long) st.st_atim.tv_nsec, (long) st.st_mtime, (long) st.st_mtim.tv_nsec);
    }
    if (uvr) END(0);
  } else if (!strcmp(op, "chown") || !strcmp(op, "lchown") || !strcmp(op, "fchown")) {
    int k = slot_of(ARG(1)); int u = atoi(ARG(2)), g = atoi(ARG(3));
    if (op[0] == 'f') cur_slot = k;
    if (uvr) {
      BEGIN();
      rc = op[0] == 'c' ? uv_fs_chown(L, &req, ARG(1), u, g, CB) : op[0] == 'l' ? uv_fs_lchown(L, &req, ARG(1), u, g, CB)
                        : uv_fs_fchown(L, &req, slots[k], u, g, CB);
      res = complete(&req, rc); t("res=%ld", res); END(0);
    } else {
      res = op[0] == 'c' ? NEG(chown(ARG(1), u, g)) : op[0] == 'l' ? NEG(lchown(ARG(1), u, g)) : NEG(fchown(slots[k], u, g));
      t("res=%ld", res);
    }
  } else if (!strcmp(op, "mkdtemp") || !strcmp(op, "mkstemp")) {
    int is_dir = op[2] == 'd'; int k = is_dir ? 0 : slot_of(ARG(1)); const char* tpl = is_dir ? ARG(1) : ARG(2);
    char made[PATH_MAX]; char canon[PATH_MAX]; size_t pl = strlen(tpl) >= 6 ? strlen(tpl) - 6 : 0;
    made[0] = 0;
    if (!is_dir && slots[k] >= 0) { close(slots[k]); slots[k] = -1; }
    if (uvr) {
      BEGIN(); rc = is_dir ? uv_fs_mkdtemp(L, &req, tpl, CB) : uv_fs_mkstemp(L, &req, tpl, CB);
      res = complete(&req, rc);
      if (res >= 0 && req.path) snprintf(made, sizeof made, "%s", req.path);
      if (res < 0 && !is_dir && req.path && req.path[0] != 0 && rc == 0) t("PATH-NOT-CLOBBERED ");
      if (is_dir) t("res=%ld", res); else print_res_fd(res);
      END(0);
    } else {
      snprintf(made, sizeof made, "%s", tpl);
      if (is_dir) res = mkdtemp(made) ? 0 : -(long) errno; else { res = mkostemp(made, O_CLOEXEC); if (res < 0) res = -(long) errno; }
      if (is_dir) t("res=%ld", res); else print_res_fd(res);
    }
    if (res >= 0) {
      struct stat st;
      if (strlen(made) != strlen(tpl) || strncmp(made, tpl, pl) != 0 || lstat(made, &st) != 0 ||
          (is_dir ? !S_ISDIR(st.st_mode) : !S_ISREG(st.st_mode))) t(" out=BAD-NAME(%s)", made);
      else t(" out=%o", (unsigned) st.st_mode);
      snprintf(canon, sizeof canon, "%.*smade%d", (int) pl, tpl, opno);
      rename(made, canon);
      if (!is_dir) slots[k] = (int) res;
    }
  } else if (!strcmp(op, "scandir")) {
    if (uvr) {
      uv_dirent_t e; int n = 0;
      BEGIN(); rc = uv_fs_scandir(L, &req, ARG(1), 0, CB); res = complete(&req, rc); t("res=%ld out=", res);
      if (res >= 0) { int lim = atoi(ARG(2)); while ((lim == 0 || n < lim) && uv_fs_scandir_next(&req, &e) == 0) { t("%s:%d,", shown(e.name), (int) e.type); n++; } }
      END(0);
    } else {
      struct dirent** d = NULL; int n = scandir(ARG(1), &d, NULL, alphasort), i, lim = atoi(ARG(2)), nshown = 0;
      res = n < 0 ? -(long) errno : 0;
      if (n >= 0) { for (i = 0; i < n; i++) if (strcmp(d[i]->d_name, ".") && strcmp(d[i]->d_name, "..")) res++; }
      t("res=%ld out=", res);
      for (i = 0; i < n; i++) {
        if (strcmp(d[i]->d_name, ".") && strcmp(d[i]->d_name, "..") && (lim == 0 || nshown < lim)) { t("%s:%d,", shown(d[i]->d_name), dtype_uv(d[i]->d_type)); nshown++; }
        free(d[i]);
      }
      free(d);
    }
  } else if (!strcmp(op, "readdir")) {
    int want = atoi(ARG(2)); char* names[64]; int n = 0, i; long r1 = 0, r2 = 0, r3 = 0;
    if (want > 64) want = 64;
    if (uvr) {
      uv_dir_t* dir; uv_dirent_t ents[64];
      BEGIN(); rc = uv_fs_opendir(L, &req, ARG(1), CB); r1 = complete(&req, rc); dir = req.ptr; t("res=%ld", r1); END(0);
      if (r1 == 0) {
        t(" /");
        dir->dirents = ents; dir->nentries = (size_t) want;
        memset(&req, 0, sizeof req);
        BEGIN(); rc = uv_fs_readdir(L, &req, dir, CB); r2 = complete(&req, rc);
        for (i = 0; i < r2 && i < 64; i++) { char b[1100]; snprintf(b, sizeof b, "%s:%d", shown(ents[i].name), (int) ents[i].type); names[n++] = strdup(b); }
        t(" res=%ld", r2); END(0);
        t(" /");
        memset(&req, 0, sizeof req);
        BEGIN(); rc = uv_fs_closedir(L, &req, dir, CB); r3 = complete(&req, rc); t(" res=%ld", r3); END(0);
      }
    } else {
      DIR* d = opendir(ARG(1)); struct dirent* e;
      r1 = d ? 0 : -(long) errno; t("res=%ld", r1);
      if (d) {
        while (n < want) {
          char b[1100];
          errno = 0; e = readdir(d); if (!e) break;
          if (!strcmp(e->d_name, ".") || !strcmp(e->d_name, "..")) continue;
          snprintf(b, sizeof b, "%s:%d", shown(e->d_name), dtype_uv(e->d_type)); names[n++] = strdup(b);
        }
        r2 = n; t(" / res=%ld", r2);
        r3 = NEG(closedir(d)); t(" / res=%ld", r3);
      }
    }
    /* which entries come first is the directory's business: names only when all fit */
    t(" out=");
    if (n < want) { qsort(names, (size_t) n, sizeof(names[0]), cmpstr); for (i = 0; i < n; i++) t("%s,", names[i]); } else t("(%d)", n);
    for (i = 0; i < n; i++) free(names[i]);
  } else if (!strcmp(op, "copyfile")) {
    int flags = atoi(ARG(3));
    if (uvr) { BEGIN(); rc = uv_fs_copyfile(L, &req, ARG(1), ARG(2), flags, CB); res = complete(&req, rc); t("res=%ld", res); END(rc != 0); }
    else { res = (flags & ~7) ? UV_EINVAL : posix_copyfile(ARG(1), ARG(2), flags); t("res=%ld", res); }
  } else if (!strcmp(op, "sendfile")) {
    int ko = slot_of(ARG(1)), ki = slot_of(ARG(2)); long long off = atoll(ARG(3)); size_t len = (size_t) atol(ARG(4));
    /* source and target being one file makes the outcome depend on chunking: not exercised */
    if (same_file(slots[ko], slots[ki])) t("res=alias");
    else if (uvr) { BEGIN(); rc = uv_fs_sendfile(L, &req, slots[ko], slots[ki], off, len, CB); res = complete(&req, rc); t("res=%ld", res); END(0); }
    else { res = posix_sendfile(slots[ko], slots[ki], off, len); t("res=%ld", res); }
  } else if (!strcmp(op, "statfs")) {
    if (uvr) {
      BEGIN(); rc = uv_fs_statfs(L, &req, ARG(1), CB); res = complete(&req, rc); t("res=%ld", res);
      if (res == 0) { uv_statfs_t* s = req.ptr; t(" out=%llx:%llu", (unsigned long long) s->f_type, (unsigned long long) s->f_bsize); }
      END(0);
    } else {
      struct statfs s; res = NEG(statfs(ARG(1), &s)); t("res=%ld", res);
      if (res == 0) t(" out=%llx:%llu", (unsigned long long) s.f_type, (unsigned long long) s.f_bsize);
    }
  } else if (!strcmp(op, "cancel")) {
    /* a request cancelled while it is still queued behind blocked pool threads: pool route only */
    if (route == R_POOL) {
      static uv_work_t blockers[128]; int i; uv_buf_t b[8]; char mem[64]; int crc;
      sem_init(&gate_sem, 0, 0);
      for (i = 0; i < nthreads; i++) uv_queue_work(L, &blockers[i], blk, blk_done);
      for (i = 0; i < 8; i++) b[i] = uv_buf_init(mem + i, 1);
      BEGIN();
      if (!strcmp(ARG(1), "stat")) rc = uv_fs_stat(L, &req, "a.txt", CB);
      else if (!strcmp(ARG(1), "read")) rc = uv_fs_read(L, &req, 0, b, 8, 0, CB);
      else if (!strcmp(ARG(1), "write")) rc = uv_fs_write(L, &req, -1, b, 8, 0, CB);
      else if (!strcmp(ARG(1), "rename")) rc = uv_fs_rename(L, &req, "nope1", "nope2", CB);
      else if (!strcmp(ARG(1), "scandir")) rc = uv_fs_scandir(L, &req, "d1", 0, CB);
      else if (!strcmp(ARG(1), "mkdtemp")) rc = uv_fs_mkdtemp(L, &req, "cXXXXXX", CB);
      else rc = uv_fs_readlink(L, &req, "ln", CB);
      m1 = live - m0;
      crc = uv_cancel((uv_req_t*) &req);
      for (i = 0; i < nthreads; i++) sem_post(&gate_sem);
      uv_run(L, UV_RUN_DEFAULT);
      m2 = live - m0;
      t("res=%ld cancel=%d rc=%d", (long) req.result, crc, rc);
      finish(&req); t(" cb=%d m=%ld,%ld,%ld,%ld", ncb, m1, m2, m3, m4);
      sem_destroy(&gate_sem);
    } else t("res=-");
  } else if (!strcmp(op, "burst")) {
    /* burst <kind> <n> <rounds>: n requests issued back to back before the loop runs
     * (kind: mkdir | stat | open | mixed); every request has its own callback counter */
    const char* kind = ARG(1); int n = atoi(ARG(2)), rounds = atoi(ARG(3)), r, i;
    long* results; int* cbs; unsigned rh = 2166136261u; long okc = 0; int cmin = 1 << 30, cmax = -1; long viaring = 0;
    if (n < 1) n = 1; if (n > 2000) n = 2000; if (rounds < 1) rounds = 1;
    results = calloc((size_t) n * 2, sizeof(long)); cbs = calloc((size_t) n * 2, sizeof(int));
    for (r = 0; r < rounds; r++) {
      int phases = !strcmp(kind, "open") ? 2 : 1, ph;
      int* fds = calloc((size_t) n, sizeof(int));
      for (ph = 0; ph < phases; ph++) {
        memset(cbs, 0, sizeof(int) * (size_t) n);
        if (uvr && CB != NULL) {
          uv_fs_t* reqs = calloc((size_t) n, sizeof(uv_fs_t)); int* rcs = calloc((size_t) n, sizeof(int));
          for (i = 0; i < n; i++) {
            char nm[64]; int k4 = !strcmp(kind, "mixed") ? i % 4 : -1; uint32_t f0 = route == R_RING ? ring_iou()->in_flight : 0;
            reqs[i].data = &cbs[i];
            snprintf(nm, sizeof nm, "bu_%d_%d", r, i);
            if (!strcmp(kind, "mkdir") || k4 == 0) rcs[i] = uv_fs_mkdir(L, &reqs[i], nm, 0755, on_burst);
            else if (!strcmp(kind, "stat") || k4 == 1) rcs[i] = uv_fs_stat(L, &reqs[i], "a.txt", on_burst);
            else if (k4 == 2) { nm[1] = 's'; rcs[i] = uv_fs_symlink(L, &reqs[i], "a.txt", nm, 0, on_burst); }
            else if (k4 == 3) rcs[i] = uv_fs_lstat(L, &reqs[i], "ln", on_burst);
            else if (ph == 0) rcs[i] = uv_fs_open(L, &reqs[i], "a.txt", O_RDONLY, 0, on_burst);
            else rcs[i] = uv_fs_close(L, &reqs[i], fds[i], on_burst);
            if (route == R_RING && ring_iou()->ringfd >= 0 && ring_iou()->in_flight != f0) viaring++;
          }
          alarm(20);
          uv_run(L, UV_RUN_DEFAULT);
          alarm(0);
          for (i = 0; i < n; i++) {
            long v = rcs[i] == 0 ? (long) reqs[i].result : rcs[i];
            if ((!strcmp(kind, "stat") || (!strcmp(kind, "mixed") && (i % 4 == 1 || i % 4 == 3))) && v == 0) v = (long) reqs[i].statbuf.st_size + 1000;
            if (!strcmp(kind, "open") && ph == 0) { fds[i] = (int) v; v = v >= 0 ? 0 : v; }
            results[i] = v;
            if (cbs[i] < cmin) cmin = cbs[i]; if (cbs[i] > cmax) cmax = cbs[i];
            uv_fs_req_cleanup(&reqs[i]);
          }
          free(reqs); free(rcs);
        } else {
          for (i = 0; i < n; i++) {
            char nm[64]; int k4 = !strcmp(kind, "mixed") ? i % 4 : -1; long v; struct stat st; uv_fs_t q;
            snprintf(nm, sizeof nm, "bu_%d_%d", r, i);
            if (uvr) {
              if (!strcmp(kind, "mkdir") || k4 == 0) v = uv_fs_mkdir(NULL, &q, nm, 0755, NULL);
              else if (!strcmp(kind, "stat") || k4 == 1) { v = uv_fs_stat(NULL, &q, "a.txt", NULL); if (v == 0) v = (long) q.statbuf.st_size + 1000; }
              else if (k4 == 2) { nm[1] = 's'; v = uv_fs_symlink(NULL, &q, "a.txt", nm, 0, NULL); }
              else if (k4 == 3) { v = uv_fs_lstat(NULL, &q, "ln", NULL); if (v == 0) v = (long) q.statbuf.st_size + 1000; }
              else if (ph == 0) { v = uv_fs_open(NULL, &q, "a.txt", O_RDONLY, 0, NULL); fds[i] = (int) v; v = v >= 0 ? 0 : v; }
              else v = uv_fs_close(NULL, &q, fds[i], NULL);
              uv_fs_req_cleanup(&q);
            } else {
              if (!strcmp(kind, "mkdir") || k4 == 0) v = NEG(mkdir(nm, 0755));
              else if (!strcmp(kind, "stat") || k4 == 1) { v = NEG(stat("a.txt", &st)); if (v == 0) v = (long) st.st_size + 1000; }
              else if (k4 == 2) { nm[1] = 's'; v = NEG(symlink("a.txt", nm)); }
              else if (k4 == 3) { v = NEG(lstat("ln", &st)); if (v == 0) v = (long) st.st_size + 1000; }
              else if (ph == 0) { fds[i] = open("a.txt", O_RDONLY | O_CLOEXEC); v = fds[i] >= 0 ? 0 : -(long) errno; }
              else v = NEG(close(fds[i]));
            }
            results[i] = v;
          }
        }
        for (i = 0; i < n; i++) { rh = fnv((unsigned char*) &results[i], sizeof(long), rh); if (results[i] >= 0) okc++; }
      }
      free(fds);
    }
    t("res=%ld out=%u", okc, rh);
    if (uvr && CB != NULL) {
      if (cmin == 1 && cmax == 1) t(" cb=1"); else t(" cb=%d..%d", cmin, cmax);
      t(" via=b"); if (route == R_RING) t(" ring=%ld", viaring);
    }
    free(results); free(cbs);
  } else if (!strcmp(op, "statx95")) {
    /* fault injection on the ring route: the completion of the statx SQE is rewritten to
     * -EOPNOTSUPP in the completion ring before libuv looks at it (what a file system
     * without statx support answers), so that uv__poll_io_uring re-posts to the pool */
    if (route == R_RING && ring_iou()->ringfd >= 0) {
      struct uv__iou* iou = ring_iou(); struct cqe_abi { uint64_t user_data; int32_t res; uint32_t flags; };
      struct cqe_abi* cq = iou->cqe; int patched = 0, tries;
      BEGIN(); rc = uv_fs_stat(L, &req, ARG(1), CB);
      m1 = live - m0; via = 'p';
      if (rc == 0 && iou->in_flight != inflight0) {
        via = 'r'; dump_sqe(&req);
        for (tries = 0; tries < 20000 && !patched; tries++) {
          uint32_t head = *iou->cqhead, tail = __atomic_load_n(iou->cqtail, __ATOMIC_ACQUIRE), i;
          for (i = head; i != tail; i++)
            if (cq[i & iou->cqmask].user_data == (uint64_t) (uintptr_t) &req) { cq[i & iou->cqmask].res = -EOPNOTSUPP; patched = 1; }
          if (!patched) usleep(100);
        }
      }
      if (rc == 0) uv_run(L, UV_RUN_DEFAULT);
      res = rc == 0 ? (long) req.result : rc;
      m2 = live - m0;
      t("res=%ld", res); if (!patched) t(" NOT-PATCHED");
      if (res == 0) t_stat_uv(&req);
      END(0);
    } else t("res=-");
  } else {
    t("res=UNKNOWN-OP(%s)", op);
  }
}

static void run_route(int r, char* script, const char* base, long caseno) {
  char root[PATH_MAX]; char* ops[MAXOPS]; int nops = 0, i; char* s = strdup(script); char* p = s;
  route = r;
  L = r == R_POOL ? &pool_loop : r == R_RING ? &ring_loop : NULL;
  CB = (r == R_POOL || r == R_RING) ? on_fs : NULL;
  snprintf(root, sizeof root, "%s/t%d_%ld_%c", base, (int) getpid(), caseno, RN[r]);
  rm_tree(root);
  snprintf(xdev_dir, sizeof xdev_dir, "/dev/shm/c11_%d_%ld_%c", (int) getpid(), caseno, RN[r]);
  make_tree(root);
  if (!getcwd(cwd_root, sizeof cwd_root)) exit(2);
  for (i = 0; i < NSLOT; i++) slots[i] = -1;
  while (p && nops < MAXOPS) { char* q = strstr(p, " | "); if (q) *q = 0; ops[nops++] = p; p = q ? q + 3 : NULL; }
  for (i = 0; i < nops; i++) {
    char* a[8]; int na = 0; char* save; char* tok; char* o = strdup(ops[i]);
    for (tok = strtok_r(o, " ", &save); tok && na < 8; tok = strtok_r(NULL, " ", &save)) a[na++] = expand(tok);
    tlen = 0; tbuf[0] = 0; opno = i;
    if (na > 0) run_op(a, na);
    free(rtext[r][i]); rtext[r][i] = strdup(tbuf);
    while (na > 0) free(a[--na]);
    free(o);
  }
  for (i = 0; i < NSLOT; i++) if (slots[i] >= 0) { close(slots[i]); slots[i] = -1; }
  dig_h = 2166136261u; dig_n = 0; digest_dir(".");
  tlen = 0; t("%u/%ld", dig_h, dig_n);
  free(rtext[r][MAXOPS - 1]); rtext[r][MAXOPS - 1] = strdup(tbuf);
  if (chdir("/") != 0) exit(2);
  rm_tree(root);
  rm_tree_fn(xdev_dir);
  free(s);
}

static void run_case(char* line, const char* base, long caseno) {
  int nops = 0, i, r; char* s = strdup(line); char* p = s; char* names[MAXOPS];
  while (p && nops < MAXOPS - 1) { char* q = strstr(p, " | "); char* sp; if (q) *q = 0; names[nops] = p; sp = strchr(p, ' '); if (sp) *sp = 0; nops++; p = q ? q + 3 : NULL; }
  n_setup = n_setup_sqpoll = n_enter = 0;
  for (r = 0; r < NROUTES; r++) run_route(r, line, base, caseno);
  olen = 0;
  for (i = 0; i < nops; i++) {
    out("%d:%s", i, names[i]);
    for (r = 0; r < NROUTES; r++) out(" %c{%s}", RN[r], rtext[r][i] ? rtext[r][i] : "");
    out(" ; ");
  }
  out("tree");
  for (r = 0; r < NROUTES; r++) out(" %c=%s", RN[r], rtext[r][MAXOPS - 1]);
  out(" ; sys ring=%d enter=%ld", ring_iou()->ringfd >= 0, n_enter);
  printf("%s\n", obuf);
  fflush(stdout);
  free(s);
}

int main(int argc, char** argv) {
  char* line = NULL; size_t cap = 0; ssize_t k; long caseno = 0; uv_fs_t req; const char* e;
  if (argc < 2) { fprintf(stderr, "usage: c11_routes <scratch dir>\n"); return 2; }
  setenv("UV_USE_IO_URING", "1", 1);
  e = getenv("C11_CLOBBER"); clobber = e && atoi(e) > 0;
  e = getenv("UV_THREADPOOL_SIZE"); if (e && atoi(e) > 0) nthreads = atoi(e);
  if (nthreads > 128) nthreads = 128;
  signal(SIGALRM, on_alarm);
  uv_replace_allocator(c_malloc, c_realloc, c_calloc, c_free);
  uv_loop_init(&pool_loop);
  uv_loop_init(&ring_loop);
  if (uv_loop_configure(&ring_loop, UV_LOOP_USE_IO_URING_SQPOLL) != 0) fprintf(stderr, "note: SQPOLL option refused\n");
  /* warm up: thread pool start-up, ring creation */
  uv_fs_stat(&pool_loop, &req, "/", on_fs); uv_run(&pool_loop, UV_RUN_DEFAULT); uv_fs_req_cleanup(&req);
  uv_fs_stat(&ring_loop, &req, "/", on_fs); uv_run(&ring_loop, UV_RUN_DEFAULT); uv_fs_req_cleanup(&req);
  uv_fs_access(&ring_loop, &req, "/", 0, on_fs); uv_run(&ring_loop, UV_RUN_DEFAULT); uv_fs_req_cleanup(&req);
  { struct stat a, b; xdev_ok = stat("/dev/shm", &a) == 0 && stat(argv[1], &b) == 0 && a.st_dev != b.st_dev && access("/dev/shm", W_OK) == 0; }
  printf("env kv=%u ring=%d sqpoll_setups=%ld xdev=%d\n", uv__kernel_version(), ring_iou()->ringfd >= 0, n_setup_sqpoll, xdev_ok);
  while ((k = getline(&line, &cap, stdin)) > 0) {
    if (line[k - 1] == '\n') line[k - 1] = 0;
    run_case(line, argv[1], caseno++);
  }
  uv_loop_close(&pool_loop);
  uv_loop_close(&ring_loop);
  free(line); free(obuf);
  { int i, r; for (r = 0; r < NROUTES; r++) for (i = 0; i < MAXOPS; i++) free(rtext[r][i]); }
  return 0;
}
