/* C16: interrupted blocking poll on a virtual clock.
 *
 * Link with -Wl,--wrap=clock_gettime,--wrap=epoll_pwait,--wrap=uv__io_poll.
 * One case per stdin line:   <mode> <metrics> <T> ; <answers>
 *   mode     once | default          (uv_run mode; once is repeated until the timer fired)
 *   metrics  0 | 1                   (uv_loop_configure(UV_METRICS_IDLE_TIME))
 *   T        timer timeout in ms
 *   answers  what the wrapped epoll_pwait of the loop answers, in order:
 *            i<e>  -1/EINTR after e ms       e<e>  an event (uv_async_send) after e ms
 *            t     let the timeout expire    (also when the script is exhausted)
 *            f<e>  a completely filled batch after e ms: the real event of a uv_async_send plus
 *                  invalidated entries (data.fd = -1, which uv__io_poll skips) up to the 1024 asked for
 *            elapsed values are clamped to the timeout of the call.
 * One result line per case:
 *   due=<ms> { R P<given> { w<timeout>@<now>:<answer> } Q<blocked> {T@<now> | A@<now>} r<ret>@<now> } end
 * (times relative to the moment the timer was armed; P/Q bracket one uv__io_poll call)
 */
#include <errno.h>
#include <inttypes.h>
#include <stdio.h>
#include <stdlib.h>
#include <string.h>
#include <time.h>
#include <sys/epoll.h>
#include "uv.h"
#define printf(...) do { if (!quiet) printf(__VA_ARGS__); } while (0)

static uint64_t vclock_ms = 1000, t_zero;
static uv_loop_t loop;
static uv_timer_t timer;
static uv_async_t async;
static int fired, afired, hung, quiet;
static char* ans[256]; static int nans, pos;

int __real_clock_gettime(clockid_t id, struct timespec* ts);
int __wrap_clock_gettime(clockid_t id, struct timespec* ts) {
  if (id == CLOCK_MONOTONIC || id == CLOCK_MONOTONIC_COARSE) {
    ts->tv_sec = vclock_ms / 1000;
    ts->tv_nsec = (vclock_ms % 1000) * 1000000;
    return 0;
  }
  return __real_clock_gettime(id, ts);
}

static long rel(void) { return (long) (vclock_ms - t_zero); }

int __real_epoll_pwait(int epfd, struct epoll_event* ev, int max, int timeout, const sigset_t* ss);
int __wrap_epoll_pwait(int epfd, struct epoll_event* ev, int max, int timeout, const sigset_t* ss) {
  const char* a; long e; int n;
  if (epfd != loop.backend_fd) return __real_epoll_pwait(epfd, ev, max, timeout, ss);
  a = pos < nans ? ans[pos] : "t";
  pos++;
  printf("w%d@%ld:", timeout, rel());
  if (a[0] == 'f') {
    int k;
    e = atol(a + 1);
    if (timeout >= 0 && e > timeout) e = timeout;
    if (e < 0) e = 0;
    vclock_ms += (uint64_t) e;
    uv_async_send(&async);
    n = __real_epoll_pwait(epfd, ev, max, 0, ss);
    if (n < 0) n = 0;
    for (k = n; k < max; k++) { memset(&ev[k], 0, sizeof ev[k]); ev[k].data.fd = -1; }
    printf("f%ld ", e);
    return max;
  }
  if (a[0] == 'i' || a[0] == 'e') {
    e = atol(a + 1);
    if (timeout >= 0 && e > timeout) e = timeout;
    if (e < 0) e = 0;
    vclock_ms += (uint64_t) e;
    if (a[0] == 'i') { printf("i%ld ", e); errno = EINTR; return -1; }
    uv_async_send(&async);
    n = __real_epoll_pwait(epfd, ev, max, 0, ss);
    printf("e%ld ", e);
    return n;
  }
  if (timeout < 0) {           /* would block for ever */
    printf("H ");
    hung = 1;
    uv_stop(&loop);
    uv_async_send(&async);
    return __real_epoll_pwait(epfd, ev, max, 0, ss);
  }
  n = __real_epoll_pwait(epfd, ev, max, 0, ss);
  if (n > 0) { printf("e0 "); return n; }     /* something real was pending */
  vclock_ms += (uint64_t) timeout;
  printf("t ");
  return 0;
}

void __real_uv__io_poll(uv_loop_t* l, int timeout);
void __wrap_uv__io_poll(uv_loop_t* l, int timeout) {
  uint64_t t0 = vclock_ms;
  if (l != &loop) { __real_uv__io_poll(l, timeout); return; }
  printf("P%d ", timeout);
  __real_uv__io_poll(l, timeout);
  printf("Q%ld ", (long) (vclock_ms - t0));
}

static void timer_cb(uv_timer_t* t) { (void) t; fired = 1; printf("T@%ld,%ld ", rel(), (long) (uv_now(&loop) - t_zero)); }
static void async_cb(uv_async_t* a) { (void) a; afired++; printf("A@%ld ", rel()); }

int main(void) {
  char line[8192];
  while (fgets(line, sizeof line, stdin)) {
    char mode[16]; int metrics, T, i, r; char* semi; char* tok; char* save = NULL;
    if (sscanf(line, "%15s %d %d", mode, &metrics, &T) != 3 || !(semi = strchr(line, ';'))) { printf("BADCASE\n"); fflush(stdout); continue; }
    nans = pos = fired = afired = hung = quiet = 0;
    for (tok = strtok_r(semi + 1, " \n", &save); tok && nans < 256; tok = strtok_r(NULL, " \n", &save)) ans[nans++] = tok;
    vclock_ms += 1000;
    if (uv_loop_init(&loop)) { printf("LOOPINIT\n"); fflush(stdout); continue; }
    if (metrics) uv_loop_configure(&loop, UV_METRICS_IDLE_TIME);
    uv_async_init(&loop, &async, async_cb);
    uv_unref((uv_handle_t*) &async);
    uv_timer_init(&loop, &timer);
    uv_update_time(&loop);
    t_zero = uv_now(&loop);
    uv_timer_start(&timer, timer_cb, (uint64_t) T, 0);
    printf("due=%d ", T);
    if (!strcmp(mode, "default")) {
      printf("R ");
      r = uv_run(&loop, UV_RUN_DEFAULT);
      printf("r%d@%ld ", r, rel());
    } else {
      for (i = 0; i < 300 && !fired && !hung; i++) {
        printf("R ");
        r = uv_run(&loop, UV_RUN_ONCE);
        printf("r%d@%ld ", r, rel());
      }
    }
    printf("end fired=%d\n", fired);
    quiet = 1;
    uv_close((uv_handle_t*) &timer, NULL);
    uv_close((uv_handle_t*) &async, NULL);
    uv_run(&loop, UV_RUN_NOWAIT);
    pos = nans = 0;
    uv_run(&loop, UV_RUN_NOWAIT);
    if (uv_loop_close(&loop)) printf("# loop_close failed\n");
    fflush(stdout);
  }
  return 0;
}
