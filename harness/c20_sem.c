/* C20 (e): the custom semaphore of src/unix/thread.c (uv__custom_sem_*), selected in
 * the unmodified library object by answering "2.20" from gnu_get_libc_version(), run
 * with real threads under the serialising scheduler.
 * Case: "<value> ; <program of thread 0> <program of thread 1> ... ; t,a t,a ..." with
 * programs over P (uv_sem_post) W (uv_sem_wait) T (uv_sem_trywait), "-" = empty.
 * Output: "t:-" or "t:<op>[:r<code>]" per choice, then "v<verdict>". */
#include "uv.h"
#include "c20_sched.h"

static int version_asked;
const char* __wrap_gnu_get_libc_version(void) { version_asked = 1; return "2.20"; }

static uv_sem_t sem;
static char* prog[DS_MAXW];

static void* worker(void* arg) {
  int id = (int) (long) arg;
  const char* p;
  ds_worker_begin(id);
  for (p = prog[id]; *p; p++) {
    switch (*p) {
    case 'P': uv_sem_post(&sem); ds_returned(0); break;
    case 'W': uv_sem_wait(&sem); ds_returned(0); break;
    case 'T': ds_returned(uv_sem_trywait(&sem)); break;
    }
  }
  ds_worker_end();
  return NULL;
}

static void run_case(char* line) {
  char* s1 = strchr(line, ';');
  char* s2 = s1 ? strchr(s1 + 1, ';') : NULL;
  char *p, *save = NULL, *tok; int n = 0, k;
  unsigned value;
  if (!s2) { printf("bad\n"); return; }
  *s1++ = 0; *s2++ = 0;
  value = (unsigned) strtoul(line, NULL, 10);
  for (tok = strtok_r(s1, " \n", &save); tok && n < DS_MAXW; tok = strtok_r(NULL, " \n", &save))
    prog[n++] = strcmp(tok, "-") ? tok : "";
  if (uv_sem_init(&sem, value) != 0) { printf("initfail\n"); return; }
  if (!version_asked) { printf("nocustom\n"); return; }
  ds_start(n, worker);
  p = s2;
  for (;;) {
    int t, a, op;
    if (sscanf(p, " %d,%d%n", &t, &a, &k) != 2) break;
    p += k;
    op = ds_step(t, a);
    if (op == OP_NONE) printf("%d:- ", t);
    else {
      printf("%d:%c", t, ds_opch[op]);
      if (t < ds_n && ds_w[t].ret_pending) printf(":r%d", ds_w[t].ret_val);
      printf(" ");
    }
    fflush(stdout);
  }
  printf("v%d%s\n", ds_verdict(), ds_err ? " schederr" : "");
  if (ds_verdict() == 0) uv_sem_destroy(&sem);
}

int main(void) { return ds_main(run_case); }
