/* C20 (e): the mutex/condvar barrier of src/thread-common.c, compiled from the
 * current source in its fallback flavour (the selecting macro is removed after
 * <pthread.h>, exactly the condition the file tests), run with real threads under
 * the serialising scheduler.  Case: "<threshold> <rounds of thread 0> ... ; t,a t,a ..."
 * Output: one record per choice, "t:-" (skip) or "t:<op>:<in>,<out>[:r<ret>]", then
 * "v<verdict>" (see drv_c20.ml / Model/Thread.v brun_log). */
#include <pthread.h>
#undef PTHREAD_BARRIER_SERIAL_THREAD
#include "thread-common.c"            /* found through -I<repo>/src */
#include "c20_sched.h"

static uv_barrier_t bar;
static int rounds[DS_MAXW];

static void* worker(void* arg) {
  int id = (int) (long) arg, k;
  ds_worker_begin(id);
  for (k = 0; k < rounds[id]; k++) {
    int r = uv_barrier_wait(&bar);
    ds_returned(r);
  }
  ds_worker_end();
  return NULL;
}

static void run_case(char* line) {
  char* semi = strchr(line, ';');
  char* p; int n = 0, k; unsigned thr;
  if (!semi) { printf("bad\n"); return; }
  *semi++ = 0;
  thr = (unsigned) strtoul(line, &p, 10);
  while (n < DS_MAXW) {
    char* e; long v = strtol(p, &e, 10);
    if (e == p) break;
    rounds[n++] = (int) v; p = e;
  }
  if (uv_barrier_init(&bar, thr) != 0) { printf("initfail\n"); return; }
  ds_start(n, worker);
  p = semi;
  for (;;) {
    int t, a, op;
    if (sscanf(p, " %d,%d%n", &t, &a, &k) != 2) break;
    p += k;
    op = ds_step(t, a);
    if (op == OP_NONE) printf("%d:- ", t);
    else {
      printf("%d:%c:%u,%u", t, ds_opch[op], bar.b->in, bar.b->out);
      if (t < ds_n && ds_w[t].ret_pending) printf(":r%d", ds_w[t].ret_val);
      printf(" ");
    }
    fflush(stdout);
  }
  printf("v%d%s", ds_verdict(), ds_err ? " schederr" : "");
  /* uv_barrier_destroy would block for ever (real primitives, nobody left to wake us) */
  if (ds_verdict() == 0 && (bar.b->out != 0 || bar.b->in != 0)) printf(" undrained");
  printf("\n");
  fflush(stdout);
  if (ds_verdict() == 0 && bar.b->out == 0 && bar.b->in == 0) uv_barrier_destroy(&bar);
}

int main(void) { return ds_main(run_case); }
