/* C18 (idna.c part): the glue in the PUBLIC uv_getaddrinfo().  The call is synchronous
 * (cb == NULL); getaddrinfo() below is this executable's own definition, which the static
 * libuv.a binds to, so no resolver and no network is touched: it records the node string it is
 * handed and answers EAI_NONAME.  The allocator pads every block with '#' (and a final NUL), so a
 * name that reaches the resolver without its terminator shows as name + "###...".
 *
 * input : one host name per line, hex bytes (no 00)
 * output: <rc of uv_getaddrinfo> <1 if getaddrinfo was called else 0> <hex of the node string|->
 */
#include <stdio.h>
#include <stdlib.h>
#include <string.h>
#include <netdb.h>
#include "uv.h"

#define PAD 64
#define MAXLINE (1 << 16)

static int called;
static unsigned char seen[4096];
static size_t seen_len;

int getaddrinfo(const char* node, const char* service, const struct addrinfo* hints, struct addrinfo** res) {
  called++;
  seen_len = 0;
  if (node != NULL)
    while (node[seen_len] != 0 && seen_len < sizeof(seen)) {
      seen[seen_len] = (unsigned char) node[seen_len];
      seen_len++;
    }
  (void) service; (void) hints;
  *res = NULL;
  return EAI_NONAME;
}

void freeaddrinfo(struct addrinfo* ai) { (void) ai; }

static void* pad_malloc(size_t n) {
  char* p = malloc(n + PAD);
  if (p != NULL) { memset(p, '#', n + PAD - 1); p[n + PAD - 1] = 0; }
  return p;
}
static void* pad_calloc(size_t a, size_t b) {
  char* p = malloc(a * b + PAD);
  if (p != NULL) { memset(p, '#', a * b + PAD - 1); p[a * b + PAD - 1] = 0; memset(p, 0, a * b); }
  return p;
}
static void* pad_realloc(void* q, size_t n) { return realloc(q, n + PAD); }

static int hexval(int c) {
  if (c >= '0' && c <= '9') return c - '0';
  if (c >= 'a' && c <= 'f') return c - 'a' + 10;
  if (c >= 'A' && c <= 'F') return c - 'A' + 10;
  return -1;
}

int main(void) {
  static char line[MAXLINE];
  static char name[MAXLINE / 2 + 1];
  uv_loop_t loop;
  if (uv_replace_allocator(pad_malloc, pad_realloc, pad_calloc, free) != 0) return 2;
  if (uv_loop_init(&loop) != 0) return 2;
  while (fgets(line, sizeof line, stdin)) {
    uv_getaddrinfo_t req;
    size_t n = 0, i;
    const char* s = line;
    int rc;
    while (hexval(s[0]) >= 0 && hexval(s[1]) >= 0) {
      name[n++] = (char) (hexval(s[0]) * 16 + hexval(s[1]));
      s += 2;
    }
    name[n] = 0;
    called = 0; seen_len = 0;
    memset(&req, 0, sizeof req);
    rc = uv_getaddrinfo(&loop, &req, NULL, name, NULL, NULL);
    printf("%d %d ", rc, called);
    if (!called || seen_len == 0) printf("-");
    else for (i = 0; i < seen_len; i++) printf("%02x", seen[i]);
    printf("\n");
  }
  uv_loop_close(&loop);
  return 0;
}
