/* C05: the stream write path of the freshly built libuv, driven through the
 * public API on a socketpair(AF_UNIX, SOCK_STREAM) opened with uv_pipe_open
 * (mode "unix") or on a TCP loopback connection opened with uv_tcp_open
 * (mode "tcp").  write/writev/sendmsg/shutdown on the stream's descriptor are
 * wrapped: each call takes the next scripted answer ("n<k>": really write the
 * first k offered bytes; "e<errno>": fail without writing; script exhausted:
 * pass through) and the answer actually given is logged.  The peer end is a
 * plain non-blocking descriptor drained by the harness after every write.
 *
 * case:   <blk> <shutans> [<conn>] ; ops ; beh0 | beh1 | ... ; script ; -
 *         conn: "-" (default) stream opened connected; t<k>/u<k>: the script starts right after a real
 *         non-blocking uv_tcp_connect / uv_pipe_connect to a listener of the harness (the first k
 *         getsockopt(SO_ERROR) answers are forced to EINPROGRESS); T/U: nobody listens (ECONNREFUSED);
 *         op Kl / Kd: connect again on the same handle to the live / the dead target
 * output: <trace> ; <oracle log> ; <pollw log> ; <shutdown(2) answer> ; <conn log: kind:connect(2) result:SO_ERROR answers>
 * trace tokens: see ocaml/drv_c05.ml. */
#include <stdio.h>
#include <stdlib.h>
#include <string.h>
#include <errno.h>
#include <unistd.h>
#include <fcntl.h>
#include <poll.h>
#include <signal.h>
#include <sys/socket.h>
#include <sys/uio.h>
#include <sys/un.h>
#include <sys/mman.h>
#include <netinet/in.h>
#include <arpa/inet.h>
#include "uv.h"
#include "uv-common.h"

ssize_t __real_write(int, const void*, size_t);
ssize_t __real_writev(int, const struct iovec*, int);
ssize_t __real_sendmsg(int, const struct msghdr*, int);
int __real_shutdown(int, int);
int __real_connect(int, const struct sockaddr*, socklen_t);
int __real_getsockopt(int, int, int, void*, socklen_t*);

#define MAXREQ 4096
#define MAXBEH 512

struct wreq {
  uv_write_t req;
  int id;
  char* payload;
  size_t total;
  int virt;       /* huge request: the payload is reserved address space only (PROT_NONE), never handed to the kernel */
};
#define VIRT_MIN ((size_t) 16 << 20)       /* requests of 16 MiB and more are virtual */
#define MAX_RW_COUNT ((size_t) 0x7ffff000) /* what one write/writev/sendmsg transfers at most on Linux */
static unsigned long long virt_bytes;      /* bytes "accepted" of virtual requests */

static int tcp_mode;
/* connecting cases: 't'/'u' = uv_tcp_connect / uv_pipe_connect to a listener of the harness,
 * 'T'/'U' = to an address nobody listens on; forced_inprog = getsockopt(SO_ERROR) answers
 * forced to EINPROGRESS first */
static int conn_mode, forced_inprog, in_connect_call, conn_res, g_ls = -1;
static uv_connect_t creq;
/* connect retries on the same handle (op K): a live and a dead target of the handle's kind */
static uv_connect_t creqs[64]; static int ncreq, connected_h, connecting_h;
static int g_dead = -1; static struct sockaddr_in addr_live, addr_dead; static char path_dead[108];
static FILE* crlog; static char* crlog_buf; static size_t crlog_len;
/* uv_write2: one handle to send (a bound uv_tcp_t); descriptors the peer received per request */
static int ipc_mode, sendh_open, sendh_closing, cur_send_id = -1;
static uv_tcp_t sendh;
static int peer_fds[4096];
static char sock_path[108];
static FILE* clog; static char* clog_buf; static size_t clog_len;
static uv_loop_t loop;
static union { uv_pipe_t pipe; uv_tcp_t tcp; uv_stream_t stream; uv_handle_t handle; } h;
static uv_prepare_t keepalive;
static uv_shutdown_t shreq;
static struct wreq* reqs[MAXREQ];
static int nreq;            /* next id */
static int g_fd = -1, g_peer = -1, g_active, g_quiet, g_closing, g_closed;
static char* beh[MAXBEH];
static int nbeh, cbn;
static char** script; static int nscript, script_pos;
static int shutans_script, shutans_seen, shut_called;
static FILE* olog; static char* olog_buf; static size_t olog_len;
static FILE* plog; static char* plog_buf; static size_t plog_len;
static unsigned long long peer_bytes; static int peer_eof, peer_ok = 1;
/* expected next bytes at the peer: ring of what the wrapper really wrote */
static unsigned char* expect_buf; static size_t expect_len, expect_cap;

static void do_ops(char* ops, int in_cb);

/* uv_replace_allocator: malloc fails while [fail_malloc] is set (only around a scripted uv_write/uv_write2) */
static int fail_malloc, failed_mallocs;
static void* h_malloc(size_t n) { if (fail_malloc) { failed_mallocs++; return NULL; } return malloc(n); }
static void* h_realloc(void* p, size_t n) { return realloc(p, n); }
static void* h_calloc(size_t a, size_t b) { return calloc(a, b); }
static void h_free(void* p) { free(p); }

static unsigned char pay(int id, size_t i) { return (unsigned char) (id * 131u + i * 7u + (i >> 8) + 1u); }

static void drain_peer(void) {
  unsigned char buf[65536];
  if (g_peer < 0 && g_ls >= 0) {
    g_peer = accept(g_ls, NULL, NULL);
    if (g_peer >= 0) fcntl(g_peer, F_SETFL, fcntl(g_peer, F_GETFL) | O_NONBLOCK);
  }
  if (g_peer < 0) return;
  for (;;) {
    struct msghdr m; struct iovec v; char ctl[CMSG_SPACE(16 * sizeof(int))]; struct cmsghdr* c; ssize_t r;
    memset(&m, 0, sizeof m); v.iov_base = buf; v.iov_len = sizeof buf;
    m.msg_iov = &v; m.msg_iovlen = 1; m.msg_control = ctl; m.msg_controllen = sizeof ctl;
    r = recvmsg(g_peer, &m, 0);
    if (r >= 0)
      for (c = CMSG_FIRSTHDR(&m); c != NULL; c = CMSG_NXTHDR(&m, c))
        if (c->cmsg_level == SOL_SOCKET && c->cmsg_type == SCM_RIGHTS) {
          int n = (int) ((c->cmsg_len - CMSG_LEN(0)) / sizeof(int)), j; int* fdp = (int*) CMSG_DATA(c);
          for (j = 0; j < n; j++) close(fdp[j]);
          if (cur_send_id >= 0 && cur_send_id < 4096) peer_fds[cur_send_id] += n;
        }
    if (r > 0) {
      if ((size_t) r > expect_len || memcmp(buf, expect_buf, r) != 0) peer_ok = 0;
      if ((size_t) r <= expect_len) { memmove(expect_buf, expect_buf + r, expect_len - r); expect_len -= r; }
      else expect_len = 0;
      peer_bytes += r;
      continue;
    }
    if (r == 0) peer_eof = 1;
    else if (r < 0 && errno == ECONNRESET) peer_eof = 2;     /* the peer saw a reset, not an orderly end */
    break;
  }
}

static void expect_add(const unsigned char* p, size_t n) {
  if (expect_len + n > expect_cap) { expect_cap = (expect_len + n) * 2; expect_buf = realloc(expect_buf, expect_cap); }
  memcpy(expect_buf + expect_len, p, n); expect_len += n;
}

/* which request does this address belong to */
static int locate(const char* p, size_t* off) {
  int i;
  for (i = nreq - 1; i >= 0; i--)
    if (reqs[i] && p >= reqs[i]->payload && p <= reqs[i]->payload + reqs[i]->total) {
      *off = p - reqs[i]->payload; return i;
    }
  return -1;
}

static ssize_t scripted_writev(const struct iovec* iov, int iovcnt, void* control, size_t controllen) {
  size_t offered = 0; int i; ssize_t r; int e;
  const char* tok = script_pos < nscript ? script[script_pos++] : "p";
  int has_fd = control != NULL && controllen >= CMSG_LEN(sizeof(int)), fd_id = -1;
  for (i = 0; i < iovcnt; i++) offered += iov[i].iov_len;
  if (has_fd && iovcnt > 0) { size_t o2; fd_id = locate(iov[0].iov_base, &o2); }
  /* a stream socket never answers 0 to a non-empty sendmsg; with a descriptor attached that answer
   * would mean "accepted, descriptor gone": script it as EAGAIN instead */
  if (has_fd && offered > 0 && tok[0] == 'n' && strtoull(tok + 1, NULL, 10) == 0) tok = "e11";
  if (iovcnt > 1024) {               /* what the kernel says to more than IOV_MAX entries */
    fprintf(olog, "e%d ", EINVAL);
    if (!g_quiet) printf("!iov%d ", iovcnt);
    errno = EINVAL;
    return -1;
  }
  if (tok[0] == 'e') {
    e = atoi(tok + 1);
    fprintf(olog, "e%d ", e);
    if (has_fd && e != EINTR && !g_quiet) printf("g%d ", fd_id);
    errno = e;
    return -1;
  }
  {
    size_t want = offered, left; struct iovec* cp; int cnt = 0, virt = 0;
    for (i = 0; i < iovcnt && !virt; i++) {
      size_t o3; int id = locate(iov[i].iov_base, &o3);
      if (id >= 0 && reqs[id]->virt) virt = 1;
    }
    if (want > MAX_RW_COUNT) want = MAX_RW_COUNT;
    if (tok[0] == 'n') { unsigned long long k = strtoull(tok + 1, NULL, 10); if (k < want) want = k; }
    if (virt) {
      /* a huge request: the kernel never sees it; the answer is just the number */
      size_t acc = want; int cur = -2; size_t cur_off = 0, cur_len = 0;
      fprintf(olog, "n%zu ", want);
      for (i = 0; i < iovcnt && acc > 0; i++) {
        size_t l = iov[i].iov_len < acc ? iov[i].iov_len : acc, off = 0; int id;
        if (l == 0) continue;
        id = locate(iov[i].iov_base, &off);
        if (id == cur && off == cur_off + cur_len) cur_len += l;
        else {
          if (cur != -2 && !g_quiet) printf("c%d,%zu,%zu ", cur, cur_off, cur_len);
          cur = id; cur_off = off; cur_len = l;
        }
        acc -= l;
      }
      if (cur != -2 && !g_quiet) printf("c%d,%zu,%zu ", cur, cur_off, cur_len);
      virt_bytes += want;
      errno = 0;
      return (ssize_t) want;
    }
    cp = malloc(sizeof(*cp) * (iovcnt > 0 ? iovcnt : 1));
    left = want;
    for (i = 0; i < iovcnt; i++) {
      size_t l = iov[i].iov_len < left ? iov[i].iov_len : left;
      if (left == 0 && want < offered) break;
      cp[cnt].iov_base = iov[i].iov_base; cp[cnt].iov_len = l; cnt++;
      left -= l;
    }
    if (has_fd) {                              /* keep the control message on the real call */
      struct msghdr m; memset(&m, 0, sizeof m);
      m.msg_iov = cp; m.msg_iovlen = cnt; m.msg_control = control; m.msg_controllen = controllen;
      r = __real_sendmsg(g_fd, &m, 0);
    }
    else if (cnt == 0) r = 0;                  /* a zero-byte write: nothing to do for the kernel */
    else r = __real_writev(g_fd, cp, cnt);
    e = errno;
    if (r < 0) {
      fprintf(olog, "e%d ", e);
      if (has_fd && e != EINTR && !g_quiet) printf("g%d ", fd_id);
      free(cp); errno = e; return -1;
    }
    fprintf(olog, "n%zd ", r);
    if (has_fd && !g_quiet) printf("f%d ", fd_id);
    cur_send_id = has_fd ? fd_id : -1;
    /* chunks: map what was accepted back to (request, offset) */
    {
      size_t acc = r; int cur = -2; size_t cur_off = 0, cur_len = 0;
      for (i = 0; i < cnt && acc > 0; i++) {
        size_t l = cp[i].iov_len < acc ? cp[i].iov_len : acc, off = 0; int id;
        if (l == 0) continue;
        id = locate(cp[i].iov_base, &off);
        expect_add(cp[i].iov_base, l);
        if (id == cur && off == cur_off + cur_len) cur_len += l;
        else {
          if (cur != -2 && !g_quiet) printf("c%d,%zu,%zu ", cur, cur_off, cur_len);
          cur = id; cur_off = off; cur_len = l;
        }
        acc -= l;
      }
      if (cur != -2 && !g_quiet) printf("c%d,%zu,%zu ", cur, cur_off, cur_len);
    }
    free(cp);
    drain_peer();
    errno = 0;
    return r;
  }
}

ssize_t __wrap_write(int fd, const void* buf, size_t n) {
  struct iovec v;
  if (!g_active || fd != g_fd) return __real_write(fd, buf, n);
  v.iov_base = (void*) buf; v.iov_len = n;
  return scripted_writev(&v, 1, NULL, 0);
}
ssize_t __wrap_writev(int fd, const struct iovec* iov, int cnt) {
  if (!g_active || fd != g_fd) return __real_writev(fd, iov, cnt);
  return scripted_writev(iov, cnt, NULL, 0);
}
ssize_t __wrap_sendmsg(int fd, const struct msghdr* m, int flags) {
  if (!g_active || fd != g_fd) return __real_sendmsg(fd, m, flags);
  return scripted_writev(m->msg_iov, (int) m->msg_iovlen, m->msg_control, m->msg_controllen);
}
int __wrap_shutdown(int fd, int how) {
  int r, e;
  if (!g_active || fd != g_fd) return __real_shutdown(fd, how);
  shut_called = 1;
  if (shutans_script != 0) { shutans_seen = -shutans_script; e = shutans_script; r = -1; }
  else { r = __real_shutdown(fd, how); e = errno; shutans_seen = r == 0 ? 0 : -e; }
  if (!g_quiet) printf("Y:%d ", shutans_seen);
  drain_peer();
  errno = e;
  return r;
}

int __wrap_connect(int fd, const struct sockaddr* a, socklen_t l) {
  int r = __real_connect(fd, a, l), e = errno;
  if (in_connect_call == 1) { conn_res = r == 0 ? 0 : -e; g_fd = fd; }
  if (in_connect_call == 2) fprintf(crlog, "%d,", r == 0 ? 0 : -e);
  errno = e;
  return r;
}
int __wrap_getsockopt(int fd, int level, int name, void* val, socklen_t* len) {
  int r, e;
  if (!g_active || fd != g_fd || level != SOL_SOCKET || name != SO_ERROR)
    return __real_getsockopt(fd, level, name, val, len);
  if (forced_inprog > 0) {
    forced_inprog--;
    *(int*) val = EINPROGRESS;
    fprintf(clog, "%d,", EINPROGRESS);
    return 0;
  }
  r = __real_getsockopt(fd, level, name, val, len); e = errno;
  fprintf(clog, "%d,", r == 0 ? *(int*) val : e);
  errno = e;
  return r;
}

static size_t qsz(void) { return uv_stream_get_write_queue_size(&h.stream); }

/* after a connect was accepted: the finished requests that wait in write_completed_queue for their
 * callback (token o<id>,<id>...; nothing when the queue is empty) */
static void print_completed_queue(void) {
  struct uv__queue* q; int first = 1;
  for (q = h.stream.write_completed_queue.next; q != &h.stream.write_completed_queue; q = q->next) {
    uv_write_t* req = (uv_write_t*) ((char*) q - offsetof(uv_write_t, queue));
    printf(first ? "o%d" : ",%d", ((struct wreq*) req)->id);
    first = 0;
  }
  if (!first) printf(" ");
}

static void run_beh(void) {
  int k = cbn++;
  if (k < nbeh) { char* copy = strdup(beh[k]); do_ops(copy, 1); free(copy); }
}

static void write_cb(uv_write_t* req, int status) {
  struct wreq* w = (struct wreq*) req;
  if (g_quiet) return;
  printf("b%d:%d:%zu ", w->id, status, qsz());
  run_beh();
}
static void shutdown_cb(uv_shutdown_t* req, int status) {
  (void) req;
  if (g_quiet) return;
  printf("B:%d ", status);
  run_beh();
}
static void connect_cb(uv_connect_t* req, int status) {
  (void) req;
  connecting_h = 0;
  if (status == 0) connected_h = 1;
  if (g_quiet) return;
  printf("k:%d ", status);
  run_beh();
}
static void close_cb(uv_handle_t* hd) { (void) hd; g_closed = 1; if (!g_quiet) printf("x "); }
static void prep_cb(uv_prepare_t* p) { (void) p; }

/* "3,0,2" / "1*1030,5" -> buffers over one contiguous payload region */
static struct wreq* make_req(const char* lens, uv_buf_t** bufs_out, unsigned* nbufs_out) {
  struct wreq* w = calloc(1, sizeof *w);
  size_t cap = 16, n = 0, total = 0, i, pos; size_t* ls = malloc(cap * sizeof *ls);
  const char* p = lens; uv_buf_t* bufs;
  while (*p) {
    char* end; unsigned long long a = strtoull(p, &end, 10), k = 1;
    if (end == p) break;
    p = end;
    if (*p == '*') { k = strtoull(p + 1, &end, 10); p = end; }
    while (k--) { if (n == cap) { cap *= 2; ls = realloc(ls, cap * sizeof *ls); } ls[n++] = a; total += a; }
    if (*p == ',') p++;
  }
  w->id = nreq; w->total = total;
  if (total >= VIRT_MIN) {
    w->virt = 1;
    w->payload = mmap(NULL, total + 1, PROT_NONE, MAP_PRIVATE | MAP_ANONYMOUS | MAP_NORESERVE, -1, 0);
    if (w->payload == MAP_FAILED) { printf("mmap-failed "); w->payload = malloc(1); w->total = total = 0; n = 0; }
  } else {
    w->payload = malloc(total + 1);
    for (i = 0; i < total; i++) w->payload[i] = pay(w->id, i);
  }
  bufs = malloc((n ? n : 1) * sizeof *bufs);
  /* uv_buf_init() takes an unsigned int length; the fields are size_t */
  for (i = 0, pos = 0; i < n; i++) { bufs[i].base = w->payload + pos; bufs[i].len = ls[i]; pos += ls[i]; }
  free(ls);
  reqs[nreq++] = w;
  *bufs_out = bufs; *nbufs_out = (unsigned) n;
  return w;
}

static void do_ops(char* ops, int in_cb) {
  char* save = NULL; char* tok;
  for (tok = strtok_r(ops, " \n", &save); tok; tok = strtok_r(NULL, " \n", &save)) {
    uv_buf_t* bufs; unsigned nb; struct wreq* w; int r;
    if (nreq >= MAXREQ - 1) break;
    switch (tok[0]) {
    case 'W':
      w = make_req(tok + 1, &bufs, &nb);
      printf("w%d,%zu ", w->id, w->total);
      r = uv_write(&w->req, &h.stream, bufs, nb, write_cb);
      printf("r%d:%d ", w->id, r);
      free(bufs);
      break;
    case 'N':                                  /* uv_write, the allocation of the buffer array fails */
      w = make_req(tok + 1, &bufs, &nb);
      printf("w%d,%zu ", w->id, w->total);
      fail_malloc = 1;
      r = uv_write(&w->req, &h.stream, bufs, nb, write_cb);
      fail_malloc = 0;
      printf("r%d:%d ", w->id, r);
      free(bufs);
      break;
    case 'M':                                  /* uv_write2 with the send handle, ditto */
      w = make_req(tok + 1, &bufs, &nb);
      printf("w%d,%zu m%d ", w->id, w->total, w->id);
      fail_malloc = 1;
      r = uv_write2(&w->req, &h.stream, bufs, nb, (uv_stream_t*) &sendh, write_cb);
      fail_malloc = 0;
      printf("r%d:%d ", w->id, r);
      free(bufs);
      break;
    case 'V':
      w = make_req(tok + 1, &bufs, &nb);
      printf("w%d,%zu m%d ", w->id, w->total, w->id);
      r = uv_write2(&w->req, &h.stream, bufs, nb, (uv_stream_t*) &sendh, write_cb);
      printf("r%d:%d ", w->id, r);
      free(bufs);
      break;
    case 'K': {                                /* uv_tcp_connect / uv_pipe_connect again on the same handle */
      int tcp = conn_mode == 't' || conn_mode == 'T', live = tok[1] != 'd';
      if (!conn_mode || g_closing || connected_h || ncreq >= 64) break;    /* not modelled: see Model/StreamWrite.v */
      if (connecting_h && !tcp) break;
      in_connect_call = 2;
      if (tcp) {
        r = uv_tcp_connect(&creqs[ncreq++], &h.tcp, (struct sockaddr*) (live ? &addr_live : &addr_dead), connect_cb);
        printf("K:%d ", r);
        if (r == 0) { connecting_h = 1; print_completed_queue(); }
      } else {
        uv_pipe_connect(&creqs[ncreq++], &h.pipe, live ? sock_path : path_dead, connect_cb);
        printf("K:0 ");
        connecting_h = 1;
        print_completed_queue();
      }
      in_connect_call = 0;
      if (g_fd >= 0) { struct pollfd pf; pf.fd = g_fd; pf.events = POLLOUT; pf.revents = 0; poll(&pf, 1, 5000); }
      break;
    }
    case 'X':
      if (sendh_open && !sendh_closing) { sendh_closing = 1; uv_close((uv_handle_t*) &sendh, NULL); }
      break;
    case 'T':
      w = make_req(tok + 1, &bufs, &nb);
      printf("t%d,%zu ", w->id, w->total);
      r = uv_try_write(&h.stream, bufs, nb);
      printf("u%d:%d ", w->id, r);
      free(bufs);
      break;
    case 'S':
      r = uv_shutdown(&shreq, &h.stream, shutdown_cb);
      printf("s:%d ", r);
      break;
    case 'C':
      if (!g_closing) { g_closing = 1; uv_close(&h.handle, close_cb); }
      break;
    case 'Z': {                                /* uv_tcp_close_reset (TCP handles only) */
      int tcp = tcp_mode || conn_mode == 't' || conn_mode == 'T';
      if (!tcp || g_closing) break;            /* not modelled: see Model/StreamWrite.v */
      r = uv_tcp_close_reset(&h.tcp, close_cb);
      printf("z:%d ", r);
      if (r == 0) g_closing = 1;
      else {                                   /* a refused call must have no effect: SO_LINGER still off? */
        struct linger lg; socklen_t ln = sizeof lg;
        memset(&lg, 0, sizeof lg);
        if (g_fd >= 0 && __real_getsockopt(g_fd, SOL_SOCKET, SO_LINGER, &lg, &ln) == 0) printf("l:%d ", lg.l_onoff);
        else printf("l:? ");
      }
      break;
    }
    case 'R':
      if (in_cb) break;
      if (!g_closing) {
        struct pollfd pf; pf.fd = g_fd; pf.events = POLLOUT; pf.revents = 0;
        poll(&pf, 1, 0);
        fprintf(plog, "%d ", (pf.revents & (POLLOUT | POLLERR | POLLHUP)) ? 1 : 0);
      } else fprintf(plog, "1 ");
      uv_run(&loop, UV_RUN_NOWAIT);
      break;
    default:
      break;
    }
    if (!in_cb) printf("q%zu ", qsz());
  }
}

static int make_pair(int fds[2]) {
  if (!tcp_mode) return socketpair(AF_UNIX, SOCK_STREAM, 0, fds);
  {
    struct sockaddr_in a; socklen_t al = sizeof a; int ls, c, s;
    ls = socket(AF_INET, SOCK_STREAM, 0);
    memset(&a, 0, sizeof a); a.sin_family = AF_INET; a.sin_addr.s_addr = htonl(INADDR_LOOPBACK);
    if (bind(ls, (struct sockaddr*) &a, sizeof a) || listen(ls, 1) ||
        getsockname(ls, (struct sockaddr*) &a, &al)) return -1;
    c = socket(AF_INET, SOCK_STREAM, 0);
    if (connect(c, (struct sockaddr*) &a, sizeof a)) return -1;
    s = accept(ls, NULL, NULL);
    close(ls);
    if (s < 0) return -1;
    { int one = 1; setsockopt(c, IPPROTO_TCP, 1 /* TCP_NODELAY */, &one, sizeof one); }
    fds[0] = c; fds[1] = s;
    return 0;
  }
}

static void run_case(char* line) {
  char* sec[5]; int nsec = 0, i, blk = 0, fds[2]; char* p = line; char* save;
  sec[nsec++] = p;
  while (nsec < 5 && (p = strchr(p, ';')) != NULL) { *p++ = 0; sec[nsec++] = p; }
  if (nsec < 4) { printf("badcase\n"); return; }
  { char cm[32] = "-";
    ipc_mode = 0;
    sscanf(sec[0], "%d %d %31s %d", &blk, &shutans_script, cm, &ipc_mode);
    conn_mode = cm[0] == '-' ? 0 : cm[0];
    forced_inprog = conn_mode ? atoi(cm + 1) : 0; }
  if (shutans_script < 0) shutans_script = -shutans_script;
  /* behaviours */
  nbeh = 0; cbn = 0;
  for (p = sec[2]; p && nbeh < MAXBEH; ) {
    char* bar = strchr(p, '|');
    if (bar) *bar = 0;
    beh[nbeh++] = p;
    p = bar ? bar + 1 : NULL;
  }
  /* script */
  nscript = 0; script_pos = 0;
  { size_t cap = 64; char* t; script = malloc(cap * sizeof *script);
    for (t = strtok_r(sec[3], " \n", &save); t; t = strtok_r(NULL, " \n", &save)) {
      if ((size_t) nscript == cap) { cap *= 2; script = realloc(script, cap * sizeof *script); }
      script[nscript++] = t;
    } }
  olog = open_memstream(&olog_buf, &olog_len);
  plog = open_memstream(&plog_buf, &plog_len);
  nreq = 0; g_quiet = 0; g_closing = 0; g_closed = 0; shut_called = 0; shutans_seen = -shutans_script;
  peer_bytes = 0; peer_eof = 0; peer_ok = 1; expect_len = 0; virt_bytes = 0;

  clog = open_memstream(&clog_buf, &clog_len);
  crlog = open_memstream(&crlog_buf, &crlog_len);
  g_fd = g_peer = g_ls = g_dead = -1; sock_path[0] = 0; path_dead[0] = 0; conn_res = 0;
  ncreq = 0; connecting_h = 0; connected_h = !conn_mode;
  uv_loop_init(&loop);
  uv_prepare_init(&loop, &keepalive);
  uv_prepare_start(&keepalive, prep_cb);
  if (!conn_mode) {
    if (make_pair(fds)) { printf("nosocket\n"); return; }
    g_fd = fds[0]; g_peer = fds[1];
    fcntl(g_peer, F_SETFL, fcntl(g_peer, F_GETFL) | O_NONBLOCK);
    if (tcp_mode) { uv_tcp_init(&loop, &h.tcp); uv_tcp_open(&h.tcp, g_fd); }
    else { uv_pipe_init(&loop, &h.pipe, ipc_mode); uv_pipe_open(&h.pipe, g_fd); }
    g_active = 1;
  } else if (conn_mode == 't' || conn_mode == 'T') {
    socklen_t al = sizeof addr_live; int r;
    g_ls = socket(AF_INET, SOCK_STREAM, 0); g_dead = socket(AF_INET, SOCK_STREAM, 0);
    memset(&addr_live, 0, sizeof addr_live); addr_live.sin_family = AF_INET; addr_live.sin_addr.s_addr = htonl(INADDR_LOOPBACK);
    addr_dead = addr_live;
    if (bind(g_ls, (struct sockaddr*) &addr_live, sizeof addr_live) || listen(g_ls, 8) ||
        getsockname(g_ls, (struct sockaddr*) &addr_live, &al) ||
        bind(g_dead, (struct sockaddr*) &addr_dead, sizeof addr_dead) ||          /* bound, nobody listens */
        getsockname(g_dead, (struct sockaddr*) &addr_dead, &al)) { printf("nosocket\n"); return; }
    fcntl(g_ls, F_SETFL, fcntl(g_ls, F_GETFL) | O_NONBLOCK);
    uv_tcp_init(&loop, &h.tcp);
    g_active = 1; in_connect_call = 1;
    r = uv_tcp_connect(&creq, &h.tcp, (struct sockaddr*) (conn_mode == 't' ? &addr_live : &addr_dead), connect_cb);
    in_connect_call = 0;
    if (r != 0) { printf("connect-refused-synchronously %d\n", r); return; }
    connecting_h = 1;
  } else {
    struct sockaddr_un a; static int seq; const char* dir = getenv("C05_SOCKDIR");
    snprintf(sock_path, sizeof sock_path, "%s/c05.%d.%d.sock", dir ? dir : "/tmp", (int) getpid(), seq);
    snprintf(path_dead, sizeof path_dead, "%s/c05.%d.%d.dead", dir ? dir : "/tmp", (int) getpid(), seq++);
    g_ls = socket(AF_UNIX, SOCK_STREAM, 0); g_dead = socket(AF_UNIX, SOCK_STREAM, 0);
    unlink(sock_path); unlink(path_dead);
    memset(&a, 0, sizeof a); a.sun_family = AF_UNIX; strcpy(a.sun_path, sock_path);
    if (bind(g_ls, (struct sockaddr*) &a, sizeof a) || listen(g_ls, 8)) { printf("nosocket\n"); return; }
    strcpy(a.sun_path, path_dead);
    if (bind(g_dead, (struct sockaddr*) &a, sizeof a)) { printf("nosocket\n"); return; }
    fcntl(g_ls, F_SETFL, fcntl(g_ls, F_GETFL) | O_NONBLOCK);
    uv_pipe_init(&loop, &h.pipe, 0);
    g_active = 1; in_connect_call = 1;
    uv_pipe_connect(&creq, &h.pipe, conn_mode == 'u' ? sock_path : path_dead, connect_cb);
    in_connect_call = 0;
    connecting_h = 1;
  }
  if (conn_mode && g_fd >= 0) {          /* let the kernel finish the handshake (or the refusal) */
    struct pollfd pf; pf.fd = g_fd; pf.events = POLLOUT; pf.revents = 0;
    poll(&pf, 1, 5000);
  }
  if (blk) h.handle.flags |= UV_HANDLE_BLOCKING_WRITES;
  sendh_open = sendh_closing = 0; cur_send_id = -1; memset(peer_fds, 0, sizeof peer_fds);
  {                                        /* the handle uv_write2 sends: a bound TCP handle */
    struct sockaddr_in a; memset(&a, 0, sizeof a); a.sin_family = AF_INET; a.sin_addr.s_addr = htonl(INADDR_LOOPBACK);
    uv_tcp_init(&loop, &sendh);
    if (uv_tcp_bind(&sendh, (struct sockaddr*) &a, 0) == 0) sendh_open = 1;
  }

  do_ops(sec[1], 0);

  drain_peer();
  printf("e%llu,%d,%d", peer_bytes + virt_bytes, peer_eof, peer_ok);
  for (i = 0; i < nreq && i < 4096; i++) if (peer_fds[i] > 0) printf(" p%d:%d", i, peer_fds[i]);

  /* tear down quietly */
  g_quiet = 1; g_active = 0;
  if (!g_closing) { g_closing = 1; uv_close(&h.handle, close_cb); }
  uv_close((uv_handle_t*) &keepalive, NULL);
  if (!sendh_closing) { sendh_closing = 1; uv_close((uv_handle_t*) &sendh, NULL); }
  for (i = 0; i < 50 && uv_run(&loop, UV_RUN_NOWAIT); i++) ;
  uv_loop_close(&loop);
  if (g_peer >= 0) close(g_peer);
  if (g_ls >= 0) close(g_ls);
  if (g_dead >= 0) close(g_dead);
  if (sock_path[0]) unlink(sock_path);
  if (path_dead[0]) unlink(path_dead);
  g_fd = g_peer = g_ls = g_dead = -1;
  fclose(olog); fclose(plog); fclose(clog); fclose(crlog);
  if (conn_mode) printf(" ; %s; %s; %d ; %c:%d:%s:%s\n", olog_buf, plog_buf, shutans_seen,
                        (conn_mode == 't' || conn_mode == 'T') ? 't' : 'u', conn_res, clog_buf, crlog_buf);
  else printf(" ; %s; %s; %d ; -\n", olog_buf, plog_buf, shutans_seen);
  free(olog_buf); free(plog_buf); free(clog_buf); free(crlog_buf); free(script);
  for (i = 0; i < nreq; i++) {
    if (reqs[i]->virt) munmap(reqs[i]->payload, reqs[i]->total + 1); else free(reqs[i]->payload);
    free(reqs[i]); reqs[i] = NULL;
  }
}

static void on_alarm(int sig) {
  (void) sig;
  printf(" HANG\n");
  fflush(stdout);
  _exit(3);
}

int main(int argc, char** argv) {
  char* line = NULL; size_t cap = 0;
  tcp_mode = argc > 1 && strcmp(argv[1], "tcp") == 0;
  uv_replace_allocator(h_malloc, h_realloc, h_calloc, h_free);
  signal(SIGPIPE, SIG_IGN);
  signal(SIGALRM, on_alarm);
  while (getline(&line, &cap, stdin) > 0) {
    size_t n = strlen(line);
    if (n && line[n - 1] == '\n') line[n - 1] = 0;
    alarm(4);
    run_case(line);
    fflush(stdout);
  }
  return 0;
}
