/* C08: slow_work_thread_threshold() of the current threadpool.c (included textually) for the
 * pool sizes given on stdin ("<from> <to>" per line): one line "n:threshold" per size.  The pool
 * is never started; the static nthreads is set directly. */
#include "threadpool.c"
#include <stdio.h>

int main(void) {
  unsigned a, b, n;
  while (scanf("%u %u", &a, &b) == 2) {
    for (n = a; n <= b; n++) {
      nthreads = n;
      printf("%s%u:%u", n == a ? "" : " ", n, slow_work_thread_threshold());
    }
    printf("\n");
  }
  nthreads = 0;                        /* uv_library_shutdown() must not try to stop a pool */
  fflush(stdout);
  return 0;
}
