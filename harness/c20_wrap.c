/* C20 (a)(b)(c): the thin pthread wrappers of the freshly built libuv with the
 * pthread/libc layer scripted through --wrap.
 *   c20_wrap info                      -> "<pagesize> <PTHREAD_STACK_MIN> <glibc>"
 *   c20_wrap codes|stack|timed < cases -> one result line per case
 *   stack cases: "st page psm rl flag req" (uv_thread_create_ex), "tc page psm rl" (uv_thread_create),
 *   "ts page psm rl" (uv__thread_stack_size directly); rl = F (getrlimit fails) or the soft limit
 * Every case runs in a forked child so that abort() is an observable result. */
#include <stdio.h>
#include <stdlib.h>
#include <string.h>
#include <inttypes.h>
#include <errno.h>
#include <pthread.h>
#include <semaphore.h>
#include <signal.h>
#include <time.h>
#include <unistd.h>
#include <sys/wait.h>
#include <sys/resource.h>
#include <gnu/libc-version.h>
#include "uv.h"

/* ---- scripted answers ------------------------------------------------ */
static int scr_on;                 /* which family is scripted in this case */
static int scr_code;               /* single code */
static int scr_pairs[64][2], scr_npairs, scr_used;
static int ci_codes[4], ci_calls[16], ci_ncalls;
static long long g_page;           /* 0 = real */
static int rl_mode;                /* 0 real, 1 fail, 2 value */
static unsigned long long rl_value;
static size_t captured_stack; static int captured_set;
static int clk_on; static struct timespec clk_now;
static struct timespec tw_seen; static int tw_mode; static int tw_code;

int __real_pthread_mutex_trylock(pthread_mutex_t*);
int __wrap_pthread_mutex_trylock(pthread_mutex_t* m) {
  if (scr_on == 1) return scr_code;
  return __real_pthread_mutex_trylock(m);
}
int __real_pthread_rwlock_tryrdlock(pthread_rwlock_t*);
int __wrap_pthread_rwlock_tryrdlock(pthread_rwlock_t* m) {
  if (scr_on == 2) return scr_code;
  return __real_pthread_rwlock_tryrdlock(m);
}
int __real_pthread_rwlock_trywrlock(pthread_rwlock_t*);
int __wrap_pthread_rwlock_trywrlock(pthread_rwlock_t* m) {
  if (scr_on == 3) return scr_code;
  return __real_pthread_rwlock_trywrlock(m);
}
static int next_pair(void) {
  int r, e;
  if (scr_used >= scr_npairs) { errno = EINVAL; return -1; }   /* oracle exhausted: abort path */
  r = scr_pairs[scr_used][0]; e = scr_pairs[scr_used][1]; scr_used++;
  errno = e;
  return r;
}
int __real_sem_trywait(sem_t*);
int __wrap_sem_trywait(sem_t* s) {
  if (scr_on == 4) return next_pair();
  return __real_sem_trywait(s);
}
int __real_sem_wait(sem_t*);
int __wrap_sem_wait(sem_t* s) {
  if (scr_on == 5) return next_pair();
  return __real_sem_wait(s);
}
int __real_pthread_barrier_wait(pthread_barrier_t*);
int __wrap_pthread_barrier_wait(pthread_barrier_t* b) {
  if (scr_on == 6) return scr_code;
  return __real_pthread_barrier_wait(b);
}
/* uv_cond_init */
int __real_pthread_condattr_init(pthread_condattr_t*);
int __wrap_pthread_condattr_init(pthread_condattr_t* a) {
  if (scr_on == 7) { ci_calls[ci_ncalls++] = 1; if (ci_codes[0]) return ci_codes[0]; }
  return __real_pthread_condattr_init(a);
}
int __real_pthread_condattr_setclock(pthread_condattr_t*, clockid_t);
int __wrap_pthread_condattr_setclock(pthread_condattr_t* a, clockid_t c) {
  if (scr_on == 7) { ci_calls[ci_ncalls++] = 2; if (ci_codes[1]) return ci_codes[1]; }
  return __real_pthread_condattr_setclock(a, c);
}
int __real_pthread_cond_init(pthread_cond_t*, const pthread_condattr_t*);
int __wrap_pthread_cond_init(pthread_cond_t* c, const pthread_condattr_t* a) {
  if (scr_on == 7) { ci_calls[ci_ncalls++] = 3; if (ci_codes[2]) return ci_codes[2]; }
  return __real_pthread_cond_init(c, a);
}
int __real_pthread_condattr_destroy(pthread_condattr_t*);
int __wrap_pthread_condattr_destroy(pthread_condattr_t* a) {
  if (scr_on == 7) {
    int first = 1, i;
    for (i = 0; i < ci_ncalls; i++) if (ci_calls[i] == 4) first = 0;
    ci_calls[ci_ncalls++] = 4;
    if (first && ci_codes[3] && ci_ncalls == 4) { __real_pthread_condattr_destroy(a); return ci_codes[3]; }
  }
  return __real_pthread_condattr_destroy(a);
}
int __real_pthread_cond_destroy(pthread_cond_t*);
int __wrap_pthread_cond_destroy(pthread_cond_t* c) {
  if (scr_on == 7) ci_calls[ci_ncalls++] = 5;
  return __real_pthread_cond_destroy(c);
}
/* stack size */
int __real_getpagesize(void);
int __wrap_getpagesize(void) { return g_page ? (int) g_page : __real_getpagesize(); }
int __real_getrlimit64(int, struct rlimit64*);
int __wrap_getrlimit64(int res, struct rlimit64* l) {
  if (res == RLIMIT_STACK && rl_mode == 1) { errno = EINVAL; return -1; }
  if (res == RLIMIT_STACK && rl_mode == 2) { l->rlim_cur = rl_value; l->rlim_max = RLIM64_INFINITY; return 0; }
  return __real_getrlimit64(res, l);
}
int __real_pthread_attr_setstacksize(pthread_attr_t*, size_t);
int __wrap_pthread_attr_setstacksize(pthread_attr_t* a, size_t s) {
  captured_stack = s; captured_set = 1;
  return __real_pthread_attr_setstacksize(a, s);
}
/* clock + timed wait */
int __real_clock_gettime(clockid_t, struct timespec*);
int __wrap_clock_gettime(clockid_t id, struct timespec* ts) {
  if (clk_on && id == CLOCK_MONOTONIC) { *ts = clk_now; return 0; }
  return __real_clock_gettime(id, ts);
}
int __real_pthread_cond_timedwait(pthread_cond_t*, pthread_mutex_t*, const struct timespec*);
int __wrap_pthread_cond_timedwait(pthread_cond_t* c, pthread_mutex_t* m, const struct timespec* ts) {
  if (!clk_on) return __real_pthread_cond_timedwait(c, m, ts);
  tw_seen = *ts;
  if (tw_mode == 'S') return 0;
  if (tw_mode == 'T') {
    /* a condition variable nobody signals, on the virtual CLOCK_MONOTONIC */
    if (ts->tv_sec > clk_now.tv_sec || (ts->tv_sec == clk_now.tv_sec && ts->tv_nsec > clk_now.tv_nsec))
      clk_now = *ts;
    return ETIMEDOUT;
  }
  return tw_code;
}

/* ---- cases ------------------------------------------------------------ */
static size_t inthread_size; static int inthread_ok;
struct entry_ctx { int ran, arg_ok, finished; };
static struct entry_ctx ectx;
static void stack_entry(void* arg) {
  pthread_attr_t a; size_t sz = 0; void* addr;
  volatile char probe[256];
  probe[0] = 1; (void) probe;
  if (pthread_getattr_np(pthread_self(), &a) == 0) {
    if (pthread_attr_getstack(&a, &addr, &sz) == 0) { inthread_size = sz; inthread_ok = 1; }
    pthread_attr_destroy(&a);
  }
  ectx.ran += 1;
  ectx.arg_ok = (arg == (void*) &ectx);      /* the given argument */
  ectx.finished = 1;
}

static void codes_case(char* line) {
  char kind[8]; char* p = line; int n = 0;
  if (sscanf(p, "%7s%n", kind, &n) != 1) { printf("bad\n"); return; }
  p += n;
  if (!strcmp(kind, "mt")) {
    uv_mutex_t m; int r; uv_mutex_init(&m);
    scr_code = atoi(p); scr_on = 1; r = uv_mutex_trylock(&m); scr_on = 0;
    printf("%d\n", r);
  } else if (!strcmp(kind, "rr") || !strcmp(kind, "rw")) {
    uv_rwlock_t l; int r; uv_rwlock_init(&l);
    scr_code = atoi(p);
    if (kind[1] == 'r') { scr_on = 2; r = uv_rwlock_tryrdlock(&l); }
    else { scr_on = 3; r = uv_rwlock_trywrlock(&l); }
    scr_on = 0;
    printf("%d\n", r);
  } else if (!strcmp(kind, "st") || !strcmp(kind, "sw")) {
    uv_sem_t s; int r = 0, a, b, k;
    uv_sem_init(&s, 0);
    scr_npairs = 0; scr_used = 0;
    while (scr_npairs < 64 && sscanf(p, " %d,%d%n", &a, &b, &k) == 2) {
      scr_pairs[scr_npairs][0] = a; scr_pairs[scr_npairs][1] = b; scr_npairs++; p += k;
    }
    if (kind[1] == 't') { scr_on = 4; r = uv_sem_trywait(&s); }
    else { scr_on = 5; uv_sem_wait(&s); }
    scr_on = 0;
    printf("%d %d\n", r, scr_used);
  } else if (!strcmp(kind, "bw")) {
    uv_barrier_t b; int r; uv_barrier_init(&b, 1);
    scr_code = atoi(p); scr_on = 6; r = uv_barrier_wait(&b); scr_on = 0;
    printf("%d\n", r);
  } else if (!strcmp(kind, "ci")) {
    uv_cond_t c; int r, i;
    if (sscanf(p, "%d %d %d %d", &ci_codes[0], &ci_codes[1], &ci_codes[2], &ci_codes[3]) != 4) { printf("bad\n"); return; }
    ci_ncalls = 0; scr_on = 7; r = uv_cond_init(&c); scr_on = 0;
    printf("%d ", r);
    for (i = 0; i < ci_ncalls; i++) printf("%s%d", i ? "," : "", ci_calls[i]);
    printf("\n");
  } else printf("bad\n");
}

size_t uv__thread_stack_size(void);

static void stack_case(char* line) {
  char kind[8], rl[64]; long long page; unsigned long long psm, req; int flag;
  if (sscanf(line, "%7s", kind) != 1) { printf("bad\n"); return; }
  if (!strcmp(kind, "ts")) {
    if (sscanf(line, "%*s %lld %llu %63s", &page, &psm, rl) != 3) { printf("bad\n"); return; }
    g_page = page;
    if (rl[0] == 'F') rl_mode = 1; else { rl_mode = 2; rl_value = strtoull(rl, NULL, 10); }
    printf("%zu\n", uv__thread_stack_size());
    return;
  }
  if (!strcmp(kind, "tc")) {            /* uv_thread_create(): no options at all */
    if (sscanf(line, "%*s %lld %llu %63s", &page, &psm, rl) != 3) { printf("bad\n"); return; }
    flag = -1; req = 0;
  } else
  if (sscanf(line, "%*s %lld %llu %63s %d %llu", &page, &psm, rl, &flag, &req) != 5) { printf("bad\n"); return; }
  {
    uv_thread_t t; uv_thread_options_t o; int ran, rc, join_ok = 1;
    g_page = page;
    if (rl[0] == 'F') rl_mode = 1; else { rl_mode = 2; rl_value = strtoull(rl, NULL, 10); }
    o.flags = flag ? UV_THREAD_HAS_STACK_SIZE : UV_THREAD_NO_FLAGS;
    o.stack_size = (size_t) req;
    captured_set = 0; captured_stack = 0; inthread_ok = 0;
    memset(&ectx, 0, sizeof ectx);
    if (flag < 0) rc = uv_thread_create(&t, stack_entry, &ectx);
    else rc = uv_thread_create_ex(&t, &o, stack_entry, &ectx);
    if (rc == 0) { int jr = uv_thread_join(&t); join_ok = (jr == 0 && ectx.finished); }   /* join returns after the entry finished */
    ran = ectx.ran;
    /* <size applied (0 = no attribute)> <rc> <entry runs> <size seen by pthread_getattr_np in the thread> */
    /* "einval" = refused before anything was set up (no attribute, no thread) */
    if (!captured_set && rc == UV_EINVAL && !ran) printf("einval %d %d ", rc, ran);
    else printf("%zu %d %d ", captured_set ? captured_stack : (size_t) 0, rc, ran);
    if (inthread_ok) printf("%zu", inthread_size); else printf("-");
    /* <entry got the given argument> <uv_thread_join returned 0 after the entry finished> */
    printf(" %d %d\n", ran ? ectx.arg_ok : 1, join_ok);
  }
}

static void timed_case(char* line) {
  long long sec, nsec; unsigned long long timeout; char mode[32];
  uv_mutex_t m; uv_cond_t c; int r; uint64_t h0, h1;
  if (sscanf(line, "%lld %lld %llu %31s", &sec, &nsec, &timeout, mode) != 4) { printf("bad\n"); return; }
  uv_mutex_init(&m); uv_cond_init(&c);
  clk_now.tv_sec = sec; clk_now.tv_nsec = nsec; clk_on = 1;
  tw_mode = mode[0]; tw_code = mode[0] == 'E' ? atoi(mode + 1) : 0;
  uv_mutex_lock(&m);
  h0 = uv_hrtime();
  r = uv_cond_timedwait(&c, &m, (uint64_t) timeout);
  h1 = uv_hrtime();
  clk_on = 0;
  uv_mutex_unlock(&m);
  printf("%lld %ld %d %" PRIu64 "\n", (long long) tw_seen.tv_sec, (long) tw_seen.tv_nsec, r, h1 - h0);
}

int main(int argc, char** argv) {
  static char line[1 << 16];
  struct rlimit core = {0, 0};
  void (*f)(char*) = NULL;
  setrlimit(RLIMIT_CORE, &core);
  if (argc < 2) return 2;
  if (!strcmp(argv[1], "info")) {
    printf("%d %ld %s\n", __real_getpagesize(), (long) sysconf(_SC_THREAD_STACK_MIN), gnu_get_libc_version());
    return 0;
  }
  if (!strcmp(argv[1], "codes")) f = codes_case;
  if (!strcmp(argv[1], "stack")) f = stack_case;
  if (!strcmp(argv[1], "timed")) f = timed_case;
  if (!f) return 2;
  while (fgets(line, sizeof line, stdin)) {
    pid_t pid; int st;
    fflush(stdout);
    pid = fork();
    if (pid == 0) { alarm(10); f(line); fflush(stdout); _exit(0); }
    if (pid < 0 || waitpid(pid, &st, 0) < 0) { printf("forkfail\n"); continue; }
    if (WIFSIGNALED(st)) printf("%s\n", WTERMSIG(st) == SIGABRT ? "abort" : "crash");
  }
  return 0;
}
