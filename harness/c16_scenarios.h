/* C16 scenario catalogue (included by c16_faults.c).  Every scenario uses only the
 * public API (plus a few internal non-static functions in the unit scenarios),
 * reports every API return code / callback status through API()/cbev(), counts
 * the callbacks it still expects in [pend], and is robust against any call failing. */

static char big[1 << 20];
static uv_buf_t mkbuf(const char* s) { return uv_buf_init((char*) s, (unsigned) strlen(s)); }
static void alloc_cb(uv_handle_t* h, size_t sug, uv_buf_t* b) {
  static char slab[65536];
  (void) h; (void) sug;
  *b = uv_buf_init(slab, sizeof slab);
}

/* ---- 1. loop ------------------------------------------------------------- */
static void sc_loop(void) {
  if (loop_begin()) return;
  API("run", uv_run(&L, UV_RUN_NOWAIT));
  APIK("backend_fd", uv_backend_fd(&L));
  API("backend_timeout", uv_backend_timeout(&L) >= 0 ? 0 : -1);
  loop_end();
}

/* ---- 1b. uv_default_loop(): three rounds of "get the default loop, use it, close it".  A call that
   fails (NULL) is repeated once - the injected fault is over by then - and must then deliver a
   working loop: a failed uv_default_loop() leaves nothing behind. ------------------------------------ */
static int dl_fired;
static void dl_timer_cb(uv_timer_t* t) { (void) t; dl_fired++; }
static void sc_default_loop(void) {
  int round, rc;
  for (round = 0; round < 3; round++) {
    uv_loop_t* dl; static uv_timer_t dt;
    fi_api = "default_loop";
    dl = uv_default_loop();
    fi_api = "-";
    ev("default_loop=%s", dl ? "ok" : "ENULL");
    if (dl == NULL) {
      /* BROKEN only if no fault was injected into the retry itself: a fault shape that persists (LIMIT) or a
         second fault of a pair may legitimately make it fail again */
      int f0 = fi_fired;
      fi_api = "default_loop_retry";
      dl = uv_default_loop();
      fi_api = "-";
      ev("default_loop_retry=%s", dl ? "ok" : (fi_fired == f0 ? "BROKEN" : "ENULL"));
      if (dl == NULL) continue;
    }
    dl_fired = 0;
    fi_api = "use";
    rc = uv_timer_init(dl, &dt);
    if (rc == 0) rc = uv_timer_start(&dt, dl_timer_cb, 1, 0);
    if (rc == 0) uv_run(dl, UV_RUN_DEFAULT);
    ev("timer_fired=%d", dl_fired);
    uv_close((uv_handle_t*) &dt, NULL);
    uv_run(dl, UV_RUN_DEFAULT);
    rc = uv_loop_close(dl);
    fi_api = "-";
    ev("default_loop_close=%s", rc == 0 ? "0" : uv_err_name(rc));
  }
}

/* ---- 2. timer / idle / prepare / check / async ------------------------------ */
static uv_timer_t t1, t2; static uv_idle_t idl; static uv_prepare_t prep; static uv_check_t chk_;
static uv_async_t asy; static int idle_n;
static void t_cb(uv_timer_t* t) { cbev(t == &t1 ? "timer1" : "timer2", 0); pend--; }
static void idle_cb(uv_idle_t* h) { if (++idle_n == 3) { cbev("idle3", 0); uv_idle_stop(h); pend--; } }
static void prep_cb(uv_prepare_t* h) { cbev("prepare", 0); uv_prepare_stop(h); pend--; }
static void check_cb(uv_check_t* h) { cbev("check", 0); uv_check_stop(h); pend--; }
static void async_cb(uv_async_t* h) { (void) h; cbev("async", 0); pend--; }
static void sc_basic(void) {
  if (loop_begin()) return;
  API("timer_init", uv_timer_init(&L, &t1));
  uv_timer_init(&L, &t2);
  if (API("timer_start", uv_timer_start(&t1, t_cb, 1, 0)) == 0) pend++;
  if (API("timer_start", uv_timer_start(&t2, t_cb, 2, 0)) == 0) pend++;
  API("idle_init", uv_idle_init(&L, &idl));
  if (API("idle_start", uv_idle_start(&idl, idle_cb)) == 0) pend++;
  uv_prepare_init(&L, &prep);
  if (API("prepare_start", uv_prepare_start(&prep, prep_cb)) == 0) pend++;
  uv_check_init(&L, &chk_);
  if (API("check_start", uv_check_start(&chk_, check_cb)) == 0) pend++;
  if (API("async_init", uv_async_init(&L, &asy, async_cb)) == 0) {
    if (API("async_send", uv_async_send(&asy)) == 0) pend++;
    API("async_send", uv_async_send(&asy));
  }
  if (run_pending()) goto end;
  if (uv_is_active((uv_handle_t*) &asy) && API("async_send", uv_async_send(&asy)) == 0) { pend++; run_pending(); }
end:
  loop_end();
}

/* ---- 3./4./5. streams (tcp, pipe) ----------------------------------------------- */
struct st {
  union { uv_stream_t s; uv_tcp_t tcp; uv_pipe_t pipe; } srv, cli, acc;
  uv_connect_t creq; uv_write_t wreq[4]; uv_shutdown_t sreq, sreq2;
  int is_pipe, accepted, nread_acc, nread_cli, big, eof_cli, eof_acc;
  size_t want_acc; int want_cli, want_eof_acc, want_eof_cli;
};
static struct st S;
static void st_read_acc(uv_stream_t* s, ssize_t n, const uv_buf_t* b) {
  (void) b;
  if (n > 0) {
    S.nread_acc += (int) n;
    if (S.want_acc && (size_t) S.nread_acc >= S.want_acc) { ev("cb.read_acc=%d", S.nread_acc); S.want_acc = 0; pend--; }
    return;
  }
  if (n == 0) return;
  uv_read_stop(s);
  if (n == UV_EOF && S.want_eof_acc) { cbevx("read_acc", n); S.want_eof_acc = 0; pend--; }
  else cbev("read_acc", n);
}
static void st_read_cli(uv_stream_t* s, ssize_t n, const uv_buf_t* b) {
  (void) b;
  if (n > 0) { S.nread_cli += (int) n; if (S.want_cli && S.nread_cli >= S.want_cli) { ev("cb.read_cli=%d", S.nread_cli); S.want_cli = 0; pend--; } return; }
  if (n == 0) return;
  uv_read_stop(s);
  if (n == UV_EOF && S.want_eof_cli) { cbevx("read_cli", n); S.want_eof_cli = 0; pend--; }
  else cbev("read_cli", n);
}
static void st_write_cb(uv_write_t* r, int st) { cbev(r == &S.wreq[0] ? "write0" : r == &S.wreq[1] ? "write1" : "write2", st); pend--; }
static void st_shut_cb(uv_shutdown_t* r, int st) { cbev(r == &S.sreq ? "shutdown" : "shutdown2", st); pend--; }
static void st_conn_cb(uv_stream_t* srv, int st) {
  cbev("connection", st);
  if (st == 0 && !S.accepted) {
    if (S.is_pipe) uv_pipe_init(&L, &S.acc.pipe, 0); else uv_tcp_init(&L, &S.acc.tcp);
    if (API("accept", uv_accept(srv, &S.acc.s)) == 0) {
      S.accepted = 1;
      API("read_start_acc", uv_read_start(&S.acc.s, alloc_cb, st_read_acc));
    }
  }
  pend--;
}
static void st_connect_cb(uv_connect_t* r, int st) {
  cbev("connect", st);
  pend--;
  /* reading from the start: a connection the server sheds (EMFILE) shows up here as EOF/ECONNRESET */
  if (st == 0) API("read_start_cli", uv_read_start(r->handle, alloc_cb, st_read_cli));
}

static void stream_scenario(int is_pipe, int bigw) {
  struct sockaddr_in a; int len = sizeof a;
  uv_buf_t b[6];
  memset(&S, 0, sizeof S);
  S.is_pipe = is_pipe; S.big = bigw;
  if (loop_begin()) return;
  if (is_pipe) {
    API("pipe_init", uv_pipe_init(&L, &S.srv.pipe, 0));
    API("pipe_init", uv_pipe_init(&L, &S.cli.pipe, 0));
    if (API("pipe_bind", uv_pipe_bind(&S.srv.pipe, "p.sock"))) goto end;
  } else {
    API("tcp_init", uv_tcp_init(&L, &S.srv.tcp));
    API("tcp_init", uv_tcp_init(&L, &S.cli.tcp));
    uv_ip4_addr("127.0.0.1", 0, &a);
    if (API("tcp_bind", uv_tcp_bind(&S.srv.tcp, (struct sockaddr*) &a, 0))) goto end;
  }
  if (API("listen", uv_listen(&S.srv.s, 8, st_conn_cb))) goto end;
  if (!is_pipe) {
    if (API("getsockname", uv_tcp_getsockname(&S.srv.tcp, (struct sockaddr*) &a, &len))) goto end;
    API("nodelay", uv_tcp_nodelay(&S.cli.tcp, 1));
    API("keepalive", uv_tcp_keepalive(&S.cli.tcp, 1, 60));
    if (failed) goto end;
  }
  if (is_pipe) { api_begin("connect"); uv_pipe_connect(&S.creq, &S.cli.pipe, "p.sock", st_connect_cb); api_end("connect", 0, 0); pend += 2; }
  else if (API("connect", uv_tcp_connect(&S.creq, &S.cli.tcp, (struct sockaddr*) &a, st_connect_cb)) == 0) pend += 2;
  else goto end;
  /* queued behind the connect */
  b[0] = mkbuf("he"); b[1] = mkbuf("llo");
  if (API("write0", uv_write(&S.wreq[0], &S.cli.s, b, 2, st_write_cb)) == 0) { pend += 2; S.want_acc = 5; }
  if (run_pending() || !S.accepted) goto end;
  if (bigw) {
    /* 6 buffers (heap-allocated uv_buf_t array), large enough to fill the socket */
    int i; for (i = 0; i < 6; i++) b[i] = uv_buf_init(big, sizeof big / 2);
    S.want_acc = (size_t) S.nread_acc + 6 * (sizeof big / 2);
    if (API("write1", uv_write(&S.wreq[1], &S.cli.s, b, 6, st_write_cb)) == 0) pend += 2; else goto end;
    b[0] = mkbuf("x");
    if (APIX("try_write", uv_try_write(&S.cli.s, b, 1)) == 1) S.want_acc++;
    if (run_pending()) goto end;
  }
  b[0] = mkbuf("world");
  S.want_cli = 5;
  if (API("write2", uv_write(&S.wreq[2], &S.acc.s, b, 1, st_write_cb)) == 0) pend += 2; else goto end;
  if (run_pending()) goto end;
  S.want_cli = 10;
  if (APIX("try_write", uv_try_write(&S.acc.s, b, 1)) == 5) { pend++; if (run_pending()) goto end; }
  S.want_eof_acc = 1;
  if (API("shutdown", uv_shutdown(&S.sreq, &S.cli.s, st_shut_cb)) == 0) pend += 2; else goto end;  /* cb + EOF at acc */
  if (run_pending()) goto end;
  S.want_eof_cli = 1;
  if (API("shutdown2", uv_shutdown(&S.sreq2, &S.acc.s, st_shut_cb)) == 0) pend += 2; else goto end;
  run_pending();
end:
  loop_end();
}
static void sc_tcp(void) { stream_scenario(0, 0); }
static void sc_tcp_big(void) { stream_scenario(0, 1); }
static void sc_pipe(void) { stream_scenario(1, 0); }
static void sc_pipe_big(void) { stream_scenario(1, 1); }

/* ---- 6. tcp connect refused / open / simultaneous accepts ------------------------ */
static void refused_cb(uv_connect_t* r, int st) { (void) r; if (st == UV_ECONNREFUSED) cbevx("connect", st); else cbev("connect", st); pend--; }
static void sc_tcp_refused(void) {
  struct sockaddr_in a; int len = sizeof a; int fd;
  memset(&S, 0, sizeof S);
  if (loop_begin()) return;
  uv_tcp_init(&L, &S.srv.tcp); uv_tcp_init(&L, &S.cli.tcp);
  uv_ip4_addr("127.0.0.1", 0, &a);
  /* a bound, not listening socket: connecting to it is refused */
  if (API("tcp_bind", uv_tcp_bind(&S.srv.tcp, (struct sockaddr*) &a, 0)) == 0 &&
      API("getsockname", uv_tcp_getsockname(&S.srv.tcp, (struct sockaddr*) &a, &len)) == 0) {
    if (API("connect", uv_tcp_connect(&S.creq, &S.cli.tcp, (struct sockaddr*) &a, refused_cb)) == 0) pend++;
    run_pending();
  }
  APIX("tcp_init_ex", uv_tcp_init_ex(&L, &S.acc.tcp, AF_INET));
  fd = __real_socket(AF_INET, SOCK_STREAM, 0);
  if (fd >= 0) {
    uv_tcp_t* t = malloc(sizeof *t);
    uv_tcp_init(&L, t);
    if (APIX("tcp_open", uv_tcp_open(t, fd)) != 0) __real_syscall(SYS_close, fd);
    uv_close((uv_handle_t*) t, (uv_close_cb) free);
  }
  loop_end();
}

/* many connections: the watcher table grows (maybe_resize), accept loop, EMFILE handling */
#define NCONN 6
static uv_tcp_t mc_cli[NCONN], mc_acc[NCONN]; static uv_connect_t mc_req[NCONN]; static int mc_nacc;
static void mc_conn_cb(uv_stream_t* srv, int st) {
  cbev("connection", st);
  pend--;
  if (st == 0 && mc_nacc < NCONN) {
    uv_tcp_init(&L, &mc_acc[mc_nacc]);
    if (API("accept", uv_accept(srv, (uv_stream_t*) &mc_acc[mc_nacc])) == 0) mc_nacc++;
    else uv_close((uv_handle_t*) &mc_acc[mc_nacc], NULL);
  }
}
static void mc_read_cb(uv_stream_t* s, ssize_t n, const uv_buf_t* b) {
  (void) b;
  if (n < 0) { cbev("read_cli", n); uv_read_stop(s); }
}
static void mc_connect_cb(uv_connect_t* r, int st) {
  cbev("connect", st);
  pend--;
  if (st == 0) uv_read_start(r->handle, alloc_cb, mc_read_cb);
}
static void sc_tcp_many(void) {
  struct sockaddr_in a; int len = sizeof a, i;
  memset(&S, 0, sizeof S); mc_nacc = 0;
  if (loop_begin()) return;
  uv_tcp_init(&L, &S.srv.tcp);
  uv_ip4_addr("127.0.0.1", 0, &a);
  if (API("tcp_bind", uv_tcp_bind(&S.srv.tcp, (struct sockaddr*) &a, 0)) == 0 &&
      API("listen", uv_listen(&S.srv.s, 16, mc_conn_cb)) == 0 &&
      API("getsockname", uv_tcp_getsockname(&S.srv.tcp, (struct sockaddr*) &a, &len)) == 0) {
    for (i = 0; i < NCONN; i++) {
      uv_tcp_init(&L, &mc_cli[i]);
      if (API("connect", uv_tcp_connect(&mc_req[i], &mc_cli[i], (struct sockaddr*) &a, mc_connect_cb)) == 0) pend += 2;
    }
    run_pending();
  }
  loop_end();
}

/* ---- 6b. connect requests that fail early: synchronous error returns of uv_tcp_connect /
   uv_pipe_connect2 must leave active_reqs alone (api_end prints !r otherwise); errors that
   uv_pipe_connect defers are delivered through the callback exactly once -------------------- */
static uv_connect_t cf_req[5]; static uv_tcp_t cf_tcp[2]; static uv_pipe_t cf_pipe[3];
static void cf_cb(uv_connect_t* r, int st) {
  ev("cb.connect%d=%s", (int) (r - cf_req), st < 0 ? uv_err_name(st) : "0");
  pend--;
}
static void sc_connect_fail(void) {
  struct sockaddr_in a; struct sockaddr_in6 a6; char longname[200]; int rc;
  if (loop_begin()) return;
  uv_tcp_init(&L, &cf_tcp[0]); uv_tcp_init(&L, &cf_tcp[1]);
  uv_pipe_init(&L, &cf_pipe[0], 0); uv_pipe_init(&L, &cf_pipe[1], 0); uv_pipe_init(&L, &cf_pipe[2], 0);
  /* no route from a loopback-only sandbox: connect() fails at once (ENETUNREACH or the like) */
  uv_ip4_addr("203.0.113.1", 9, &a);
  rc = APIX("tcp_connect_unreachable", uv_tcp_connect(&cf_req[0], &cf_tcp[0], (struct sockaddr*) &a, cf_cb));
  if (rc == 0) pend++;
  /* socket already of the other family: synchronous error from connect() */
  uv_ip4_addr("127.0.0.1", 0, &a);
  if (APIX("tcp_bind", uv_tcp_bind(&cf_tcp[1], (struct sockaddr*) &a, 0)) == 0) {
    uv_ip6_addr("::1", 9, &a6);
    rc = APIX("tcp_connect_wrong_family", uv_tcp_connect(&cf_req[1], &cf_tcp[1], (struct sockaddr*) &a6, cf_cb));
    if (rc == 0) pend++;
  }
  /* name longer than sun_path with UV_PIPE_NO_TRUNCATE: synchronous UV_EINVAL of uv_pipe_connect2 */
  memset(longname, 'x', sizeof longname - 1); longname[sizeof longname - 1] = 0;
  rc = APIX("pipe_connect2_toolong", uv_pipe_connect2(&cf_req[2], &cf_pipe[0], longname, strlen(longname), UV_PIPE_NO_TRUNCATE, cf_cb));
  if (rc == 0) pend++;
  /* an empty name through uv_pipe_connect: the same early error, deferred to the callback */
  api_begin("pipe_connect_empty"); uv_pipe_connect(&cf_req[3], &cf_pipe[1], "", cf_cb); api_end("pipe_connect_empty", 0, 0); pend++;
  /* missing socket file: connect() fails at once, reported through the callback */
  api_begin("pipe_connect_missing"); uv_pipe_connect(&cf_req[4], &cf_pipe[2], "no-such.sock", cf_cb); api_end("pipe_connect_missing", 0, 0); pend++;
  ev("reqs_pending=%u", L.active_reqs.count);
  run_pending();
  ev("reqs_after=%u", L.active_reqs.count);
  loop_end();
}

/* ---- 7. udp ----------------------------------------------------------------------- */
static uv_udp_t u1, u2; static uv_udp_send_t us[4]; static int udp_got;
static void udp_send_cb(uv_udp_send_t* r, int st) { cbev(r == &us[0] ? "udp_send0" : r == &us[1] ? "udp_send1" : "udp_send2", st); pend--; }
static void udp_recv_cb(uv_udp_t* h, ssize_t n, const uv_buf_t* b, const struct sockaddr* a, unsigned fl) {
  (void) h; (void) b; (void) fl;
  if (n == 0 && a == NULL) return;
  if (n < 0) { cbev("udp_recv", n); return; }
  udp_got++;
  ev("cb.udp_recv=%ld", (long) n);
  pend--;
}
static void sc_udp(void) {
  struct sockaddr_in a; int len = sizeof a, i; uv_buf_t b[6];
  udp_got = 0;
  if (loop_begin()) return;
  API("udp_init", uv_udp_init(&L, &u1));
  if (API("udp_init_ex", uv_udp_init_ex(&L, &u2, AF_INET | UV_UDP_RECVMMSG))) goto end;
  uv_ip4_addr("127.0.0.1", 0, &a);
  if (API("udp_bind", uv_udp_bind(&u2, (struct sockaddr*) &a, 0)) ||
      API("udp_getsockname", uv_udp_getsockname(&u2, (struct sockaddr*) &a, &len)) ||
      API("udp_recv_start", uv_udp_recv_start(&u2, alloc_cb, udp_recv_cb))) goto end;
  for (i = 0; i < 6; i++) b[i] = mkbuf("ab");
  /* 6 buffers: heap-allocated uv_buf_t array; the first send also binds u1 */
  if (API("udp_send0", uv_udp_send(&us[0], &u1, b, 6, (struct sockaddr*) &a, udp_send_cb)) == 0) pend += 2; else goto end;
  if (API("udp_send1", uv_udp_send(&us[1], &u1, b, 1, (struct sockaddr*) &a, udp_send_cb)) == 0) pend += 2; else goto end;
  if (run_pending()) goto end;
  if (APIX("udp_try_send", uv_udp_try_send(&u1, b, 2, (struct sockaddr*) &a)) == 4) { pend++; if (run_pending()) goto end; }
  if (API("udp_connect", uv_udp_connect(&u1, (struct sockaddr*) &a))) goto end;
  if (API("udp_send2", uv_udp_send(&us[2], &u1, b, 1, NULL, udp_send_cb)) == 0) { pend += 2; if (run_pending()) goto end; }
  API("udp_recv_stop", uv_udp_recv_stop(&u2));
  API("send_queue", (int) uv_udp_get_send_queue_count(&u1));
end:
  loop_end();
}

/* ---- 8. fs, synchronous: every operation is independent ----------------------------- */
static void sc_fs_sync(void) {
  uv_fs_t r; uv_buf_t b[6]; int fd, i; char rb[64]; uv_dirent_t de; uv_dir_t* dir; uv_dirent_t ents[4];
  if (loop_begin()) return;
  fd = APIXK("fs_open", uv_fs_open(&L, &r, "f.txt", O_CREAT | O_RDWR, 0600, NULL)); uv_fs_req_cleanup(&r);
  if (fd >= 0) {
    for (i = 0; i < 6; i++) b[i] = mkbuf("data");
    APIX("fs_write", uv_fs_write(&L, &r, fd, b, 6, 0, NULL)); uv_fs_req_cleanup(&r);
    APIX("fs_write_cur", uv_fs_write(&L, &r, fd, b, 1, -1, NULL)); uv_fs_req_cleanup(&r);
    b[0] = uv_buf_init(rb, 10); b[1] = uv_buf_init(rb + 10, 10);
    APIX("fs_read", uv_fs_read(&L, &r, fd, b, 2, 0, NULL)); uv_fs_req_cleanup(&r);
    APIX("fs_read_cur", uv_fs_read(&L, &r, fd, b, 1, -1, NULL)); uv_fs_req_cleanup(&r);
    APIX("fs_fstat", uv_fs_fstat(&L, &r, fd, NULL)); uv_fs_req_cleanup(&r);
    APIX("fs_fsync", uv_fs_fsync(&L, &r, fd, NULL)); uv_fs_req_cleanup(&r);
    APIX("fs_ftruncate", uv_fs_ftruncate(&L, &r, fd, 8, NULL)); uv_fs_req_cleanup(&r);
    APIX("fs_close", uv_fs_close(&L, &r, fd, NULL)); uv_fs_req_cleanup(&r);
  }
  APIX("fs_stat", uv_fs_stat(&L, &r, "f.txt", NULL)); uv_fs_req_cleanup(&r);
  APIX("fs_lstat", uv_fs_lstat(&L, &r, "f.txt", NULL)); uv_fs_req_cleanup(&r);
  APIX("fs_access", uv_fs_access(&L, &r, "f.txt", R_OK, NULL)); uv_fs_req_cleanup(&r);
  APIX("fs_copyfile", uv_fs_copyfile(&L, &r, "f.txt", "g.txt", 0, NULL)); uv_fs_req_cleanup(&r);
  APIX("fs_rename", uv_fs_rename(&L, &r, "g.txt", "h.txt", NULL)); uv_fs_req_cleanup(&r);
  APIX("fs_symlink", uv_fs_symlink(&L, &r, "f.txt", "l.txt", 0, NULL)); uv_fs_req_cleanup(&r);
  APIX("fs_readlink", uv_fs_readlink(&L, &r, "l.txt", NULL)); uv_fs_req_cleanup(&r);
  APIX("fs_realpath", uv_fs_realpath(&L, &r, "l.txt", NULL)); uv_fs_req_cleanup(&r);
  APIX("fs_mkdir", uv_fs_mkdir(&L, &r, "d", 0700, NULL)); uv_fs_req_cleanup(&r);
  if (APIX("fs_scandir", uv_fs_scandir(&L, &r, ".", 0, NULL)) >= 0)
    while (uv_fs_scandir_next(&r, &de) != UV_EOF) {}
  uv_fs_req_cleanup(&r);
  if (APIX("fs_opendir", uv_fs_opendir(&L, &r, ".", NULL)) == 0) {
    dir = r.ptr; uv_fs_req_cleanup(&r);
    dir->dirents = ents; dir->nentries = 4;
    APIX("fs_readdir", uv_fs_readdir(&L, &r, dir, NULL)); uv_fs_req_cleanup(&r);
    APIX("fs_closedir", uv_fs_closedir(&L, &r, dir, NULL)); uv_fs_req_cleanup(&r);
  } else uv_fs_req_cleanup(&r);
  APIX("fs_rmdir", uv_fs_rmdir(&L, &r, "d", NULL)); uv_fs_req_cleanup(&r);
  APIX("fs_mkdtemp", uv_fs_mkdtemp(&L, &r, "tXXXXXX", NULL)); uv_fs_req_cleanup(&r);
  fd = APIXK("fs_mkstemp", uv_fs_mkstemp(&L, &r, "sXXXXXX", NULL)); uv_fs_req_cleanup(&r);
  if (fd >= 0) { APIX("fs_close", uv_fs_close(&L, &r, fd, NULL)); uv_fs_req_cleanup(&r); }
  APIX("fs_statfs", uv_fs_statfs(&L, &r, ".", NULL)); uv_fs_req_cleanup(&r);
  APIX("fs_utime", uv_fs_utime(&L, &r, "f.txt", 1.0, 2.0, NULL)); uv_fs_req_cleanup(&r);
  APIX("fs_chmod", uv_fs_chmod(&L, &r, "f.txt", 0600, NULL)); uv_fs_req_cleanup(&r);
  APIX("fs_unlink", uv_fs_unlink(&L, &r, "h.txt", NULL)); uv_fs_req_cleanup(&r);
  APIX("fs_unlink", uv_fs_unlink(&L, &r, "l.txt", NULL)); uv_fs_req_cleanup(&r);
  APIX("fs_unlink", uv_fs_unlink(&L, &r, "f.txt", NULL)); uv_fs_req_cleanup(&r);
  loop_end();
}

/* ---- 9. fs, through the thread pool --------------------------------------------------- */
static uv_fs_t fr; static int fs_res;
static void fs_cb(uv_fs_t* r) { fs_res = (int) r->result; pend--; }
static int fs_wait(const char* name, int rc, int keep) {
  if (rc < 0) { uv_fs_req_cleanup(&fr); return rc; }
  pend++;
  fs_res = UV_UNKNOWN;
  if (run_pending()) return UV_UNKNOWN;
  if (fs_res < 0) ev("cb.%s=%s", name, uv_err_name(fs_res)); else if (keep) ev("cb.%s=ok", name); else ev("cb.%s=%d", name, fs_res);
  if (!keep) uv_fs_req_cleanup(&fr);
  return fs_res;
}
static void sc_fs_async(void) {
  uv_buf_t b[6]; int fd, i; char rb[64]; uv_dirent_t de; uv_dir_t* dir; uv_dirent_t ents[4];
  if (loop_begin()) return;
  fd = fs_wait("fs_open", APIX("fs_open", uv_fs_open(&L, &fr, "f.txt", O_CREAT | O_RDWR, 0600, fs_cb)), 1); uv_fs_req_cleanup(&fr);
  if (fd >= 0) {
    for (i = 0; i < 6; i++) b[i] = mkbuf("data");
    fs_wait("fs_write", APIX("fs_write", uv_fs_write(&L, &fr, fd, b, 6, 0, fs_cb)), 0);
    b[0] = uv_buf_init(rb, 10); b[1] = uv_buf_init(rb + 10, 10);
    fs_wait("fs_read", APIX("fs_read", uv_fs_read(&L, &fr, fd, b, 2, 0, fs_cb)), 0);
    for (i = 0; i < 6; i++) b[i] = uv_buf_init(rb + i, 1);
    fs_wait("fs_read6", APIX("fs_read6", uv_fs_read(&L, &fr, fd, b, 6, 0, fs_cb)), 0);
    fs_wait("fs_fstat", APIX("fs_fstat", uv_fs_fstat(&L, &fr, fd, fs_cb)), 0);
    if (fs_wait("fs_close", APIX("fs_close", uv_fs_close(&L, &fr, fd, fs_cb)), 0) == UV_ENOMEM)
      __real_syscall(SYS_close, fd);       /* the request was refused: still ours */
  }
  fs_wait("fs_stat", APIX("fs_stat", uv_fs_stat(&L, &fr, "f.txt", fs_cb)), 0);
  fs_wait("fs_copyfile", APIX("fs_copyfile", uv_fs_copyfile(&L, &fr, "f.txt", "g.txt", 0, fs_cb)), 0);
  fs_wait("fs_rename", APIX("fs_rename", uv_fs_rename(&L, &fr, "g.txt", "h.txt", fs_cb)), 0);
  fs_wait("fs_readlink", APIX("fs_readlink", uv_fs_readlink(&L, &fr, "nolink", fs_cb)), 0);
  fs_wait("fs_realpath", APIX("fs_realpath", uv_fs_realpath(&L, &fr, "f.txt", fs_cb)), 0);
  fs_wait("fs_mkdir", APIX("fs_mkdir", uv_fs_mkdir(&L, &fr, "d", 0700, fs_cb)), 0);
  if (fs_wait("fs_scandir", APIX("fs_scandir", uv_fs_scandir(&L, &fr, ".", 0, fs_cb)), 1) >= 0)
    while (uv_fs_scandir_next(&fr, &de) != UV_EOF) {}
  uv_fs_req_cleanup(&fr);
  if (fs_wait("fs_opendir", APIX("fs_opendir", uv_fs_opendir(&L, &fr, ".", fs_cb)), 1) == 0) {
    dir = fr.ptr; uv_fs_req_cleanup(&fr);
    dir->dirents = ents; dir->nentries = 4;
    fs_wait("fs_readdir", APIX("fs_readdir", uv_fs_readdir(&L, &fr, dir, fs_cb)), 0);
    if (fs_wait("fs_closedir", APIX("fs_closedir", uv_fs_closedir(&L, &fr, dir, fs_cb)), 0) < 0) {
      /* the request never ran: the directory stream is still ours to release */
      uv_fs_t r2; uv_fs_closedir(&L, &r2, dir, NULL); uv_fs_req_cleanup(&r2);
    }
  } else uv_fs_req_cleanup(&fr);
  fs_wait("fs_rmdir", APIX("fs_rmdir", uv_fs_rmdir(&L, &fr, "d", fs_cb)), 0);
  fs_wait("fs_mkdtemp", APIX("fs_mkdtemp", uv_fs_mkdtemp(&L, &fr, "tXXXXXX", fs_cb)), 0);
  fs_wait("fs_unlink", APIX("fs_unlink", uv_fs_unlink(&L, &fr, "h.txt", fs_cb)), 0);
  fs_wait("fs_unlink", APIX("fs_unlink", uv_fs_unlink(&L, &fr, "f.txt", fs_cb)), 0);
  loop_end();
}

/* ---- 10. fs_event ----------------------------------------------------------------------- */
static uv_fs_event_t fe1, fe2; static int fe_n;
static void fe_cb(uv_fs_event_t* h, const char* fn, int events, int st) {
  (void) fn; (void) events;
  if (fe_n++ == 0) { cbev("fs_event", st); pend--; }
  uv_fs_event_stop(h);
}
static void touch(const char* p) {
  int fd = __real_open64(p, O_CREAT | O_WRONLY | O_TRUNC, 0600);
  if (fd >= 0) { if (__real_write(fd, "x", 1) < 0) {} __real_syscall(SYS_close, fd); }
}
static void sc_fs_event(void) {
  char buf[256]; size_t sz = sizeof buf;
  fe_n = 0;
  if (loop_begin()) return;
  mkdir("w", 0700);
  API("fs_event_init", uv_fs_event_init(&L, &fe1));
  API("fs_event_init", uv_fs_event_init(&L, &fe2));
  if (API("fs_event_start", uv_fs_event_start(&fe1, fe_cb, "w", 0)) == 0) {
    API("fs_event_getpath", uv_fs_event_getpath(&fe1, buf, &sz));
    /* second watcher on the same directory: same wd, shared watcher_list */
    APIX("fs_event_start2", uv_fs_event_start(&fe2, fe_cb, "w", 0));
    pend++;
    touch("w/a");
    if (run_pending()) goto end;
    API("fs_event_stop", uv_fs_event_stop(&fe1));
    API("fs_event_stop", uv_fs_event_stop(&fe2));
    API("fs_event_restart", uv_fs_event_start(&fe1, fe_cb, ".", 0));
  }
end:
  loop_end();
}

/* ---- 11. fs_poll --------------------------------------------------------------------------- */
static uv_fs_poll_t fp1; static int fp_n;
static void fp_cb(uv_fs_poll_t* h, int st, const uv_stat_t* p, const uv_stat_t* c) {
  (void) h; (void) p; (void) c;
  if (fp_n++ == 0) { if (st == UV_ENOENT) cbevx("fs_poll", st); else cbev("fs_poll", st); pend--; }
}
static void sc_fs_poll(void) {
  char buf[256]; size_t sz = sizeof buf;
  fp_n = 0;
  if (loop_begin()) return;
  API("fs_poll_init", uv_fs_poll_init(&L, &fp1));
  /* a missing file: the first stat reports ENOENT through the callback, then it re-arms */
  if (API("fs_poll_start", uv_fs_poll_start(&fp1, fp_cb, "missing", 5)) == 0) {
    API("fs_poll_getpath", uv_fs_poll_getpath(&fp1, buf, &sz));
    pend++;
    if (run_pending()) goto end;
    /* let the timer re-arm and a second stat run */
    uv_timer_init(&L, &t1);
    if (uv_timer_start(&t1, t_cb, 25, 0) == 0) { pend++; if (run_pending()) goto end; }
    API("fs_poll_stop", uv_fs_poll_stop(&fp1));
    API("fs_poll_restart", uv_fs_poll_start(&fp1, fp_cb, ".", 5));
  }
end:
  loop_end();
}

/* ---- 12. spawn -------------------------------------------------------------------------------- */
static uv_process_t proc; static uv_pipe_t pout, pin; static int sp_read;
static void exit_cb(uv_process_t* p, int64_t st, int sig) { (void) p; ev("cb.exit=%d/%d", (int) st, sig); pend--; }
static void sp_read_cb(uv_stream_t* s, ssize_t n, const uv_buf_t* b) {
  (void) b;
  if (n > 0) { sp_read += (int) n; return; }
  if (n == 0) return;
  ev("cb.child_out=%d", sp_read);
  if (n == UV_EOF) cbevx("child_eof", n); else cbev("child_eof", n);
  uv_read_stop(s);
  pend--;
}
static void spawn_scenario(const char* file, const char* mode, int nstdio, int expect_fail) {
  uv_process_options_t o; uv_stdio_container_t io[12]; char* args[5]; int i, rc;
  sp_read = 0;
  if (loop_begin()) return;
  memset(&o, 0, sizeof o);
  API("pipe_init", uv_pipe_init(&L, &pout, 0));
  API("pipe_init", uv_pipe_init(&L, &pin, 0));
  args[0] = (char*) file; args[1] = "--child"; args[2] = "7"; args[3] = (char*) mode; args[4] = NULL;
  o.file = file; o.args = args; o.exit_cb = exit_cb; o.stdio = io; o.stdio_count = nstdio;
  for (i = 0; i < nstdio; i++) io[i].flags = UV_IGNORE;
  io[0].flags = UV_CREATE_PIPE | UV_READABLE_PIPE; io[0].data.stream = (uv_stream_t*) &pin;
  io[1].flags = UV_CREATE_PIPE | UV_WRITABLE_PIPE; io[1].data.stream = (uv_stream_t*) &pout;
  io[2].flags = UV_INHERIT_FD; io[2].data.fd = 2;
  rc = expect_fail ? APIX("spawn", uv_spawn(&L, &proc, &o)) : API("spawn", uv_spawn(&L, &proc, &o));
  if (rc == 0) pend++;
  /* on failure the stdio streams may have been opened all the same: they are closed in the epilogue */
  if (rc == 0 || expect_fail) {
    if (uv_is_readable((uv_stream_t*) &pout) && API("read_start", uv_read_start((uv_stream_t*) &pout, alloc_cb, sp_read_cb)) == 0) pend++;
    if (rc == 0) API("process_kill0", uv_process_kill(&proc, 0));
    if (uv_is_writable((uv_stream_t*) &pin)) uv_close((uv_handle_t*) &pin, NULL);
    run_pending();
  }
  loop_end();
}
static void sc_spawn(void) { spawn_scenario(self_exe, "echo", 3, 0); }
static void sc_spawn_fail(void) { spawn_scenario("/nonexistent/program", "echo", 3, 1); }
static void sc_spawn_many(void) { spawn_scenario(self_exe, "cat", 10, 0); }

/* ---- 13. signal ------------------------------------------------------------------------------------ */
static uv_signal_t sg1, sg2;
static void sig_cb(uv_signal_t* h, int signum) { (void) signum; cbev(h == &sg1 ? "signal1" : "signal2", 0); pend--; }
static void sc_signal(void) {
  if (loop_begin()) return;
  API("signal_init", uv_signal_init(&L, &sg1));
  API("signal_init", uv_signal_init(&L, &sg2));
  if (API("signal_start", uv_signal_start(&sg1, sig_cb, SIGUSR1)) == 0) {
    if (API("signal_start_oneshot", uv_signal_start_oneshot(&sg2, sig_cb, SIGUSR2)) == 0) { pend++; kill(getpid(), SIGUSR2); }
    pend++;
    kill(getpid(), SIGUSR1);
    if (run_pending()) goto end;
    API("signal_stop", uv_signal_stop(&sg1));
    API("signal_restart", uv_signal_start(&sg1, sig_cb, SIGUSR1));
    API("signal_stop", uv_signal_stop(&sg1));
  }
end:
  loop_end();
}

/* ---- 13b. a signal whose delivery is hit by a fault on the write() inside uv__signal_handler
   (EAGAIN: the signal pipe is full and the signal is dropped; EINTR: retried), then the handle is
   closed.  The scenario does not wait for the callback: whether it arrived is reported as
   info.signal_delivered; what must hold is that the close completes and the loop can be closed. */
static int sgc_n, sgc_closed;
static void sgc_cb(uv_signal_t* h, int signum) { (void) h; (void) signum; sgc_n++; }
static void sgc_close_cb(uv_handle_t* h) { (void) h; sgc_closed = 1; pend--; }
static void sc_signal_close(void) {
  int i;
  sgc_n = sgc_closed = 0;
  if (loop_begin()) return;
  API("signal_init", uv_signal_init(&L, &sg1));
  if (API("signal_start", uv_signal_start(&sg1, sgc_cb, SIGUSR1)) == 0) {
    fi_api = "raise";
    kill(getpid(), SIGUSR1);          /* delivered synchronously: the handler runs here */
    fi_api = "-";
    for (i = 0; i < 3; i++) run_nowait(1);
    ev("info.signal_delivered=%d", sgc_n);
    fi_api = "raise";
    kill(getpid(), SIGUSR1);
    fi_api = "-";
    run_nowait(2);
    ev("info.signal_delivered2=%d", sgc_n);
    /* uv_close while a delivery may still be in the pipe */
    fi_api = "raise";
    kill(getpid(), SIGUSR1);
    fi_api = "-";
    api_begin("close_signal"); uv_close((uv_handle_t*) &sg1, sgc_close_cb); api_end("close_signal", 0, 0);
    pend++;
    run_pending();
    ev("close_cb=%d", sgc_closed);
  }
  loop_end();
}

/* ---- 6c. a server at its descriptor limit: connections are shed (uv__emfile_trick), every
   client is either accepted or disconnected, and the loop does not spin ------------------------ */
static int sh_done, sh_ok[NCONN];
static void sh_read_cb(uv_stream_t* s, ssize_t n, const uv_buf_t* b) {
  (void) b;
  if (n < 0) { cbevx("shed_client", n); uv_read_stop(s); sh_done++; pend--; }
}
static void sh_connect_cb(uv_connect_t* r, int st) {
  cbevx("connect", st);
  pend--;
  if (st == 0) uv_read_start(r->handle, alloc_cb, sh_read_cb);
  else { sh_done++; pend--; }
}
static void sh_conn_cb(uv_stream_t* srv, int st) {
  /* informational: a shed connection is never announced, and that is the designed behaviour */
  ev("info.connection=%s", st < 0 ? uv_err_name(st) : "0");
  if (st == 0 && mc_nacc < NCONN) {
    uv_tcp_init(&L, &mc_acc[mc_nacc]);
    /* accepted connections stay open: the server keeps sitting at its descriptor limit */
    if (APIX("info.accept", uv_accept(srv, (uv_stream_t*) &mc_acc[mc_nacc])) == 0) { mc_nacc++; sh_done++; pend--; }
    else uv_close((uv_handle_t*) &mc_acc[mc_nacc], NULL);
  }
}
static void sc_tcp_shed(void) {
  struct sockaddr_in a; int len = sizeof a, i, w;
  memset(&S, 0, sizeof S); mc_nacc = 0; sh_done = 0;
  if (loop_begin()) return;
  uv_tcp_init(&L, &S.srv.tcp);
  uv_ip4_addr("127.0.0.1", 0, &a);
  /* the clients' sockets exist before the server runs into its limit; they connect in three waves
     of two, so that a later wave finds the server after an earlier shedding episode */
  for (i = 0; i < NCONN; i++) sh_ok[i] = APIX("tcp_init_ex", uv_tcp_init_ex(&L, &mc_cli[i], AF_INET)) == 0;
  if (API("tcp_bind", uv_tcp_bind(&S.srv.tcp, (struct sockaddr*) &a, 0)) == 0 &&
      API("listen", uv_listen(&S.srv.s, 16, sh_conn_cb)) == 0 &&
      API("getsockname", uv_tcp_getsockname(&S.srv.tcp, (struct sockaddr*) &a, &len)) == 0) {
    for (w = 0; w < 3; w++) {
      for (i = 2 * w; i < 2 * w + 2; i++)
        if (sh_ok[i] && APIX("connect", uv_tcp_connect(&mc_req[i], &mc_cli[i], (struct sockaddr*) &a, sh_connect_cb)) == 0) pend += 2;
      if (run_pending()) break;
    }
    ev("resolved=%d", sh_done);
  }
  loop_end();
}

/* ---- 14. getaddrinfo / getnameinfo -------------------------------------------------------------------- */
static uv_getaddrinfo_t gai; static uv_getnameinfo_t gni;
static void gai_cb(uv_getaddrinfo_t* r, int st, struct addrinfo* res) { (void) r; cbev("getaddrinfo", st); uv_freeaddrinfo(res); pend--; }
static void gni_cb(uv_getnameinfo_t* r, int st, const char* h, const char* s) { (void) r; (void) h; (void) s; cbev("getnameinfo", st); pend--; }
static void sc_dns(void) {
  struct addrinfo hints; struct sockaddr_in a; int rc;
  if (loop_begin()) return;
  memset(&hints, 0, sizeof hints);
  hints.ai_flags = AI_NUMERICHOST | AI_NUMERICSERV; hints.ai_family = AF_INET; hints.ai_socktype = SOCK_STREAM;
  if (APIX("getaddrinfo", uv_getaddrinfo(&L, &gai, gai_cb, "127.0.0.1", "80", &hints)) == 0) { pend++; if (run_pending()) goto end; }
  rc = APIX("getaddrinfo_sync", uv_getaddrinfo(&L, &gai, NULL, "127.0.0.1", NULL, &hints));
  if (rc == 0) uv_freeaddrinfo(gai.addrinfo);
  /* a non-ASCII name goes through IDNA first; numeric-host makes the lookup itself fail fast */
  rc = APIX("getaddrinfo_idna", uv_getaddrinfo(&L, &gai, NULL, "b\xc3\xbc" "cher.example", NULL, &hints));
  if (rc == 0) uv_freeaddrinfo(gai.addrinfo);
  uv_ip4_addr("127.0.0.1", 80, &a);
  if (APIX("getnameinfo", uv_getnameinfo(&L, &gni, gni_cb, (struct sockaddr*) &a, NI_NUMERICHOST | NI_NUMERICSERV)) == 0) { pend++; if (run_pending()) goto end; }
  APIX("getnameinfo_sync", uv_getnameinfo(&L, &gni, NULL, (struct sockaddr*) &a, NI_NUMERICHOST | NI_NUMERICSERV));
end:
  loop_end();
}

/* ---- 15. os getters ---------------------------------------------------------------------------------------- */
static void sc_os(void) {
  uv_env_item_t* items; int n; char buf[1024]; size_t sz; uv_passwd_t pw; uv_utsname_t un; uv_group_t gr;
  if (APIX("os_environ", uv_os_environ(&items, &n)) == 0) { ev("environ_n=%s", n > 3 ? "ok" : "few"); uv_os_free_environ(items, n); }
  sz = sizeof buf; APIX("os_getenv", uv_os_getenv("C16_VAR", buf, &sz));
  APIX("os_setenv", uv_os_setenv("C16_VAR2", "x"));
  APIX("os_unsetenv", uv_os_unsetenv("C16_VAR2"));
  sz = sizeof buf; APIX("cwd", uv_cwd(buf, &sz));
  sz = sizeof buf; APIX("os_homedir", uv_os_homedir(buf, &sz));
  sz = sizeof buf; APIX("os_tmpdir", uv_os_tmpdir(buf, &sz));
  sz = sizeof buf; APIX("os_gethostname", uv_os_gethostname(buf, &sz));
  sz = sizeof buf; APIX("exepath", uv_exepath(buf, &sz));
  if (APIX("os_get_passwd", uv_os_get_passwd(&pw)) == 0) uv_os_free_passwd(&pw);
  if (APIX("os_get_passwd2", uv_os_get_passwd2(&pw, 0)) == 0) uv_os_free_passwd(&pw);
  if (APIX("os_get_group", uv_os_get_group(&gr, 0)) == 0) uv_os_free_group(&gr);
  APIX("os_uname", uv_os_uname(&un));
  APIX("chdir", uv_chdir("."));
  unsetenv("HOME");
  sz = sizeof buf; APIX("os_homedir_pw", uv_os_homedir(buf, &sz));
}

/* ---- 16. queue_work / cancel / random ------------------------------------------------------------------------ */
static uv_work_t wk[3]; static uv_random_t rnd;
static void work_cb(uv_work_t* w) { (void) w; }
static void after_cb(uv_work_t* w, int st) { cbev(w == &wk[0] ? "work0" : w == &wk[1] ? "work1" : "work2", st); pend--; }
static void rnd_cb(uv_random_t* r, int st, void* b, size_t n) { (void) r; (void) b; (void) n; cbev("random", st); pend--; }
static void sc_work(void) {
  char b[16];
  if (loop_begin()) return;
  if (API("queue_work", uv_queue_work(&L, &wk[0], work_cb, after_cb)) == 0) pend++;
  if (API("queue_work", uv_queue_work(&L, &wk[1], work_cb, after_cb)) == 0) pend++;
  if (run_pending()) goto end;
  APIX("random_sync", uv_random(NULL, NULL, b, sizeof b, 0, NULL));
  if (API("random", uv_random(&L, &rnd, b, sizeof b, 0, rnd_cb)) == 0) { pend++; run_pending(); }
end:
  loop_end();
}

/* ---- 16b. thread-pool start-up with UV_THREADPOOL_SIZE = <arg> in a fresh process: the worker
   table is heap-allocated above 4 threads and falls back to the 4 static slots when that
   allocation fails.  More work items than threads are queued; every item must run and complete
   exactly once; the number of worker threads is read from /proc/self/task. ------------------------ */
#define POOL_MAXW 140
static uv_work_t pw_req[POOL_MAXW]; static _Atomic int pw_ran[POOL_MAXW]; static int pw_after[POOL_MAXW];
static int count_tasks(void) {
  DIR* d = __real_opendir("/proc/self/task"); struct dirent* e; int n = 0;
  if (!d) return -1;
  while ((e = readdir(d)) != NULL) if (e->d_name[0] != '.') n++;
  closedir(d);
  return n;
}
static void pw_work(uv_work_t* w) { pw_ran[w - pw_req]++; }
static void pw_done(uv_work_t* w, int st) { pw_after[w - pw_req]++; if (st) cbev("pool_work", st); pend--; }
static void sc_pool(void) {
  char val[16]; int n = scen_arg > 0 ? scen_arg : 4, items, i, t0, ok = 0, dup = 0, on;
  snprintf(val, sizeof val, "%d", n);
  setenv("UV_THREADPOOL_SIZE", val, 1);
  items = n + 5 < POOL_MAXW ? n + 5 : POOL_MAXW;
  memset(pw_after, 0, sizeof pw_after);
  for (i = 0; i < POOL_MAXW; i++) pw_ran[i] = 0;
  if (loop_begin()) return;
  on = fi_on; fi_on = 0; t0 = count_tasks(); fi_on = on;
  /* the first uv_queue_work starts the pool */
  if (API("queue_work", uv_queue_work(&L, &pw_req[0], pw_work, pw_done)) == 0) {
    pend++;
    on = fi_on; fi_on = 0; ev("info.workers=%d", count_tasks() - t0); fi_on = on;
    for (i = 1; i < items; i++)
      if (API("queue_work", uv_queue_work(&L, &pw_req[i], pw_work, pw_done)) == 0) pend++;
    run_pending();
    for (i = 0; i < items; i++) {
      if (pw_ran[i] == 1 && pw_after[i] == 1) ok++;
      if (pw_ran[i] > 1 || pw_after[i] > 1) dup++;
    }
    ev("items=%d", items);
    ev("completed_once=%d", ok);
    ev("duplicated=%d", dup);
  }
  loop_end();
}

/* ---- 17. uv_pipe / uv_socketpair / pipe_open / poll handle ------------------------------------------------------ */
static uv_poll_t pl; static uv_pipe_t po1, po2;
static void poll_cb(uv_poll_t* h, int st, int events) { cbev("poll", st < 0 ? st : events); uv_poll_stop(h); pend--; }
static void sc_pairs(void) {
  uv_file f[2]; uv_os_sock_t s[2]; uv_buf_t b; int k;
  if (loop_begin()) return;
  if (APIX("pipe", uv_pipe(f, UV_NONBLOCK_PIPE, UV_NONBLOCK_PIPE)) == 0) {
    uv_pipe_init(&L, &po1, 0); uv_pipe_init(&L, &po2, 0);
    k = APIX("pipe_open", uv_pipe_open(&po1, f[0]));
    if (k != 0) __real_syscall(SYS_close, f[0]);
    k = APIX("pipe_open", uv_pipe_open(&po2, f[1]));
    if (k != 0) __real_syscall(SYS_close, f[1]);
    else {
      b = mkbuf("ping");
      APIX("try_write", uv_try_write((uv_stream_t*) &po2, &b, 1));
    }
  }
  if (APIX("socketpair", uv_socketpair(SOCK_STREAM, 0, s, UV_NONBLOCK_PIPE, UV_NONBLOCK_PIPE)) == 0) {
    if (APIX("poll_init", uv_poll_init_socket(&L, &pl, s[0])) == 0) {
      if (API("poll_start", uv_poll_start(&pl, UV_READABLE | UV_WRITABLE, poll_cb)) == 0) { pend++; run_pending(); }
      uv_close((uv_handle_t*) &pl, NULL);
      run_nowait(2);
    }
    __real_syscall(SYS_close, s[0]); __real_syscall(SYS_close, s[1]);
  }
  loop_end();
}

/* ---- 18. ipc: handle passing over a pipe pair (uv_write2 + accept of the queued fd) ---------------------------------- */
static uv_pipe_t ipa, ipb; static uv_tcp_t ipt, iprecv; static uv_write_t ipw; static int ip_got;
static void ip_write_cb(uv_write_t* r, int st) { (void) r; cbev("write2", st); pend--; }
static void ip_read_cb(uv_stream_t* s, ssize_t n, const uv_buf_t* b) {
  (void) b;
  if (n == 0) return;
  if (n < 0) { cbev("ipc_read", n); uv_read_stop(s); return; }
  ev("cb.ipc_read=%ld", (long) n);
  while (uv_pipe_pending_count((uv_pipe_t*) s) > 0) {
    uv_handle_type t = uv_pipe_pending_type((uv_pipe_t*) s);
    ev("pending_type=%s", uv_handle_type_name(t));
    uv_tcp_init(&L, &iprecv);
    if (API("accept_ipc", uv_accept(s, (uv_stream_t*) &iprecv)) != 0) break;
  }
  if (!ip_got) { ip_got = 1; pend--; }
}
static void sc_ipc(void) {
  uv_os_sock_t s[2]; struct sockaddr_in a; uv_buf_t b; int k;
  ip_got = 0;
  if (loop_begin()) return;
  if (API("socketpair", uv_socketpair(SOCK_STREAM, 0, s, UV_NONBLOCK_PIPE, UV_NONBLOCK_PIPE)) == 0) {
    uv_pipe_init(&L, &ipa, 1); uv_pipe_init(&L, &ipb, 1);
    k = API("pipe_open", uv_pipe_open(&ipa, s[0])); if (k) __real_syscall(SYS_close, s[0]);
    { int k2 = API("pipe_open", uv_pipe_open(&ipb, s[1])); if (k2) __real_syscall(SYS_close, s[1]); k |= k2; }
    uv_tcp_init(&L, &ipt);
    uv_ip4_addr("127.0.0.1", 0, &a);
    if (k == 0 && API("tcp_bind", uv_tcp_bind(&ipt, (struct sockaddr*) &a, 0)) == 0 &&
        API("read_start", uv_read_start((uv_stream_t*) &ipb, alloc_cb, ip_read_cb)) == 0) {
      b = mkbuf("fd!");
      if (API("write2", uv_write2(&ipw, (uv_stream_t*) &ipa, &b, 1, (uv_stream_t*) &ipt, ip_write_cb)) == 0) { pend += 2; run_pending(); }
    }
  }
  loop_end();
}

/* ---- 19. system information ----------------------------------------------------------------------------------------- */
static void sc_sysinfo(void) {
  uv_interface_address_t* ia; int n; uv_cpu_info_t* ci; double up; size_t rss; uv_rusage_t ru; double la[3];
  char name[64]; size_t sz = sizeof name; uv_lib_t lib;
  if (APIX("interface_addresses", uv_interface_addresses(&ia, &n)) == 0) { ev("ifaces=%s", n > 0 ? "some" : "none"); uv_free_interface_addresses(ia, n); }
  if (APIX("cpu_info", uv_cpu_info(&ci, &n)) == 0) { ev("cpus=%s", n > 0 ? "some" : "none"); uv_free_cpu_info(ci, n); }
  APIX("uptime", uv_uptime(&up));
  APIX("resident_set_memory", uv_resident_set_memory(&rss));
  APIX("getrusage", uv_getrusage(&ru));
  uv_loadavg(la);
  /* no error channel: informational only */
  ev("info.free_memory=%s", uv_get_free_memory() > 0 ? "pos" : "zero");
  ev("info.constrained=%s", uv_get_constrained_memory() >= 0 ? "ok" : "neg");
  ev("info.available=%s", uv_get_available_memory() > 0 ? "pos" : "zero");
  ev("info.parallelism=%s", uv_available_parallelism() > 0 ? "pos" : "zero");
  APIX("if_indextoname", uv_if_indextoname(1, name, &sz));
  if (APIX("dlopen_missing", uv_dlopen("/nonexistent.so", &lib)) != 0) { ev("dlerror=%s", uv_dlerror(&lib)[0] ? "text" : "empty"); }
  uv_dlclose(&lib);
  APIX("hrtime", uv_hrtime() > 0 ? 0 : -1);
}

/* ---- 20. unit scenarios of the modelled entry points ------------------------------------------------------------------
 * Set-up runs without injection, then exactly one API call runs inside the armed
 * region; the ledger delta across the call is printed in the model's format:
 *    U:<name> rc=<code> dr=<active_reqs> dh=<active_handles> dq=<handle_queue length> dm=<live allocations> df=<open fds>
 */
static int hq_len(void) {
  struct uv__queue* q; int n = 0;
  uv__queue_foreach(q, &L.handle_queue) n++;
  return n;
}
static int nfds(void) { int f[256]; int on = fi_on, n; fi_on = 0; n = fd_snapshot(f, 256); fi_on = on; return n; }
struct ledger { int r, h, q, m, f, w; };
static struct ledger led(void) {
  struct ledger l;
  l.r = (int) L.active_reqs.count; l.h = (int) L.active_handles; l.q = hq_len(); l.m = (int) fi_live; l.f = nfds(); l.w = kwatches();
  return l;
}
static void unit_report(const char* name, int rc, struct ledger a, struct ledger b, const char* extra) {
  ev("U:%s rc=%s dr=%d dh=%d dq=%d dm=%d df=%d dw=%d%s", name, rc < 0 ? uv_err_name(rc) : "0",
     b.r - a.r, b.h - a.h, b.q - a.q, b.m - a.m, b.f - a.f, b.w - a.w, extra);
}
#define ARM(name) do { fi_api = name; fi_armed = 1; } while (0)
#define DISARM() do { fi_armed = 0; fi_api = "-"; } while (0)

static int unit_begin(void) {
  int r;
  fi_on = 0;
  r = uv_loop_init(&L);
  if (r) return r;
  loop_ok = 1;
  uv_timer_init(&L, &wd); uv_timer_start(&wd, wd_cb, 1500, 0); uv_unref((uv_handle_t*) &wd); wd_on = 1;
  return 0;
}

/* uv_write2 with <arg> buffers (default 6) on a connected, writable socketpair end */
static void su_write2(void) {
  uv_os_sock_t s[2]; uv_buf_t b[6]; int i, rc; struct ledger a, z; int nb = scen_arg >= 1 && scen_arg <= 6 ? scen_arg : 6;
  if (unit_begin()) return;
  if (uv_socketpair(SOCK_STREAM, 0, s, UV_NONBLOCK_PIPE, UV_NONBLOCK_PIPE)) return;
  uv_pipe_init(&L, &po1, 0); uv_pipe_open(&po1, s[0]);
  for (i = 0; i < 6; i++) b[i] = mkbuf("ab");
  fi_on = 1; a = led(); ARM("write2");
  rc = uv_write(&ipw, (uv_stream_t*) &po1, b, nb, ip_write_cb);
  DISARM(); z = led();
  unit_report("write2", rc, a, z, "");
  if (rc == 0) { pend++; run_pending(); }
  __real_syscall(SYS_close, s[1]);
  loop_end();
}
/* uv_udp_send with 6 buffers on a bound socket */
static void su_udp_send(void) {
  struct sockaddr_in a4; int len = sizeof a4, i, rc; uv_buf_t b[6]; struct ledger a, z; int nb = scen_arg >= 1 && scen_arg <= 6 ? scen_arg : 6;
  if (unit_begin()) return;
  uv_udp_init(&L, &u1); uv_udp_init(&L, &u2);
  uv_ip4_addr("127.0.0.1", 0, &a4);
  uv_udp_bind(&u2, (struct sockaddr*) &a4, 0); uv_udp_getsockname(&u2, (struct sockaddr*) &a4, &len);
  uv_udp_bind(&u1, (struct sockaddr*) &(struct sockaddr_in){.sin_family = AF_INET, .sin_addr.s_addr = htonl(INADDR_LOOPBACK)}, 0);
  for (i = 0; i < 6; i++) b[i] = mkbuf("ab");
  fi_on = 1; a = led(); ARM("udp_send");
  rc = uv_udp_send(&us[0], &u1, b, nb, (struct sockaddr*) &a4, udp_send_cb);
  DISARM(); z = led();
  unit_report("udp_send", rc, a, z, "");
  if (rc == 0) { pend++; run_pending(); }
  loop_end();
}
static void su_fs_poll_start(void) {
  int rc; struct ledger a, z;
  fp_n = 0;
  if (unit_begin()) return;
  uv_fs_poll_init(&L, &fp1);
  fi_on = 1; a = led(); ARM("fs_poll_start");
  rc = uv_fs_poll_start(&fp1, fp_cb, "missing", 5);
  DISARM(); z = led();
  unit_report("fs_poll_start", rc, a, z, "");
  if (rc == 0) { pend++; run_pending(); }
  loop_end();
}
static void su_os_environ(void) {
  uv_env_item_t* items; int n, rc; struct ledger a, z; char extra[64];
  extern char** environ;
  static char* small_env[] = {"A=1", "noequals", "B=2", "C=3", NULL};
  char** saved = environ;
  memset(&L, 0, sizeof L);
  environ = small_env;
  fi_on = 1; a.m = (int) fi_live; ARM("os_environ");
  rc = uv_os_environ(&items, &n);
  DISARM(); z.m = (int) fi_live;
  environ = saved;
  snprintf(extra, sizeof extra, " count=%d items=%s", n, items ? "set" : "null");
  a.r = a.h = a.q = a.f = a.w = z.r = z.h = z.q = z.f = z.w = 0;
  unit_report("os_environ", rc, a, z, extra);
  if (rc == 0) uv_os_free_environ(items, n);
}
static void su_fs_event_start(void) {
  int rc; struct ledger a, z; char extra[64];
  fe_n = 0;
  if (unit_begin()) return;
  mkdir("w", 0700); mkdir("w2", 0700);
  uv_fs_event_init(&L, &fe1); uv_fs_event_init(&L, &fe2);
  /* arg 1: inotify already open (another directory watched); arg 2: same directory already watched */
  if (scen_arg == 1) uv_fs_event_start(&fe2, fe_cb, "w2", 0);
  if (scen_arg == 2) uv_fs_event_start(&fe2, fe_cb, "w", 0);
  fi_on = 1; a = led(); ARM("fs_event_start");
  rc = uv_fs_event_start(&fe1, fe_cb, "w", 0);
  DISARM(); z = led();
  snprintf(extra, sizeof extra, " inotify=%s", L.inotify_fd >= 0 ? "open" : "none");
  unit_report("fs_event_start", rc, a, z, extra);
  loop_end();
}
static void su_getaddrinfo(void) {
  struct addrinfo hints; int rc; struct ledger a, z;
  if (unit_begin()) return;
  memset(&hints, 0, sizeof hints);
  hints.ai_flags = AI_NUMERICHOST; hints.ai_family = AF_INET;
  /* prime the thread pool outside the armed region */
  if (uv_queue_work(&L, &wk[0], work_cb, after_cb) == 0) { pend++; run_pending(); }
  fi_on = 1; a = led(); ARM("getaddrinfo");
  rc = uv_getaddrinfo(&L, &gai, gai_cb, "127.0.0.1", "80", &hints);
  DISARM(); z = led();
  unit_report("getaddrinfo", rc, a, z, "");
  if (rc == 0) { pend++; run_pending(); }
  loop_end();
}
static void su_fs_path(void) {
  int rc; struct ledger a, z;
  if (unit_begin()) return;
  if (uv_queue_work(&L, &wk[0], work_cb, after_cb) == 0) { pend++; run_pending(); }
  fi_on = 1; a = led();
  if (scen_arg == 0) {
    ARM("fs_stat");
    rc = uv_fs_stat(&L, &fr, "missing", fs_cb);
    DISARM(); z = led();
    unit_report("fs_stat", rc, a, z, "");
  } else {
    ARM("fs_rename");
    rc = uv_fs_rename(&L, &fr, "missing", "missing2", fs_cb);
    DISARM(); z = led();
    unit_report("fs_rename", rc, a, z, "");
  }
  if (rc == 0) { pend++; run_pending(); }
  uv_fs_req_cleanup(&fr);
  loop_end();
}
/* uv_spawn with 10 stdio slots (heap-allocated pipes array), two of them pipes */
static void su_spawn(void) {
  uv_process_options_t o; uv_stdio_container_t io[10]; char* args[5]; int i, rc; struct ledger a, z;
  sp_read = 0;
  if (unit_begin()) return;
  memset(&o, 0, sizeof o);
  uv_pipe_init(&L, &pout, 0); uv_pipe_init(&L, &pin, 0);
  args[0] = self_exe; args[1] = "--child"; args[2] = "7"; args[3] = "echo"; args[4] = NULL;
  o.file = self_exe; o.args = args; o.exit_cb = exit_cb; o.stdio = io; o.stdio_count = scen_arg >= 2 && scen_arg <= 10 ? scen_arg : 10;
  for (i = 0; i < 10; i++) io[i].flags = UV_IGNORE;
  io[0].flags = UV_CREATE_PIPE | UV_READABLE_PIPE; io[0].data.stream = (uv_stream_t*) &pin;
  io[1].flags = UV_CREATE_PIPE | UV_WRITABLE_PIPE; io[1].data.stream = (uv_stream_t*) &pout;
  {
    /* SIGCHLD is held back so that libuv's signal handler (which makes wrapped calls itself)
       cannot run inside the armed region */
    sigset_t blk, old;
    sigemptyset(&blk); sigaddset(&blk, SIGCHLD);
    pthread_sigmask(SIG_BLOCK, &blk, &old);
    fi_on = 1; a = led(); ARM("spawn");
    rc = uv_spawn(&L, &proc, &o);
    DISARM(); z = led();
    pthread_sigmask(SIG_SETMASK, &old, NULL);
  }
  {
    char extra[64];
    snprintf(extra, sizeof extra, " active=%d in=%d out=%d", uv_is_active((uv_handle_t*) &proc) ? 1 : 0,
             uv_is_writable((uv_stream_t*) &pin), uv_is_readable((uv_stream_t*) &pout));
    unit_report("spawn", rc, a, z, extra);
  }
  if (uv_is_active((uv_handle_t*) &proc)) pend++;
  run_pending();
  loop_end();
}
/* uv_loop_init of the first loop of the process */
static void su_loop_init(void) {
  int rc; struct ledger a, z; int m0, f0;
  memset(&a, 0, sizeof a); memset(&z, 0, sizeof z);
  fi_on = 1; m0 = (int) fi_live; f0 = nfds(); ARM("loop_init");
  rc = uv_loop_init(&L);
  DISARM();
  if (rc == 0) { loop_ok = 1; z = led(); z.m -= m0; z.f -= f0; }
  else { z.m = (int) fi_live - m0; z.f = nfds() - f0; }
  unit_report("loop_init", rc, a, z, "");
  if (rc == 0) {
    uv_timer_init(&L, &wd); uv_timer_start(&wd, wd_cb, 1500, 0); uv_unref((uv_handle_t*) &wd); wd_on = 1;
    loop_end();
  }
}
/* retry loops: uv__accept on a listening socket with one pending connection */
static void su_accept(void) {
  int ls, cs, rc; struct sockaddr_in a4; socklen_t len = sizeof a4; struct ledger a, z;
  if (unit_begin()) return;
  ls = __real_socket(AF_INET, SOCK_STREAM | SOCK_NONBLOCK, 0);
  memset(&a4, 0, sizeof a4); a4.sin_family = AF_INET; a4.sin_addr.s_addr = htonl(INADDR_LOOPBACK);
  if (ls < 0 || bind(ls, (struct sockaddr*) &a4, sizeof a4) || listen(ls, 4) || getsockname(ls, (struct sockaddr*) &a4, &len)) return;
  cs = __real_socket(AF_INET, SOCK_STREAM, 0);
  if (cs < 0 || __real_connect(cs, (struct sockaddr*) &a4, sizeof a4)) return;
  fi_on = 1; a = led(); ARM("accept");
  rc = uv__accept(ls);
  DISARM(); z = led();
  unit_report("accept", rc < 0 ? rc : 0, a, z, "");
  if (rc >= 0) __real_syscall(SYS_close, rc);
  __real_syscall(SYS_close, ls); __real_syscall(SYS_close, cs);
  loop_end();
}
/* uv_async_send -> uv__async_send's write loop; then the loop drains it (uv__async_io read loop) */
static void su_async(void) {
  int rc; struct ledger a, z;
  if (unit_begin()) return;
  uv_async_init(&L, &asy, async_cb);
  fi_on = 1; a = led(); ARM("async_send");
  rc = uv_async_send(&asy);
  DISARM(); z = led();
  unit_report("async_send", rc, a, z, "");
  pend++;
  run_pending();
  loop_end();
}
/* the read loop of uv__async_io: only the read() calls of the loop thread consume answers */
static void su_async_io(void) {
  if (unit_begin()) return;
  uv_async_init(&L, &asy, async_cb);
  uv_async_send(&asy);
  pend++;
  fi_on = 1; fi_only = "read"; ARM("async_io");
  run_pending();
  DISARM(); fi_only = NULL;
  ev("U:async_io rc=0");
  loop_end();
}
/* uv__signal_event: one signal in the pipe */
static void su_signal_event(void) {
  if (unit_begin()) return;
  uv_signal_init(&L, &sg1);
  uv_signal_start(&sg1, sig_cb, SIGUSR1);
  kill(getpid(), SIGUSR1);
  pend++;
  fi_on = 1; fi_only = "read"; ARM("signal_event");
  run_pending();
  DISARM(); fi_only = NULL;
  ev("U:signal_event rc=0");
  loop_end();
}
/* uv__close_nocheckstdio */
static void su_close(void) {
  int fd, rc; struct ledger a, z;
  if (unit_begin()) return;
  fd = __real_open64("/dev/null", O_RDONLY);
  fi_on = 1; a = led(); ARM("close");
  rc = uv__close(fd);
  DISARM(); z = led();
  unit_report("close", rc, a, z, "");
  loop_end();
}

#define SCENARIOS \
  {"loop", sc_loop}, {"default_loop", sc_default_loop}, {"basic", sc_basic}, {"tcp", sc_tcp}, {"tcp_big", sc_tcp_big}, {"pipe", sc_pipe}, \
  {"pipe_big", sc_pipe_big}, {"tcp_refused", sc_tcp_refused}, {"tcp_many", sc_tcp_many}, {"connect_fail", sc_connect_fail}, {"udp", sc_udp}, \
  {"fs_sync", sc_fs_sync}, {"fs_async", sc_fs_async}, {"fs_event", sc_fs_event}, {"fs_poll", sc_fs_poll}, \
  {"spawn", sc_spawn}, {"spawn_fail", sc_spawn_fail}, {"spawn_many", sc_spawn_many}, {"signal", sc_signal}, {"signal_close", sc_signal_close}, {"tcp_shed", sc_tcp_shed}, \
  {"dns", sc_dns}, {"os", sc_os}, {"work", sc_work}, {"pool", sc_pool}, {"pairs", sc_pairs}, {"ipc", sc_ipc}, {"sysinfo", sc_sysinfo}, \
  {"u_write2", su_write2}, {"u_udp_send", su_udp_send}, {"u_fs_poll_start", su_fs_poll_start}, \
  {"u_os_environ", su_os_environ}, {"u_fs_event_start", su_fs_event_start}, {"u_getaddrinfo", su_getaddrinfo}, \
  {"u_fs_path", su_fs_path}, {"u_spawn", su_spawn}, {"u_accept", su_accept}, {"u_async", su_async}, {"u_close", su_close}, {"u_loop_init", su_loop_init}, {"u_async_io", su_async_io}, {"u_signal_event", su_signal_event},
