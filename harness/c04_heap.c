/* C04 (a): src/heap-inl.h compiled straight into the harness.  One case per
 * input line: "i<key>,<id> r<id> q ...".  After every operation prints
 * "<nelts>:<min id>:<level-order ids>," exactly like ocaml/drv_c04.ml. */
#include <stdio.h>
#include <stdlib.h>
#include <string.h>
#include "heap-inl.h"

struct item { struct heap_node n; int key; int id; };
#define MAXID 4096
static struct item items[MAXID];

static int less_than(const struct heap_node* a, const struct heap_node* b) {
  return ((const struct item*) a)->key < ((const struct item*) b)->key;
}

static struct heap_node* at(struct heap* h, unsigned k) {
  /* node at heap position k (1-based), following the bits of k below the top bit */
  struct heap_node* n = h->min;
  int bit;
  for (bit = 31; bit >= 0 && !((k >> bit) & 1); bit--);
  for (bit--; bit >= 0 && n != NULL; bit--)
    n = ((k >> bit) & 1) ? n->right : n->left;
  return n;
}

static void dump(struct heap* h) {
  unsigned k;
  struct heap_node* m = heap_min(h);
  printf("%u:", h->nelts);
  if (m) printf("%d:", ((struct item*) m)->id); else printf("-:");
  for (k = 1; k <= h->nelts; k++) {
    struct heap_node* n = at(h, k);
    if (n) {
      /* structural sanity of the pointer tree: parent links */
      struct heap_node* p = k > 1 ? at(h, k / 2) : NULL;
      if (n->parent != p) printf("!");
      printf("%d,", ((struct item*) n)->id);
    } else printf("-,");
  }
  printf(" ");
}

int main(void) {
  static char line[1 << 16];
  while (fgets(line, sizeof line, stdin)) {
    struct heap h;
    char* tok;
    heap_init(&h);
    for (tok = strtok(line, " \n"); tok; tok = strtok(NULL, " \n")) {
      int k, id;
      if (tok[0] == 'i' && sscanf(tok + 1, "%d,%d", &k, &id) == 2) {
        items[id].key = k; items[id].id = id;
        heap_insert(&h, &items[id].n, less_than);
      } else if (tok[0] == 'r' && sscanf(tok + 1, "%d", &id) == 1) {
        heap_remove(&h, &items[id].n, less_than);
      } else if (tok[0] == 'q') {
        heap_dequeue(&h, less_than);
      }
      dump(&h);
    }
    printf("\n");
  }
  return 0;
}
