/* C18 (idna.c part): the real uv__utf8_decode1, uv__idna_toascii and the four
 * WTF-8/UTF-16 functions of the freshly built libuv.a, one case per input
 * line, same canonical output as ocaml/drv_c18_idna.ml.
 *
 *   u8       <hex>                          -> <code> <consumed>
 *   u8blk    <hexprefix|-> <k> <alpha|*>    -> <h1> <h2> <naccepted>
 *   idna     <cap> <hex|->                  -> <rc> <hex of dest, trailing AA trimmed|-> g<guard>
 *   idnablk  <lo> <hi> <cap> <pre|-> <suf|-> -> <h1> <h2> <nok>
 *   w16      <L|Z> <cap> <hex4 units|->     -> len=.. alloc=.. buf=.. null=.. back=..
 *   w8       <hex|->                        -> <len|-1> <hex4 units|->
 *   w8abort  <hex>                          -> runs uv_wtf8_to_utf16 once (debug build: may abort)
 */
#include <stdio.h>
#include <stdlib.h>
#include <string.h>
#include <stdint.h>
#include "uv.h"
#include "uv-common.h"
#include "idna.h"

#define GUARD 32
#define FILL 0xAA
#define MAXLINE (1 << 20)

static unsigned char inbuf[MAXLINE];
static char line[MAXLINE];

static int hexval(int c) {
  if (c >= '0' && c <= '9') return c - '0';
  if (c >= 'a' && c <= 'f') return c - 'a' + 10;
  if (c >= 'A' && c <= 'F') return c - 'A' + 10;
  return -1;
}

static size_t parse_hex(const char* s, unsigned char* out) {
  size_t n = 0;
  if (s[0] == '-') return 0;
  while (hexval(s[0]) >= 0 && hexval(s[1]) >= 0) {
    out[n++] = (unsigned char) (hexval(s[0]) * 16 + hexval(s[1]));
    s += 2;
  }
  return n;
}

static uint64_t h1, h2;
static void hreset(void) { h1 = 0; h2 = 0; }
static void hadd(uint64_t x) {
  h1 = (h1 * 31 + x + 1) % 1000000007ULL;
  h2 = (h2 * 131 + x + 7) % 998244353ULL;
}

/* ---- UTF-8 ---------------------------------------------------------- */
static void do_u8(const unsigned char* b, size_t n, unsigned* code, size_t* used) {
  /* exact-size heap copy so that an over-read is an out-of-bounds read */
  char* m = malloc(n ? n : 1);
  const char* p;
  memcpy(m, b, n);
  p = m;
  *code = uv__utf8_decode1(&p, m + n);
  *used = (size_t) (p - m);
  free(m);
}

static void mode_u8(char* l) {
  size_t n = parse_hex(l, inbuf), used;
  unsigned code;
  do_u8(inbuf, n, &code, &used);
  printf("%u %zu\n", code, used);
}

static void mode_u8blk(char* l) {
  char pre[64], alpha[1024];
  unsigned char a[256], seq[16];
  int k, i, idx[8];
  size_t np, na, nacc = 0;
  if (sscanf(l, "%63s %d %1023s", pre, &k, alpha) != 3) { printf("bad\n"); return; }
  np = parse_hex(pre, seq);
  if (alpha[0] == '*') { for (i = 0; i < 256; i++) a[i] = (unsigned char) i; na = 256; }
  else na = parse_hex(alpha, a);
  for (i = 0; i < k; i++) idx[i] = 0;
  hreset();
  for (;;) {
    unsigned code; size_t used;
    const char* p = (const char*) seq;
    for (i = 0; i < k; i++) seq[np + i] = a[idx[i]];
    code = uv__utf8_decode1(&p, (const char*) seq + np + k);
    used = (size_t) (p - (const char*) seq);
    hadd(code); hadd(used);
    if (code != (unsigned) -1) nacc++;
    for (i = k - 1; i >= 0; i--) {
      if (++idx[i] < (int) na) break;
      idx[i] = 0;
    }
    if (i < 0) break;
  }
  printf("%llu %llu %zu\n", (unsigned long long) h1, (unsigned long long) h2, nacc);
}

/* ---- IDNA ----------------------------------------------------------- */
static unsigned char* dest_area;
static size_t dest_area_sz;

static long run_idna(const unsigned char* in, size_t n, size_t cap, unsigned char** dst, int* guard) {
  size_t need = cap + 2 * GUARD, i;
  char* src;
  long rc;
  if (need > dest_area_sz) { dest_area = realloc(dest_area, need); dest_area_sz = need; }
  memset(dest_area, FILL, need);
  src = malloc(n ? n : 1);
  memcpy(src, in, n);
  rc = (long) uv__idna_toascii(src, src + n, (char*) dest_area + GUARD, (char*) dest_area + GUARD + cap);
  free(src);
  *guard = 0;
  for (i = 0; i < GUARD; i++)
    if (dest_area[i] != FILL || dest_area[GUARD + cap + i] != FILL) *guard = 1;
  *dst = dest_area + GUARD;
  return rc;
}

static size_t trimmed(const unsigned char* d, size_t cap) {
  while (cap > 0 && d[cap - 1] == FILL) cap--;
  return cap;
}

static void mode_idna(char* l) {
  unsigned long cap; char* sp; size_t n, m, i; unsigned char* d; int g; long rc;
  cap = strtoul(l, &sp, 10);
  while (*sp == ' ') sp++;
  n = parse_hex(sp, inbuf);
  rc = run_idna(inbuf, n, cap, &d, &g);
  m = trimmed(d, cap);
  printf("%ld ", rc);
  if (m == 0) printf("-");
  for (i = 0; i < m; i++) printf("%02x", d[i]);
  printf(" g%d\n", g);
}

static size_t utf8_enc(unsigned cp, unsigned char* o) {
  if (cp < 0x80) { o[0] = cp; return 1; }
  if (cp < 0x800) { o[0] = 0xC0 | (cp >> 6); o[1] = 0x80 | (cp & 63); return 2; }
  if (cp < 0x10000) { o[0] = 0xE0 | (cp >> 12); o[1] = 0x80 | ((cp >> 6) & 63); o[2] = 0x80 | (cp & 63); return 3; }
  o[0] = 0xF0 | (cp >> 18); o[1] = 0x80 | ((cp >> 12) & 63); o[2] = 0x80 | ((cp >> 6) & 63); o[3] = 0x80 | (cp & 63);
  return 4;
}

static void mode_idnablk(char* l) {
  unsigned long lo, hi, cap, cp; char pre[1024], suf[1024];
  unsigned char bp[512], bs[512]; size_t np, ns, nok = 0;
  if (sscanf(l, "%lu %lu %lu %1023s %1023s", &lo, &hi, &cap, pre, suf) != 5) { printf("bad\n"); return; }
  np = parse_hex(pre, bp); ns = parse_hex(suf, bs);
  hreset();
  for (cp = lo; cp < hi; cp++) {
    size_t n, m, i; unsigned char* d; int g; long rc;
    if (cp >= 0xD800 && cp <= 0xDFFF) continue;
    memcpy(inbuf, bp, np);
    n = np + utf8_enc((unsigned) cp, inbuf + np);
    memcpy(inbuf + n, bs, ns); n += ns;
    rc = run_idna(inbuf, n, cap, &d, &g);
    m = trimmed(d, cap);
    hadd((uint64_t) (rc + 1000));
    for (i = 0; i < m; i++) hadd(d[i]);
    hadd(256 + (uint64_t) g);
    if (rc >= 0) nok++;
  }
  printf("%llu %llu %zu\n", (unsigned long long) h1, (unsigned long long) h2, nok);
}

/* ---- UTF-16 / WTF-8 -------------------------------------------------- */
static size_t parse_units(const char* s, uint16_t* out) {
  size_t n = 0;
  if (s[0] == '-') return 0;
  while (hexval(s[0]) >= 0 && hexval(s[1]) >= 0 && hexval(s[2]) >= 0 && hexval(s[3]) >= 0) {
    out[n++] = (uint16_t) ((hexval(s[0]) << 12) | (hexval(s[1]) << 8) | (hexval(s[2]) << 4) | hexval(s[3]));
    s += 4;
  }
  return n;
}

static void print_bytes(const unsigned char* b, size_t n) {
  size_t i;
  if (n == 0) printf("-");
  for (i = 0; i < n; i++) printf("%02x", b[i]);
}

static void mode_w16(char* l) {
  static uint16_t units[MAXLINE / 4 + 4];
  char mode; unsigned long cap; int off = 0; size_t n, i;
  uint16_t* w; ssize_t len; size_t tl; int rc; char* t; unsigned char* area; int g;
  if (sscanf(l, " %c %lu %n", &mode, &cap, &off) < 2) { printf("bad\n"); return; }
  n = parse_units(l + off, units);
  /* exact-size copy; Z: terminator; L: a low surrogate behind the end, never to be read */
  w = malloc((n + 1) * sizeof(uint16_t));
  memcpy(w, units, n * sizeof(uint16_t));
  w[n] = (mode == 'Z') ? 0 : 0xDC00;
  len = (mode == 'Z') ? -1 : (ssize_t) n;

  printf("len=%zu", uv_utf16_length_as_wtf8(w, len));

  /* allocation by the library */
  t = NULL; tl = 12345;
  rc = uv_utf16_to_wtf8(w, len, &t, &tl);
  printf(" alloc=%d,%zu,", rc, tl);
  if (rc == 0 && t != NULL) print_bytes((unsigned char*) t, tl + 1); else printf("-");

  /* caller's buffer of cap (+1 for the NUL) bytes between guards */
  area = malloc(cap + 1 + 2 * GUARD);
  memset(area, FILL, cap + 1 + 2 * GUARD);
  {
    char* tb = (char*) area + GUARD; size_t tbl = cap;
    rc = uv_utf16_to_wtf8(w, len, &tb, &tbl);
    g = 0;
    for (i = 0; i < GUARD; i++)
      if (area[i] != FILL || area[GUARD + cap + 1 + i] != FILL) g = 1;
    printf(" buf=%d,%zu,", rc, tbl);
    print_bytes(area + GUARD, cap + 1);
    printf(",g%d", g);
  }
  free(area);

  /* length only */
  tl = 12345;
  rc = uv_utf16_to_wtf8(w, len, NULL, &tl);
  printf(" null=%d,%zu", rc, tl);

  /* and back */
  if (t != NULL) {
    ssize_t wl = uv_wtf8_length_as_utf16(t);
    printf(" back=%zd,", wl);
    if (wl >= 0) {
      uint16_t* back = malloc((wl + 2 * GUARD) * sizeof(uint16_t));
      for (i = 0; i < (size_t) wl + 2 * GUARD; i++) back[i] = 0xAAAA;
      uv_wtf8_to_utf16(t, back + GUARD, wl);
      g = 0;
      for (i = 0; i < GUARD; i++) if (back[i] != 0xAAAA || back[GUARD + wl + i] != 0xAAAA) g = 1;
      if (wl == 0) printf("-");
      for (i = 0; i < (size_t) wl; i++) printf("%04x", back[GUARD + i]);
      printf(",g%d", g);
      free(back);
    } else printf("-,g0");
    uv__free(t);
  } else printf(" back=none");
  printf("\n");
  free(w);
}

static void mode_w8(char* l, int abort_mode) {
  size_t n = parse_hex(l, inbuf), i;
  char* s = malloc(n + 1);
  ssize_t wl;
  memcpy(s, inbuf, n); s[n] = 0;
  wl = uv_wtf8_length_as_utf16(s);
  printf("%zd ", wl);
  if (wl >= 0) {
    uint16_t* back = malloc((wl + 2 * GUARD) * sizeof(uint16_t));
    int g = 0;
    for (i = 0; i < (size_t) wl + 2 * GUARD; i++) back[i] = 0xAAAA;
    if (abort_mode) fflush(stdout);
    uv_wtf8_to_utf16(s, back + GUARD, wl);
    for (i = 0; i < GUARD; i++) if (back[i] != 0xAAAA || back[GUARD + wl + i] != 0xAAAA) g = 1;
    if (wl == 0) printf("-");
    for (i = 0; i < (size_t) wl; i++) printf("%04x", back[GUARD + i]);
    printf(" g%d", g);
    free(back);
  } else printf("- g0");
  printf("\n");
  free(s);
}

int main(int argc, char** argv) {
  const char* mode = argc > 1 ? argv[1] : "";
  while (fgets(line, sizeof line, stdin)) {
    size_t n = strlen(line);
    while (n > 0 && (line[n - 1] == '\n' || line[n - 1] == '\r')) line[--n] = 0;
    if (!strcmp(mode, "u8")) mode_u8(line);
    else if (!strcmp(mode, "u8blk")) mode_u8blk(line);
    else if (!strcmp(mode, "idna")) mode_idna(line);
    else if (!strcmp(mode, "idnablk")) mode_idnablk(line);
    else if (!strcmp(mode, "w16")) mode_w16(line);
    else if (!strcmp(mode, "w8")) mode_w8(line, 0);
    else if (!strcmp(mode, "w8abort")) mode_w8(line, 1);
    else { printf("bad mode\n"); return 2; }
  }
  return 0;
}
