/* C13: uv_signal_t of the freshly built libuv driven by scripts, with real
 * signals and the real kernel dispositions (sigaction), one pthread per loop.
 * Case (one line):  <cap> ; op op ... ; beh0 | beh1 | ...      (see ocaml/drv_c13.ml)
 *   I<l> uv_signal_init on loop l      S<h>,<sig> uv_signal_start
 *   O<h>,<sig> uv_signal_start_oneshot T<h> uv_signal_stop   C<h> uv_close
 *   R<l> uv_run(loop l, UV_RUN_NOWAIT)   U<l> uv_stop(loop l)
 *   J<h> uv_signal_init again on slot h (same loop) once its close_cb has run: the memory of a
 *        closed handle is used for a new handle
 *   K<sig>[,<t>[,<m>]] deliver sig to thread t (0..NLOOPS-1 = the loop threads, NLOOPS = the
 *       script thread; default: the thread executing the script) unless the disposition is not
 *       a handler; m = 0: raise() executed on t, m = 1: pthread_kill(t) from the current thread
 * beh k = what the k-th signal callback of the case does.
 *
 * Threads: every loop is created, used and run on its own pthread.  The loop threads park on a
 * semaphore; the script thread (main) posts one command at a time and waits for it, so exactly one
 * thread runs at any moment (the script is the schedule).  uv_signal_init/start/stop/close of a
 * handle are executed on the thread of the handle's loop, also when the script of a callback
 * running on another loop's thread asks for them.  Every callback records whether it runs on the
 * thread of its handle's loop ("W" appended to the token when it does not).
 *
 * Fork family (line starts with "fork "):  fork <cap> ; prefix ops ; p:op c:op ... ; beh0 | ...
 *   one loop on the main thread; after the prefix the process forks, the child calls
 *   uv_loop_fork() and reports whether its signal pipe is a new one ("f0") or still the inherited
 *   one ("fS", decided by the inode numbers of the pipe ends); then the two processes execute
 *   their own ops (p: parent, c: child), one at a time in script order (turns passed over pipes);
 *   K = kill(getpid(), sig).  Output: parent trace "||" child trace.
 *
 * The signal lock.  read(), write() and pipe2() are wrapped (-Wl,--wrap): the process-wide lock
 * pipe of signal.c is the only pipe libuv makes without O_NONBLOCK here; for every access to it
 * (lock = read, unlock = write; the first write after its creation is the initial token) the
 * wrapper asks pthread_sigmask() whether every signal is blocked in the calling thread.  That is
 * the rule the code relies on (uv__signal_block_and_lock: block, then lock;
 * uv__signal_unlock_and_unblock: unlock, then unblock; the handler runs with sa_mask full): a
 * handler can then never run in a thread that holds the lock.  Every trace ends with "lk0" (all
 * accesses made with all signals blocked), "lkBAD<n>" or "lkNONE" (the wrapper saw no access).
 *
 * Every case runs in a forked child (signal state is process-wide); a child that dies prints
 * "crash <status>".  Handles and loops live in static arrays so that their address order is
 * their index order (uv__signal_compare sorts by address). */
#include <stdio.h>
#include <stdlib.h>
#include <string.h>
#include <signal.h>
#include <unistd.h>
#include <fcntl.h>
#include <errno.h>
#include <pthread.h>
#include <semaphore.h>
#include <sys/wait.h>
#include <sys/stat.h>
#include <time.h>
#include "uv.h"

#define MAXH 8
#define NLOOPS 3
#define MAXB 512

enum { C_INITLOOP, C_TOKEN, C_NOP, C_QUIT };

typedef struct {
  pthread_t tid;
  sem_t go, done;
  int idx, cmd, ret;
  char* tok;
} worker_t;

static worker_t wk[NLOOPS];
static pthread_t main_tid;
static int nloops, cap;
static uv_loop_t loops[NLOOPS];
static uv_prepare_t keep[NLOOPS];
static uv_signal_t hs[MAXH];
static int nh, closing[MAXH], closed[MAXH], hloop[MAXH];
static int fork_mode;

/* ---- the lock pipe, seen through the wrappers ---- */
int __real_pipe2(int fds[2], int flags);
ssize_t __real_read(int fd, void* buf, size_t n);
ssize_t __real_write(int fd, const void* buf, size_t n);
static int lockfd[2] = { -1, -1 };
static int lock_fresh, started_ok;
static long lock_acc, lock_bad;

static int all_blocked(void) {
  sigset_t cur;
  int s;
  if (pthread_sigmask(SIG_SETMASK, NULL, &cur)) return 0;
  for (s = 1; s <= 64; s++) {
    if (s == SIGKILL || s == SIGSTOP || s == 32 || s == 33) continue;   /* cannot be blocked / glibc internal */
    if (sigismember(&cur, s) != 1) return 0;
  }
  return 1;
}

int __wrap_pipe2(int fds[2], int flags) {
  int r = __real_pipe2(fds, flags);
  if (r == 0 && !(flags & O_NONBLOCK)) { lockfd[0] = fds[0]; lockfd[1] = fds[1]; lock_fresh = 1; }
  return r;
}

ssize_t __wrap_read(int fd, void* buf, size_t n) {
  if (fd >= 0 && fd == lockfd[0]) { lock_acc++; if (!all_blocked()) lock_bad++; }
  return __real_read(fd, buf, n);
}

ssize_t __wrap_write(int fd, const void* buf, size_t n) {
  if (fd >= 0 && fd == lockfd[1]) {
    if (lock_fresh) lock_fresh = 0;                 /* the token put in by uv__signal_global_reinit */
    else { lock_acc++; if (!all_blocked()) lock_bad++; }
  }
  return __real_write(fd, buf, n);
}

static void print_lock(void) {
  if (lock_bad) printf("lkBAD%ld ", lock_bad);
  else if (lock_acc == 0 && started_ok) printf("lkNONE ");
  else printf("lk0 ");
}

static char* beh[MAXB];
static int nbeh, cb_cnt, in_cb;
static const int wsigs[4] = { SIGHUP, SIGUSR1, SIGUSR2, SIGWINCH };
static void (*seen_handler)(int);

static void do_ops(char* ops);

static void sem_wait_eintr(sem_t* s) { while (sem_wait(s) < 0 && errno == EINTR) ; }

static char disp_char(int sig) {
  struct sigaction sa;
  memset(&sa, 0, sizeof sa);
  if (sigaction(sig, NULL, &sa)) return '!';
  if (sa.sa_flags & SA_SIGINFO) return '?';
  if (sa.sa_handler == SIG_DFL) return 'D';
  if (sa.sa_handler == SIG_IGN) return 'I';
  if (seen_handler == NULL) seen_handler = sa.sa_handler;
  if (sa.sa_handler != seen_handler) return '?';      /* not the one handler libuv installs */
  return (sa.sa_flags & SA_RESETHAND) ? 'R' : 'H';
}

static void snap(void) {
  int i;
  putchar('[');
  for (i = 0; i < 4; i++) putchar(disp_char(wsigs[i]));
  putchar('|');
  for (i = 0; i < nh; i++) putchar(uv_is_active((uv_handle_t*) &hs[i]) ? '1' : '0');
  printf("] ");
}

static int on_loop_thread(int l) { return l >= 0 && l < nloops && pthread_equal(pthread_self(), wk[l].tid); }

static void prep_cb(uv_prepare_t* p) { (void) p; }

static void close_cb(uv_handle_t* h) {
  int i = (int) ((uv_signal_t*) h - hs);
  closed[i] = 1;
  printf("z%d%s ", i, on_loop_thread(hloop[i]) ? "" : "W");
}

static void signal_cb(uv_signal_t* h, int signum) {
  int i = (int) (h - hs);
  int k = cb_cnt++;
  printf("c%d,%d%s ", i, signum, on_loop_thread(hloop[i]) ? "" : "W");
  snap();
  in_cb++;
  if (k < nbeh) { char* copy = strdup(beh[k]); do_ops(copy); free(copy); }
  in_cb--;
  printf("e%d ", i);
}

static int legal(int h) { return h >= 0 && h < nh && !closing[h]; }

/* run a command on loop thread l (directly when we are that thread) */
static void exec_on(int l, int cmd, char* tok);

/* the thread a token has to be executed on: -1 = the current one */
static int token_thread(const char* tok) {
  int a = 0, b = 0, c = 0;
  int n = sscanf(tok + 1, "%d,%d,%d", &a, &b, &c);
  switch (tok[0]) {
  case 'I': case 'R': case 'U':
    return (n >= 1 && a >= 0 && a < nloops) ? a : -1;
  case 'S': case 'O': case 'T': case 'C': case 'J':
    return (n >= 1 && a >= 0 && a < nh) ? hloop[a] : -1;
  case 'K':
    if (n >= 3 && c == 1) return -1;                   /* pthread_kill: sent from the current thread */
    return (n >= 2 && b >= 0 && b < nloops) ? b : -1;  /* raise() on the scripted thread */
  }
  return -1;
}

/* one operation, on the thread it belongs to */
static void do_token(char* tok) {
  int a = 0, b = 0, c = 0;
  int n = sscanf(tok + 1, "%d,%d,%d", &a, &b, &c);
  switch (tok[0]) {
  case 'I':
    if (n >= 1 && a >= 0 && a < nloops && nh < MAXH) {
      hloop[nh] = a; uv_signal_init(&loops[a], &hs[nh]); nh++; printf("i ");
    } else printf("x ");
    break;
  case 'S':
    if (n >= 2 && legal(a)) { int r = uv_signal_start(&hs[a], signal_cb, b); if (r == 0) started_ok = 1; printf("r%d ", r); } else printf("x ");
    break;
  case 'O':
    if (n >= 2 && legal(a)) { int r = uv_signal_start_oneshot(&hs[a], signal_cb, b); if (r == 0) started_ok = 1; printf("r%d ", r); } else printf("x ");
    break;
  case 'T':
    if (n >= 1 && legal(a)) printf("r%d ", uv_signal_stop(&hs[a])); else printf("x ");
    break;
  case 'C':
    if (n >= 1 && legal(a)) { closing[a] = 1; uv_close((uv_handle_t*) &hs[a], close_cb); printf("k "); }
    else printf("x ");
    break;
  case 'U':
    if (n >= 1 && a >= 0 && a < nloops) { uv_stop(&loops[a]); printf("r0 "); } else printf("x ");
    break;
  case 'J':
    if (n >= 1 && a >= 0 && a < nh && closed[a]) {
      closing[a] = closed[a] = 0;
      uv_signal_init(&loops[hloop[a]], &hs[a]);       /* the storage of the closed handle is used again */
      printf("r0 ");
    } else printf("x ");
    break;
  case 'K':
    if (n >= 1 && a > 0 && a < 65) {
      char ch = disp_char(a);
      if (ch == 'H' || ch == 'R') {
        if (fork_mode) kill(getpid(), a);
        else if (n >= 3 && c == 1) {
          /* pthread_kill to a parked loop thread (or to ourselves / the script thread when that is us);
           * the round trip afterwards makes sure the handler has run before the script goes on */
          if (b >= 0 && b < nloops && !pthread_equal(pthread_self(), wk[b].tid)) {
            pthread_kill(wk[b].tid, a);
            exec_on(b, C_NOP, NULL);
          } else pthread_kill(pthread_self(), a);
        } else raise(a);
        printf("d0 ");
      } else printf("d1 ");                      /* default action: the process would die */
    } else printf("x ");
    break;
  case 'R':
    if (n >= 1 && a >= 0 && a < nloops && !in_cb) {
      printf("(%d ", a);
      uv_run(&loops[a], UV_RUN_NOWAIT);
      printf(")%d ", a);
    } else printf("x ");
    break;
  default:
    printf("x ");
  }
}

static void do_ops(char* ops) {
  char* save = NULL;
  char* tok;
  for (tok = strtok_r(ops, " \n", &save); tok; tok = strtok_r(NULL, " \n", &save)) {
    int t = token_thread(tok);
    if (tok[0] == 'R' && in_cb) t = -1;            /* nested run: refused where we are */
    if (t < 0) do_token(tok); else exec_on(t, C_TOKEN, tok);
    snap();
  }
}

static void run_cmd(worker_t* w) {
  int l = w->idx;
  switch (w->cmd) {
  case C_INITLOOP:
    w->ret = 0;
    if (uv_loop_init(&loops[l])) { w->ret = 1; break; }
    /* the self-pipe exists from uv_loop_init on (child watcher); give it the capacity of the case */
    if (loops[l].signal_pipefd[1] < 0) { w->ret = 2; break; }
    if (fcntl(loops[l].signal_pipefd[1], F_SETPIPE_SZ, cap * 16) < 0 ||
        fcntl(loops[l].signal_pipefd[1], F_GETPIPE_SZ) != cap * 16) { w->ret = 3; break; }
    uv_prepare_init(&loops[l], &keep[l]);
    uv_prepare_start(&keep[l], prep_cb);          /* keeps uv_run from returning early */
    break;
  case C_TOKEN:
    do_token(w->tok);
    break;
  case C_NOP:
    break;
  }
}

static void* worker_main(void* arg) {
  worker_t* w = arg;
  for (;;) {
    sem_wait_eintr(&w->go);                        /* parked */
    if (w->cmd == C_QUIT) break;
    run_cmd(w);
    sem_post(&w->done);
  }
  return NULL;
}

static void exec_on(int l, int cmd, char* tok) {
  worker_t* w = &wk[l];
  if (pthread_equal(pthread_self(), w->tid)) {
    worker_t tmp = *w;
    tmp.cmd = cmd; tmp.tok = tok;
    run_cmd(&tmp);
    w->ret = tmp.ret;
    return;
  }
  w->cmd = cmd; w->tok = tok;
  sem_post(&w->go);
  sem_wait_eintr(&w->done);
}

static int max_loop(const char* s) {
  int m = 0;
  for (; *s; s++)
    if ((*s == 'I' || *s == 'R') && s[1] >= '0' && s[1] <= '9') { int v = atoi(s + 1); if (v > m) m = v; }
  return m;
}

static void run_case(char* line) {
  char *p1, *p2, *s;
  int l;
  p1 = strchr(line, ';'); if (!p1) { printf("badcase\n"); return; }
  *p1++ = 0;
  p2 = strchr(p1, ';'); if (!p2) { printf("badcase\n"); return; }
  *p2++ = 0;
  cap = atoi(line);
  nloops = max_loop(p1); l = max_loop(p2); if (l > nloops) nloops = l;
  nloops++;
  if (nloops > NLOOPS) nloops = NLOOPS;
  for (s = p2; *s; s++) if (*s == '\n') *s = 0;
  for (s = p2;;) {
    char* e = strchr(s, '|');
    if (e) *e = 0;
    if (nbeh < MAXB) beh[nbeh++] = s;
    if (!e) break;
    s = e + 1;
  }
  main_tid = pthread_self();
  for (l = 0; l < nloops; l++) {
    wk[l].idx = l;
    sem_init(&wk[l].go, 0, 0); sem_init(&wk[l].done, 0, 0);
    if (pthread_create(&wk[l].tid, NULL, worker_main, &wk[l])) { printf("envfail thread\n"); return; }
    exec_on(l, C_INITLOOP, NULL);
    if (wk[l].ret) { printf("envfail loop_init %d\n", wk[l].ret); return; }
  }
  do_ops(p1);
  print_lock();
  printf("\n");
}

static ino_t fd_ino(int fd) { struct stat st; if (fstat(fd, &st)) return 0; return st.st_ino; }

static int read1(int fd) {
  char b; int r;
  do r = (int) read(fd, &b, 1); while (r < 0 && errno == EINTR);
  return r;
}

/* fork <cap> ; prefix ; tagged ; behs */
static void run_fork_case(char* line) {
  char *p1, *p2, *p3, *s, *save = NULL, *tok;
  int p2c[2], c2p[2], cout[2], is_child;
  ino_t ino0, ino1;
  pid_t pid;
  fork_mode = 1;
  p1 = strchr(line, ';'); if (!p1) { printf("badcase\n"); return; }
  *p1++ = 0;
  p2 = strchr(p1, ';'); if (!p2) { printf("badcase\n"); return; }
  *p2++ = 0;
  p3 = strchr(p2, ';'); if (!p3) { printf("badcase\n"); return; }
  *p3++ = 0;
  cap = atoi(line);
  nloops = 1;
  for (s = p3; *s; s++) if (*s == '\n') *s = 0;
  for (s = p3;;) {
    char* e = strchr(s, '|');
    if (e) *e = 0;
    if (nbeh < MAXB) beh[nbeh++] = s;
    if (!e) break;
    s = e + 1;
  }
  main_tid = pthread_self();
  wk[0].idx = 0; wk[0].tid = pthread_self();         /* the loop lives on this thread: no workers */
  exec_on(0, C_INITLOOP, NULL);
  if (wk[0].ret) { printf("envfail loop_init %d\n", wk[0].ret); return; }
  do_ops(p1);
  if (pipe(p2c) || pipe(c2p) || pipe(cout)) { printf("envfail pipe\n"); return; }
  ino0 = fd_ino(loops[0].signal_pipefd[0]); ino1 = fd_ino(loops[0].signal_pipefd[1]);
  fflush(stdout);
  pid = fork();
  if (pid < 0) { printf("envfail fork2\n"); return; }
  is_child = pid == 0;
  if (is_child) {
    int r;
    alarm(20);
    close(p2c[1]); close(c2p[0]); close(cout[0]);
    dup2(cout[1], 1);                                /* the child's trace goes to the parent */
    wk[0].tid = pthread_self();
    r = uv_loop_fork(&loops[0]);
    if (r) printf("f!%d ", r);
    else if (fd_ino(loops[0].signal_pipefd[0]) == ino0 || fd_ino(loops[0].signal_pipefd[1]) == ino1)
      printf("fS ");                                 /* still the pipe of the parent */
    else printf("f0 ");
    snap();
  } else {
    close(p2c[0]); close(c2p[1]); close(cout[1]);
    printf("fp ");
  }
  for (tok = strtok_r(p2, " \n", &save); tok; tok = strtok_r(NULL, " \n", &save)) {
    int mine = (tok[0] == 'c') == is_child;
    if (tok[1] != ':') continue;
    if (mine) {
      char one[64];
      snprintf(one, sizeof one, "%s", tok + 2);
      do_ops(one);
      fflush(stdout);
      if (write(is_child ? c2p[1] : p2c[1], "t", 1) != 1) break;
    } else if (read1(is_child ? p2c[0] : c2p[0]) != 1) {
      printf("peerdied ");
      break;
    }
  }
  print_lock();
  if (is_child) { fflush(stdout); _exit(0); }
  {
    char buf[4096]; int r, st = 0;
    printf("|| ");
    fflush(stdout);
    close(p2c[1]);
    for (;;) {
      do r = (int) read(cout[0], buf, sizeof buf); while (r < 0 && errno == EINTR);
      if (r <= 0) break;
      fwrite(buf, 1, (size_t) r, stdout);
    }
    while (waitpid(pid, &st, 0) < 0 && errno == EINTR) ;
    if (!WIFEXITED(st) || WEXITSTATUS(st) != 0) printf("childcrash %d ", st);
    printf("\n");
  }
}

/* ---- stress (monitor only): "stress <iterations>" ----
 * The main thread churns uv_signal_start / uv_signal_stop on a signal that another handle keeps
 * watched, while a helper thread (all signals blocked) sends that signal to the main thread as fast
 * as it can.  A signal that arrives inside a critical section must just wait for the mask to be
 * restored; the run fails only if the main thread makes no progress for 3 seconds. */
static volatile long stress_iter, stress_sent;
static volatile int stress_done;

static void* stress_helper(void* arg) {
  pthread_t target = *(pthread_t*) arg;
  long last = -1; int idle_ms = 0; long k = 0;
  struct timespec ts = { 0, 1000000 };
  while (!stress_done) {
    pthread_kill(target, SIGUSR1); stress_sent++;
    if ((++k & 1023) == 0) {                       /* about once a millisecond: look at the progress */
      nanosleep(&ts, NULL);
      if (stress_iter != last) { last = stress_iter; idle_ms = 0; }
      else if (++idle_ms > 3000) {
        printf("stress hang after %ld iterations, %ld signals sent\n", stress_iter, stress_sent);
        fflush(stdout); _exit(0);
      }
    }
  }
  return NULL;
}

static void stress_cb(uv_signal_t* h, int signum) { (void) h; (void) signum; }

static void run_stress(long n) {
  pthread_t helper, self = pthread_self();
  pthread_attr_t at; sigset_t all, old;
  long i;
  nloops = 1; cap = 4096;
  wk[0].idx = 0; wk[0].tid = pthread_self();
  exec_on(0, C_INITLOOP, NULL);
  if (wk[0].ret) { printf("envfail loop_init %d\n", wk[0].ret); return; }
  uv_signal_init(&loops[0], &hs[0]); uv_signal_init(&loops[0], &hs[1]);
  if (uv_signal_start(&hs[0], stress_cb, SIGUSR1)) { printf("envfail start\n"); return; }
  sigfillset(&all); pthread_sigmask(SIG_SETMASK, &all, &old);   /* the helper inherits: everything blocked */
  pthread_attr_init(&at);
  if (pthread_create(&helper, &at, stress_helper, &self)) { printf("envfail thread\n"); return; }
  pthread_sigmask(SIG_SETMASK, &old, NULL);
  for (i = 0; i < n; i++) {
    uv_signal_start(&hs[1], stress_cb, (i & 1) ? SIGUSR1 : SIGUSR2);
    uv_signal_stop(&hs[1]);
    if ((i & 63) == 0) uv_run(&loops[0], UV_RUN_NOWAIT);
    stress_iter = i + 1;
  }
  stress_done = 1;
  pthread_join(helper, NULL);
  printf("stress ok %ld ", n);
  print_lock();
  printf("\n");
}

int main(void) {
  static char line[1 << 16];
  {
    /* The dispositions and the mask of the signals used here are inherited from whoever runs the
     * check (nohup ignores SIGHUP, a supervisor may block signals): start from the defaults. */
    sigset_t all;
    int k;
    for (k = 0; k < 4; k++) signal(wsigs[k], SIG_DFL);
    signal(SIGCHLD, SIG_DFL);
    sigemptyset(&all);
    sigprocmask(SIG_SETMASK, &all, NULL);
  }
  while (fgets(line, sizeof line, stdin)) {
    pid_t pid;
    int st = 0;
    fflush(stdout);
    pid = fork();
    if (pid == 0) {
      alarm(20);
      if (strncmp(line, "fork ", 5) == 0) run_fork_case(line + 5);
      else if (strncmp(line, "stress ", 7) == 0) run_stress(atol(line + 7));
      else run_case(line);
      fflush(stdout);
      _exit(0);
    }
    if (pid < 0) { printf("envfail fork\n"); continue; }
    while (waitpid(pid, &st, 0) < 0) ;
    if (!WIFEXITED(st) || WEXITSTATUS(st) != 0) { printf("crash %d\n", st); fflush(stdout); }
  }
  return 0;
}
