/* C13: uv_signal_t of the freshly built libuv driven by scripts, with real
 * signals (raise) and the real kernel dispositions (sigaction).
 * Case (one line):  <cap> ; op op ... ; beh0 | beh1 | ...      (see ocaml/drv_c13.ml)
 *   I<l> uv_signal_init on loop l      S<h>,<sig> uv_signal_start
 *   O<h>,<sig> uv_signal_start_oneshot T<h> uv_signal_stop   C<h> uv_close
 *   K<sig> raise(sig) unless the disposition is not a handler  R<l> uv_run(NOWAIT)
 * beh k = what the k-th signal callback of the case does.
 * Every case runs in a forked child (signal state is process-wide); a child that
 * dies prints "crash <status>".  Handles and loops live in static arrays so that
 * their address order is their index order (uv__signal_compare sorts by address). */
#include <stdio.h>
#include <stdlib.h>
#include <string.h>
#include <signal.h>
#include <unistd.h>
#include <fcntl.h>
#include <sys/wait.h>
#include "uv.h"

#define MAXH 8
#define NLOOPS 2
#define MAXB 512

static uv_loop_t loops[NLOOPS];
static uv_prepare_t keep[NLOOPS];
static uv_signal_t hs[MAXH];
static int nh, closing[MAXH];
static char* beh[MAXB];
static int nbeh, cb_cnt, in_cb;
static const int wsigs[4] = { SIGHUP, SIGUSR1, SIGUSR2, SIGWINCH };
static void (*seen_handler)(int);

static void do_ops(char* ops);

static char disp_char(int sig) {
  struct sigaction sa;
  memset(&sa, 0, sizeof sa);
  if (sigaction(sig, NULL, &sa)) return '!';
  if (sa.sa_flags & SA_SIGINFO) return '?';
  if (sa.sa_handler == SIG_DFL) return 'D';
  if (sa.sa_handler == SIG_IGN) return 'I';
  if (seen_handler == NULL) seen_handler = sa.sa_handler;
  if (sa.sa_handler != seen_handler) return '?';      /* not the one handler libuv installs */
  return (sa.sa_flags & SA_RESETHAND) ? 'R' : 'H';
}

static void snap(void) {
  int i;
  putchar('[');
  for (i = 0; i < 4; i++) putchar(disp_char(wsigs[i]));
  putchar('|');
  for (i = 0; i < nh; i++) putchar(uv_is_active((uv_handle_t*) &hs[i]) ? '1' : '0');
  printf("] ");
}

static void prep_cb(uv_prepare_t* p) { (void) p; }

static void close_cb(uv_handle_t* h) { printf("z%d ", (int) ((uv_signal_t*) h - hs)); }

static void signal_cb(uv_signal_t* h, int signum) {
  int i = (int) (h - hs);
  int k = cb_cnt++;
  printf("c%d,%d ", i, signum);
  snap();
  in_cb++;
  if (k < nbeh) { char* copy = strdup(beh[k]); do_ops(copy); free(copy); }
  in_cb--;
  printf("e%d ", i);
}

static int legal(int h) { return h >= 0 && h < nh && !closing[h]; }

static void do_ops(char* ops) {
  char* save = NULL;
  char* tok;
  for (tok = strtok_r(ops, " \n", &save); tok; tok = strtok_r(NULL, " \n", &save)) {
    int a = 0, b = 0;
    int n = sscanf(tok + 1, "%d,%d", &a, &b);
    switch (tok[0]) {
    case 'I':
      if (n >= 1 && a >= 0 && a < NLOOPS && nh < MAXH) {
        uv_signal_init(&loops[a], &hs[nh]); nh++; printf("i ");
      } else printf("x ");
      break;
    case 'S':
      if (n == 2 && legal(a)) printf("r%d ", uv_signal_start(&hs[a], signal_cb, b)); else printf("x ");
      break;
    case 'O':
      if (n == 2 && legal(a)) printf("r%d ", uv_signal_start_oneshot(&hs[a], signal_cb, b)); else printf("x ");
      break;
    case 'T':
      if (n >= 1 && legal(a)) printf("r%d ", uv_signal_stop(&hs[a])); else printf("x ");
      break;
    case 'C':
      if (n >= 1 && legal(a)) { closing[a] = 1; uv_close((uv_handle_t*) &hs[a], close_cb); printf("k "); }
      else printf("x ");
      break;
    case 'K':
      if (n >= 1 && a > 0 && a < 65) {
        char c = disp_char(a);
        if (c == 'H' || c == 'R') { raise(a); printf("d0 "); }
        else printf("d1 ");                      /* default action: the process would die */
      } else printf("x ");
      break;
    case 'R':
      if (n >= 1 && a >= 0 && a < NLOOPS && !in_cb) {
        printf("(%d ", a);
        uv_run(&loops[a], UV_RUN_NOWAIT);
        printf(")%d ", a);
      } else printf("x ");
      break;
    default:
      printf("x ");
    }
    snap();
  }
}

static void run_case(char* line) {
  char *p1, *p2, *s;
  int l, cap;
  p1 = strchr(line, ';'); if (!p1) { printf("badcase\n"); return; }
  *p1++ = 0;
  p2 = strchr(p1, ';'); if (!p2) { printf("badcase\n"); return; }
  *p2++ = 0;
  cap = atoi(line);
  for (s = p2; *s; s++) if (*s == '\n') *s = 0;
  for (s = p2;;) {
    char* e = strchr(s, '|');
    if (e) *e = 0;
    if (nbeh < MAXB) beh[nbeh++] = s;
    if (!e) break;
    s = e + 1;
  }
  for (l = 0; l < NLOOPS; l++) {
    if (uv_loop_init(&loops[l])) { printf("envfail loop_init\n"); return; }
    /* the self-pipe exists from uv_loop_init on (child watcher); give it the capacity of the case */
    if (loops[l].signal_pipefd[1] < 0) { printf("envfail nopipe\n"); return; }
    if (fcntl(loops[l].signal_pipefd[1], F_SETPIPE_SZ, cap * 16) < 0 ||
        fcntl(loops[l].signal_pipefd[1], F_GETPIPE_SZ) != cap * 16) { printf("envfail pipesz\n"); return; }
    uv_prepare_init(&loops[l], &keep[l]);
    uv_prepare_start(&keep[l], prep_cb);          /* keeps uv_run from returning early */
  }
  do_ops(p1);
  printf("\n");
}

int main(void) {
  static char line[1 << 16];
  {
    /* The dispositions and the mask of the signals used here are inherited from whoever runs the
     * check (nohup ignores SIGHUP, a supervisor may block signals): start from the defaults. */
    sigset_t all;
    int k;
    for (k = 0; k < 4; k++) signal(wsigs[k], SIG_DFL);
    signal(SIGCHLD, SIG_DFL);
    sigemptyset(&all);
    sigprocmask(SIG_SETMASK, &all, NULL);
  }
  while (fgets(line, sizeof line, stdin)) {
    pid_t pid;
    int st = 0;
    fflush(stdout);
    pid = fork();
    if (pid == 0) {
      alarm(20);
      run_case(line);
      fflush(stdout);
      _exit(0);
    }
    if (pid < 0) { printf("envfail fork\n"); continue; }
    while (waitpid(pid, &st, 0) < 0) ;
    if (!WIFEXITED(st) || WEXITSTATUS(st) != 0) { printf("crash %d\n", st); fflush(stdout); }
  }
  return 0;
}
