/* C14 harness: uv_poll handles and bare uv__io_t watchers of the freshly built
 * libuv on socketpairs / pipes / eventfds made here, driven by scripts with
 * uv_run(UV_RUN_NOWAIT).  Link with -Wl,--wrap=epoll_pwait,--wrap=syscall.
 *
 * case:  "<ring> <strict> ; ops ; beh0 | beh1 | ..."   (see ocaml/drv_c14.ml)
 *   ring=0: io_uring_setup is made to fail with ENOSYS (no control ring).
 * ops:   O<sl>,<kind s|p|q|e|t|n>[,<n>]  U<src>,<dst>  X<sl>   descriptors (slots), optionally moved onto
 *                                          number n = 0, 1 or 2 with dup2; t = TCP loopback pair,
 *                                          n = kernel notification file (/proc/sys/kernel/hostname)
 *        K<sl> D<sl> H<sl> G<sl> L<sl>    peer writes / drain / peer closes / fill / unfill
 *        B<sl> W<sl>                      peer sends urgent (OOB) data (t) / peer shutdown(SHUT_WR) (s, t)
 *        I<sl> J<sl>                       uv_poll_init / uv__io_init  (handle = next index)
 *        S<h>,<m> T<h>,<m> C<h> F<h> A<h>  start / stop / close / feed / active
 *        Y<k>,<sl>                         uv_pipe_open (0) / uv_tcp_open (1) / uv_udp_open (2) of a fresh handle
 *        R                                 uv_run(UV_RUN_NOWAIT)
 * Masks in scripts and poll callbacks: UV_READABLE 1 WRITABLE 2 DISCONNECT 4 PRIORITIZED 8.
 * Output tokens are those of drv_c14.ml; text after '~' inside a token is
 * harness-only (poll(2) results) and is removed before the comparison.
 */
#define _GNU_SOURCE 1
#include <sched.h>
#include <stdio.h>
#include <stdlib.h>
#include <string.h>
#include <stdarg.h>
#include <errno.h>
#include <fcntl.h>
#include <poll.h>
#include <signal.h>
#include <unistd.h>
#include <sys/epoll.h>
#include <sys/eventfd.h>
#include <sys/socket.h>
#include <sys/wait.h>
#include <netinet/in.h>
#include <netinet/tcp.h>
#include <arpa/inet.h>
#include <sys/syscall.h>
#include "uv.h"
#include "uv-common.h"
#include "unix/internal.h"

#ifndef POLLRDHUP
#define POLLRDHUP 0x2000
#endif
#define MAXH 64
#define MAXS 32
#define MAXB 256
#define CAP 2000

static int fail_uring;
static int g_nullfd = -1;   /* /dev/null, kept on a high number to plug 0, 1, 2 */
long __real_syscall(long nr, long a, long b, long c, long d, long e, long f);
long __wrap_syscall(long nr, ...) {
  va_list ap; long a, b, c, d, e, f;
  va_start(ap, nr);
  a = va_arg(ap, long); b = va_arg(ap, long); c = va_arg(ap, long);
  d = va_arg(ap, long); e = va_arg(ap, long); f = va_arg(ap, long);
  va_end(ap);
  if (nr == __NR_io_uring_setup && fail_uring) { errno = ENOSYS; return -1; }
  return __real_syscall(nr, a, b, c, d, e, f);
}

struct file { int peer; char kind; int refs; };
struct slot { int fd; struct file* f; };
struct hnd {
  char kind;                /* 'p' poll, 'r' raw, 'u' uv_udp_t (owns and closes its descriptor) */
  uv_poll_t poll; uv__io_t raw; uv_udp_t udp;
  int fd; int closed; int inited;
  int live; int req;        /* harness's own API-level record: started and not stopped, with which mask */
};
static struct slot S[MAXS];
static struct hnd* H[MAXH];
static int nh;
static char* beh[MAXB];
static int nbeh, cbcount, quiet, strict;
static uv_loop_t loop;
static uv_loop_t* g_loop;
static uv_prepare_t keep;
static int internal_fd[64], ninternal;

static int is_internal(int fd) {
  int i; for (i = 0; i < ninternal; i++) if (internal_fd[i] == fd) return 1; return 0;
}
static int poll2uv(int e) {
  return ((e & POLLIN) ? 1 : 0) | ((e & POLLOUT) ? 2 : 0) | ((e & POLLRDHUP) ? 4 : 0) | ((e & POLLPRI) ? 8 : 0);
}
static int uv2poll(int m) {
  return ((m & 1) ? POLLIN : 0) | ((m & 2) ? POLLOUT : 0) | ((m & 4) ? POLLRDHUP : 0) | ((m & 8) ? POLLPRI : 0);
}
static uv__io_t* watcher_of(struct hnd* h) { return h->kind == 'p' ? &h->poll.io_watcher : h->kind == 'u' ? &h->udp.io_watcher : &h->raw; }
static int hindex_of_watcher(uv__io_t* w) {
  int i;
  for (i = 0; i < nh; i++) if (H[i]->inited && watcher_of(H[i]) == w) return i;
  return -1;
}
static int slot_kind_of_fd(int fd);
static int revents_of(int fd) {
  struct pollfd p;
  if (slot_kind_of_fd(fd) == 'n') return -1;   /* its ->poll consumes the notification: do not ask */ p.fd = fd; p.events = POLLIN | POLLOUT | POLLPRI | POLLRDHUP; p.revents = 0;
  if (poll(&p, 1, 0) < 0) return -1;
  return p.revents;
}

struct kent { int fd; unsigned ev; };
static int kcmp(const void* a, const void* b) {
  const struct kent* x = a; const struct kent* y = b;
  if (x->fd != y->fd) return x->fd < y->fd ? -1 : 1;
  return x->ev < y->ev ? -1 : x->ev > y->ev;
}
static int read_kernel_set(int epfd, struct kent* out, int max) {
  char path[64], line[256]; FILE* f; int n = 0;
  snprintf(path, sizeof path, "/proc/self/fdinfo/%d", epfd);
  f = fopen(path, "r");
  if (!f) return -1;
  while (fgets(line, sizeof line, f)) {
    int tfd; unsigned ev;
    if (sscanf(line, "tfd: %d events: %x", &tfd, &ev) == 2 && n < max) { out[n].fd = tfd; out[n].ev = ev; n++; }
  }
  fclose(f);
  return n;
}

int __real_epoll_pwait(int epfd, struct epoll_event* ev, int max, int timeout, const sigset_t* ss);
int __wrap_epoll_pwait(int epfd, struct epoll_event* ev, int max, int timeout, const sigset_t* ss) {
  int n, i, first;
  struct kent k[256]; int nk;
  if (g_loop == NULL || epfd != g_loop->backend_fd || quiet)
    return __real_epoll_pwait(epfd, ev, max, g_loop && epfd == g_loop->backend_fd ? 0 : timeout, ss);
  printf("P[");
  first = 1;
  for (i = 0; i < (int) loop.nwatchers; i++) {
    uv__io_t* w = loop.watchers[i];
    int hi;
    if (w == NULL) continue;
    hi = hindex_of_watcher(w);
    if (hi < 0) continue;
    printf("%s%d.%d.%u", first ? "" : ",", hi, i, w->pevents); first = 0;
  }
  printf("|");
  nk = read_kernel_set(epfd, k, 256);
  if (nk < 0) { printf("?"); nk = 0; }
  {
    struct kent kk[256]; int m = 0;
    for (i = 0; i < nk; i++) if (!is_internal(k[i].fd)) { kk[m].fd = k[i].fd; kk[m].ev = k[i].ev & ~(unsigned) (EPOLLERR | EPOLLHUP); m++; }
    qsort(kk, m, sizeof kk[0], kcmp);
    for (i = 0; i < m; i++) printf("%s%d.%u", i ? "," : "", kk[i].fd, kk[i].ev);
  }
  printf("|");
  n = __real_epoll_pwait(epfd, ev, max, 0, ss);
  first = 1;
  for (i = 0; i < n; i++) {
    int fd = ev[i].data.fd;
    if (is_internal(fd)) continue;
    printf("%s%d.%u", first ? "" : ",", fd, ev[i].events); first = 0;
  }
  printf("]~");
  first = 1;
  for (i = 0; i < nh; i++)
    if (H[i]->inited && !H[i]->closed && H[i]->kind == 'p' && H[i]->live) {
      printf("%s%d.%d.%d", first ? "" : ",", i, revents_of(H[i]->fd), H[i]->req); first = 0;
    }
  printf(" ");
  return n < 0 ? 0 : n;
}

static void do_ops(char* ops, int in_cb);

static void run_beh(void) {
  int k = cbcount++;
  if (k == CAP) {   /* runaway script: stop everything */
    int j;
    for (j = 0; j < nh; j++)
      if (H[j]->inited && !H[j]->closed && H[j]->kind == 'p') { uv_poll_stop(&H[j]->poll); H[j]->live = 0; }
  } else if (k < CAP && k < nbeh) {
    char* copy = strdup(beh[k]); do_ops(copy, 1); free(copy);
  }
}

static void poll_cb(uv_poll_t* p, int status, int events) {
  int i = (int) (intptr_t) p->data;
  if (quiet) return;
  printf("c%d,%d,%d~%d,%d ", i, status, events, revents_of(H[i]->fd), fcntl(H[i]->fd, F_GETFD) != -1);
  if (status != 0) H[i]->live = 0;     /* UV_EBADF: libuv stopped the handle */
  run_beh();
}
static void raw_cb(uv_loop_t* l, uv__io_t* w, unsigned int events) {
  int i = hindex_of_watcher(w);
  (void) l;
  if (quiet) return;
  printf("w%d,%u ", i, events);
  run_beh();
}
static void close_cb(uv_handle_t* h) { (void) h; }
static void udp_alloc_cb(uv_handle_t* h, size_t n, uv_buf_t* b) { static char buf[65536]; (void) h; (void) n; b->base = buf; b->len = sizeof buf; }
static void udp_recv_cb(uv_udp_t* h, ssize_t n, const uv_buf_t* b, const struct sockaddr* a, unsigned f) { (void) h; (void) n; (void) b; (void) a; (void) f; }
static void keep_cb(uv_prepare_t* h) { (void) h; }

static int valid(int i) { return i >= 0 && i < nh && H[i]->inited && !H[i]->closed; }
static int h_busy(struct hnd* h) {
  if (!h->inited || h->closed) return 0;
  if (h->kind != 'p') return 1;
  return uv_is_active((uv_handle_t*) &h->poll) || h->poll.io_watcher.pevents != 0;
}
static int any_busy(int fd) { int i; for (i = 0; i < nh; i++) if (H[i]->fd == fd && h_busy(H[i])) return 1; return 0; }
static int any_live(int fd) { int i; for (i = 0; i < nh; i++) if (H[i]->fd == fd && H[i]->inited && !H[i]->closed) return 1; return 0; }
static int any_live_raw(int fd) { int i; for (i = 0; i < nh; i++) if (H[i]->fd == fd && H[i]->inited && !H[i]->closed && H[i]->kind != 'p') return 1; return 0; }
static int slot_kind_of_fd(int fd) { int i; for (i = 0; i < MAXS; i++) if (S[i].fd == fd && S[i].f) return S[i].f->kind; return 0; }
static int fd_exists_in_loop(int fd) { return fd >= 0 && (unsigned) fd < loop.nwatchers && loop.watchers[fd] != NULL; }
static int fd_is_peer(int fd) { int i; for (i = 0; i < MAXS; i++) if (S[i].fd != -1 && S[i].f && S[i].f->peer == fd) return 1; return 0; }
static int fd_is_open(int fd) { int i; for (i = 0; i < MAXS; i++) if (S[i].fd == fd) return 1; return 0; }

static void small_buffers(int fd) {
  int v = 4096;
  setsockopt(fd, SOL_SOCKET, SO_SNDBUF, &v, sizeof v);
  setsockopt(fd, SOL_SOCKET, SO_RCVBUF, &v, sizeof v);
}

static struct hnd* new_handle(char kind, int fd) {
  struct hnd* h = calloc(1, sizeof *h);
  h->kind = kind; h->fd = fd; H[nh++] = h;
  return h;
}

static void do_ops(char* ops, int in_cb) {
  char* save = NULL; char* tok;
  for (tok = strtok_r(ops, " \n", &save); tok; tok = strtok_r(NULL, " \n", &save)) {
    int a = -1, b = -1; char k = 0;
    switch (tok[0]) {
    case 'O':
      if (sscanf(tok + 1, "%d,%c", &a, &k) == 2 && a >= 0 && a < MAXS && S[a].fd == -1) {
        struct file* f = calloc(1, sizeof *f); int sv[2] = { -1, -1 };
        f->kind = k; f->refs = 1; f->peer = -1;
        if (k == 's') { socketpair(AF_UNIX, SOCK_STREAM | SOCK_NONBLOCK, 0, sv); small_buffers(sv[0]); small_buffers(sv[1]); S[a].fd = sv[0]; f->peer = sv[1]; }
        else if (k == 't') {
          struct sockaddr_in sa; socklen_t sl = sizeof sa; int l = socket(AF_INET, SOCK_STREAM, 0), one1 = 1;
          memset(&sa, 0, sizeof sa); sa.sin_family = AF_INET; sa.sin_addr.s_addr = htonl(INADDR_LOOPBACK);
          bind(l, (struct sockaddr*) &sa, sizeof sa); listen(l, 1); getsockname(l, (struct sockaddr*) &sa, &sl);
          sv[1] = socket(AF_INET, SOCK_STREAM, 0);
          connect(sv[1], (struct sockaddr*) &sa, sizeof sa);
          sv[0] = accept4(l, NULL, NULL, SOCK_NONBLOCK);
          close(l);
          fcntl(sv[1], F_SETFL, fcntl(sv[1], F_GETFL) | O_NONBLOCK);
          setsockopt(sv[1], IPPROTO_TCP, TCP_NODELAY, &one1, sizeof one1);
          { /* no TIME_WAIT sockets pile up over many thousand cases: close = reset */
            struct linger lg; lg.l_onoff = 1; lg.l_linger = 0;
            if (sv[0] >= 0) setsockopt(sv[0], SOL_SOCKET, SO_LINGER, &lg, sizeof lg);
            if (sv[1] >= 0) setsockopt(sv[1], SOL_SOCKET, SO_LINGER, &lg, sizeof lg);
          }
          if (sv[0] < 0 && sv[1] >= 0) { close(sv[1]); sv[1] = -1; }
          S[a].fd = sv[0]; f->peer = sv[1];
        }
        else if (k == 'd') { socketpair(AF_UNIX, SOCK_DGRAM | SOCK_NONBLOCK, 0, sv); S[a].fd = sv[0]; f->peer = sv[1]; }
        else if (k == 'p') { pipe2(sv, O_NONBLOCK); fcntl(sv[1], F_SETPIPE_SZ, 4096); S[a].fd = sv[0]; f->peer = sv[1]; }
        else if (k == 'q') { pipe2(sv, O_NONBLOCK); fcntl(sv[1], F_SETPIPE_SZ, 4096); S[a].fd = sv[1]; f->peer = sv[0]; }
        else if (k == 'n') {
          /* a kernel notification file: /proc/sys/kernel/hostname raises POLLIN|POLLERR|POLLPRI
           * when the host name changes; changed only inside a UTS namespace of our own */
          static int uts = 0;
          if (uts == 0) uts = unshare(CLONE_NEWUTS) == 0 ? 1 : -1;
          S[a].fd = uts == 1 ? open("/proc/sys/kernel/hostname", O_RDONLY | O_NONBLOCK) : -1;
        }
        else { S[a].fd = eventfd(0, EFD_NONBLOCK); }
        S[a].f = f;
        {
          /* "O<sl>,<kind>,<n>": place the descriptor on the chosen number n (0, 1 or 2) with dup2,
           * unless a slot already lives there; without <n> it keeps the first free number */
          int want = -1; char kk;
          if (sscanf(tok + 1, "%d,%c,%d", &a, &kk, &want) == 3 && want >= 0 && want <= 2 &&
              S[a].fd > 2 && !fd_is_open(want) && !fd_is_peer(want)) {
            if (dup2(S[a].fd, want) == want) { close(S[a].fd); S[a].fd = want; }
          }
        }
        printf("o%d=%d ", a, S[a].fd);
      } else printf("- ");
      break;
    case 'U':
      if (sscanf(tok + 1, "%d,%d", &a, &b) == 2 && a >= 0 && a < MAXS && b >= 0 && b < MAXS && S[b].fd == -1 && S[a].fd != -1) {
        S[b].fd = dup(S[a].fd); S[b].f = S[a].f; S[b].f->refs++;
        printf("o%d=%d ", b, S[b].fd);
      } else printf("- ");
      break;
    case 'X':
      if (sscanf(tok + 1, "%d", &a) == 1 && a >= 0 && a < MAXS && S[a].fd != -1 &&
          !any_busy(S[a].fd) && !(strict && any_live(S[a].fd))) {
        printf("x%d ", S[a].fd);
        close(S[a].fd);
        /* a low number is plugged with /dev/null again at once: the numbers 0, 1, 2 are only ever
         * handed out through "O<sl>,<kind>,<n>", never to a peer, a listener or a dup of the harness */
        if (S[a].fd <= 2) dup2(g_nullfd, S[a].fd);
        S[a].fd = -1;
        if (--S[a].f->refs == 0) { if (S[a].f->peer != -1) close(S[a].f->peer); free(S[a].f); }
        S[a].f = NULL;
      } else printf("- ");
      break;
    case 'K': case 'D': case 'H': case 'G': case 'L': case 'B': case 'W':
      if (sscanf(tok + 1, "%d", &a) == 1 && a >= 0 && a < MAXS && S[a].fd != -1) {
        struct file* f = S[a].f; static char junk[65536]; uint64_t one = 1; int i;
        printf("~e ");
        switch (tok[0]) {
        case 'K':
          if (f->kind == 'n') { static int cnt; char nm[32]; int n = snprintf(nm, sizeof nm, "c14-%d", ++cnt); sethostname(nm, n); }
          else if (f->kind == 'e') write(S[a].fd, &one, 8);
          else if (f->kind != 'q' && f->peer != -1) write(f->peer, "x", 1);
          break;
        case 'D':
          if (f->kind == 't') recv(S[a].fd, junk, 1, MSG_OOB);
          if (f->kind != 'q') for (i = 0; i < 64 && read(S[a].fd, junk, sizeof junk) > 0; i++) ;
          break;
        case 'B':
          if (f->kind == 't' && f->peer != -1) send(f->peer, "!", 1, MSG_OOB);
          break;
        case 'W':
          if ((f->kind == 't' || f->kind == 's') && f->peer != -1) shutdown(f->peer, SHUT_WR);
          break;
        case 'H':
          if (f->peer != -1) { close(f->peer); f->peer = -1; }
          break;
        case 'G':
          if (f->kind == 's' || f->kind == 'q') for (i = 0; i < 64 && write(S[a].fd, junk, 1024) > 0; i++) ;
          break;
        case 'L':
          if ((f->kind == 's' || f->kind == 'q') && f->peer != -1) for (i = 0; i < 64 && read(f->peer, junk, sizeof junk) > 0; i++) ;
          break;
        }
      }
      break;
    case 'I':
      if (sscanf(tok + 1, "%d", &a) == 1 && a >= 0 && a < MAXS && S[a].fd != -1 && nh < MAXH &&
          !(!fd_exists_in_loop(S[a].fd) && any_live_raw(S[a].fd)) && !(strict && any_live(S[a].fd))) {
        int fd = S[a].fd; struct hnd* h = new_handle('p', fd); int rc;
        rc = uv_poll_init(&loop, &h->poll, fd);
        h->poll.data = (void*) (intptr_t) (nh - 1);
        h->inited = (rc == 0); h->closed = (rc != 0);
        printf("i%d=%d@%d ", nh - 1, rc, fd);
      } else printf("- ");
      break;
    case 'J':
      if (sscanf(tok + 1, "%d", &a) == 1 && a >= 0 && a < MAXS && S[a].fd != -1 && nh < MAXH && !any_live(S[a].fd)) {
        int fd = S[a].fd; struct hnd* h = new_handle('r', fd);
        uv__io_init(&h->raw, raw_cb, fd);
        h->inited = 1;
        printf("j%d=0@%d ", nh - 1, fd);
      } else printf("- ");
      break;
    case 'S':
      if (sscanf(tok + 1, "%d,%d", &a, &b) == 2 && valid(a) && fd_is_open(H[a]->fd)) {
        b &= 15;
        if (H[a]->kind == 'p') {
          int rc = uv_poll_start(&H[a]->poll, b, poll_cb);
          if (rc == 0) { H[a]->live = (b != 0); H[a]->req = b; }
          printf("s%d,%d=%d ", a, b, rc);
        } else if (H[a]->kind == 'u') { uv_udp_recv_start(&H[a]->udp, udp_alloc_cb, udp_recv_cb); printf("s%d,1=0 ", a); }
        else if (b != 0) { uv__io_start(&loop, &H[a]->raw, uv2poll(b)); printf("s%d,%d=0 ", a, b); }
        else printf("- ");
      } else printf("- ");
      break;
    case 'T':
      if (sscanf(tok + 1, "%d,%d", &a, &b) == 2 && valid(a)) {
        b &= 15;
        if (H[a]->kind == 'p') { uv_poll_stop(&H[a]->poll); H[a]->live = 0; printf("t%d,0 ", a); }
        else if (H[a]->kind == 'u') { uv_udp_recv_stop(&H[a]->udp); printf("t%d,1 ", a); }
        else if (b != 0) { uv__io_stop(&loop, &H[a]->raw, uv2poll(b)); printf("t%d,%d ", a, b); }
        else printf("- ");
      } else printf("- ");
      break;
    case 'C':
      if (sscanf(tok + 1, "%d", &a) == 1 && valid(a)) {
        if (H[a]->kind == 'p') uv_close((uv_handle_t*) &H[a]->poll, close_cb);
        else uv__io_close(&loop, &H[a]->raw);
        H[a]->closed = 1; H[a]->live = 0;
        printf("z%d ", a);
      } else printf("- ");
      break;
    case 'F':
      if (sscanf(tok + 1, "%d", &a) == 1 && valid(a) && H[a]->kind == 'r') { uv__io_feed(&loop, &H[a]->raw); printf("f%d ", a); }
      else printf("- ");
      break;
    case 'A':
      if (sscanf(tok + 1, "%d", &a) == 1 && valid(a)) {
        if (H[a]->kind == 'p') printf("a%d=%d ", a, uv_is_active((uv_handle_t*) &H[a]->poll) ? 1 : 0);
        else printf("a%d=%d ", a, uv__io_active(&H[a]->raw, POLLIN | POLLOUT | UV__POLLRDHUP | UV__POLLPRI) ? 1 : 0);
      } else printf("- ");
      break;
    case 'V':
      /* a uv_udp_t opened on the slot's descriptor: a stream-like watcher that OWNS its descriptor
       * (uv_close closes it).  In the model: a bare watcher (uv__io_init). */
      if (sscanf(tok + 1, "%d", &a) == 1 && a >= 0 && a < MAXS && S[a].fd != -1 && nh < MAXH && !any_live(S[a].fd)) {
        int fd = S[a].fd; struct hnd* h = new_handle('u', fd); int rc;
        uv_udp_init(&loop, &h->udp);
        rc = uv_udp_open(&h->udp, fd);
        h->inited = 1;
        printf("j%d=%d@%d ", nh - 1, rc, fd);
      } else printf("- ");
      break;
    case 'Q':
      /* uv_close of the uv_udp_t: uv__udp_close = uv__io_close + close(fd).  Model: OClose; OCloseFd */
      if (sscanf(tok + 1, "%d,%d", &a, &b) == 2 && valid(a) && H[a]->kind == 'u' && b >= 0 && b < MAXS && S[b].fd == H[a]->fd) {
        int fd = H[a]->fd;
        uv_close((uv_handle_t*) &H[a]->udp, close_cb);
        H[a]->closed = 1; H[a]->live = 0;
        printf("z%d x%d ", a, fd);
        if (fd <= 2) { close(fd); dup2(g_nullfd, fd); }      /* libuv leaves stdio numbers open */
        S[b].fd = -1;
        if (--S[b].f->refs == 0) { if (S[b].f->peer != -1) close(S[b].f->peer); free(S[b].f); }
        S[b].f = NULL;
      } else printf("- - ");
      break;
    case 'Y':
      /* a fresh handle of another kind opened on the descriptor: must be refused (UV_EEXIST)
       * when a watcher is registered under the number.  When it is accepted the handle is
       * detached again at once (fd := -1, so that closing it leaves the descriptor alone). */
      if (sscanf(tok + 1, "%d,%d", &b, &a) == 2 && a >= 0 && a < MAXS && S[a].fd != -1) {
        int fd = S[a].fd, rc = 0;
        if (b == 0) {
          uv_pipe_t* p = calloc(1, sizeof *p); uv_pipe_init(&loop, p, 0);
          rc = uv_pipe_open(p, fd); p->io_watcher.fd = -1; uv_close((uv_handle_t*) p, close_cb);
        } else if (b == 1) {
          uv_tcp_t* p = calloc(1, sizeof *p); uv_tcp_init(&loop, p);
          rc = uv_tcp_open(p, fd); p->io_watcher.fd = -1; uv_close((uv_handle_t*) p, close_cb);
        } else {
          uv_udp_t* p = calloc(1, sizeof *p); uv_udp_init(&loop, p);
          rc = uv_udp_open(p, fd); p->io_watcher.fd = -1; uv_close((uv_handle_t*) p, close_cb);
        }
        printf("y%d@%d=%s ", b, fd, rc == UV_EEXIST ? "E" : ".");
      } else printf("- ");
      break;
    case 'R':
      if (!in_cb) uv_run(&loop, UV_RUN_NOWAIT);
      break;
    }
  }
}

static void run_case(char* line) {
  char *p1, *p2; int i, ring = 1; struct kent ks[64]; int nk;
  p1 = strchr(line, ';'); if (!p1) { printf("\n"); return; }
  *p1++ = 0; p2 = strchr(p1, ';'); if (!p2) { printf("\n"); return; }
  *p2++ = 0;
  strict = 0;
  sscanf(line, "%d %d", &ring, &strict);
  nh = nbeh = cbcount = 0; ninternal = 0;
  for (i = 0; i < MAXS; i++) { S[i].fd = -1; S[i].f = NULL; }
  fail_uring = !ring;
  uv_loop_init(&loop);
  fail_uring = 0;
  g_loop = &loop;
  uv_prepare_init(&loop, &keep); uv_prepare_start(&keep, keep_cb);
  quiet = 1;
  uv_run(&loop, UV_RUN_NOWAIT);       /* registers the loop's own watchers */
  nk = read_kernel_set(loop.backend_fd, ks, 64);
  for (i = 0; i < nk && i < 64; i++) internal_fd[ninternal++] = ks[i].fd;
  quiet = 0;
  printf("ring=%d ", uv__get_internal_fields((&loop))->ctl.ringfd != -1);
  {
    char* s = p2;
    for (;;) {
      char* e = strchr(s, '|');
      if (e) *e = 0;
      if (nbeh < MAXB) beh[nbeh++] = s;
      if (!e) break;
      s = e + 1;
    }
  }
  do_ops(p1, 0);
  printf("\n");
}

/* every case runs in a child of its own: a case that corrupts the loop, leaks, hangs or
 * makes libuv abort cannot disturb the cases behind it; it yields the line "DIED <status>" */
int main(void) {
  static char line[1 << 16];
  setvbuf(stdout, NULL, _IOFBF, 1 << 16);
  signal(SIGPIPE, SIG_IGN);
  while (fgets(line, sizeof line, stdin)) {
    pid_t pid; int st = 0;
    fflush(stdout);
    pid = fork();
    if (pid == 0) {
      alarm(30);
      {
        /* the output moves to a high number and 0, 1, 2 become /dev/null, so that the script may
         * place its own descriptors on the numbers 0, 1 and 2 */
        int hi = fcntl(1, F_DUPFD, 200), nul = open("/dev/null", O_RDWR);
        stdout = fdopen(hi, "w");
        setvbuf(stdout, NULL, _IOFBF, 1 << 16);
        dup2(nul, 0); dup2(nul, 1); dup2(nul, 2);
        g_nullfd = fcntl(nul, F_DUPFD, 210);
        if (nul > 2) close(nul);
      }
      run_case(line);
      fflush(stdout);
      _exit(0);
    }
    if (pid < 0 || waitpid(pid, &st, 0) < 0 || !WIFEXITED(st) || WEXITSTATUS(st) != 0) {
      printf("%sDIED %d\n", "", st);
      fflush(stdout);
    }
  }
  return 0;
}
