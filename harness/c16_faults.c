/* C16 fault enumeration harness.
 *
 * A forking server: one case per stdin line  "<scenario> <plan>"  (plan: see
 * c16_fault.h), one result line per case:
 *     <status>|<events>|<points>|<stderr digest>
 * status: EXIT0, EXIT<n>, ABORT, ASAN, SIG<n>, HANG.  Every case runs in a forked
 * child (ASan reports, aborts and hangs are contained).  Environment: C16_DIR
 * (scratch directory).
 */
#include "c16_fault.h"
#include <signal.h>
#include <sys/resource.h>
#include <arpa/inet.h>
#include <netinet/in.h>
#include <sys/un.h>
#include "uv.h"
#include "uv-common.h"
#include "unix/internal.h"

extern int __lsan_do_recoverable_leak_check(void);

static pid_t fi_pid;
static uv_loop_t L;
static int loop_ok;
static uv_timer_t wd;
static int wd_on, wd_fired;
static int pend;                 /* callbacks the scenario still waits for */
static int failed;               /* an unexpected error was reported: stop waiting, tear down */
static char self_exe[512];

static int fi_is_wakeup(int fd) {
  if (!loop_ok) return 0;
  return fd == L.signal_pipefd[0] || fd == L.signal_pipefd[1] || fd == L.async_io_watcher.fd || fd == L.async_wfd;
}
static int fi_is_sigpipe(int fd) { return loop_ok && fd >= 0 && fd == L.signal_pipefd[1]; }
static int fd_snapshot(int* out, int max);
static int fi_count_fds(void) { int f[512]; return fd_snapshot(f, 512); }
static int scen_arg;

static void fi_flush_and_exit(int code) {
  if (getpid() != fi_pid) _exit(127);     /* the fork()ed grandchild of uv_spawn */
  if (ev_buf) __real_write(1, ev_buf, ev_len);
  __real_write(1, "|", 1);
  if (pt_buf) __real_write(1, pt_buf, pt_len);
  _exit(code);
}

static void on_death(void) {          /* ASan/UBSan report: keep the partial trace */
  if (getpid() != fi_pid) return;
  if (ev_buf) __real_write(1, ev_buf, ev_len);
  __real_write(1, "|", 1);
  if (pt_buf) __real_write(1, pt_buf, pt_len);
}
static void on_sigabrt(int s) { (void) s; fi_on = 0; fi_flush_and_exit(78); }   /* assert() */
extern void __sanitizer_set_death_callback(void (*)(void));

/* ---- API call bracket --------------------------------------------------- */
/* kernel inotify watches of the loop: the "inotify wd:" lines of /proc/self/fdinfo/<inotify_fd> */
static int kwatches(void) {
  char p[64], line[256]; FILE* f; int n = 0, on = fi_on;
  if (!loop_ok || L.inotify_fd < 0) return 0;
  fi_on = 0;
  snprintf(p, sizeof p, "/proc/self/fdinfo/%d", L.inotify_fd);
  f = fopen(p, "r");
  if (f) { while (fgets(line, sizeof line, f)) if (!strncmp(line, "inotify wd:", 11)) n++; fclose(f); }
  fi_on = on;
  return n;
}
static int hq_count(void) {
  struct uv__queue* q; int n = 0;
  if (!loop_ok) return 0;
  uv__queue_foreach(q, &L.handle_queue) n++;
  return n;
}
static unsigned r0_, h0_; static int w0_, q0_;
static void api_begin(const char* name) {
  fi_api = name;
  if (loop_ok) { r0_ = L.active_reqs.count; h0_ = L.active_handles; w0_ = kwatches(); q0_ = hq_count(); }
}
static int api_end(const char* name, int rc, int mode) {
  char sfx[64] = "";
  if (rc < 0 && !(mode & 2)) failed = 1;
  if (rc < 0 && loop_ok) {
    int dr = (int) L.active_reqs.count - (int) r0_, dh = (int) L.active_handles - (int) h0_;
    if (dr) snprintf(sfx + strlen(sfx), 30, "!r%+d", dr);
    if (dh) snprintf(sfx + strlen(sfx), 30, "!h%+d", dh);
    if (kwatches() != w0_) snprintf(sfx + strlen(sfx), 30, "!w%+d", kwatches() - w0_);
    /* a failed call must not leave a handle linked into the loop (uv_spawn does, by design: its handle has to be closed) */
    if (hq_count() != q0_ && strncmp(name, "spawn", 5)) snprintf(sfx + strlen(sfx), 30, "!q%+d", hq_count() - q0_);
  }
  if (rc < 0) ev("%s=%s%s", name, uv_err_name(rc), sfx);
  else if (mode & 1) ev("%s=ok", name);
  else ev("%s=%d", name, rc);
  fi_api = "-";
  return rc;
}
#define API(name, expr) (api_begin(name), api_end(name, (int) (expr), 0))
#define APIK(name, expr) (api_begin(name), api_end(name, (int) (expr), 1))
/* APIX: a call whose failure does not end the scenario (independent operation or expected error) */
#define APIX(name, expr) (api_begin(name), api_end(name, (int) (expr), 2))
#define APIXK(name, expr) (api_begin(name), api_end(name, (int) (expr), 3))
static void cbevx(const char* name, long st) {
  if (st < 0) ev("cb.%s=%s", name, uv_err_name((int) st)); else ev("cb.%s=%ld", name, st);
}
static void cbev(const char* name, long st) { if (st < 0) failed = 1; cbevx(name, st); }

static void wd_cb(uv_timer_t* t) { (void) t; wd_fired = 1; }
/* returns non-zero when the scenario should go to its epilogue */
static int run_pending(void) {
  int i;
  for (i = 0; i < 5000 && pend > 0 && !wd_fired && !failed; i++) {
    if (!uv_loop_alive(&L)) { ev("stall=%d", pend); return 1; }
    fi_api = "run";
    uv_run(&L, UV_RUN_ONCE);
    fi_api = "-";
  }
  if (failed) { pend = 0; return 1; }
  if (wd_fired) { ev("WATCHDOG=%d", pend); return 1; }
  if (pend > 0) { ev("CAP=%d", pend); return 1; }
  return 0;
}
static void run_nowait(int n) {
  int i;
  for (i = 0; i < n; i++) { fi_api = "run"; uv_run(&L, UV_RUN_NOWAIT); fi_api = "-"; }
}

static int loop_begin(void) {
  if (API("loop_init", uv_loop_init(&L)) != 0) return -1;
  loop_ok = 1;
  uv_timer_init(&L, &wd);
  uv_timer_start(&wd, wd_cb, 5000, 0);
  uv_unref((uv_handle_t*) &wd);
  wd_on = 1;
  return 0;
}

static int nclosing;
static void on_close(uv_handle_t* h) { (void) h; nclosing--; }
static void walk_close(uv_handle_t* h, void* arg) {
  (void) arg;
  if (h == (uv_handle_t*) &wd) return;
  if (!uv_is_closing(h)) { nclosing++; uv_close(h, on_close); }
}

static int fd_snapshot(int* out, int max) {
  DIR* d = __real_opendir("/proc/self/fd");
  struct dirent* e; int n = 0, self = d ? dirfd(d) : -1;
  if (!d) return -1;
  while ((e = readdir(d)) != NULL) {
    int fd;
    if (e->d_name[0] == '.') continue;
    fd = atoi(e->d_name);
    if (fd == self) continue;
    if (n < max) out[n++] = fd;
  }
  closedir(d);
  return n;
}
static int base_fds[256], nbase;

static void loop_end(void) {
  int i;
  if (loop_ok) {
    fi_api = "teardown";
    uv_walk(&L, walk_close, NULL);
    /* everything user-visible is closing now; completion must not need more than this */
    uv_timer_start(&wd, wd_cb, 1000, 0);
    wd_fired = 0;
    for (i = 0; i < 5000 && uv_loop_alive(&L) && !wd_fired; i++) {
      fi_api = "run";
      uv_run(&L, UV_RUN_ONCE);
    }
    if (wd_fired) ev("WATCHDOG-teardown");
    uv_close((uv_handle_t*) &wd, NULL);
    run_nowait(5);
    if (L.inotify_fd >= 0) ev("watches_end=%d", kwatches());
    ev("alive=%d", uv_loop_alive(&L) ? 1 : 0);
    ev("reqs=%u", L.active_reqs.count);
    api_begin("loop_close");
    i = uv_loop_close(&L);
    fi_api = "-";
    ev("loop_close=%s", i == 0 ? "0" : uv_err_name(i));
    loop_ok = 0;
  }
}

static void final_report(void) {
  int fds[256], n, i, j, extra = 0, lost = 0;
  char kinds[400] = "";
  fi_api = "shutdown";
  uv_library_shutdown();
  fi_on = 0;
  n = fd_snapshot(fds, 256);
  for (i = 0; i < n; i++) {
    for (j = 0; j < nbase && base_fds[j] != fds[i]; j++);
    if (j == nbase) {
      char p[64], t[128]; ssize_t r;
      snprintf(p, sizeof p, "/proc/self/fd/%d", fds[i]);
      r = readlink(p, t, sizeof t - 1);
      if (r < 0) r = 0;
      t[r] = 0;
      if (strchr(t, ':')) *strchr(t, ':') = 0;         /* socket:[123] -> socket */
      if (strlen(kinds) + strlen(t) + 2 < sizeof kinds) {
        char* s = strrchr(t, '/');
        strcat(kinds, s ? s + 1 : t); strcat(kinds, ",");
      }
      extra++;
    }
  }
  for (j = 0; j < nbase; j++) {
    for (i = 0; i < n && base_fds[j] != fds[i]; i++);
    if (i == n) lost++;
  }
  ev("fdleak=%d%s%s", extra, extra ? ":" : "", kinds);
  ev("fdlost=%d", lost);
  ev("live=%ld", (long) fi_live);
  ev("lsan=%d", __lsan_do_recoverable_leak_check() ? 1 : 0);
  ev("fired=%d", fi_fired);
}

/* ---- scenarios ----------------------------------------------------------- */
#include "c16_scenarios.h"

struct scen { const char* name; void (*fn)(void); };
static const struct scen scens[] = { SCENARIOS {NULL, NULL} };

static void run_case(const char* scen, const char* plan, const char* wdir) {
  int i;
  struct rlimit rl;
  fi_main = pthread_self();
  fi_pid = getpid();
  if (chdir(wdir)) _exit(3);
  setenv("UV_THREADPOOL_SIZE", "1", 1);
  setenv("C16_VAR", "value", 1);
  rl.rlim_cur = rl.rlim_max = 0; setrlimit(RLIMIT_CORE, &rl);
  if (fi_parse(plan)) { ev("BADPLAN"); fi_flush_and_exit(4); }
  uv_replace_allocator(fi_malloc, fi_realloc, fi_calloc, fi_free);
  nbase = fd_snapshot(base_fds, 256);
  /* the logs are allocated up front: libuv's signal handler makes wrapped calls, and growing a
     buffer there could re-enter malloc */
  ev_cap = pt_cap = 4u << 20;
  ev_buf = malloc(ev_cap); pt_buf = malloc(pt_cap);
  ev_buf[0] = pt_buf[0] = 0;
  alarm(20);
  __sanitizer_set_death_callback(on_death);
  signal(SIGABRT, on_sigabrt);
  if (strchr(scen, ':')) scen_arg = atoi(strchr(scen, ':') + 1);
  for (i = 0; scens[i].name; i++)
    if (!strncmp(scens[i].name, scen, strcspn(scen, ":")) && strlen(scens[i].name) == strcspn(scen, ":")) {
      fi_on = 1;
      scens[i].fn();
      final_report();
      fi_flush_and_exit(0);
    }
  ev("NOSCENARIO");
  fi_flush_and_exit(4);
}

#include <ftw.h>
static int rm_cb(const char* p, const struct stat* st, int flag, struct FTW* f) { (void) st; (void) flag; (void) f; return remove(p); }

static char* slurp(int fd, size_t* len) {
  off_t n = lseek(fd, 0, SEEK_END);
  char* b = malloc((size_t) n + 1);
  lseek(fd, 0, SEEK_SET);
  *len = 0;
  while (*len < (size_t) n) {
    ssize_t r = __real_read(fd, b + *len, (size_t) n - *len);
    if (r <= 0) break;
    *len += (size_t) r;
  }
  b[*len] = 0;
  return b;
}

static void digest(const char* err, char* out, size_t cap) {
  /* keep the report headline and the first frames that are inside libuv/harness */
  const char* p = err; size_t o = 0; int frames = 0;
  out[0] = 0;
  while (*p && o + 200 < cap) {
    const char* e = strchr(p, '\n'); size_t n = e ? (size_t) (e - p) : strlen(p);
    int keep = 0;
    if (n > 0) {
      if (strstr(p, "ERROR: ") && strstr(p, "ERROR: ") < p + n) keep = 1;
      else if (strstr(p, "runtime error") && strstr(p, "runtime error") < p + n) keep = 1;
      else if (strstr(p, "Assertion") && strstr(p, "Assertion") < p + n) keep = 1;
      else if (strstr(p, "RETRYARGS:") == p) keep = 1;
      else if (strstr(p, "SUMMARY") && strstr(p, "SUMMARY") < p + n) keep = 1;
      else if (frames < 14 && strstr(p, "    #") == p) { keep = 1; frames++; }
      else if (strstr(p, "freed by") == p || strstr(p, "previously allocated") == p ||
               strstr(p, "Direct leak") == p || strstr(p, "Indirect leak") == p) keep = 1;
    }
    if (keep) {
      size_t i, m = n > 180 ? 180 : n;
      for (i = 0; i < m; i++) out[o++] = (p[i] == '|' || p[i] == '\r') ? '/' : p[i];
      out[o++] = '~';
    }
    if (!e) break;
    p = e + 1;
  }
  out[o] = 0;
}

int main(int argc, char** argv) {
  char line[4096];
  const char* dir = getenv("C16_DIR");
  /* helper roles of the spawn scenarios */
  if (argc >= 2 && !strcmp(argv[1], "--child")) {
    const char* msg = "hello from child\n";
    if (argc >= 4 && !strcmp(argv[3], "echo")) { if (__real_write(1, msg, strlen(msg)) < 0) _exit(9); }
    if (argc >= 4 && !strcmp(argv[3], "cat")) {
      char b[256]; ssize_t r;
      while ((r = __real_read(0, b, sizeof b)) > 0) if (__real_write(1, b, (size_t) r) < 0) _exit(9);
    }
    _exit(atoi(argv[2]));
  }
  if (!dir) dir = "/tmp";
  if (readlink("/proc/self/exe", self_exe, sizeof self_exe - 1) < 0) return 2;
  signal(SIGPIPE, SIG_IGN);
  while (fgets(line, sizeof line, stdin)) {
    char scen[128], plan[3800];
    char tmpl1[600], tmpl2[600], dg[6000], wdir[600]; static int serial;
    int fo, fe, status = 0, waited = 0, i;
    pid_t pid;
    char* out; char* err; size_t no, ne;
    const char* st; char stb[32];
    if (sscanf(line, "%127s %3799s", scen, plan) != 2) { printf("BADCASE|||\n"); fflush(stdout); continue; }
    snprintf(tmpl1, sizeof tmpl1, "%s/outXXXXXX", dir);
    snprintf(tmpl2, sizeof tmpl2, "%s/errXXXXXX", dir);
    fo = mkstemp(tmpl1); fe = mkstemp(tmpl2);
    if (fo < 0 || fe < 0) { printf("HARNESS-ERROR|mkstemp||\n"); fflush(stdout); continue; }
    unlink(tmpl1); unlink(tmpl2);
    fflush(stdout);
    snprintf(wdir, sizeof wdir, "%s/%d_%d", dir, (int) getpid(), serial++);
    mkdir(wdir, 0700);
    pid = __real_fork();
    if (pid == 0) {
      __real_dup2(fo, 1); __real_dup2(fe, 2);
      __real_syscall(SYS_close, fo); __real_syscall(SYS_close, fe);
      __real_syscall(SYS_close, 0);
      if (__real_open64("/dev/null", O_RDONLY) != 0) _exit(5);
      run_case(scen, plan, wdir);
      _exit(6);
    }
    /* parent: wait (the child has its own alarm; this is the backstop) */
    for (i = 0; i < 60000; i++) {
      pid_t w = __real_waitpid(pid, &status, WNOHANG);
      struct timespec ts = {0, 1000000};
      if (w == pid) { waited = 1; break; }
      __real_nanosleep(&ts, NULL);
    }
    if (!waited) { kill(pid, SIGKILL); __real_waitpid(pid, &status, 0); }
    nftw(wdir, rm_cb, 16, FTW_DEPTH | FTW_PHYS);
    out = slurp(fo, &no); err = slurp(fe, &ne);
    __real_syscall(SYS_close, fo); __real_syscall(SYS_close, fe);
    if (!waited) st = "HANG";
    else if (WIFSIGNALED(status)) {
      if (WTERMSIG(status) == SIGALRM) st = "HANG";
      else { snprintf(stb, sizeof stb, "SIG%d", WTERMSIG(status)); st = stb; }
    } else if (WEXITSTATUS(status) == 0) st = "EXIT0";
    else if (WEXITSTATUS(status) == 77) st = "ABORT";
    else if (WEXITSTATUS(status) == 78) st = "ASSERT";
    else if (WEXITSTATUS(status) == 79) st = "SPIN";
    else if (WEXITSTATUS(status) == 98) st = "ASAN";
    else { snprintf(stb, sizeof stb, "EXIT%d", WEXITSTATUS(status)); st = stb; }
    digest(err, dg, sizeof dg);
    for (i = 0; out[i]; i++) if (out[i] == '\n') out[i] = ' ';
    if (!strchr(out, '|')) printf("%s|%s||%s\n", st, out, dg);
    else printf("%s|%s|%s\n", st, out, dg);
    fflush(stdout);
    free(out); free(err);
  }
  return 0;
}
