/* C06: the stream read path of the freshly built libuv, driven through the
 * public API on a socketpair(AF_UNIX, SOCK_STREAM) opened with uv_pipe_open
 * (argv[1] = "unix"; the case header selects ipc = 0/1) or on a TCP loopback
 * connection opened with uv_tcp_open ("tcp").  The peer end is a plain
 * descriptor written by the harness (counter pattern, scripted chunk sizes,
 * optionally a descriptor attached with SCM_RIGHTS), half-closed or closed.
 * Link with -Wl,--wrap=read,--wrap=recvmsg,--wrap=epoll_pwait,--wrap=write,--wrap=writev,--wrap=sendmsg.
 *
 * read/recvmsg on the stream's descriptor take the next scripted token:
 *   n<k>  perform the real call with at most k bytes offered (real data, truncated)
 *   a     fail with EAGAIN without calling      i   fail with EINTR
 *   e<n>  fail with errno n                     p / script exhausted: pass through
 * epoll_pwait is passed through (timeout 0) and the events reported for the
 * stream's descriptor are logged (and altered when the R op says so).
 *
 * case:   <ipc> ; ops ; beh0 | beh1 | ... ; allocs ; script
 *   ops:  S<tok> uv_read_start   T uv_read_stop   C uv_close
 *         R      uv_run(UV_RUN_NOWAIT);  R=<m> report exactly m,  R|<m> add bits,  R-<m> clear bits
 *         w<n>   peer writes n bytes     g<n> peer sends n bytes + one descriptor (SCM_RIGHTS)
 *         h      peer shutdown(SHUT_WR)  q    peer close
 *         u<n>   n bytes are put into the peer's receive queue (so that q resets the connection)
 *         X<e>   a 5-byte uv_write from our side; e != 0: its write(2) fails with errno e
 *         d      peer shutdown(SHUT_RD): our writes really fail with EPIPE (AF_UNIX)
 *         Z      drain: rest of the script dropped, uv_run(NOWAIT) until two idle iterations (max 200);
 *                prints Z<iterations> E<bytes still readable>,<ended idle>
 *         V      uv_write of 16 MiB that the peer never reads: POLLOUT stays requested, the handle is
 *                polled also while not reading; q then resets (unread data at the peer)
 *   beh:  S<tok> T C   inside the k-th read callback
 *   allocs: k-th alloc callback, cyclically: <len> (own heap block; 0 = refusal with a non-NULL base) |
 *           n<len> (base NULL; n0 = refusal storing NULL/0) | k (refusal by not touching *buf)
 * output: <trace> ; <oracle log> ; <msghdr log>
 *   msghdr log: for every recvmsg on the stream, as offered by libuv: msg_controllen,
 *   msg_control != NULL, msg_iovlen, msg_flags on entry, and MSG_CTRUNC on return
 *   trace tokens (ocaml/drv_c06.ml prints the same, except the upper-case
 *   harness-only tokens W<total> G<total> H Q U K M B<n> V<ret> N<ret> Y<status> O<0/1> D<n> Z<k> E<n>,<idle> Jr<id> Jb<id>,<n>;
 *   Jr = read()/recvmsg() was pointed at memory that is not the block of the current alloc_cb (id of the
 *   already returned block, or -1), Jb = block <id> handed back for the n-th time,
 *   D = uv_pipe_pending_count() after the call (ipc),
 *   O = POLLOUT requested when epoll_pwait was called, V = uv_write returned, Y = write_cb status,
 *   G = that write carried a descriptor, B<n> = n bytes were still readable at this UV_EOF):
 *   P<raw>  A<id>,<suggested>,<base>,<len>  k<len>:<ans>@<off>  r<tok>:<nread>:<buf>:<off>,<len>
 *   s<ret> t<ret> c0  x  f<readable><active><closing>
 *   K = the next k was capped by the script, M = the next P was altered upwards by the script */
#include <stdio.h>
#include <stdlib.h>
#include <string.h>
#include <errno.h>
#include <unistd.h>
#include <fcntl.h>
#include <poll.h>
#include <signal.h>
#include <sys/socket.h>
#include <sys/epoll.h>
#include <sys/uio.h>
#include <netinet/in.h>
#include <arpa/inet.h>
#include "uv.h"
#include "uv-common.h"

ssize_t __real_read(int, void*, size_t);
ssize_t __real_recvmsg(int, struct msghdr*, int);
int __real_epoll_pwait(int, struct epoll_event*, int, int, const sigset_t*);

#define MAXBEH 1024
#define MAXAL 64

static int tcp_mode;
static uv_loop_t loop;
static union { uv_pipe_t pipe; uv_tcp_t tcp; uv_stream_t stream; uv_handle_t handle; } h;
static uv_prepare_t keepalive;
static int g_fd = -1, g_peer = -1, g_active, g_quiet, g_closing, g_ipc, g_devnull = -1;
static char* beh[MAXBEH]; static int nbeh, cbn;
static struct { int base_ok; size_t len; int keep; } al[MAXAL]; static int nal, alloc_n;
static char** script; static int nscript, script_pos;
static FILE* olog; static char* olog_buf; static size_t olog_len;
static FILE* mlog; static char* mlog_buf; static size_t mlog_len;
static unsigned long long peer_written, kpos, delivered;
/* the one buffer that may be outstanding */
static struct { int live; int id; char* base; size_t len; int granted; } out;
/* blocks already handed back: kept (not freed) for a while so that a read into one of them, or a second
 * hand-back, is seen by bookkeeping instead of corrupting the heap */
#define NQ 64
static struct { char* p; size_t len; int id; int times; } quar[NQ]; static int quar_pos;
static int quar_find(const char* p) {
  int i; if (!p) return -1;
  for (i = 0; i < NQ; i++) if (quar[i].p && p >= quar[i].p && p < quar[i].p + (quar[i].len ? quar[i].len : 1)) return i;
  return -1;
}
static void quar_add(char* p, size_t len, int id) {
  if (quar[quar_pos].p) free(quar[quar_pos].p);
  quar[quar_pos].p = p; quar[quar_pos].len = len; quar[quar_pos].id = id; quar[quar_pos].times = 1;
  quar_pos = (quar_pos + 1) % NQ;
}
static void quar_clear(void) { int i; for (i = 0; i < NQ; i++) { free(quar[i].p); quar[i].p = NULL; } quar_pos = 0; }
/* override of the next poll */
static int ov_kind; static unsigned ov_mask; static unsigned last_given;

static void do_ops(char* ops, int in_cb);
static void check_target(const void* p);

static unsigned char pat(unsigned long long i) {
  return (unsigned char) (i * 167u + (i >> 8) * 13u + (i >> 16) + 1u);
}

/* ---- system call wrappers ---- */
static const char* next_tok(void) { return script_pos < nscript ? script[script_pos++] : "p"; }

/* returns 1 when the call is to be failed with *err, 0 when it is to be performed with *cap */
static int scripted(size_t len, size_t* cap, int* err) {
  const char* t = next_tok();
  *cap = len;
  switch (t[0]) {
  case 'i': *err = EINTR; return 1;
  case 'a': *err = EAGAIN; return 1;
  case 'e': *err = atoi(t + 1); return 1;
  case 'n': { unsigned long long k = strtoull(t + 1, NULL, 10); if (k < 1) k = 1; if (k < len) *cap = (size_t) k; return 0; }
  default: return 0;
  }
}

static void log_fail(size_t len, int e) {
  if (e == EINTR) { fprintf(olog, "i "); return; }
  if (e == EAGAIN) { fprintf(olog, "a "); if (!g_quiet) printf("k%zu:a@%llu ", len, kpos); return; }
  fprintf(olog, "e%d ", e);
  if (!g_quiet) printf("k%zu:e%d@%llu ", len, e, kpos);
}

static void log_result(size_t len, size_t cap, ssize_t r, int e) {
  if (r < 0) { log_fail(len, e); return; }
  if (r == 0) { fprintf(olog, "z "); if (!g_quiet) printf("k%zu:z@%llu ", len, kpos); return; }
  fprintf(olog, "d%zd ", r);
  if (!g_quiet) printf("%sk%zu:d%zd@%llu ", (cap < len && (size_t) r == cap) ? "K " : "", len, r, kpos);
  kpos += r;
}

ssize_t __wrap_read(int fd, void* buf, size_t n) {
  size_t cap; int e; ssize_t r;
  if (!g_active || fd != g_fd) return __real_read(fd, buf, n);
  check_target(buf);
  if (scripted(n, &cap, &e)) { log_fail(n, e); errno = e; return -1; }
  r = __real_read(fd, buf, cap); e = errno;
  log_result(n, cap, r, e);
  errno = e;
  return r;
}

ssize_t __wrap_recvmsg(int fd, struct msghdr* m, int flags) {
  size_t cap, n; int e; ssize_t r; struct msghdr mm; struct iovec iv;
  if (!g_active || fd != g_fd) return __real_recvmsg(fd, m, flags);
  /* the msghdr as libuv offers it, on every call: control space is value-result */
  fprintf(mlog, "%zu,%d,%zu,%d", (size_t) m->msg_controllen, m->msg_control != NULL,
          (size_t) m->msg_iovlen, m->msg_flags);
  if (m->msg_iovlen != 1) { fprintf(mlog, ",0 "); return __real_recvmsg(fd, m, flags); }
  check_target(m->msg_iov[0].iov_base);
  n = m->msg_iov[0].iov_len;
  if (scripted(n, &cap, &e)) { fprintf(mlog, ",0 "); log_fail(n, e); errno = e; return -1; }
  mm = *m; iv = m->msg_iov[0]; iv.iov_len = cap; mm.msg_iov = &iv;
  r = __real_recvmsg(fd, &mm, flags); e = errno;
  m->msg_controllen = mm.msg_controllen; m->msg_flags = mm.msg_flags;
  fprintf(mlog, ",%d ", (r >= 0 && (mm.msg_flags & MSG_CTRUNC)) ? 1 : 0);
  log_result(n, cap, r, e);
  errno = e;
  return r;
}

int __wrap_epoll_pwait(int epfd, struct epoll_event* ev, int max, int timeout, const sigset_t* ss) {
  int n, i, at = -1; unsigned real = 0, given;
  if (!g_active || epfd != loop.backend_fd) return __real_epoll_pwait(epfd, ev, max, timeout, ss);
  n = __real_epoll_pwait(epfd, ev, max, 0, ss);
  if (n < 0) n = 0;
  if (!g_quiet) printf("O%d ", (!g_closing && (h.stream.io_watcher.pevents & POLLOUT)) ? 1 : 0);
  if (g_closing) { last_given = 0; if (!g_quiet) printf("P0 "); return n; }
  for (i = 0; i < n; i++) if (ev[i].data.fd == g_fd) { at = i; real = ev[i].events; }
  given = real;
  if (ov_kind == '=') given = ov_mask;
  else if (ov_kind == '|') given = real | ov_mask;
  else if (ov_kind == '-') given = real & ~ov_mask;
  ov_kind = 0;
  if (given != real) {
    if (given & ~real) { if (!g_quiet) printf("M "); }
    if (given == 0) { ev[at] = ev[n - 1]; n--; }
    else if (at >= 0) ev[at].events = given;
    else if (n < max) { memset(&ev[n], 0, sizeof ev[n]); ev[n].events = given; ev[n].data.fd = g_fd; n++; }
    else given = real;
  }
  last_given = given;
  if (!g_quiet) printf("P%u ", given);
  return n;
}

/* our own writes: X<errno> makes the next write/writev/sendmsg on the stream fail with errno */
ssize_t __real_write(int, const void*, size_t);
ssize_t __real_writev(int, const struct iovec*, int);
ssize_t __real_sendmsg(int, const struct msghdr*, int);
static int next_write_err;
ssize_t __wrap_write(int fd, const void* b, size_t n) {
  if (g_active && fd == g_fd && next_write_err) { errno = next_write_err; next_write_err = 0; return -1; }
  return __real_write(fd, b, n);
}
ssize_t __wrap_writev(int fd, const struct iovec* v, int c) {
  if (g_active && fd == g_fd && next_write_err) { errno = next_write_err; next_write_err = 0; return -1; }
  return __real_writev(fd, v, c);
}
ssize_t __wrap_sendmsg(int fd, const struct msghdr* m, int fl) {
  if (g_active && fd == g_fd && next_write_err) { errno = next_write_err; next_write_err = 0; return -1; }
  return __real_sendmsg(fd, m, fl);
}

/* ---- callbacks ---- */
static void alloc_cb(uv_handle_t* hd, size_t suggested, uv_buf_t* buf) {
  int k = alloc_n++;
  int base_ok = 1, keep = 0; size_t len = 65536;
  (void) hd;
  if (nal > 0) { base_ok = al[k % nal].base_ok; len = al[k % nal].len; keep = al[k % nal].keep; }
  if (g_quiet) { buf->base = NULL; buf->len = 0; return; }
  if (out.live) printf("A!");          /* previous buffer never handed back */
  out.live = 1; out.id = k;
  if (keep) {                          /* refusal by leaving *buf as libuv prepared it */
    out.granted = 0; out.base = buf->base; out.len = buf->len;
    printf("A%d,%zu,%d,%zu ", k, suggested, buf->base != NULL, (size_t) buf->len);
    return;
  }
  out.len = len; out.granted = base_ok;
  out.base = base_ok ? malloc(len ? len : 1) : NULL;   /* every granted buffer is its own heap block */
  if (out.base) memset(out.base, 0xEE, len ? len : 1);
  buf->base = out.base; buf->len = len;
  printf("A%d,%zu,%d,%zu ", k, suggested, base_ok, len);
}

/* where read()/recvmsg() is told to put the data: must be the block granted by the current alloc_cb */
static void check_target(const void* p) {
  if (g_quiet) return;
  if (!(out.live && out.granted && (const char*) p == out.base)) {
    int q = quar_find(p);
    printf("Jr%d ", q >= 0 ? quar[q].id : -1);
  }
}

static void on_read(int tok, uv_stream_t* s, ssize_t nread, const uv_buf_t* buf) {
  char id[32];
  (void) s;
  if (g_quiet) return;
  if (quar_find(buf->base) >= 0) {      /* a block that was already handed back */
    int q = quar_find(buf->base);
    quar[q].times++;
    printf("Jb%d,%d ", quar[q].id, quar[q].times);
    strcpy(id, "?");
    if (out.live && !out.granted) out.live = 0;
  } else if (out.live && buf->base == out.base && buf->len == out.len) {
    snprintf(id, sizeof id, "%d", out.id);
  } else if (buf->base == NULL && buf->len == 0) strcpy(id, "-");
  else strcpy(id, "?");
  if (nread > 0) {
    long long off = -1; ssize_t i;
    if (id[0] != '-' && id[0] != '?' && (size_t) nread <= out.len) {
      for (i = 0; i < nread; i++) if ((unsigned char) buf->base[i] != pat(delivered + i)) break;
      if (i == nread) off = (long long) delivered;
      else {      /* which bytes are these, then? (diagnostics) */
        unsigned long long j;
        for (j = 0; j + nread <= peer_written && off < 0; j++) {
          for (i = 0; i < nread; i++) if ((unsigned char) buf->base[i] != pat(j + i)) break;
          if (i == nread && j != delivered) off = (long long) j;
        }
        if (off < 0) off = -1;
      }
    }
    printf("r%d:%zd:%s:%lld,%zd ", tok, nread, id, off, nread);
    delivered += nread;
  } else {
    printf("r%d:%zd:%s:0,0 ", tok, nread, id);
    if (nread == UV_EOF && !g_closing) {      /* what is still readable at UV_EOF (harness-only token) */
      static char peek[65536];
      ssize_t left = recv(g_fd, peek, sizeof peek, MSG_PEEK | MSG_DONTWAIT);
      if (left > 0) printf("B%zd ", left);
    }
  }
  if (id[0] != '-' && id[0] != '?') {
    if (out.granted && out.base) quar_add(out.base, out.len, out.id);
    out.live = 0; out.base = NULL; out.granted = 0;
  }
  {
    int k = cbn++;
    if (k < nbeh) { char* copy = strdup(beh[k]); do_ops(copy, 1); free(copy); }
  }
}
static void rcb1(uv_stream_t* s, ssize_t n, const uv_buf_t* b) { on_read(1, s, n, b); }
static void rcb2(uv_stream_t* s, ssize_t n, const uv_buf_t* b) { on_read(2, s, n, b); }
static void rcb3(uv_stream_t* s, ssize_t n, const uv_buf_t* b) { on_read(3, s, n, b); }
static uv_read_cb rcbs[] = { rcb1, rcb1, rcb2, rcb3 };

#define NWR 16
#define BIGW (16u << 20)
static uv_write_t wreqs[NWR]; static int nwr; static char* bigbuf;
static void write_cb(uv_write_t* req, int status) { (void) req; if (!g_quiet) printf("Y%d ", status); }

static void close_cb(uv_handle_t* hd) { (void) hd; if (!g_quiet) printf("x "); }
static void prep_cb(uv_prepare_t* p) { (void) p; }

/* ---- the peer ---- */
static void peer_write(size_t n, int with_fd) {
  unsigned char* b; size_t i; ssize_t r;
  if (g_peer < 0) return;
  b = malloc(n ? n : 1);
  for (i = 0; i < n; i++) b[i] = pat(peer_written + i);
  if (with_fd && !tcp_mode) {
    struct msghdr m; struct iovec iv; union { struct cmsghdr hd; char space[CMSG_SPACE(sizeof(int))]; } c;
    struct cmsghdr* cm;
    memset(&m, 0, sizeof m); memset(&c, 0, sizeof c);
    iv.iov_base = b; iv.iov_len = n; m.msg_iov = &iv; m.msg_iovlen = 1;
    m.msg_control = c.space; m.msg_controllen = sizeof c.space;
    cm = CMSG_FIRSTHDR(&m); cm->cmsg_level = SOL_SOCKET; cm->cmsg_type = SCM_RIGHTS;
    cm->cmsg_len = CMSG_LEN(sizeof(int));
    memcpy(CMSG_DATA(cm), &g_devnull, sizeof(int));
    r = sendmsg(g_peer, &m, MSG_NOSIGNAL);
  } else {
    r = send(g_peer, b, n, MSG_NOSIGNAL);
  }
  if (r > 0) peer_written += r;
  free(b);
  printf("%c%llu ", (with_fd && !tcp_mode) ? 'G' : 'W', peer_written);
}

static void do_ops(char* ops, int in_cb) {
  char* save = NULL; char* tok;
  for (tok = strtok_r(ops, " \n", &save); tok; tok = strtok_r(NULL, " \n", &save)) {
    int r, model_op = 1;
    switch (tok[0]) {
    case 'S': {
      int t = atoi(tok + 1); if (t < 1 || t > 3) t = 1;
      r = uv_read_start(&h.stream, alloc_cb, rcbs[t]);
      printf("s%d ", r);
      break; }
    case 'T':
      r = uv_read_stop(&h.stream);
      printf("t%d ", r);
      break;
    case 'C':
      if (!g_closing) { g_closing = 1; uv_close(&h.handle, close_cb); printf("c0 "); }
      break;
    case 'R':
      if (in_cb) { model_op = 0; break; }
      ov_kind = tok[1]; ov_mask = ov_kind ? (unsigned) strtoul(tok + 2, NULL, 10) : 0;
      uv_run(&loop, UV_RUN_NOWAIT);
      break;
    case 'X':          /* a small uv_write from our side; X<errno>: its write(2) fails with errno */
      if (in_cb) { model_op = 0; break; }
      if (!g_closing && nwr < NWR) {
        static char small[5] = "write"; uv_buf_t b = uv_buf_init(small, 5);
        next_write_err = atoi(tok + 1);
        r = uv_write(&wreqs[nwr], &h.stream, &b, 1, write_cb);
        next_write_err = 0;
        if (r == 0) nwr++;
        printf("N%d ", r);
      }
      break;
    case 'd': model_op = 0; if (!in_cb && g_peer >= 0) shutdown(g_peer, SHUT_RD); break;
    case 'Z': model_op = 0;       /* drain: script and overrides off, run until idle twice */
      if (!in_cb) {
        int k, idle = 0; long left = 0;
        script_pos = nscript;
        for (k = 0; k < 200 && idle < 2 && !g_closing; k++) {
          int before = cbn + alloc_n;
          ov_kind = 0; last_given = 0;
          uv_run(&loop, UV_RUN_NOWAIT);
          printf("f%d%d%d ", uv_is_readable(&h.stream), uv_is_active(&h.handle), uv_is_closing(&h.handle));
          if (g_ipc && !g_closing) printf("D%d ", uv_pipe_pending_count(&h.pipe));
          idle = (last_given == 0 && cbn + alloc_n == before) ? idle + 1 : 0;
        }
        if (!g_closing) {
          static char pk[65536];
          left = recv(g_fd, pk, sizeof pk, MSG_PEEK | MSG_DONTWAIT);
          if (left < 0) left = 0;
        }
        printf("Z%d E%ld,%d ", k, left, idle >= 2);
      }
      break;
    case 'V': model_op = 0;
      if (!in_cb && !g_closing && nwr < NWR) {
        uv_buf_t b;
        if (!bigbuf) bigbuf = calloc(1, BIGW);
        b = uv_buf_init(bigbuf, BIGW);
        r = uv_write(&wreqs[nwr], &h.stream, &b, 1, write_cb);
        if (r == 0) nwr++;
        printf("V%d ", r);
      }
      break;
    case 'w': model_op = 0; if (!in_cb) peer_write(strtoul(tok + 1, NULL, 10), 0); break;
    case 'g': model_op = 0; if (!in_cb) peer_write(strtoul(tok + 1, NULL, 10), 1); break;
    case 'h': model_op = 0; if (!in_cb && g_peer >= 0) { shutdown(g_peer, SHUT_WR); printf("H "); } break;
    case 'q': model_op = 0; if (!in_cb && g_peer >= 0) { close(g_peer); g_peer = -1; printf("Q "); } break;
    case 'u': model_op = 0;
      if (!in_cb && !g_closing) {
        size_t n = strtoul(tok + 1, NULL, 10); char* z = calloc(1, n ? n : 1);
        send(g_fd, z, n, MSG_NOSIGNAL | MSG_DONTWAIT); free(z); printf("U ");
      }
      break;
    default: model_op = 0; break;
    }
    if (!in_cb && model_op)
    {
      printf("f%d%d%d ", uv_is_readable(&h.stream), uv_is_active(&h.handle), uv_is_closing(&h.handle));
      if (g_ipc && !g_closing) printf("D%d ", uv_pipe_pending_count(&h.pipe));   /* descriptors received so far */
    }
  }
}

static int make_pair(int fds[2]) {
  if (!tcp_mode) return socketpair(AF_UNIX, SOCK_STREAM, 0, fds);
  {
    /* one listening socket per harness process */
    static int ls = -1; static struct sockaddr_in a;
    socklen_t alen = sizeof a; int c, s;
    if (ls < 0) {
      ls = socket(AF_INET, SOCK_STREAM, 0);
      memset(&a, 0, sizeof a); a.sin_family = AF_INET; a.sin_addr.s_addr = htonl(INADDR_LOOPBACK);
      if (bind(ls, (struct sockaddr*) &a, sizeof a) || listen(ls, 1) ||
          getsockname(ls, (struct sockaddr*) &a, &alen)) { close(ls); ls = -1; return -1; }
    }
    c = socket(AF_INET, SOCK_STREAM, 0);
    if (connect(c, (struct sockaddr*) &a, sizeof a)) { close(c); return -1; }
    s = accept(ls, NULL, NULL);
    if (s < 0) { close(c); return -1; }
    { int one = 1; setsockopt(s, IPPROTO_TCP, 1 /* TCP_NODELAY */, &one, sizeof one); }
    fds[0] = c; fds[1] = s;
    return 0;
  }
}

static void run_case(char* line) {
  char* sec[5]; int nsec = 0, i, fds[2]; char* p = line; char* save; char* t;
  sec[nsec++] = p;
  while (nsec < 5 && (p = strchr(p, ';')) != NULL) { *p++ = 0; sec[nsec++] = p; }
  if (nsec < 5) { printf("badcase ; ; \n"); return; }
  g_ipc = atoi(sec[0]) != 0 && !tcp_mode;
  nbeh = 0; cbn = 0;
  for (p = sec[2]; p && nbeh < MAXBEH; ) {
    char* bar = strchr(p, '|');
    if (bar) *bar = 0;
    beh[nbeh++] = p;
    p = bar ? bar + 1 : NULL;
  }
  nal = 0; alloc_n = 0;
  for (t = strtok_r(sec[3], " \n", &save); t && nal < MAXAL; t = strtok_r(NULL, " \n", &save)) {
    al[nal].keep = t[0] == 'k';
    al[nal].base_ok = t[0] != 'n' && t[0] != 'k';
    al[nal].len = al[nal].keep ? 0 : strtoull(t[0] == 'n' ? t + 1 : t, NULL, 10);
    nal++;
  }
  nscript = 0; script_pos = 0;
  { size_t cap = 64; script = malloc(cap * sizeof *script);
    for (t = strtok_r(sec[4], " \n", &save); t; t = strtok_r(NULL, " \n", &save)) {
      if ((size_t) nscript == cap) { cap *= 2; script = realloc(script, cap * sizeof *script); }
      script[nscript++] = t;
    } }
  olog = open_memstream(&olog_buf, &olog_len);
  mlog = open_memstream(&mlog_buf, &mlog_len);
  g_quiet = 0; g_closing = 0; nwr = 0; peer_written = 0; kpos = 0; delivered = 0; out.live = 0; out.base = NULL; out.granted = 0; ov_kind = 0;

  if (make_pair(fds)) { printf("nosocket ; ; \n"); return; }
  g_fd = fds[0]; g_peer = fds[1];
  fcntl(g_peer, F_SETFL, fcntl(g_peer, F_GETFL) | O_NONBLOCK);
  uv_loop_init(&loop);
  uv_prepare_init(&loop, &keepalive);
  uv_prepare_start(&keepalive, prep_cb);
  if (tcp_mode) { uv_tcp_init(&loop, &h.tcp); uv_tcp_open(&h.tcp, g_fd); }
  else { uv_pipe_init(&loop, &h.pipe, g_ipc); uv_pipe_open(&h.pipe, g_fd); }
  g_active = 1;

  do_ops(sec[1], 0);

  if (out.live) printf("A? ");           /* a buffer that never came back */
  /* tear down quietly; abortive close of whatever is still open, so that tens of
   * thousands of loopback connections do not pile up in TIME_WAIT */
  g_quiet = 1;
  if (tcp_mode) {
    struct linger lg; lg.l_onoff = 1; lg.l_linger = 0;
    if (!g_closing) setsockopt(g_fd, SOL_SOCKET, SO_LINGER, &lg, sizeof lg);
    if (g_peer >= 0) setsockopt(g_peer, SOL_SOCKET, SO_LINGER, &lg, sizeof lg);
  }
  if (!g_closing) { g_closing = 1; uv_close(&h.handle, close_cb); }
  uv_close((uv_handle_t*) &keepalive, NULL);
  for (i = 0; i < 50 && uv_run(&loop, UV_RUN_NOWAIT); i++) ;
  g_active = 0;
  uv_loop_close(&loop);
  if (g_peer >= 0) close(g_peer);
  g_fd = g_peer = -1;
  if (out.base && out.granted) free(out.base);
  out.base = NULL; out.granted = 0;
  quar_clear();
  fclose(olog); fclose(mlog);
  printf("; %s; %s\n", olog_buf, mlog_buf);
  free(olog_buf); free(mlog_buf); free(script);
}

static void on_alarm(int sig) {
  (void) sig;
  printf(" HANG\n");
  fflush(stdout);
  _exit(3);
}

int main(int argc, char** argv) {
  char* line = NULL; size_t cap = 0;
  tcp_mode = argc > 1 && strcmp(argv[1], "tcp") == 0;
  signal(SIGPIPE, SIG_IGN);
  signal(SIGALRM, on_alarm);
  g_devnull = open("/dev/null", O_RDONLY);
  while (getline(&line, &cap, stdin) > 0) {
    size_t n = strlen(line);
    if (n && line[n - 1] == '\n') line[n - 1] = 0;
    alarm(5);
    run_case(line);
    fflush(stdout);
  }
  return 0;
}
