/* C08 kind table: which work kind every public API hands to uv__work_submit, and in which of the
 * pool's queues the request lands.
 *
 * threadpool.c is included textually (the static queues are inspected); calls of
 * uv__work_submit from the other objects of libuv.a (fs.c, getaddrinfo.c, getnameinfo.c,
 * random.c) are intercepted with -Wl,--wrap=uv__work_submit and the kind is recorded; the call of
 * uv_queue_work is inside threadpool.c and cannot be intercepted: its kind prints as "?", the
 * queue it lands in is observed like for every other request.
 *
 * The pool has one thread, kept busy by a blocked work item, so every request stays queued; it
 * is cancelled (uv_cancel must return 0) before the worker is released: no work function of the
 * cases ever runs, nothing touches the file system or the network.
 *
 * case lines:  work | rnd | fs <index> <name> | gai <numeric 0|1> <node> <service|-> | gni <flags> <4|6>
 * output:      "<c|f|s|?> <slow|wq>"   (or an error word) */
#define _GNU_SOURCE
#include "threadpool.c"
#include <stdio.h>
#include <string.h>
#include <netdb.h>
#include <fcntl.h>
#include <unistd.h>
#include <arpa/inet.h>

static uv_loop_t h_loop;
static uv_sem_t h_started, h_go;
static int h_kind = -1;                 /* kind seen by the wrapper, -1 = not called */
static struct uv__work* h_w;
static int h_cbs;
static char h_dir[512];
static int h_fd = -1;

void __wrap_uv__work_submit(uv_loop_t* loop, struct uv__work* w, enum uv__work_kind kind,
                            void (*work)(struct uv__work*), void (*done)(struct uv__work*, int)) {
  h_kind = (int) kind;
  h_w = w;
  uv__work_submit(loop, w, kind, work, done);
}

static void blocker(uv_work_t* req) { uv_sem_post(&h_started); uv_sem_wait(&h_go); }
static void blocker_done(uv_work_t* req, int status) { }

static void never(uv_work_t* req) { abort(); }        /* a case's work function must not run */
static void cb_after(uv_work_t* req, int status) { h_cbs++; free(req); }
static void cb_fs(uv_fs_t* req) { h_cbs++; uv_fs_req_cleanup(req); free(req); }
static void cb_gai(uv_getaddrinfo_t* req, int status, struct addrinfo* res) {
  h_cbs++; if (status == 0) uv_freeaddrinfo(res); free(req);
}
static void cb_gni(uv_getnameinfo_t* req, int status, const char* host, const char* service) { h_cbs++; free(req); }
static void cb_rnd(uv_random_t* req, int status, void* buf, size_t len) { h_cbs++; free(req); }

static const char* P(const char* name) {
  static char buf[4][600]; static int k;
  k = (k + 1) % 4;
  snprintf(buf[k], sizeof buf[k], "%s/%s", h_dir, name);
  return buf[k];
}

static int fs_call(int i, uv_fs_t* r) {
  static char data[16] = "0123456789abcdef";
  uv_buf_t b = uv_buf_init(data, sizeof data);
  uv_loop_t* l = &h_loop;
  switch (i) {
  case 0: return uv_fs_stat(l, r, P("a"), cb_fs);
  case 1: return uv_fs_lstat(l, r, P("a"), cb_fs);
  case 2: return uv_fs_fstat(l, r, h_fd, cb_fs);
  case 3: return uv_fs_open(l, r, P("a"), O_RDONLY, 0, cb_fs);
  case 4: return uv_fs_close(l, r, h_fd, cb_fs);
  case 5: return uv_fs_read(l, r, h_fd, &b, 1, 0, cb_fs);
  case 6: return uv_fs_write(l, r, h_fd, &b, 1, 0, cb_fs);
  case 7: return uv_fs_access(l, r, P("a"), R_OK, cb_fs);
  case 8: return uv_fs_mkdir(l, r, P("d"), 0700, cb_fs);
  case 9: return uv_fs_rmdir(l, r, P("d"), cb_fs);
  case 10: return uv_fs_unlink(l, r, P("a"), cb_fs);
  case 11: return uv_fs_rename(l, r, P("a"), P("b"), cb_fs);
  case 12: return uv_fs_readlink(l, r, P("a"), cb_fs);
  case 13: return uv_fs_realpath(l, r, P("a"), cb_fs);
  case 14: return uv_fs_scandir(l, r, h_dir, 0, cb_fs);
  case 15: return uv_fs_opendir(l, r, h_dir, cb_fs);
  case 16: return uv_fs_fsync(l, r, h_fd, cb_fs);
  case 17: return uv_fs_fdatasync(l, r, h_fd, cb_fs);
  case 18: return uv_fs_ftruncate(l, r, h_fd, 0, cb_fs);
  case 19: return uv_fs_chmod(l, r, P("a"), 0600, cb_fs);
  case 20: return uv_fs_fchmod(l, r, h_fd, 0600, cb_fs);
  case 21: return uv_fs_utime(l, r, P("a"), 1.0, 2.0, cb_fs);
  case 22: return uv_fs_futime(l, r, h_fd, 1.0, 2.0, cb_fs);
  case 23: return uv_fs_lutime(l, r, P("a"), 1.0, 2.0, cb_fs);
  case 24: return uv_fs_copyfile(l, r, P("a"), P("b"), 0, cb_fs);
  case 25: return uv_fs_sendfile(l, r, h_fd, h_fd, 0, 1, cb_fs);
  case 26: return uv_fs_statfs(l, r, h_dir, cb_fs);
  case 27: return uv_fs_mkdtemp(l, r, P("tXXXXXX"), cb_fs);
  case 28: return uv_fs_mkstemp(l, r, P("sXXXXXX"), cb_fs);
  case 29: return uv_fs_link(l, r, P("a"), P("b"), cb_fs);
  case 30: return uv_fs_symlink(l, r, P("a"), P("b"), 0, cb_fs);
  case 31: return uv_fs_chown(l, r, P("a"), (uv_uid_t) -1, (uv_gid_t) -1, cb_fs);
  case 32: return uv_fs_fchown(l, r, h_fd, (uv_uid_t) -1, (uv_gid_t) -1, cb_fs);
  case 33: return uv_fs_lchown(l, r, P("a"), (uv_uid_t) -1, (uv_gid_t) -1, cb_fs);
  default: return UV_EINVAL;
  }
}

static int in_queue(struct uv__queue* h, struct uv__queue* n) {
  struct uv__queue* q;
  uv__queue_foreach(q, h) if (q == n) return 1;
  return 0;
}

static void one_case(char* line) {
  char kind[16]; int n = 0, rc = UV_EINVAL, hidden = 0, before = h_cbs;
  void* req = NULL;
  const char* where;
  if (sscanf(line, "%15s%n", kind, &n) != 1) { printf("bad\n"); return; }
  h_kind = -1; h_w = NULL;
  if (!strcmp(kind, "work")) {
    uv_work_t* r = calloc(1, sizeof *r); req = r;
    rc = uv_queue_work(&h_loop, r, never, cb_after);
    if (h_kind == -1) { hidden = 1; h_w = &r->work_req; }
  } else if (!strcmp(kind, "rnd")) {
    uv_random_t* r = calloc(1, sizeof *r + 8); req = r;
    rc = uv_random(&h_loop, r, (char*) (r + 1), 8, 0, cb_rnd);
  } else if (!strcmp(kind, "fs")) {
    int i = atoi(line + n);
    uv_fs_t* r = calloc(1, sizeof *r); req = r;
    rc = fs_call(i, r);
  } else if (!strcmp(kind, "gai")) {
    int numeric; char node[128], service[64];
    struct addrinfo hints;
    uv_getaddrinfo_t* r = calloc(1, sizeof *r); req = r;
    if (sscanf(line + n, "%d %127s %63s", &numeric, node, service) != 3) { printf("bad\n"); return; }
    memset(&hints, 0, sizeof hints);
    hints.ai_socktype = SOCK_STREAM;
    hints.ai_flags = numeric ? AI_NUMERICHOST : 0;
    rc = uv_getaddrinfo(&h_loop, r, cb_gai, strcmp(node, "-") ? node : NULL,
                        strcmp(service, "-") ? service : NULL, &hints);
  } else if (!strcmp(kind, "gni")) {
    int flags, fam;
    uv_getnameinfo_t* r = calloc(1, sizeof *r); req = r;
    if (sscanf(line + n, "%d %d", &flags, &fam) != 2) { printf("bad\n"); return; }
    if (fam == 6) {
      struct sockaddr_in6 a6; uv_ip6_addr("::1", 80, &a6);
      rc = uv_getnameinfo(&h_loop, r, cb_gni, (const struct sockaddr*) &a6, flags);
    } else if (fam != 4) {
      /* an address family uv_getnameinfo rejects: the call must leave no request registered */
      struct sockaddr_storage ss; unsigned before_reqs = h_loop.active_reqs.count;
      memset(&ss, 0, sizeof ss); ss.ss_family = (sa_family_t) fam;
      rc = uv_getnameinfo(&h_loop, r, cb_gni, (const struct sockaddr*) &ss, flags);
      printf("rejected%d reqs%+d\n", rc, (int) (h_loop.active_reqs.count - before_reqs));
      if (rc != 0) h_loop.active_reqs.count = before_reqs;   /* keep the harness loop usable */
      return;
    } else {
      struct sockaddr_in a4; uv_ip4_addr("127.0.0.1", 80, &a4);
      rc = uv_getnameinfo(&h_loop, r, cb_gni, (const struct sockaddr*) &a4, flags);
    }
  } else { printf("bad\n"); return; }
  if (rc != 0) { printf("apierr%d\n", rc); return; }
  if (h_w == NULL) { printf("nosubmit\n"); return; }
  uv_mutex_lock(&mutex);
  where = in_queue(&slow_io_pending_wq, &h_w->wq) ? "slow" : in_queue(&wq, &h_w->wq) ? "wq" : "nowhere";
  uv_mutex_unlock(&mutex);
  rc = uv_cancel((uv_req_t*) req);
  if (rc != 0) { printf("cancelfail%d\n", rc); return; }
  uv_run(&h_loop, UV_RUN_NOWAIT);
  if (h_cbs != before + 1) { printf("nocallback\n"); return; }
  printf("%c %s\n", hidden ? '?' : h_kind == UV__WORK_CPU ? 'c' : h_kind == UV__WORK_FAST_IO ? 'f' :
                    h_kind == UV__WORK_SLOW_IO ? 's' : 'x', where);
}

int main(void) {
  static char line[4096];
  static uv_work_t blk;
  const char* d = getenv("C08_SCRATCH_DIR");
  setenv("UV_THREADPOOL_SIZE", "1", 1);
  setenv("UV_USE_IO_URING", "0", 1);
  snprintf(h_dir, sizeof h_dir, "%s", d ? d : "/tmp");
  h_fd = open(P("a"), O_RDWR | O_CREAT, 0600);
  if (uv_loop_init(&h_loop) != 0 || uv_sem_init(&h_started, 0) != 0 || uv_sem_init(&h_go, 0) != 0) {
    printf("initfail\n"); return 2;
  }
  if (uv_queue_work(&h_loop, &blk, blocker, blocker_done) != 0) { printf("initfail\n"); return 2; }
  uv_sem_wait(&h_started);             /* the only pool thread is now busy */
  if (nthreads != 1) { printf("badpool\n"); return 2; }
  while (fgets(line, sizeof line, stdin)) { one_case(line); fflush(stdout); }
  uv_sem_post(&h_go);
  uv_run(&h_loop, UV_RUN_DEFAULT);
  return 0;
}
