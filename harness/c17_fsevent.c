/* C17 (b): uv_fs_event_* (inotify) of the freshly built libuv on a scratch tree.
 * Link with -Wl,--wrap=read,--wrap=inotify_add_watch,--wrap=inotify_rm_watch
 * usage: c17_fsevent <scratch-dir>   (one case on stdin, one process per case)
 * Case: "ops ; beh0 | beh1 | ..."
 * Paths: 0 d0/  1 d0/f0  2 d0/f1  3 d0/sub/  4 d1/  5 d1/g0  6 d1/l0 (hard link to d0/f0)
 *        7 d0/new  8 d1/new  9 d0/sub/h0   (7, 8 do not exist at the start)
 *   I               uv_fs_event_init
 *   S<h>,<cb>,<p>   uv_fs_event_start(h, cb<cb>, path p, 0)
 *   T<h>  C<h>      uv_fs_event_stop, uv_close
 *   Xw<p> Xm<p>,<mode> Xc<p> Xu<p> Xr<p>,<q> Xd<p>   write / chmod / create / unlink or rmdir /
 *                   rename p -> q / mkdir
 *   O               observe: per handle active flag, uv_fs_event_getpath (path index or -), wd
 *   Y ... P         fork(): the child calls uv_loop_fork(), observes, runs the operations up to P and
 *                   exits; the parent waits for it and goes on after P
 *   R               uv_run(UV_RUN_NOWAIT)
 *   Z               close everything, run, uv_loop_close
 * Output tokens: r<code>  w<wd>  m<wd>  g ... . (one iteration)  e<wd>,<mask>,<name or ->  c<h>,<cb>,<name>,<bits>  x<h>  z<rc>
 */
#include <stdio.h>
#include <stdlib.h>
#include <string.h>
#include <inttypes.h>
#include <fcntl.h>
#include <unistd.h>
#include <errno.h>
#include <sys/stat.h>
#include <sys/inotify.h>
#include <sys/wait.h>
#include "uv.h"
#include "uv-common.h"

#define MAXH 64
#define MAXB 512
#define NP 10

static uv_loop_t loop;
static int loop_ready;
static char pathname[NP][600];
static const char* rel[NP] = { "d0", "d0/f0", "d0/f1", "d0/sub", "d1", "d1/g0", "d1/l0", "d0/new",
                               "d1/new", "d0/sub/h0" };

ssize_t __real_read(int fd, void* buf, size_t n);
ssize_t __wrap_read(int fd, void* buf, size_t n) {
  ssize_t r = __real_read(fd, buf, n);
  if (loop_ready && loop.inotify_fd != -1 && fd == loop.inotify_fd && r > 0) {
    const char* p = buf;
    while (p < (const char*) buf + r) {
      const struct inotify_event* e = (const struct inotify_event*) p;
      printf("e%d,%u,%s ", e->wd, (unsigned) e->mask, e->len ? e->name : "-");
      p += sizeof(*e) + e->len;
    }
  }
  return r;
}
int __real_inotify_add_watch(int fd, const char* path, uint32_t mask);
int __wrap_inotify_add_watch(int fd, const char* path, uint32_t mask) {
  int r = __real_inotify_add_watch(fd, path, mask);
  printf("w%d ", r >= 0 ? r : -errno);
  return r;
}
int __real_inotify_rm_watch(int fd, int wd);
int __wrap_inotify_rm_watch(int fd, int wd) {
  printf("m%d ", wd);
  return __real_inotify_rm_watch(fd, wd);
}

struct hnd { uv_fs_event_t h; int closing, closed; };
static struct hnd* H[MAXH];
static int nh;
static char* beh[MAXB];
static int nbeh, cbcount;
static void do_ops(char* ops, int in_cb);

static int idx(void* h) { return (int) (intptr_t) ((uv_handle_t*) h)->data; }
static void on_event(uv_fs_event_t* h, int tok, const char* name, int events, int status) {
  int k;
  printf("c%d,%d,%s,%d%s ", idx(h), tok, name ? name : "(null)", events, status ? ",!" : "");
  k = cbcount++;
  if (k < nbeh) { char* copy = strdup(beh[k]); do_ops(copy, 1); free(copy); }
}
static void cb1(uv_fs_event_t* h, const char* n, int ev, int st) { on_event(h, 1, n, ev, st); }
static void cb2(uv_fs_event_t* h, const char* n, int ev, int st) { on_event(h, 2, n, ev, st); }
static void cb3(uv_fs_event_t* h, const char* n, int ev, int st) { on_event(h, 3, n, ev, st); }
static uv_fs_event_cb cbs[] = { cb1, cb1, cb2, cb3 };
static void close_cb(uv_handle_t* h) { H[idx(h)]->closed = 1; printf("x%d ", idx(h)); }

static void change(const char* tok) {
  int p = -1, q = -1, fd;
  sscanf(tok + 2, "%d,%d", &p, &q);
  if (p < 0 || p >= NP) return;
  switch (tok[1]) {
  case 'w': fd = open(pathname[p], O_WRONLY | O_APPEND); if (fd >= 0) { if (write(fd, "x", 1) != 1) {} close(fd); } break;
  case 'm': chmod(pathname[p], (mode_t) q); break;
  case 'c': fd = open(pathname[p], O_WRONLY | O_CREAT | O_EXCL, 0644); if (fd >= 0) close(fd); break;
  case 'u': if (unlink(pathname[p]) != 0) rmdir(pathname[p]); break;
  case 'r': if (q >= 0 && q < NP) rename(pathname[p], pathname[q]); break;
  case 'd': mkdir(pathname[p], 0755); break;
  }
}

static _Atomic long live_allocs;
static void* c_malloc(size_t n) { void* p = malloc(n); if (p) live_allocs++; return p; }
static void* c_calloc(size_t a, size_t b) { void* p = calloc(a, b); if (p) live_allocs++; return p; }
static void* c_realloc(void* q, size_t n) { void* p = realloc(q, n); if (q == NULL && p) live_allocs++; return p; }
static void c_free(void* p) { if (p) { live_allocs--; free(p); } }
static int in_child;

static void observe(void) {
  int j, k;
  printf("o");
  for (j = 0; j < nh; j++) {
    char buf[700]; size_t sz = sizeof buf; int pid = -1;
    int a = H[j]->closed ? 0 : uv_is_active((uv_handle_t*) &H[j]->h);
    if (!H[j]->closed && uv_fs_event_getpath(&H[j]->h, buf, &sz) == 0)
      for (k = 0; k < NP; k++) if (strcmp(buf, pathname[k]) == 0) pid = k;
    printf("%d:%d:%d,", a, pid, a ? H[j]->h.wd : -1);
  }
  printf(" ");
}

static void do_ops(char* ops, int in_cb) {
  char* save = NULL; char* tok;
  for (tok = strtok_r(ops, " \n", &save); tok; tok = strtok_r(NULL, " \n", &save)) {
    int i = -1, c = 0, p = 0;
    switch (tok[0]) {
    case 'I':
      if (nh >= MAXH) break;
      H[nh] = calloc(1, sizeof *H[nh]);
      uv_fs_event_init(&loop, &H[nh]->h); H[nh]->h.data = (void*) (intptr_t) nh; nh++;
      break;
    case 'S':
      if (sscanf(tok + 1, "%d,%d,%d", &i, &c, &p) == 3 && i >= 0 && i < nh && !H[i]->closing && p >= 0 && p < NP)
        printf("r%d ", uv_fs_event_start(&H[i]->h, cbs[c & 3], pathname[p], 0));
      break;
    case 'T':
      if (sscanf(tok + 1, "%d", &i) == 1 && i >= 0 && i < nh && !H[i]->closed)
        { printf("t "); printf("r%d ", uv_fs_event_stop(&H[i]->h)); }
      break;
    case 'C':
      if (sscanf(tok + 1, "%d", &i) == 1 && i >= 0 && i < nh && !H[i]->closing) {
        H[i]->closing = 1; printf("k "); uv_close((uv_handle_t*) &H[i]->h, close_cb);
      }
      break;
    case 'O': observe(); break;
    case 'Y':
      if (!in_cb && !in_child) {
        pid_t pid; int st = 0;
        fflush(stdout);
        pid = fork();
        if (pid == 0) {
          in_child = 1;
          printf("y%d ", uv_loop_fork(&loop));
          observe();
        } else {
          waitpid(pid, &st, 0);
          if (!WIFEXITED(st) || WEXITSTATUS(st) != 0) printf("!%d ", st);
          /* skip the child's part of the script */
          while ((tok = strtok_r(NULL, " \n", &save)) != NULL && tok[0] != 'P') {}
          if (tok == NULL) return;
        }
      }
      break;
    case 'P':
      if (in_child) { printf("P "); fflush(stdout); _exit(0); }
      break;
    case 'X': if (!in_cb) change(tok); break;
    case 'R': if (!in_cb) { printf("g "); uv_run(&loop, UV_RUN_NOWAIT); printf(". "); } break;
    case 'Z':
      if (!in_cb) {
        int j;
        for (j = 0; j < nh; j++) if (!H[j]->closing) { H[j]->closing = 1; printf("k "); uv_close((uv_handle_t*) &H[j]->h, close_cb); }
        printf("g "); uv_run(&loop, UV_RUN_NOWAIT); printf(". ");
        { int rc = uv_loop_close(&loop); printf("z%d,%ld ", rc, (long) live_allocs); }
      }
      break;
    }
  }
}

int main(int argc, char** argv) {
  static char line[1 << 16];
  const char* dir = argc > 1 ? argv[1] : "/tmp";
  int k, fd;
  for (k = 0; k < NP; k++) snprintf(pathname[k], sizeof pathname[k], "%s/%s", dir, rel[k]);
  mkdir(pathname[0], 0755); mkdir(pathname[3], 0755); mkdir(pathname[4], 0755);
  for (k = 0; k < NP; k++)
    if (k == 1 || k == 2 || k == 5 || k == 9) { fd = open(pathname[k], O_WRONLY | O_CREAT, 0644); if (fd >= 0) close(fd); }
  if (link(pathname[1], pathname[6]) != 0) {}
  if (fgets(line, sizeof line, stdin)) {
    char* p2 = strchr(line, ';');
    if (!p2) { printf("\n"); return 0; }
    *p2++ = 0;
    uv_replace_allocator(c_malloc, c_realloc, c_calloc, c_free);
    uv_loop_init(&loop); loop_ready = 1;
    {
      char* s = p2;
      for (;;) {
        char* e = strchr(s, '|');
        if (e) *e = 0;
        if (nbeh < MAXB) beh[nbeh++] = s;
        if (!e) break;
        s = e + 1;
      }
    }
    do_ops(line, 0);
    printf("\n");
    fflush(stdout);
  }
  _exit(0);
}
