/* C09: environment operation before the sends.  uv_poll_init(loop, &p, fd) for every
 * descriptor number 3..63: each is refused (UV_EEXIST for the loop's own watchers, UV_EBADF /
 * UV_EINVAL / UV_EPERM for numbers that are closed or not pollable) or accepted and closed
 * again.  The model's wake-up channel is unaffected by this; that is a checked fact, not an
 * assumption: afterwards the loop's eventfd must still be in the epoll interest set
 * (/proc/self/fdinfo/<backend fd>), and the wake-up scenarios run after the probes.
 * The eventfd is registered first (one uv_run(NOWAIT)), because a probe can only remove a
 * registration that exists.  Returns 0, or -1 when the eventfd is missing from the set. */
#ifndef C09_PROBE_H
#define C09_PROBE_H
#include <stdio.h>
#include <stdlib.h>
#include <string.h>
#include "uv.h"

static uv_poll_t c09_probe_handles[64];
static int c09_probe_refused, c09_probe_accepted;

static int c09_epoll_has(int epfd, int fd) {
  char path[64], line[256];
  FILE* f;
  int tfd, found = 0, any = 0;
  if (getenv("C09_NO_FDINFO")) return -1;   /* testing aid: rely on the scenarios alone */
  snprintf(path, sizeof path, "/proc/self/fdinfo/%d", epfd);
  f = fopen(path, "r");
  if (!f) return -1;                       /* cannot tell */
  while (fgets(line, sizeof line, f)) {
    if (sscanf(line, "tfd: %d", &tfd) == 1) { any = 1; if (tfd == fd) found = 1; }
  }
  fclose(f);
  (void) any;
  return found;
}

static int c09_poll_probes(uv_loop_t* loop) {
  int fd, r, efd = loop->async_io_watcher.fd;
  uv_run(loop, UV_RUN_NOWAIT);             /* registers the eventfd with epoll */
  if (c09_epoll_has(loop->backend_fd, efd) == 0) return -1;
  for (fd = 3; fd < 64; fd++) {
    r = uv_poll_init(loop, &c09_probe_handles[fd], fd);
    if (r == 0) {
      c09_probe_accepted++;
      uv_close((uv_handle_t*) &c09_probe_handles[fd], NULL);
    } else {
      c09_probe_refused++;
    }
  }
  uv_run(loop, UV_RUN_NOWAIT);             /* finishes the closes */
  uv_run(loop, UV_RUN_NOWAIT);
  if (c09_epoll_has(loop->backend_fd, efd) == 0) return -1;
  return 0;
}
#endif
