/* C09, fork family: a loop with 1-3 async handles, fork(), the child calls
 * uv_loop_fork(), BOTH processes keep using their loops.  Sends happen in the parent and in
 * the child, from the loop thread and from a helper thread (joined before the next
 * operation); loops are run with uv_run(UV_RUN_NOWAIT).  Everything is sequenced by the
 * parent over a pair of pipes, so the scenario is deterministic.
 *
 * What decides whether the child's wake-ups can be stolen by the parent is whether the
 * child's wake-up descriptor is a NEW open file after uv_loop_fork().  It is tested
 * directly at the end: the parent drains its own eventfd, the child writes 1 to its loop's
 * eventfd, the parent (not running its loop) polls its own descriptor with timeout 0
 * (cross-checked with eventfd-count of /proc/self/fdinfo and kcmp(KCMP_FILE) when the
 * kernel offers them): fresh=1 iff the parent's descriptor did not become readable.
 *
 * case:  n ; ops      ops: ps<h> pt<h> pr  (parent: loop-thread send, helper-thread send, run)
 *                          F               (fork + uv_loop_fork in the child)
 *                          cs<h> ct<h> cr  (child, only after F)
 * output: one token per op:  <p|c>s<h>:<obs>  <p|c>t<h>:<obs>  <p|c>r:<events>:<obs>  F:<rc>:<obs of child>
 *         obs = <pending><busy> per handle, ':' , 'r' if the process's eventfd is readable else '-'
 *         then  fresh=<0|1>  P h<i>=<published>/<seen>/<callbacks>...  C h<i>=...
 */
#define _GNU_SOURCE
#include <errno.h>
#include <poll.h>
#include <pthread.h>
#include <signal.h>
#include <stdarg.h>
#include <stdint.h>
#include <stdio.h>
#include <stdlib.h>
#include <string.h>
#include <sys/syscall.h>
#include <sys/wait.h>
#include <unistd.h>
#include "uv.h"
#include "c09_probe.h"

#ifndef KCMP_FILE
#define KCMP_FILE 0
#endif

#define MAXH 4
static uv_loop_t loop;
static uv_async_t ah[MAXH];
static int nh;
static uint64_t published[MAXH], seen[MAXH], cbs[MAXH];
static char evbuf[2048]; static size_t evlen;
static char outbuf[1 << 16]; static size_t outlen;

static void out(const char* fmt, ...) {
  va_list ap;
  va_start(ap, fmt);
  outlen += vsnprintf(outbuf + outlen, sizeof(outbuf) - outlen - 1, fmt, ap);
  va_end(ap);
}

static void die(const char* what) {
  char b[256];
  int n = snprintf(b, sizeof b, "ERR %s\n", what);
  if (write(1, b, n) < 0) {}
  _exit(0);
}

static void async_cb(uv_async_t* h) {
  int i = (int) (intptr_t) h->data;
  seen[i] = published[i];
  cbs[i]++;
  evlen += snprintf(evbuf + evlen, sizeof(evbuf) - evlen - 1, "%sc%d=%llu", evlen ? "+" : "",
                    i, (unsigned long long) seen[i]);
}

static int efd_of_loop(void) { return loop.async_io_watcher.fd; }

static int readable(int fd) {
  struct pollfd p;
  p.fd = fd; p.events = POLLIN; p.revents = 0;
  return poll(&p, 1, 0) > 0 && (p.revents & POLLIN);
}

static long fdinfo_count(int fd) {
  char path[64], line[256];
  unsigned long v;
  long r = -1;
  FILE* f;
  snprintf(path, sizeof path, "/proc/self/fdinfo/%d", fd);
  f = fopen(path, "r");
  if (!f) return -1;
  while (fgets(line, sizeof line, f))
    if (sscanf(line, "eventfd-count: %lx", &v) == 1) { r = (long) v; break; }
  fclose(f);
  return r;
}

static void obs(char* dst, size_t n) {
  int i; size_t l = 0;
  for (i = 0; i < nh; i++)
    l += snprintf(dst + l, n - l, "%s%d%d", i ? "," : "", ah[i].pending ? 1 : 0, (int) ah[i].u.fd);
  snprintf(dst + l, n - l, ":%s", readable(efd_of_loop()) ? "r" : "-");
}

static void* helper(void* arg) {
  int h = (int) (intptr_t) arg;
  __atomic_fetch_add(&published[h], 1, __ATOMIC_SEQ_CST);
  uv_async_send(&ah[h]);
  return NULL;
}

/* perform one operation in this process; the token is written to dst */
static void do_op(char who, const char* op, char* dst, size_t n) {
  char o[128];
  if (op[0] == 's' || op[0] == 't') {
    int h = atoi(op + 1);
    if (h < 0 || h >= nh) die("handle");
    if (op[0] == 's') {
      __atomic_fetch_add(&published[h], 1, __ATOMIC_SEQ_CST);
      uv_async_send(&ah[h]);
    } else {
      pthread_t t;
      if (pthread_create(&t, NULL, helper, (void*) (intptr_t) h) != 0) die("pthread_create");
      pthread_join(t, NULL);
    }
    obs(o, sizeof o);
    snprintf(dst, n, "%c%c%d:%s", who, op[0], h, o);
  } else if (op[0] == 'r') {
    evlen = 0; evbuf[0] = 0;
    uv_run(&loop, UV_RUN_NOWAIT);
    obs(o, sizeof o);
    snprintf(dst, n, "%cr:%s:%s", who, evlen ? evbuf : "-", o);
  } else die("op");
}

static void summary(char* dst, size_t n) {
  int i; size_t l = 0;
  for (i = 0; i < nh; i++)
    l += snprintf(dst + l, n - l, " h%d=%llu/%llu/%llu", i, (unsigned long long) published[i],
                  (unsigned long long) seen[i], (unsigned long long) cbs[i]);
}

static void drain(int fd) {
  uint64_t v;
  while (read(fd, &v, sizeof v) == 8) {}
}

static int read_line(int fd, char* buf, size_t n) {
  size_t l = 0;
  for (;;) {
    char c;
    ssize_t r = read(fd, &c, 1);
    if (r == 0) return -1;
    if (r < 0) { if (errno == EINTR) continue; return -1; }
    if (c == '\n') break;
    if (l + 1 < n) buf[l++] = c;
  }
  buf[l] = 0;
  return (int) l;
}

static void child_main(int cmd, int rep) {
  char line[256], tok[512];
  int rc, i;
  alarm(10);
  rc = uv_loop_fork(&loop);
  for (i = 0; i < nh; i++) published[i] = seen[i] = cbs[i] = 0;
  evlen = 0;
  { char o[128]; obs(o, sizeof o); snprintf(tok, sizeof tok, "F:%d:%s\n", rc, o); }
  if (write(rep, tok, strlen(tok)) < 0) _exit(1);
  while (read_line(cmd, line, sizeof line) >= 0) {
    if (line[0] == 'W') {                 /* freshness test: make my wake-up channel readable */
      uint64_t one = 1;
      int ok = write(efd_of_loop(), &one, 8) == 8;
      snprintf(tok, sizeof tok, "%s\n", ok ? "ok" : "fail");
    } else if (line[0] == 'Q') {
      summary(tok, sizeof tok - 2);
      strcat(tok, "\n");
      if (write(rep, tok, strlen(tok)) < 0) {}
      _exit(0);
    } else {
      do_op('c', line, tok, sizeof tok - 2);
      strcat(tok, "\n");
    }
    if (write(rep, tok, strlen(tok)) < 0) _exit(1);
  }
  _exit(0);
}

static void run_case(char* line) {
  char* semi = strchr(line, ';');
  char* save = NULL; char* t;
  int cmdp[2] = {-1, -1}, repp[2] = {-1, -1};
  pid_t child = -1;
  char tok[512], reply[512];
  int i, fresh = -1;
  alarm(10);
  signal(SIGPIPE, SIG_IGN);
  if (!semi) die("parse");
  *semi = 0;
  nh = atoi(line);
  if (nh < 1 || nh > MAXH) die("parse");
  if (uv_loop_init(&loop) != 0) die("uv_loop_init");
  for (i = 0; i < nh; i++) {
    if (uv_async_init(&loop, &ah[i], async_cb) != 0) die("uv_async_init");
    ah[i].data = (void*) (intptr_t) i;
  }
  if (efd_of_loop() < 0 || loop.async_wfd != -1) die("no eventfd");
  if (c09_poll_probes(&loop) != 0) {
    char b[256];
    int k = snprintf(b, sizeof b, "PROBE-FAIL the loop's eventfd %d is missing from the epoll interest set after "
                     "uv_poll_init() on the descriptor numbers 3..63\n", efd_of_loop());
    if (write(1, b, k) < 0) {}
    _exit(0);
  }
  for (t = strtok_r(semi + 1, " \n", &save); t; t = strtok_r(NULL, " \n", &save)) {
    if (t[0] == 'F') {
      if (child != -1) die("second fork");
      if (pipe(cmdp) != 0 || pipe(repp) != 0) die("pipe");
      child = fork();
      if (child < 0) die("fork");
      if (child == 0) { close(cmdp[1]); close(repp[0]); child_main(cmdp[0], repp[1]); }
      close(cmdp[0]); close(repp[1]);
      if (read_line(repp[0], reply, sizeof reply) < 0) die("child died in uv_loop_fork");
      out("%s%s", outlen ? " " : "", reply);
    } else if (t[0] == 'p') {
      do_op('p', t + 1, tok, sizeof tok);
      out("%s%s", outlen ? " " : "", tok);
    } else if (t[0] == 'c') {
      if (child == -1) die("child op before fork");
      snprintf(tok, sizeof tok, "%s\n", t + 1);
      if (write(cmdp[1], tok, strlen(tok)) < 0) die("child gone");
      if (read_line(repp[0], reply, sizeof reply) < 0) die("child died");
      out(" %s", reply);
    } else die("op");
  }
  if (child != -1) {
    /* is the child's wake-up descriptor a new open file? */
    int mine = efd_of_loop();
    long c0, c1, k;
    drain(mine);
    c0 = fdinfo_count(mine);
    if (readable(mine)) die("own eventfd readable after draining");
    if (write(cmdp[1], "W\n", 2) < 0) die("child gone");
    if (read_line(repp[0], reply, sizeof reply) < 0 || strcmp(reply, "ok") != 0) die("child could not write its eventfd");
    fresh = readable(mine) ? 0 : 1;
    c1 = fdinfo_count(mine);
    if (c0 >= 0 && c1 >= 0 && ((c1 == c0) != (fresh == 1))) die("poll and fdinfo disagree about the eventfd");
    /* kcmp on the same descriptor number: only meaningful when the child kept the number */
    k = syscall(SYS_kcmp, getpid(), child, KCMP_FILE, (unsigned long) mine, (unsigned long) mine);
    if (k == 0 && fresh == 1) die("kcmp says same open file but the counter is not shared");
    out(" fresh=%d", fresh);
  } else out(" fresh=-");
  summary(tok, sizeof tok);
  out(" P%s", tok);
  if (child != -1) {
    int st;
    if (write(cmdp[1], "Q\n", 2) < 0) die("child gone");
    if (read_line(repp[0], reply, sizeof reply) < 0) die("child died");
    out(" C%s", reply);
    waitpid(child, &st, 0);
  }
  outbuf[outlen++] = '\n';
  if (write(1, outbuf, outlen) < 0) {}
  _exit(0);
}

int main(void) {
  static char line[1 << 14];
  while (fgets(line, sizeof line, stdin)) {
    pid_t pid = fork();
    int status = 0;
    if (pid < 0) { printf("ERR fork\n"); fflush(stdout); continue; }
    if (pid == 0) { run_case(line); _exit(0); }
    while (waitpid(pid, &status, 0) < 0 && errno == EINTR) {}
    if (WIFSIGNALED(status)) {
      char b[64];
      int n = snprintf(b, sizeof b, "ERR signal %d\n", WTERMSIG(status));
      if (write(1, b, n) < 0) {}
    }
  }
  return 0;
}
