/* C14, full batch: 1024 readable eventfds with poll handles fill one epoll_pwait batch
 * completely (uv__io_poll then polls again inside the same call); the callbacks consume the
 * readiness and the first one starts a further handle on an already readable descriptor.
 * Link with -Wl,--wrap=epoll_pwait,--wrap=syscall.  Input line: "<ring>".  Output, one line:
 *   W<timeout>,<watcher_queue empty>,<kernel set == registry>,<events returned>  per epoll_pwait
 *   of the loop (the real call is made with timeout 0), then cb=<callbacks> hx=<callbacks of the
 *   handle started from the callback> ring=<0|1>; "SKIP <why>" if 1024+ descriptors are not allowed. */
#define _GNU_SOURCE 1
#include <stdio.h>
#include <stdlib.h>
#include <string.h>
#include <stdarg.h>
#include <errno.h>
#include <unistd.h>
#include <sys/epoll.h>
#include <sys/eventfd.h>
#include <sys/resource.h>
#include <sys/syscall.h>
#include "uv.h"
#include "uv-common.h"
#include "unix/internal.h"

#define N 1024
static int fail_uring;
long __real_syscall(long nr, long a, long b, long c, long d, long e, long f);
long __wrap_syscall(long nr, ...) {
  va_list ap; long a, b, c, d, e, f;
  va_start(ap, nr);
  a = va_arg(ap, long); b = va_arg(ap, long); c = va_arg(ap, long);
  d = va_arg(ap, long); e = va_arg(ap, long); f = va_arg(ap, long);
  va_end(ap);
  if (nr == __NR_io_uring_setup && fail_uring) { errno = ENOSYS; return -1; }
  return __real_syscall(nr, a, b, c, d, e, f);
}

static uv_loop_t loop;
static uv_loop_t* g_loop;
static uv_poll_t h[N], hx;
static int fds[N], fdx, ncb, nhx, started_x;

struct ent { int fd; unsigned ev; };
static int ecmp(const void* a, const void* b) {
  const struct ent* x = a; const struct ent* y = b;
  if (x->fd != y->fd) return x->fd < y->fd ? -1 : 1;
  return x->ev < y->ev ? -1 : x->ev > y->ev;
}
static int in_sync(int epfd) {
  static struct ent k[4096], r[4096]; int nk = 0, nr = 0, i; char path[64], line[256]; FILE* f;
  snprintf(path, sizeof path, "/proc/self/fdinfo/%d", epfd);
  f = fopen(path, "r"); if (!f) return -1;
  while (fgets(line, sizeof line, f)) {
    int tfd; unsigned ev;
    if (sscanf(line, "tfd: %d events: %x", &tfd, &ev) == 2 && nk < 4096) { k[nk].fd = tfd; k[nk].ev = ev & ~(unsigned) (EPOLLERR | EPOLLHUP); nk++; }
  }
  fclose(f);
  for (i = 0; i < (int) loop.nwatchers && nr < 4096; i++)
    if (loop.watchers[i] != NULL) { r[nr].fd = i; r[nr].ev = loop.watchers[i]->pevents; nr++; }
  if (nk != nr) return 0;
  qsort(k, nk, sizeof k[0], ecmp); qsort(r, nr, sizeof r[0], ecmp);
  return memcmp(k, r, nk * sizeof k[0]) == 0;
}

int __real_epoll_pwait(int epfd, struct epoll_event* ev, int max, int timeout, const sigset_t* ss);
int __wrap_epoll_pwait(int epfd, struct epoll_event* ev, int max, int timeout, const sigset_t* ss) {
  int n, wqe, sync;
  if (g_loop == NULL || epfd != g_loop->backend_fd) return __real_epoll_pwait(epfd, ev, max, timeout, ss);
  wqe = uv__queue_empty(&loop.watcher_queue);
  sync = in_sync(epfd);
  n = __real_epoll_pwait(epfd, ev, max, 0, ss);
  printf("W%d,%d,%d,%d ", timeout, wqe, sync, n);
  return n < 0 ? 0 : n;
}

static void xcb(uv_poll_t* p, int st, int ev) { uint64_t v; (void) st; (void) ev; nhx++; read(fdx, &v, 8); uv_poll_stop(p); }
static void cb(uv_poll_t* p, int st, int ev) {
  uint64_t v; int i = (int) (intptr_t) p->data; (void) st; (void) ev;
  ncb++;
  read(fds[i], &v, 8);                       /* consume the readiness */
  if (!started_x) { started_x = 1; uv_poll_start(&hx, UV_READABLE, xcb); }
}
static void tcb(uv_timer_t* t) { (void) t; }

int main(void) {
  char line[64]; int ring = 1, i; struct rlimit rl; uv_timer_t tm;
  if (!fgets(line, sizeof line, stdin)) return 0;
  ring = atoi(line);
  if (getrlimit(RLIMIT_NOFILE, &rl) == 0 && rl.rlim_cur < N + 64) {
    rl.rlim_cur = rl.rlim_max < N + 64 ? rl.rlim_max : N + 64;
    setrlimit(RLIMIT_NOFILE, &rl);
  }
  fail_uring = !ring;
  uv_loop_init(&loop);
  fail_uring = 0;
  for (i = 0; i < N; i++) {
    fds[i] = eventfd(1, EFD_NONBLOCK);
    if (fds[i] < 0) { printf("SKIP cannot open %d descriptors (%s)\n", N, strerror(errno)); return 0; }
    uv_poll_init(&loop, &h[i], fds[i]); h[i].data = (void*) (intptr_t) i;
    uv_poll_start(&h[i], UV_READABLE, cb);
  }
  fdx = eventfd(1, EFD_NONBLOCK);
  if (fdx < 0) { printf("SKIP cannot open %d descriptors (%s)\n", N + 1, strerror(errno)); return 0; }
  uv_poll_init(&loop, &hx, fdx);
  uv_timer_init(&loop, &tm); uv_timer_start(&tm, tcb, 5000, 0);   /* a non-zero poll timeout */
  g_loop = &loop;
  uv_run(&loop, UV_RUN_ONCE);
  printf("| ");
  uv_run(&loop, UV_RUN_ONCE);
  printf("cb=%d hx=%d ring=%d\n", ncb, nhx, uv__get_internal_fields((&loop))->ctl.ringfd != -1);
  return 0;
}
