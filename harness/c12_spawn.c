/* C12: real uv_spawn / uv__wait_children of the freshly built libuv.
 *
 * Parent mode:  c12_spawn <dir>      one case per stdin line, one result line each.
 *   Every case runs in a forked worker that owns its descriptor table.
 * Child mode:   c12_spawn --child <report_fd> <gate_fd> <action>
 *   reports its descriptor table on report_fd, tags every socket it holds,
 *   waits for the gate, then exits / kills itself as told.
 *
 * Case = setup tokens and step tokens separated by blanks:
 *   L<hi>           descriptors 3..hi are kept busy while the loop is created
 *   f<fd>=<n><c|n>  private file n (1..60; n=0: /dev/null) on descriptor fd, c = FD_CLOEXEC
 *                   (the worker's own 0,1,2 are private files 61,62,63; the result line
 *                   goes to a close-on-exec copy of stdout at 250+)
 *   B<sig>          block signal sig in the loop thread before anything is spawned
 *   c<fd>           close descriptor fd (0, 1 or 2) in the parent
 *   V<r>,<e>,<s>    setresgid(r, e, s) in the parent;  U<r>,<e>,<s>  setresuid(r, e, s)
 *                   (keep effective or saved 0; put V before U)
 *   r               report pipe: write end 100 (inheritable), read end 101
 *   g<n>            gate n: read end 110+2n (inheritable), write end 111+2n
 *   S<h>:<stdio>:<action>:<gate|->:<flags>   uv_spawn of child h
 *        stdio: comma list of i | p | h<fd> | b   ("-" = stdio_count 0)
 *        action: x<code> | s<sig>
 *        flags: R report, E nonexistent file, N no exit_cb, p pipe2 fails,
 *               f fork fails, s<k> k-th socketpair fails, u<uid> UV_PROCESS_SETUID,
 *               g<gid> UV_PROCESS_SETGID  ("-" = none)
 *   G<n> release gate n      A<h> wait until child h is a zombie
 *   R uv_run(NOWAIT)         T<n> 1 ms timer releasing gate n
 *   D uv_run(ONCE) until every child that is on its way out (no gate, gate released or
 *     due, killed) has been reported or closed
 *   W uv__wait_children()    K<h>:<sig> uv_process_kill   Z<h> reap h behind libuv's back
 *   C<h> uv_close(process)   I<n> the next waitpid call first fails n times with EINTR
 *   Y<k>:<r|o> uv_signal_start / uv_signal_start_oneshot of user watcher k on SIGCHLD
 *   y<k> uv_signal_stop(k)   X<k> uv_close(k)
 *   H uv_disable_stdio_inheritance(), descriptor table printed before and after
 *   P<h>:<sig> uv_kill(pid of h, sig)     N<h>:<sig> uv_kill(-pid of h, sig): the process group of
 *     a detached child (spawn flag d; action prefix F makes the helper fork a grandchild in its group)
 *   J<h> fate of h's grandchild: its wait status once it is gone (the worker is a subreaper), or "alive"
 *   O<c|p> fork the worker, uv_loop_fork() in the copy; c: the copy goes on with the script and the
 *     original only polls its loop, p: the other way round
 *   E like D but never blocks: makes sure the children that are on their way out are gone, lets a
 *     polling copy of the loop have its turn, runs the loop twice, prints who is still unreported
 */
#include <stdio.h>
#include <stdlib.h>
#include <string.h>
#include <errno.h>
#include <fcntl.h>
#include <unistd.h>
#include <signal.h>
#include <sys/stat.h>
#include <sys/wait.h>
#include <sys/socket.h>
#include <sys/resource.h>
#include <time.h>
#include <grp.h>
#include <poll.h>
#include <sys/prctl.h>
#include "uv.h"
#include "uv-common.h"
#include "unix/internal.h"

#define MAXFD 256
#define MAXP 64
#define MAXSLOT 32
#define REPORT_W 100
#define REPORT_R 101
#define GATE_R(n) (110 + 2 * (n))
#define GATE_W(n) (111 + 2 * (n))

pid_t __real_waitpid(pid_t, int*, int);
pid_t __real_fork(void);
int __real_socketpair(int, int, int, int[2]);
int __real_pipe2(int[2], int);
int __real_kill(pid_t, int);

/* ------------------------------------------------------------------ */
/* child mode                                                           */
/* ------------------------------------------------------------------ */
static int table_string(char* buf, size_t cap, int skip) {
  int fd, n = 0;
  for (fd = 0; fd < MAXFD; fd++) {
    struct stat st;
    int fl;
    if (fd == skip) continue;
    if (fstat(fd, &st) != 0) continue;
    fl = fcntl(fd, F_GETFD);
    n += snprintf(buf + n, cap - n, "%s%d=%llu.%llu/%d/%d", n ? "," : "", fd,
                  (unsigned long long) st.st_dev, (unsigned long long) st.st_ino,
                  (fl & FD_CLOEXEC) ? 1 : 0, S_ISSOCK(st.st_mode) ? 1 : 0);
    if ((size_t) n >= cap - 64) break;
  }
  if (n == 0) n = snprintf(buf, cap, "-");
  return n;
}

static int child_main(int argc, char** argv) {
  static char buf[16384];
  int rfd, gfd, fd, n;
  const char* act;
  if (argc < 5) return 99;
  pid_t gpid = 0;
  rfd = atoi(argv[2]); gfd = atoi(argv[3]); act = argv[4];
  if (act[0] == 'F') {
    /* a grandchild in the helper's process group: waits for the gate, then leaves quietly */
    act++;
    gpid = __real_fork();
    if (gpid == 0) {
      char c;
      ssize_t r;
      if (rfd >= 0) close(rfd);
      if (gfd >= 0) do r = read(gfd, &c, 1); while (r == -1 && errno == EINTR);
      _exit(0);
    }
  }
  if (rfd >= 0) {
    n = table_string(buf, sizeof buf, -1);
    for (fd = 0; fd < MAXFD; fd++) {
      struct stat st;
      if (fstat(fd, &st) == 0 && S_ISSOCK(st.st_mode)) {
        unsigned char b = (unsigned char) fd;
        ssize_t r = send(fd, &b, 1, MSG_NOSIGNAL | MSG_DONTWAIT);
        (void) r;
      }
    }
    {
      uid_t ur, ue, us; gid_t gr, ge, gs;
      getresuid(&ur, &ue, &us); getresgid(&gr, &ge, &gs);
      n += snprintf(buf + n, sizeof buf - n, "|%u.%u.%u|%u.%u.%u|%d", (unsigned) ur, (unsigned) ue,
                    (unsigned) us, (unsigned) gr, (unsigned) ge, (unsigned) gs, getgroups(0, NULL));
      n += snprintf(buf + n, sizeof buf - n, "|%d.%d|%d", getsid(0) == getpid() ? 1 : 0,
                    getpgrp() == getpid() ? 1 : 0, (int) gpid);
    }
    { ssize_t r = write(rfd, buf, n); (void) r; }
    close(rfd);
  }
  if (gfd >= 0) {
    char c;
    ssize_t r;
    do r = read(gfd, &c, 1); while (r == -1 && errno == EINTR);
  }
  if (act[0] == 'x') _exit(atoi(act + 1));
  if (act[0] == 's') {
    struct rlimit rl = { 0, 0 };
    setrlimit(RLIMIT_CORE, &rl);
    __real_kill(getpid(), atoi(act + 1));
    for (;;) pause();
  }
  return 98;
}

/* ------------------------------------------------------------------ */
/* worker                                                               */
/* ------------------------------------------------------------------ */
static char out[1 << 17];
static size_t outn;
#define OUT(...) do { outn += snprintf(out + outn, sizeof out - outn, __VA_ARGS__); \
                      if (outn > sizeof out - 4096) outn = sizeof out - 4096; } while (0)

static const char* g_dir;
static char w_dir[4200];
static int resfd = 1;
static void file_path(char* path, size_t cap, int n) {
  if (n == 0) snprintf(path, cap, "/dev/null");
  else snprintf(path, cap, "%s/f%d", w_dir, n);
}
static char self_path[4096];
static uv_loop_t loop;
static uv_process_t* procs[MAXP];
static pid_t pids[MAXP];
static int spawned[MAXP];      /* fork happened */
static int closed[MAXP];
static uv_pipe_t* pipes_h[MAXP][MAXSLOT];
static int gate_open[32];
static int spawn_ok[MAXP], gate_of[MAXP], gate_due[32], killed_h[MAXP], stolen_h[MAXP];
static uv_timer_t timers[32];
static pid_t gpids[MAXP];
static int in_uv_kill;
static int peer_ping = -1, peer_pong = -1;   /* a forked copy of the worker polls its loop */
static pid_t peer_pid;
static uv_signal_t* usig[8];
static int usig_closed[8];
static int ntimers;
static int cur_spawn = -1;     /* child being spawned (for the fork wrapper) */
static int inj_eintr, inj_sp = -1, inj_pipe, inj_fork, sp_calls;
static int scan_last = -1, scan_last_eintr;
static int nfiles_seen[64];

/* abort() inside libuv (an assertion of an assert-enabled build): say where, flush, leave */
static void on_abort(int sig) {
  char msg[256];
  char path[4300];
  int n = 0, fd, i;
  (void) sig;
  file_path(path, sizeof path, 63);
  fd = open(path, O_RDONLY);
  if (fd >= 0) { n = (int) read(fd, msg, sizeof msg - 1); close(fd); }
  if (n < 0) n = 0;
  msg[n] = 0;
  for (i = 0; i < n; i++) if (msg[i] == ' ' || msg[i] == '\n' || msg[i] == '\t') msg[i] = '_';
  OUT("abort:%d:%s \n", cur_spawn, n ? msg : "-");
  { ssize_t k = write(resfd, out, outn); (void) k; }
  _exit(0);
}

static int h_of_pid(pid_t pid) {
  int i;
  for (i = MAXP - 1; i >= 0; i--) if (spawned[i] && pids[i] == pid) return i;   /* latest first: pids can be reused */
  return -1;
}

pid_t __wrap_waitpid(pid_t pid, int* status, int options) {
  int h = h_of_pid(pid);
  pid_t r;
  int e;
  if (h < 0 || cur_spawn == -2) return __real_waitpid(pid, status, options);
  if (options & WNOHANG) {
    if (scan_last == -1 || (h <= scan_last && !(h == scan_last && scan_last_eintr)))
      OUT("N ");
    scan_last = h;
  }
  if (inj_eintr > 0) {
    inj_eintr--;
    scan_last_eintr = 1;
    OUT("w%d:%c:E ", h, (options & WNOHANG) ? 'n' : 'b');
    errno = EINTR;
    return -1;
  }
  r = __real_waitpid(pid, status, options);
  e = errno;
  scan_last_eintr = (r == -1 && e == EINTR);
  if (r == pid) OUT("w%d:%c:P%d ", h, (options & WNOHANG) ? 'n' : 'b', *status);
  else if (r == 0) OUT("w%d:%c:0 ", h, (options & WNOHANG) ? 'n' : 'b');
  else if (e == EINTR) OUT("w%d:%c:E ", h, (options & WNOHANG) ? 'n' : 'b');
  else if (e == ECHILD) OUT("w%d:%c:C ", h, (options & WNOHANG) ? 'n' : 'b');
  else OUT("w%d:%c:O%d ", h, (options & WNOHANG) ? 'n' : 'b', e);
  errno = e;
  return r;
}

pid_t __wrap_fork(void) {
  pid_t p;
  if (cur_spawn < 0) return __real_fork();
  if (inj_fork) { errno = EAGAIN; return -1; }
  p = __real_fork();
  if (p > 0) { pids[cur_spawn] = p; spawned[cur_spawn] = 1; }
  return p;
}

int __wrap_socketpair(int d, int t, int p, int sv[2]) {
  if (cur_spawn >= 0) {
    if (sp_calls++ == inj_sp) { errno = ENFILE; return -1; }
  }
  return __real_socketpair(d, t, p, sv);
}

int __wrap_kill(pid_t pid, int sig) {
  int r, e, h;
  if (!in_uv_kill) return __real_kill(pid, sig);
  r = __real_kill(pid, sig);
  e = errno;
  h = h_of_pid(pid > 0 ? pid : -pid);
  if (h >= 0) OUT("e%c%d:%d:%d ", pid > 0 ? 'c' : 'g', h, sig, r == 0 ? 0 : e);
  else OUT("e?%d:%d:%d ", (int) pid, sig, r == 0 ? 0 : e);
  errno = e;
  return r;
}

int __wrap_pipe2(int fds[2], int flags) {
  if (cur_spawn >= 0 && inj_pipe) { errno = EMFILE; return -1; }
  return __real_pipe2(fds, flags);
}

static unsigned long long cur_mask(void) {
  sigset_t cur;
  unsigned long long v = 0;
  int sig;
  pthread_sigmask(SIG_SETMASK, NULL, &cur);
  for (sig = 1; sig <= 64; sig++)
    if (sigismember(&cur, sig) == 1) v |= 1ULL << (sig - 1);
  return v;
}

static void snapshot(const char* tag, int h) {
  static char buf[16384];
  table_string(buf, sizeof buf, -1);
  OUT("%s%d:%s ", tag, h, buf);
}

static void exit_cb(uv_process_t* p, int64_t es, int ts) {
  int h = (int) (intptr_t) p->data;
  int st = 0;
  pid_t r = __real_waitpid(pids[h], &st, WNOHANG);
  char c = (r == -1 && errno == ECHILD) ? 'C' : (r == 0 ? 'R' : (r > 0 ? 'Z' : '?'));
  OUT("x%d:%lld:%d:%c:%d ", h, (long long) es, ts, c, uv_is_active((uv_handle_t*) p) ? 1 : 0);
  scan_last = -1;
}

static void usig_cb(uv_signal_t* h, int signum) {
  OUT("v%d ", (int) (intptr_t) h->data);
  (void) signum;
}

/* libuv will never hear of an exit: SIGCHLD blocked in the loop thread, or its disposition is
 * not a handler any more.  0 = fine */
static const char* sigchld_dead(void) {
  struct sigaction sa;
  if (cur_mask() & (1ULL << (SIGCHLD - 1))) return "blocked";
  if (sigaction(SIGCHLD, NULL, &sa) == 0 && !(sa.sa_flags & SA_SIGINFO) &&
      (sa.sa_handler == SIG_DFL || sa.sa_handler == SIG_IGN)) return "default";
  return NULL;
}

static void release_gate(int n) {
  if (gate_open[n]) { close(GATE_W(n)); gate_open[n] = 0; }
}
static void timer_cb(uv_timer_t* t) { release_gate((int) (intptr_t) t->data); }
static void close_cb(uv_handle_t* h) { (void) h; }

static void place(int tmp, int fd, int cx) {
  if (tmp != fd) { dup2(tmp, fd); close(tmp); }
  fcntl(fd, F_SETFD, cx ? FD_CLOEXEC : 0);
}

static void do_spawn(char* tok) {
  /* S<h>:<stdio>:<action>:<gate>:<flags> */
  char *f[5], *save = NULL, *s;
  int i, h, n = 0, gate, report = 0, bad_exec = 0, nocb = 0, r, set_uid = -1, set_gid = -1, detached = 0;
  uv_process_options_t opt;
  uv_stdio_container_t stdio[MAXSLOT];
  char rfd_s[16], gfd_s[16];
  char* args[6];
  for (i = 0, s = strtok_r(tok + 1, ":", &save); s && i < 5; s = strtok_r(NULL, ":", &save)) f[i++] = s;
  if (i != 5) { OUT("badspawn "); return; }
  h = atoi(f[0]);
  gate = (f[3][0] == '-') ? -1 : atoi(f[3]);
  inj_sp = -1; inj_pipe = 0; inj_fork = 0; sp_calls = 0;
  for (s = f[4]; *s; s++) {
    if (*s == 'R') report = 1;
    else if (*s == 'E') bad_exec = 1;
    else if (*s == 'N') nocb = 1;
    else if (*s == 'p') inj_pipe = 1;
    else if (*s == 'f') inj_fork = 1;
    else if (*s == 's') { inj_sp = atoi(s + 1); while (s[1] >= '0' && s[1] <= '9') s++; }
    else if (*s == 'd') detached = 1;
    else if (*s == 'u') { set_uid = atoi(s + 1); while (s[1] >= '0' && s[1] <= '9') s++; }
    else if (*s == 'g') { set_gid = atoi(s + 1); while (s[1] >= '0' && s[1] <= '9') s++; }
  }
  memset(&opt, 0, sizeof opt);
  memset(stdio, 0, sizeof stdio);
  if (f[1][0] != '-') {
    char* save2 = NULL;
    for (s = strtok_r(f[1], ",", &save2); s && n < MAXSLOT; s = strtok_r(NULL, ",", &save2), n++) {
      if (s[0] == 'i') stdio[n].flags = UV_IGNORE;
      else if (s[0] == 'h') { stdio[n].flags = UV_INHERIT_FD; stdio[n].data.fd = atoi(s + 1); }
      else if (s[0] == 'b') { stdio[n].flags = UV_INHERIT_FD; stdio[n].data.fd = -1; }
      else if (s[0] == 'p') {
        pipes_h[h][n] = calloc(1, sizeof(uv_pipe_t));
        uv_pipe_init(&loop, pipes_h[h][n], 0);
        stdio[n].flags = UV_CREATE_PIPE | UV_READABLE_PIPE | UV_WRITABLE_PIPE;
        stdio[n].data.stream = (uv_stream_t*) pipes_h[h][n];
      }
    }
  }
  snprintf(rfd_s, sizeof rfd_s, "%d", report ? REPORT_W : -1);
  snprintf(gfd_s, sizeof gfd_s, "%d", gate >= 0 ? GATE_R(gate) : -1);
  args[0] = self_path; args[1] = "--child"; args[2] = rfd_s; args[3] = gfd_s; args[4] = f[2]; args[5] = NULL;
  opt.file = bad_exec ? "/nonexistent-c12/no-such-file" : self_path;
  opt.args = args;
  opt.stdio = stdio;
  opt.stdio_count = n;
  opt.exit_cb = nocb ? NULL : exit_cb;
  if (detached) opt.flags |= UV_PROCESS_DETACHED;
  if (set_uid >= 0) { opt.flags |= UV_PROCESS_SETUID; opt.uid = set_uid; }
  if (set_gid >= 0) { opt.flags |= UV_PROCESS_SETGID; opt.gid = set_gid; }
  {
    uid_t ur, ue, us; gid_t gr, ge, gs;
    getresuid(&ur, &ue, &us); getresgid(&gr, &ge, &gs);
    OUT("I%d:%u.%u.%u/%u.%u.%u ", h, (unsigned) ur, (unsigned) ue, (unsigned) us,
        (unsigned) gr, (unsigned) ge, (unsigned) gs);
  }
  procs[h] = calloc(1, sizeof(uv_process_t));
  procs[h]->data = (void*) (intptr_t) h;
  gate_of[h] = gate;
  snapshot("P", h);
  {
    unsigned long long before = cur_mask(), after;
    cur_spawn = h;
    r = uv_spawn(&loop, procs[h], &opt);
    cur_spawn = -1;
    after = cur_mask();
    OUT("M%d:%llx:%llx ", h, before, after);
  }
  spawn_ok[h] = (r == 0);
  inj_sp = -1; inj_pipe = 0; inj_fork = 0;
  OUT("s%d:%d:%d ", h, r, uv_is_active((uv_handle_t*) procs[h]) ? 1 : 0);
  snapshot("Q", h);
  if (report) {
    static char buf[16384];
    size_t got = 0;
    ssize_t k;
    close(REPORT_W);
    for (;;) {
      do k = read(REPORT_R, buf + got, sizeof buf - 1 - got); while (k == -1 && errno == EINTR);
      if (k <= 0) break;
      got += k;
    }
    buf[got] = 0;
    close(REPORT_R);
    { char* bar = strrchr(buf, '|'); if (bar) gpids[h] = atoi(bar + 1); }
    OUT("c%d:%s ", h, got ? buf : "-");
    OUT("t%d:", h);
    for (i = 0; i < n; i++) {
      uv_os_fd_t sfd = -1;
      unsigned char tb[64];
      int first = 1, j;
      if (!pipes_h[h][i]) continue;
      if (uv_fileno((uv_handle_t*) pipes_h[h][i], &sfd) != 0) { OUT("%d=-/;", i); continue; }
      OUT("%d=%d/", i, sfd);
      do k = recv(sfd, tb, sizeof tb, MSG_DONTWAIT); while (k == -1 && errno == EINTR);
      for (j = 0; j < k; j++) { OUT("%s%d", first ? "" : ".", tb[j]); first = 0; }
      OUT(";");
    }
    OUT(" ");
  }
}

static void run_case(char* line) {
  char *save = NULL, *tok;
  int hi = 39, i, fd, loop_ready = 0;
  int nullfd;

  alarm(6);
  prctl(PR_SET_CHILD_SUBREAPER, 1);     /* orphaned grandchildren come to us and can be waited for */
  signal(SIGABRT, on_abort);
  resfd = fcntl(1, F_DUPFD_CLOEXEC, 250);
  for (fd = 3; fd < 1024; fd++) if (fd != resfd) close(fd);
  snprintf(w_dir, sizeof w_dir, "%s/w%d", g_dir, (int) getpid());
  mkdir(w_dir, 0700);
  {
    struct stat st;
    if (stat("/dev/null", &st) == 0)
      OUT("F0=%llu.%llu ", (unsigned long long) st.st_dev, (unsigned long long) st.st_ino);
  }
  /* the worker's own 0,1,2 become private files 61,62,63 */
  for (fd = 0; fd < 3; fd++) {
    char path[4300];
    struct stat st;
    int tmp;
    file_path(path, sizeof path, 61 + fd);
    tmp = open(path, O_RDWR | O_APPEND | O_CREAT, 0600);
    if (tmp < 0) { OUT("open-failed:%s ", path); continue; }
    if (tmp != fd) { dup2(tmp, fd); close(tmp); }
    nfiles_seen[61 + fd] = 1;
    if (fstat(fd, &st) == 0)
      OUT("F%d=%llu.%llu ", 61 + fd, (unsigned long long) st.st_dev, (unsigned long long) st.st_ino);
  }

  /* find L<hi> first */
  { char* p = strstr(line, "L"); if (p && (p == line || p[-1] == ' ')) hi = atoi(p + 1); }
  nullfd = open("/dev/null", O_RDWR | O_CLOEXEC);   /* = 3 */
  for (fd = 4; fd <= hi; fd++) dup2(nullfd, fd);
  if (uv_loop_init(&loop) != 0) { OUT("loop-init-failed"); return; }
  for (fd = 3; fd <= hi; fd++) close(fd);
  loop_ready = 1;
  (void) loop_ready;

  for (tok = strtok_r(line, " \n", &save); tok; tok = strtok_r(NULL, " \n", &save)) {
    int a, b;
    char c;
    scan_last = -1;
    switch (tok[0]) {
    case 'L': break;
    case 'c': a = atoi(tok + 1); if (a >= 0 && a <= 2) close(a); break;
    case 'V': { int x, y, z; if (sscanf(tok + 1, "%d,%d,%d", &x, &y, &z) == 3 && setresgid(x, y, z) != 0) OUT("setresgid-failed:%d ", errno); break; }
    case 'U': { int x, y, z; if (sscanf(tok + 1, "%d,%d,%d", &x, &y, &z) == 3 && setresuid(x, y, z) != 0) OUT("setresuid-failed:%d ", errno); break; }
    case 'B': {
      sigset_t set;
      sigemptyset(&set);
      sigaddset(&set, atoi(tok + 1));
      pthread_sigmask(SIG_BLOCK, &set, NULL);
      break;
    }
    case 'f':
      if (sscanf(tok + 1, "%d=%d%c", &a, &b, &c) == 3) {
        char path[4300];
        struct stat st;
        int tmp;
        if (b < 0 || b > 60) break;
        file_path(path, sizeof path, b);
        tmp = open(path, O_RDWR | O_APPEND | O_CREAT, 0600);
        if (tmp < 0) { OUT("open-failed:%s ", path); break; }
        if (b > 0 && !nfiles_seen[b] && fstat(tmp, &st) == 0)
          OUT("F%d=%llu.%llu ", b, (unsigned long long) st.st_dev, (unsigned long long) st.st_ino);
        if (b > 0) nfiles_seen[b] = 1;
        place(tmp, a, c == 'c');
      }
      break;
    case 'r': {
      int p[2];
      if (__real_pipe2(p, O_CLOEXEC) == 0) {
        int w = fcntl(p[1], F_DUPFD, 200), r = fcntl(p[0], F_DUPFD, 200);
        close(p[0]); close(p[1]);
        place(w, REPORT_W, 0); place(r, REPORT_R, 1);
      }
      break;
    }
    case 'g': {
      int p[2], n = atoi(tok + 1);
      if (n >= 0 && n < 32 && __real_pipe2(p, O_CLOEXEC) == 0) {
        int w = fcntl(p[1], F_DUPFD, 200), r = fcntl(p[0], F_DUPFD, 200);
        close(p[0]); close(p[1]);
        place(r, GATE_R(n), 0); place(w, GATE_W(n), 1);
        gate_open[n] = 1;
      }
      break;
    }
    case 'S': do_spawn(tok); break;
    case 'G': a = atoi(tok + 1); if (a >= 0 && a < 32) { gate_due[a] = 1; release_gate(a); } break;
    case 'A': {
      siginfo_t si;
      int h = atoi(tok + 1), r;
      if (h >= 0 && h < MAXP && spawned[h]) {
        do r = waitid(P_PID, pids[h], &si, WEXITED | WNOWAIT); while (r == -1 && errno == EINTR);
      }
      break;
    }
    case 'R': uv_run(&loop, UV_RUN_NOWAIT); break;
    case 'D':
      /* block in the loop until every child that is on its way out was dealt with */
      for (;;) {
        int h, waiting = 0, any = 0;
        const char* dead = sigchld_dead();
        for (h = 0; h < MAXP; h++)
          if (spawned[h] && spawn_ok[h] && !closed[h] && !stolen_h[h] && procs[h] &&
              uv_is_active((uv_handle_t*) procs[h]) &&
              (gate_of[h] < 0 || gate_due[gate_of[h]] || killed_h[h]))
            any = 1;
        if (dead && any) {
          /* SIGCHLD is blocked in the loop thread or its disposition was reset: libuv will
           * never hear of an exit and uv_run would block for good.  Make sure the children
           * are gone, give the loop two passes, and say who is still waiting. */
          int first = 1;
          for (h = 0; h < 32; h++) if (gate_due[h]) release_gate(h);   /* timers may not have run */
          for (h = 0; h < MAXP; h++)
            if (spawned[h] && spawn_ok[h] && !closed[h] && !stolen_h[h] && procs[h] &&
                uv_is_active((uv_handle_t*) procs[h]) &&
                (gate_of[h] < 0 || gate_due[gate_of[h]] || killed_h[h])) {
              siginfo_t si;
              int r;
              do r = waitid(P_PID, pids[h], &si, WEXITED | WNOWAIT); while (r == -1 && errno == EINTR);
            }
          uv_run(&loop, UV_RUN_NOWAIT);
          uv_run(&loop, UV_RUN_NOWAIT);
          for (h = 0; h < MAXP; h++)
            if (spawned[h] && spawn_ok[h] && !closed[h] && !stolen_h[h] && procs[h] &&
                uv_is_active((uv_handle_t*) procs[h]) &&
                (gate_of[h] < 0 || gate_due[gate_of[h]] || killed_h[h])) {
              if (first) OUT("stuck:%s:", dead);
              OUT("%s%d", first ? "" : ",", h);
              first = 0;
            }
          if (!first) OUT(" ");
          break;
        }
        for (h = 0; h < MAXP; h++)
          if (spawned[h] && spawn_ok[h] && !closed[h] && !stolen_h[h] && procs[h] && uv_is_active((uv_handle_t*) procs[h]) &&
              (gate_of[h] < 0 || gate_due[gate_of[h]] || killed_h[h]))
            waiting = 1;
        if (!waiting) break;
        uv_run(&loop, UV_RUN_ONCE);
      }
      break;
    case 'T':
      if (ntimers < 32) {
        uv_timer_init(&loop, &timers[ntimers]);
        timers[ntimers].data = (void*) (intptr_t) atoi(tok + 1);
        if (atoi(tok + 1) >= 0 && atoi(tok + 1) < 32) gate_due[atoi(tok + 1)] = 1;
        uv_timer_start(&timers[ntimers], timer_cb, 1, 0);
        ntimers++;
      }
      break;
    case 'W': uv__wait_children(&loop); break;
    case 'K':
      if (sscanf(tok + 1, "%d:%d", &a, &b) == 2 && a >= 0 && a < MAXP && procs[a])
        { int r; in_uv_kill = 1; r = uv_process_kill(procs[a], b); in_uv_kill = 0; if (r == 0 && b != 0) killed_h[a] = 1; OUT("k%d:%d ", a, r); }
      break;
    case 'P': case 'N':
      if (sscanf(tok + 1, "%d:%d", &a, &b) == 2 && a >= 0 && a < MAXP && spawned[a]) {
        int r;
        in_uv_kill = 1;
        r = uv_kill(tok[0] == 'P' ? pids[a] : -pids[a], b);
        in_uv_kill = 0;
        if (r == 0 && b != 0) killed_h[a] = 1;
        OUT("k%d:%d ", a, r);
      }
      break;
    case 'J': {
      int h = atoi(tok + 1), st = 0;
      if (h >= 0 && h < MAXP && gpids[h] > 0) {
        pid_t r;
        /* block only when the grandchild must be on its way out: its group was signalled.  It
         * becomes our child (we are a subreaper) when its parent, the helper, has gone. */
        if (killed_h[h]) {
          siginfo_t si;
          int q;
          do q = waitid(P_PID, pids[h], &si, WEXITED | WNOWAIT); while (q == -1 && errno == EINTR);
        }
        do r = __real_waitpid(gpids[h], &st, killed_h[h] ? 0 : WNOHANG); while (r == -1 && errno == EINTR);
        if (r == gpids[h]) { OUT("j%d:%d ", h, st); gpids[h] = -1; }
        else if (r == 0) OUT("j%d:alive ", h);
        else {
          /* not our child (yet): its parent, the helper, is still there */
          OUT("j%d:%s ", h, __real_kill(gpids[h], 0) == 0 ? "alive" : "gone");
        }
      } else OUT("j%d:none ", h);
      break;
    }
    case 'O': {
      int ping[2], pong[2];
      pid_t cp;
      int spawner_is_copy = tok[1] == 'c', i_am_copy, fdp;
      if (__real_pipe2(ping, O_CLOEXEC) != 0 || __real_pipe2(pong, O_CLOEXEC) != 0) { OUT("fork-pipes-failed "); break; }
      for (fdp = 0; fdp < 2; fdp++) {
        int x = fcntl(ping[fdp], F_DUPFD_CLOEXEC, 220); close(ping[fdp]); ping[fdp] = x;
        x = fcntl(pong[fdp], F_DUPFD_CLOEXEC, 220); close(pong[fdp]); pong[fdp] = x;
      }
      cp = __real_fork();
      if (cp < 0) { OUT("fork-failed "); break; }
      i_am_copy = cp == 0;
      if (i_am_copy) {
        int r = uv_loop_fork(&loop);
        if (r != 0) OUT("loop-fork-failed:%d ", r);
      }
      if (i_am_copy != spawner_is_copy) {
        /* the poller: keeps its loop turning until the other side hangs up */
        char b;
        int gn;
        static uv_timer_t keepalive;     /* uv_run() polls for I/O only while the loop is alive */
        uv_timer_init(&loop, &keepalive);
        uv_timer_start(&keepalive, (uv_timer_cb) close_cb, 3600 * 1000, 0);
        close(ping[1]); close(pong[0]);
        for (gn = 0; gn < 32; gn++) if (gate_open[gn]) close(GATE_W(gn));   /* the gates belong to the other side */
        for (;;) {
          struct pollfd pf[2];
          pf[0].fd = uv_backend_fd(&loop); pf[0].events = POLLIN; pf[0].revents = 0;
          pf[1].fd = ping[0]; pf[1].events = POLLIN; pf[1].revents = 0;
          if (poll(pf, 2, -1) < 0 && errno != EINTR) break;
          if (pf[1].revents) {
            ssize_t k;
            do k = read(ping[0], &b, 1); while (k == -1 && errno == EINTR);
            if (k <= 0) break;
            uv_run(&loop, UV_RUN_NOWAIT);
            uv_run(&loop, UV_RUN_NOWAIT);
            do k = write(pong[1], "p", 1); while (k == -1 && errno == EINTR);
          } else {
            uv_run(&loop, UV_RUN_NOWAIT);
          }
        }
        if (!i_am_copy) { int st; do {} while (__real_waitpid(cp, &st, 0) == -1 && errno == EINTR); }
        _exit(0);
      }
      close(ping[0]); close(pong[1]);
      peer_ping = ping[1]; peer_pong = pong[0];
      peer_pid = i_am_copy ? 0 : cp;
      OUT("O%c ", tok[1]);
      {  /* wait until the poller has registered its watchers */
        char b; ssize_t k;
        do k = write(peer_ping, "x", 1); while (k == -1 && errno == EINTR);
        do k = read(peer_pong, &b, 1); while (k == -1 && errno == EINTR);
      }
      break;
    }
    case 'E': {
      int h, first = 1;
      for (h = 0; h < 32; h++) if (gate_due[h]) release_gate(h);
      for (h = 0; h < MAXP; h++)
        if (spawned[h] && spawn_ok[h] && !closed[h] && !stolen_h[h] && procs[h] &&
            uv_is_active((uv_handle_t*) procs[h]) &&
            (gate_of[h] < 0 || gate_due[gate_of[h]] || killed_h[h])) {
          siginfo_t si;
          int r;
          do r = waitid(P_PID, pids[h], &si, WEXITED | WNOWAIT); while (r == -1 && errno == EINTR);
        }
      if (peer_ping >= 0) {
        char b; ssize_t k;
        do k = write(peer_ping, "x", 1); while (k == -1 && errno == EINTR);
        do k = read(peer_pong, &b, 1); while (k == -1 && errno == EINTR);
      }
      uv_run(&loop, UV_RUN_NOWAIT);
      uv_run(&loop, UV_RUN_NOWAIT);
      for (h = 0; h < MAXP; h++)
        if (spawned[h] && spawn_ok[h] && !closed[h] && !stolen_h[h] && procs[h] &&
            uv_is_active((uv_handle_t*) procs[h]) &&
            (gate_of[h] < 0 || gate_due[gate_of[h]] || killed_h[h])) {
          if (first) OUT("stuck:lost:");
          OUT("%s%d", first ? "" : ",", h);
          first = 0;
        }
      if (!first) OUT(" ");
      break;
    }
    case 'Z': {
      int h = atoi(tok + 1), st;
      if (h >= 0 && h < MAXP && spawned[h]) {
        pid_t r;
        do r = __real_waitpid(pids[h], &st, 0); while (r == -1 && errno == EINTR);
        stolen_h[h] = 1;
      }
      break;
    }
    case 'C': {
      int h = atoi(tok + 1);
      if (h >= 0 && h < MAXP && procs[h] && !closed[h]) { closed[h] = 1; uv_close((uv_handle_t*) procs[h], close_cb); OUT("C%d ", h); }
      break;
    }
    case 'I': inj_eintr = atoi(tok + 1); break;
    case 'Y': {
      int k = atoi(tok + 1);
      char* c2 = strchr(tok, ':');
      if (k >= 0 && k < 8 && c2 && !usig_closed[k]) {
        int r;
        if (!usig[k]) {
          usig[k] = calloc(1, sizeof(uv_signal_t));
          uv_signal_init(&loop, usig[k]);
          usig[k]->data = (void*) (intptr_t) k;
          uv_unref((uv_handle_t*) usig[k]);
        }
        r = c2[1] == 'o' ? uv_signal_start_oneshot(usig[k], usig_cb, SIGCHLD)
                         : uv_signal_start(usig[k], usig_cb, SIGCHLD);
        if (r != 0) OUT("usig-start-failed:%d ", r);
      }
      break;
    }
    case 'y': a = atoi(tok + 1); if (a >= 0 && a < 8 && usig[a] && !usig_closed[a]) uv_signal_stop(usig[a]); break;
    case 'X': a = atoi(tok + 1); if (a >= 0 && a < 8 && usig[a] && !usig_closed[a]) { usig_closed[a] = 1; uv_close((uv_handle_t*) usig[a], close_cb); } break;
    case 'H':
      snapshot("Hb", 0);
      uv_disable_stdio_inheritance();
      snapshot("Ha", 0);
      break;
    default: break;
    }
  }

  /* teardown: let everybody go, collect what libuv left behind */
  if (setresuid(-1, 0, -1) != 0 || setresgid(-1, 0, -1) != 0) OUT("cannot-regain-root ");
  for (i = 0; i < 32; i++) release_gate(i);
  if (peer_ping >= 0) {
    int st;
    close(peer_ping);
    if (peer_pid > 0) do {} while (__real_waitpid(peer_pid, &st, 0) == -1 && errno == EINTR);
  }
  cur_spawn = -2;
  {
    int left[MAXP], nleft = 0, st, j, k;
    pid_t r;
    for (;;) {
      do r = __real_waitpid(-1, &st, 0); while (r == -1 && errno == EINTR);
      if (r <= 0) break;
      j = h_of_pid(r);
      if (j < 0) continue;              /* a grandchild that was handed to us */
      if (nleft < MAXP) left[nleft++] = j;
    }
    for (j = 0; j < nleft; j++) for (k = j + 1; k < nleft; k++)
      if (left[k] < left[j]) { int t = left[j]; left[j] = left[k]; left[k] = t; }
    OUT("z:");
    if (nleft == 0) OUT("-");
    for (j = 0; j < nleft; j++) OUT("%s%d", j ? "," : "", left[j]);
    OUT(" ");
  }
  for (i = 1; i < 64; i++) if (nfiles_seen[i]) {
    char path[4300];
    struct stat st;
    file_path(path, sizeof path, i);
    if (stat(path, &st) == 0 && st.st_size != 0) OUT("m%d:%lld ", i, (long long) st.st_size);
    unlink(path);
  }
  rmdir(w_dir);
}

int main(int argc, char** argv) {
  static char line[1 << 15];
  if (argc >= 2 && strcmp(argv[1], "--child") == 0) return child_main(argc, argv);
  if (argc < 2) { fprintf(stderr, "usage: c12_spawn <dir>\n"); return 2; }
  g_dir = argv[1];
  {
    ssize_t n = readlink("/proc/self/exe", self_path, sizeof self_path - 1);
    if (n <= 0) return 2;
    self_path[n] = 0;
  }
  signal(SIGPIPE, SIG_IGN);
  while (fgets(line, sizeof line, stdin)) {
    pid_t w;
    int st;
    fflush(stdout);
    w = __real_fork();
    if (w == 0) {
      ssize_t k;
      run_case(line);
      OUT("\n");
      k = write(resfd, out, outn);
      (void) k;
      _exit(0);
    }
    {
      /* watchdog from outside: the worker's own alarm is useless once libuv has left
       * SIGALRM blocked */
      struct timespec t0, t1, nap = { 0, 500000 };
      pid_t r;
      clock_gettime(CLOCK_MONOTONIC, &t0);
      for (;;) {
        r = __real_waitpid(w, &st, WNOHANG);
        if (r == w || (r == -1 && errno != EINTR)) break;
        nanosleep(&nap, NULL);
        clock_gettime(CLOCK_MONOTONIC, &t1);
        if (t1.tv_sec - t0.tv_sec >= 8) {
          __real_kill(w, SIGKILL);
          do r = __real_waitpid(w, &st, 0); while (r == -1 && errno == EINTR);
          break;
        }
      }
    }
    if (!(WIFEXITED(st) && WEXITSTATUS(st) == 0)) {
      printf("WORKER-DIED:%d\n", st);
      fflush(stdout);
    }
  }
  return 0;
}
