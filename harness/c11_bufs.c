/* C11 (b): buffer arithmetic of uv_fs_read / uv_fs_write (sync, cb = NULL) of the
 * freshly built libuv on a scratch file.  Linked with
 *   --wrap=write,writev,pwrite64,read,readv,pread64   (+ -rdynamic)
 * and defining preadv64/pwritev64 itself: libuv looks those two up
 * with dlsym(RTLD_DEFAULT, ...), which finds the executable's definition first.
 * Every intercepted call on the scratch descriptor follows the script of the case
 * (pass, truncate to k bytes = perform the real call on a truncated iovec, fail
 * with an errno without performing the call) and is logged with the answer it
 * gave; the log is the oracle of the model (Model/Fs.v, part B).
 *
 * Case (one line):   W|R off pos0 filelen lens ; script
 *   lens   comma separated buffer lengths (r<count>x<len> = run of equal lengths)
 *   script blank separated directives, one per system call: f | s<k> | e<errno>
 * Output:
 *   r=<result> calls=<K:iovcnt:bytes:off:hash:answer>,... file=<len>:<hash> bufs=<hash> pos=<offset>
 * K: w write, v writev, p pwrite, q pwritev, r read, V readv, P pread, Q preadv.
 * answer: n or -errno.  hash: FNV-1a (32 bit) of the bytes offered (writes) or 0 (reads). */
#define _GNU_SOURCE
#include <stdio.h>
#include <stdlib.h>
#include <string.h>
#include <stdarg.h>
#include <errno.h>
#include <fcntl.h>
#include <unistd.h>
#include <dlfcn.h>
#include <sys/uio.h>
#include <sys/stat.h>
#include "uv.h"

ssize_t __real_write(int, const void*, size_t);
ssize_t __real_writev(int, const struct iovec*, int);
ssize_t __real_pwrite64(int, const void*, size_t, off_t);
ssize_t __real_read(int, void*, size_t);
ssize_t __real_readv(int, const struct iovec*, int);
ssize_t __real_pread64(int, void*, size_t, off_t);

static int target_fd = -1, armed;
static char** script; static int nscript, iscript;
static int intercepted;

static char* obuf; static size_t olen, ocap;
static void out(const char* fmt, ...) {
  va_list ap; int n;
  if (ocap - olen < 4096) { ocap = ocap * 2 + 8192; obuf = realloc(obuf, ocap); }
  va_start(ap, fmt); n = vsnprintf(obuf + olen, ocap - olen, fmt, ap); va_end(ap);
  if (n > 0) olen += (size_t) n;
}

static unsigned fnv_iov(const struct iovec* iov, int cnt) {
  unsigned h = 2166136261u; int i; size_t j;
  for (i = 0; i < cnt; i++)
    for (j = 0; j < iov[i].iov_len; j++) { h ^= ((unsigned char*) iov[i].iov_base)[j]; h *= 16777619u; }
  return h;
}
static unsigned fnv_buf(const unsigned char* p, size_t n, unsigned h) {
  size_t j; for (j = 0; j < n; j++) { h ^= p[j]; h *= 16777619u; } return h;
}

/* real positional/non-positional vector call */
static ssize_t real_v(int is_read, int fd, const struct iovec* iov, int cnt, off_t off, int pos) {
  static ssize_t (*rpreadv)(int, const struct iovec*, int, off_t);
  static ssize_t (*rpwritev)(int, const struct iovec*, int, off_t);
  if (!pos) return is_read ? __real_readv(fd, iov, cnt) : __real_writev(fd, iov, cnt);
  if (!rpreadv) rpreadv = dlsym(RTLD_NEXT, "preadv64");
  if (!rpwritev) rpwritev = dlsym(RTLD_NEXT, "pwritev64");
  return is_read ? rpreadv(fd, iov, cnt, off) : rpwritev(fd, iov, cnt, off);
}

/* The one place where all eight entry points end up. [plain]: the call has a
 * single buffer (read/write/pread/pwrite). */
static ssize_t gate(char kind, int is_read, int fd, const struct iovec* iov, int cnt,
                    off_t off, int pos, int plain) {
  size_t total = 0; int i; ssize_t r; const char* d;
  if (!armed || fd != target_fd) {
    if (plain) {
      if (pos) return is_read ? __real_pread64(fd, iov[0].iov_base, iov[0].iov_len, off)
                              : __real_pwrite64(fd, iov[0].iov_base, iov[0].iov_len, off);
      return is_read ? __real_read(fd, iov[0].iov_base, iov[0].iov_len)
                     : __real_write(fd, iov[0].iov_base, iov[0].iov_len);
    }
    return real_v(is_read, fd, iov, cnt, off, pos);
  }
  intercepted++;
  for (i = 0; i < cnt; i++) total += iov[i].iov_len;
  d = iscript < nscript ? script[iscript++] : "f";
  out("%s%c:%d:%zu:%lld:%u:", intercepted > 1 ? "," : "", kind, cnt, total,
      pos ? (long long) off : -1LL, is_read ? 0u : fnv_iov(iov, cnt));
  if (d[0] == 'e') {
    int e = atoi(d + 1);
    out("-%d", e);
    errno = e;
    return -1;
  }
  if (d[0] == 's' && (size_t) atol(d + 1) < total) {
    size_t k = (size_t) atol(d + 1), left = k; int n = 0;
    struct iovec* t = malloc(sizeof(*t) * (cnt > 0 ? cnt : 1));
    for (i = 0; i < cnt && left > 0; i++) {
      t[n] = iov[i];
      if (t[n].iov_len > left) t[n].iov_len = left;
      left -= t[n].iov_len; n++;
    }
    if (n == 0) { t[0].iov_base = iov[0].iov_base; t[0].iov_len = 0; n = 1; }
    r = real_v(is_read, fd, t, n, off, pos);
    free(t);
  } else {
    r = real_v(is_read, fd, iov, cnt, off, pos);
  }
  if (r < 0) out("-%d", errno); else out("%zd", r);
  return r;
}

ssize_t __wrap_write(int fd, const void* b, size_t n) {
  struct iovec v; v.iov_base = (void*) b; v.iov_len = n; return gate('w', 0, fd, &v, 1, 0, 0, 1); }
ssize_t __wrap_writev(int fd, const struct iovec* iov, int cnt) { return gate('v', 0, fd, iov, cnt, 0, 0, 0); }
ssize_t __wrap_pwrite64(int fd, const void* b, size_t n, off_t off) {
  struct iovec v; v.iov_base = (void*) b; v.iov_len = n; return gate('p', 0, fd, &v, 1, off, 1, 1); }
ssize_t __wrap_read(int fd, void* b, size_t n) {
  struct iovec v; v.iov_base = b; v.iov_len = n; return gate('r', 1, fd, &v, 1, 0, 0, 1); }
ssize_t __wrap_readv(int fd, const struct iovec* iov, int cnt) { return gate('V', 1, fd, iov, cnt, 0, 0, 0); }
ssize_t __wrap_pread64(int fd, void* b, size_t n, off_t off) {
  struct iovec v; v.iov_base = b; v.iov_len = n; return gate('P', 1, fd, &v, 1, off, 1, 1); }
/* found by dlsym(RTLD_DEFAULT, ...) and by direct references alike (with
 * _FILE_OFFSET_BITS=64 a reference to preadv is a reference to preadv64) */
ssize_t preadv64(int fd, const struct iovec* iov, int cnt, off_t off) { return gate('Q', 1, fd, iov, cnt, off, 1, 0); }
ssize_t pwritev64(int fd, const struct iovec* iov, int cnt, off_t off) { return gate('q', 0, fd, iov, cnt, off, 1, 0); }

/* byte patterns known to the model driver as well */
static unsigned char pat_buf(size_t g) { return (unsigned char) ((g * 31 + 7) % 251); }
static unsigned char pat_file(size_t i) { return (unsigned char) ((i * 13 + 5) % 253); }
static unsigned char pat_fill(size_t g) { return (unsigned char) (200 + g % 50); }

static size_t parse_lens(char* s, size_t** out_lens) {
  size_t cap = 64, n = 0; size_t* l = malloc(cap * sizeof(*l)); char* tok; char* save;
  if (strcmp(s, "-") != 0)
  for (tok = strtok_r(s, ",", &save); tok; tok = strtok_r(NULL, ",", &save)) {
    size_t cnt = 1, len;
    if (tok[0] == 'r') { char* x = strchr(tok, 'x'); cnt = (size_t) atol(tok + 1); len = (size_t) atol(x + 1); }
    else len = (size_t) atol(tok);
    while (cnt--) { if (n == cap) { cap *= 2; l = realloc(l, cap * sizeof(*l)); } l[n++] = len; }
  }
  *out_lens = l; return n;
}

static const char* path;

static void run_case(char* line) {
  char mode; long long off, pos0, filelen; char* p; char* semi; char* lens_s; char* scr;
  size_t* lens; size_t n, i, g, total = 0; uv_buf_t* bufs; unsigned char* mem; uv_fs_t req;
  int fd; ssize_t r; struct stat st; unsigned char* fc; unsigned h; char* tok; char* save;

  semi = strchr(line, ';');
  if (!semi) { printf("bad case\n"); return; }
  *semi = 0; scr = semi + 1;
  mode = line[0];
  p = line + 1;
  off = strtoll(p, &p, 10); pos0 = strtoll(p, &p, 10); filelen = strtoll(p, &p, 10);
  while (*p == ' ') p++;
  lens_s = p;
  for (p = lens_s; *p && *p != ' '; p++) {}
  *p = 0;
  n = parse_lens(lens_s, &lens);

  nscript = 0; iscript = 0;
  script = malloc(sizeof(char*) * (strlen(scr) + 2));
  for (tok = strtok_r(scr, " \n", &save); tok; tok = strtok_r(NULL, " \n", &save)) script[nscript++] = tok;

  for (i = 0; i < n; i++) total += lens[i];
  mem = malloc(total + 1);
  bufs = malloc(sizeof(*bufs) * (n + 1));
  for (i = 0, g = 0; i < n; i++) { bufs[i] = uv_buf_init((char*) mem + g, (unsigned) lens[i]); g += lens[i]; }
  for (g = 0; g < total; g++) mem[g] = mode == 'W' ? pat_buf(g) : pat_fill(g);

  fd = open(path, O_RDWR | O_CREAT | O_TRUNC, 0644);
  fc = malloc((size_t) filelen + 1);
  for (i = 0; i < (size_t) filelen; i++) fc[i] = pat_file(i);
  if (filelen > 0 && __real_write(fd, fc, (size_t) filelen) != filelen) { printf("setup failed\n"); exit(2); }
  free(fc);
  lseek(fd, (off_t) pos0, SEEK_SET);

  olen = 0; out("calls=");
  intercepted = 0; target_fd = fd; armed = 1;
  if (mode == 'W') r = uv_fs_write(NULL, &req, fd, bufs, (unsigned) n, off, NULL);
  else r = uv_fs_read(NULL, &req, fd, bufs, (unsigned) n, off, NULL);
  armed = 0;
  if (r != req.result && !(r == UV_EINVAL && n == 0)) out(" RESULT-MISMATCH(%zd,%zd)", r, (ssize_t) req.result);
  uv_fs_req_cleanup(&req);
  uv_fs_req_cleanup(&req);

  fstat(fd, &st);
  fc = malloc((size_t) st.st_size + 1);
  h = 2166136261u;
  if (st.st_size > 0) { ssize_t k = __real_pread64(fd, fc, (size_t) st.st_size, 0); h = fnv_buf(fc, k > 0 ? (size_t) k : 0, h); }
  free(fc);
  printf("r=%zd %s file=%lld:%u bufs=%u pos=%lld\n", r, obuf, (long long) st.st_size, h,
         fnv_buf(mem, total, 2166136261u), (long long) lseek(fd, 0, SEEK_CUR));
  close(fd);
  free(mem); free(bufs); free(lens); free(script);
}

int main(int argc, char** argv) {
  char* line = NULL; size_t cap = 0; ssize_t k;
  if (argc < 2) { fprintf(stderr, "usage: c11_bufs <scratch file>\n"); return 2; }
  { static char pb[4096]; snprintf(pb, sizeof pb, "%s.%d", argv[1], (int) getpid()); path = pb; }
  while ((k = getline(&line, &cap, stdin)) > 0) {
    if (line[k - 1] == '\n') line[k - 1] = 0;
    run_case(line);
  }
  unlink(path);
  free(line); free(obuf);
  return 0;
}
