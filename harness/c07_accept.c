/* C07 (accept side): uv__server_io / uv_accept / uv__stream_recv_cmsg /
 * uv__stream_queue_fd / uv_pipe_pending_count,type of the freshly built libuv,
 * driven through the public API.
 *
 *   mode t: uv_tcp_t server on 127.0.0.1:0          mode u: uv_pipe_t server bound in <dir>
 *   mode i: socketpair(AF_UNIX) end opened with uv_pipe_open on a uv_pipe_t with ipc = 1
 *
 * Clients are plain sockets made by the harness: connect + one token byte (the
 * client's index).  In mode i the harness sends descriptor-carrying messages with
 * raw sendmsg(SCM_RIGHTS).  Wrapped: accept4 (scripted EMFILE/ENFILE/EINTR/EAGAIN/...,
 * descriptor -> client index by peeking the token), recvmsg (SCM_RIGHTS contents
 * logged, descriptor -> index of the sent descriptor by inode), syscall(SYS_close)
 * (close of a tracked descriptor by libuv is an event), epoll_pwait (was an event
 * reported for the watched descriptor), open64 (re-opening the spare descriptor
 * of the EMFILE trick can be made to fail); uv_replace_allocator makes the
 * allocations of uv__stream_queue_fd fail on request.
 *
 * case:   <mode> ; ops ; beh0 | beh1 | ... ; script
 * ops:    K<n> n new clients   R uv_run(NOWAIT)   Af|Ab|At uv_accept into a fresh /
 *         busy / wrong-type handle   C uv_close   N pending_count   T pending_type
 *         M<kinds> send one message with descriptors (t tcp, u unix, d udp, T/D unbound AF_INET6 stream/dgram)
 *         F<j> the j-th queue allocation from now fails
 *         D<n> send a plain data chunk of n bytes (mode i<size>: alloc_cb hands out <size> bytes)
 *         S1|S0 descriptor shortage on/off: accept4 answers EMFILE unless libuv gave up its spare fd
 * script: p | e<errno> per accept4 call on the listening socket; o0|o1 per re-open
 * output: trace ; accept4 or recvmsg log ; event bits ; alloc log ; open log ; client states
 */
#include <stdio.h>
#include <stdlib.h>
#include <string.h>
#include <errno.h>
#include <stdarg.h>
#include <unistd.h>
#include <fcntl.h>
#include <poll.h>
#include <signal.h>
#include <sys/socket.h>
#include <sys/stat.h>
#include <sys/syscall.h>
#include <sys/epoll.h>
#include <sys/un.h>
#include <netinet/in.h>
#include <arpa/inet.h>
#include "uv.h"
#include "uv-common.h"

int __real_accept4(int, struct sockaddr*, socklen_t*, int);
ssize_t __real_recvmsg(int, struct msghdr*, int);
long __real_syscall(long, ...);
int __real_epoll_pwait(int, struct epoll_event*, int, int, const sigset_t*);
int __real_open64(const char*, int, ...);

#define MAXC 64
#define MAXFD 4096
#define MAXBEH 512
#define POOL 48

static const char* g_dir;
static int g_case_no;
static char g_mode;
static uv_loop_t loop;
static uv_prepare_t keepalive;
static union { uv_tcp_t tcp; uv_pipe_t pipe; uv_stream_t stream; uv_handle_t handle; } srv;
static uv_tcp_t pool_tcp[POOL]; static uv_pipe_t pool_pipe[POOL]; static uv_udp_t pool_udp[POOL];
static int n_tcp, n_pipe, n_udp;
static uv_tcp_t busy_h; static uv_timer_t bad_h; static int busy_fd;
static int g_active, g_quiet, g_closing;
static int g_watch_fd = -1, saw_event;
static int id_of_fd[MAXFD];            /* tracked descriptor -> identity, -1 = untracked */
static char* beh[MAXBEH]; static int nbeh, cbn;
static char** acc_script; static int n_acc, acc_pos;
static char** open_script; static int n_open, open_pos;
static FILE *alog, *rlog, *mlog, *olog, *evlog; static char *alog_b, *rlog_b, *mlog_b, *olog_b, *ev_b; static size_t alog_n, rlog_n, mlog_n, olog_n, ev_n;
/* server clients */
static int cfd[MAXC], nclient, c_claimed[MAXC], c_closed[MAXC], c_accepted[MAXC];
static int srv_port; static char srv_path[200];
/* ipc */
static int ipc_peer = -1, ipc_fd = -1;
static struct { ino_t ino; char kind; int peer; } sent[MAXC * 4]; static int nsent;
static int tcp_listener = -1, tcp_lport, udp_recv = -1, udp_rport;
static int in_window, fail_at;
static char rbuf[65536];
static size_t g_alloc_size = sizeof rbuf;      /* what alloc_cb hands out (mode i<n>) */
static unsigned long bytes_sent, bytes_read; static int fds_sent;
static int g_shortage, slot_free;              /* S1/S0: the process is at its descriptor limit */

static void do_ops(char* ops, int in_cb);

/* close without leaving a TIME_WAIT entry (thousands of cases per run share the port range) */
static void abort_close(int fd) {
  struct linger lg; lg.l_onoff = 1; lg.l_linger = 0;
  setsockopt(fd, SOL_SOCKET, SO_LINGER, &lg, sizeof lg);
  close(fd);
}

static void track(int fd, int id) { if (fd >= 0 && fd < MAXFD) id_of_fd[fd] = id; }
static int tracked(int fd) { return (fd >= 0 && fd < MAXFD) ? id_of_fd[fd] : -1; }

/* ---------------- wrappers ---------------- */
int __wrap_accept4(int fd, struct sockaddr* a, socklen_t* l, int flags) {
  const char* tok; int r, e;
  if (!g_active || fd != g_watch_fd || g_mode == 'i') return __real_accept4(fd, a, l, flags);
  tok = acc_pos < n_acc ? acc_script[acc_pos++] : "p";
  if (tok[0] != 'e' && g_shortage && !slot_free) tok = "e24";     /* at the limit and nothing was given up */
  if (tok[0] == 'e') {
    e = atoi(tok + 1); fprintf(alog, "e%d ", e); errno = e; return -1;
  }
  r = __real_accept4(fd, a, l, flags);
  if (r < 0) { e = errno; fprintf(alog, "e%d ", e); errno = e; return -1; }
  {
    struct pollfd pf; unsigned char b = 255; int id = -1;
    pf.fd = r; pf.events = POLLIN; pf.revents = 0;
    poll(&pf, 1, 5000);
    if (recv(r, &b, 1, MSG_PEEK) == 1) id = b;
    track(r, id);
    if (id >= 0 && id < MAXC) c_accepted[id] = 1;
    fprintf(alog, "f%d ", id);
    if (!g_quiet) printf("h%d ", id);
  }
  return r;
}

ssize_t __wrap_recvmsg(int fd, struct msghdr* msg, int flags) {
  ssize_t r; int e; struct cmsghdr* c; int first = 1;
  if (!g_active || fd != ipc_fd) return __real_recvmsg(fd, msg, flags);
  r = __real_recvmsg(fd, msg, flags);
  if (r < 0) { e = errno; fprintf(mlog, "e%d ", e); errno = e; return r; }
  if (r == 0) { fprintf(mlog, "z "); return r; }
  fprintf(mlog, "m");
  for (c = CMSG_FIRSTHDR(msg); c != NULL; c = CMSG_NXTHDR(msg, c)) {
    size_t k, cnt;
    if (c->cmsg_level != SOL_SOCKET || c->cmsg_type != SCM_RIGHTS) continue;
    cnt = (c->cmsg_len - CMSG_LEN(0)) / sizeof(int);
    for (k = 0; k < cnt; k++) {
      int f, id = -1, j; struct stat sb;
      memcpy(&f, CMSG_DATA(c) + k * sizeof(int), sizeof f);
      if (fstat(f, &sb) == 0)
        for (j = 0; j < nsent; j++) if (sent[j].ino == sb.st_ino) id = j;
      track(f, id);
      fprintf(mlog, "%s%d", first ? "" : ",", id); first = 0;
      if (!g_quiet) printf("h%d ", id);
    }
  }
  fprintf(mlog, " ");
  if (msg->msg_flags & MSG_CTRUNC) fprintf(mlog, "T ");      /* the kernel discarded descriptors */
  in_window = 1;
  return r;
}

long __wrap_syscall(long nr, ...) {
  va_list ap; long a1, a2, a3, a4, a5, a6;
  va_start(ap, nr);
  a1 = va_arg(ap, long); a2 = va_arg(ap, long); a3 = va_arg(ap, long);
  a4 = va_arg(ap, long); a5 = va_arg(ap, long); a6 = va_arg(ap, long);
  va_end(ap);
  if (nr == SYS_close && g_active) {
    int id = tracked((int) a1);
    if ((int) a1 == loop.emfile_fd && loop.emfile_fd != -1) slot_free = 1;
    if (id >= 0) {
      if (!g_quiet) printf("x%d ", id);
      if (g_mode != 'i' && id < MAXC) c_closed[id] = 1;
      track((int) a1, -1);
    }
  }
  return __real_syscall(nr, a1, a2, a3, a4, a5, a6);
}

int __wrap_epoll_pwait(int epfd, struct epoll_event* ev, int max, int timeout, const sigset_t* ss) {
  int n = __real_epoll_pwait(epfd, ev, max, timeout, ss), i;
  if (g_active && epfd == loop.backend_fd)
    for (i = 0; i < n; i++)
      if (ev[i].data.fd == g_watch_fd && (ev[i].events & (EPOLLIN | EPOLLERR | EPOLLHUP))) saw_event = 1;
  return n;
}

int __wrap_open64(const char* path, int flags, ...) {
  mode_t mode = 0;
  if (flags & O_CREAT) { va_list ap; va_start(ap, flags); mode = va_arg(ap, mode_t); va_end(ap); }
  if (g_active && strcmp(path, "/") == 0) {
    const char* tok = open_pos < n_open ? open_script[open_pos++] : "o1";
    if (tok[1] == '0') { fprintf(olog, "0 "); errno = EMFILE; return -1; }
    fprintf(olog, "1 ");
    slot_free = 0;
  }
  return __real_open64(path, flags, mode);
}

static void* my_malloc(size_t n) {
  if (g_active && in_window) {
    if (fail_at > 0 && --fail_at == 0) { fprintf(rlog, "0 "); errno = ENOMEM; return NULL; }
    fprintf(rlog, "1 ");
  }
  return malloc(n);
}
static void* my_realloc(void* p, size_t n) {
  if (g_active && in_window) {
    if (fail_at > 0 && --fail_at == 0) { fprintf(rlog, "0 "); errno = ENOMEM; return NULL; }
    fprintf(rlog, "1 ");
  }
  return realloc(p, n);
}
static void* my_calloc(size_t a, size_t b) { return calloc(a, b); }
static void my_free(void* p) { free(p); }

/* ---------------- callbacks ---------------- */
static void run_beh(void) {
  int k = cbn++;
  if (k < nbeh) { char* copy = strdup(beh[k]); do_ops(copy, 1); free(copy); }
}
static void conn_cb(uv_stream_t* s, int status) {
  (void) s;
  if (g_quiet) return;
  if (status == 0) printf("c "); else printf("c!%d ", status);
  run_beh();
}
static void alloc_cb(uv_handle_t* h, size_t sz, uv_buf_t* b) { (void) h; (void) sz; *b = uv_buf_init(rbuf, g_alloc_size); }
static void read_cb(uv_stream_t* s, ssize_t n, const uv_buf_t* b) {
  (void) s; (void) b;
  in_window = 0;
  if (g_quiet) return;
  if (n == 0) return;                      /* EAGAIN */
  if (n > 0) bytes_read += (unsigned long) n;
  printf("r%d ", n > 0 ? 1 : (int) n);
  run_beh();
}
static void prep_cb(uv_prepare_t* p) { (void) p; }
static void walk_close(uv_handle_t* h, void* arg) { (void) arg; if (!uv_is_closing(h)) uv_close(h, NULL); }

/* ---------------- helpers ---------------- */
static void new_client(void) {
  int i = nclient, s; unsigned char b;
  if (i >= MAXC) return;
  nclient++;
  cfd[i] = -1;
  if (g_closing) return;      /* the server is gone: its port/path may already belong to someone else */
  if (g_mode == 't') {
    struct sockaddr_in a; memset(&a, 0, sizeof a);
    a.sin_family = AF_INET; a.sin_addr.s_addr = htonl(INADDR_LOOPBACK); a.sin_port = htons(srv_port);
    s = socket(AF_INET, SOCK_STREAM, 0);
    if (s < 0 || connect(s, (struct sockaddr*) &a, sizeof a) != 0) { if (s >= 0) close(s); return; }
  } else {
    struct sockaddr_un a; memset(&a, 0, sizeof a);
    a.sun_family = AF_UNIX; strcpy(a.sun_path, srv_path);
    s = socket(AF_UNIX, SOCK_STREAM, 0);
    if (s < 0 || connect(s, (struct sockaddr*) &a, sizeof a) != 0) { if (s >= 0) close(s); return; }
  }
  b = (unsigned char) i;
  if (write(s, &b, 1) != 1) { close(s); return; }
  cfd[i] = s;
}

/* a connected TCP pair over loopback: *a is the connecting end, *b the accepted one */
static int tcp_pair(int* a, int* b) {
  struct sockaddr_in ad; memset(&ad, 0, sizeof ad);
  ad.sin_family = AF_INET; ad.sin_addr.s_addr = htonl(INADDR_LOOPBACK); ad.sin_port = htons(tcp_lport);
  *a = socket(AF_INET, SOCK_STREAM, 0);
  if (*a < 0 || connect(*a, (struct sockaddr*) &ad, sizeof ad) != 0) return -1;
  *b = accept(tcp_listener, NULL, NULL);
  return *b < 0 ? -1 : 0;
}

static void send_msg(const char* kinds) {
  int fds[20], n = 0, i; char ctl[CMSG_SPACE(20 * sizeof(int))]; struct msghdr m; struct iovec iov; char d = 'D';
  struct cmsghdr* c;
  for (; *kinds && n < 20 && nsent < MAXC * 4; kinds++) {
    int a = -1, b = -1; struct stat sb;
    if (*kinds == 't') { if (tcp_pair(&a, &b)) continue; }
    else if (*kinds == 'u') { int p[2]; if (socketpair(AF_UNIX, SOCK_STREAM, 0, p)) continue; a = p[0]; b = p[1]; }
    else if (*kinds == 'd') {
      struct sockaddr_in ad; memset(&ad, 0, sizeof ad);
      ad.sin_family = AF_INET; ad.sin_addr.s_addr = htonl(INADDR_LOOPBACK); ad.sin_port = htons(udp_rport);
      a = socket(AF_INET, SOCK_DGRAM, 0);
      if (a < 0 || connect(a, (struct sockaddr*) &ad, sizeof ad)) continue;
      b = -2;
    } else if (*kinds == 'T' || *kinds == 'D') {
      /* an unbound AF_INET6 stream / datagram socket (getsockname reports the family; nothing is configured or
       * connected); without IPv6 support an AF_INET socket of the same type stands in (same handle type) */
      int ty = *kinds == 'T' ? SOCK_STREAM : SOCK_DGRAM;
      a = socket(AF_INET6, ty, 0);
      if (a < 0) a = socket(AF_INET, ty, 0);
      if (a < 0) continue;
      b = -3;
    } else continue;
    fstat(a, &sb);
    sent[nsent].ino = sb.st_ino; sent[nsent].kind = *kinds; sent[nsent].peer = b; nsent++;
    fds[n++] = a;
  }
  memset(&m, 0, sizeof m); iov.iov_base = &d; iov.iov_len = 1; m.msg_iov = &iov; m.msg_iovlen = 1;
  if (n > 0) {
    memset(ctl, 0, sizeof ctl);
    m.msg_control = ctl; m.msg_controllen = CMSG_SPACE(n * sizeof(int));
    c = CMSG_FIRSTHDR(&m); c->cmsg_level = SOL_SOCKET; c->cmsg_type = SCM_RIGHTS; c->cmsg_len = CMSG_LEN(n * sizeof(int));
    memcpy(CMSG_DATA(c), fds, n * sizeof(int));
  }
  if (sendmsg(ipc_peer, &m, 0) == 1) { bytes_sent += 1; fds_sent += n; }
  else if (errno != EPIPE && errno != ECONNRESET) printf("!send%d ", errno);
  for (i = 0; i < n; i++) close(fds[i]);
}

/* the descriptor the client handle got really is connection/descriptor <id>:
 * a token written through it arrives at the other end */
static int token_ok_ipc(int fd, int id) {
  unsigned char t = (unsigned char) (id + 1), g = 0; struct pollfd pf; int peer = sent[id].peer;
  if (peer == -3) return 1;                 /* unconnected socket: identified by its inode alone */
  if (write(fd, &t, 1) != 1) return 0;
  pf.fd = peer == -2 ? udp_recv : peer; pf.events = POLLIN; pf.revents = 0;
  if (poll(&pf, 1, 5000) != 1) return 0;
  if (read(pf.fd, &g, 1) != 1) return 0;
  return g == t;
}

static void do_accept(char how) {
  uv_stream_t* cl = NULL; int r;
  if (how == 'b') cl = (uv_stream_t*) &busy_h;
  else if (how == 't') cl = (uv_stream_t*) &bad_h;
  else if (g_mode == 't') { if (n_tcp < POOL) cl = (uv_stream_t*) &pool_tcp[n_tcp]; }
  else if (g_mode == 'u') { if (n_pipe < POOL) cl = (uv_stream_t*) &pool_pipe[n_pipe]; }
  else {
    uv_handle_type ty = g_closing ? UV_UNKNOWN_HANDLE : uv_pipe_pending_type(&srv.pipe);
    if (ty == UV_NAMED_PIPE) { if (n_pipe < POOL) cl = (uv_stream_t*) &pool_pipe[n_pipe]; }
    else if (ty == UV_UDP) { if (n_udp < POOL) cl = (uv_stream_t*) &pool_udp[n_udp]; }
    else { if (n_tcp < POOL) cl = (uv_stream_t*) &pool_tcp[n_tcp]; }
  }
  if (cl == NULL) { printf("!pool "); return; }
  r = uv_accept(&srv.stream, cl);
  if (r == 0 && how == 'f') {
    uv_os_fd_t fd = -1; int id;
    if (cl->type == UV_TCP) n_tcp++; else if (cl->type == UV_NAMED_PIPE) n_pipe++; else n_udp++;
    uv_fileno((uv_handle_t*) cl, &fd);
    id = tracked(fd);
    track(fd, -1);
    if (g_mode == 'i') {
      if (id < 0 || !token_ok_ipc(fd, id)) printf("g!%d ", id); else printf("g%d ", id);
    } else {
      unsigned char b = 255;
      if (id < 0 || id >= MAXC || read(fd, &b, 1) != 1 || b != id || write(fd, &b, 1) != 1) printf("g!%d ", id);
      else { printf("g%d ", id); c_claimed[id]++; }
    }
  }
  printf("a%d ", r);
}

static void do_ops(char* ops, int in_cb) {
  char* save = NULL; char* tok;
  for (tok = strtok_r(ops, " \n", &save); tok; tok = strtok_r(NULL, " \n", &save)) {
    switch (tok[0]) {
    case 'K': if (!in_cb && g_mode != 'i') { int n = atoi(tok + 1); while (n-- > 0) new_client(); } break;
    case 'M': if (!in_cb && g_mode == 'i') send_msg(tok + 1); break;
    case 'F': if (!in_cb) fail_at = atoi(tok + 1); break;
    case 'D':                                  /* a plain data chunk, no descriptor */
      if (!in_cb && g_mode == 'i') {
        static char chunk[4096]; size_t n = (size_t) atoi(tok + 1); ssize_t w;
        if (n < 1) n = 1; if (n > sizeof chunk) n = sizeof chunk;
        memset(chunk, 'd', n);
        w = send(ipc_peer, chunk, n, MSG_DONTWAIT);
        if (w > 0) bytes_sent += (unsigned long) w;
      }
      break;
    case 'S': if (!in_cb && g_mode != 'i') { g_shortage = tok[1] == '1'; if (g_shortage) slot_free = 0; } break;
    case 'R':
      if (in_cb) break;
      saw_event = 0;
      uv_run(&loop, UV_RUN_NOWAIT);
      if (g_mode == 'i') fprintf(mlog, "| "); else fprintf(alog, "| ");
      fprintf(evlog, "%d ", saw_event);
      break;
    case 'A': do_accept(tok[1]); break;
    case 'C': if (!g_closing) { g_closing = 1; uv_close(&srv.handle, NULL); } break;
    case 'N': if (g_mode != 't') printf("n%d ", uv_pipe_pending_count(&srv.pipe)); break;
    case 'T': if (g_mode != 't') printf("t%d ", (int) uv_pipe_pending_type(&srv.pipe)); break;
    default: break;
    }
  }
}

static void client_states(void) {
  int i;
  for (i = 0; i < nclient; i++) {
    struct pollfd pf; unsigned char b; ssize_t r; int expect_event;
    if (cfd[i] < 0) { printf("X"); continue; }
    expect_event = c_claimed[i] || c_closed[i] || (g_closing && !c_accepted[i]);
    pf.fd = cfd[i]; pf.events = POLLIN; pf.revents = 0;
    if (poll(&pf, 1, expect_event ? 5000 : 0) <= 0) { printf("P"); continue; }
    fcntl(cfd[i], F_SETFL, fcntl(cfd[i], F_GETFL) | O_NONBLOCK);
    r = read(cfd[i], &b, 1);
    if (r == 1) printf(b == i ? "E" : "W");
    else if (r == 0) printf("Z");
    else printf(errno == EAGAIN ? "P" : "Z");
  }
}

static FILE* mem(char** b, size_t* n) { return open_memstream(b, n); }

static void run_case(char* line) {
  char* sec[4]; int nsec = 0, i; char* p = line; char* save;
  sec[nsec++] = p;
  while (nsec < 4 && (p = strchr(p, ';')) != NULL) { *p++ = 0; sec[nsec++] = p; }
  if (nsec < 4) { printf("badcase\n"); return; }
  g_mode = 0;
  for (p = sec[0]; *p; p++) if (*p == 't' || *p == 'u' || *p == 'i') g_mode = *p;
  if (!g_mode) { printf("badmode\n"); return; }
  g_alloc_size = sizeof rbuf; bytes_sent = bytes_read = 0; fds_sent = 0; g_shortage = 0; slot_free = 0;
  for (p = sec[0]; *p; p++) if (*p >= '1' && *p <= '9') { g_alloc_size = (size_t) atoi(p); break; }
  if (g_alloc_size < 1 || g_alloc_size > sizeof rbuf) g_alloc_size = sizeof rbuf;
  g_case_no++;
  nbeh = 0; cbn = 0;
  for (p = sec[2]; p && nbeh < MAXBEH; ) {
    char* bar = strchr(p, '|');
    if (bar) *bar = 0;
    beh[nbeh++] = p;
    p = bar ? bar + 1 : NULL;
  }
  n_acc = n_open = acc_pos = open_pos = 0;
  { size_t cap = 256; char* t; acc_script = malloc(cap * sizeof *acc_script); open_script = malloc(cap * sizeof *open_script);
    for (t = strtok_r(sec[3], " \n", &save); t; t = strtok_r(NULL, " \n", &save)) {
      if (t[0] == 'o') { if ((size_t) n_open < cap) open_script[n_open++] = t; }
      else if ((size_t) n_acc < cap) acc_script[n_acc++] = t;
    } }
  alog = mem(&alog_b, &alog_n); rlog = mem(&rlog_b, &rlog_n); mlog = mem(&mlog_b, &mlog_n); olog = mem(&olog_b, &olog_n);
  evlog = mem(&ev_b, &ev_n);
  memset(id_of_fd, 0xff, sizeof id_of_fd);
  memset(c_claimed, 0, sizeof c_claimed); memset(c_closed, 0, sizeof c_closed); memset(c_accepted, 0, sizeof c_accepted);
  nclient = 0; nsent = 0; g_quiet = 0; g_closing = 0; in_window = 0; fail_at = 0;
  n_tcp = n_pipe = n_udp = 0; ipc_fd = ipc_peer = -1; g_watch_fd = -1;

  uv_loop_init(&loop);
  uv_prepare_init(&loop, &keepalive); uv_prepare_start(&keepalive, prep_cb);
  for (i = 0; i < POOL; i++) { uv_tcp_init(&loop, &pool_tcp[i]); uv_pipe_init(&loop, &pool_pipe[i], 0); uv_udp_init(&loop, &pool_udp[i]); }
  uv_tcp_init(&loop, &busy_h); busy_fd = socket(AF_INET, SOCK_STREAM, 0); uv_tcp_open(&busy_h, busy_fd);
  uv_timer_init(&loop, &bad_h);
  if (g_mode == 't') {
    struct sockaddr_in a; int al = sizeof a;
    uv_ip4_addr("127.0.0.1", 0, &a);
    uv_tcp_init(&loop, &srv.tcp);
    if (uv_tcp_bind(&srv.tcp, (struct sockaddr*) &a, 0) || uv_listen(&srv.stream, 128, conn_cb)) { printf("nolisten\n"); return; }
    uv_tcp_getsockname(&srv.tcp, (struct sockaddr*) &a, &al); srv_port = ntohs(a.sin_port);
    uv_fileno(&srv.handle, &g_watch_fd);
  } else if (g_mode == 'u') {
    snprintf(srv_path, sizeof srv_path, "%s/s%d_%d", g_dir, (int) getpid(), g_case_no);
    uv_pipe_init(&loop, &srv.pipe, 0);
    if (uv_pipe_bind(&srv.pipe, srv_path) || uv_listen(&srv.stream, 128, conn_cb)) { printf("nolisten\n"); return; }
    uv_fileno(&srv.handle, &g_watch_fd);
  } else {
    int sp[2];
    if (socketpair(AF_UNIX, SOCK_STREAM, 0, sp)) { printf("nosocketpair\n"); return; }
    uv_pipe_init(&loop, &srv.pipe, 1);
    if (uv_pipe_open(&srv.pipe, sp[0]) || uv_read_start(&srv.stream, alloc_cb, read_cb)) { printf("noipc\n"); return; }
    ipc_fd = sp[0]; ipc_peer = sp[1]; g_watch_fd = sp[0];
  }
  g_active = 1;
  do_ops(sec[1], 0);
  printf("; ");
  fclose(alog); fclose(rlog); fclose(mlog); fclose(olog); fclose(evlog);
  printf("%s; %s; %s; %s; ", g_mode == 'i' ? mlog_b : alog_b, ev_b, rlog_b, olog_b);
  if (g_mode != 'i') client_states();
  printf("; ");

  /* tear down quietly */
  g_quiet = 1; g_active = 0;
  uv_walk(&loop, walk_close, NULL);
  for (i = 0; i < 50 && uv_run(&loop, UV_RUN_NOWAIT); i++) ;
  { int alive = uv_loop_alive(&loop); printf("%d,%d", alive, uv_loop_close(&loop)); }   /* 7th section */
  printf(" ; %lu,%lu,%d\n", bytes_sent, bytes_read, fds_sent);                           /* 8th: ipc totals */
  for (i = 0; i < nclient; i++) if (cfd[i] >= 0) abort_close(cfd[i]);
  for (i = 0; i < nsent; i++) if (sent[i].peer >= 0) abort_close(sent[i].peer);
  if (ipc_peer >= 0) close(ipc_peer);
  if (g_mode == 'u') unlink(srv_path);
  if (udp_recv >= 0) { char junk[64]; while (recv(udp_recv, junk, sizeof junk, MSG_DONTWAIT) > 0) ; }
  free(alog_b); free(rlog_b); free(mlog_b); free(olog_b); free(ev_b); free(acc_script); free(open_script);
}

static void on_alarm(int sig) { (void) sig; printf(" HANG\n"); fflush(stdout); _exit(3); }

int main(int argc, char** argv) {
  char* line = NULL; size_t cap = 0; struct sockaddr_in a; socklen_t al = sizeof a;
  g_dir = argc > 1 ? argv[1] : "/tmp";
  signal(SIGPIPE, SIG_IGN); signal(SIGALRM, on_alarm);
  uv_replace_allocator(my_malloc, my_realloc, my_calloc, my_free);
  /* permanent helpers for descriptors to send: a TCP listener and a UDP receiver on loopback */
  tcp_listener = socket(AF_INET, SOCK_STREAM, 0);
  memset(&a, 0, sizeof a); a.sin_family = AF_INET; a.sin_addr.s_addr = htonl(INADDR_LOOPBACK);
  if (bind(tcp_listener, (struct sockaddr*) &a, sizeof a) || listen(tcp_listener, 64) ||
      getsockname(tcp_listener, (struct sockaddr*) &a, &al)) { fprintf(stderr, "no loopback\n"); return 2; }
  tcp_lport = ntohs(a.sin_port);
  udp_recv = socket(AF_INET, SOCK_DGRAM, 0);
  memset(&a, 0, sizeof a); a.sin_family = AF_INET; a.sin_addr.s_addr = htonl(INADDR_LOOPBACK); al = sizeof a;
  if (bind(udp_recv, (struct sockaddr*) &a, sizeof a) || getsockname(udp_recv, (struct sockaddr*) &a, &al)) return 2;
  udp_rport = ntohs(a.sin_port);
  while (getline(&line, &cap, stdin) > 0) {
    size_t n = strlen(line);
    if (n && line[n - 1] == '\n') line[n - 1] = 0;
    alarm(30);
    run_case(line);
    fflush(stdout);
  }
  return 0;
}
