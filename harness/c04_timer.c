/* C04 (b): the timer API of the freshly built libuv, driven directly:
 * uv_timer_* calls, uv__run_timers(), loop->time advanced by the script
 * (virtual clock).  Case: "<t0> ; ops ; beh0 | beh1 | ..." (see drv_c04.ml). */
#include <stdio.h>
#include <stdlib.h>
#include <string.h>
#include <inttypes.h>
#include "uv.h"
#include "uv-common.h"

#define MAXT 256
#define MAXB 256
static uv_loop_t loop;
static uv_timer_t* tm[MAXT];
static int closing_seen[MAXT];
static int ntm;
static uint64_t g_at[MAXT], g_req[MAXT], g_seq[MAXT], g_urep[MAXT], arm_counter;
static char* beh[MAXB];
static int nbeh, fire_cnt;

static void do_ops(char* ops, int in_cb);
static void cb1(uv_timer_t* h);
static void cb2(uv_timer_t* h);
static void cb3(uv_timer_t* h);
static uv_timer_cb cbs[] = { NULL, cb1, cb2, cb3 };

static void on_fire(uv_timer_t* h, int tok) {
  int i = (int) (intptr_t) h->data;
  uint64_t due = h->timeout;   /* after uv_timer_again: only comparable when not re-armed */
  /* the arm that made it due is the harness's own record (g_at/g_req) */
  uint64_t at = g_at[i], req = g_req[i];
  uint64_t d = at + req; if (d < req) d = UINT64_MAX;
  (void) due;
  printf("f%d,%d,%" PRIu64 ",%" PRIu64 ",%" PRIu64 ",%" PRIu64 ",%" PRIu64 " ", i, tok, uv_now(&loop), d, g_seq[i], at, req);
  printf("e%" PRIu64 ",%" PRIu64 ",%" PRIu64 ",%d,%d ", g_urep[i], uv_timer_get_repeat(h), uv_timer_get_due_in(h),
         uv_is_active((uv_handle_t*) h) ? 1 : 0, uv_is_closing((uv_handle_t*) h) ? 1 : 0);
  if (uv_timer_get_repeat(h) != 0 && uv_is_active((uv_handle_t*) h)) {   /* uv_timer_again re-armed it before the callback */
    g_at[i] = uv_now(&loop); g_req[i] = uv_timer_get_repeat(h); g_seq[i] = arm_counter++;
  }
  {
    int k = fire_cnt++;
    if (k < nbeh) { char* copy = strdup(beh[k]); do_ops(copy, 1); free(copy); }
  }
}
static void cb1(uv_timer_t* h) { on_fire(h, 1); }
static void cb2(uv_timer_t* h) { on_fire(h, 2); }
static void cb3(uv_timer_t* h) { on_fire(h, 3); }

static void close_cb(uv_handle_t* h) { (void) h; }

static void do_ops(char* ops, int in_cb) {
  char* save = NULL;
  char* tok;
  for (tok = strtok_r(ops, " \n", &save); tok; tok = strtok_r(NULL, " \n", &save)) {
    int i, c; uint64_t a, b;
    switch (tok[0]) {
    case 'I':
      tm[ntm] = calloc(1, sizeof(uv_timer_t));
      uv_timer_init(&loop, tm[ntm]); tm[ntm]->data = (void*) (intptr_t) ntm; ntm++;
      break;
    case 'S':
      if (sscanf(tok + 1, "%d,%d,%" SCNu64 ",%" SCNu64, &i, &c, &a, &b) == 4 && i < ntm) {
        uint64_t nowv = uv_now(&loop);
        int r = uv_timer_start(tm[i], cbs[c], a, b);
        if (r == 0) { g_at[i] = nowv; g_req[i] = a; g_seq[i] = arm_counter++; g_urep[i] = b; }
        printf("r%d ", r);
      }
      break;
    case 'T':
      if (sscanf(tok + 1, "%d", &i) == 1 && i < ntm) printf("r%d ", uv_timer_stop(tm[i]));
      break;
    case 'G':
      if (sscanf(tok + 1, "%d", &i) == 1 && i < ntm) {
        uint64_t rep = uv_timer_get_repeat(tm[i]);
        int r = uv_timer_again(tm[i]);
        if (r == 0 && rep != 0 && uv_is_active((uv_handle_t*) tm[i])) { g_at[i] = uv_now(&loop); g_req[i] = rep; g_seq[i] = arm_counter++; }
        printf("r%d ", r);
      }
      break;
    case 'P':
      if (sscanf(tok + 1, "%d,%" SCNu64, &i, &a) == 2 && i < ntm) { uv_timer_set_repeat(tm[i], a); g_urep[i] = a; }
      break;
    case 'C':
      if (sscanf(tok + 1, "%d", &i) == 1 && i < ntm && !closing_seen[i]) {
        closing_seen[i] = 1; uv_close((uv_handle_t*) tm[i], close_cb);
      }
      break;
    case 'D':
      if (sscanf(tok + 1, "%d", &i) == 1 && i < ntm) printf("d%" PRIu64 " ", uv_timer_get_due_in(tm[i]));
      break;
    case 'N':
      printf("n%d ", uv__next_timeout(&loop));
      break;
    case 'A':
      if (sscanf(tok + 1, "%" SCNu64, &a) == 1) loop.time += a;   /* uv__update_time on the virtual clock */
      break;
    case 'J':
      /* as if that many timers had been started elsewhere on this loop: the start counter jumps ahead.  Only the
       * ORDER of start ids matters and a jump keeps it, so the model (ids in Z) ignores this op. */
      if (sscanf(tok + 1, "%" SCNu64, &a) == 1) loop.timer_counter += a;
      break;
    case 'R':
      if (!in_cb) {
        int k;
        printf("p%" PRIu64 " ", arm_counter);
        uv__run_timers(&loop);
        printf("a");
        for (k = 0; k < ntm; k++) printf("%d", uv_is_active((uv_handle_t*) tm[k]) ? 1 : 0);
        printf(" ");
      }
      break;
    }
  }
}

int main(void) {
  static char line[1 << 16];
  while (fgets(line, sizeof line, stdin)) {
    char *p1, *p2, *b, *save = NULL;
    int k;
    p1 = strchr(line, ';'); if (!p1) { printf("\n"); continue; }
    *p1++ = 0; p2 = strchr(p1, ';'); if (!p2) { printf("\n"); continue; }
    *p2++ = 0;
    uv_loop_init(&loop);
    loop.time = strtoull(line, NULL, 10);
    ntm = 0; nbeh = 0; fire_cnt = 0; arm_counter = 0; memset(g_urep, 0, sizeof g_urep);
    memset(closing_seen, 0, sizeof closing_seen);
    {
      /* split behaviours on '|' keeping empty ones */
      char* s = p2;
      for (;;) {
        char* e = strchr(s, '|');
        if (e) *e = 0;
        if (nbeh < MAXB) beh[nbeh++] = s;
        if (!e) break;
        s = e + 1;
      }
    }
    (void) b; (void) save;
    do_ops(p1, 0);
    printf("\n");
    /* tear down: close everything, run the loop to completion */
    for (k = 0; k < ntm; k++)
      if (!closing_seen[k]) uv_close((uv_handle_t*) tm[k], close_cb);
    uv_run(&loop, UV_RUN_NOWAIT);
    uv_run(&loop, UV_RUN_NOWAIT);
    uv_loop_close(&loop);
    for (k = 0; k < ntm; k++) free(tm[k]);
  }
  return 0;
}
