/* C09: uv_async_send under a serialising scheduler.
 *
 * Real pthreads (one loop thread, 1-4 sender threads, optionally a SIGUSR2 handler that
 * sends), exactly one of which holds the run token.  Schedule points: the
 * UV__VERIF_POINT(n) hooks of src/unix/async.c when the tree has them and the case asks
 * for them, the wrapped write()/read() on the loop's eventfd, epoll_pwait(), sched_yield()
 * inside uv__async_spin, and the harness's own points around the API calls.  At every
 * point the holder records the step it has just finished, computes which threads can run
 * (a loop blocked in epoll_pwait is runnable iff the eventfd is readable), and hands the
 * token to the thread the schedule prefers.  Nobody runnable = exact verdict
 * (done / blocked / ...), printed with the per-handle counters.
 *
 * One case per input line (see ocaml/drv_c09.ml for the fields; the last field here is
 * the schedule = preferred thread ids).  Every case runs in a forked child so that a
 * final state with parked threads is simply thrown away.  Output: one line per case,
 *   I.<mask>.<obs>.<efd> {<tid>.<label>.<mask>.<obs>.<efd>.<events>.<acks>} Q.<verdict> h<i>=<published>/<seen>/<cbs>/<begun>/<state>...
 */
#define _GNU_SOURCE
#include <errno.h>
#include <limits.h>
#include <linux/futex.h>
#include <poll.h>
#include <pthread.h>
#include <signal.h>
#include <stdarg.h>
#include <stdatomic.h>
#include <stdint.h>
#include <stdio.h>
#include <stdlib.h>
#include <string.h>
#include <sys/epoll.h>
#include <sys/syscall.h>
#include <sys/wait.h>
#include <unistd.h>
#include "uv.h"
#include "c09_probe.h"

ssize_t __real_write(int, const void*, size_t);
ssize_t __real_read(int, void*, size_t);
int __real_epoll_pwait(int, struct epoll_event*, int, int, const sigset_t*);
int __real_sched_yield(void);

#define MAXH 4
#define MAXT 8          /* loop + senders */
#define MAXSEND 32
#define MAXB 32
#define MAXP 4096
#define CB_STOP (-1)
#define STEP_BOUND 3000

enum { ST_RUN, ST_POLL, ST_DONE, ST_STUCK };

/* ---- the case ---- */
static int use_hooks, nh, nullmask /* handles created with a NULL callback */,
           nthreads /* incl. loop */, sig_tid = -1, sig_target = -1;
static uint64_t e0;
static char lops[64]; static int largs[64]; static int nlops;
static int sscript[MAXT][MAXSEND]; static int slen[MAXT]; static int sidx[MAXT];
static int beh[MAXB][MAXH + 1]; static int behlen[MAXB]; static int nbeh;
static int pref[MAXP]; static int npref;

/* ---- libuv objects and what the harness observes ---- */
static uv_loop_t loop;
static uv_async_t ah[MAXH];
static _Atomic uint64_t published[MAXH];
static uint64_t seen[MAXH], cbcount[MAXH], begun[MAXH];
static int close_called[MAXH], close_cb_ran[MAXH];
static int g_efd = -1;
static uint64_t shadow;           /* eventfd counter as the wrappers saw it */
static int cbk;

/* ---- scheduler ---- */
static int sched_on;
static _Atomic int turn = -1;
static __thread int cur_tid = -1;
static int st[MAXT];
static int poll_timeout;
static int closing_now = -1;      /* handle uv_close is working on, else -1 */
static int sig_active;
static pthread_t thr[MAXT];
static long nsteps; static int rr, nchoice;
static char outbuf[1 << 20]; static size_t outlen;
static char evbuf[4096]; static size_t evlen;

static void out(const char* fmt, ...) {
  va_list ap;
  va_start(ap, fmt);
  outlen += vsnprintf(outbuf + outlen, sizeof(outbuf) - outlen, fmt, ap);
  va_end(ap);
  if (outlen > sizeof(outbuf) - 256) outlen = sizeof(outbuf) - 256;
}

static void event(const char* fmt, ...) {
  va_list ap;
  if (evlen) evbuf[evlen++] = '+';
  va_start(ap, fmt);
  evlen += vsnprintf(evbuf + evlen, sizeof(evbuf) - evlen - 2, fmt, ap);
  va_end(ap);
}

static void flush_and_exit(int code) {
  size_t off = 0;
  outbuf[outlen++] = '\n';
  while (off < outlen) {
    ssize_t r = __real_write(1, outbuf + off, outlen - off);
    if (r <= 0) break;
    off += r;
  }
  _exit(code);
}

static void fatal(const char* what) {
  outlen = 0;
  out("ERR %s", what);
  flush_and_exit(0);
}

static int efd_readable(void) {
  struct pollfd p;
  p.fd = g_efd; p.events = POLLIN; p.revents = 0;
  return poll(&p, 1, 0) > 0 && (p.revents & POLLIN);
}

static int spinning(void) {
  return closing_now >= 0 && ah[closing_now].u.fd != 0;
}

static int enabled_mask(void) {
  int m = 0, t;
  for (t = 0; t < nthreads; t++) {
    if (t == sig_tid) {
      if (sig_active || sidx[t] < slen[t]) m |= 1 << t;
      continue;
    }
    if (st[t] == ST_DONE || st[t] == ST_STUCK) continue;
    if (st[t] == ST_POLL && poll_timeout != 0) {
      int rd = efd_readable();
      if (rd != (shadow > 0)) fatal("shadow counter and eventfd disagree");
      if (!rd) continue;
    }
    m |= 1 << t;
  }
  if (sig_active && sig_target >= 0) m &= ~(1 << sig_target);
  return m;
}

static void print_obs(void) {
  int i;
  for (i = 0; i < nh; i++)
    out("%s%d%d", i ? "," : "", ah[i].pending ? 1 : 0, (int) ah[i].u.fd);
}

static void finish(const char* verdict) {
  int i;
  out(" Q.%s", verdict);
  for (i = 0; i < nh; i++)
    out(" h%d=%llu/%llu/%llu/%llu/%s", i, (unsigned long long) atomic_load(&published[i]),
        (unsigned long long) seen[i], (unsigned long long) cbcount[i], (unsigned long long) begun[i],
        close_cb_ran[i] ? "x" : close_called[i] ? "g" : "o");
  flush_and_exit(0);
}

static void futex_wait_turn(int me) {
  int v;
  while ((v = atomic_load(&turn)) != me)
    syscall(SYS_futex, &turn, FUTEX_WAIT, v, NULL, NULL, 0);
}

static void give_turn(int next) {
  atomic_store(&turn, next);
  syscall(SYS_futex, &turn, FUTEX_WAKE, INT_MAX, NULL, NULL, 0);
}

/* Choose who runs next and hand the token over.  Returns when it is this thread's
 * turn again, unless [noreturn] (the caller is a signal handler about to return). */
static void choose_and_pass(int noreturn) {
  int me = cur_tid, m, next, k, cnt, t;

  m = enabled_mask();
  if (m == 0) {
    if (st[0] == ST_DONE) finish("done");
    if (st[0] == ST_POLL) finish("blocked");
    if (st[0] == ST_STUCK) finish("lostreg");
    finish("stuck");
  }
  if (m == 1 && spinning()) finish("spin");
  if (++nsteps > STEP_BOUND) fatal("stepbound");

  cnt = __builtin_popcount(m);
  next = -1;
  if (nchoice < npref) {
    k = pref[nchoice++];
    if (k >= 0 && k < nthreads && (m & (1 << k))) next = k;
  } else {
    k = rr++;
  }
  if (next < 0) {
    k %= cnt;
    for (t = 0; t < nthreads; t++)
      if (m & (1 << t)) { if (k-- == 0) { next = t; break; } }
  }

  if (next == sig_tid && !sig_active) {
    sig_active = 1;
    atomic_store(&turn, next);
    if (pthread_kill(thr[sig_target], SIGUSR2) != 0) fatal("pthread_kill");
  } else {
    give_turn(next);
  }
  if (noreturn) return;
  futex_wait_turn(me);
}

/* The holder of the token arrives at a schedule point: record the step it has just
 * finished, then let the schedule decide. */
static int last_pending[MAXH];
static char ackbuf[256];

static void arrive(const char* label, int noreturn) {
  int i; size_t al = 0;
  /* A handle without a callback: the only trace of the loop consuming its wake-up is the
   * pending flag going from 1 to 0 during a step of the loop thread.  Nobody else ran in
   * between, so [published] now is what that wake-up covers. */
  ackbuf[0] = 0;
  for (i = 0; i < nh; i++) {
    if (((nullmask >> i) & 1) && cur_tid == 0 && last_pending[i] && !ah[i].pending) {
      seen[i] = atomic_load(&published[i]);
      al += snprintf(ackbuf + al, sizeof(ackbuf) - al, "%sa%d=%llu", al ? "+" : "", i,
                     (unsigned long long) seen[i]);
    }
    last_pending[i] = ah[i].pending ? 1 : 0;
  }
  out(" %d.%s.%x.", cur_tid, label, enabled_mask());
  print_obs();
  out(".%llu.%s.%s", (unsigned long long) shadow, evlen ? evbuf : "-", al ? ackbuf : "-");
  evlen = 0; evbuf[0] = 0;
  choose_and_pass(noreturn);
}

static void yield_at(const char* label) { arrive(label, 0); }

/* ---- hooks and wrapped calls ---- */
void uv__verif_point(int n) {
  char l[2];
  if (!sched_on || !use_hooks || cur_tid < 0) return;
  l[0] = (char) ('0' + n); l[1] = 0;
  yield_at(l);
}

ssize_t __wrap_write(int fd, const void* buf, size_t n) {
  ssize_t r; int e;
  if (!sched_on || fd != g_efd || cur_tid < 0) return __real_write(fd, buf, n);
  yield_at("W");
  r = __real_write(fd, buf, n);
  e = errno;
  if (r == 8) { shadow += *(const uint64_t*) buf; event("w1"); }
  else if (r == -1 && e == EAGAIN) event("w0");
  else event("w?%d", (int) r);
  errno = e;
  return r;
}

ssize_t __wrap_read(int fd, void* buf, size_t n) {
  ssize_t r; int e;
  if (!sched_on || fd != g_efd || cur_tid < 0) return __real_read(fd, buf, n);
  yield_at("R");
  r = __real_read(fd, buf, n);
  e = errno;
  if (r == 8) shadow = 0;
  errno = e;
  return r;
}

int __wrap_epoll_pwait(int epfd, struct epoll_event* ev, int max, int timeout, const sigset_t* ss) {
  int n;
  if (!sched_on || cur_tid != 0) return __real_epoll_pwait(epfd, ev, max, timeout, ss);
  if (timeout > 0) fatal("epoll_pwait with a positive timeout");
  poll_timeout = timeout;
  st[0] = ST_POLL;
  yield_at(timeout == 0 ? "p" : "P");
  st[0] = ST_RUN;
  n = __real_epoll_pwait(epfd, ev, max, 0, ss);
  if (n < 0) fatal("epoll_pwait failed");
  if (n == 0 && timeout != 0) {
    /* the eventfd is readable but epoll does not report it: this loop sleeps for ever */
    st[0] = ST_STUCK;
    yield_at("!");
    fatal("stuck thread scheduled");
  }
  return n;
}

int __wrap_sched_yield(void) {
  if (!sched_on || cur_tid != 0 || closing_now < 0) return __real_sched_yield();
  if (use_hooks) return 0;
  yield_at("Y");
  return 0;
}

/* ---- loop thread ---- */
static void close_cb(uv_handle_t* h) {
  int i = (int) (intptr_t) h->data;
  close_cb_ran[i] = 1;
  event("x%d", i);
}

static void do_close(int i) {
  if (i < 0 || i >= nh || close_called[i]) return;
  close_called[i] = 1;
  closing_now = i;
  uv_close((uv_handle_t*) &ah[i], close_cb);
  closing_now = -1;
  event("k%d=%d", i, (int) ah[i].u.fd);
}

static void async_cb(uv_async_t* h) {
  int i = (int) (intptr_t) h->data, k, j;
  seen[i] = atomic_load(&published[i]);
  cbcount[i]++;
  event("c%d=%llu%s", i, (unsigned long long) seen[i], close_cb_ran[i] ? "!afterclose" : "");
  k = cbk++;
  yield_at("c");
  if (k < nbeh)
    for (j = 0; j < behlen[k]; j++) {
      if (beh[k][j] == CB_STOP) uv_stop(&loop);
      else do_close(beh[k][j]);
      yield_at("c");
    }
}

static void loop_thread(void) {
  int i;
  for (i = 0; i < nlops; i++) {
    switch (lops[i]) {
    case 'R': uv_run(&loop, UV_RUN_ONCE); break;
    case 'D': uv_run(&loop, UV_RUN_DEFAULT); break;
    case 'N': uv_run(&loop, UV_RUN_NOWAIT); break;
    case 'S': uv_stop(&loop); break;
    case 'C': do_close(largs[i]); break;
    }
    yield_at("T");
  }
  st[0] = ST_DONE;
  arrive("E", 0);
  fatal("finished thread scheduled");
}

/* ---- senders ---- */
static void one_send(int me) {
  int h = sscript[me][sidx[me]++];
  atomic_fetch_add(&published[h], 1);
  begun[h]++;
  yield_at("B");
  uv_async_send(&ah[h]);
}

static void* sender_thread(void* arg) {
  int me = (int) (intptr_t) arg;
  cur_tid = me;
  futex_wait_turn(me);
  while (sidx[me] < slen[me]) {
    one_send(me);
    if (sidx[me] == slen[me]) st[me] = ST_DONE;
    yield_at("A");
  }
  fatal("finished sender scheduled");
  return NULL;
}

static void on_sigusr2(int signo) {
  int saved = cur_tid, e = errno;
  (void) signo;
  cur_tid = sig_tid;
  futex_wait_turn(sig_tid);
  one_send(sig_tid);
  sig_active = 0;
  if (sidx[sig_tid] == slen[sig_tid]) st[sig_tid] = ST_DONE;
  arrive("A", 1);
  cur_tid = saved;
  errno = e;
}

/* ---- parsing ---- */
static char* trim(char* s) {
  char* e;
  while (*s == ' ') s++;
  e = s + strlen(s);
  while (e > s && (e[-1] == ' ' || e[-1] == '\n')) *--e = 0;
  return s;
}

static int parse_ints(char* s, int* dst, int max) {
  int n = 0; char* save = NULL; char* t;
  for (t = strtok_r(s, " ", &save); t && n < max; t = strtok_r(NULL, " ", &save)) dst[n++] = atoi(t);
  return n;
}

static int parse_case(char* line) {
  char* f[16]; int nf = 0; char* p = line; char* q;
  while (nf < 16) {
    f[nf++] = p;
    q = strchr(p, ';');
    if (!q) break;
    *q = 0; p = q + 1;
  }
  if (nf < 9) return -1;
  use_hooks = atoi(trim(f[0]));
  nh = atoi(trim(f[2]));
  nullmask = strchr(f[2], ':') ? atoi(strchr(f[2], ':') + 1) : 0;
  e0 = strtoull(trim(f[3]), NULL, 10);
  if (nh < 1 || nh > MAXH) return -1;
  { char* save = NULL; char* t;
    nlops = 0;
    for (t = strtok_r(f[4], " ", &save); t && nlops < 64; t = strtok_r(NULL, " ", &save)) {
      lops[nlops] = t[0]; largs[nlops] = t[0] == 'C' ? atoi(t + 1) : 0; nlops++;
    } }
  { int t = 1; char* s = f[5];
    for (;;) {
      char* e = strchr(s, '|');
      if (e) *e = 0;
      if (t >= MAXT) return -1;
      slen[t] = parse_ints(s, sscript[t], MAXSEND);
      { int j; for (j = 0; j < slen[t]; j++) if (sscript[t][j] < 0 || sscript[t][j] >= nh) return -1; }
      t++;
      if (!e) break;
      s = e + 1;
    }
    nthreads = t; }
  { char* s = f[6];
    nbeh = 0;
    for (;;) {
      char* e = strchr(s, '|');
      if (e) *e = 0;
      if (nbeh < MAXB) {
        char* sv = NULL; char* t; int k = 0;
        for (t = strtok_r(s, " ", &sv); t && k < MAXH + 1; t = strtok_r(NULL, " ", &sv))
          beh[nbeh][k++] = t[0] == 's' ? CB_STOP : atoi(t);
        behlen[nbeh++] = k;
      }
      if (!e) break;
      s = e + 1;
    } }
  { char* s = trim(f[7]);
    sig_tid = sig_target = -1;
    if (strcmp(s, "-") != 0 && *s) {
      if (sscanf(s, "%d,%d", &sig_tid, &sig_target) != 2) return -1;
      if (sig_tid < 1 || sig_tid >= nthreads || sig_target < 0 || sig_target >= nthreads ||
          sig_target == sig_tid) return -1;
    } }
  npref = parse_ints(f[8], pref, MAXP);
  return 0;
}

static void run_case(char* line) {
  int i, t;
  struct sigaction sa;
  alarm(10);
  if (parse_case(line) != 0) fatal("parse");
  if (uv_loop_init(&loop) != 0) fatal("uv_loop_init");
  for (i = 0; i < nh; i++) {
    if (uv_async_init(&loop, &ah[i], (nullmask >> i) & 1 ? NULL : async_cb) != 0) fatal("uv_async_init");
    ah[i].data = (void*) (intptr_t) i;
  }
  g_efd = loop.async_io_watcher.fd;
  if (g_efd < 0 || loop.async_wfd != -1) fatal("no eventfd");
  if (c09_poll_probes(&loop) != 0) {
    outlen = 0;
    out("PROBE-FAIL the loop's eventfd %d is missing from the epoll interest set after uv_poll_init() on the "
        "descriptor numbers 3..63 (%d refused, %d accepted and closed)", g_efd, c09_probe_refused, c09_probe_accepted);
    flush_and_exit(0);
  }
  if (e0) {
    if (__real_write(g_efd, &e0, 8) != 8) fatal("preset of the eventfd");
    shadow = e0;
  }
  memset(&sa, 0, sizeof sa);
  sa.sa_handler = on_sigusr2;
  sigemptyset(&sa.sa_mask);
  sigaction(SIGUSR2, &sa, NULL);
  cur_tid = 0;
  thr[0] = pthread_self();
  for (t = 1; t < nthreads; t++) {
    if (slen[t] == 0) st[t] = ST_DONE;
    if (t == sig_tid) continue;
    if (pthread_create(&thr[t], NULL, sender_thread, (void*) (intptr_t) t) != 0) fatal("pthread_create");
  }
  sched_on = 1;
  atomic_store(&turn, 0);
  out("I.%x.", enabled_mask());
  print_obs();
  out(".%llu", (unsigned long long) shadow);
  /* the initial point of the loop thread is T; choose the first thread to run */
  choose_and_pass(0);
  loop_thread();
}

int main(void) {
  static char line[1 << 16];
  setvbuf(stdout, NULL, _IONBF, 0);
  while (fgets(line, sizeof line, stdin)) {
    pid_t pid = fork();
    int status = 0;
    if (pid < 0) { printf("ERR fork\n"); continue; }
    if (pid == 0) { run_case(line); _exit(0); }
    while (waitpid(pid, &status, 0) < 0 && errno == EINTR) {}
    if (WIFSIGNALED(status)) {
      char b[64];
      int n = snprintf(b, sizeof b, "ERR signal %d\n", WTERMSIG(status));
      __real_write(1, b, n);
    }
  }
  return 0;
}
