/* C20 (f): which pthread function does each uv wrapper call, and on which object?
 * Every pthread function the wrappers can reach is wrapped (--wrap), records
 * "<function>:<1 if called on the object the uv wrapper was given>" while a uv call is under
 * observation, and passes through (pthread_cond_wait/timedwait answer 0 without blocking).
 * Init calls additionally record what they ask for: the observable settings of the attribute
 * object at the moment of the call (type / kind / clock / pshared; NULL = defaults) and the
 * by-value arguments, e.g. "pthread_rwlock_init:1:kind=0,pshared=0".
 * Case: "<uv function> [<value or count>]"; output: the recorded calls, space separated.
 * Compared with Model/Thread.v [passthrough]. */
#include <stdio.h>
#include <stdlib.h>
#include <string.h>
#include <pthread.h>
#include <semaphore.h>
#include <time.h>
#include <sched.h>
#include "uv.h"

static int recording;
static const void *exp_a, *exp_b;      /* objects the uv wrapper was given */
static unsigned long exp_val;          /* for by-value arguments (key, thread id) */
static char out[1024];

static int rec_lock;
static void rec(const char* name, int same) {
  if (!recording) return;
  while (__atomic_exchange_n(&rec_lock, 1, __ATOMIC_ACQUIRE)) ;     /* two threads record in the racing case */
  snprintf(out + strlen(out), sizeof out - strlen(out), "%s%s:%d", out[0] ? " " : "", name, same);
  __atomic_store_n(&rec_lock, 0, __ATOMIC_RELEASE);
}
/* what an init call asks for: the observable settings of the attribute object (NULL = an
 * object with the default settings) or the by-value arguments */
static void rec_req(const char* fmt, long a, long b) {
  if (!recording) return;
  snprintf(out + strlen(out), sizeof out - strlen(out), fmt, a, b);
}

#define W1(ret, name, T1) \
  ret __real_##name(T1); \
  ret __wrap_##name(T1 a) { rec(#name, (const void*) a == exp_a); return __real_##name(a); }

W1(int, pthread_mutex_destroy, pthread_mutex_t*)
W1(int, pthread_mutex_lock, pthread_mutex_t*)
W1(int, pthread_mutex_trylock, pthread_mutex_t*)
W1(int, pthread_mutex_unlock, pthread_mutex_t*)
W1(int, pthread_rwlock_destroy, pthread_rwlock_t*)
W1(int, pthread_rwlock_rdlock, pthread_rwlock_t*)
W1(int, pthread_rwlock_tryrdlock, pthread_rwlock_t*)
W1(int, pthread_rwlock_wrlock, pthread_rwlock_t*)
W1(int, pthread_rwlock_trywrlock, pthread_rwlock_t*)
W1(int, pthread_rwlock_unlock, pthread_rwlock_t*)
W1(int, sem_destroy, sem_t*)
W1(int, sem_post, sem_t*)
W1(int, sem_wait, sem_t*)
W1(int, sem_trywait, sem_t*)
W1(int, pthread_cond_destroy, pthread_cond_t*)
W1(int, pthread_cond_signal, pthread_cond_t*)
W1(int, pthread_cond_broadcast, pthread_cond_t*)
W1(int, pthread_barrier_wait, pthread_barrier_t*)
W1(int, pthread_barrier_destroy, pthread_barrier_t*)

int __real_pthread_mutex_init(pthread_mutex_t*, const pthread_mutexattr_t*);
int __wrap_pthread_mutex_init(pthread_mutex_t* m, const pthread_mutexattr_t* a) {
  int type = PTHREAD_MUTEX_DEFAULT, psh = PTHREAD_PROCESS_PRIVATE;
  if (a) { pthread_mutexattr_gettype(a, &type); pthread_mutexattr_getpshared(a, &psh); }
  rec("pthread_mutex_init", (const void*) m == exp_a); rec_req(":type=%ld,pshared=%ld", type, psh);
  return __real_pthread_mutex_init(m, a);
}
int __real_pthread_rwlock_init(pthread_rwlock_t*, const pthread_rwlockattr_t*);
int __wrap_pthread_rwlock_init(pthread_rwlock_t* m, const pthread_rwlockattr_t* a) {
  int kind = PTHREAD_RWLOCK_DEFAULT_NP, psh = PTHREAD_PROCESS_PRIVATE;
  if (a) { pthread_rwlockattr_getkind_np(a, &kind); pthread_rwlockattr_getpshared(a, &psh); }
  rec("pthread_rwlock_init", (const void*) m == exp_a); rec_req(":kind=%ld,pshared=%ld", kind, psh);
  return __real_pthread_rwlock_init(m, a);
}
int __real_sem_init(sem_t*, int, unsigned);
int __wrap_sem_init(sem_t* s, int sh, unsigned v) {
  rec("sem_init", (const void*) s == exp_a); rec_req(":pshared=%ld,value=%ld", sh, (long) v);
  return __real_sem_init(s, sh, v);
}
int __real_pthread_barrier_init(pthread_barrier_t*, const pthread_barrierattr_t*, unsigned);
int __wrap_pthread_barrier_init(pthread_barrier_t* b, const pthread_barrierattr_t* a, unsigned n) {
  int psh = PTHREAD_PROCESS_PRIVATE;
  if (a) pthread_barrierattr_getpshared(a, &psh);
  rec("pthread_barrier_init", (const void*) b == exp_a); rec_req(":count=%ld,pshared=%ld", (long) n, psh);
  return __real_pthread_barrier_init(b, a, n);
}
int __real_pthread_cond_init(pthread_cond_t*, const pthread_condattr_t*);
int __wrap_pthread_cond_init(pthread_cond_t* c, const pthread_condattr_t* a) {
  clockid_t clk = CLOCK_REALTIME; int psh = PTHREAD_PROCESS_PRIVATE;
  if (a) { pthread_condattr_getclock(a, &clk); pthread_condattr_getpshared(a, &psh); }
  rec("pthread_cond_init", (const void*) c == exp_a); rec_req(":clock=%ld,pshared=%ld", (long) clk, psh);
  return __real_pthread_cond_init(c, a);
}
int __real_pthread_cond_wait(pthread_cond_t*, pthread_mutex_t*);
int __wrap_pthread_cond_wait(pthread_cond_t* c, pthread_mutex_t* m) {
  if (recording) { rec("pthread_cond_wait", (const void*) c == exp_a && (const void*) m == exp_b); return 0; }
  return __real_pthread_cond_wait(c, m);
}
int __real_pthread_cond_timedwait(pthread_cond_t*, pthread_mutex_t*, const struct timespec*);
int __wrap_pthread_cond_timedwait(pthread_cond_t* c, pthread_mutex_t* m, const struct timespec* ts) {
  if (recording) { rec("pthread_cond_timedwait", (const void*) c == exp_a && (const void*) m == exp_b); return 0; }
  return __real_pthread_cond_timedwait(c, m, ts);
}
int __real_pthread_once(pthread_once_t*, void (*)(void));
static void once_fn(void) {}
/* racing case: a second uv_once arrives while the init function of the first is running */
static volatile int slow_in_init, slow_second_called, slow_second_returned;
static pthread_once_t slow_guard = PTHREAD_ONCE_INIT;
static void slow_init(void) {
  struct timespec t0, t;
  slow_in_init = 1;
  clock_gettime(CLOCK_MONOTONIC, &t0);
  for (;;) {          /* until the second call reached pthread_once (or returned without it); 3 s at most */
    if (slow_second_called || slow_second_returned) break;
    clock_gettime(CLOCK_MONOTONIC, &t);
    if (t.tv_sec - t0.tv_sec >= 3) break;
    sched_yield();
  }
}
int __wrap_pthread_once(pthread_once_t* g, void (*f)(void)) {
  rec("pthread_once", (const void*) g == exp_a && (f == once_fn || f == slow_init));
  if (g == &slow_guard && slow_in_init) slow_second_called = 1;
  return __real_pthread_once(g, f);
}
static void slow_first(void* a) { (void) a; uv_once(&slow_guard, slow_init); }
int __real_pthread_key_create(pthread_key_t*, void (*)(void*));
int __wrap_pthread_key_create(pthread_key_t* k, void (*d)(void*)) {
  rec("pthread_key_create", (const void*) k == exp_a); return __real_pthread_key_create(k, d);
}
int __real_pthread_key_delete(pthread_key_t);
int __wrap_pthread_key_delete(pthread_key_t k) {
  rec("pthread_key_delete", (unsigned long) k == exp_val); return __real_pthread_key_delete(k);
}
void* __real_pthread_getspecific(pthread_key_t);
void* __wrap_pthread_getspecific(pthread_key_t k) {
  rec("pthread_getspecific", (unsigned long) k == exp_val); return __real_pthread_getspecific(k);
}
int __real_pthread_setspecific(pthread_key_t, const void*);
int __wrap_pthread_setspecific(pthread_key_t k, const void* v) {
  rec("pthread_setspecific", (unsigned long) k == exp_val && v == exp_b); return __real_pthread_setspecific(k, v);
}
int __real_pthread_join(pthread_t, void**);
int __wrap_pthread_join(pthread_t t, void** r) {
  rec("pthread_join", (unsigned long) t == exp_val); return __real_pthread_join(t, r);
}

static void nop_entry(void* a) { (void) a; }

#define OBS(stmt) do { out[0] = 0; recording = 1; stmt; recording = 0; } while (0)

static void run_case(const char* f, long arg) {
  static uv_mutex_t m; static uv_rwlock_t rw; static uv_sem_t s; static uv_cond_t c;
  static uv_barrier_t b; static uv_key_t k; static uv_once_t g = UV_ONCE_INIT; static int marker;
  uv_thread_t t;
  out[0] = 0;
  if (!strcmp(f, "errorcheck_macro")) {      /* is the constant a preprocessor macro on this libc? */
#ifdef PTHREAD_MUTEX_ERRORCHECK
    printf("1\n");
#else
    printf("0\n");
#endif
    return;
  }
  if (!strcmp(f, "uv_mutex_init")) { exp_a = &m; OBS(uv_mutex_init(&m)); uv_mutex_destroy(&m); }
  else if (!strcmp(f, "uv_mutex_init_recursive")) { exp_a = &m; OBS(uv_mutex_init_recursive(&m)); uv_mutex_destroy(&m); }
  else if (!strcmp(f, "uv_cond_init")) { exp_a = &c; OBS(uv_cond_init(&c)); }
  else if (!strcmp(f, "uv_mutex_destroy")) { uv_mutex_init(&m); exp_a = &m; OBS(uv_mutex_destroy(&m)); }
  else if (!strcmp(f, "uv_mutex_lock")) { uv_mutex_init(&m); exp_a = &m; OBS(uv_mutex_lock(&m)); uv_mutex_unlock(&m); }
  else if (!strcmp(f, "uv_mutex_trylock")) { uv_mutex_init(&m); exp_a = &m; OBS(uv_mutex_trylock(&m)); uv_mutex_unlock(&m); }
  else if (!strcmp(f, "uv_mutex_unlock")) { uv_mutex_init(&m); uv_mutex_lock(&m); exp_a = &m; OBS(uv_mutex_unlock(&m)); }
  else if (!strcmp(f, "uv_rwlock_init")) { exp_a = &rw; OBS(uv_rwlock_init(&rw)); }
  else if (!strcmp(f, "uv_rwlock_destroy")) { uv_rwlock_init(&rw); exp_a = &rw; OBS(uv_rwlock_destroy(&rw)); }
  else if (!strcmp(f, "uv_rwlock_rdlock")) { uv_rwlock_init(&rw); exp_a = &rw; OBS(uv_rwlock_rdlock(&rw)); }
  else if (!strcmp(f, "uv_rwlock_tryrdlock")) { uv_rwlock_init(&rw); exp_a = &rw; OBS(uv_rwlock_tryrdlock(&rw)); }
  else if (!strcmp(f, "uv_rwlock_rdunlock")) { uv_rwlock_init(&rw); uv_rwlock_rdlock(&rw); exp_a = &rw; OBS(uv_rwlock_rdunlock(&rw)); }
  else if (!strcmp(f, "uv_rwlock_wrlock")) { uv_rwlock_init(&rw); exp_a = &rw; OBS(uv_rwlock_wrlock(&rw)); }
  else if (!strcmp(f, "uv_rwlock_trywrlock")) { uv_rwlock_init(&rw); exp_a = &rw; OBS(uv_rwlock_trywrlock(&rw)); }
  else if (!strcmp(f, "uv_rwlock_wrunlock")) { uv_rwlock_init(&rw); uv_rwlock_wrlock(&rw); exp_a = &rw; OBS(uv_rwlock_wrunlock(&rw)); }
  else if (!strcmp(f, "uv_sem_init")) { exp_a = &s; OBS(uv_sem_init(&s, (unsigned) arg)); }
  else if (!strcmp(f, "uv_sem_destroy")) { uv_sem_init(&s, 1); exp_a = &s; OBS(uv_sem_destroy(&s)); }
  else if (!strcmp(f, "uv_sem_post")) { uv_sem_init(&s, 1); exp_a = &s; OBS(uv_sem_post(&s)); }
  else if (!strcmp(f, "uv_sem_wait")) { uv_sem_init(&s, 1); exp_a = &s; OBS(uv_sem_wait(&s)); }
  else if (!strcmp(f, "uv_sem_trywait")) { uv_sem_init(&s, 1); exp_a = &s; OBS(uv_sem_trywait(&s)); }
  else if (!strcmp(f, "uv_cond_destroy")) { uv_cond_init(&c); exp_a = &c; OBS(uv_cond_destroy(&c)); }
  else if (!strcmp(f, "uv_cond_signal")) { uv_cond_init(&c); exp_a = &c; OBS(uv_cond_signal(&c)); }
  else if (!strcmp(f, "uv_cond_broadcast")) { uv_cond_init(&c); exp_a = &c; OBS(uv_cond_broadcast(&c)); }
  else if (!strcmp(f, "uv_cond_wait")) { uv_cond_init(&c); uv_mutex_init(&m); uv_mutex_lock(&m); exp_a = &c; exp_b = &m; OBS(uv_cond_wait(&c, &m)); }
  else if (!strcmp(f, "uv_cond_timedwait")) { uv_cond_init(&c); uv_mutex_init(&m); uv_mutex_lock(&m); exp_a = &c; exp_b = &m; OBS(uv_cond_timedwait(&c, &m, 1000)); }
  else if (!strcmp(f, "uv_once")) {          /* arg = which call on this guard is observed (1 = on a fresh guard) */
    long i; exp_a = &g;
    for (i = 1; i < arg; i++) uv_once(&g, once_fn);
    OBS(uv_once(&g, once_fn));
  }
  else if (!strcmp(f, "uv_once_racing")) {   /* both calls are observed: the one running the init and the one racing with it */
    exp_a = &slow_guard; out[0] = 0; recording = 1;
    if (uv_thread_create(&t, slow_first, NULL)) { recording = 0; printf("nothread\n"); return; }
    while (!slow_in_init) sched_yield();
    uv_once(&slow_guard, slow_init);
    slow_second_returned = 1;
    recording = 0;                           /* both pthread_once calls were recorded on entry */
    uv_thread_join(&t);
  }
  else if (!strcmp(f, "uv_key_create")) { exp_a = &k; OBS(uv_key_create(&k)); }
  else if (!strcmp(f, "uv_key_delete")) { uv_key_create(&k); exp_val = (unsigned long) k; OBS(uv_key_delete(&k)); }
  else if (!strcmp(f, "uv_key_get")) { uv_key_create(&k); exp_val = (unsigned long) k; OBS(uv_key_get(&k)); }
  else if (!strcmp(f, "uv_key_set")) { uv_key_create(&k); exp_val = (unsigned long) k; exp_b = &marker; OBS(uv_key_set(&k, &marker)); }
  else if (!strcmp(f, "uv_thread_join")) { if (uv_thread_create(&t, nop_entry, NULL)) { printf("nothread\n"); return; } exp_val = (unsigned long) t; OBS(uv_thread_join(&t)); }
  else if (!strcmp(f, "uv_barrier_init")) { exp_a = &b; OBS(uv_barrier_init(&b, (unsigned) arg)); }
  else if (!strcmp(f, "uv_barrier_wait")) { uv_barrier_init(&b, 1); exp_a = &b; OBS(uv_barrier_wait(&b)); }
  else if (!strcmp(f, "uv_barrier_destroy")) { uv_barrier_init(&b, 1); exp_a = &b; OBS(uv_barrier_destroy(&b)); }
  else { printf("unknown\n"); return; }
  printf("%s\n", out[0] ? out : "none");
}

int main(void) {
  char line[256];
  while (fgets(line, sizeof line, stdin)) {
    long arg = 1; char* sp;
    line[strcspn(line, "\n")] = 0;
    sp = strchr(line, ' ');
    if (sp) { *sp = 0; arg = strtol(sp + 1, NULL, 10); }
    run_case(line, arg);
    fflush(stdout);
  }
  return 0;
}
