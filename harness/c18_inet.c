/* C18 (address codecs): runs the real uv_inet_pton / uv_inet_ntop / uv_ip4_addr /
 * uv_ip6_addr / uv_ip4_name / uv_ip6_name / uv_ip_name / uv__strscpy of the freshly
 * built libuv.a on the cases of checks/c18.py.  One case per input line (see
 * ocaml/drv_c18.ml); one output line per case:
 *
 *     <what libuv did, same format as the model driver> | <monitor data>
 *
 * Monitor data: what glibc's inet_pton / inet_ntop answer on the same input, and
 * whether the implementation's own output round-trips.  Every destination sits
 * between guard bytes; a damaged guard prints "G!" in the libuv part. */
#include <stdio.h>
#include <stdlib.h>
#include <string.h>
#include <arpa/inet.h>
#include <netinet/in.h>
#include "uv.h"
#include "strscpy.h"

#define FILL 0xAA
#define GUARD 16
#define MAXSIZE 50
#define MAXLINE (1 << 16)

static unsigned char area[GUARD + 4096 + GUARD];

static unsigned char* fresh(size_t size) {
  memset(area, FILL, sizeof area);
  (void) size;
  return area + GUARD;
}

static int guard_ok(size_t size) {
  size_t i;
  for (i = 0; i < GUARD; i++)
    if (area[i] != FILL || area[GUARD + size + i] != FILL)
      return 0;
  return 1;
}

static int unhex(const char* h, unsigned char* out) {
  int n = 0;
  if (h[0] == '-') return 0;
  while (h[0] && h[1]) {
    unsigned v;
    sscanf(h, "%2x", &v);
    out[n++] = (unsigned char) v;
    h += 2;
  }
  return n;
}

static void hex(char* o, const unsigned char* p, size_t n) {
  size_t i;
  for (i = 0; i < n; i++) sprintf(o + 2 * i, "%02x", p[i]);
  o[2 * n] = 0;
}

/* ---- ntop over all sizes, run-length encoded exactly like drv_c18.ml ---- */
typedef int (*ntop_fn)(const unsigned char* addr, char* dst, size_t size);
static int g_af;
static int f_inet_ntop(const unsigned char* a, char* d, size_t s) { return uv_inet_ntop(g_af, a, d, s); }
static int f_ipx_name(const unsigned char* a, char* d, size_t s) {
  if (g_af == AF_INET) {
    struct sockaddr_in sa; memset(&sa, 0x5c, sizeof sa); sa.sin_family = AF_INET;
    memcpy(&sa.sin_addr, a, 4); return uv_ip4_name(&sa, d, s);
  } else if (g_af == AF_INET6) {
    struct sockaddr_in6 sa; memset(&sa, 0x5c, sizeof sa); sa.sin6_family = AF_INET6;
    memcpy(&sa.sin6_addr, a, 16); return uv_ip6_name(&sa, d, s);
  } else {
    struct sockaddr_in6 sa; memset(&sa, 0x5c, sizeof sa); sa.sin6_family = g_af;
    return uv_ip_name((struct sockaddr*) &sa, d, s);
  }
}
static int f_ip_name(const unsigned char* a, char* d, size_t s) {
  if (g_af == AF_INET) {
    struct sockaddr_in sa; memset(&sa, 0x5c, sizeof sa); sa.sin_family = AF_INET;
    memcpy(&sa.sin_addr, a, 4); return uv_ip_name((struct sockaddr*) &sa, d, s);
  } else {
    struct sockaddr_in6 sa; memset(&sa, 0x5c, sizeof sa); sa.sin6_family = g_af;
    memcpy(&sa.sin6_addr, a, 16); return uv_ip_name((struct sockaddr*) &sa, d, s);
  }
}

static void one_size(ntop_fn f, const unsigned char* addr, size_t size, char* tok) {
  unsigned char* d = fresh(size);
  int rc = f(addr, (char*) d, size);
  size_t ext = 0, i;
  char hx[2 * MAXSIZE + 8];
  for (i = 0; i < size; i++) if (d[i] != FILL) ext = i + 1;
  hex(hx, d, ext);
  sprintf(tok, "%d/%s%s", rc, hx, guard_ok(size) ? "" : "G!");
}

static void sweep(ntop_fn f, const unsigned char* addr) {
  char cur[256], t[256];
  int start = 0, s;
  one_size(f, addr, 0, cur);
  for (s = 1; s <= MAXSIZE; s++) {
    one_size(f, addr, s, t);
    if (strcmp(t, cur) != 0) {
      printf("%d-%d:%s ", start, s - 1, cur);
      start = s; strcpy(cur, t);
    }
  }
  printf("%d-%d:%s ", start, MAXSIZE, cur);
}

static void do_ntop(const char* mode, const unsigned char* addr) {
  char text[128], gl[128], hx[300];
  unsigned char back[16];
  int rc, rt = 0, alen;
  g_af = mode[1] == '4' ? AF_INET : mode[1] == '6' ? AF_INET6 : 99;
  alen = g_af == AF_INET ? 4 : 16;
  sweep(f_inet_ntop, addr); printf("; ");
  sweep(f_ipx_name, addr); printf("; ");
  sweep(f_ip_name, addr);
  printf(" | ");
  if (g_af == 99) { printf("g=- rt=1"); return; }
  memset(text, 0, sizeof text);
  rc = uv_inet_ntop(g_af, addr, text, 64);
  if (rc == 0) {
    memset(back, FILL, sizeof back);
    rt = uv_inet_pton(g_af, text, back) == 0 && memcmp(back, addr, alen) == 0;
  }
  if (inet_ntop(g_af, addr, gl, sizeof gl) == NULL) strcpy(gl, "?");
  hex(hx, (unsigned char*) gl, strlen(gl));
  printf("g=%s rt=%d", hx[0] ? hx : "-", rt);
}

/* ---- pton ---- */
static void glibc_pton(int af, const char* s, int zone_ok) {
  char pre[MAXLINE];
  unsigned char gd[16];
  char hx[40];
  int r, alen = af == AF_INET ? 4 : 16;
  const char* pc = zone_ok ? strchr(s, '%') : NULL;
  size_t n = pc ? (size_t) (pc - s) : strlen(s);
  memcpy(pre, s, n); pre[n] = 0;
  memset(gd, FILL, sizeof gd);
  r = inet_pton(af, pre, gd);
  hex(hx, gd, alen);
  printf("g=%d %s", r, hx);
}

static int roundtrip(int af, const unsigned char* a) {
  char text[64];
  unsigned char back[16];
  int alen = af == AF_INET ? 4 : 16;
  if (uv_inet_ntop(af, a, text, sizeof text) != 0) return 0;
  if (uv_inet_pton(af, text, back) != 0) return 0;
  return memcmp(back, a, alen) == 0;
}

static void do_pton(const char* mode, const char* s) {
  int af = mode[1] == '4' ? AF_INET : mode[1] == '6' ? AF_INET6 : 99;
  int alen = af == AF_INET ? 4 : 16;
  unsigned char* d = fresh(alen);
  char hx[40];
  int rc = uv_inet_pton(af, s, d);
  hex(hx, d, alen);
  printf("%d %s%s | ", rc, hx, guard_ok(alen) ? "" : "G!");
  if (af == 99) { printf("g=- rt=1"); return; }
  glibc_pton(af, s, af == AF_INET6);
  printf(" rt=%d", rc == 0 ? roundtrip(af, d) : 1);
}

static void do_addr(const char* mode, const char* s, int port) {
  char hp[8], ha[40];
  int rc, ok;
  if (mode[1] == '4') {
    struct sockaddr_in* sa = (struct sockaddr_in*) fresh(sizeof *sa);
    rc = uv_ip4_addr(s, port, sa);
    ok = guard_ok(sizeof *sa) && sa->sin_family == AF_INET;
    hex(hp, (unsigned char*) &sa->sin_port, 2);
    hex(ha, (unsigned char*) &sa->sin_addr, 4);
    printf("%d %s %s%s | ", rc, hp, ha, ok ? "" : "G!");
    glibc_pton(AF_INET, s, 0);
    printf(" rt=%d", rc == 0 ? roundtrip(AF_INET, (unsigned char*) &sa->sin_addr) : 1);
  } else {
    struct sockaddr_in6* sa = (struct sockaddr_in6*) fresh(sizeof *sa);
    rc = uv_ip6_addr(s, port, sa);
    ok = guard_ok(sizeof *sa) && sa->sin6_family == AF_INET6 && sa->sin6_flowinfo == 0;
    hex(hp, (unsigned char*) &sa->sin6_port, 2);
    hex(ha, (unsigned char*) &sa->sin6_addr, 16);
    printf("%d %s %s%s | ", rc, hp, ha, ok ? "" : "G!");
    glibc_pton(AF_INET6, s, 1);
    printf(" rt=%d", rc == 0 ? roundtrip(AF_INET6, (unsigned char*) &sa->sin6_addr) : 1);
  }
}

static void do_strscpy(const char* s) {
  size_t len = strlen(s), n, i;
  for (n = 0; n <= len + 2; n++) {
    unsigned char* d = fresh(n);
    ssize_t r = uv__strscpy((char*) d, s, n);
    size_t ext = 0;
    char* hx = malloc(2 * n + 8);
    for (i = 0; i < n; i++) if (d[i] != FILL) ext = i + 1;
    hex(hx, d, ext);
    printf("%s%zu:%ld/%s%s", n ? " " : "", n, (long) r, hx, guard_ok(n) ? "" : "G!");
    free(hx);
  }
  printf(" | len=%zu", len);
}

int main(void) {
  static char line[MAXLINE];
  static unsigned char raw[MAXLINE / 2 + 2];
  while (fgets(line, sizeof line, stdin)) {
    char mode[8], h[MAXLINE];
    int port = 0, n, k;
    h[0] = 0;
    k = sscanf(line, "%7s %s %d", mode, h, &port);
    if (k < 2) { printf("bad-case\n"); continue; }
    n = unhex(h, raw);
    raw[n] = 0;                     /* the terminating NUL */
    if (mode[0] == 'p') do_pton(mode, (char*) raw);
    else if (mode[0] == 'a') do_addr(mode, (char*) raw, port);
    else if (mode[0] == 'n') {
      unsigned char addr[16];
      memset(addr, 0, sizeof addr);
      memcpy(addr, raw, n < 16 ? n : 16);
      do_ntop(mode, addr);
    }
    else if (mode[0] == 's') do_strscpy((char*) raw);
    else printf("bad-case");
    printf("\n");
  }
  return 0;
}
