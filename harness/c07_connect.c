/* C07 (connect side, send-handle checks) on the freshly built libuv.
 *
 * connect cases:  <t|p> ; ops ; beh0 | beh1 | ... ; script
 *   one uv_tcp_t (t) or uv_pipe_t (p) per case
 *   ops: Tl|Tc|Th  uv_tcp_connect to the harness's listening port / to a closed port / to a listener whose
 *                 accept queue is full (the handshake stays incomplete)
 *        B       uv_tcp_bind to the (busy) address of the harness's listener
 *        Pl|Pm|Po|Pe|Pn|Pf  uv_pipe_connect (void) to: listening path, missing path,
 *                           over-long path, "", a regular file, a listener whose backlog is full
 *        Q<flags><target>   uv_pipe_connect2, flags digit 0|1|2, targets as above plus
 *                           z (name with an embedded NUL)
 *        W uv_write of one byte, H uv_shutdown, G uv_read_start (only with a descriptor, no connect
 *        pending, not closing; no W/H after H or G; their callbacks do nothing)
 *        t uv_try_write (uv_try_write2 on pipes) of one byte, only while a connect is pending
 *        C uv_close   R uv_run(NOWAIT)
 *   script: s<0|errno> per socket() made inside a connect call; p|e<errno> per connect();
 *           gp|g<errno> per getsockopt(SO_ERROR) (gp: ask the kernel)
 *   output: trace ; socket log ; connect log ; SO_ERROR log ; event bits ; verification log
 *           (s<req>,<op>,<arrivals> at submit, c<req>,<status>,<arrivals>,<getpeername> at callback, e<arrivals>)
 *   trace:  u<req>:<ret> submit, k<req>:<status> connect_cb, x close_cb
 *
 * send-handle cases:  w ; <stream><state><handle><api>
 *   stream T tcp (connected), P pipe ipc=0, I pipe ipc=1; state w writable, s shut down,
 *   n no descriptor, q write queue not empty; handle - NULL, t/T tcp with/without fd,
 *   u/U udp with/without, p pipe with fd, m a timer, c a closing tcp handle;
 *   api 2 uv_write2, y uv_try_write2
 *   output: w<ret> f<descriptors that reached the peer> ; <first syscall answer>
 */
#include <stdio.h>
#include <stdlib.h>
#include <string.h>
#include <errno.h>
#include <stdarg.h>
#include <unistd.h>
#include <fcntl.h>
#include <poll.h>
#include <signal.h>
#include <sys/socket.h>
#include <sys/stat.h>
#include <sys/epoll.h>
#include <sys/un.h>
#include <sys/uio.h>
#include <netinet/in.h>
#include <arpa/inet.h>
#include "uv.h"
#include "uv-common.h"

int __real_connect(int, const struct sockaddr*, socklen_t);
int __real_getsockopt(int, int, int, void*, socklen_t*);
int __real_socket(int, int, int);
int __real_epoll_pwait(int, struct epoll_event*, int, int, const sigset_t*);
ssize_t __real_sendmsg(int, const struct msghdr*, int);
ssize_t __real_write(int, const void*, size_t);

#define MAXBEH 256
#define MAXREQ 256

static const char* g_dir;
static char g_kind;
static uv_loop_t loop;
static uv_prepare_t keepalive;
static union { uv_tcp_t tcp; uv_pipe_t pipe; uv_stream_t stream; uv_handle_t handle; } h;
static struct creq { uv_connect_t req; int id; } reqs[MAXREQ];
static int nreq, g_active, g_quiet, g_closing, in_call, saw_event, g_watch_fd;
static char* beh[MAXBEH]; static int nbeh, cbn;
static char** scr_s; static char** scr_c; static char** scr_g; static int n_s, n_c, n_g, p_s, p_c, p_g;
static FILE *slog, *clog_, *glog, *evlog; static char *slog_b, *clog_b, *glog_b, *ev_b; static size_t slog_n, clog_n, glog_n, ev_n;
static int listener = -1, lport, ulistener = -1, cport, flistener = -1;
static char fpath[160];
static FILE* vlog; static char* vlog_b; static size_t vlog_n; static int unclaimed;
static int aux_out, g_now, ever_connected, hport, g_slow, in_wcb;       /* write/shutdown requests of the script still outstanding; shutdown/read_start done */
static char upath[160], missing[160], overlong[512], regfile[160];
/* write2 part */
static int w_fd = -1; static FILE* wlog; static char* wlog_b; static size_t wlog_n; static int w_logged;

static void do_ops(char* ops, int in_cb);

/* close without leaving a TIME_WAIT entry (thousands of cases per run share the port range) */
static void abort_close(int fd) {
  struct linger lg; lg.l_onoff = 1; lg.l_linger = 0;
  setsockopt(fd, SOL_SOCKET, SO_LINGER, &lg, sizeof lg);
  close(fd);
}

int __wrap_socket(int d, int t, int p) {
  const char* tok; int r, e;
  if (!g_active || !in_call) return __real_socket(d, t, p);
  tok = p_s < n_s ? scr_s[p_s++] : "s0";
  e = atoi(tok + 1);
  if (e != 0) { fprintf(slog, "%d ", -e); errno = e; return -1; }
  r = __real_socket(d, t, p);
  e = errno;
  fprintf(slog, "%d ", r < 0 ? -e : 0);
  errno = e;
  return r;
}

int __wrap_connect(int fd, const struct sockaddr* a, socklen_t l) {
  const char* tok; int r, e;
  if (!g_active || !in_call) return __real_connect(fd, a, l);
  tok = p_c < n_c ? scr_c[p_c++] : "p";
  if (tok[0] == 'e') { e = atoi(tok + 1); fprintf(clog_, "%d ", -e); errno = e; return -1; }
  r = __real_connect(fd, a, l);
  e = errno;
  fprintf(clog_, "%d ", r == 0 ? 0 : -e);
  errno = e;
  return r;
}

int __wrap_getsockopt(int fd, int level, int name, void* val, socklen_t* len) {
  const char* tok; int r;
  if (!g_active || level != SOL_SOCKET || name != SO_ERROR) return __real_getsockopt(fd, level, name, val, len);
  tok = p_g < n_g ? scr_g[p_g++] : "gp";
  if (tok[1] != 'p') { int e = atoi(tok + 1); *(int*) val = e; fprintf(glog, "%d ", -e); return 0; }
  r = __real_getsockopt(fd, level, name, val, len);
  fprintf(glog, "%d ", -*(int*) val);
  return r;
}

int __wrap_epoll_pwait(int epfd, struct epoll_event* ev, int max, int timeout, const sigset_t* ss) {
  int n = __real_epoll_pwait(epfd, ev, max, timeout, ss), i;
  if (g_active && epfd == loop.backend_fd) {
    /* the descriptor may have been created by a callback of this very iteration */
    uv_os_fd_t fd = -1;
    g_watch_fd = (!g_closing && uv_fileno(&h.handle, &fd) == 0) ? fd : -1;
  }
  if (g_active && epfd == loop.backend_fd && g_watch_fd >= 0)
    for (i = 0; i < n; i++)
      if (ev[i].data.fd == g_watch_fd && (ev[i].events & (EPOLLIN | EPOLLOUT | EPOLLERR | EPOLLHUP))) saw_event = 1;
  return n;
}

static void pending_write_seen(int fd);
ssize_t __wrap_sendmsg(int fd, const struct msghdr* m, int flags) {
  ssize_t r; int e;
  pending_write_seen(fd);
  r = __real_sendmsg(fd, m, flags); e = errno;
  if (w_fd >= 0 && fd == w_fd && !w_logged) { w_logged = 1; fprintf(wlog, "%ld", r < 0 ? (long) -e : (long) r); }
  errno = e; return r;
}
ssize_t __wrap_write(int fd, const void* b, size_t n) {
  ssize_t r; int e;
  pending_write_seen(fd);
  r = __real_write(fd, b, n); e = errno;
  if (w_fd >= 0 && fd == w_fd && !w_logged) { w_logged = 1; fprintf(wlog, "%ld", r < 0 ? (long) -e : (long) r); }
  errno = e; return r;
}

/* connections that reached the harness's listeners since the last call; they are kept open until the
 * end of the case (resetting them at once would change what the connecting side sees) */
static int held_conn[1024]; static int n_held;
static int arrivals(void) {
  int s, n = 0;
  while ((s = accept4(listener, NULL, NULL, SOCK_NONBLOCK)) >= 0) { if (n_held < 1024) held_conn[n_held++] = s; else abort_close(s); n++; }
  while ((s = accept4(ulistener, NULL, NULL, SOCK_NONBLOCK)) >= 0) { if (n_held < 1024) held_conn[n_held++] = s; else close(s); n++; }
  return n;
}
static void release_conns(void) { while (n_held > 0) abort_close(held_conn[--n_held]); }

static void run_beh(void) {
  int k = cbn++;
  if (k < nbeh) { char* copy = strdup(beh[k]); do_ops(copy, 1); free(copy); }
}
static void connect_cb(uv_connect_t* r, int status) {
  if (g_quiet) return;
  {
    /* for the monitor only: did a connection reach the listener, is the socket connected */
    int a, gp = 1; uv_os_fd_t fd = -1;
    if (status == 0) {            /* before the listener side is looked at: it resets what it accepts */
      struct sockaddr_storage ss; socklen_t sl = sizeof ss;
      gp = (uv_fileno((uv_handle_t*) r->handle, &fd) == 0 && getpeername(fd, (struct sockaddr*) &ss, &sl) == 0) ? 0 : -errno;
    }
    a = arrivals();
    if (status == 0 && a + unclaimed == 0 && !ever_connected) {   /* a fresh socket: the listener must get it */
      struct pollfd pf[2]; pf[0].fd = listener; pf[1].fd = ulistener; pf[0].events = pf[1].events = POLLIN;
      pf[0].revents = pf[1].revents = 0; poll(pf, 2, 2000); a = arrivals();
    }
    if (status == 0) { unclaimed = a + unclaimed > 0 ? a + unclaimed - 1 : 0; ever_connected = 1; } else unclaimed += a;
    fprintf(vlog, "c%d,%d,%d,%d,%d%d ", ((struct creq*) r)->id, status, a, gp,
            uv_is_readable(r->handle), uv_is_writable(r->handle));
  }
  printf("k%d:%d ", ((struct creq*) r)->id, status);
  run_beh();
}
static void aux_write_cb(uv_write_t* r, int st) { (void) st; aux_out--; free(r); if (!g_quiet) { printf("v "); in_wcb++; run_beh(); in_wcb--; } }
static void aux_shutdown_cb(uv_shutdown_t* r, int st) { (void) st; aux_out--; free(r); if (!g_quiet) printf("y "); }
static void aux_alloc_cb(uv_handle_t* hd, size_t sz, uv_buf_t* b) { static char rb[4096]; (void) hd; (void) sz; *b = uv_buf_init(rb, sizeof rb); }
static void aux_read_cb(uv_stream_t* st, ssize_t n, const uv_buf_t* b) { (void) st; (void) n; (void) b; }
/* uv_write / uv_shutdown: with a descriptor, not closing (also while a connect is pending);
 * uv_read_start additionally only with no connect pending */
static int aux_allowed(int need_idle) {
  uv_os_fd_t fd = -1;
  return !g_closing && uv_fileno(&h.handle, &fd) == 0 && (!need_idle || h.stream.connect_req == NULL);
}
/* no write(2)/sendmsg(2) may be issued on the descriptor while its connect is outstanding (it could
 * consume the socket's pending error) */
static void pending_write_seen(int fd) {
  uv_os_fd_t hfd = -1;
  if (!g_active || g_quiet || g_closing) return;
  if (uv_fileno(&h.handle, &hfd) != 0 || hfd != fd) return;
  if (h.stream.connect_req != NULL) printf("!write-while-connecting ");
}
static void close_cb(uv_handle_t* hd) { (void) hd; if (!g_quiet) printf("x "); }
static void prep_cb(uv_prepare_t* p) { (void) p; }
static void walk_close(uv_handle_t* hd, void* arg) { (void) arg; if (!uv_is_closing(hd)) uv_close(hd, NULL); }

static const char* pipe_target(char t, size_t* len) {
  const char* s;
  switch (t) {
  case 'l': s = upath; break;
  case 'm': s = missing; break;
  case 'o': s = overlong; break;
  case 'e': s = ""; break;
  case 'n': s = regfile; break;
  case 'f': s = fpath; break;        /* listening, backlog full: connect(2) = EAGAIN */
  default: s = missing; break;
  }
  *len = strlen(s);
  return s;
}

static void do_ops(char* ops, int in_cb) {
  char* save = NULL; char* tok;
  for (tok = strtok_r(ops, " \n", &save); tok; tok = strtok_r(NULL, " \n", &save)) {
    int r; struct creq* q; size_t len; const char* name;
    switch (tok[0]) {
    case 'T':
      if (g_kind != 't' || g_closing || nreq >= MAXREQ) break;
      {
        struct sockaddr_in a; memset(&a, 0, sizeof a);
        a.sin_family = AF_INET; a.sin_addr.s_addr = htonl(INADDR_LOOPBACK);
        if (tok[1] == '6') {          /* [::1]:lport - EAFNOSUPPORT when the handle already has an AF_INET socket */
          struct sockaddr_in6 a6; memset(&a6, 0, sizeof a6);
          a6.sin6_family = AF_INET6; a6.sin6_addr = in6addr_loopback; a6.sin6_port = htons(lport);
          q = &reqs[nreq]; q->id = nreq; nreq++;
          { int a0 = arrivals(); unclaimed += a0; fprintf(vlog, "s%d,%s,%d ", q->id, tok, a0); }
          in_call = 1; r = uv_tcp_connect(&q->req, &h.tcp, (struct sockaddr*) &a6, connect_cb); in_call = 0;
          printf("u%d:%d ", q->id, r);
          break;
        }
        if (tok[1] == 'l') a.sin_port = htons(lport);
        else if (tok[1] == 'h') { a.sin_port = htons(hport); g_slow = 1; }   /* accept queue full: the SYN is dropped, the handshake stays incomplete */
        else a.sin_port = htons(cport);   /* bound by the harness, never listening: refused, and nobody else can take it */
        q = &reqs[nreq]; q->id = nreq; nreq++;
        { int a0 = arrivals(); unclaimed += a0; fprintf(vlog, "s%d,%s,%d ", q->id, tok, a0); }
        in_call = 1; r = uv_tcp_connect(&q->req, &h.tcp, (struct sockaddr*) &a, connect_cb); in_call = 0;
        printf("u%d:%d ", q->id, r);
      }
      break;
    case 'b':
      if (g_kind != 't' || g_closing || h.stream.connect_req != NULL) break;   /* no bind while a connect is pending */
      {
        struct sockaddr_in a; memset(&a, 0, sizeof a);
        a.sin_family = AF_INET; a.sin_addr.s_addr = htonl(INADDR_LOOPBACK);
        in_call = 1; r = uv_tcp_bind(&h.tcp, (struct sockaddr*) &a, 0); in_call = 0;
        (void) r;
      }
      break;
    case 'B':
      if (g_kind != 't' || g_closing || h.stream.connect_req != NULL) break;
      {
        struct sockaddr_in a; memset(&a, 0, sizeof a);
        a.sin_family = AF_INET; a.sin_addr.s_addr = htonl(INADDR_LOOPBACK); a.sin_port = htons(lport);
        in_call = 1; r = uv_tcp_bind(&h.tcp, (struct sockaddr*) &a, 0); in_call = 0;
        (void) r;      /* a failing socket() is the only way this fails; the model has that case */
      }
      break;
    case 'P':
      if (g_kind != 'p' || g_closing || nreq >= MAXREQ) break;
      name = pipe_target(tok[1], &len);
      q = &reqs[nreq]; q->id = nreq; nreq++;
      { int a0 = arrivals(); unclaimed += a0; fprintf(vlog, "s%d,%s,%d ", q->id, tok, a0); }
      in_call = 1; uv_pipe_connect(&q->req, &h.pipe, name, connect_cb); in_call = 0;
      printf("u%d:0 ", q->id);
      break;
    case 'Q':
      if (g_kind != 'p' || g_closing || nreq >= MAXREQ) break;
      {
        static char zname[160];
        unsigned flags = (unsigned) (tok[1] - '0');
        if (tok[2] == 'z') { snprintf(zname, sizeof zname, "%s", missing); len = strlen(zname) + 3; zname[strlen(zname) + 1] = 'a'; name = zname; }
        else name = pipe_target(tok[2], &len);
        q = &reqs[nreq]; q->id = nreq; nreq++;
        { int a0 = arrivals(); unclaimed += a0; fprintf(vlog, "s%d,%s,%d ", q->id, tok, a0); }
        in_call = 1; r = uv_pipe_connect2(&q->req, &h.pipe, name, len, flags, connect_cb); in_call = 0;
        printf("u%d:%d ", q->id, r);
      }
      break;
    case 'W':
      /* only while a connect is pending (the request is queued) or on a stream that has been connected (the
       * write succeeds): a failing write would linger in error state, which is C05's business */
      if (aux_allowed(0) && !g_now && uv_is_writable(&h.stream) && (h.stream.connect_req != NULL || ever_connected) && !in_wcb) {   /* and not from a write callback */
        static char wb = 'w'; uv_buf_t b = uv_buf_init(&wb, 1); uv_write_t* w = malloc(sizeof *w);
        if (uv_write(w, &h.stream, &b, 1, aux_write_cb) == 0) aux_out++; else free(w);
      }
      break;
    case 'H':
      if (aux_allowed(0) && !g_now && uv_is_writable(&h.stream)) {
        uv_shutdown_t* sh = malloc(sizeof *sh);
        g_now = 1;
        if (uv_shutdown(sh, &h.stream, aux_shutdown_cb) == 0) aux_out++; else free(sh);
      }
      break;
    case 't':      /* uv_try_write / uv_try_write2 of one byte, only while a connect is pending */
      if (aux_allowed(0) && h.stream.connect_req != NULL) {
        static char tb = 't'; uv_buf_t b = uv_buf_init(&tb, 1);
        int tr = g_kind == 'p' ? uv_try_write2(&h.stream, &b, 1, NULL) : uv_try_write(&h.stream, &b, 1);
        printf("t%d ", tr);
      }
      break;
    case 'G':
      if (aux_allowed(1)) { g_now = 1; uv_read_start(&h.stream, aux_alloc_cb, aux_read_cb); }
      break;
    case 'C':
      if (!g_closing) { g_closing = 1; fprintf(vlog, "x%d ", arrivals()); uv_close(&h.handle, close_cb); }
      break;
    case 'R':
      if (in_cb) break;
      g_watch_fd = -1;
      if (!g_closing) { uv_os_fd_t fd = -1; if (uv_fileno(&h.handle, &fd) == 0) g_watch_fd = fd; }
      if (g_watch_fd >= 0) { struct pollfd pf; pf.fd = g_watch_fd; pf.events = POLLOUT; pf.revents = 0; poll(&pf, 1, g_slow ? 0 : 1000); }
      saw_event = 0;
      uv_run(&loop, UV_RUN_NOWAIT);
      fprintf(evlog, "%d ", saw_event);
      { int a0 = arrivals(); unclaimed += a0; fprintf(vlog, "r%d ", a0); }
      break;
    default: break;
    }
    printf("q%d ", (int) loop.active_reqs.count - aux_out);   /* connect requests registered with the loop, after every operation */
  }
}

static void drain_listeners(void) { (void) arrivals(); release_conns(); }

static void run_connect_case(char** sec) {
  char* p; char* save; int i;
  nbeh = 0; cbn = 0;
  for (p = sec[2]; p && nbeh < MAXBEH; ) {
    char* bar = strchr(p, '|');
    if (bar) *bar = 0;
    beh[nbeh++] = p;
    p = bar ? bar + 1 : NULL;
  }
  n_s = n_c = n_g = p_s = p_c = p_g = 0;
  { size_t cap = 256; char* t;
    scr_s = malloc(cap * sizeof(char*)); scr_c = malloc(cap * sizeof(char*)); scr_g = malloc(cap * sizeof(char*));
    for (t = strtok_r(sec[3], " \n", &save); t; t = strtok_r(NULL, " \n", &save)) {
      if (t[0] == 's') { if ((size_t) n_s < cap) scr_s[n_s++] = t; }
      else if (t[0] == 'g') { if ((size_t) n_g < cap) scr_g[n_g++] = t; }
      else if ((size_t) n_c < cap) scr_c[n_c++] = t;
    } }
  slog = open_memstream(&slog_b, &slog_n); clog_ = open_memstream(&clog_b, &clog_n);
  glog = open_memstream(&glog_b, &glog_n); evlog = open_memstream(&ev_b, &ev_n);
  vlog = open_memstream(&vlog_b, &vlog_n);
  nreq = 0; g_quiet = 0; g_closing = 0; in_call = 0; g_watch_fd = -1; aux_out = 0; g_now = 0; ever_connected = 0; g_slow = 0; in_wcb = 0;
  uv_loop_init(&loop);
  uv_prepare_init(&loop, &keepalive); uv_prepare_start(&keepalive, prep_cb);
  if (g_kind == 't') uv_tcp_init(&loop, &h.tcp); else uv_pipe_init(&loop, &h.pipe, 0);
  g_active = 1;
  (void) arrivals(); unclaimed = 0;
  do_ops(sec[1], 0);
  fprintf(vlog, "e%d ", arrivals());
  fclose(slog); fclose(clog_); fclose(glog); fclose(evlog); fclose(vlog);
  /* close every handle, let the loop finish: nothing may be left registered */
  g_quiet = 1; g_active = 0;
  uv_walk(&loop, walk_close, NULL);
  for (i = 0; i < 50 && uv_run(&loop, UV_RUN_NOWAIT); i++) ;
  { int alive = uv_loop_alive(&loop); printf("z%d,%d ", alive, uv_loop_close(&loop)); }
  printf("; %s; %s; %s; %s; %s\n", slog_b, clog_b, glog_b, ev_b, vlog_b);
  drain_listeners();
  free(slog_b); free(clog_b); free(glog_b); free(ev_b); free(vlog_b); free(scr_s); free(scr_c); free(scr_g);
}

/* ---------------- send-handle table ---------------- */
static int tcp_pair(int* a, int* b) {
  struct sockaddr_in ad; memset(&ad, 0, sizeof ad);
  ad.sin_family = AF_INET; ad.sin_addr.s_addr = htonl(INADDR_LOOPBACK); ad.sin_port = htons(lport);
  *a = socket(AF_INET, SOCK_STREAM, 0);
  if (*a < 0 || connect(*a, (struct sockaddr*) &ad, sizeof ad) != 0) return -1;
  *b = accept(listener, NULL, NULL);
  return *b < 0 ? -1 : 0;
}
static void wcb(uv_write_t* r, int st) { (void) r; (void) st; }
static void shcb(uv_shutdown_t* r, int st) { (void) r; (void) st; }

static void run_write_case(const char* spec) {
  static union { uv_tcp_t tcp; uv_pipe_t pipe; uv_stream_t stream; uv_handle_t handle; } s;
  static union { uv_tcp_t tcp; uv_pipe_t pipe; uv_udp_t udp; uv_timer_t timer; uv_stream_t stream; uv_handle_t handle; } sh;
  static uv_write_t wr, big; static uv_shutdown_t sd; static char bigbuf[1 << 22];
  char st, sta, hk, api; int a = -1, b = -1, hfd = -1, r, nf = 0, i; uv_buf_t buf; uv_stream_t* shp = NULL; char x = 'x';
  while (*spec == ' ') spec++;
  if (strlen(spec) < 4) { printf("badspec\n"); return; }
  st = spec[0]; sta = spec[1]; hk = spec[2]; api = spec[3];
  wlog = open_memstream(&wlog_b, &wlog_n); w_logged = 0;
  uv_loop_init(&loop);
  uv_prepare_init(&loop, &keepalive); uv_prepare_start(&keepalive, prep_cb);
  if (st == 'T') { uv_tcp_init(&loop, &s.tcp); if (sta != 'n') { tcp_pair(&a, &b); uv_tcp_open(&s.tcp, a); } }
  else {
    uv_pipe_init(&loop, &s.pipe, st == 'I');
    if (sta != 'n') { int p[2]; socketpair(AF_UNIX, SOCK_STREAM, 0, p); a = p[0]; b = p[1]; uv_pipe_open(&s.pipe, a); }
  }
  if (sta == 's') uv_shutdown(&sd, &s.stream, shcb);
  if (sta == 'q') { uv_buf_t bb = uv_buf_init(bigbuf, sizeof bigbuf); uv_write(&big, &s.stream, &bb, 1, wcb); }
  switch (hk) {
  case 't': case 'T': case 'c':
    uv_tcp_init(&loop, &sh.tcp);
    if (hk != 'T') { hfd = socket(AF_INET, SOCK_STREAM, 0); uv_tcp_open(&sh.tcp, hfd); }
    if (hk == 'c') uv_close(&sh.handle, NULL);
    shp = &sh.stream; break;
  case 'u': case 'U':
    uv_udp_init(&loop, &sh.udp);
    if (hk == 'u') { hfd = socket(AF_INET, SOCK_DGRAM, 0); uv_udp_open(&sh.udp, hfd); }
    shp = &sh.stream; break;
  case 'p':
    uv_pipe_init(&loop, &sh.pipe, 0);
    { int p[2]; socketpair(AF_UNIX, SOCK_STREAM, 0, p); hfd = p[0]; close(p[1]); uv_pipe_open(&sh.pipe, hfd); }
    shp = &sh.stream; break;
  case 'm':
    uv_timer_init(&loop, &sh.timer); shp = &sh.stream; break;
  default: shp = NULL; break;
  }
  buf = uv_buf_init(&x, 1);
  w_fd = a;
  if (api == '2') r = uv_write2(&wr, &s.stream, &buf, 1, shp, wcb);
  else r = uv_try_write2(&s.stream, &buf, 1, shp);
  uv_run(&loop, UV_RUN_NOWAIT);
  w_fd = -1;
  /* what reached the peer */
  if (b >= 0) {
    fcntl(b, F_SETFL, fcntl(b, F_GETFL) | O_NONBLOCK);
    for (;;) {
      char data[65536]; char ctl[CMSG_SPACE(64 * sizeof(int))]; struct msghdr m; struct iovec iov; struct cmsghdr* c; ssize_t n;
      memset(&m, 0, sizeof m); iov.iov_base = data; iov.iov_len = sizeof data; m.msg_iov = &iov; m.msg_iovlen = 1;
      m.msg_control = ctl; m.msg_controllen = sizeof ctl;
      n = recvmsg(b, &m, 0);
      if (n <= 0) break;
      for (c = CMSG_FIRSTHDR(&m); c; c = CMSG_NXTHDR(&m, c))
        if (c->cmsg_level == SOL_SOCKET && c->cmsg_type == SCM_RIGHTS) {
          int k, cnt = (int) ((c->cmsg_len - CMSG_LEN(0)) / sizeof(int));
          for (k = 0; k < cnt; k++) { int f; memcpy(&f, CMSG_DATA(c) + k * sizeof(int), sizeof f); close(f); nf++; }
        }
      if (sta != 'q') break;
    }
  }
  fclose(wlog);
  printf("w%d f%d ; %s\n", r, nf, wlog_b);
  free(wlog_b);
  if (b >= 0) abort_close(b);
  uv_walk(&loop, walk_close, NULL);
  for (i = 0; i < 50 && uv_run(&loop, UV_RUN_NOWAIT); i++) ;
  uv_loop_close(&loop);
  drain_listeners();
}

static void on_alarm(int sig) { (void) sig; printf(" HANG\n"); fflush(stdout); _exit(3); }

int main(int argc, char** argv) {
  char* line = NULL; size_t cap = 0; struct sockaddr_in a; socklen_t al = sizeof a; struct sockaddr_un ua; int f;
  g_dir = argc > 1 ? argv[1] : "/tmp";
  signal(SIGPIPE, SIG_IGN); signal(SIGALRM, on_alarm);
  listener = socket(AF_INET, SOCK_STREAM | SOCK_NONBLOCK, 0);
  memset(&a, 0, sizeof a); a.sin_family = AF_INET; a.sin_addr.s_addr = htonl(INADDR_LOOPBACK);
  if (bind(listener, (struct sockaddr*) &a, sizeof a) || listen(listener, 128) ||
      getsockname(listener, (struct sockaddr*) &a, &al)) { fprintf(stderr, "no loopback\n"); return 2; }
  lport = ntohs(a.sin_port);
  { int cs = socket(AF_INET, SOCK_STREAM, 0); struct sockaddr_in b; socklen_t bl = sizeof b;
    memset(&b, 0, sizeof b); b.sin_family = AF_INET; b.sin_addr.s_addr = htonl(INADDR_LOOPBACK);
    if (bind(cs, (struct sockaddr*) &b, sizeof b) || getsockname(cs, (struct sockaddr*) &b, &bl)) { fprintf(stderr, "no loopback\n"); return 2; }
    cport = ntohs(b.sin_port); }
  snprintf(upath, sizeof upath, "%s/cl%d", g_dir, (int) getpid());
  snprintf(missing, sizeof missing, "%s/missing%d", g_dir, (int) getpid());
  snprintf(regfile, sizeof regfile, "%s/file%d", g_dir, (int) getpid());
  snprintf(overlong, sizeof overlong, "%s/", g_dir);
  memset(overlong + strlen(overlong), 'x', 300);
  if (strlen(upath) >= sizeof ua.sun_path) { fprintf(stderr, "scratch path too long\n"); return 2; }
  f = open(regfile, O_CREAT | O_WRONLY, 0600); if (f >= 0) close(f);
  ulistener = socket(AF_UNIX, SOCK_STREAM | SOCK_NONBLOCK, 0);
  memset(&ua, 0, sizeof ua); ua.sun_family = AF_UNIX; strcpy(ua.sun_path, upath);
  unlink(upath);
  if (bind(ulistener, (struct sockaddr*) &ua, sizeof ua) || listen(ulistener, 128)) { fprintf(stderr, "no unix listener\n"); return 2; }
  /* a TCP listener with backlog 0 whose accept queue the harness fills and never drains: further SYNs are
   * dropped (and retransmitted after about a second), so a connect to it stays in progress */
  { int hl = socket(AF_INET, SOCK_STREAM, 0); struct sockaddr_in b; socklen_t bl = sizeof b; int k;
    memset(&b, 0, sizeof b); b.sin_family = AF_INET; b.sin_addr.s_addr = htonl(INADDR_LOOPBACK);
    if (bind(hl, (struct sockaddr*) &b, sizeof b) || listen(hl, 0) || getsockname(hl, (struct sockaddr*) &b, &bl)) { fprintf(stderr, "no loopback\n"); return 2; }
    hport = ntohs(b.sin_port);
    for (k = 0; k < 3; k++) { int c = socket(AF_INET, SOCK_STREAM | SOCK_NONBLOCK, 0); connect(c, (struct sockaddr*) &b, sizeof b); }
    usleep(20000);
  }
  /* a listening unix socket whose backlog is and stays full: further connects get EAGAIN */
  snprintf(fpath, sizeof fpath, "%s/full%d", g_dir, (int) getpid());
  unlink(fpath);
  flistener = socket(AF_UNIX, SOCK_STREAM, 0);
  memset(&ua, 0, sizeof ua); ua.sun_family = AF_UNIX; strcpy(ua.sun_path, fpath);
  if (bind(flistener, (struct sockaddr*) &ua, sizeof ua) || listen(flistener, 1)) { fprintf(stderr, "no unix listener\n"); return 2; }
  { int k; for (k = 0; k < 16; k++) { int c = socket(AF_UNIX, SOCK_STREAM | SOCK_NONBLOCK, 0);
      if (connect(c, (struct sockaddr*) &ua, sizeof ua) != 0) { close(c); break; } } }
  while (getline(&line, &cap, stdin) > 0) {
    char* sec[4]; int nsec = 0; char* p = line; size_t n = strlen(line);
    if (n && line[n - 1] == '\n') line[n - 1] = 0;
    alarm(30);
    sec[nsec++] = p;
    while (nsec < 4 && (p = strchr(p, ';')) != NULL) { *p++ = 0; sec[nsec++] = p; }
    g_kind = 0;
    for (p = sec[0]; *p; p++) if (*p == 't' || *p == 'p' || *p == 'w') g_kind = *p;
    if (g_kind == 'w' && nsec >= 2) run_write_case(sec[1]);
    else if (g_kind && nsec == 4) run_connect_case(sec);
    else printf("badcase\n");
    fflush(stdout);
  }
  unlink(upath); unlink(regfile); unlink(fpath);
  return 0;
}
