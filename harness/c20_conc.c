/* C20 (g): MONITOR-ONLY test under real concurrency (no model, no scheduler control): the
 * primitives of the freshly built libuv are used by really contending threads and the
 * property's own invariants are counted.  Every rendezvous has a watchdog on
 * uv_cond_timedwait; it only ever expires when the property is violated (a healthy run never
 * waits for the clock), so the result does not depend on timing.
 * Output: one line "name=value ..." compared with the expected constants in checks/c20.py. */
#include <stdio.h>
#include <stdlib.h>
#include <string.h>
#include <stdint.h>
#include <unistd.h>
#include <sys/syscall.h>
#include "uv.h"

#define WATCHDOG_NS ((uint64_t) 4000 * 1000 * 1000)

/* ---- a gate: wait until a counter reaches a target, or the watchdog expires ---- */
static uv_mutex_t gm; static uv_cond_t gc;
static int gate_failed, any_failed;
static int gate_wait_ns(volatile int* counter, int target, uint64_t limit);
static int gate_wait(volatile int* counter, int target) { return gate_wait_ns(counter, target, WATCHDOG_NS); }
/* for threads that stay inside a section until told to leave: outlast the prober's watchdog */
static int gate_hold(volatile int* counter, int target) { return gate_wait_ns(counter, target, 3 * WATCHDOG_NS); }
static int gate_wait_ns(volatile int* counter, int target, uint64_t WATCHDOG) {   /* gm held */
  uint64_t t0 = uv_hrtime();
  while (*counter < target && (!gate_failed || WATCHDOG != WATCHDOG_NS)) {
    uint64_t now = uv_hrtime();
    if (now - t0 >= WATCHDOG) { gate_failed = 1; any_failed = 1; uv_cond_broadcast(&gc); break; }
    uv_cond_timedwait(&gc, &gm, WATCHDOG - (now - t0));
  }
  return *counter >= target;
}

/* ---- rwlock: 4 readers meet inside the read section ---- */
#define NR 4
static uv_rwlock_t rw;
static volatile int rd_inside, rd_max, rd_met, rd_release, rd_trywr = 99, rd_tryrd = 99;
static void reader(void* arg) {
  (void) arg;
  uv_rwlock_rdlock(&rw);
  uv_mutex_lock(&gm);
  rd_inside++;
  if (rd_inside > rd_max) rd_max = rd_inside;
  if (rd_inside == NR) rd_met = 1;           /* all readers inside at the same time */
  uv_cond_broadcast(&gc);
  gate_wait(&rd_met, 1);
  gate_hold(&rd_release, 1);                 /* stay inside until main has probed */
  rd_inside--;
  uv_mutex_unlock(&gm);
  uv_rwlock_rdunlock(&rw);
}
static volatile int wr_inside, wr_saw_reader, wr_tryrd = 99;
static void writer(void* arg) {
  (void) arg;
  uv_rwlock_wrlock(&rw);
  uv_mutex_lock(&gm);
  wr_inside = 1;
  uv_cond_broadcast(&gc);
  gate_wait(&rd_release, 2);
  wr_inside = 0;
  uv_mutex_unlock(&gm);
  uv_rwlock_wrunlock(&rw);
}
static void rwlock_test(void) {
  uv_thread_t th[NR], w; int i, ok;
  uv_rwlock_init(&rw);
  for (i = 0; i < NR; i++) uv_thread_create(&th[i], reader, NULL);
  uv_mutex_lock(&gm);
  ok = gate_wait(&rd_met, 1);
  uv_mutex_unlock(&gm);
  if (ok) {
    rd_trywr = uv_rwlock_trywrlock(&rw);     /* writer excluded while readers are inside */
    if (rd_trywr == 0) uv_rwlock_wrunlock(&rw);
    rd_tryrd = uv_rwlock_tryrdlock(&rw);     /* one more reader is admitted */
    if (rd_tryrd == 0) uv_rwlock_rdunlock(&rw);
  }
  uv_mutex_lock(&gm); rd_release = 1; uv_cond_broadcast(&gc); uv_mutex_unlock(&gm);
  for (i = 0; i < NR; i++) uv_thread_join(&th[i]);
  /* a writer inside excludes readers */
  uv_thread_create(&w, writer, NULL);
  uv_mutex_lock(&gm);
  ok = gate_wait(&wr_inside, 1);
  uv_mutex_unlock(&gm);
  if (ok) { wr_tryrd = uv_rwlock_tryrdlock(&rw); if (wr_tryrd == 0) uv_rwlock_rdunlock(&rw); }
  uv_mutex_lock(&gm); rd_release = 2; uv_cond_broadcast(&gc); uv_mutex_unlock(&gm);
  uv_thread_join(&w);
  printf("readers_inside_at_once=%d trywr_with_readers=%d tryrd_with_readers=%d tryrd_with_writer=%d ",
         rd_max, rd_trywr, rd_tryrd, wr_tryrd);
}

/* ---- rwlock with a writer queued: readers are still admitted ----
 * R1 inside; W blocks in uv_rwlock_wrlock (we wait until the kernel reports it asleep);
 * then uv_rwlock_tryrdlock (R2) must succeed and a blocking uv_rwlock_rdlock (R3) must get in
 * while R1 is still inside; then all readers leave and W gets in alone. */
static uv_rwlock_t qrw;
static volatile int q_r1_in, q_release, q_w_tid, q_w_in, q_w_alone = -1, q_r3_in, q_readers;
static void q_reader1(void* arg) {
  (void) arg;
  uv_rwlock_rdlock(&qrw);
  uv_mutex_lock(&gm); q_readers++; q_r1_in = 1; uv_cond_broadcast(&gc);
  gate_hold(&q_release, 1);
  q_readers--; uv_mutex_unlock(&gm);
  uv_rwlock_rdunlock(&qrw);
}
static void q_writer(void* arg) {
  (void) arg;
  __atomic_store_n(&q_w_tid, (int) syscall(SYS_gettid), __ATOMIC_SEQ_CST);
  uv_rwlock_wrlock(&qrw);
  uv_mutex_lock(&gm); q_w_alone = (q_readers == 0); q_w_in = 1; uv_cond_broadcast(&gc); uv_mutex_unlock(&gm);
  uv_rwlock_wrunlock(&qrw);
}
static void q_reader3(void* arg) {
  (void) arg;
  uv_rwlock_rdlock(&qrw);
  uv_mutex_lock(&gm); q_readers++; q_r3_in = 1; uv_cond_broadcast(&gc);
  gate_hold(&q_release, 1);
  q_readers--; uv_mutex_unlock(&gm);
  uv_rwlock_rdunlock(&qrw);
}
/* 1 when /proc says the thread sleeps in the kernel (state S), 0 not yet, -1 unreadable */
static int thread_asleep(int tid) {
  char path[64], buf[512]; FILE* f; char* p;
  snprintf(path, sizeof path, "/proc/self/task/%d/stat", tid);
  f = fopen(path, "r");
  if (!f) return -1;
  if (!fgets(buf, sizeof buf, f)) { fclose(f); return -1; }
  fclose(f);
  p = strrchr(buf, ')');
  if (!p || p[1] != ' ') return -1;
  return p[2] == 'S';
}
static void rwlock_queued_writer_test(void) {
  uv_thread_t r1, w, r3; int tryrd = 99, asleep = 0, r3_joined, r1_still; uint64_t t0;
  uv_rwlock_init(&qrw);
  uv_thread_create(&r1, q_reader1, NULL);
  uv_mutex_lock(&gm); gate_wait(&q_r1_in, 1); uv_mutex_unlock(&gm);
  uv_thread_create(&w, q_writer, NULL);
  t0 = uv_hrtime();
  while (uv_hrtime() - t0 < WATCHDOG_NS) {           /* until W is blocked inside uv_rwlock_wrlock */
    int tid = __atomic_load_n(&q_w_tid, __ATOMIC_SEQ_CST);
    int st = tid ? thread_asleep(tid) : 0;
    if (st == 1) { asleep = 1; break; }
    if (st < 0) { uv_sleep(50); asleep = 2; break; }  /* /proc unreadable: give it 50 ms instead */
    uv_sleep(1);
  }
  tryrd = uv_rwlock_tryrdlock(&qrw);                  /* R2 */
  uv_thread_create(&r3, q_reader3, NULL);              /* R3: blocking read lock */
  uv_mutex_lock(&gm);
  r3_joined = gate_wait(&q_r3_in, 1);
  r1_still = q_r1_in && q_readers >= (r3_joined ? 2 : 1) && !q_w_in;
  q_release = 1; uv_cond_broadcast(&gc);
  uv_mutex_unlock(&gm);
  if (tryrd == 0) uv_rwlock_rdunlock(&qrw);
  uv_thread_join(&r1); uv_thread_join(&r3); uv_thread_join(&w);
  printf("writer_queued_asleep=%d tryrd_with_writer_queued=%d rdlock_joins_reader_with_writer_queued=%d,%d "
         "queued_writer_got_in_alone=%d ", asleep ? 1 : 0, tryrd, r3_joined, r1_still, q_w_alone);
  uv_rwlock_destroy(&qrw);
}

/* ---- mutex: N threads never overlap ---- */
#define NM 8
#define ITER 20000
static uv_mutex_t mx; static volatile int mx_inside, mx_overlap; static volatile long mx_total;
static void locker(void* arg) {
  int i; (void) arg;
  for (i = 0; i < ITER; i++) {
    if ((i & 7) == 7) { if (uv_mutex_trylock(&mx) != 0) continue; }
    else uv_mutex_lock(&mx);
    if (mx_inside != 0) mx_overlap++;
    mx_inside = 1;
    mx_total++;
    mx_inside = 0;
    uv_mutex_unlock(&mx);
  }
}
/* ---- mutex types: a plain uv_mutex_t does not nest, a uv_mutex_init_recursive one does ----
 * (never uv_mutex_lock twice on a plain mutex: that deadlocks or aborts by contract) */
static uv_mutex_t* other_m; static int other_r;
static void other_trylock(void* arg) {
  (void) arg;
  other_r = uv_mutex_trylock(other_m);
  if (other_r == 0) uv_mutex_unlock(other_m);
}
static int trylock_from_other_thread(uv_mutex_t* m) {
  uv_thread_t t;
  other_m = m; other_r = 99;
  if (uv_thread_create(&t, other_trylock, NULL)) return 98;
  uv_thread_join(&t);
  return other_r;
}
static void mutex_type_test(void) {
  uv_mutex_t p, r; int same, o1, o2, n1, n2, x1, x2, x3;
  uv_mutex_init(&p);
  uv_mutex_lock(&p);
  same = uv_mutex_trylock(&p);                 /* held by this very thread: UV_EBUSY, no nesting */
  if (same == 0) uv_mutex_unlock(&p);
  o1 = trylock_from_other_thread(&p);          /* held: UV_EBUSY */
  uv_mutex_unlock(&p);
  o2 = trylock_from_other_thread(&p);          /* free after ONE unlock: 0 */
  uv_mutex_destroy(&p);
  uv_mutex_init_recursive(&r);
  uv_mutex_lock(&r);
  n1 = uv_mutex_trylock(&r);                   /* nests */
  uv_mutex_lock(&r);                           /* nests again: depth 3 */
  x1 = trylock_from_other_thread(&r);          /* UV_EBUSY */
  uv_mutex_unlock(&r); uv_mutex_unlock(&r);
  x2 = trylock_from_other_thread(&r);          /* still held once: UV_EBUSY */
  uv_mutex_unlock(&r);
  x3 = trylock_from_other_thread(&r);          /* as many unlocks as locks: free */
  n2 = uv_mutex_trylock(&r); if (n2 == 0) uv_mutex_unlock(&r);
  uv_mutex_destroy(&r);
  printf("plain_trylock_same_thread=%d plain_trylock_other_thread=%d,%d recursive_trylock_same_thread=%d,%d "
         "recursive_trylock_other_thread=%d,%d,%d ", same, o1, o2, n1, n2, x1, x2, x3);
}

static void mutex_test(void) {
  uv_thread_t th[NM]; int i, held_try;
  uv_mutex_init(&mx);
  uv_mutex_lock(&mx); held_try = uv_mutex_trylock(&mx); uv_mutex_unlock(&mx);
  if (held_try == 0) uv_mutex_unlock(&mx);      /* it nested (it must not): undo, or the lockers below hang */
  for (i = 0; i < NM; i++) uv_thread_create(&th[i], locker, NULL);
  for (i = 0; i < NM; i++) uv_thread_join(&th[i]);
  printf("mutex_overlaps=%d trylock_held=%d ", mx_overlap, held_try);
  {
    uv_mutex_t r; int a, b;
    uv_mutex_init_recursive(&r);
    uv_mutex_lock(&r); a = uv_mutex_trylock(&r); uv_mutex_lock(&r);
    uv_mutex_unlock(&r); uv_mutex_unlock(&r); uv_mutex_unlock(&r);
    b = uv_mutex_trylock(&r); if (b == 0) uv_mutex_unlock(&r);
    printf("recursive_nests=%d,%d ", a, b);
  }
}

/* ---- semaphore: initial value k admits exactly k ---- */
#define NS_ 6
#define KS 3
static uv_sem_t sm; static volatile int sm_passed;
static void sem_waiter(void* arg) {
  (void) arg;
  uv_sem_wait(&sm);
  uv_mutex_lock(&gm); sm_passed++; uv_cond_broadcast(&gc); uv_mutex_unlock(&gm);
}
static void sem_test(void) {
  uv_thread_t th[NS_]; int i, at_k, try_at_zero, after;
  uv_sem_init(&sm, KS);
  for (i = 0; i < NS_; i++) uv_thread_create(&th[i], sem_waiter, NULL);
  uv_mutex_lock(&gm); gate_wait(&sm_passed, KS); uv_mutex_unlock(&gm);
  for (i = 0; i < 200; i++) uv_thread_getcpu();     /* give a wrongly admitted waiter a chance to show */
  try_at_zero = uv_sem_trywait(&sm);
  uv_mutex_lock(&gm); at_k = sm_passed; uv_mutex_unlock(&gm);
  for (i = 0; i < NS_ - KS; i++) uv_sem_post(&sm);
  for (i = 0; i < NS_; i++) uv_thread_join(&th[i]);
  after = sm_passed;
  printf("sem_passed_before_posts=%d trywait_at_zero=%d sem_passed_after_posts=%d ", at_k, try_at_zero, after);
  uv_sem_destroy(&sm);
}

/* ---- once: racing callers, one run ---- */
#define GUARDS 200
static uv_once_t guards[GUARDS]; static volatile int once_runs_[GUARDS]; static int once_cur;
static uv_barrier_t once_bar;
static void once_fn0(void) { once_runs_[once_cur]++; }
static void once_racer(void* arg) {
  int g; (void) arg;
  for (g = 0; g < GUARDS; g++) {
    if (uv_barrier_wait(&once_bar)) once_cur = g;       /* exactly one thread selects the guard */
    uv_barrier_wait(&once_bar);
    uv_once(&guards[g], once_fn0);
    uv_barrier_wait(&once_bar);
  }
}
#define NO 8
/* ---- once: nobody returns from uv_once while the init function is still running ----
 * 8 threads race on a fresh guard; the init function waits until all of them have arrived at
 * their uv_once call (counted just before the call), lingers 30 ms, and sets a flag at its
 * very end; every thread must find the flag set when its uv_once returns. */
#define SLOW_GUARDS 3
static uv_once_t slow_guards[SLOW_GUARDS];
static int slow_cur;
static volatile int slow_arrived, slow_done[SLOW_GUARDS], slow_runs[SLOW_GUARDS], slow_early;
static uv_barrier_t slow_bar;
static void slow_init_fn(void) {
  uint64_t t0 = uv_hrtime();
  __atomic_add_fetch(&slow_runs[slow_cur], 1, __ATOMIC_SEQ_CST);
  while (__atomic_load_n(&slow_arrived, __ATOMIC_SEQ_CST) < NO && uv_hrtime() - t0 < WATCHDOG_NS) uv_sleep(1);
  uv_sleep(30);
  __atomic_store_n(&slow_done[slow_cur], 1, __ATOMIC_SEQ_CST);
}
static void slow_racer(void* arg) {
  int g; (void) arg;
  for (g = 0; g < SLOW_GUARDS; g++) {
    if (uv_barrier_wait(&slow_bar)) { slow_cur = g; slow_arrived = 0; }
    uv_barrier_wait(&slow_bar);
    __atomic_add_fetch(&slow_arrived, 1, __ATOMIC_SEQ_CST);
    uv_once(&slow_guards[g], slow_init_fn);
    if (!__atomic_load_n(&slow_done[g], __ATOMIC_SEQ_CST)) __atomic_add_fetch(&slow_early, 1, __ATOMIC_SEQ_CST);
    uv_barrier_wait(&slow_bar);
  }
}
static void once_slow_test(void) {
  uv_thread_t th[NO]; int i, bad = 0; uv_once_t init = UV_ONCE_INIT;
  for (i = 0; i < SLOW_GUARDS; i++) slow_guards[i] = init;
  uv_barrier_init(&slow_bar, NO);
  for (i = 0; i < NO; i++) uv_thread_create(&th[i], slow_racer, NULL);
  for (i = 0; i < NO; i++) uv_thread_join(&th[i]);
  for (i = 0; i < SLOW_GUARDS; i++) if (slow_runs[i] != 1) bad++;
  uv_barrier_destroy(&slow_bar);
  printf("once_returned_while_init_running=%d once_slow_guards_not_run_exactly_once=%d ", slow_early, bad);
}

static void once_test(void) {
  uv_thread_t th[NO]; int i, bad = 0; uv_once_t init = UV_ONCE_INIT;
  for (i = 0; i < GUARDS; i++) guards[i] = init;
  uv_barrier_init(&once_bar, NO);
  for (i = 0; i < NO; i++) uv_thread_create(&th[i], once_racer, NULL);
  for (i = 0; i < NO; i++) uv_thread_join(&th[i]);
  for (i = 0; i < GUARDS; i++) if (once_runs_[i] != 1) bad++;
  uv_barrier_destroy(&once_bar);
  printf("once_guards_not_run_exactly_once=%d ", bad);
}

/* ---- barrier (the one selected on this platform): rounds, one serial thread per round ---- */
#define NB 4
#define ROUNDS 300
static uv_barrier_t bar; static volatile int bar_arrived, bar_early; static volatile int bar_serial[ROUNDS];
static void bar_thread(void* arg) {
  int r; (void) arg;
  for (r = 0; r < ROUNDS; r++) {
    int v;
    __atomic_add_fetch(&bar_arrived, 1, __ATOMIC_SEQ_CST);
    v = uv_barrier_wait(&bar);
    if (__atomic_load_n(&bar_arrived, __ATOMIC_SEQ_CST) < (r + 1) * NB) __atomic_add_fetch(&bar_early, 1, __ATOMIC_SEQ_CST);
    if (v) __atomic_add_fetch(&bar_serial[r], 1, __ATOMIC_SEQ_CST);
  }
}
static void barrier_test(void) {
  uv_thread_t th[NB]; int i, bad = 0;
  uv_barrier_init(&bar, NB);
  for (i = 0; i < NB; i++) uv_thread_create(&th[i], bar_thread, NULL);
  for (i = 0; i < NB; i++) uv_thread_join(&th[i]);
  for (i = 0; i < ROUNDS; i++) if (bar_serial[i] != 1) bad++;
  uv_barrier_destroy(&bar);
  printf("barrier_early_leavers=%d barrier_rounds_without_exactly_one_nonzero=%d ", bar_early, bad);
}

/* ---- keys are per thread; join returns after the entry finished; cond hands the mutex back ---- */
#define NK 4
static uv_key_t key; static volatile int key_bad; static uv_barrier_t key_bar; static volatile int finished[NK];
static void key_thread(void* arg) {
  intptr_t id = (intptr_t) arg;
  if (uv_key_get(&key) != NULL) key_bad++;
  uv_key_set(&key, (void*) (id + 100));
  uv_barrier_wait(&key_bar);
  if (uv_key_get(&key) != (void*) (id + 100)) key_bad++;
  uv_barrier_wait(&key_bar);
  finished[id] = 1;
}
static void key_join_test(void) {
  uv_thread_t th[NK]; intptr_t i; int join_early = 0;
  uv_key_create(&key);
  uv_key_set(&key, (void*) 7);
  uv_barrier_init(&key_bar, NK);
  for (i = 0; i < NK; i++) uv_thread_create(&th[i], key_thread, (void*) i);
  for (i = 0; i < NK; i++) { uv_thread_join(&th[i]); if (!finished[i]) join_early++; }
  if (uv_key_get(&key) != (void*) 7) key_bad++;
  uv_key_delete(&key); uv_barrier_destroy(&key_bar);
  printf("key_values_not_private=%d join_before_entry_finished=%d ", key_bad, join_early);
}

static uv_mutex_t cm; static uv_cond_t cc; static volatile int c_flag, c_waiting, c_relock = 99, c_woken;
static void cond_waiter(void* arg) {
  (void) arg;
  uv_mutex_lock(&cm);
  c_waiting = 1;
  uv_mutex_lock(&gm); uv_cond_broadcast(&gc); uv_mutex_unlock(&gm);
  while (!c_flag) uv_cond_wait(&cc, &cm);
  c_relock = uv_mutex_trylock(&cm);          /* the mutex is held again: a second lock attempt fails */
  if (c_relock == 0) uv_mutex_unlock(&cm);   /* it nested (it must not): undo */
  c_woken = 1;
  uv_mutex_unlock(&cm);
}
static void cond_test(int bcast) {
  uv_thread_t t;
  uv_mutex_init(&cm); uv_cond_init(&cc); c_flag = c_waiting = c_woken = 0; c_relock = 99;
  uv_thread_create(&t, cond_waiter, NULL);
  uv_mutex_lock(&gm); gate_wait(&c_waiting, 1); uv_mutex_unlock(&gm);
  uv_mutex_lock(&cm); c_flag = 1; if (bcast) uv_cond_broadcast(&cc); else uv_cond_signal(&cc); uv_mutex_unlock(&cm);
  uv_thread_join(&t);
  printf("%s_woken=%d,relock=%d ", bcast ? "broadcast" : "signal", c_woken, c_relock);
}

int main(void) {
  uv_mutex_init(&gm); uv_cond_init(&gc);
  rwlock_test(); gate_failed = 0;
  rwlock_queued_writer_test(); gate_failed = 0;
  mutex_type_test();
  mutex_test();
  sem_test(); gate_failed = 0;
  once_test();
  once_slow_test();
  barrier_test();
  key_join_test();
  cond_test(0); gate_failed = 0;
  cond_test(1);
  printf("watchdog_expired=%d\n", any_failed);
  return 0;
}
