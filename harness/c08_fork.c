/* C08 fork: does the pool of a forked child start from a clean state?
 *   case: "<nthreads> <k>"   parent: pool of nthreads, k slow-I/O requests whose work function
 *         blocks (submitted through uv__work_submit with UV__WORK_SLOW_IO and a blocking stub;
 *         threadpool.c is included textually); when min(k, cap) of them run, fork().
 *   child: fresh loop, one slow request (stub work, UV__WORK_SLOW_IO) and one uv_queue_work;
 *         runs the loop until both completed, or until the pool is provably stuck: slow request
 *         still in slow_io_pending_wq, slow_io_work_running >= cap, and no thread of THIS process
 *         executes slow work (none was started since the fork) - a structural verdict, the 200 ms
 *         polling interval only decides when it is looked at.
 *   output: "slow=<0|1> cpu=<0|1> v<0|2> inherited=<slow_io_work_running,idle_threads seen by the child>" */
#define _GNU_SOURCE
#include "threadpool.c"
#include <stdio.h>
#include <string.h>
#include <signal.h>
#include <unistd.h>
#include <sys/wait.h>

static uv_sem_t p_started, p_go;
static int c_slow_started, c_slow_done, c_cpu_done;

static void p_block(struct uv__work* w) { uv_sem_post(&p_started); uv_sem_wait(&p_go); }
static void p_done(struct uv__work* w, int status) { uv__req_unregister(w->loop); }
static void c_slow_work(struct uv__work* w) { c_slow_started = 1; }
static void c_slow_donecb(struct uv__work* w, int status) { uv__req_unregister(w->loop); c_slow_done = 1; }
static void c_cpu_work(uv_work_t* r) { }
static void c_cpu_after(uv_work_t* r, int st) { c_cpu_done = 1; }

static void child(void) {
  static uv_loop_t cl; static struct uv__work sw; static uv_work_t cw;
  unsigned inh_slow = slow_io_work_running, inh_idle = idle_threads;
  int stuck = 0, i;
  alarm(30);
  if (uv_loop_init(&cl)) { printf("initfail\n"); return; }
  uv__req_register(&cl);
  uv__work_submit(&cl, &sw, UV__WORK_SLOW_IO, c_slow_work, c_slow_donecb);
  if (uv_queue_work(&cl, &cw, c_cpu_work, c_cpu_after)) { printf("initfail\n"); return; }
  for (i = 0; !(c_slow_done && c_cpu_done); i++) {
    uv_run(&cl, UV_RUN_NOWAIT);
    if (c_slow_done && c_cpu_done) break;
    usleep(i < 50 ? 2000 : 200000);
    if (i >= 50 && c_cpu_done && !c_slow_started) {
      int pending;
      uv_mutex_lock(&mutex);
      pending = !uv__queue_empty(&slow_io_pending_wq) && slow_io_work_running >= slow_work_thread_threshold();
      uv_mutex_unlock(&mutex);
      if (pending) { stuck = 1; break; }   /* nobody of this process runs slow work: the counter never drops */
    }
  }
  printf("slow=%d cpu=%d v%d inherited=%u,%u\n", c_slow_done, c_cpu_done, stuck ? 2 : 0, inh_slow, inh_idle);
}

int main(void) {
  static char line[256];
  while (fgets(line, sizeof line, stdin)) {
    int n, k; pid_t outer; int st;
    if (sscanf(line, "%d %d", &n, &k) != 2 || n < 1 || n > 8 || k < 0 || k > 8) { printf("bad\n"); continue; }
    fflush(stdout);
    outer = fork();                     /* the pool is process-global: one process per case */
    if (outer == 0) {
      static uv_loop_t pl; static struct uv__work pw[8];
      char num[8]; int i, run; pid_t pid;
      alarm(60);
      snprintf(num, sizeof num, "%d", n);
      setenv("UV_THREADPOOL_SIZE", num, 1);
      if (uv_loop_init(&pl) || uv_sem_init(&p_started, 0) || uv_sem_init(&p_go, 0)) { printf("initfail\n"); _exit(0); }
      for (i = 0; i < k; i++) { uv__req_register(&pl); uv__work_submit(&pl, &pw[i], UV__WORK_SLOW_IO, p_block, p_done); }
      /* as many as the library's own cap lets run (the cap itself is compared elsewhere) */
      run = k < (int) slow_work_thread_threshold() ? k : (int) slow_work_thread_threshold();
      for (i = 0; i < run; i++) uv_sem_wait(&p_started);
      fflush(stdout);
      pid = fork();
      if (pid == 0) { child(); fflush(stdout); _exit(0); }
      for (i = 0; i < k; i++) uv_sem_post(&p_go);
      waitpid(pid, &st, 0);
      if (WIFSIGNALED(st)) printf("%s\n", WTERMSIG(st) == SIGALRM ? "hang" : "crash");
      fflush(stdout);
      _exit(0);                         /* the parent's own requests are of no interest */
    }
    if (outer < 0 || waitpid(outer, &st, 0) < 0) { printf("forkfail\n"); continue; }
    if (WIFSIGNALED(st)) printf("%s\n", WTERMSIG(st) == SIGALRM ? "hang" : "crash");
  }
  return 0;
}
