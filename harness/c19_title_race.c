/* C19 supplement: uv_get_process_title() racing with uv_set_process_title() on another thread.
 * The property's size/termination clauses must also hold when the title changes concurrently
 * (the getter copies under the same mutex the setter holds).  A monitor-only stress: prints
 * "ok <calls>" or "OVERFLOW ..." / "UNTERMINATED ...".  argv must be padded by the caller so that
 * long titles fit.  usage: c19_title_race <iterations> <padding...> */
#include <stdio.h>
#include <stdlib.h>
#include <string.h>
#include "uv.h"

static volatile int stop;
static char longt[201];

static void setter(void* arg) {
  (void) arg;
  while (!stop) {
    uv_set_process_title("a");
    uv_set_process_title(longt);
  }
}

int main(int argc, char** argv) {
  uv_thread_t th;
  unsigned char buf[512];
  long it, n = argc > 1 ? atol(argv[1]) : 200000;
  size_t size;
  argv = uv_setup_args(argc, argv);
  memset(longt, 'L', 200); longt[200] = 0;
  if (uv_set_process_title(longt) != 0) { printf("SKIP cannot set title\n"); return 0; }
  uv_thread_create(&th, setter, NULL);
  for (it = 0; it < n; it++) {
    size_t i;
    int r;
    size = 1 + (size_t) (it % 24);
    memset(buf, 0xAA, sizeof buf);
    r = uv_get_process_title((char*) buf, size);
    for (i = size; i < sizeof buf; i++)
      if (buf[i] != 0xAA) {
        printf("OVERFLOW uv_get_process_title(buf, %zu) returned %d and wrote at index %zu\n", size, r, i);
        stop = 1; uv_thread_join(&th); return 0;
      }
    if (r == 0 && memchr(buf, 0, size) == NULL) {
      printf("UNTERMINATED uv_get_process_title(buf, %zu) returned 0 without a NUL inside the buffer\n", size);
      stop = 1; uv_thread_join(&th); return 0;
    }
    if (r != 0 && r != UV_ENOBUFS) {
      printf("BADCODE uv_get_process_title(buf, %zu) returned %d\n", size, r);
      stop = 1; uv_thread_join(&th); return 0;
    }
  }
  stop = 1; uv_thread_join(&th);
  printf("ok %ld\n", n);
  return 0;
}
