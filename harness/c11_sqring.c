/* C11 (e): the "is there room in the submission ring" decision of uv__iou_get_sqe
 * (src/unix/linux.c), called directly on a fake 64-entry ring with scripted head/tail.
 * linux.c is included textually because uv__iou_get_sqe/uv__iou_submit are static.
 *
 * Case (one line):   <head> <tail> ; ops      ops: s = one submission attempt,
 *                                                  k<n> = the kernel consumes up to n entries
 * head/tail are free-running 32-bit counters (tail - head = entries outstanding at the start).
 * Output: per submission g<slot> (slot granted) or f (NULL: fall back to the thread pool),
 * g<slot>! when the granted slot still holds an entry the kernel has not consumed,
 * then h=<head> t=<tail>. */
#include "unix/linux.c"
#include <stdio.h>

#define ENTRIES 64

int main(void) {
  char* line = NULL; size_t cap = 0; ssize_t k;
  static struct uv__io_uring_sqe sqes[ENTRIES];
  static uv_loop_t loop;
  while ((k = getline(&line, &cap, stdin)) > 0) {
    unsigned long long h0, t0; char* semi = strchr(line, ';'); char* tok; char* save;
    uint32_t head, tail, sqflags = 0; struct uv__iou iou; int busy[ENTRIES]; uint32_t i;
    static uv_fs_t reqs[4096]; int nreq = 0;
    if (!semi || sscanf(line, "%llu %llu", &h0, &t0) != 2) { printf("bad case\n"); continue; }
    head = (uint32_t) h0; tail = (uint32_t) t0;
    memset(&iou, 0, sizeof iou); memset(&loop, 0, sizeof loop); memset(busy, 0, sizeof busy);
    iou.sqhead = &head; iou.sqtail = &tail; iou.sqmask = ENTRIES - 1; iou.sqflags = &sqflags;
    iou.sqe = sqes; iou.ringfd = 1000;   /* "valid ring": never used as a descriptor (sqflags = 0) */
    for (i = head; i != tail; i++) busy[i & (ENTRIES - 1)] = 1;
    for (tok = strtok_r(semi + 1, " \n", &save); tok; tok = strtok_r(NULL, " \n", &save)) {
      if (tok[0] == 's' && nreq < 4096) {
        struct uv__io_uring_sqe* s = uv__iou_get_sqe(&iou, &loop, &reqs[nreq++]);
        if (s == NULL) printf("f ");
        else {
          int slot = (int) (s - sqes);
          printf("g%d%s ", slot, busy[slot] ? "!" : "");
          busy[slot] = 1;
          s->opcode = 0;  /* IORING_OP_NOP */
          uv__iou_submit(&iou);
        }
      } else if (tok[0] == 'k') {
        uint32_t n = (uint32_t) strtoul(tok + 1, NULL, 10), out = tail - head;
        if (n > out) n = out;
        while (n--) { busy[head & (ENTRIES - 1)] = 0; head++; }
      }
    }
    printf("h=%u t=%u\n", head, tail);
  }
  free(line);
  return 0;
}
