/* C17 (a): uv_fs_poll_* of the freshly built libuv on a virtual clock, real
 * scratch files, and a thread pool whose single worker is held by a blocker
 * work item that the script releases ("stat in flight" is a controllable state).
 *
 * Link with -Wl,--wrap=clock_gettime,--wrap=epoll_pwait,--wrap=syscall
 * usage: c17_fspoll <scratch-dir>  (one case per stdin line; one line per process is the
 *        intended use: the process _exit()s after the first case when called with "-1")
 * Case: "<t0> <npaths> ; ops ; beh0 | beh1 | ..."
 *   I                       uv_fs_poll_init
 *   S<h>,<cb>,<p>,<iv>,<f>  uv_fs_poll_start(h, cb<cb>, path p, iv); f=1: the context allocation
 *                           fails, f=2: the allocation inside uv_fs_stat fails
 *   T<h>  C<h>              uv_fs_poll_stop, uv_close
 *   O                       observe (active, closing, getpath)
 *   W                       uv_walk: note every handle visited, then uv_close each visited handle that is not
 *                           closing (prints v<fs_poll handles>;<script timers>[;?<n handles nobody created>])
 *   K                       take the oracle stat of every path, release the pool, wait until
 *                           every queued stat has run, block the pool again
 *   A<d>                    the clock advances by d ms
 *   U<id>,<delay>           the script starts a one-shot uv_timer of its own (top level only); its callback
 *                           prints u<id> and runs the next scripted behaviour (stop/close/restart of handles)
 *   R                       uv_run(UV_RUN_NOWAIT)
 *   Z                       oracle; release the pool for good; run until uv_run says 0; uv_loop_close
 *   Fw<p>,<n> Ft<p> Fm<p>,<mode> Fu<p> Fc<p> Fd<p>   write n bytes / truncate / chmod / unlink /
 *                           create / mkdir the scratch file of path p
 *   Fo<p>,<field>,<delta>   from now on add delta to field <field> of every statx answer for p
 *   Fe<p>,<errno>           from now on every statx of p fails with <errno> (2 ENOENT, 13 EACCES) without
 *                           touching the file; 0 = the real answer again
 *   Fh  Fs                  rename the directory holding the odd-numbered paths away / back
 * Paths: even ids are <dir>/p<i>, odd ids <dir>/sub/p<i>.
 * Output tokens: r<code>  p<h>,<cb>,<status>,<prev>,<curr>  x<h>  s<p>  o...  q<p>=<status>/<sb>
 *   z<rc>,<ctx live>,<other live>
 */
#include <stdio.h>
#include <stdlib.h>
#include <string.h>
#include <stdarg.h>
#include <inttypes.h>
#include <time.h>
#include <fcntl.h>
#include <unistd.h>
#include <errno.h>
#include <sched.h>
#include <sys/stat.h>
#include <sys/epoll.h>
#include <sys/syscall.h>
#include <sys/sysmacros.h>
#include "uv.h"
#include "uv-common.h"

#define MAXH 64
#define MAXB 512
#define MAXP 16
#define NF 20

static uint64_t vclock_ms;
static uv_loop_t loop;
static uv_loop_t* g_loop;

int __real_clock_gettime(clockid_t id, struct timespec* ts);
int __wrap_clock_gettime(clockid_t id, struct timespec* ts) {
  if (id == CLOCK_MONOTONIC || id == CLOCK_MONOTONIC_COARSE) {
    ts->tv_sec = vclock_ms / 1000;
    ts->tv_nsec = (vclock_ms % 1000) * 1000000;
    return 0;
  }
  return __real_clock_gettime(id, ts);
}

int __real_epoll_pwait(int epfd, struct epoll_event* ev, int max, int timeout, const sigset_t* ss);
int __wrap_epoll_pwait(int epfd, struct epoll_event* ev, int max, int timeout, const sigset_t* ss) {
  if (g_loop == NULL || epfd != g_loop->backend_fd)
    return __real_epoll_pwait(epfd, ev, max, timeout, ss);
  return __real_epoll_pwait(epfd, ev, max, 0, ss);   /* never sleeps; the script moves the clock */
}

/* ---- paths, overlay, statx ---- */
static char pathname[MAXP][512];
static int npaths;
static int64_t overlay[MAXP][NF];
static int force_err[MAXP];
static char subdir[512], subaway[512];
static int statlog[4096];
static volatile int nstatlog;

static int path_id(const char* p) {
  int i;
  if (p == NULL) return -1;
  for (i = 0; i < npaths; i++) if (strcmp(p, pathname[i]) == 0) return i;
  return -1;
}

/* kernel layout of struct statx (same as uv__statx) */
struct kstatx_ts { int64_t tv_sec; uint32_t tv_nsec; int32_t pad; };
struct kstatx {
  uint32_t stx_mask, stx_blksize; uint64_t stx_attributes; uint32_t stx_nlink, stx_uid, stx_gid;
  uint16_t stx_mode, unused0; uint64_t stx_ino, stx_size, stx_blocks, stx_attributes_mask;
  struct kstatx_ts stx_atime, stx_btime, stx_ctime, stx_mtime;
  uint32_t stx_rdev_major, stx_rdev_minor, stx_dev_major, stx_dev_minor; uint64_t unused1[14];
};

static void apply_overlay(int p, struct kstatx* x) {
  int64_t* o = overlay[p];
  x->stx_ctime.tv_nsec += o[0]; x->stx_mtime.tv_nsec += o[1]; x->stx_btime.tv_nsec += o[2];
  x->stx_ctime.tv_sec += o[3]; x->stx_mtime.tv_sec += o[4]; x->stx_btime.tv_sec += o[5];
  x->stx_size += o[6]; x->stx_mode += o[7]; x->stx_uid += o[8]; x->stx_gid += o[9];
  x->stx_ino += o[10]; x->stx_dev_minor += o[11];
  /* 12, 13: st_flags, st_gen are constant 0 on Linux */
  x->stx_nlink += o[14];
}

long __real_syscall(long n, ...);
long __wrap_syscall(long n, ...) {
  va_list ap; long a[6]; int i; long rc;
  va_start(ap, n);
  for (i = 0; i < 6; i++) a[i] = va_arg(ap, long);
  va_end(ap);
#ifdef __NR_statx
  if (n == __NR_statx) {
    int p = path_id((const char*) a[1]);
    if (p >= 0 && force_err[p]) {
      if (nstatlog < 4096) statlog[nstatlog++] = p;
      errno = force_err[p];
      return -1;
    }
  }
#endif
  rc = __real_syscall(n, a[0], a[1], a[2], a[3], a[4], a[5]);
#ifdef __NR_statx
  if (n == __NR_statx) {
    int p = path_id((const char*) a[1]);
    if (p >= 0) {
      if (nstatlog < 4096) statlog[nstatlog++] = p;
      if (rc == 0) apply_overlay(p, (struct kstatx*) a[4]);
    }
  }
#endif
  return rc;
}

/* the 20 printed fields: the 14 of statbuf_eq, then nlink rdev blksize blocks atim */
static void sb_fields(const uv_stat_t* b, uint64_t f[NF]) {
  f[0] = b->st_ctim.tv_nsec; f[1] = b->st_mtim.tv_nsec; f[2] = b->st_birthtim.tv_nsec;
  f[3] = b->st_ctim.tv_sec; f[4] = b->st_mtim.tv_sec; f[5] = b->st_birthtim.tv_sec;
  f[6] = b->st_size; f[7] = b->st_mode; f[8] = b->st_uid; f[9] = b->st_gid;
  f[10] = b->st_ino; f[11] = b->st_dev; f[12] = b->st_flags; f[13] = b->st_gen;
  f[14] = b->st_nlink; f[15] = b->st_rdev; f[16] = b->st_blksize; f[17] = b->st_blocks;
  f[18] = b->st_atim.tv_sec; f[19] = b->st_atim.tv_nsec;
}
static void print_fields(const uint64_t f[NF]) {
  int i;
  for (i = 0; i < NF; i++) printf("%s%" PRIu64, i ? ":" : "", f[i]);
}
static void print_sb(const uv_stat_t* b) { uint64_t f[NF]; sb_fields(b, f); print_fields(f); }

/* the harness's own stat of path p (glibc statx(), not through libuv), overlay applied */
static void oracle_path(int p) {
  struct statx sx; uint64_t f[NF]; struct kstatx k;
  int rc;
  if (force_err[p]) { printf("q%d=%d/0 ", p, -force_err[p]); return; }
  rc = statx(AT_FDCWD, pathname[p], 0, 0xFFF, &sx);
  if (rc != 0) { printf("q%d=%d/0 ", p, -errno); return; }
  memset(&k, 0, sizeof k);
  k.stx_ctime.tv_nsec = sx.stx_ctime.tv_nsec; k.stx_mtime.tv_nsec = sx.stx_mtime.tv_nsec;
  k.stx_btime.tv_nsec = sx.stx_btime.tv_nsec; k.stx_ctime.tv_sec = sx.stx_ctime.tv_sec;
  k.stx_mtime.tv_sec = sx.stx_mtime.tv_sec; k.stx_btime.tv_sec = sx.stx_btime.tv_sec;
  k.stx_size = sx.stx_size; k.stx_mode = sx.stx_mode; k.stx_uid = sx.stx_uid; k.stx_gid = sx.stx_gid;
  k.stx_ino = sx.stx_ino; k.stx_dev_major = sx.stx_dev_major; k.stx_dev_minor = sx.stx_dev_minor;
  k.stx_nlink = sx.stx_nlink;
  apply_overlay(p, &k);
  f[0] = k.stx_ctime.tv_nsec; f[1] = k.stx_mtime.tv_nsec; f[2] = k.stx_btime.tv_nsec;
  f[3] = k.stx_ctime.tv_sec; f[4] = k.stx_mtime.tv_sec; f[5] = k.stx_btime.tv_sec;
  f[6] = k.stx_size; f[7] = k.stx_mode; f[8] = k.stx_uid; f[9] = k.stx_gid;
  f[10] = k.stx_ino; f[11] = makedev(k.stx_dev_major, k.stx_dev_minor); f[12] = 0; f[13] = 0;
  f[14] = k.stx_nlink; f[15] = makedev(sx.stx_rdev_major, sx.stx_rdev_minor);
  f[16] = sx.stx_blksize; f[17] = sx.stx_blocks; f[18] = sx.stx_atime.tv_sec; f[19] = sx.stx_atime.tv_nsec;
  printf("q%d=0/", p); print_fields(f); printf(" ");
}
static void oracle_all(void) { int p; for (p = 0; p < npaths; p++) oracle_path(p); }

/* ---- allocator: counts, tags the contexts, fails on demand ---- */
static _Atomic long live_total;
static void* ctxptr[256]; static int nctxptr;
static int in_start, fail_calloc, fail_malloc;
static void* my_malloc(size_t n) {
  void* p;
  if (in_start && fail_malloc) { fail_malloc = 0; return NULL; }
  p = malloc(n); if (p) live_total++; return p;
}
static void* my_calloc(size_t a, size_t b) {
  void* p;
  if (in_start && fail_calloc) { fail_calloc = 0; return NULL; }
  p = calloc(a, b);
  if (p) { live_total++; if (in_start && nctxptr < 256) ctxptr[nctxptr++] = p; }
  return p;
}
static void* my_realloc(void* q, size_t n) {
  void* p = realloc(q, n); if (q == NULL && p) live_total++; return p;
}
static void my_free(void* p) {
  int i;
  if (p == NULL) return;
  for (i = 0; i < nctxptr; i++) if (ctxptr[i] == p) { ctxptr[i] = ctxptr[--nctxptr]; break; }
  live_total--; free(p);
}

/* ---- pool control ---- */
struct blk { uv_work_t req; uv_sem_t sem; };
static struct blk* cur_blk;
static void blk_work(uv_work_t* r) { uv_sem_wait(&((struct blk*) r)->sem); }
static void blk_after(uv_work_t* r, int st) { (void) st; uv_sem_destroy(&((struct blk*) r)->sem); free(r); }
static void nop_work(uv_work_t* r) { (void) r; }
static void nop_after(uv_work_t* r, int st) { (void) st; free(r); }

static void queue_blocker(void) {
  cur_blk = calloc(1, sizeof *cur_blk);
  uv_sem_init(&cur_blk->sem, 0);
  uv_queue_work(&loop, &cur_blk->req, blk_work, blk_after);
}
/* wait until the worker has run everything queued so far */
static void pool_sync(void) {
  uv_work_t* w = calloc(1, sizeof *w);
  uv_queue_work(&loop, w, nop_work, nop_after);
  for (;;) {
    int dn;
    uv_mutex_lock(&loop.wq_mutex);
    dn = (w->work_req.work == NULL);
    uv_mutex_unlock(&loop.wq_mutex);
    if (dn) break;
    sched_yield();
  }
}
static void print_statlog(void) {
  int i;
  for (i = 0; i < nstatlog; i++) printf("s%d ", statlog[i]);
  nstatlog = 0;
}

/* ---- handles ---- */
struct hnd { uv_fs_poll_t h; int closing, closed; };
static struct hnd* H[MAXH];
static int nh;
static char* beh[MAXB];
static int nbeh, cbcount;
static void do_ops(char* ops, int in_cb);

static void run_beh(void) {
  int k = cbcount++;
  if (k < nbeh) { char* copy = strdup(beh[k]); do_ops(copy, 1); free(copy); }
}
static int idx(void* h) { return (int) (intptr_t) ((uv_handle_t*) h)->data; }
static void on_poll(uv_fs_poll_t* h, int tok, int status, const uv_stat_t* prev, const uv_stat_t* curr) {
  printf("p%d,%d,%d,", idx(h), tok, status); print_sb(prev); printf(","); print_sb(curr); printf(" ");
  run_beh();
}
static void cb1(uv_fs_poll_t* h, int st, const uv_stat_t* a, const uv_stat_t* b) { on_poll(h, 1, st, a, b); }
static void cb2(uv_fs_poll_t* h, int st, const uv_stat_t* a, const uv_stat_t* b) { on_poll(h, 2, st, a, b); }
static void cb3(uv_fs_poll_t* h, int st, const uv_stat_t* a, const uv_stat_t* b) { on_poll(h, 3, st, a, b); }
static uv_fs_poll_cb cbs[] = { cb1, cb1, cb2, cb3 };
static void close_cb(uv_handle_t* h) { H[idx(h)]->closed = 1; printf("x%d ", idx(h)); run_beh(); }
/* the script's own timers */
static uv_timer_t* UT[256]; static int nut; static int utclosing[256];
static uv_handle_t* seen[512]; static int nseen;
static void walk_cb(uv_handle_t* h, void* arg) { (void) arg; if (nseen < 512) seen[nseen++] = h; }
static void user_timer_cb(uv_timer_t* t) { printf("u%d ", (int) (intptr_t) t->data); run_beh(); }
static void user_close_cb(uv_handle_t* h) { (void) h; }

static void file_op(const char* tok) {
  int p = -1; long a = 0, b = 0; int fd;
  if (tok[1] == 'h') { rename(subdir, subaway); return; }
  if (tok[1] == 's') { rename(subaway, subdir); return; }
  sscanf(tok + 2, "%d,%ld,%ld", &p, &a, &b);
  if (p < 0 || p >= npaths) return;
  switch (tok[1]) {
  case 'w':
    fd = open(pathname[p], O_WRONLY | O_CREAT | O_APPEND, 0644);
    if (fd >= 0) { while (a-- > 0) if (write(fd, "x", 1) != 1) break; close(fd); }
    break;
  case 't': fd = open(pathname[p], O_WRONLY | O_CREAT | O_TRUNC, 0644); if (fd >= 0) close(fd); break;
  case 'c': fd = open(pathname[p], O_WRONLY | O_CREAT, 0644); if (fd >= 0) close(fd); break;
  case 'm': chmod(pathname[p], (mode_t) a); break;
  case 'u': if (unlink(pathname[p]) != 0) rmdir(pathname[p]); break;
  case 'd': mkdir(pathname[p], 0755); break;
  case 'o': if (a >= 0 && a < NF) overlay[p][a] += b; break;
  case 'e': force_err[p] = (a == 2 || a == 13) ? (int) a : 0; break;
  }
}

static void do_ops(char* ops, int in_cb) {
  char* save = NULL; char* tok;
  for (tok = strtok_r(ops, " \n", &save); tok; tok = strtok_r(NULL, " \n", &save)) {
    int i = -1, c = 0, p = 0, f = 0; unsigned iv = 0; uint64_t a = 0;
    switch (tok[0]) {
    case 'I':
      if (nh >= MAXH) break;
      H[nh] = calloc(1, sizeof *H[nh]);
      uv_fs_poll_init(&loop, &H[nh]->h); H[nh]->h.data = (void*) (intptr_t) nh; nh++;
      break;
    case 'S':
      if (sscanf(tok + 1, "%d,%d,%d,%u,%d", &i, &c, &p, &iv, &f) == 5 && i >= 0 && i < nh &&
          !H[i]->closing && p >= 0 && p < npaths) {
        int r;
        in_start = 1; fail_calloc = (f == 1); fail_malloc = (f == 2 || f == 3);
        r = uv_fs_poll_start(&H[i]->h, cbs[c & 3], pathname[p], iv);
        in_start = 0; fail_calloc = fail_malloc = 0;
        printf("r%d ", r);
      }
      break;
    case 'T':
      if (sscanf(tok + 1, "%d", &i) == 1 && i >= 0 && i < nh && !H[i]->closed)
        printf("r%d ", uv_fs_poll_stop(&H[i]->h));
      break;
    case 'C':
      if (sscanf(tok + 1, "%d", &i) == 1 && i >= 0 && i < nh && !H[i]->closing) {
        H[i]->closing = 1; uv_close((uv_handle_t*) &H[i]->h, close_cb);
      }
      break;
    case 'O': {
      int j;
      printf("o");
      for (j = 0; j < nh; j++) {
        char buf[600]; size_t sz = sizeof buf; int r;
        printf("%d%d", uv_is_active((uv_handle_t*) &H[j]->h) ? 1 : 0, H[j]->closing);
        /* "-" = UV_EINVAL with *size set to 0 (what a handle that is not active must answer);
           a path index = 0 and that path; anything else is printed as !<rc>:<size> */
        if (H[j]->closed) { printf("-,"); continue; }
        buf[0] = 0;
        r = uv_fs_poll_getpath(&H[j]->h, buf, &sz);
        if (r == 0) printf("%d,", path_id(buf));
        else if (r == UV_EINVAL && sz == 0) printf("-,");
        else printf("!%d:%lu,", r, (unsigned long) sz);
      }
      printf(" ");
      break; }
    case 'W': {
      int j, k, unknown = 0, first;
      nseen = 0; uv_walk(&loop, walk_cb, NULL);
      printf("v"); first = 1;
      for (j = 0; j < nh; j++)
        for (k = 0; k < nseen; k++) if (seen[k] == (uv_handle_t*) &H[j]->h) { printf("%s%d", first ? "" : ",", j); first = 0; }
      printf(";"); first = 1;
      for (j = 0; j < nut; j++)
        for (k = 0; k < nseen; k++) if (seen[k] == (uv_handle_t*) UT[j]) { printf("%s%d", first ? "" : ",", (int) (intptr_t) UT[j]->data); first = 0; }
      for (k = 0; k < nseen; k++) {
        int mine = 0;
        for (j = 0; j < nh; j++) if (seen[k] == (uv_handle_t*) &H[j]->h) mine = 1;
        for (j = 0; j < nut; j++) if (seen[k] == (uv_handle_t*) UT[j]) mine = 1;
        if (!mine) unknown++;
      }
      if (unknown) printf(";?%d", unknown);
      printf(" ");
      for (j = 0; j < nh; j++)
        for (k = 0; k < nseen; k++)
          if (seen[k] == (uv_handle_t*) &H[j]->h && !H[j]->closing) { H[j]->closing = 1; uv_close((uv_handle_t*) &H[j]->h, close_cb); }
      for (j = 0; j < nut; j++)
        for (k = 0; k < nseen; k++)
          if (seen[k] == (uv_handle_t*) UT[j] && !utclosing[j]) { utclosing[j] = 1; uv_close((uv_handle_t*) UT[j], user_close_cb); }
      for (k = 0; k < nseen; k++) {          /* a handle nobody created: the teardown closes it like any other */
        int mine = 0;
        for (j = 0; j < nh; j++) if (seen[k] == (uv_handle_t*) &H[j]->h) mine = 1;
        for (j = 0; j < nut; j++) if (seen[k] == (uv_handle_t*) UT[j]) mine = 1;
        if (!mine && !uv_is_closing(seen[k])) uv_close(seen[k], user_close_cb);
      }
      break; }
    case 'F': file_op(tok); break;
    case 'K':
      if (in_cb) break;
      oracle_all();
      uv_sem_post(&cur_blk->sem);
      pool_sync();
      queue_blocker();
      print_statlog();
      break;
    case 'A': if (!in_cb && sscanf(tok + 1, "%" SCNu64, &a) == 1) vclock_ms += a; break;
    case 'U':
      if (!in_cb && sscanf(tok + 1, "%d,%" SCNu64, &i, &a) == 2 && nut < 256) {
        UT[nut] = calloc(1, sizeof(uv_timer_t)); uv_timer_init(&loop, UT[nut]); UT[nut]->data = (void*) (intptr_t) i;
        uv_timer_start(UT[nut], user_timer_cb, a, 0); nut++;
      }
      break;
    case 'R': if (!in_cb) { printf("g "); uv_run(&loop, UV_RUN_NOWAIT); } break;
    case 'Z':
      if (in_cb) break;
      {
        int r, n = 0; long base_other;
        oracle_all();
        { int j; for (j = 0; j < nut; j++) if (!utclosing[j]) { utclosing[j] = 1; uv_close((uv_handle_t*) UT[j], user_close_cb); } }
        uv_sem_post(&cur_blk->sem); cur_blk = NULL;
        do { pool_sync(); print_statlog(); printf("g "); r = uv_run(&loop, UV_RUN_NOWAIT); } while (r != 0 && ++n < 64);
        r = uv_loop_close(&loop);
        base_other = live_total - nctxptr;
        printf("z%d,%d,%ld ", r, nctxptr, r == 0 ? base_other : 0);
      }
      break;
    }
  }
}

int main(int argc, char** argv) {
  static char line[1 << 16];
  const char* dir = argc > 1 ? argv[1] : "/tmp";
  setenv("UV_THREADPOOL_SIZE", "1", 1);
  setenv("UV_USE_IO_URING", "0", 1);
  uv_replace_allocator(my_malloc, my_realloc, my_calloc, my_free);
  if (fgets(line, sizeof line, stdin)) {
    char *p1, *p2; int k; long base;
    p1 = strchr(line, ';'); if (!p1) { printf("\n"); return 0; }
    *p1++ = 0; p2 = strchr(p1, ';'); if (!p2) { printf("\n"); return 0; }
    *p2++ = 0;
    { unsigned long long t0 = 0; sscanf(line, "%llu %d", &t0, &npaths); vclock_ms = t0; }
    if (npaths > MAXP) npaths = MAXP;
    snprintf(subdir, sizeof subdir, "%s/sub", dir); snprintf(subaway, sizeof subaway, "%s/sub.away", dir);
    mkdir(subdir, 0755);
    for (k = 0; k < npaths; k++)
      snprintf(pathname[k], sizeof pathname[k], (k & 1) ? "%s/sub/p%d" : "%s/p%d", dir, k);
    base = live_total;
    uv_loop_init(&loop); g_loop = &loop;
    {
      char* s = p2;
      for (;;) {
        char* e = strchr(s, '|');
        if (e) *e = 0;
        if (nbeh < MAXB) beh[nbeh++] = s;
        if (!e) break;
        s = e + 1;
      }
    }
    queue_blocker();
    do_ops(p1, 0);
    (void) base;
    printf("\n");
    fflush(stdout);
  }
  _exit(0);
}
