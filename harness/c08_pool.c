/* C08: the real thread pool of src/threadpool.c (textually included, so that the statics
 * `mutex`, `cond`, `once` are reachable) with real pool threads and real loop threads, run
 * under a serialising scheduler: exactly one thread holds the run token.
 *
 * Blocking points (where a thread parks and the controller decides who goes on):
 *   - pthread_mutex_lock on the pool's static mutex and on each loop's wq_mutex
 *   - the wake-up inside pthread_cond_wait on the pool's static cond
 *   - epoll_pwait with a non-zero timeout (uv_run(UV_RUN_DEFAULT) at the end of a script);
 *     runnable iff the real epoll set is ready (probed with timeout 0)
 *   - one explicit point in front of uv_run(UV_RUN_NOWAIT) and in front of a skipped operation
 * unlock / cond_signal / cond_wait entry are recorded but do not park (they cannot block).
 * This is exactly the step of Model/ThreadPool.v; the record printed for each choice lists every
 * synchronisation call and every callback of the step:
 *   L U   lock/unlock of the global mutex        l<k> u<k>  lock/unlock of loop k's wq_mutex
 *   W K S cond_wait entered / woke up / cond_signal        P poll   N skipped operation
 *   +<r><k> request r of kind k (c/f/s) submitted   w<r> work function of r ran   d<r>,<status> completion callback
 *   c<r>,<code> uv_cancel returned   a<0|1> uv_run returned / goes on polling (loop alive)
 *   T uv_stop called
 *   !<what> a check of the harness itself failed (thread identity, order, uv_loop_alive)
 *   !spin  the thread consumed more than a second of CPU without reaching a blocking point (the
 *          record of the case ends there with v3)
 * Case (one per line, each run in a forked child because the pool is process-global):
 *   <nthreads> ; <script loop 0> | <script loop 1> ; <r>:<ops> ... ; t,a t,a ...
 * see ocaml/drv_c08.ml.  Ends with v0 (all loops returned), v1 (somebody runnable), v2 (deadlock). */
#define _GNU_SOURCE
#include "threadpool.c"            /* found through -I<repo>/src */
#include <stdio.h>
#include <string.h>
#include <errno.h>
#include <stdarg.h>
#include <pthread.h>
#include <signal.h>
#include <unistd.h>
#include <netdb.h>
#include <sys/epoll.h>
#include <sys/wait.h>
#include <sys/resource.h>
#include <time.h>

int __real_pthread_mutex_lock(pthread_mutex_t*);
int __real_pthread_mutex_unlock(pthread_mutex_t*);
int __real_pthread_cond_wait(pthread_cond_t*, pthread_mutex_t*);
int __real_pthread_cond_signal(pthread_cond_t*);
int __real_pthread_create(pthread_t*, const pthread_attr_t*, void* (*)(void*), void*);
int __real_epoll_pwait(int, struct epoll_event*, int, int, const sigset_t*);
void __real_uv__work_submit(uv_loop_t*, struct uv__work*, enum uv__work_kind,
                            void (*)(struct uv__work*), void (*)(struct uv__work*, int));

#define MAXT 16
#define MAXL 3
#define MAXR 64
#define MAXOPS 64

enum { OP_NONE, OP_LOCK, OP_WAKE, OP_POLL, OP_POLLB, OP_NOP };
enum { T_RUNNING, T_PARKED, T_DONE };

typedef struct {
  int state, op, obj, granted, aux;
  int waiting;                       /* 0 no, 1 in cond_wait, 2 signalled */
  pthread_cond_t cv;
  pthread_t th; int th_set;
} h_thread;

static h_thread h_t[MAXT];
static int h_nt, h_nloops, h_nworkers;
static pthread_mutex_t h_G = PTHREAD_MUTEX_INITIALIZER;
static pthread_cond_t h_ctl = PTHREAD_COND_INITIALIZER;
static __thread int h_me = -1;
static int h_err;
static int h_owner[1 + MAXL];        /* 0: static mutex, 1+k: loop k's wq_mutex */
static uv_loop_t h_loop[MAXL];
static int h_creating, h_created;

/* ---- the record of the running step ---- */
static char h_log[16384];
static int h_len;
static void ev(const char* fmt, ...) {
  va_list ap;
  if (h_len > (int) sizeof(h_log) - 64) return;
  if (h_len) h_log[h_len++] = '.';
  va_start(ap, fmt);
  h_len += vsnprintf(h_log + h_len, sizeof(h_log) - h_len, fmt, ap);
  va_end(ap);
}

/* ---- requests ---- */
typedef struct {
  union { uv_work_t work; uv_fs_t fs; uv_getaddrinfo_t gai; uv_random_t rnd; uv_req_t req; } u;
  int id, loop, kind;                /* id = -1 until the submission step */
  int nwork, ndone, work_returned, tramp;
  void (*orig_work)(struct uv__work*);
  struct uv__work* w;
  char buf[8];
} h_slot;
static h_slot h_slots[MAXR];
static int h_nslots;
static int h_nreq;                   /* ids handed out */
static h_slot* h_byid[MAXR];
static int h_outstanding[MAXL];
static __thread h_slot* tl_submit;
static __thread int tl_drain, tl_drain_first;
static const char* h_scratch;

static char h_prog[MAXL][MAXOPS]; static int h_parg[MAXL][MAXOPS]; static int h_plen[MAXL];
static char h_beh[MAXR][MAXOPS]; static int h_barg[MAXR][MAXOPS]; static int h_blen[MAXR];

/* ---- scheduler ---- */
static int mx_index(pthread_mutex_t* m) {
  int k;
  if (m == (pthread_mutex_t*) &mutex) return 0;
  for (k = 0; k < h_nloops; k++) if (m == (pthread_mutex_t*) &h_loop[k].wq_mutex) return 1 + k;
  return -1;
}

static int h_park(int op, int obj) {
  h_thread* t = &h_t[h_me];
  int aux;
  __real_pthread_mutex_lock(&h_G);
  t->op = op; t->obj = obj; t->state = T_PARKED;
  __real_pthread_cond_signal(&h_ctl);
  while (!t->granted) __real_pthread_cond_wait(&t->cv, &h_G);
  t->granted = 0;
  aux = t->aux;
  __real_pthread_mutex_unlock(&h_G);
  return aux;
}

int __wrap_pthread_mutex_lock(pthread_mutex_t* m) {
  int k;
  if (h_me < 0 || (k = mx_index(m)) < 0) return __real_pthread_mutex_lock(m);
  h_park(OP_LOCK, k);
  if (h_owner[k] != -1) h_err = 2;
  h_owner[k] = h_me;
  if (k == 0) {
    if (tl_submit != NULL) {
      tl_submit->id = h_nreq;
      h_byid[h_nreq++] = tl_submit;
      ev("+%d%c", tl_submit->id, tl_submit->kind == 'r' ? 'c' : tl_submit->kind);
      tl_submit = NULL;
    }
    ev("L");
  } else ev("l%d", k - 1);
  return 0;
}

int __wrap_pthread_mutex_unlock(pthread_mutex_t* m) {
  int k;
  if (h_me < 0 || (k = mx_index(m)) < 0) return __real_pthread_mutex_unlock(m);
  if (h_owner[k] != h_me) h_err = 3;
  h_owner[k] = -1;
  if (k == 0) ev("U"); else ev("u%d", k - 1);
  return 0;
}

int __wrap_pthread_cond_wait(pthread_cond_t* c, pthread_mutex_t* m) {
  if (h_me < 0 || c != (pthread_cond_t*) &cond) return __real_pthread_cond_wait(c, m);
  if (mx_index(m) != 0 || h_owner[0] != h_me) h_err = 4;
  ev("W");
  h_owner[0] = -1;
  h_t[h_me].waiting = 1;
  h_park(OP_WAKE, 0);                /* granted only when (signalled or aux == 1) and the mutex is free */
  h_t[h_me].waiting = 0;
  if (h_owner[0] != -1) h_err = 5;
  h_owner[0] = h_me;
  ev("K");
  return 0;
}

int __wrap_pthread_cond_signal(pthread_cond_t* c) {
  int i, n = 0, aux;
  if (h_me < 0 || c != (pthread_cond_t*) &cond) return __real_pthread_cond_signal(c);
  ev("S");
  aux = h_t[h_me].aux;
  for (i = h_nloops; i < h_nt; i++) if (h_t[i].waiting == 1) n++;
  if (n > 0) {
    int k = aux % n;
    for (i = h_nloops; i < h_nt; i++)
      if (h_t[i].waiting == 1) { if (k-- == 0) { h_t[i].waiting = 2; break; } }
  }
  return 0;
}

int __wrap_epoll_pwait(int epfd, struct epoll_event* evs, int max, int timeout, const sigset_t* ss) {
  if (h_me < 0 || timeout == 0 || !tl_drain) return __real_epoll_pwait(epfd, evs, max, timeout, ss);
  if (!tl_drain_first) ev("a1");     /* the previous iteration of uv_run ended with the loop alive */
  tl_drain_first = 0;
  h_park(OP_POLLB, epfd);
  ev("P");
  return __real_epoll_pwait(epfd, evs, max, 0, ss);
}

static void h_end(void) {
  h_thread* t = &h_t[h_me];
  h_me = -1;
  __real_pthread_mutex_lock(&h_G);
  t->state = T_DONE;
  __real_pthread_cond_signal(&h_ctl);
  __real_pthread_mutex_unlock(&h_G);
}

/* pool threads are created by libuv itself: give them ids in creation order */
typedef struct { void* (*fn)(void*); void* arg; int id; } h_start;
static void* h_tramp_thread(void* p) {
  h_start s = *(h_start*) p;
  free(p);
  h_me = s.id;
  h_t[s.id].th = pthread_self(); h_t[s.id].th_set = 1;
  s.fn(s.arg);
  if (h_me >= 0) h_end();
  return NULL;
}
int __wrap_pthread_create(pthread_t* th, const pthread_attr_t* a, void* (*fn)(void*), void* arg) {
  h_start* s;
  if (!h_creating) return __real_pthread_create(th, a, fn, arg);
  s = malloc(sizeof *s);
  s->fn = fn; s->arg = arg; s->id = h_nloops + h_created++;
  if (s->id >= MAXT) abort();
  return __real_pthread_create(th, a, h_tramp_thread, s);
}

static int h_enabled(h_thread* t, int aux) {
  if (t->state != T_PARKED) return 0;
  switch (t->op) {
  case OP_LOCK: return h_owner[t->obj] == -1;
  case OP_WAKE: return (t->waiting == 2 || aux == 1) && h_owner[0] == -1;
  case OP_POLLB: {
    struct epoll_event e;
    return __real_epoll_pwait(t->obj, &e, 1, 0, NULL) > 0;
  }
  default: return 1;
  }
}

static int h_spin = -1;             /* thread found spinning */
static double cpu_of(pthread_t th) {
  clockid_t cid; struct timespec ts;
  if (pthread_getcpuclockid(th, &cid) != 0 || clock_gettime(cid, &ts) != 0) return 0;
  return ts.tv_sec + ts.tv_nsec * 1e-9;
}
/* wait until nobody runs; a thread that burns more than a second of CPU inside one step is
 * spinning (a legitimate step is a few microseconds of libuv code plus one system call) */
static void h_settle(void) {
  int i;
  double start[MAXT];
  for (i = 0; i < h_nt; i++) start[i] = -1;
  __real_pthread_mutex_lock(&h_G);
  for (;;) {
    int busy = 0;
    struct timespec dl;
    for (i = 0; i < h_nt; i++) if (h_t[i].state == T_RUNNING) busy = 1;
    if (!busy) break;
    clock_gettime(CLOCK_REALTIME, &dl);
    dl.tv_nsec += 50 * 1000 * 1000;
    if (dl.tv_nsec >= 1000000000) { dl.tv_sec++; dl.tv_nsec -= 1000000000; }
    if (pthread_cond_timedwait(&h_ctl, &h_G, &dl) == ETIMEDOUT) {
      for (i = 0; i < h_nt; i++) {
        double c;
        if (h_t[i].state != T_RUNNING || !h_t[i].th_set) continue;
        c = cpu_of(h_t[i].th);
        if (start[i] < 0) start[i] = c;
        else if (c - start[i] > 1.0) { h_spin = i; break; }
      }
      if (h_spin >= 0) break;
    }
  }
  __real_pthread_mutex_unlock(&h_G);
}

static int h_step(int t, int aux) {
  h_thread* th;
  if (t < 0 || t >= h_nt) return 0;
  th = &h_t[t];
  if (!h_enabled(th, aux)) return 0;
  h_len = 0; h_log[0] = 0;
  __real_pthread_mutex_lock(&h_G);
  th->aux = aux; th->granted = 1; th->state = T_RUNNING;
  __real_pthread_cond_signal(&th->cv);
  __real_pthread_mutex_unlock(&h_G);
  h_settle();
  return 1;
}

/* ---- observation of the work functions ---- */
static h_slot* slot_of_work(struct uv__work* w) {
  int i;
  for (i = 0; i < h_nslots; i++) if (h_slots[i].w == w) return &h_slots[i];
  return NULL;
}
static void h_work_tramp(struct uv__work* w) {
  h_slot* s = slot_of_work(w);
  if (s == NULL) { ev("!unknownwork"); return; }
  s->nwork++;
  ev("w%d", s->id);
  if (h_me < h_nloops) ev("!workthr");
  s->orig_work(w);
  s->work_returned = 1;
}
/* submissions of fs/getaddrinfo/random requests come through here (calls from other objects
 * of libuv.a to the definition in the included threadpool.c) */
void __wrap_uv__work_submit(uv_loop_t* loop, struct uv__work* w, enum uv__work_kind kind,
                            void (*work)(struct uv__work*), void (*done)(struct uv__work*, int)) {
  h_slot* s = tl_submit;
  if (s != NULL) {
    s->w = w; s->orig_work = work; s->tramp = 1;
    if ((s->kind == 's') != (kind == UV__WORK_SLOW_IO)) ev("!kind");
    work = h_work_tramp;
  }
  uv__work_submit(loop, w, kind, work, done);
}

static void exec_ops(int l, const char* ops, const int* args, int n, int in_cb);

static void completed(h_slot* s, int status) {
  s->ndone++;
  ev("d%d,%d", s->id, status);
  if (h_me != s->loop) ev("!donethr");
  if (status != UV_ECANCELED && !s->work_returned) ev("!early");
  h_outstanding[s->loop]--;
  if (uv_loop_alive(&h_loop[s->loop]) != (h_outstanding[s->loop] > 0)) ev("!alive");
  if (s->id >= 0 && s->id < MAXR)
    exec_ops(s->loop, h_beh[s->id], h_barg[s->id], h_blen[s->id], 1);
}
static void cb_work(uv_work_t* req) {
  h_slot* s = (h_slot*) req;
  if (s->tramp) return;              /* already recorded by the trampoline */
  s->nwork++;
  ev("w%d", s->id);
  if (h_me < h_nloops) ev("!workthr");
  s->work_returned = 1;
}
static void cb_after(uv_work_t* req, int status) { completed((h_slot*) req, status); }
static void cb_fs(uv_fs_t* req) {
  int st = req->result < 0 ? (int) req->result : 0;
  uv_fs_req_cleanup(req);
  completed((h_slot*) req, st);
}
static void cb_gai(uv_getaddrinfo_t* req, int status, struct addrinfo* res) {
  if (status == 0) uv_freeaddrinfo(res);
  if (status == UV_ECANCELED) ev("!xlate");       /* must arrive as UV_EAI_CANCELED */
  if (status == UV_EAI_CANCELED) status = UV_ECANCELED;
  completed((h_slot*) req, status);
}
static void cb_rnd(uv_random_t* req, int status, void* buf, size_t len) { completed((h_slot*) req, status); }

static void exec_ops(int l, const char* ops, const int* args, int n, int in_cb) {
  int i, rc;
  uv_loop_t* loop = &h_loop[l];
  for (i = 0; i < n; i++) {
    char o = ops[i];
    if (o == 'c' || o == 'f' || o == 's' || o == 'r') {
      h_slot* s;
      if (h_nslots >= MAXR) { ev("!toomany"); return; }
      s = &h_slots[h_nslots++];
      s->id = -1; s->loop = l; s->kind = o;
      h_outstanding[l]++;
      tl_submit = s;
      if (o == 'c') { s->w = &s->u.work.work_req; rc = uv_queue_work(loop, &s->u.work, cb_work, cb_after); }
      else if (o == 'f') rc = uv_fs_stat(loop, &s->u.fs, h_scratch, cb_fs);
      else if (o == 's') {
        struct addrinfo hints;
        memset(&hints, 0, sizeof hints);
        hints.ai_family = AF_INET; hints.ai_socktype = SOCK_STREAM; hints.ai_flags = AI_NUMERICHOST;
        rc = uv_getaddrinfo(loop, &s->u.gai, cb_gai, "127.0.0.1", NULL, &hints);
      } else rc = uv_random(loop, &s->u.rnd, s->buf, sizeof s->buf, 0, cb_rnd);
      if (rc != 0 || tl_submit != NULL) { ev("!submit%d", rc); tl_submit = NULL; }
    } else if (o == 'x') {
      int r = args[i];
      h_slot* s = (r >= 0 && r < h_nreq) ? h_byid[r] : NULL;
      if (s == NULL || s->loop != l || s->ndone > 0) { h_park(OP_NOP, 0); ev("N"); }
      else { rc = uv_cancel(&s->u.req); ev("c%d,%d", r, rc); }
    } else if (o == 'T') {
      h_park(OP_NOP, 0); ev("T"); uv_stop(loop);
    } else if (o == 'R') {
      if (in_cb) { h_park(OP_NOP, 0); ev("N"); }
      else { h_park(OP_POLL, 0); ev("P"); rc = uv_run(loop, UV_RUN_NOWAIT); ev("a%d", rc != 0); }
    }
    if (uv_loop_alive(loop) != (h_outstanding[l] > 0)) ev("!alive");
  }
}

static void* loop_thread(void* arg) {
  int l = (int) (long) arg;
  h_me = l;
  h_t[l].th_set = 1;
  h_park(OP_NOP, -1);                /* start barrier: not a step of the model */
  exec_ops(l, h_prog[l], h_parg[l], h_plen[l], 0);
  while (uv_loop_alive(&h_loop[l])) {
    int rc;
    tl_drain = 1; tl_drain_first = 1;
    rc = uv_run(&h_loop[l], UV_RUN_DEFAULT);
    tl_drain = 0;
    /* a call that returned without polling (uv_stop was pending) is not an iteration */
    if (!tl_drain_first) ev("a%d", rc != 0);
  }
  h_end();
  return NULL;
}

/* ---- parsing ---- */
static int parse_ops(const char* p, const char* end, char* ops, int* args) {
  int n = 0;
  while (p < end && n < MAXOPS) {
    if (*p == ' ' || *p == '-') { p++; continue; }
    ops[n] = *p; args[n] = 0;
    if (*p == 'x') { char* e; args[n] = (int) strtol(p + 1, &e, 10); p = e; }
    else p++;
    n++;
  }
  return n;
}

static void run_case(char* line) {
  char* f[4]; char* p = line; char* q; int i, n;
  char num[16];
  for (i = 0; i < 4; i++) {
    f[i] = p;
    q = strchr(p, ';');
    if (i < 3) { if (!q) { printf("bad\n"); return; } *q = 0; p = q + 1; }
  }
  n = atoi(f[0]);
  if (n < 1 || n > 8) { printf("bad\n"); return; }
  /* scripts */
  h_nloops = 0;
  p = f[1];
  for (;;) {
    q = strchr(p, '|');
    if (h_nloops >= MAXL) { printf("bad\n"); return; }
    h_plen[h_nloops] = parse_ops(p, q ? q : p + strlen(p), h_prog[h_nloops], h_parg[h_nloops]);
    h_nloops++;
    if (!q) break;
    p = q + 1;
  }
  /* callback behaviours */
  p = f[2];
  for (;;) {
    char* e; long r;
    while (*p == ' ') p++;
    if (!*p) break;
    r = strtol(p, &e, 10);
    if (e == p || *e != ':' || r < 0 || r >= MAXR) { printf("bad\n"); return; }
    p = e + 1;
    q = p; while (*q && *q != ' ') q++;
    h_blen[r] = parse_ops(p, q, h_beh[r], h_barg[r]);
    p = q;
  }
  snprintf(num, sizeof num, "%d", n);
  setenv("UV_THREADPOOL_SIZE", num, 1);
  setenv("UV_USE_IO_URING", "0", 1);
  h_scratch = getenv("C08_SCRATCH");
  if (h_scratch == NULL) h_scratch = "/";
  h_nworkers = n;
  h_nt = h_nloops + n;
  for (i = 0; i < 1 + MAXL; i++) h_owner[i] = -1;
  for (i = 0; i < h_nt; i++) { pthread_cond_init(&h_t[i].cv, NULL); h_t[i].state = T_RUNNING; }
  for (i = 0; i < h_nloops; i++) if (uv_loop_init(&h_loop[i]) != 0) { printf("initfail\n"); return; }
  h_creating = 1;
  uv_once(&once, init_once);         /* starts the pool threads; they park at their first lock */
  h_creating = 0;
  if ((int) nthreads != n || h_created != n) { printf("badpool %u %d\n", nthreads, h_created); return; }
  for (i = 0; i < h_nloops; i++)
    if (__real_pthread_create(&h_t[i].th, NULL, loop_thread, (void*) (long) i) != 0) { printf("initfail\n"); return; }
  h_settle();
  /* release the loop threads from the start barrier up to their first real blocking point */
  for (i = 0; i < h_nloops; i++) h_step(i, 0);
  if (h_spin >= 0) { printf("%d:!spin v3\n", h_spin); fflush(stdout); _exit(0); }
  p = f[3];
  for (;;) {
    int t, a, k;
    if (sscanf(p, " %d,%d%n", &t, &a, &k) != 2) break;
    p += k;
    if (!h_step(t, a)) printf("%d:- ", t);
    else if (h_spin >= 0) {
      printf("%d:%s%s!spin v3\n", t, h_log, h_len ? "." : "");
      fflush(stdout);
      _exit(0);
    } else printf("%d:%s ", t, h_log);
  }
  {
    int done = 1, en = 0;
    for (i = 0; i < h_nloops; i++) if (h_t[i].state != T_DONE) done = 0;
    for (i = 0; i < h_nt; i++) if (h_enabled(&h_t[i], 0)) en = 1;
    printf("v%d%s\n", done ? 0 : en ? 1 : 2, h_err ? " schederr" : "");
    if (h_err) fprintf(stderr, "schederr %d\n", h_err);
  }
}

int main(void) {
  static char line[1 << 18];
  struct rlimit core = {0, 0};
  setrlimit(RLIMIT_CORE, &core);
  while (fgets(line, sizeof line, stdin)) {
    pid_t pid; int st;
    size_t n = strlen(line);
    if (n && line[n - 1] == '\n') line[n - 1] = 0;
    fflush(stdout);
    pid = fork();
    if (pid == 0) { alarm(20); run_case(line); fflush(stdout); _exit(0); }
    if (pid < 0 || waitpid(pid, &st, 0) < 0) { printf("forkfail\n"); continue; }
    if (WIFSIGNALED(st))
      printf(" %s\n", WTERMSIG(st) == SIGABRT ? "abort" : WTERMSIG(st) == SIGALRM ? "hang" : "crash");
  }
  return 0;
}
