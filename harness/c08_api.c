/* C08 API-level completion: every public submitter of pool work, through its own completion
 * wrapper, on request memory pre-filled with a byte, in three fates.
 *   case:  <api> <fill 0..255> <run|cancel|busy> <expected work result, ignored here> [pool size, default 1;
 *          sizes above 1 only with fate run]
 *   api:   work (uv_queue_work with after_work_cb), work0 (after_work_cb == NULL), rnd (uv_random),
 *          fs_stat fs_missing fs_access fs_scandir fs_realpath fs_lstat, gai (uv_getaddrinfo numeric),
 *          gni (uv_getnameinfo numeric)
 *   fates: run    - runs to completion
 *          cancel - queued behind a blocked work item (pool of one thread), uv_cancel must return 0
 *          busy   - uv_cancel while the work function runs (work/work0: it blocks on a semaphore) or
 *                   after it finished and before the loop ran (the others): UV_EBUSY, normal completion
 * A sentinel uv_queue_work submitted last tells when everything before it has been reported
 * (one pool thread: FIFO), so nothing waits on the clock; uv_run(DEFAULT) is not used because a
 * lost uv__req_unregister would make it sleep for ever: uv_run(NOWAIT) must return 0 instead.
 *   output: "sub=<rc> can=<rc|-> cbs=<n> st=<status|-> unreg=<registered by the call - still registered at the end> run=<rc> close=<rc>"
 * Every case runs in a forked child (the pool is process-global). */
#define _GNU_SOURCE
#include <stdio.h>
#include <stdlib.h>
#include <string.h>
#include <netdb.h>
#include <signal.h>
#include <unistd.h>
#include <sched.h>
#include <sys/wait.h>
#include <sys/resource.h>
#include "uv.h"

typedef union { uv_work_t work; uv_fs_t fs; uv_getaddrinfo_t gai; uv_getnameinfo_t gni; uv_random_t rnd; uv_req_t req; } any_req;

static uv_loop_t loop;
static uv_sem_t blk_started, blk_go, x_started, x_go, reached;
static int cbs, status_seen, status_set, sentinel_done, x_blocks;
static char rndbuf[16];

static void blocker(uv_work_t* r) { uv_sem_post(&blk_started); uv_sem_wait(&blk_go); }
static void nop_after(uv_work_t* r, int st) { }
static void x_work(uv_work_t* r) { if (x_blocks) { uv_sem_post(&x_started); uv_sem_wait(&x_go); } }
static void x_after(uv_work_t* r, int st) { cbs++; status_seen = st; status_set = 1; }
static void x_fs(uv_fs_t* r) {
  cbs++; status_seen = r->result < 0 ? (int) r->result : 0; status_set = 1; uv_fs_req_cleanup(r);
}
static void x_gai(uv_getaddrinfo_t* r, int st, struct addrinfo* res) {
  cbs++; status_seen = st; status_set = 1; if (st == 0) uv_freeaddrinfo(res);
}
static void x_gni(uv_getnameinfo_t* r, int st, const char* h, const char* s) { cbs++; status_seen = st; status_set = 1; }
static void x_rnd(uv_random_t* r, int st, void* b, size_t n) { cbs++; status_seen = st; status_set = 1; }
static void reach_work(uv_work_t* r) { uv_sem_post(&reached); }
static void sentinel_work(uv_work_t* r) { }
static void sentinel_after(uv_work_t* r, int st) { sentinel_done = 1; }

static int submit(const char* api, any_req* x, const char* dir) {
  char path[600];
  if (!strcmp(api, "work")) return uv_queue_work(&loop, &x->work, x_work, x_after);
  if (!strcmp(api, "work0")) return uv_queue_work(&loop, &x->work, x_work, NULL);
  if (!strcmp(api, "rnd")) return uv_random(&loop, &x->rnd, rndbuf, sizeof rndbuf, 0, x_rnd);
  if (!strcmp(api, "fs_stat")) return uv_fs_stat(&loop, &x->fs, dir, x_fs);
  if (!strcmp(api, "fs_lstat")) return uv_fs_lstat(&loop, &x->fs, dir, x_fs);
  if (!strcmp(api, "fs_missing")) { snprintf(path, sizeof path, "%s/no-such-file", dir); return uv_fs_stat(&loop, &x->fs, path, x_fs); }
  if (!strcmp(api, "fs_access")) return uv_fs_access(&loop, &x->fs, dir, R_OK, x_fs);
  if (!strcmp(api, "fs_scandir")) return uv_fs_scandir(&loop, &x->fs, dir, 0, x_fs);
  if (!strcmp(api, "fs_realpath")) return uv_fs_realpath(&loop, &x->fs, dir, x_fs);
  if (!strcmp(api, "gai")) {
    struct addrinfo hints;
    memset(&hints, 0, sizeof hints);
    hints.ai_family = AF_INET; hints.ai_socktype = SOCK_STREAM; hints.ai_flags = AI_NUMERICHOST;
    return uv_getaddrinfo(&loop, &x->gai, x_gai, "127.0.0.1", NULL, &hints);
  }
  if (!strcmp(api, "gni")) {
    struct sockaddr_in a4;
    uv_ip4_addr("127.0.0.1", 80, &a4);
    return uv_getnameinfo(&loop, &x->gni, x_gni, (const struct sockaddr*) &a4, NI_NUMERICHOST | NI_NUMERICSERV);
  }
  return -9999;
}

static void run_case(char* line) {
  char api[32], fate[16]; int fill, sub, can = 1, has_can = 0, is_work, r, cl;
  unsigned before, after_submit, after;
  const char* dir = getenv("C08_SCRATCH_DIR");
  any_req* x;
  uv_work_t blk, sent, reach;
  int wres_ignored, size = 1, nf; char num[8];
  nf = sscanf(line, "%31s %d %15s %d %d", api, &fill, fate, &wres_ignored, &size);
  if (nf < 3 || size < 1 || size > 8 || (size > 1 && strcmp(fate, "run"))) { printf("bad\n"); return; }
  if (dir == NULL) dir = "/";
  snprintf(num, sizeof num, "%d", size);
  setenv("UV_THREADPOOL_SIZE", num, 1);
  setenv("UV_USE_IO_URING", "0", 1);
  if (uv_loop_init(&loop) || uv_sem_init(&blk_started, 0) || uv_sem_init(&blk_go, 0) ||
      uv_sem_init(&x_started, 0) || uv_sem_init(&x_go, 0) || uv_sem_init(&reached, 0)) { printf("initfail\n"); return; }
  x = malloc(sizeof *x);
  memset(x, fill, sizeof *x);
  is_work = !strcmp(api, "work") || !strcmp(api, "work0");
  before = loop.active_reqs.count;
  if (!strcmp(fate, "cancel")) {
    if (uv_queue_work(&loop, &blk, blocker, nop_after)) { printf("initfail\n"); return; }
    uv_sem_wait(&blk_started);
    before = loop.active_reqs.count;
    sub = submit(api, x, dir);
    after_submit = loop.active_reqs.count;
    can = uv_cancel(&x->req); has_can = 1;
    uv_sem_post(&blk_go);
  } else if (!strcmp(fate, "busy")) {
    x_blocks = is_work;
    sub = submit(api, x, dir);
    after_submit = loop.active_reqs.count;
    if (is_work) uv_sem_wait(&x_started);
    else {
      if (uv_queue_work(&loop, &reach, reach_work, nop_after)) { printf("initfail\n"); return; }
      uv_sem_wait(&reached);           /* the work function of x has returned */
    }
    can = uv_cancel(&x->req); has_can = 1;
    if (is_work) uv_sem_post(&x_go);
  } else {
    sub = submit(api, x, dir);
    after_submit = loop.active_reqs.count;
  }
  if (sub != 0) { printf("sub=%d\n", sub); return; }
  if (uv_queue_work(&loop, &sent, sentinel_work, sentinel_after)) { printf("initfail\n"); return; }
  while (!sentinel_done) { uv_run(&loop, UV_RUN_NOWAIT); if (!sentinel_done) sched_yield(); }
  if (size > 1) {
    /* several threads: the sentinel may overtake x; give x up to 10 s (only a lost request waits that long) */
    int i;
    for (i = 0; i < 10000 && loop.active_reqs.count != 0 && cbs == 0; i++) { uv_run(&loop, UV_RUN_NOWAIT); usleep(1000); }
  }
  r = uv_run(&loop, UV_RUN_NOWAIT);
  after = loop.active_reqs.count;
  cl = uv_loop_close(&loop);
  printf("sub=%d can=", sub);
  if (has_can) printf("%d", can); else printf("-");
  printf(" cbs=%d st=", cbs);
  if (status_set) printf("%d", status_seen); else printf("-");
  /* registered by the submission minus what is still registered at the end */
  printf(" unreg=%d run=%d close=%d\n", (int) (after_submit - before) - (int) after, r != 0, cl);
}

int main(void) {
  static char line[4096];
  struct rlimit core = {0, 0};
  setrlimit(RLIMIT_CORE, &core);
  while (fgets(line, sizeof line, stdin)) {
    pid_t pid; int st;
    fflush(stdout);
    pid = fork();
    if (pid == 0) { alarm(20); run_case(line); fflush(stdout); _exit(0); }
    if (pid < 0 || waitpid(pid, &st, 0) < 0) { printf("forkfail\n"); continue; }
    if (WIFSIGNALED(st))
      printf("%s\n", WTERMSIG(st) == SIGABRT ? "abort" : WTERMSIG(st) == SIGALRM ? "hang" : "crash");
  }
  return 0;
}
