#!/usr/bin/env python3
"""C13 signals: proofs (Properties_C13.v) + correspondence of Model/Signal.v with
src/unix/signal.c (+ the close deferral of core.c) of the current tree: generated scripts
of init/start/start_oneshot/stop/close/raise/run over 1-5 handles on 1-3 loops (one pthread each), real
signals, real sigaction() snapshots after every operation."""
import os, sys
from collections import deque
sys.path.insert(0, os.path.join(os.path.dirname(os.path.abspath(__file__)), "..", "lib"))
import vf

SIGS = [1, 10, 12, 28]          # SIGHUP SIGUSR1 SIGUSR2 SIGWINCH (order of the snapshot)
K_FLAG = "oneshot_flag_sticks_after_restart"
K_RESET = "resethand_window_disposition_default"
K_STALE = "stale_signal_after_same_signum_restart"
K_ONE0 = "oneshot_stopped_without_callback"
K_ONECB = "oneshot_restart_inside_callback_stopped"
K_REARM = "oneshot_rearm_same_signal_in_callback_stopped"
FIXED = os.environ.get("VERIF_C13_FIXED", "1") == "1"   # compare against the model variant with the flag fix
STALEFIX = os.environ.get("VERIF_C13_STALEFIX", "1") == "1"   # model variant fs: one-shot stop only after the callback
RESTARTFIX = os.environ.get("VERIF_C13_RESTARTFIX", "1") == "1"   # model variant fr: stop after the callback only if still watching that signal


# --------------------------------------------------------------------------
# generator
# --------------------------------------------------------------------------
NLOOPS = 3                      # loop threads of the harness; thread index NLOOPS = "the thread running the script"


def gen_case(rng):
    nl = rng.choice([1, 1, 1, 1, 2, 2, 2, 3, 3])
    nh = rng.choice([1, 2, 2, 3, 3, 4]) if nl == 1 else rng.choice([2, 3, 3, 4, 4, 5])
    nsig = rng.choice([1, 1, 2, 2, 3, 4])
    sigs = rng.sample(SIGS, nsig)
    loops = list(range(nl))

    def sig():
        return rng.choice(sigs)

    def kill():
        # which thread receives the signal must not matter: the current one, a parked loop thread
        # (raise() executed there), or pthread_kill() to a parked loop thread
        r = rng.random()
        if r < 0.4:
            return "K%d" % sig()
        if r < 0.7:
            return "K%d,%d" % (sig(), rng.choice(loops + [NLOOPS]))
        return "K%d,%d,1" % (sig(), rng.choice(loops + [NLOOPS]))

    def one(top):
        r = rng.random()
        h = rng.randrange(nh)
        if r < 0.17:
            return "S%d,%d" % (h, sig())
        if r < 0.34:
            return "O%d,%d" % (h, sig())
        if r < 0.46:
            return "T%d" % h
        if r < 0.51:
            return "C%d" % h
        if r < 0.53:
            return rng.choice(["S%d,0", "O%d,9", "S%d,65", "O%d,0"]) % h
        if r < 0.56:
            return "U%d" % rng.choice(loops)          # uv_stop
        if r < 0.60:
            return "J%d" % h                          # use the memory of a closed handle again
        if r < 0.82 or not top:
            return kill()
        return "R%d" % rng.choice(loops)
    # every loop gets a handle first, the rest anywhere
    ops = ["I%d" % (i if i < nl else rng.choice(loops)) for i in range(nh)]
    if nl > 1 and rng.random() < 0.7:
        s0 = sig()                                    # the same signal watched from several loops
        ops += [rng.choice(["S%d,%d", "S%d,%d", "O%d,%d"]) % (h, s0) for h in range(nh)]
    for _ in range(rng.randint(3, 30)):
        ops.append(one(True))
    behs = []
    for _ in range(rng.choice([0, 0, 2, 4, 8, 12])):
        behs.append(" ".join(one(False) for _ in range(rng.choice([0, 1, 1, 2, 3]))))
    for l in loops:
        ops += ["R%d" % l] * 3
    if nl > 1:
        ops += ["R%d" % l for l in loops] * 2
        for l in loops:
            ops += ["R%d" % l] * 2
    return "4096 ; %s ; %s" % (" ".join(ops), " | ".join(behs))


def gen_burst(rng):
    """more than one buffer (32 messages) in the pipe, callbacks that raise again"""
    nh = rng.choice([2, 3, 4])
    s = rng.choice(SIGS)
    s2 = rng.choice([x for x in SIGS if x != s])
    ops = ["I0"] * nh
    for h in range(nh):
        ops.append(rng.choice(["S%d,%d", "S%d,%d", "O%d,%d"]) % (h, s))
    ops.append("S0,%d" % s)
    n = rng.choice([31, 32, 33, 34, 63, 64, 65, 70]) // max(1, nh - 1) + rng.choice([0, 1, 2])
    ops += ["K%d" % s] * n
    if rng.random() < 0.5:
        ops += ["O%d,%d" % (rng.randrange(nh), s2), "K%d" % s2]
    ops += ["R0"]
    behs = []
    for _ in range(rng.choice([3, 10, 40])):
        behs.append(rng.choice(["", "", "K%d" % s, "K%d K%d" % (s, s), "T%d" % rng.randrange(nh),
                                "C%d" % rng.randrange(nh), "S%d,%d" % (rng.randrange(nh), s2),
                                "T%d O%d,%d" % (0, 0, s)]))
    ops += ["R0", "R0", "R0"]
    return "4096 ; %s ; %s" % (" ".join(ops), " | ".join(behs))


def gen_reuse(rng):
    """uv_close + uv_stop in the iteration that caught a signal for the handle, then the handle's memory is
    used for a new watcher (close_cb only after the caught signals are dispatched; no callback for a signal
    raised before the start)"""
    sa, sb = rng.sample(SIGS, 2)
    nh = rng.choice([2, 2, 3])
    a = 0
    ops = ["I0"] * nh + [rng.choice(["S", "O"]) + "%d,%d" % (a, sa)]
    ops += ["S%d,%d" % (h, rng.choice([sa, sb])) for h in range(1, nh)]
    ops[nh + 1] = "S1,%d" % sb
    ops += ["K%d" % sb] * rng.choice([1, 1, 2]) + ["R0"]
    inner = ["K%d" % sa] * rng.choice([1, 1, 2]) + ["C%d" % a] + (["U0"] if rng.random() < 0.8 else [])
    if rng.random() < 0.5:
        rng.shuffle(inner)
    behs = [" ".join(inner)] + [rng.choice(["", "", "U0", "K%d" % sa, "J%d" % a]) for _ in range(3)]
    mid = rng.choice([[], [], ["R0"], ["U0", "R0"], ["R0", "R0"]])
    ops += mid + ["J%d" % a, rng.choice(["S", "O"]) + "%d,%d" % (a, rng.choice([sa, sa, sb]))]
    ops += rng.choice([[], ["K%d" % sa], ["K%d" % sb]]) + ["R0", "R0", "R0", "J%d" % a, "R0", "R0"]
    return "4096 ; %s ; %s" % (" ".join(ops), " | ".join(behs))


def gen_fork(rng):
    """fork() + uv_loop_fork() in the child, then both processes use their copy of the loop: every process
    must get exactly its own deliveries, and the child's signal pipe must be a new one"""
    nh = rng.choice([0, 1, 1, 2, 2])
    sigs = rng.sample(SIGS, rng.choice([1, 2, 2, 3]))
    prefix = ["I0"] * nh
    started_at_fork = rng.random() < 0.4
    for h in range(nh):
        r = rng.random()
        if r < 0.6:
            prefix.append(rng.choice(["S", "O"]) + "%d,%d" % (h, rng.choice(sigs)))
            if rng.random() < 0.5:
                prefix.append("K%d" % rng.choice(sigs))
            if rng.random() < 0.4:
                prefix.append("R0")
            if not started_at_fork:
                prefix.append(rng.choice(["T%d", "T%d", "C%d"]) % h)
    if rng.random() < 0.3:
        prefix.append("R0")
    cnt = {"p": nh, "c": nh}
    tagged = []

    def one(w):
        r = rng.random()
        if r < 0.12 and cnt[w] < 4:
            cnt[w] += 1
            return "I0"
        if cnt[w] == 0:
            return rng.choice(["K%d" % rng.choice(sigs), "R0"])
        h = rng.randrange(cnt[w])
        if r < 0.34:
            return "S%d,%d" % (h, rng.choice(sigs))
        if r < 0.48:
            return "O%d,%d" % (h, rng.choice(sigs))
        if r < 0.56:
            return "T%d" % h
        if r < 0.60:
            return "C%d" % h
        if r < 0.82:
            return "K%d" % rng.choice(sigs)
        return "R0"
    # the typical failing shape first: a process starts a watcher and gets a signal, the OTHER one polls first
    if rng.random() < 0.7:
        w, o = rng.choice([("c", "p"), ("p", "c")])
        if cnt[w] == 0:
            tagged.append(w + ":I0")
            cnt[w] += 1
        sg = rng.choice(sigs)
        tagged += [w + ":S0,%d" % sg, w + ":K%d" % sg, o + ":R0", w + ":R0"]
    for _ in range(rng.randint(4, 18)):
        w = rng.choice("pc")
        tagged.append(w + ":" + one(w))
    tagged += ["p:R0", "c:R0"] * 3
    behs = []
    for _ in range(rng.choice([0, 0, 2, 5])):
        behs.append(rng.choice(["", "K%d" % rng.choice(sigs), "T0", "K%d K%d" % (sigs[0], sigs[-1])]))
    return "fork 4096 ; %s ; %s ; %s" % (" ".join(prefix), " ".join(tagged), " | ".join(behs))


def exhaustive_small(n=3):
    """every program of n operations over 2 handles x 2 signals, followed by a fixed tail"""
    alpha = []
    for h in (0, 1):
        alpha += ["S%d,10" % h, "O%d,10" % h, "S%d,12" % h, "O%d,12" % h, "T%d" % h]
    alpha += ["K10", "K12", "R0", "C1"]
    out = []
    import itertools
    for p in itertools.product(alpha, repeat=n):
        out.append("4096 ; I0 I0 %s R0 K10 K12 R0 R0 ; T0 | " % " ".join(p))
    return out


# --------------------------------------------------------------------------
# monitor: decides from the implementation's own trace whether C13 is violated
# --------------------------------------------------------------------------
class Mon:
    def __init__(self, case):
        cap, ops, behs = case.split(";")
        self.cap = int(cap)
        self.ops = ops.split()
        self.behs = [b.split() for b in behs.split("|")]
        self.findings = []          # (key or None, text)
        self.loop = []              # loop of handle
        self.sig = []               # API view: watched signal, 0 = stopped
        self.mode = []              # 'P' / 'O' of the current session
        self.ever_one = []
        self.closing = []
        self.closed = []
        self.caught = []            # caught a signal in this session
        self.cbs = []               # callbacks in this session
        self.sess = []              # session number
        self.q = []                 # outstanding messages (session, sig), FIFO
        self.old_at_start = []      # outstanding messages of earlier sessions when the session began
        self.in_own_cb_start = []
        self.own_cb_sig = []         # signal of the handle's own callback inside which the session began
        self.race = {}              # sig -> a start happened while a caught one-shot watcher existed
        self.overflow = False
        self.cb_stack = []          # handle whose callback is running, session at entry
        self.cb_count = 0
        self.run = None             # dict of the run in progress
        self.quiet = {}             # loop -> the previous run of that loop had nothing to do
        self.stopf = {}             # loop -> uv_stop() called since the last run ended
        self.inc = []               # handle -> first session number of the current use of the memory

    def bad(self, key, text):
        self.findings.append((key, text))

    # ---- API events ------------------------------------------------------
    def new_session(self, h, s, mode):
        self.sess[h] += 1
        self.sig[h] = s
        self.mode[h] = mode
        self.caught[h] = False
        self.cbs[h] = 0
        self.old_at_start[h] = len(self.q[h])
        self.in_own_cb_start[h] = bool(self.cb_stack and self.cb_stack[-1][0] == h)
        self.own_cb_sig[h] = self.cb_stack[-1][2] if self.in_own_cb_start[h] else None
        if mode == "O":
            self.ever_one[h] = True

    def end_session(self, h):
        self.sig[h] = 0

    def on_start(self, h, s, mode, ret):
        if s == 0:
            if ret != -22:
                self.bad(None, "start with signum 0 returned %d" % ret)
            return
        if self.sig[h] == s:                      # documented short circuit: nothing changes
            if ret != 0:
                self.bad(None, "start on the watched signum returned %d" % ret)
            return
        if ret == 0:
            # item 13: started while a one-shot watcher of s has caught but not been dispatched
            for g in range(len(self.sig)):
                if g != h and self.sig[g] == s and self.caught[g] and (self.mode[g] == "O" or self.ever_one[g]):
                    self.race[s] = True
            self.new_session(h, s, mode)
        else:
            if s in SIGS:
                self.bad(None, "start on signal %d failed with %d" % (s, ret))
            self.end_session(h)

    def watchers(self, s):
        return [h for h in range(len(self.sig)) if self.sig[h] == s]

    def on_raise(self, s, ret):
        w = self.watchers(s)
        self.quiet = {}
        if ret != 0:
            return
        for h in w:
            self.q[h].append((self.sess[h], s))
            self.caught[h] = True
        for l in set(self.loop):
            if sum(len(self.q[h]) for h in range(len(self.q)) if self.loop[h] == l) >= self.cap:
                self.overflow = True

    def on_cb(self, h, s):
        if self.closing[h]:
            self.bad(None, "signal callback on handle %d after uv_close returned" % h)
            return
        if self.sig[h] == 0:
            self.bad(None, "signal callback on handle %d after it was stopped" % h)
            return
        if self.sig[h] != s:
            self.bad(None, "handle %d watches %d but got a callback for %d" % (h, self.sig[h], s))
            return
        q = self.q[h]
        while q and q[0][1] != s:
            q.popleft()                            # dropped silently: belongs to an earlier start
            if self.run:
                self.run["popped"][h] = self.run["popped"].get(h, 0) + 1
        if not q:
            if not self.overflow:
                self.bad(None, "callback on handle %d without a delivered signal" % h)
        else:
            ses, _ = q.popleft()
            if self.run:
                self.run["popped"][h] = self.run["popped"].get(h, 0) + 1
            if ses < self.inc[h]:
                self.bad(None, "handle %d got a callback for a signal caught by the closed handle that used its memory "
                               "before (close_cb ran while that signal was undispatched)" % h)
            elif ses != self.sess[h]:
                self.bad(K_STALE, "handle %d restarted on signal %d got a signal caught before the restart" % (h, s))
        self.cbs[h] += 1
        if self.mode[h] == "O" and self.cbs[h] > 1:
            self.bad(None, "one-shot handle %d got %d callbacks" % (h, self.cbs[h]))

    def on_cb_end(self, h, ses):
        if self.sess[h] == ses and self.sig[h] != 0 and self.mode[h] == "O":
            self.end_session(h)                    # a one-shot handle is stopped after its callback

    # ---- snapshot after every operation -------------------------------------
    def on_snap(self, disp, act):
        for h in range(len(self.sig)):
            a = act[h] == "1"
            if a and self.sig[h] == 0:
                self.bad(None, "handle %d is active although it is stopped" % h)
            if not a and self.sig[h] != 0:
                # stopped by libuv itself
                if self.mode[h] == "P":
                    self.bad(K_FLAG if self.ever_one[h] else None,
                             "handle %d started with uv_signal_start was stopped by libuv after %d callback(s)"
                             % (h, self.cbs[h]))
                elif self.cbs[h] == 0:
                    if self.in_own_cb_start[h] and self.own_cb_sig[h] == self.sig[h]:
                        self.bad(K_REARM, "one-shot handle %d re-armed (stop + start_oneshot) on the same signal inside "
                                          "its own callback was stopped when that callback returned" % h)
                    elif self.in_own_cb_start[h]:
                        self.bad(K_ONECB, "one-shot handle %d restarted inside its own one-shot callback was stopped "
                                          "when that callback returned, without a callback" % h)
                    else:
                        self.bad(K_ONE0 if self.old_at_start[h] > 0 else None,
                                 "one-shot handle %d was stopped without a callback" % h)
                else:
                    self.bad(None, "one-shot handle %d stopped outside its callback" % h)
                self.end_session(h)
        for i, s in enumerate(SIGS):
            d = disp[i]
            w = self.watchers(s)
            if d not in "DHR":
                self.bad(None, "disposition of signal %d is neither default nor libuv's handler (%s)" % (s, d))
            elif not w:
                if d != "D":
                    self.bad(None, "disposition of signal %d is not the default although no handle watches it" % s)
            else:
                unfired = [h for h in w if not (self.mode[h] == "O" and self.caught[h])]
                if d == "D" and unfired:
                    # explained by a known defect: every unfired watcher is either a one-shot started inside
                    # the SA_RESETHAND window (item 13) or a persistent one carrying a stale one-shot flag (item 3)
                    expl = [(K_RESET if (self.mode[h] == "O" and self.race.get(s)) else
                             K_FLAG if (self.mode[h] == "P" and self.ever_one[h]) else None) for h in unfired]
                    key = None if None in expl else (K_RESET if K_RESET in expl else K_FLAG)
                    self.bad(key,
                             "disposition of signal %d is the default while handle %d watches it" % (s, unfired[0]))
                if d == "R":
                    pers = [h for h in w if self.mode[h] == "P"]
                    if pers:
                        self.bad(K_FLAG if all(self.ever_one[h] for h in pers) else None,
                                 "SA_RESETHAND installed for signal %d while handle %d watches it persistently" % (s, pers[0]))

    # ---- runs ----------------------------------------------------------------
    def run_begin(self, l):
        hl = [h for h in range(len(self.q)) if self.loop[h] == l]
        self.run = {"l": l, "n0": {h: len(self.q[h]) for h in hl}, "popped": {},
                    "total0": sum(len(self.q[h]) for h in hl), "cbs": 0, "closed": 0,
                    "skipped": bool(self.stopf.get(l))}         # uv_stop() before the run: no iteration

    def on_close_cb(self, h):
        if not self.closing[h] or self.closed[h]:
            self.bad(None, "unexpected close callback on handle %d" % h)
        self.closed[h] = True
        r = self.run
        if r:
            r["closed"] += 1
        if r and not self.overflow and r["total0"] < 8:
            arrived_now = len(self.q[h]) + r["popped"].get(h, 0) - r["n0"].get(h, 0)
            if arrived_now > 0:
                self.bad(None, "close_cb of handle %d ran while a signal caught for it was still undispatched" % h)

    def run_end(self, l):
        r = self.run
        self.run = None
        self.stopf[l] = False                          # uv_run clears stop_flag on the way out
        if r["skipped"]:
            if r["cbs"] or r["closed"]:
                self.bad(None, "uv_run after uv_stop ran callbacks")
            self.quiet[l] = False
            return
        quiet = r["cbs"] == 0 and not r["closed"]
        twice = quiet and self.quiet.get(l, False)     # second run in a row with nothing to do: the pipe is empty
        self.quiet[l] = quiet
        # messages that were in the pipe when the run began and made no callback: dropped legitimately when
        # they belong to an earlier start of the handle; otherwise they stay outstanding (libuv may deliver
        # them in a later iteration) and count as missed only once the pipe is known to be empty
        for h, n0 in r["n0"].items():
            k = max(0, min(n0 - r["popped"].get(h, 0), len(self.q[h])))
            head = [self.q[h].popleft() for _ in range(k)]
            for ses, s in reversed([m for m in head if m[0] == self.sess[h] and self.sig[h] == m[1]]):
                self.q[h].appendleft((ses, s))
        if not twice:
            return
        for h in r["n0"]:
            while self.q[h]:
                ses, s = self.q[h].popleft()
                if ses == self.sess[h] and self.sig[h] == s and not self.overflow:
                    self.bad(None, "started handle %d missed a delivered signal %d" % (h, s))
            if self.closing[h] and not self.closed[h] and r["n0"][h] == 0:
                self.bad(None, "close_cb of handle %d was not called although nothing is left to dispatch" % h)

    # ---- walking the token stream ------------------------------------------------
    def feed(self, toks):
        toks = list(toks)
        if toks and toks[-1].startswith("lk"):
            lk = toks.pop()
            if lk.startswith("lkBAD"):
                self.bad(None, "the process-wide signal lock was taken or released %s time(s) while not every signal was "
                               "blocked in the calling thread (a handler can then run in the thread that holds the lock "
                               "and wait for it for ever)" % lk[5:])
            elif lk != "lk0":
                self.bad(None, "harness: the read/write wrappers saw no access to the signal lock (%s)" % lk)
        else:
            self.bad(None, "trace without the signal-lock verdict")
        self.toks = toks
        self.pos = 0
        try:
            for o in self.ops:
                self.do_op(o, True)
            if self.pos != len(self.toks):
                self.bad(None, "trailing output")
        except (IndexError, ValueError) as e:
            self.bad(None, "malformed trace (%s)" % e)
        return self.findings

    def nxt(self):
        t = self.toks[self.pos]
        self.pos += 1
        return t

    def do_op(self, o, top):
        k = o[0]
        args = [int(x) for x in o[1:].split(",")] if len(o) > 1 else []
        t = self.nxt()
        if t == "x":
            pass
        elif k == "I":
            for lst, v in ((self.loop, args[0]), (self.sig, 0), (self.mode, "P"), (self.ever_one, False),
                           (self.closing, False), (self.closed, False), (self.caught, False), (self.cbs, 0),
                           (self.sess, 0), (self.q, deque()), (self.old_at_start, 0), (self.in_own_cb_start, False),
                           (self.own_cb_sig, None), (self.inc, 0)):
                lst.append(v)
        elif k in "SO":
            self.on_start(args[0], args[1], "P" if k == "S" else "O", int(t[1:]))
        elif k == "T":
            if t != "r0":
                self.bad(None, "uv_signal_stop returned %s" % t)
            self.end_session(args[0])
        elif k == "C":
            self.closing[args[0]] = True
            self.end_session(args[0])
        elif k == "K":
            self.on_raise(args[0], int(t[1:]))
        elif k == "U":
            self.stopf[args[0]] = True
        elif k == "J":
            h = args[0]
            if not self.closed[h]:
                self.bad(None, "harness re-initialised handle %d before its close_cb" % h)
            self.closing[h] = self.closed[h] = False
            self.sess[h] += 1
            self.inc[h] = self.sess[h]                 # what is still queued belongs to the closed handle
            self.sig[h], self.mode[h], self.ever_one[h], self.caught[h], self.cbs[h] = 0, "P", False, False, 0
        elif k == "F":
            if t == "fp":
                return                                 # the parent: nothing happens, no snapshot
            if t != "f0":
                self.bad(None, "after fork() + uv_loop_fork() the child still uses the signal pipe of the parent (%s)" % t)
            for q in self.q:
                q.clear()                              # what was in the old pipe is the parent's
        elif k == "R":
            self.run_begin(args[0])
            while True:
                t = self.nxt()
                if t[0] == ")":
                    break
                if t[0] == "c":
                    if t.endswith("W"):
                        self.bad(None, "signal callback of handle %s ran on a thread that is not its loop's thread" % t[1:-1])
                        t = t[:-1]
                    h, s = [int(x) for x in t[1:].split(",")]
                    self.run["cbs"] += 1
                    sn = self.nxt()
                    d, a = sn[1:-1].split("|")
                    self.on_snap(d, a)             # state between two messages (shows stops done by libuv)
                    self.on_cb(h, s)
                    ses = self.sess[h]
                    self.cb_stack.append((h, ses, s))
                    kk = self.cb_count
                    self.cb_count += 1
                    for o2 in (self.behs[kk] if kk < len(self.behs) else []):
                        self.do_op(o2, False)
                    e = self.nxt()
                    if e != "e%d" % h:
                        raise ValueError("expected end of callback, got " + e)
                    self.cb_stack.pop()
                    self.on_cb_end(h, ses)
                elif t[0] == "z":
                    if t.endswith("W"):
                        self.bad(None, "close callback of handle %s ran on a thread that is not its loop's thread" % t[1:-1])
                        t = t[:-1]
                    self.on_close_cb(int(t[1:]))
                else:
                    raise ValueError("unexpected token in run: " + t)
        sn = self.nxt()
        if sn[0] != "[":
            raise ValueError("expected snapshot, got " + sn)
        d, a = sn[1:-1].split("|")
        self.on_snap(d, a)
        if k == "R" and t != "x":
            self.run_end(args[0])


def monitor(case, line):
    if line.startswith("crash") or "crash" in line.split()[-1:]:
        return [(None, "the harness process died: " + line[-40:])]
    if line.startswith("envfail") or line.startswith("badcase"):
        return [(None, "harness: " + line)]
    if case.startswith("fork "):
        return monitor_fork(case[5:], line)
    return Mon(case).feed(line.split())


def monitor_fork(case, line):
    """each of the two processes is judged on its own: the prefix + its own operations"""
    cap, prefix, tagged, behs = case.split(";")
    if "||" not in line or "peerdied" in line or "childcrash" in line:
        return [(None, "fork family: a process died or the trace is incomplete: " + line[-60:])]
    ptxt, ctxt = line.split("||")
    ptoks, ctoks = ptxt.split(), ctxt.split()
    if "fp" not in ptoks:
        return [(None, "fork family: no fork marker in the parent's trace")]
    npre = ptoks.index("fp")
    out = []
    for who, toks in (("p", ptoks), ("c", ptoks[:npre] + ctoks)):
        ops = prefix.split() + ["F"] + [t[2:] for t in tagged.split() if t[0] == who and t[1] == ":"]
        m = Mon("%s ; %s ; %s" % (cap, " ".join(ops), behs))
        for k, t in m.feed(toks):
            out.append((k, ("parent: " if who == "p" else "child after fork: ") + t))
    return out


# --------------------------------------------------------------------------
def main():
    chk = vf.Check("C13")
    thorough = chk.tier == "thorough"
    chk.prove()
    try:
        lib = vf.build_libuv(chk.scratch, "ndebug")
        harness = vf.cc_harness(chk.scratch, "c13_signal", ["c13_signal.c"], lib=lib, wraps=("read", "write", "pipe2"))
        model = vf.model_bin("C13")
    except vf.BuildError as e:
        chk.violation("build failed: %s" % str(e)[:300], {"kind": "build", "log": str(e)}, found_input=False)
        chk.finish(rule="build failed")
    mcmd = [model] + (["fixed"] if FIXED else []) + (["stalefix"] if STALEFIX else []) + \
        (["restartfix"] if RESTARTFIX else [])

    cdir = os.path.join(vf.VERIF, "corpus", "C13")

    def read(name):
        p = os.path.join(cdir, name)
        return [l.rstrip("\n") for l in open(p) if l.strip() and not l.startswith("#")] if os.path.exists(p) else []

    if chk.replay:
        import json
        rp = json.load(open(chk.replay))
        cases = [rp["case"]] if "case" in rp else []
    else:
        known_cases = [l.split("\t", 1)[1] for l in read("known.txt")]
        cases = known_cases + read("cases.txt")
        cases += [gen_case(chk.rng) for _ in range(40000 if thorough else 3000)]
        cases += [gen_burst(chk.rng) for _ in range(3000 if thorough else 200)]
        cases += [gen_reuse(chk.rng) for _ in range(3000 if thorough else 300)]
        cases += [gen_fork(chk.rng) for _ in range(6000 if thorough else 600)]
        cases += exhaustive_small(4 if thorough else 3)
    a, rc, err = vf.run_lines([harness], cases, shards=16)
    b, rc2, err2 = vf.run_lines(mcmd, cases, shards=16)
    name = "unix/signal.c = Model/Signal.v"
    if thorough and not chk.replay:
        # monitor-only extra: start/stop churn under a storm of signals from a signal-masked helper thread; fails
        # only when the main thread makes no progress for 3 s (a handler waiting for the lock its thread holds)
        st, _, _ = vf.run_lines([harness], ["stress 30000"] * 4, shards=4)
        chk.cov["stress_runs"] = st
        for l in st:
            if not l.startswith("stress ok") or not l.rstrip().endswith("lk0"):
                chk.violation("%s: start/stop under a storm of signals: %s" % (name, l[:120]),
                              {"kind": "monitor", "obligation": name, "case": "stress 30000", "impl": l}, found_input=True)
                break
    if len(a) != len(cases) or len(b) != len(cases):
        chk.violation("%s: harness/model produced %d/%d lines for %d cases" % (name, len(a), len(b), len(cases)),
                      {"kind": "correspondence", "obligation": name, "stderr": (err or "")[-500:] + (err2 or "")[-500:]},
                      found_input=False)
        chk.finish(rule="line count")
    ndis, reported, ncb, dis = 0, {}, 0, []
    for c, x, y in zip(cases, a, b):
        chk.count(name, c + "=>" + x, nontrivial=" c" in x)
        ncb += x.count(" c")
        fnd = monitor(c, x)
        unknown = [t for k, t in fnd if k is None]
        if vf.canon(x) != vf.canon(y):
            chk.cov["disagreements_checked"] += 1
            ndis += 1
            dis.append((0 if unknown else 1, len(c), c, x, y, unknown, fnd))
            continue
        for k, t in fnd:
            kk = k or t.split(" handle ")[0][:80]
            if kk in reported:
                reported[kk] += 1
                continue
            reported[kk] = 1
            f = chk.match_known(k) if k else None
            if f:
                chk.known_hit(f)
            else:
                chk.violation("%s: trace violates the property: %s%s" % (name, t, (" [key %s]" % k) if k else ""),
                              {"kind": "monitor", "obligation": name, "case": c, "impl": x, "key": k}, found_input=True)
    # report at most three disagreements: those with a monitor verdict first, shortest case first
    for _, _, c, x, y, unknown, fnd in sorted(dis, key=lambda d: d[:2])[:3]:
        reason = unknown[0] if unknown else None
        chk.violation("%s: implementation and model disagree%s" % (name, (": " + reason) if reason else ""),
                      {"kind": "correspondence", "obligation": name, "case": c, "impl": x, "model": y,
                       "monitor": [t for _, t in fnd]}, found_input=reason is not None)
    chk.cov["disagreements"] = ndis
    chk.corr(name, len(cases))
    chk.cov["signal_callbacks_observed"] = ncb
    chk.cov["monitor_findings"] = reported
    chk.cov["model_variant"] = {"flag_fix(fx)": FIXED, "stale_stop_fix(fs)": STALEFIX, "restart_in_cb_fix(fr)": RESTARTFIX}
    if cases:
        chk.sample({"case": cases[min(len(cases) - 1, 40)], "impl": a[min(len(cases) - 1, 40)]})
    chk.finish(
        level="proof",
        rule="random API scripts (1-5 handles, 1-3 loops each created and run on its own pthread and serialised by the "
             "script, signals delivered to a scripted thread by raise()/pthread_kill(), 1-4 of SIGHUP/SIGUSR1/SIGUSR2/SIGWINCH, "
             "scripted callbacks, uv_stop, re-use of a closed handle's memory), bursts of more than 32 messages, close + uv_stop "
             "+ re-use scripts, fork() + uv_loop_fork() scripts with both processes using their loop (own deliveries only, "
             "new signal pipe in the child), every 3-operation program over 2 handles x 2 signals "
             "with a fixed tail; real raise(), sigaction() and uv_is_active() after every operation; a case is "
             "non-trivial when at least one signal callback ran and its (case, trace) pair is distinct",
        trusted=["Coq 8.16.1 kernel (coqc)", "ExtrOcamlBasic extraction + OCaml 4.13.1 (ocaml/zutil.ml, drv_c13.ml)",
                 "harness/c13_signal.c, checks/c13.py (generator, monitor)", "gcc 12, Linux signal delivery",
                 "atomicity of start/stop/handler critical sections (signals blocked + lock) - assumed"])


if __name__ == "__main__":
    main()
