#!/usr/bin/env python3
"""C03 phase order and blocking rules: proofs (Properties_C03.v) + correspondence of
Model/LoopCore.v's uv_run with the real loop on a virtual clock."""
import os, re, sys
sys.path.insert(0, os.path.dirname(os.path.abspath(__file__)))
import loopcore_common as lc
import vf

# tags: 0 timer 1 idle 2 prepare 3 check 4 async 5 after_work 6 close
AFTER_POLL = {4: 0, 5: 0, 3: 1, 6: 2, 0: 3, 1: 4, 2: 5}   # order after a poll until the next poll
BEFORE_FIRST = {0: 3, 1: 4, 2: 5}


def monitor(case, line):
    toks = line.split()
    mode, stage, seen, polled = None, -1, {}, False
    stop_req, alive_at_start, stop_before = False, False, False
    for k, tok in enumerate(toks):
        if tok.startswith("!range:"):
            return "epoll_pwait called with timeout %s, outside [-1, INT_MAX]" % tok[8:].split(":")[0]
        if tok.startswith("!skipped"):
            kk, hh = tok[8:].split(",")
            return ("%s handle %s stayed active for the whole %s phase (active at its first callback, not started, "
                    "stopped or closed during it) but was not called" % (("idle", "prepare", "check")[int(kk) - 1], hh,
                                                                          ("idle", "prepare", "check")[int(kk) - 1]))
        if tok.startswith("!samepass"):
            return ("timer %s, (re)started from inside a timer callback, fired again before the next poll: a timer that "
                    "becomes due during a timer pass has to wait for the next iteration" % tok[9:])
        if tok.startswith("!twice"):
            return "timer %s fired twice without a poll phase (or a new uv_run) in between" % tok[6:]
        if tok.startswith("!btq"):
            return ("uv_backend_timeout() = %s while descriptor registrations are still waiting to be applied "
                    "(loop->watcher_queue is not empty): it has to report 0" % tok[4:])
        if tok.startswith("!overdue"):
            return ("timer %s was armed before the last check/close/poll-phase callback of the iteration ended and was due by "
                    "then, but the timer phase of that iteration did not fire it (the loop's time was not refreshed "
                    "before the timers ran)" % tok[8:])
        if tok.startswith("!nowdec"):
            return "uv_now() went backwards: %s then %s" % tuple(tok[7:].split(","))
        if tok == "!drainhang":
            return ("after uv_close() on every handle uv_run(UV_RUN_DEFAULT) did not return within 4000 poll phases: "
                    "the loop stays alive (or a closed handle keeps firing)")
        if tok == "!spin":
            return "the loop polled more than 4000 times in one case without reaching the callback cap (spinning)"
        if tok[0] == "x":
            stop_req = True
        elif tok[0] == "g":
            mode, stage, seen, polled = int(tok[1:].split(",")[0]), 2, {}, False
            alive_at_start = tok.endswith(",1")
            stop_before = stop_req
        elif tok[0] == "u":
            if alive_at_start and not polled and not stop_req:
                return ("uv_run() on a live loop returned without running an iteration although uv_stop() "
                        "was not called since the previous uv_run() returned (a stop request was not forgotten)")
            mode = None
            stop_req = False
        elif tok[0] == "w" and mode is not None:
            t, fl = tok[1:].split(":")
            t = int(t)
            if mode == 2 and t != 0:
                return "UV_RUN_NOWAIT polled with timeout %d" % t
            if t != 0 and fl[0] == "1":
                return "blocking poll (timeout %d) while an idle handle is active" % t
            if t != 0 and fl[1] == "1":
                return "blocking poll (timeout %d) while a close callback is pending" % t
            if t != 0 and fl[2] == "1":
                return "blocking poll (timeout %d) after uv_stop()" % t
            if t != 0 and fl[3] == "0":
                return "blocking poll (timeout %d) with nothing referenced active" % t
            stage, seen, polled = -1, {}, True
        elif tok[0] == "c" and mode is not None:
            tag, i = int(tok[1:].split(",")[0]), int(tok[1:].split(",")[1])
            order = AFTER_POLL if polled else BEFORE_FIRST
            if tag not in order:
                return "callback of kind %d before the first poll of a uv_run" % tag
            if mode != 0 and not polled and tag == 0:
                return "timer callback before the first iteration outside UV_RUN_DEFAULT"
            if order[tag] < stage:
                return "phase order violated: callback kind %d after a later phase (%s)" % (tag, tok)
            if order[tag] > stage:
                seen = {}
            stage = order[tag]
            if tag in (1, 2, 3):
                if (tag, i) in seen:
                    return "handle %d called twice in one phase" % i
                seen[(tag, i)] = True
        elif tok[0] == "c" and mode is None:
            return "callback outside uv_run (%s)" % tok
    return None


def main():
    chk = vf.Check("C03")
    chk.prove()
    try:
        lib, h, m = lc.build(chk)
    except vf.BuildError as e:
        chk.violation("build failed: %s" % str(e)[:300], {"kind": "build", "log": str(e)}, found_input=False)
        chk.finish(rule="build failed")
    n = 200000 if chk.tier == "thorough" else 2500
    corpus_f = os.path.join(vf.VERIF, "corpus", "C03", "cases.txt")
    corpus = [l.rstrip("\n") for l in open(corpus_f)] if os.path.exists(corpus_f) else []
    cases = corpus + [lc.gen_case(chk.rng, ("huge" if k % 12 == 5 else "mixed") if k % 3 else "timers") for k in range(n)]
    a, b = lc.run_both(h, m, cases)
    vf.diff_cases(chk, "uv_run = Model/LoopCore.v", cases, a, b, monitor)
    chk.sample({"case": cases[len(corpus)], "impl": a[len(corpus)] if len(a) > len(corpus) else None})
    polls = [int(t[1:].split(":")[0]) for l in a for t in l.split() if t[0] == "w"]
    chk.cov["poll_phases_observed"] = len(polls)
    chk.cov["poll_timeout_distribution"] = {"zero": sum(1 for t in polls if t == 0),
                                            "positive": sum(1 for t in polls if t > 0),
                                            "infinite": sum(1 for t in polls if t < 0)}
    chk.cov["callbacks_observed"] = sum(l.count(" c") for l in a)
    chk.finish(
        level="proof",
        rule="random programs over timer/idle/prepare/check/async handles and work requests whose callbacks "
             "start/stop/unref/close other handles and call uv_stop, three run modes, metrics on/off, virtual "
             "clock; the poll timeout of every iteration is observed through the epoll_pwait wrapper and "
             "compared with the model, as are callback order, uv_now and uv_backend_timeout",
        trusted=["Coq 8.16.1 kernel", "extraction (ExtrOcamlBasic) + ocaml/drv_loopcore.ml", "harness/loopcore.c",
                 "checks/c03.py monitor"])


if __name__ == "__main__":
    main()
