#!/usr/bin/env python3
"""C18, address codecs: proofs (Properties_C18.v) + three-way correspondence of
coq/Model/Inet.v with src/inet.c, src/uv-common.c (uv_ip*_addr/_name), src/strscpy.c of the
current tree and with glibc's inet_pton/inet_ntop.

The harness line is "<libuv part> | <monitor data>"; the libuv part is diffed against the
extracted model, the monitor decides from the implementation's own answers (and glibc's)
whether the property is violated."""
import itertools, os, sys
sys.path.insert(0, os.path.join(os.path.dirname(os.path.abspath(__file__)), "..", "lib"))
import vf

EINVAL, ENOSPC, E2BIG, EAFNOSUPPORT = -22, -28, -7, -97


def hx(b):
    return b.hex() if b else "-"


def unhx(h):
    return b"" if h == "-" else bytes.fromhex(h)


def cstr(b):
    i = b.find(b"\0")
    return b if i < 0 else b[:i]


# --------------------------------------------------------------------------
# generators
# --------------------------------------------------------------------------
A20 = [bytes([c]) for c in b"0123456789afAF:.%x"] + [b"\0", b"\x80"]


def exhaustive(alphabet, maxlen):
    out = []
    for n in range(0, maxlen + 1):
        for t in itertools.product(alphabet, repeat=n):
            out.append(b"".join(t))
    return out


OCT = ["0", "1", "9", "10", "99", "100", "199", "200", "249", "250", "255"]
OCT_BAD = ["256", "260", "300", "999", "00", "01", "000", "001", "0255", "1000", "", "1a", "-1", "+1", " 1"]


def gen_v4(rng, valid=True):
    parts = [rng.choice(OCT) if rng.random() < 0.6 else str(rng.randrange(256)) for _ in range(4)]
    if not valid:
        k = rng.random()
        if k < 0.5:
            parts[rng.randrange(4)] = rng.choice(OCT_BAD)
        elif k < 0.7:
            parts = parts[:rng.choice([1, 2, 3])]
        elif k < 0.85:
            parts.append(rng.choice(OCT))
        else:
            parts[rng.randrange(4)] += "."
    return ".".join(parts)


def gen_h16(rng):
    v = rng.choice([0, 0, 1, 0xffff, 0x100, 0xff, 0x10, 0xf, 0xabcd, rng.randrange(65536)])
    s = "%x" % v
    if rng.random() < 0.25:
        s = s.rjust(rng.randint(len(s), 4), "0")
    if rng.random() < 0.25:
        s = s.upper()
    return s


def gen_v6(rng, valid=True):
    """RFC 4291 section 2.2 forms: 8 groups; '::' for >= 1 zero groups; IPv4 tail."""
    v4 = rng.random() < 0.3
    slots = 6 if v4 else 8
    if rng.random() < 0.65:
        total = rng.randint(0, slots - 1)
        left = rng.randint(0, total)
        right = total - left
        if not valid and rng.random() < 0.5:
            left += slots - total + rng.choice([0, 1])          # too many groups around '::'
        l = ":".join(gen_h16(rng) for _ in range(left))
        r = [gen_h16(rng) for _ in range(right)]
        if v4:
            r.append(gen_v4(rng, valid or rng.random() < 0.5))
        s = l + "::" + ":".join(r)
    else:
        n = slots
        if not valid:
            n += rng.choice([-2, -1, 1, 2])
        g = [gen_h16(rng) for _ in range(max(n, 0))]
        if v4:
            g.append(gen_v4(rng, valid or rng.random() < 0.5))
        s = ":".join(g)
    if not valid and rng.random() < 0.4:
        k = rng.random()
        pos = rng.randrange(len(s) + 1)
        if k < 0.3:
            s = s[:pos] + ":" + s[pos:]
        elif k < 0.5:
            s = s[:pos] + rng.choice("0fF1") + s[pos:]
        elif k < 0.7:
            s = s[:pos] + "::" + s[pos:]
        else:
            s = s[:pos] + rng.choice(".gx% -/") + s[pos:]
    return s


MUT = b"0123456789abcdefABCDEF:.%xg /-\x00\x80\xff"


def mutate(rng, b):
    b = bytearray(b)
    for _ in range(rng.choice([1, 1, 1, 2, 3])):
        k = rng.random()
        pos = rng.randrange(len(b) + 1)
        if k < 0.35 and b:
            b[min(pos, len(b) - 1)] = rng.choice(MUT)
        elif k < 0.6:
            b.insert(pos, rng.choice(MUT))
        elif k < 0.8 and b:
            del b[min(pos, len(b) - 1)]
        elif k < 0.9 and b:
            j = rng.randrange(len(b) + 1)
            lo, hi = min(pos, j), max(pos, j)
            b[lo:lo] = b[lo:hi]                                   # duplicate a slice
        else:
            b = b[:pos]
    return bytes(b[:60])


ZONES = [b"%lo", b"%", b"%1", b"%eth0", b"%%", b"%lo%x", b"%\x80", b"%0123456789012345678901234567890123456789"]


def pton_cases(rng, n):
    out = []
    for _ in range(n):
        k = rng.random()
        if k < 0.2:
            s = gen_v4(rng, rng.random() < 0.6).encode()
        else:
            s = gen_v6(rng, rng.random() < 0.6).encode()
        if rng.random() < 0.35:
            s = mutate(rng, s)
        if rng.random() < 0.2:
            s += rng.choice(ZONES)
        out.append(s)
    return out


def long_zone_cases(rng, n):
    """Addresses of 36..47 characters followed by a zone: the 39/45 limits."""
    out = []
    while len(out) < n:
        g = ["%04x" % rng.choice([0x1111, 0xffff, 0x0abc, rng.randrange(65536)]) for _ in range(6)]
        if rng.random() < 0.3:
            g[rng.randrange(6)] = "%x" % rng.randrange(65536)
        s = ":".join(g) + ":" + ".".join(rng.choice(["1", "12", "123", "255", "249", "99", "0"]) for _ in range(4))
        if rng.random() < 0.2:
            s = ":".join("%04x" % rng.randrange(65536) for _ in range(8)) + rng.choice(["", "0", ":", "1:2"])
        if 36 <= len(s):
            out.append(s.encode() + rng.choice(ZONES))
    return out


def ntop6_cases(rng, thorough):
    out = set()
    classes = [lambda: 1, lambda: 0xffff, lambda: 0x0100, lambda: 0x00ff, lambda: 0x0010,
               lambda: rng.randrange(1, 65536)]
    for shape in range(256):                       # zero / non-zero per 16-bit group
        for cl in classes + [None, None, None]:
            ws = []
            for i in range(8):
                if shape >> i & 1:
                    ws.append((cl or rng.choice(classes))())
                else:
                    ws.append(0)
            out.add(b"".join(w.to_bytes(2, "big") for w in ws))
    shapes = range(65536) if thorough else [rng.randrange(65536) for _ in range(4000)]
    for shape in shapes:                           # zero / non-zero per byte
        for v in ([1, None] if thorough else [None]):
            out.add(bytes((v or rng.choice([1, 255, 16, rng.randrange(1, 256)])) if shape >> i & 1 else 0
                          for i in range(16)))
    # the IPv4-embedded forms and their neighbours
    for pre in [b"\0" * 12, b"\0" * 10 + b"\xff\xff", b"\0" * 10 + b"\xff\xfe", b"\0" * 10 + b"\x00\x01",
                b"\0" * 8 + b"\x00\x01\xff\xff", b"\0" * 8 + b"\xff\xff\x00\x00", b"\0" * 11 + b"\x01"]:
        for a in [0, 1, 9, 10, 99, 100, 255]:
            for b_ in [0, 1, 100, 255]:
                for tail in [bytes([a, b_, 0, 0]), bytes([0, 0, a, b_]), bytes([a, 0, 0, b_]), bytes([a, b_, b_, a])]:
                    out.add(pre + tail)
    for _ in range(20000 if thorough else 3000):
        out.add(bytes(rng.randrange(256) for _ in range(16)))
    return sorted(out)


def ntop4_cases(rng, thorough):
    b = [0, 1, 9, 10, 11, 99, 100, 101, 199, 200, 255]
    out = set(bytes(t) for t in itertools.product(b, repeat=4))
    for _ in range(200000 if thorough else 4000):
        out.add(bytes(rng.randrange(256) for _ in range(4)))
    return sorted(out)


# --------------------------------------------------------------------------
# monitors (decide from the implementation's own line)
# --------------------------------------------------------------------------
def split(line):
    a, _, m = line.partition("|")
    return a.strip(), m.strip()


def mon_pton(case, line):
    a, m = split(line)
    mode, h = case.split()[:2]
    if "G!" in a:
        return "write outside the destination"
    f = a.split()
    rc = int(f[0])
    if mode == "px":
        return None if rc == EAFNOSUPPORT else "unsupported family returned %d" % rc
    dst = f[-1]
    mf = dict(x.split("=") for x in m.split() if "=" in x)
    g = m.split()
    grc, gdst = int(g[0][2:]), g[1]
    untouched = ("aa" * (len(dst) // 2)) if mode[0] == "p" else ("00" * (len(dst) // 2))
    if rc == 0 and grc != 1:
        return "accepts %r, which the C library's inet_pton rejects" % cstr(unhx(h))
    if rc != 0 and grc == 1:
        return "rejects %r (rc %d), which the C library's inet_pton accepts" % (cstr(unhx(h)), rc)
    if rc == 0 and dst != gdst:
        return "parses %r to %s, the C library to %s" % (cstr(unhx(h)), dst, gdst)
    if rc != 0 and rc != EINVAL:
        return "unexpected error code %d" % rc
    if rc != 0 and dst != untouched:
        return "destination modified on failure"
    if mf.get("rt") != "1":
        return "uv_inet_pton(uv_inet_ntop(x)) != x for the parsed address %s" % dst
    if mode[0] == "a":
        port = int(case.split()[2])
        if f[1] != "%04x" % (port & 0xffff):
            return "port field is %s for port %d" % (f[1], port)
    return None


def parse_rle(sec):
    res = {}
    for t in sec.split():
        rng_, _, v = t.partition(":")
        lo, hi = rng_.split("-")
        rc, _, w = v.partition("/")
        for s in range(int(lo), int(hi) + 1):
            res[s] = (int(rc), w)
    return res


def mon_ntop(case, line):
    a, m = split(line)
    mode, h = case.split()
    if "G!" in a:
        return "write outside the destination buffer"
    secs = [parse_rle(s) for s in a.split(";")]
    if mode == "nx":
        for sec in secs:
            for s, (rc, w) in sec.items():
                if rc != EAFNOSUPPORT or w:
                    return "unsupported family: rc %d, wrote %s" % (rc, w)
        return None
    mf = dict(x.split("=") for x in m.split())
    gtext = unhx(mf["g"])
    need = len(gtext) + 1
    names = ["uv_inet_ntop", "uv_ip%s_name" % mode[1], "uv_ip_name"]
    for nm, sec in zip(names, secs):
        for s in range(0, 51):
            rc, w = sec[s]
            if s < need:
                if rc == 0:
                    return "%s(size %d) returns 0 although %r needs %d bytes" % (nm, s, gtext, need)
                if rc != ENOSPC:
                    return "%s(size %d) returns %d, not UV_ENOSPC" % (nm, s, rc)
                if w:
                    return "%s(size %d) modified the destination although it returned UV_ENOSPC" % (nm, s)
            else:
                if rc != 0:
                    return "%s(size %d) returns %d although %r fits" % (nm, s, rc, gtext)
                if unhx(w or "-") != gtext + b"\0":
                    return "%s(size %d) prints %r, the C library %r" % (nm, s, unhx(w or "-"), gtext)
    if mf.get("rt") != "1":
        return "uv_inet_pton(uv_inet_ntop(%s)) does not give the address back" % h
    return None


def mon_strscpy(case, line):
    a, m = split(line)
    if "G!" in a:
        return "uv__strscpy wrote outside d[0..n)"
    s = cstr(unhx(case.split()[1]))
    for t in a.split():
        n, _, v = t.partition(":")
        n = int(n)
        rc, _, w = v.partition("/")
        rc, w = int(rc), unhx(w or "-")
        if n == 0:
            if rc != 0 or w:
                return "n=0: rc %d wrote %r" % (rc, w)
        elif len(s) < n:
            if rc != len(s) or w != s + b"\0":
                return "n=%d: rc %d wrote %r for %r" % (n, rc, w, s)
        else:
            if rc != E2BIG or w != s[:n - 1] + b"\0":
                return "n=%d: rc %d wrote %r for %r (expected truncation + UV_E2BIG)" % (n, rc, w, s)
    return None


def main():
    chk = vf.Check("C18")
    thorough = chk.tier == "thorough"
    rng = chk.rng
    chk.prove()
    try:
        lib = vf.build_libuv(chk.scratch, "ndebug")
        h = vf.cc_harness(chk.scratch, "c18_inet", ["c18_inet.c"], lib=lib)
        model = vf.model_bin("C18")
    except vf.BuildError as e:
        chk.violation("build failed: %s" % str(e)[:300], {"kind": "build", "log": str(e)}, found_input=False)
        chk.finish(rule="build failed")

    def run(name, cases, mon, shards=16):
        import time
        t0 = time.time()
        a, rc, err = vf.run_lines([h], cases, shards=shards)
        b, rc2, err2 = vf.run_lines([model], cases, shards=shards)
        if rc or rc2:
            chk.violation("%s: harness rc=%d model rc=%d %s" % (name, rc, rc2, (err or err2 or "")[:200]),
                          {"kind": "harness"}, found_input=False)
        t1 = time.time()
        a_uv = [split(x)[0] for x in a]
        mdata = dict(zip(cases, a))
        vf.diff_cases(chk, name, cases, a_uv, b, lambda c, l: mon(c, mdata.get(c, l)))
        if os.environ.get("VERIF_DEBUG"):
            sys.stderr.write("%s: %d cases, run %.1fs, diff+monitor %.1fs\n" % (name, len(cases), t1 - t0, time.time() - t1))
        return a

    corpus_dir = os.path.join(vf.VERIF, "corpus", "C18")

    if chk.replay:
        import json
        rp = json.load(open(chk.replay))
        case = rp.get("case")
        if rp.get("mode"):                      # a replay file of the UTF-8/IDNA/UTF-16 part
            import c18_idna
            c18_idna.replay(chk, lib)
        elif not case:
            print("replay file has no case (proof/build obligation): %s" % rp.get("what"))
        else:
            mon = {"p": mon_pton, "a": mon_pton, "n": mon_ntop, "s": mon_strscpy}[case[0]]
            a, _, _ = vf.run_lines([h], [case])
            b, _, _ = vf.run_lines([model], [case])
            r = mon(case, a[0])
            print("case  %s\nimpl  %s\nmodel %s\nmonitor %s" % (case, a[0], b[0], r or "ok"))
            if vf.canon(split(a[0])[0]) != vf.canon(b[0]) or r:
                chk.violation("replay still fails: %s" % (r or "implementation and model disagree"), rp)
        chk.finish(level="proof", rule="replay of one recorded case")

    def corpus(fn):
        p = os.path.join(corpus_dir, fn)
        return [l.strip() for l in open(p) if l.strip() and not l.startswith("#")] if os.path.exists(p) else []

    # ---- (a) text -> address --------------------------------------------
    ex_full = exhaustive([bytes([c]) for c in range(256)], 2)
    ex20 = exhaustive(A20, 5 if thorough else 4)
    ex4 = exhaustive([bytes([c]) for c in b"0125."], 8 if thorough else 7)
    ex6 = exhaustive([bytes([c]) for c in b"01f:.%"], 8 if thorough else 6)
    ex6b = exhaustive([bytes([c]) for c in b"1:."], 12 if thorough else 10)
    gen = pton_cases(rng, 400000 if thorough else 40000)
    lz = long_zone_cases(rng, 20000 if thorough else 2000)
    cases = corpus("pton.txt")
    seen = set()
    for s in ex_full + ex20:
        cases.append("p4 " + hx(s))
        cases.append("p6 " + hx(s))
    for s in ex4:
        cases.append("p4 " + hx(s))
    for s in ex6 + ex6b:
        cases.append("p6 " + hx(s))
    for s in gen + lz:
        cases.append("p4 " + hx(s))
        cases.append("p6 " + hx(s))
        port = rng.choice([0, 80, 65535, 0x1234, 65536 + 7])
        cases.append("a4 %s %d" % (hx(s), port))
        cases.append("a6 %s %d" % (hx(s), port))
    cases.append("px " + hx(b"::1"))
    cases = [c for c in cases if not (c in seen or seen.add(c))]
    a = run("inet.c/uv-common.c text->address = Model/Inet.v", cases, mon_pton)
    acc = sum(1 for x in a if x.startswith("0 "))
    chk.cov["pton_cases"] = len(cases)
    chk.cov["pton_accepted"] = acc
    chk.sample({"case": cases[-2], "impl": a[-2]})

    # ---- (b) address -> text, every size 0..50 ----------------------------
    n6 = ["n6 " + hx(x) for x in ntop6_cases(rng, thorough)]
    n4 = ["n4 " + hx(x) for x in ntop4_cases(rng, thorough)]
    cases = corpus("ntop.txt") + n4 + n6 + ["nx " + hx(b"\1\2\3\4")]
    a = run("inet.c address->text (sizes 0..50) = Model/Inet.v", cases, mon_ntop)
    chk.cov["ntop_cases"] = len(cases)
    chk.cov["ntop_calls"] = len(cases) * 51 * 3
    chk.sample({"case": cases[-2], "impl": a[-2]})

    # ---- (c) uv__strscpy ------------------------------------------------------
    sc = [b"", b"a", b"ab", b"abc\0def", b"\0", b"\xff\xfe"] + \
         [bytes(rng.choice(b"ab\x00\xff\x01z") for _ in range(rng.randint(0, 24))) for _ in range(400)]
    cases = ["sc " + hx(s) for s in sc]
    a = run("strscpy.c = Model/Inet.v", cases, mon_strscpy, shards=2)

    # ---- (d) the UTF-8 / IDNA / UTF-16 part of C18 (checks/c18_idna.py) -------------------
    rule2, trusted2 = "", []
    try:
        import c18_idna
        rule2, trusted2 = c18_idna.RULE, list(c18_idna.TRUSTED)
        c18_idna.run(chk, lib, thorough)
    except Exception as e:                      # noqa: a crash of that part is a failed check, not a crash
        import traceback
        chk.violation("UTF-8/IDNA/UTF-16 part (checks/c18_idna.py) raised %s: %s" % (type(e).__name__, str(e)[:200]),
                      {"kind": "harness", "traceback": traceback.format_exc()[-3000:]}, found_input=False)

    chk.finish(
        level="proof",
        rule="text->address: every byte string of length <= 2, every string of length <= 4 (thorough 5) over "
             "{0-9 a f A F : . % x NUL 0x80}, every string of length <= 7 over {0 1 2 5 .}, <= 6 (thorough 8) over {0 1 f : . %}, "
             "<= 10 (thorough 12) over {1 : .}, grammar-generated + mutated strings with and without %zone, through "
             "uv_inet_pton, uv_ip4_addr, uv_ip6_addr; address->text: all 2^8 group shapes x value classes, "
             "sampled (thorough: all 2^16) byte shapes, IPv4-embedded neighbours, random; each through uv_inet_ntop/uv_ipX_name/"
             "uv_ip_name at every size 0..50 with guard bytes; uv__strscpy at every n <= len+2.  Monitor: "
             "agreement with glibc inet_pton/inet_ntop, ENOSPC iff text+NUL > size, untouched destination on "
             "failure, guards intact, round trip of the implementation's own output.  " + rule2,
        trusted=sorted(set(trusted2 + ["Coq 8.16.1 kernel (coqc)", "ExtrOcamlBasic extraction + OCaml 4.13.1 + zarith glue (ocaml/zutil.ml, drv_c18.ml)",
                 "harness/c18_inet.c, checks/c18.py (generators, monitors)", "glibc 2.36 inet_pton/inet_ntop as external oracle",
                 "gcc 12"])))


if __name__ == "__main__":
    main()
