#!/usr/bin/env python3
"""C11 file operations: proofs (Properties_C11.v) + correspondence of Model/Fs.v with
src/unix/fs.c and the io_uring fs part of src/unix/linux.c of the current tree.

 (i)   buffer arithmetic: uv_fs_read / uv_fs_write (sync) on a scratch file, every
       read/write system call intercepted, forced short per script, answers logged and
       fed to the model (uv__fs_read, uv__fs_write_all, uv__fs_buf_offset).
 (ii)  routes: operation sequences on a scratch tree run synchronously, through the
       thread pool, through the SQPOLL ring and with raw POSIX calls; results, output,
       trees compared with each other (monitor) and route taken / SQE contents / live
       uv__malloc blocks compared with the model (sqe_of, takes_ring, ledger).
 (iii) the same harness under ASan/LSan (uv_fs_req_cleanup twice in every result state).
"""
import json, os, re, sys
sys.path.insert(0, os.path.join(os.path.dirname(os.path.abspath(__file__)), "..", "lib"))
import vf

IOV_MAX = 1024
# Two defects found by this check were repaired in /repo (995ab40: uv__fs_write_all stopped at a
# window of IOV_MAX empty buffers; fadabd2: io_uring ftruncate length in the wrong sqe field).
# Their witnesses stay in corpus/C11 as regression cases; a return is a plain violation.
# A third defect (e5b94ea: ring statx retried on the pool leaked its struct statx) is covered by
# the fault-injection op "statx95" in corpus/C11/routes_statx.txt; a return is a plain violation.
WRAPS_BUFS = ["write", "writev", "pwrite64", "read", "readv", "pread64"]


# ----------------------------------------------------------------------------
# (i) buffer arithmetic
# ----------------------------------------------------------------------------
def fnv(bs, h=2166136261):
    for b in bs:
        h = ((h ^ b) * 16777619) & 0xFFFFFFFF
    return h


def pat_buf(g): return (g * 31 + 7) % 251
def pat_file(i): return (i * 13 + 5) % 253
def pat_fill(g): return 200 + g % 50


def parse_lens(s):
    out = []
    if s == "-":
        return out
    for tok in s.split(","):
        if not tok:
            continue
        if tok[0] == "r":
            c, l = tok[1:].split("x")
            out += [int(l)] * int(c)
        else:
            out.append(int(tok))
    return out


def rle(lens):
    out, i = [], 0
    while i < len(lens):
        j = i
        while j < len(lens) and lens[j] == lens[i]:
            j += 1
        out.append("r%dx%d" % (j - i, lens[i]) if j - i > 2 else ",".join(str(lens[i]) for _ in range(j - i)))
        i = j
    return ",".join(out)


def gen_lens(rng):
    n = rng.choice([1, 1, 1, 2, 2, 3, 4, 5, 8, 17, 60, 300, 1023, 1024, 1025, 1026, 1100, 1100,
                    rng.randint(1, 1100)])
    style = rng.random()
    if style < 0.15:
        vals, zp = [1], 0.0
    elif style < 0.45:
        vals, zp = [1, 2, 3, 7], 0.15
    elif style < 0.65:
        vals, zp = [1, 2, 5, 40], 0.5
    elif style < 0.8:
        vals, zp = [3], 0.0
    else:
        vals, zp = [1, 4, 64 if n < 200 else 6], 0.05
    lens = [0 if rng.random() < zp else rng.choice(vals) for _ in range(n)]
    r = rng.random()
    if r < 0.06 and n >= 20:            # a long run of empty buffers somewhere
        a = rng.randrange(n)
        for i in range(a, min(n, a + rng.choice([5, 30, 1023, 1024, 1030]))):
            lens[i] = 0
    if r > 0.97:
        lens = [0] * n
    return lens


def gen_script(rng, lens, is_read):
    total = sum(lens)
    cum, acc = [], 0
    for l in lens[:3000]:
        acc += l
        cum.append(acc)
    k = rng.choice([0, 0, 1, 2, 3, 5, 9, 14])
    out, pos = [], 0
    for _ in range(k):
        r = rng.random()
        if r < 0.2:
            out.append("f")
        elif r < 0.3:
            out.append("e4")
        elif r < 0.36:
            out.append("e%d" % rng.choice([5, 28, 9]))
        else:
            c = rng.random()
            if c < 0.45 and cum:      # stop exactly on / next to a buffer boundary
                b = rng.choice(cum) + rng.choice([0, 0, 0, -1, 1])
                step = b - pos if b > pos else rng.randint(1, 9)
            elif c < 0.5:
                step = 0
            else:
                step = rng.choice([1, 1, 2, 3, 10, 100, 1000, max(1, total // 2)])
            step = max(0, step)
            out.append("s%d" % step)
            if not is_read:
                pos += step
    return out


def bufs_cases(rng, n):
    out = []
    for _ in range(n):
        mode = "W" if rng.random() < 0.6 else "R"
        lens = gen_lens(rng)
        filelen = rng.choice([0, 10, 100, 700, 5000])
        off = rng.choice([-1, -1, -1, 0, 0, rng.randint(0, 3000), rng.randint(0, max(0, filelen)), -7])
        pos0 = rng.choice([0, 0, rng.randint(0, filelen), filelen])
        out.append("%s %d %d %d %s ; %s" % (mode, off, pos0, filelen, rle(lens),
                                             " ".join(gen_script(rng, lens, mode == "R"))))
    return out


CALL_RE = re.compile(r"^([a-zA-Z]):(\d+):(\d+):(-?\d+):(\d+):(-?\d+)$")


def parse_bufs_line(line):
    m = re.match(r"^r=(\S+) calls=(\S*) file=(\d+):(\d+) bufs=(\d+) pos=(-?\d+)$", line.strip())
    if not m:
        return None
    calls = []
    for c in m.group(2).split(","):
        if not c:
            continue
        cm = CALL_RE.match(c)
        if not cm:
            return None
        calls.append((cm.group(1), int(cm.group(2)), int(cm.group(3)), int(cm.group(4)),
                      int(cm.group(5)), int(cm.group(6))))
    return {"r": m.group(1), "calls": calls, "flen": int(m.group(3)), "fhash": int(m.group(4)),
            "bhash": int(m.group(5)), "pos": int(m.group(6))}


def bufs_monitor(case, line):
    """The property itself on the implementation's own observations: the bytes of the
    buffer list arrive in order at consecutive positions, the result is their number,
    nothing is dropped unless the OS reported an error; reads fill the buffers in order
    with the file's bytes and report the count."""
    if line.startswith("crash"):
        return "the library crashed or hung on this input (%s)" % line[:80]
    p = parse_bufs_line(line)
    if p is None:
        return "unparsable harness line: %s" % line[:120]
    head = case.split(";")[0].split()
    mode, off, pos0, filelen = head[0], int(head[1]), int(head[2]), int(head[3])
    lens = parse_lens(head[4]) if len(head) > 4 else []
    total = sum(lens)
    try:
        r = int(p["r"])
    except ValueError:
        return "result is %s" % p["r"]
    if not lens:
        return None if r == -22 else "no buffers: result %d, expected UV_EINVAL" % r
    f0 = [pat_file(i) for i in range(filelen)]
    if mode == "W":
        data = [pat_buf(g) for g in range(total)]
        done, f, pos = 0, list(f0), pos0
        err, zero_on_nonempty, zero_on_empty = None, False, False
        for (k, cnt, nbytes, coff, h, ans) in p["calls"]:
            if cnt > IOV_MAX:
                return "a call with %d > IOV_MAX buffers" % cnt
            if ans < 0:
                if ans != -4:
                    err = ans
                continue
            want = (off + done) if off >= 0 else -1
            if coff != want:
                return "write at offset %d, expected %d (after %d bytes)" % (coff, want, done)
            if ans > nbytes:
                return "kernel answer above the request"
            if ans == 0:
                if nbytes > 0:
                    zero_on_nonempty = True
                else:
                    zero_on_empty = True
                continue
            at = pos if off < 0 else coff
            chunk = data[done:done + ans]
            if len(chunk) != ans:
                return "more bytes written (%d) than the list holds (%d)" % (done + ans, total)
            if at > len(f):
                f += [0] * (at - len(f))
            f[at:at + ans] = chunk
            done += ans
            if off < 0:
                pos += ans
        if p["flen"] != len(f) or p["fhash"] != fnv(f):
            return "file content is not the first %d bytes of the buffer list at consecutive positions" % done
        if done > 0 and r != done:
            return "uv_fs_write returned %d but %d bytes were written" % (r, done)
        if done == 0 and err is None and r != 0:
            return "uv_fs_write returned %d with nothing written and no error" % r
        if done == 0 and err is not None and r != err:
            return "uv_fs_write returned %d, the OS reported %d" % (r, err)
        if off < 0 and p["pos"] != pos0 + done:
            return "descriptor position %d, expected %d" % (p["pos"], pos0 + done)
        if err is None and not zero_on_nonempty and done != total:
            return "only %d of %d bytes written although the OS reported no error%s" % (
                done, total, " (stopped after a window of empty buffers)" if zero_on_empty else "")
        return None
    # read
    bufs = [pat_fill(g) for g in range(total)]
    calls = p["calls"]
    if len(calls) > 1:
        return "uv_fs_read made %d system calls" % len(calls)
    if not calls:
        return None if r == 0 and p["bhash"] == fnv(bufs) else "no system call but result %d" % r
    (k, cnt, nbytes, coff, h, ans) = calls[0]
    if ans < 0:
        if r != ans:
            return "read failed with %d but uv_fs_read returned %d" % (ans, r)
        return None if p["bhash"] == fnv(bufs) else "buffers changed by a failed read"
    start = pos0 if off < 0 else off
    if coff != (off if off >= 0 else -1):
        return "read at offset %d, expected %d" % (coff, off)
    got = f0[start:start + ans]
    if len(got) != ans:
        return "read reports %d bytes, the file has %d from there" % (ans, len(got))
    bufs[:ans] = got
    if r != ans:
        return "uv_fs_read returned %d, %d bytes were delivered" % (r, ans)
    if p["bhash"] != fnv(bufs):
        return "buffers are not filled in order with the file's bytes from offset %d" % start
    if off < 0 and p["pos"] != pos0 + ans:
        return "descriptor position %d, expected %d" % (p["pos"], pos0 + ans)
    return None


# ----------------------------------------------------------------------------
# (ii) routes
# ----------------------------------------------------------------------------
FILES = ["a.txt", "b.txt", "e.txt", "ro.txt", "d1/x", "d1/y"]
DIRS = ["d1", "d2", "d1/sub", ".", "odd", "odd"]
ODD = ["odd/+@x2e2e2e", "odd/+@x2e2e2e2e", "odd/+@x2e2e2e2e2e", "odd/..a", "odd/.a", "odd/a.", "odd/+@x20", "odd/a+@x20+b",
       "odd/new+@x0a+line", "odd/+@xc3a974c3a9", "odd/+@xfffe", "odd/Case", "odd/case", "odd/-rf", "odd/--", "odd/+@n255"]
LINKS = ["ln", "dang", "lnd"]
MISSING = ["nope", "d1/nope", "nope/x", "a.txt/x"]
NEW = ["n1", "n2", "d2/n3", "d1/n4"]


ODDHEX = ["2e2e2e", "2e2e2e2e", "2e2e61", "2e", "2e2e", "20", "0a", "ff", "2d2d", "c3a9", "412e", "2e2e2e2e2e2e", "612062"]


def any_path(rng):
    return rng.choice(rng.choice([FILES, FILES, DIRS, LINKS, MISSING, NEW, ODD]))


def small_lens(rng):
    r = rng.random()
    if r < 0.05:
        return "-"
    if r < 0.12:
        n = rng.choice([1025, 1030, 1100])
        return "r%dx%d" % (n, rng.choice([1, 2]))
    if r < 0.2:
        return "r%dx%d" % (rng.choice([5, 9, 1024]), rng.choice([1, 3]))
    return ",".join(str(rng.choice([0, 1, 3, 8, 50, 400])) for _ in range(rng.choice([1, 1, 2, 3, 4, 5, 6])))


def gen_op(rng):
    s = "s%d" % rng.choice([0, 0, 1, 1, 2, 3])
    r = rng.random()
    kinds = [
        (10, lambda: "open %s %s %d %s" % (s, any_path(rng), rng.choice([0, 0, 1, 2, 2, 66, 577, 578, 1089, 194, 65536, 131072 | 0]),
                                           rng.choice(["644", "600", "0"]))),
        (6, lambda: "close %s" % s),
        (8, lambda: "read %s %d %s" % (s, rng.choice([-1, -1, 0, 5, 900, 100000]), small_lens(rng))),
        (8, lambda: "write %s %d %s" % (s, rng.choice([-1, -1, 0, 5, 2000]), small_lens(rng))),
        (6, lambda: "stat %s" % any_path(rng)),
        (5, lambda: "lstat %s" % any_path(rng)),
        (4, lambda: "fstat %s" % s),
        (4, lambda: "mkdir %s %s" % (any_path(rng), rng.choice(["755", "700", "0"]))),
        (3, lambda: "rmdir %s" % any_path(rng)),
        (4, lambda: "unlink %s" % any_path(rng)),
        (4, lambda: "rename %s %s" % (any_path(rng), any_path(rng))),
        (3, lambda: "link %s %s" % (any_path(rng), any_path(rng))),
        (3, lambda: "symlink %s %s" % (any_path(rng), any_path(rng))),
        (3, lambda: "readlink %s" % any_path(rng)),
        (3, lambda: "realpath %s" % any_path(rng)),
        (4, lambda: "ftruncate %s %d" % (s, rng.choice([0, 0, 5, 7, 2000, 70000]))),
        (2, lambda: "fsync %s" % s),
        (2, lambda: "fdatasync %s" % s),
        (2, lambda: "chmod %s %s" % (any_path(rng), rng.choice(["600", "755", "444"]))),
        (2, lambda: "fchmod %s %s" % (s, rng.choice(["600", "640"]))),
        (2, lambda: "utime %s %s %s" % (any_path(rng), rng.choice(["1000000.5", "5", "86400.123456"]), rng.choice(["2000000.25", "7"]))),
        (2, lambda: "futime %s 12345.5 54321.75" % s),
        (1, lambda: "lutime %s 11 22.5" % any_path(rng)),
        (2, lambda: "access %s %d" % (any_path(rng), rng.choice([0, 4, 2, 1]))),
        (2, lambda: "mkdtemp %s" % rng.choice(["tXXXXXX", "d1/tXXXXXX", "nope/tXXXXXX", "bad"])),
        (2, lambda: "mkstemp %s %s" % (s, rng.choice(["fXXXXXX", "d2/fXXXXXX", "nope/fXXXXXX", "badXXXXX"]))),
        (4, lambda: "scandir %s %d" % (any_path(rng), rng.choice([0, 0, 1, 2, 9]))),
        (4, lambda: "readdir %s %d" % (any_path(rng), rng.choice([16, 16, 1, 2, 0]))),
        (3, lambda: "copyfile %s %s %d" % (any_path(rng), any_path(rng), rng.choice([0, 0, 1, 2, 8]))),
        (2, lambda: "copyfile %s %s %d" % tuple(rng.sample([rng.choice(FILES), "xdev/" + rng.choice(["t.txt", "n1", "n2", "nope/x"])], 2)
                                                + [rng.choice([0, 0, 1, 2, 4, 3])])),
        (2, lambda: "open %s xdev/%s %d 644" % (s, rng.choice(["t.txt", "n1", "n2"]), rng.choice([0, 2, 66, 577, 578]))),
        (3, lambda: "sendfile %s s%d %d %d" % (s, rng.choice([0, 1, 2]), rng.choice([0, 3, 5000]), rng.choice([0, 10, 700, 100000]))),
        (1, lambda: "statfs %s" % any_path(rng)),
        (1, lambda: "chown %s %d %d" % (any_path(rng), rng.choice([0, 1]), rng.choice([0, 2]))),
        (1, lambda: "fchown %s 3 4" % s),
        (1, lambda: "lchown %s 5 6" % any_path(rng)),
        (1, lambda: "burst %s %d %d" % (rng.choice(["mkdir", "stat", "open", "mixed"]),
                                        rng.choice([63, 64, 65, 66, 128, 256]), rng.choice([1, 2]))),
        (2, lambda: "symlink @t%d %s" % (rng.choice([1, 255, 256, 257, 1000, 4094, 4095, 4096, 5000, rng.randint(200, 4200)]),
                                         rng.choice(["L1", "L2", "d2/L3"]))),
        (2, lambda: "readlink %s" % rng.choice(["L1", "L2", "d2/L3"])),
        (2, lambda: "%s @p%d:%s" % (rng.choice(["stat", "lstat", "unlink", "rmdir", "readlink", "realpath", "scandir"]),
                                    rng.choice([4094, 4095, 4096, 4097, 5000]), rng.choice(["a.txt", "d1", "ln", "nope"]))),
        (1, lambda: "open s%d @p%d:%s %d 644" % (rng.choice([0, 1]), rng.choice([4095, 4096]), rng.choice(["a.txt", "n1"]), rng.choice([0, 66]))),
        (1, lambda: "mkdir @p%d:%s 755" % (rng.choice([4095, 4096]), rng.choice(["n2", "d1"]))),
        (1, lambda: "rename %s %s" % tuple(rng.sample(["@p4095:a.txt", "@p4096:a.txt", "@p4095:n1", "b.txt", "@n255", "@n256"], 2))),
        (1, lambda: "%s @n%d+XXXXXX" % (rng.choice(["mkdtemp", "mkstemp s2"]), rng.choice([248, 249, 250]))),
        (1, lambda: "open s2 d2/+@n%d 66 644" % rng.choice([254, 255, 256])),
        (1, lambda: "mkdir %s/+@x%s 755" % (rng.choice(["d2", "odd", "d1"]), rng.choice(ODDHEX))),
        (1, lambda: "open s2 %s/+@x%s 66 644" % (rng.choice(["d2", "odd", "d1"]), rng.choice(ODDHEX))),
        (1, lambda: "symlink a.txt %s/+@x%s" % (rng.choice(["d2", "odd", "d1"]), rng.choice(ODDHEX))),
        (1, lambda: "cancel %s" % rng.choice(["stat", "read", "write", "rename", "scandir", "mkdtemp", "readlink"])),
    ]
    tot = sum(w for w, _ in kinds)
    x = rng.random() * tot
    for w, f in kinds:
        x -= w
        if x < 0:
            return f()
    return kinds[0][1]()


def routes_cases(rng, n):
    out = []
    for _ in range(n):
        ops = ["open s0 %s %d 644" % (rng.choice(FILES), rng.choice([2, 2, 0, 1026]))] if rng.random() < 0.6 else []
        if rng.random() < 0.4:
            ops.append("open s1 %s 66 644" % rng.choice(NEW + FILES))
        for _ in range(rng.randint(3, 14)):
            ops.append(gen_op(rng))
        out.append(" | ".join(ops))
    return out


SEG_RE = re.compile(r"^(\d+):(\w+) S\{(.*?)\} P\{(.*?)\} R\{(.*?)\} X\{(.*?)\}\s*$")


def parse_cell(txt):
    """'res=0 cb=1 via=p m=1,2,1,1 / res=3 ... out=..' -> list of parts, each dict + flags"""
    parts = []
    for part in txt.split(" / "):
        d, flags = {}, []
        for tok in part.split():
            if "=" in tok:
                k, v = tok.split("=", 1)
                d[k] = v
            else:
                flags.append(tok)
        d["_flags"] = flags
        parts.append(d)
    return parts


def parse_routes_line(line):
    segs = [s for s in line.split(" ; ")]
    ops, tree = [], None
    for s in segs:
        s = s.strip()
        if s.startswith("tree "):
            tree = dict(x.split("=", 1) for x in s.split()[1:])
            continue
        if s.startswith("sys ") or not s:
            continue
        m = SEG_RE.match(s)
        if not m:
            return None
        ops.append({"i": int(m.group(1)), "name": m.group(2),
                    "S": parse_cell(m.group(3)), "P": parse_cell(m.group(4)),
                    "R": parse_cell(m.group(5)), "X": parse_cell(m.group(6))})
    if tree is None:
        return None
    return {"ops": ops, "tree": tree}


def cell_res(cell):
    return "/".join(p.get("res", "-") for p in cell)


def cell_out(cell):
    return "/".join(p.get("out", "") for p in cell)


def cell_m(cell, star=False):
    """live-block figures; on the pool route the first one (taken when uv_fs_* returns,
    while the worker thread may already be running) is not comparable"""
    ms = [p["m"] for p in cell if "m" in p]
    if star:
        ms = ["*" + m[m.index(","):] for m in ms]
    return "/".join(ms) if ms else "-"


def routes_projection(p):
    """What the model predicts, extracted from the implementation's line."""
    out = []
    for o in p["ops"]:
        R = o["R"]
        via = R[0].get("via", "-")
        sq = R[0].get("sqe", "-")
        if o["name"] == "cancel":
            out.append("%d:%s via=- sqe=- mS=- mP=%s mR=-" % (o["i"], o["name"], cell_m(o["P"])))
        else:
            out.append("%d:%s via=%s sqe=%s mS=%s mP=%s mR=%s%s" %
                       (o["i"], o["name"], via, sq, cell_m(o["S"]), cell_m(o["P"], True), cell_m(R, via != "r"),
                        (" bs=" + o["S"][0]["bs"]) if o["name"] == "readlink" and "bs" in o["S"][0] else ""))
    return " ; ".join(out) + " ; "


def routes_model_input(case, p, kv, ring):
    ops = case.split(" | ")
    items = []
    for txt, o in zip(ops, p["ops"]):
        if o["name"] == "readlink" and "pc" in o["S"][0]:
            txt = "%s %s" % (txt, o["S"][0]["pc"])      # the pathconf answer is an oracle input
        items.append("%s # %s %s %s" % (txt, cell_res(o["S"]), cell_res(o["P"]), cell_res(o["R"])))
    return "%s %d ; %s" % (kv, ring, " | ".join(items))


def routes_monitor_parsed(case, p):
    if isinstance(p, str):
        if p.startswith("crash 3"):
            return "asynchronous requests never completed: uv_run did not return within 20 s (%s)" % p[:100]
        return "the library crashed or hung on this sequence (%s)" % p[:80]
    if p is None:
        return "unparsable harness line"
    ops = case.split(" | ")
    if len(ops) != len(p["ops"]):
        return "harness reported %d operations for %d" % (len(p["ops"]), len(ops))
    ring_off = False
    for txt, o in zip(ops, p["ops"]):
        name = o["name"]
        for rt in "SPRX":
            for part in o[rt]:
                if part["_flags"]:
                    return "op %d (%s) route %s: %s" % (o["i"], txt, rt, " ".join(part["_flags"]))
        if name == "cancel":
            c = o["P"][0]
            if c.get("cancel") == "0":
                if c.get("res") != "-125" or c.get("cb") != "1":
                    return "op %d (%s): cancelled request: result %s, %s callbacks" % (o["i"], txt, c.get("res"), c.get("cb"))
            elif c.get("cb") != "1":
                return "op %d (%s): %s callbacks" % (o["i"], txt, c.get("cb"))
            m = c.get("m", "").split(",")
            if m[2:] != ["0", "0"]:
                return "op %d (%s): %s uv__malloc blocks live after uv_fs_req_cleanup of a cancelled request" % (o["i"], txt, m[2])
            continue
        if name == "statx95":
            c = o["R"][0]
            if c.get("res") == "-":
                continue
            if c.get("cb") != "1":
                return "op %d (%s): %s callbacks after the -EOPNOTSUPP completion" % (o["i"], txt, c.get("cb"))
            m = c.get("m", "0,0,0,0").split(",")
            if m[2:] != ["0", "0"]:
                return ("op %d (%s): ring statx completed with -EOPNOTSUPP and retried on the pool: %s/%s "
                        "uv__malloc blocks live after uv_fs_req_cleanup" % (o["i"], txt, m[2], m[3]))
            continue
        routes = "SPX" if ring_off else "SPRX"
        ref = (cell_res(o["X"]), cell_out(o["X"]))
        for rt in routes:
            got = (cell_res(o[rt]), cell_out(o[rt]))
            if got != ref:
                if (rt == "R" and name == "read" and got[0] == "0" and ref[0] == "-21" and o["R"][0].get("via") == "r"
                        and sum(parse_lens(txt.split()[3])) == 0 and got[1] == ref[1]):
                    continue    # kernel: IORING_OP_READV of zero bytes on a directory is 0, read(2) is EISDIR (notes, obs. 6)
                return "op %d (%s): route %s gives %s %s, POSIX gives %s %s" % (
                    o["i"], txt, {"S": "sync", "P": "pool", "R": "ring"}.get(rt, rt), got[0], got[1], ref[0], ref[1])
        if cell_res(o["X"]) == "alias" or name == "mkdirp":
            continue
        # callbacks exactly once, memory released
        for rt in "PR":
            for k, part in enumerate(o[rt]):
                early = "via" not in part
                want = "0" if early else "1"
                if part.get("cb") != want:
                    return "op %d (%s): %s callbacks on the %s route" % (o["i"], txt, part.get("cb"), rt)
        for rt in "SPR":
            for k, part in enumerate(o[rt]):
                m = part.get("m", "0,0,0,0").split(",")
                keep = "0"
                if name == "readdir" and k == 0 and part.get("res") == "0":
                    keep = "1"      # the uv_dir_t handed to the caller
                if name == "readdir" and k == 2:
                    keep = "-1"     # closedir releases it
                if m[2] != keep or m[3] != keep:
                    return "op %d (%s) route %s: %s/%s uv__malloc blocks live after uv_fs_req_cleanup (expected %s)" % (
                        o["i"], txt, rt, m[2], m[3], keep)
    t = p["tree"]
    for rt in ("SPX" if ring_off else "SPRX"):
        if t.get(rt) != t.get("X"):
            return "resulting tree of route %s differs from the POSIX mirror" % rt
    return None


# ----------------------------------------------------------------------------
# (iv) the pool route for every kind of UV_THREADPOOL_SIZE value
# ----------------------------------------------------------------------------
POOL_VALUES = [None, "0", "", "00", "+0", "zero", "-1", "1", "2", "4", "1024", "1025", "99999999999"]
POOL_OPS = ["stat", "read", "write", "scandir"]


def pool_token(v):
    return "unset" if v is None else "x" + v.encode("latin-1").hex()


def pool_value_of(tok):
    return None if tok == "unset" else bytes.fromhex(tok[1:]).decode("latin-1")


def pool_cases(rng, n):
    out = ["%s %s" % (pool_token(v), op) for v in POOL_VALUES for op in POOL_OPS]
    alphabet = "0123456789" * 3 + "+- \t" + "ax."
    for _ in range(n):
        r = rng.random()
        if r < 0.3:
            v = str(rng.choice([0, 1, 3, 5, 8, 64, 1023, 1024, 1025, 2**31 - 1, 2**31, 2**32 - 1, 2**32, 2**32 + 3,
                                2**63 - 1, 2**63, 2**64, 2**64 + 2, 10**30]))
            v = rng.choice(["", "", "-", "+", " ", "0"]) + v
        else:
            v = "".join(rng.choice(alphabet) for _ in range(rng.randint(0, 6)))
        out.append("%s %s" % (pool_token(v), rng.choice(POOL_OPS)))
    return out


POOL_RE = re.compile(r"^n=(-?\d+|\?)\s+S\{(.*?)\} P\{(.*?)\}\s*$")


def pool_monitor(case, line):
    tok, op = case.split()
    shown = "unset" if tok == "unset" else "\"%s\"" % pool_value_of(tok)
    if line.startswith("crash"):
        return "uv_fs_%s crashed the process with UV_THREADPOOL_SIZE=%s (%s)" % (op, shown, line[:60])
    m = POOL_RE.match(line.strip())
    if not m:
        return "unparsable harness line: %s" % line[:120]
    n, S, P = m.group(1), m.group(2), m.group(3)
    if P.startswith("hang"):
        return "asynchronous request never completed with UV_THREADPOOL_SIZE=%s (uv_fs_%s; %s worker threads started)" % (shown, op, n)
    cb = re.search(r" cb=(\d+)$", P)
    if not cb or cb.group(1) != "1":
        return "uv_fs_%s with UV_THREADPOOL_SIZE=%s: callback ran %s times" % (op, shown, cb.group(1) if cb else "?")
    if P[:cb.start()] != S:
        return "uv_fs_%s with UV_THREADPOOL_SIZE=%s: pool route gives {%s}, sync gives {%s}" % (op, shown, P[:cb.start()], S)
    if not (1 <= int(n) <= 1024):
        return "%s worker threads with UV_THREADPOOL_SIZE=%s" % (n, shown)
    return None


def pool_projection(line):
    m = POOL_RE.match(line.strip())
    return "n=%s" % m.group(1) if m else line[:80]


# ----------------------------------------------------------------------------
# (v) room in the submission ring: uv__iou_get_sqe on a fake 64-entry ring
# ----------------------------------------------------------------------------
def sqring_cases(rng, n):
    out = []
    for _ in range(n):
        head = rng.choice([0, 0, 1, 63, 64, 1000, 2**31, 2**32 - 70, 2**32 - 64, 2**32 - 5, 2**32 - 1, rng.randrange(2**32)])
        o0 = rng.choice([0, 0, 1, 30, 61, 62, 63, rng.randint(0, 63)])
        ops = []
        for _ in range(rng.randint(5, 200)):
            r = rng.random()
            if r < 0.7:
                ops += ["s"] * rng.choice([1, 1, 2, 5, 64, 70])
            else:
                ops.append("k%d" % rng.choice([1, 1, 2, 10, 62, 63, 64, 100]))
        out.append("%d %d ; %s" % (head, (head + o0) % 2**32, " ".join(ops[:3000])))
    return out


def sqring_monitor(case, line):
    """never more than 64 entries outstanding, never a slot granted whose entry the
    kernel has not consumed (the harness marks that with '!')"""
    if line.startswith("crash"):
        return "uv__iou_get_sqe crashed (%s)" % line[:60]
    if "!" in line:
        k = line.split().index(next(t for t in line.split() if t.endswith("!")))
        return "submission %d was given a slot whose previous entry the kernel had not consumed yet (%s)" % (
            k + 1, line.split()[k])
    m = re.search(r"h=(\d+) t=(\d+)$", line.strip())
    if not m:
        return "unparsable harness line"
    if (int(m.group(2)) - int(m.group(1))) % 2**32 > 64:
        return "more entries outstanding than the ring has slots"
    return None


# ----------------------------------------------------------------------------
def run_robust(cmd, cases, shards=8, env=None, keep=lambda l: True):
    """run_lines; when a process died (fewer lines than cases) every case is run in a
    process of its own so that the crashing inputs are known: their line is 'crash <rc>'."""
    import concurrent.futures
    o, rc, err = vf.run_lines(cmd, cases, shards=shards, env=env)
    extra = [l for l in o if not keep(l)]
    o = [l for l in o if keep(l)]
    if len(o) == len(cases):
        return o, extra, err or ""

    def one(c):
        try:
            oo, r, e = vf.run_lines(cmd, [c], timeout=120, env=env)
        except Exception as ex:       # timeout
            return "crash timeout", ""
        oo2 = [l for l in oo if keep(l)]
        ex = [l for l in oo if not keep(l)]
        if r != 0 or len(oo2) != 1:
            return "crash %s %s" % (r, (e or "")[-200:].replace("\n", " ")), ex
        return oo2[0], ex
    with concurrent.futures.ThreadPoolExecutor(12) as ex:
        res = list(ex.map(one, cases))
    for _, e in res:
        extra += e
    return [r for r, _ in res], extra, err or ""


def read_corpus(name):
    p = os.path.join(vf.VERIF, "corpus", "C11", name)
    if not os.path.exists(p):
        return []
    return [l.rstrip("\n") for l in open(p) if l.strip() and not l.startswith("#")]


def main():
    chk = vf.Check("C11")
    thorough = chk.tier == "thorough"
    chk.prove()
    try:
        lib = vf.build_libuv(chk.scratch, "ndebug")
        hbufs = vf.cc_harness(chk.scratch, "c11_bufs", ["c11_bufs.c"], lib=lib, wraps=WRAPS_BUFS,
                              extra=["-rdynamic"])
        hroutes = vf.cc_harness(chk.scratch, "c11_routes", ["c11_routes.c"], lib=lib, wraps=["syscall", "readlink"])
        hpool = vf.cc_harness(chk.scratch, "c11_pool", ["c11_pool.c"], lib=lib)
        hsq = vf.cc_harness(chk.scratch, "c11_sqring", ["c11_sqring.c"], lib=lib)
        hfilter = vf.cc_harness(chk.scratch, "c11_filter", ["c11_filter.c"], lib=lib)
        liba = vf.build_libuv(chk.scratch, "asan")
        hroutes_a = vf.cc_harness(chk.scratch, "c11_routes_asan", ["c11_routes.c"], lib=liba,
                                  flavour="asan", wraps=["syscall", "readlink"])
        hbufs_a = vf.cc_harness(chk.scratch, "c11_bufs_asan", ["c11_bufs.c"], lib=liba, flavour="asan",
                                wraps=WRAPS_BUFS, extra=["-rdynamic"])
        model = vf.model_bin("C11")
    except vf.BuildError as e:
        chk.violation("build failed: %s" % str(e)[:300], {"kind": "build", "log": str(e)}, found_input=False)
        chk.finish(rule="build failed")

    replay_case = None
    if chk.replay:
        rp = json.load(open(chk.replay))
        replay_case = (rp.get("obligation", ""), rp.get("case"))

    # ---- (i) buffers ----
    scratch_file = os.path.join(chk.scratch.dir, "scratch.bin")
    bc = read_corpus("bufs.txt") + bufs_cases(chk.rng, 6000 if thorough else 700)
    if replay_case:
        bc = [replay_case[1]] if replay_case[0].startswith("fs.c buffer") and replay_case[1] else []
    if bc:
        a, _, err = run_robust([hbufs, scratch_file], bc)
        if len(a) != len(bc):
            chk.violation("c11_bufs produced %d lines for %d cases: %s" % (len(a), len(bc), (err or "")[-300:]),
                          {"kind": "harness"}, found_input=False)
        else:
            minput = []
            for c, l in zip(bc, a):
                p = parse_bufs_line(l)
                answers = ",".join(str(x[5]) for x in p["calls"]) if p else ""
                minput.append("%s | %s" % (c, answers))
            b, rc2, err2 = vf.run_lines([model, "bufs"], minput, shards=8)
            vf.diff_cases(chk, "fs.c buffer arithmetic = Model/Fs.v part B", bc, a, b, bufs_monitor)
            chk.sample({"bufs_case": bc[-1][:200], "impl": a[-1][:300]})
            chk.cov["bufs_cases"] = len(bc)
            chk.cov["bufs_syscalls_intercepted"] = sum(l.count(":") // 5 for l in a)
            chk.cov["bufs_lists_above_iov_max"] = sum(1 for c in bc if len(parse_lens(c.split(";")[0].split()[4])) > IOV_MAX)
            # ASan flavour on a slice
            sl = bc[:120]
            aa, rca, erra = vf.run_lines([hbufs_a, scratch_file + ".asan"], sl, shards=4)
            if rca != 0 or "AddressSanitizer" in (erra or "") or "LeakSanitizer" in (erra or "") or "runtime error" in (erra or ""):
                chk.violation("ASan/LSan/UBSan report while running uv_fs_read/uv_fs_write + uv_fs_req_cleanup twice",
                              {"kind": "sanitizer", "log": (erra or "")[-3000:], "cases": sl[:5]}, found_input=True)
            elif [vf.canon(x) for x in aa] != [vf.canon(x) for x in a[:len(sl)]]:
                chk.violation("sanitizer build of the buffer harness behaves differently",
                              {"kind": "sanitizer"}, found_input=False)

    # ---- (ii) routes ----
    trees = os.path.join(chk.scratch.dir, "trees")
    os.makedirs(trees, exist_ok=True)
    rcs = read_corpus("routes.txt") + read_corpus("routes_statx.txt") + \
        routes_cases(chk.rng, 4000 if thorough else 300)
    if replay_case:
        rcs = [replay_case[1]] if replay_case[0].startswith("routes") and replay_case[1] else []
    if rcs:
        half = len(rcs) // 2
        outs, envs, errs, rcode = [], [], "", 0
        for part, tp in ((rcs[:half], "1"), (rcs[half:], "4")):
            if not part:
                continue
            env = dict(os.environ, UV_THREADPOOL_SIZE=tp)
            o, ex, err = run_robust([hroutes, trees], part, env=env, keep=lambda l: not l.startswith("env "))
            errs += err
            envs += ex
            outs += o
        m = re.match(r"env kv=(\d+) ring=(\d)", envs[0]) if envs else None
        if len(outs) != len(rcs) or not m:
            chk.violation("c11_routes produced %d lines for %d cases (rc %d): %s" % (len(outs), len(rcs), rcode, errs[-300:]),
                          {"kind": "harness"}, found_input=False)
        else:
            kv, ring = m.group(1), int(m.group(2))
            chk.cov["kernel_version_hex"] = hex(int(kv))
            chk.cov["sqpoll_ring_available"] = bool(ring)
            chk.cov["second_file_system"] = ("/dev/shm (tmpfs), st_dev differs from the scratch tree" if "xdev=1" in envs[0]
                                             else "SKIPPED: /dev/shm missing, not writable or on the same device; xdev/ is a plain directory")
            parsed = [l if l.startswith("crash") else parse_routes_line(l) for l in outs]
            full = {}
            proj, minput = [], []
            for c, l, p in zip(rcs, outs, parsed):
                full[c] = p
                if p is None or isinstance(p, str) or len(p["ops"]) != len(c.split(" | ")):
                    proj.append("unparsable: " + l[:200])
                    minput.append("%s %d ; " % (kv, ring))
                else:
                    proj.append(routes_projection(p))
                    minput.append(routes_model_input(c, p, kv, ring))
            b, rc2, err2 = vf.run_lines([model, "routes"], minput, shards=8)
            vf.diff_cases(chk, "routes: uv__iou_fs_* / route taken / ownership = Model/Fs.v parts A, C", rcs, proj, b,
                          lambda c, a: routes_monitor_parsed(c, full.get(c)))
            okp = [p for p in parsed if isinstance(p, dict)]
            nring = sum(1 for p in okp for o in p["ops"] if o["R"][0].get("via") == "r")
            nops = sum(len(p["ops"]) for p in okp)
            chk.cov["routes_sequences"] = len(rcs)
            chk.cov["routes_operations"] = nops
            chk.cov["routes_operations_completed_by_the_ring"] = nring
            bursts = [(int(o["R"][0].get("ring", 0)), o) for p in okp for o in p["ops"] if o["name"] == "burst"]
            chk.cov["burst_ops"] = len(bursts)
            chk.cov["burst_requests_accepted_by_the_ring"] = sum(b for b, _ in bursts)
            if not ring:
                chk.cov["note_sqpoll"] = "io_uring_setup(SQPOLL) not available here: ring route and bursts ran on the pool; " \
                                         "only the deterministic ring-full correspondence covers uv__iou_get_sqe"
            chk.sample({"routes_case": rcs[-1][:300], "impl": outs[-1][:600]})
            if ring and nring == 0:
                chk.violation("the SQPOLL ring exists but no operation was routed through it",
                              {"kind": "harness"}, found_input=False)
            # ---- (iii) sanitizer flavour ----
            sl = [c for c in rcs if "burst" not in c][:(400 if thorough else 60)] + ["burst mixed 66 1 | burst open 65 1"]
            env = dict(os.environ, UV_THREADPOOL_SIZE="4", ASAN_OPTIONS="detect_leaks=1")
            oa, rca, erra = vf.run_lines([hroutes_a, trees], sl, shards=4, env=env)
            bad = rca != 0 or any(s in (erra or "") for s in ("AddressSanitizer", "LeakSanitizer", "runtime error"))
            if bad:
                chk.violation("ASan/LSan/UBSan report while running file operations and uv_fs_req_cleanup twice in every result state",
                              {"kind": "sanitizer", "log": (erra or "")[-3000:], "cases": sl[:5]}, found_input=True)
            chk.cov["sanitizer_sequences"] = len(sl)

    # ---- (vi) an application allocator whose free() clobbers errno ----
    if rcs and not replay_case or (replay_case and replay_case[0].startswith("clobber")):
        ccs = [replay_case[1]] if replay_case else [c for c in read_corpus("routes.txt") if "burst" not in c] + \
            ["burst mixed 66 1"] + read_corpus("clobber.txt") + \
            [c for c in rcs[len(read_corpus("routes.txt")) + len(read_corpus("routes_statx.txt")):] if "burst" not in c][:120]
        env = dict(os.environ, UV_THREADPOOL_SIZE="4", C11_CLOBBER="1")
        co, cex, cerr = run_robust([hroutes, trees], ccs, env=env, keep=lambda l: not l.startswith("env "))
        if len(co) != len(ccs):
            chk.violation("c11_routes (errno-clobbering allocator) produced %d lines for %d cases" % (len(co), len(ccs)),
                          {"kind": "harness"}, found_input=False)
        else:
            nb = 0
            for c, l in zip(ccs, co):
                chk.count("clobber", c + "=>" + l)
                p = l if l.startswith("crash") else parse_routes_line(l)
                reason = routes_monitor_parsed(c, p)
                if reason:
                    nb += 1
                    if nb <= 3:
                        chk.violation("clobber: result differs when the allocator's free() clobbers errno: %s" % reason,
                                      {"kind": "monitor", "obligation": "clobber: uv_replace_allocator with a free() that sets errno",
                                       "case": c, "impl": l[:3000]}, found_input=True)
            chk.corr("routes under an allocator whose free() sets errno = 9999 (monitor only)", len(ccs))

    # ---- (v) room in the submission ring ----
    scs = read_corpus("sqring.txt") + sqring_cases(chk.rng, 3000 if thorough else 300)
    if replay_case:
        scs = [replay_case[1]] if replay_case[0].startswith("sqring") and replay_case[1] else []
    if scs:
        so, _, serr = run_robust([hsq], scs, shards=4)
        sm, _, _ = vf.run_lines([model, "sqring"], scs, shards=4)
        vf.diff_cases(chk, "sqring: uv__iou_get_sqe room decision = Model/Fs.v sq_submit", scs, so, sm, sqring_monitor)
        chk.cov["sqring_cases"] = len(scs)
        chk.cov["sqring_submissions"] = sum(l.count("g") + l.count("f ") for l in so)
        chk.cov["sqring_fallbacks"] = sum(l.count("f ") for l in so)

    # ---- (vii) the scandir filter called directly ----
    if not replay_case or replay_case[0].startswith("filter"):
        import itertools
        fcs = ["-"] + ["".join(t) for k in range(1, 6) for t in itertools.product(["2e", "61", "20", "ff"], repeat=k)]
        fcs += ["2e" * k for k in (6, 7, 100, 254, 255)] + ["2e" * 3 + "00"]
        fcs += ["".join(chk.rng.choice(["2e", "2e", "2f", "41", "0a", "c3", "a9", "2d"]) for _ in range(chk.rng.randint(1, 12)))
                for _ in range(200)]
        if replay_case:
            fcs = [replay_case[1]]
        fo, _, _ = run_robust([hfilter], fcs, shards=2)
        fm, _, _ = vf.run_lines([model, "filter"], fcs, shards=2)

        def filter_monitor(c, a):
            name = b"" if c == "-" else bytes.fromhex(c).split(b"\0")[0]
            want = "0" if name in (b".", b"..") else "1"
            if a.strip() != want:
                return "uv_fs_scandir %s the entry named %r" % ("drops" if want == "1" else "reports", name)
            return None
        vf.diff_cases(chk, "filter: uv__fs_scandir_filter = Model/Fs.v scandir_keeps", fcs, fo, fm, filter_monitor)
        chk.cov["scandir_filter_names"] = len(fcs)

    # ---- (iv) pool sizes ----
    pcs = read_corpus("pool.txt") + pool_cases(chk.rng, 300 if thorough else 40)
    if replay_case:
        pcs = [replay_case[1]] if replay_case[0].startswith("pool") and replay_case[1] else []
    if pcs:
        pdir = os.path.join(chk.scratch.dir, "pool")
        os.makedirs(pdir, exist_ok=True)
        env = dict(os.environ)
        env.pop("UV_THREADPOOL_SIZE", None)
        po, _, perr = run_robust([hpool, pdir], pcs, shards=8, env=env)
        if len(po) != len(pcs):
            chk.violation("c11_pool produced %d lines for %d cases: %s" % (len(po), len(pcs), perr[-300:]),
                          {"kind": "harness"}, found_input=False)
        else:
            full_pool = dict(zip(pcs, po))
            pm, _, _ = vf.run_lines([model, "pool"], pcs, shards=2)
            vf.diff_cases(chk, "pool: threadpool.c init_threads (workers started) = Model/Fs.v pool_size", pcs,
                          [pool_projection(l) for l in po], pm,
                          lambda c, a: pool_monitor(c, full_pool.get(c, a)))
            chk.cov["pool_size_cases"] = len(pcs)
            chk.cov["pool_size_values"] = sorted(set(repr(pool_value_of(c.split()[0])) for c in pcs))[:60]
            chk.sample({"pool_case": pcs[min(6, len(pcs) - 1)], "impl": po[min(6, len(po) - 1)][:200]})

    chk.finish(
        level="proof",
        rule="buffers: random buffer lists of 1..1100 entries (zero lengths, runs of empty buffers, lists above IOV_MAX), "
             "offsets -1/0/arbitrary, per-call scripts forcing short/failed/interrupted system calls; compared: result, "
             "every system call (entry point, iovcnt, bytes, offset, payload hash), file content, buffers, descriptor position. "
             "routes: random operation sequences over a fixed tree (existing/missing/wrong-type/existing-target paths, "
             "descriptor slots), four routes on fresh trees; model compared on route taken, SQE fields and live uv__malloc "
             "blocks at four points; monitor compares results, outputs, callback counts, trees against the POSIX mirror. "
             "bursts of 63..1000 requests before uv_run on every route; the same sequences under an allocator whose free() sets "
             "errno; uv__iou_get_sqe on a fake 64-entry ring with scripted head/tail against sq_run. "
             "pool: one child process per (UV_THREADPOOL_SIZE value, operation): unset, \"0\", \"\", \"00\", \"+0\", text, "
             "negative, 1, 2, 4, 1024, 1025, beyond int/long and random strings; watchdog 3 s; worker threads counted in "
             "/proc/self/task and compared with pool_size; pool result compared with the sync result. "
             "A case is non-trivial when its (case, implementation line) pair is distinct.",
        trusted=["Coq 8.16.1 kernel (coqc)", "ExtrOcamlBasic extraction + OCaml 4.13.1 + ocaml/zutil.ml, ocaml/drv_c11.ml",
                 "harness/c11_bufs.c, harness/c11_routes.c (wrappers, POSIX mirror, tree digest), checks/c11.py (generators, monitors)",
                 "gcc 12, ASan/LSan/UBSan, glibc, Linux kernel (POSIX and io_uring semantics: Section variable posix, kernel_of_sqe)"],
        explanation="'matches the corresponding POSIX calls' is a differential test against this kernel (partial); "
                    "copyfile/sendfile/scandir/realpath internals are compared, not modelled.")


if __name__ == "__main__":
    main()
